(* Proofs about the integer part of the codec model (Codec.v). Stdlib only, axiom-free. *)
From Coq Require Import Bool NArith ZArith List Lia ZifyN ZifyNat ZifyBool.
From SK Require Import Codec.Codec.
Import ListNotations.
Open Scope bool_scope.
Open Scope N_scope.
Ltac Zify.zify_post_hook ::= Z.div_mod_to_equations.

(* ------------------------------------------------------------------ *)
(* Unfolding lemmas for the fuelled loops                              *)
(* ------------------------------------------------------------------ *)
Lemma dec_uv_step fuel i x s n tl : dec_uv_loop fuel i x s (n :: tl) =
    if (n <? 128) || Nat.eqb i 8 then Ok (wrap64 (N.lor x (N.shiftl n s))) tl
    else match fuel with
         | O => Eof
         | S f => dec_uv_loop f (S i) (N.lor x (N.shiftl (N.land n 127) s)) (s + 7) tl
         end.
Proof. destruct fuel; reflexivity. Qed.
Lemma dec_uv_nil fuel i x s : dec_uv_loop fuel i x s [] = Eof.
Proof. destruct fuel; reflexivity. Qed.
Lemma enc_uv_0 v : enc_uv_loop 0 v = [N.land v 255].
Proof. reflexivity. Qed.
Lemma enc_uv_S f v : enc_uv_loop (S f) v =
    if v <? 128 then [N.land v 255]
    else N.lor (N.land v 255) 128 :: enc_uv_loop f (N.shiftr v 7).
Proof. reflexivity. Qed.
Lemma dec_vf_step fuel i x s n tl : dec_vf_loop fuel i x s (n :: tl) =
    if Nat.eqb i 8 then Ok (N.lor x n) tl
    else if n <? 128 then Ok (N.lor x (N.shiftl n s)) tl
    else match fuel with
         | O => Eof
         | S f => dec_vf_loop f (S i) (N.lor x (N.shiftl (N.land n 127) s)) (s - 7) tl
         end.
Proof. destruct fuel; reflexivity. Qed.
Lemma dec_vf_nil fuel i x s : dec_vf_loop fuel i x s [] = Eof.
Proof. destruct fuel; reflexivity. Qed.
Lemma enc_vf_0 x : enc_vf_loop 0 x = [N.shiftr x 56].
Proof. reflexivity. Qed.
Lemma enc_vf_S f x : enc_vf_loop (S f) x =
    if wrap64 (N.shiftl x 7) =? 0 then [N.shiftr x 57]
    else N.lor (N.shiftr x 57) 128 :: enc_vf_loop f (wrap64 (N.shiftl x 7)).
Proof. reflexivity. Qed.
Arguments dec_uv_loop : simpl never.
Arguments enc_uv_loop : simpl never.
Arguments dec_vf_loop : simpl never.
Arguments enc_vf_loop : simpl never.

(* ------------------------------------------------------------------ *)
(* Arithmetic facts                                                    *)
(* ------------------------------------------------------------------ *)
Lemma W64_pow : W64 = 2^64.
Proof. reflexivity. Qed.
Lemma land255 v : N.land v 255 = v mod 256.
Proof. change 255 with (N.ones 8). rewrite N.land_ones. reflexivity. Qed.
Lemma land127 v : N.land v 127 = v mod 128.
Proof. change 127 with (N.ones 7). rewrite N.land_ones. reflexivity. Qed.
Lemma shr7 v : N.shiftr v 7 = v / 128.
Proof. rewrite N.shiftr_div_pow2. reflexivity. Qed.
Lemma pow2_pos k : 0 < 2^k.
Proof. apply N.neq_0_lt_0, N.pow_nonzero. lia. Qed.
Lemma small_testbit_high a k n : a < 2^k -> k <= n -> N.testbit a n = false.
Proof.
  intros Ha Hn. destruct (N.eq_dec a 0) as [->|Hz]; [apply N.bits_0|].
  apply N.bits_above_log2. apply N.lt_le_trans with k; [|exact Hn].
  apply N.log2_lt_pow2; lia.
Qed.
Lemma land_disjoint a b k : a < 2^k -> N.land a (b * 2^k) = 0.
Proof.
  intros Ha. apply N.bits_inj. intros n. rewrite N.land_spec, N.bits_0.
  destruct (N.ltb_spec n k) as [Hlt|Hge].
  - rewrite N.mul_pow2_bits_low by lia. apply andb_false_r.
  - rewrite (small_testbit_high a k n) by lia. reflexivity.
Qed.
Lemma lor_disjoint_add a b k : a < 2^k -> N.lor a (N.shiftl b k) = a + b * 2^k.
Proof.
  intros Ha. rewrite N.shiftl_mul_pow2.
  rewrite <- N.lxor_lor by (apply land_disjoint; exact Ha).
  symmetry. apply N.add_nocarry_lxor. apply land_disjoint; exact Ha.
Qed.
(* high part a multiple of 2^k, low part below 2^k *)
Lemma lor_high_low a b k : a mod 2^k = 0 -> b < 2^k -> N.lor a b = a + b.
Proof.
  intros Ha Hb.
  pose proof (pow2_pos k) as Hp.
  assert (Hq : a = (a / 2^k) * 2^k).
  { pose proof (N.div_mod a (2^k) ltac:(lia)) as Hdm. rewrite Ha in Hdm. lia. }
  set (c := a / 2^k) in *. rewrite Hq. rewrite N.lor_comm, N.add_comm.
  rewrite <- N.shiftl_mul_pow2. rewrite lor_disjoint_add by exact Hb.
  rewrite N.shiftl_mul_pow2. reflexivity.
Qed.
Lemma lor_lt_pow2 a b k : a < 2^k -> b < 2^k -> N.lor a b < 2^k.
Proof.
  intros Ha Hb.
  destruct (N.eq_dec (N.lor a b) 0) as [Hz|Hnz]; [rewrite Hz; apply pow2_pos|].
  apply N.log2_lt_pow2; [lia|]. rewrite N.log2_lor.
  destruct (N.eq_dec a 0) as [->|Ha0]; destruct (N.eq_dec b 0) as [->|Hb0].
  - exfalso. apply Hnz. reflexivity.
  - rewrite N.max_r by (cbn; lia). apply N.log2_lt_pow2; lia.
  - rewrite N.max_l by (cbn; lia). apply N.log2_lt_pow2; lia.
  - apply N.max_lub_lt; apply N.log2_lt_pow2; lia.
Qed.

(* finite sweep over bytes, lifted *)
Definition bytes256 : list N := map N.of_nat (seq 0 256).
Lemma in_bytes256 b : b < 256 -> In b bytes256.
Proof.
  intros H. unfold bytes256. apply in_map_iff. exists (N.to_nat b).
  split; [lia|]. apply in_seq. lia.
Qed.
Lemma byte_sweep (P : N -> bool) : forallb P bytes256 = true -> forall b, b < 256 -> P b = true.
Proof. intros H b Hb. rewrite forallb_forall in H. apply H, in_bytes256, Hb. Qed.
Lemma lor128 b : b < 256 -> N.lor b 128 = b mod 128 + 128.
Proof.
  intros Hb. apply N.eqb_eq. revert b Hb.
  apply (byte_sweep (fun b => N.lor b 128 =? b mod 128 + 128)). vm_compute. reflexivity.
Qed.

Lemma pow_split i : 2^(7 * N.of_nat (S i)) = 2^(7 * N.of_nat i) * 128.
Proof. replace (7 * N.of_nat (S i)) with (7 * N.of_nat i + 7) by lia. rewrite N.pow_add_r. reflexivity. Qed.
Lemma split64 i : (i <= 8)%nat -> 2^(64 - 7 * N.of_nat i) * 2^(7 * N.of_nat i) = W64.
Proof. intros H. rewrite <- N.pow_add_r. rewrite W64_pow. f_equal. lia. Qed.
Lemma split_hi i : (i <= 7)%nat -> 2^(64 - 7 * N.of_nat i) = 2^(64 - 7 * N.of_nat (S i)) * 128.
Proof. intros H. change 128 with (2^7). rewrite <- N.pow_add_r. f_equal. lia. Qed.

(* ------------------------------------------------------------------ *)
(* a. uvarint round trip                                               *)
(* ------------------------------------------------------------------ *)
Lemma dec_enc_uv_loop : forall f i x v rest,
  (i + f = 8)%nat -> x < 2^(7 * N.of_nat i) -> v < 2^(64 - 7 * N.of_nat i) ->
  dec_uv_loop (S f) i x (7 * N.of_nat i) (enc_uv_loop f v ++ rest) = Ok (x + v * 2^(7 * N.of_nat i)) rest.
Proof.
  induction f as [|f IH]; intros i x v rest Hi Hx Hv.
  - assert (i = 8%nat) by lia. subst i. rewrite enc_uv_0. cbn [app]. rewrite dec_uv_step.
    change (7 * N.of_nat 8) with 56 in *. change (2^(64-56)) with 256 in Hv.
    rewrite land255, N.mod_small by lia.
    rewrite Nat.eqb_refl, orb_true_r.
    rewrite lor_disjoint_add by exact Hx. unfold wrap64. rewrite N.mod_small; [reflexivity|].
    set (p := 2^56) in *. change W64 with (256 * p).
    assert (v * p <= 255 * p) by (apply N.mul_le_mono_r; lia). lia.
  - rewrite enc_uv_S.
    pose proof (split64 i ltac:(lia)) as H64.
    set (p := 2^(7 * N.of_nat i)) in *. set (q := 2^(64 - 7 * N.of_nat i)) in *.
    assert (Hpos : 0 < p) by (apply pow2_pos).
    assert (Hsmall : x + v * p < W64).
    { rewrite <- H64. assert (v * p <= (q - 1) * p) by (apply N.mul_le_mono_r; lia). nia. }
    destruct (N.ltb_spec v 128) as [Hlt|Hge].
    + cbn [app]. rewrite dec_uv_step. rewrite land255, N.mod_small by lia.
      replace (v <? 128) with true by (symmetry; apply N.ltb_lt; exact Hlt). cbn [orb].
      rewrite lor_disjoint_add by exact Hx. unfold wrap64. rewrite N.mod_small; [reflexivity|]. exact Hsmall.
    + cbn [app]. rewrite dec_uv_step. rewrite land255.
      rewrite lor128 by (apply N.mod_lt; lia).
      assert (Hmm : (v mod 256) mod 128 = v mod 128) by lia.
      rewrite Hmm.
      assert (Hb : v mod 128 + 128 <? 128 = false) by (apply N.ltb_ge; lia).
      rewrite Hb. cbn [orb].
      assert (Hi8 : Nat.eqb i 8 = false) by (apply Nat.eqb_neq; lia).
      rewrite Hi8.
      rewrite land127.
      replace ((v mod 128 + 128) mod 128) with (v mod 128) by lia.
      rewrite shr7.
      rewrite lor_disjoint_add by exact Hx. fold p.
      replace (7 * N.of_nat i + 7) with (7 * N.of_nat (S i)) by lia.
      pose proof (N.div_mod v 128 ltac:(lia)) as Hdm.
      pose proof (N.mod_lt v 128 ltac:(lia)) as Hml.
      rewrite IH.
      * f_equal. rewrite pow_split. fold p. nia.
      * lia.
      * rewrite pow_split. fold p. nia.
      * unfold q in Hv. rewrite (split_hi i) in Hv by lia.
        set (q' := 2^(64 - 7 * N.of_nat (S i))) in *. apply N.div_lt_upper_bound; lia.
Qed.

Theorem uvarint_roundtrip v rest : v < W64 -> dec_uv (enc_uv v ++ rest) = Ok v rest.
Proof.
  intros Hv. unfold dec_uv, enc_uv.
  pose proof (dec_enc_uv_loop 8 0 0 v rest eq_refl) as H.
  change (7 * N.of_nat 0) with 0 in H. change (2^0) with 1 in H. change (2^(64-0)) with W64 in H.
  rewrite H by lia. f_equal. lia.
Qed.
