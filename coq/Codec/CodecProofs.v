(* Proofs about the integer part of the codec model (Codec.v). Stdlib only, axiom-free. *)
From Coq Require Import Bool NArith ZArith List Lia ZifyN ZifyNat ZifyBool.
From SK Require Import Codec.Codec.
Import ListNotations.
Open Scope bool_scope.
Open Scope N_scope.
Ltac Zify.zify_post_hook ::= Z.div_mod_to_equations.

(* ------------------------------------------------------------------ *)
(* Unfolding lemmas for the fuelled loops                              *)
(* ------------------------------------------------------------------ *)
Lemma dec_uv_step fuel i x s n tl : dec_uv_loop fuel i x s (n :: tl) =
    if (n <? 128) || Nat.eqb i 8 then Ok (wrap64 (N.lor x (N.shiftl n s))) tl
    else match fuel with
         | O => Eof
         | S f => dec_uv_loop f (S i) (N.lor x (N.shiftl (N.land n 127) s)) (s + 7) tl
         end.
Proof. destruct fuel; reflexivity. Qed.
Lemma dec_uv_nil fuel i x s : dec_uv_loop fuel i x s [] = Eof.
Proof. destruct fuel; reflexivity. Qed.
Lemma enc_uv_0 v : enc_uv_loop 0 v = [N.land v 255].
Proof. reflexivity. Qed.
Lemma enc_uv_S f v : enc_uv_loop (S f) v =
    if v <? 128 then [N.land v 255]
    else N.lor (N.land v 255) 128 :: enc_uv_loop f (N.shiftr v 7).
Proof. reflexivity. Qed.
Lemma dec_vf_step fuel i x s n tl : dec_vf_loop fuel i x s (n :: tl) =
    if Nat.eqb i 8 then Ok (N.lor x n) tl
    else if n <? 128 then Ok (N.lor x (N.shiftl n s)) tl
    else match fuel with
         | O => Eof
         | S f => dec_vf_loop f (S i) (N.lor x (N.shiftl (N.land n 127) s)) (s - 7) tl
         end.
Proof. destruct fuel; reflexivity. Qed.
Lemma dec_vf_nil fuel i x s : dec_vf_loop fuel i x s [] = Eof.
Proof. destruct fuel; reflexivity. Qed.
Lemma enc_vf_0 x : enc_vf_loop 0 x = [N.shiftr x 56].
Proof. reflexivity. Qed.
Lemma enc_vf_S f x : enc_vf_loop (S f) x =
    if wrap64 (N.shiftl x 7) =? 0 then [N.shiftr x 57]
    else N.lor (N.shiftr x 57) 128 :: enc_vf_loop f (wrap64 (N.shiftl x 7)).
Proof. reflexivity. Qed.
Arguments dec_uv_loop : simpl never.
Arguments enc_uv_loop : simpl never.
Arguments dec_vf_loop : simpl never.
Arguments enc_vf_loop : simpl never.

(* ------------------------------------------------------------------ *)
(* Arithmetic facts                                                    *)
(* ------------------------------------------------------------------ *)
Lemma W64_pow : W64 = 2^64.
Proof. reflexivity. Qed.
Lemma land255 v : N.land v 255 = v mod 256.
Proof. change 255 with (N.ones 8). rewrite N.land_ones. reflexivity. Qed.
Lemma land127 v : N.land v 127 = v mod 128.
Proof. change 127 with (N.ones 7). rewrite N.land_ones. reflexivity. Qed.
Lemma shr7 v : N.shiftr v 7 = v / 128.
Proof. rewrite N.shiftr_div_pow2. reflexivity. Qed.
Lemma pow2_pos k : 0 < 2^k.
Proof. apply N.neq_0_lt_0, N.pow_nonzero. lia. Qed.
Lemma small_testbit_high a k n : a < 2^k -> k <= n -> N.testbit a n = false.
Proof.
  intros Ha Hn. destruct (N.eq_dec a 0) as [->|Hz]; [apply N.bits_0|].
  apply N.bits_above_log2. apply N.lt_le_trans with k; [|exact Hn].
  apply N.log2_lt_pow2; lia.
Qed.
Lemma land_disjoint a b k : a < 2^k -> N.land a (b * 2^k) = 0.
Proof.
  intros Ha. apply N.bits_inj. intros n. rewrite N.land_spec, N.bits_0.
  destruct (N.ltb_spec n k) as [Hlt|Hge].
  - rewrite N.mul_pow2_bits_low by lia. apply andb_false_r.
  - rewrite (small_testbit_high a k n) by lia. reflexivity.
Qed.
Lemma lor_disjoint_add a b k : a < 2^k -> N.lor a (N.shiftl b k) = a + b * 2^k.
Proof.
  intros Ha. rewrite N.shiftl_mul_pow2.
  rewrite <- N.lxor_lor by (apply land_disjoint; exact Ha).
  symmetry. apply N.add_nocarry_lxor. apply land_disjoint; exact Ha.
Qed.
(* high part a multiple of 2^k, low part below 2^k *)
Lemma lor_high_low a b k : a mod 2^k = 0 -> b < 2^k -> N.lor a b = a + b.
Proof.
  intros Ha Hb.
  pose proof (pow2_pos k) as Hp.
  assert (Hq : a = (a / 2^k) * 2^k).
  { pose proof (N.div_mod a (2^k) ltac:(lia)) as Hdm. rewrite Ha in Hdm. lia. }
  set (c := a / 2^k) in *. rewrite Hq. rewrite N.lor_comm, N.add_comm.
  rewrite <- N.shiftl_mul_pow2. rewrite lor_disjoint_add by exact Hb.
  rewrite N.shiftl_mul_pow2. reflexivity.
Qed.
Lemma lor_lt_pow2 a b k : a < 2^k -> b < 2^k -> N.lor a b < 2^k.
Proof.
  intros Ha Hb.
  destruct (N.eq_dec (N.lor a b) 0) as [Hz|Hnz]; [rewrite Hz; apply pow2_pos|].
  apply N.log2_lt_pow2; [lia|]. rewrite N.log2_lor.
  destruct (N.eq_dec a 0) as [->|Ha0]; destruct (N.eq_dec b 0) as [->|Hb0].
  - exfalso. apply Hnz. reflexivity.
  - rewrite N.max_r by (cbn; lia). apply N.log2_lt_pow2; lia.
  - rewrite N.max_l by (cbn; lia). apply N.log2_lt_pow2; lia.
  - apply N.max_lub_lt; apply N.log2_lt_pow2; lia.
Qed.

(* finite sweep over bytes, lifted *)
Definition bytes256 : list N := map N.of_nat (seq 0 256).
Lemma in_bytes256 b : b < 256 -> In b bytes256.
Proof.
  intros H. unfold bytes256. apply in_map_iff. exists (N.to_nat b).
  split; [lia|]. apply in_seq. lia.
Qed.
Lemma byte_sweep (P : N -> bool) : forallb P bytes256 = true -> forall b, b < 256 -> P b = true.
Proof. intros H b Hb. rewrite forallb_forall in H. apply H, in_bytes256, Hb. Qed.
Lemma lor128 b : b < 256 -> N.lor b 128 = b mod 128 + 128.
Proof.
  intros Hb. apply N.eqb_eq. revert b Hb.
  apply (byte_sweep (fun b => N.lor b 128 =? b mod 128 + 128)). vm_compute. reflexivity.
Qed.

Lemma pow_split i : 2^(7 * N.of_nat (S i)) = 2^(7 * N.of_nat i) * 128.
Proof. replace (7 * N.of_nat (S i)) with (7 * N.of_nat i + 7) by lia. rewrite N.pow_add_r. reflexivity. Qed.
Lemma split64 i : (i <= 8)%nat -> 2^(64 - 7 * N.of_nat i) * 2^(7 * N.of_nat i) = W64.
Proof. intros H. rewrite <- N.pow_add_r. rewrite W64_pow. f_equal. lia. Qed.
Lemma split_hi i : (i <= 7)%nat -> 2^(64 - 7 * N.of_nat i) = 2^(64 - 7 * N.of_nat (S i)) * 128.
Proof. intros H. change 128 with (2^7). rewrite <- N.pow_add_r. f_equal. lia. Qed.

(* ------------------------------------------------------------------ *)
(* a. uvarint round trip                                               *)
(* ------------------------------------------------------------------ *)
Lemma dec_enc_uv_loop : forall f i x v rest,
  (i + f = 8)%nat -> x < 2^(7 * N.of_nat i) -> v < 2^(64 - 7 * N.of_nat i) ->
  dec_uv_loop (S f) i x (7 * N.of_nat i) (enc_uv_loop f v ++ rest) = Ok (x + v * 2^(7 * N.of_nat i)) rest.
Proof.
  induction f as [|f IH]; intros i x v rest Hi Hx Hv.
  - assert (i = 8%nat) by lia. subst i. rewrite enc_uv_0. cbn [app]. rewrite dec_uv_step.
    change (7 * N.of_nat 8) with 56 in *. change (2^(64-56)) with 256 in Hv.
    rewrite land255, N.mod_small by lia.
    rewrite Nat.eqb_refl, orb_true_r.
    rewrite lor_disjoint_add by exact Hx. unfold wrap64. rewrite N.mod_small; [reflexivity|].
    set (p := 2^56) in *. change W64 with (256 * p).
    assert (v * p <= 255 * p) by (apply N.mul_le_mono_r; lia). lia.
  - rewrite enc_uv_S.
    pose proof (split64 i ltac:(lia)) as H64.
    set (p := 2^(7 * N.of_nat i)) in *. set (q := 2^(64 - 7 * N.of_nat i)) in *.
    assert (Hpos : 0 < p) by (apply pow2_pos).
    assert (Hsmall : x + v * p < W64).
    { rewrite <- H64. assert (v * p <= (q - 1) * p) by (apply N.mul_le_mono_r; lia). nia. }
    destruct (N.ltb_spec v 128) as [Hlt|Hge].
    + cbn [app]. rewrite dec_uv_step. rewrite land255, N.mod_small by lia.
      replace (v <? 128) with true by (symmetry; apply N.ltb_lt; exact Hlt). cbn [orb].
      rewrite lor_disjoint_add by exact Hx. unfold wrap64. rewrite N.mod_small; [reflexivity|]. exact Hsmall.
    + cbn [app]. rewrite dec_uv_step. rewrite land255.
      rewrite lor128 by (apply N.mod_lt; lia).
      assert (Hmm : (v mod 256) mod 128 = v mod 128) by lia.
      rewrite Hmm.
      assert (Hb : v mod 128 + 128 <? 128 = false) by (apply N.ltb_ge; lia).
      rewrite Hb. cbn [orb].
      assert (Hi8 : Nat.eqb i 8 = false) by (apply Nat.eqb_neq; lia).
      rewrite Hi8.
      rewrite land127.
      replace ((v mod 128 + 128) mod 128) with (v mod 128) by lia.
      rewrite shr7.
      rewrite lor_disjoint_add by exact Hx. fold p.
      replace (7 * N.of_nat i + 7) with (7 * N.of_nat (S i)) by lia.
      pose proof (N.div_mod v 128 ltac:(lia)) as Hdm.
      pose proof (N.mod_lt v 128 ltac:(lia)) as Hml.
      rewrite IH.
      * f_equal. rewrite pow_split. fold p.
        transitivity (x + (128 * (v / 128) + v mod 128) * p); [ring|rewrite <- Hdm; reflexivity].
      * lia.
      * rewrite pow_split. fold p.
        assert (Hmp : v mod 128 * p <= 127 * p) by (apply N.mul_le_mono_r; clear - Hml; lia).
        clear - Hmp Hx. lia.
      * unfold q in Hv. rewrite (split_hi i) in Hv by lia.
        set (q' := 2^(64 - 7 * N.of_nat (S i))) in *. apply N.div_lt_upper_bound; lia.
Qed.

Theorem uvarint_roundtrip v rest : v < W64 -> dec_uv (enc_uv v ++ rest) = Ok v rest.
Proof.
  intros Hv. unfold dec_uv, enc_uv.
  pose proof (dec_enc_uv_loop 8 0 0 v rest eq_refl) as H.
  change (7 * N.of_nat 0) with 0 in H. change (2^0) with 1 in H. change (2^(64-0)) with W64 in H.
  rewrite H by lia. f_equal. lia.
Qed.

(* ------------------------------------------------------------------ *)
(* b. zig-zag                                                          *)
(* ------------------------------------------------------------------ *)
Lemma lxor_ones64 a : a < W64 -> N.lxor a ones64 = ones64 - a.
Proof.
  intros Ha.
  assert (Hd : N.land a (N.lxor a ones64) = 0).
  { apply N.bits_inj. intros n. rewrite N.land_spec, N.lxor_spec, N.bits_0.
    change ones64 with (N.ones 64).
    destruct (N.ltb_spec n 64) as [Hlt|Hge].
    - rewrite N.ones_spec_low by exact Hlt. destruct (N.testbit a n); reflexivity.
    - rewrite (small_testbit_high a 64 n) by (try exact Ha; lia). reflexivity. }
  pose proof (N.add_nocarry_lxor _ _ Hd) as Hadd.
  rewrite <- N.lxor_assoc, N.lxor_nilpotent, N.lxor_0_l in Hadd.
  lia.
Qed.

Lemma zz_enc_u_val u : u < W64 ->
  zz_enc_u u = if u <? 9223372036854775808 then 2 * u else 1 + 2 * (ones64 - u).
Proof.
  intros Hu. unfold zz_enc_u. rewrite N.shiftl_mul_pow2. change (2^1) with 2.
  destruct (N.leb_spec 9223372036854775808 u) as [Hge|Hlt].
  - replace (u <? 9223372036854775808) with false by (symmetry; apply N.ltb_ge; exact Hge).
    assert (Hw : wrap64 (u * 2) = u * 2 - W64) by (unfold wrap64, W64 in *; lia).
    rewrite Hw, N.lxor_comm, lxor_ones64 by (unfold W64 in *; lia).
    unfold ones64, W64 in *. lia.
  - replace (u <? 9223372036854775808) with true by (symmetry; apply N.ltb_lt; exact Hlt).
    rewrite N.lxor_0_l. unfold wrap64, W64. rewrite N.mod_small by lia. lia.
Qed.

Theorem zz_enc_u_lt u : u < W64 -> zz_enc_u u < W64.
Proof.
  intros Hu. rewrite zz_enc_u_val by exact Hu.
  destruct (N.ltb_spec u 9223372036854775808) as [Hlt|Hge]; unfold ones64, W64 in *; lia.
Qed.

Theorem zz_dec_enc_u u : u < W64 -> zz_dec_u (zz_enc_u u) = u.
Proof.
  intros Hu. rewrite zz_enc_u_val by exact Hu. unfold zz_dec_u.
  destruct (N.ltb_spec u 9223372036854775808) as [Hlt|Hge].
  - rewrite N.odd_mul. change (N.odd 2) with false. cbn [andb]. rewrite N.lxor_0_r.
    rewrite N.shiftr_div_pow2. change (2^1) with 2. rewrite N.mul_comm, N.div_mul by lia. reflexivity.
  - rewrite N.odd_add_mul_2. change (N.odd 1) with true. cbv iota.
    rewrite N.shiftr_div_pow2. change (2^1) with 2.
    replace ((1 + 2 * (ones64 - u)) / 2) with (ones64 - u) by lia.
    rewrite lxor_ones64 by (unfold ones64, W64; lia). unfold ones64, W64 in *. lia.
Qed.

Theorem to_u64_lt v : to_u64 v < W64.
Proof. unfold to_u64, W64. lia. Qed.

Theorem of_to_u64 v : (-9223372036854775808 <= v < 9223372036854775808)%Z -> of_u64 (to_u64 v) = v.
Proof.
  intros Hv. unfold of_u64, to_u64.
  destruct (N.ltb_spec (Z.to_N (v mod 18446744073709551616)) 9223372036854775808) as [Hlt|Hge]; lia.
Qed.

Theorem varint_roundtrip v rest : (-9223372036854775808 <= v < 9223372036854775808)%Z ->
  dec_sv (enc_sv v ++ rest) = Ok v rest.
Proof.
  intros Hv. unfold dec_sv, enc_sv.
  rewrite uvarint_roundtrip by (apply zz_enc_u_lt, to_u64_lt).
  rewrite zz_dec_enc_u by apply to_u64_lt. rewrite of_to_u64 by exact Hv. reflexivity.
Qed.

(* ------------------------------------------------------------------ *)
(* c. DecodeVarint32 range check                                       *)
(* ------------------------------------------------------------------ *)
Theorem varint32_range v rest : (-9223372036854775808 <= v < 9223372036854775808)%Z ->
  dec_sv32 (enc_sv v ++ rest) =
  if ((-2147483648 <=? v) && (v <=? 2147483647))%Z then Ok v rest else Overflow32.
Proof.
  intros Hv. unfold dec_sv32. rewrite varint_roundtrip by exact Hv.
  destruct (Z.ltb_spec 2147483647 v) as [H1|H1]; destruct (Z.ltb_spec v (-2147483648)) as [H2|H2];
  destruct (Z.leb_spec (-2147483648) v) as [H3|H3]; destruct (Z.leb_spec v 2147483647) as [H4|H4];
  cbn [orb andb]; try reflexivity; exfalso; lia.
Qed.

(* ------------------------------------------------------------------ *)
(* d. fixed 64-bit little endian                                       *)
(* ------------------------------------------------------------------ *)
Lemma le_bytes_length n x : length (le_bytes n x) = n.
Proof. revert x. induction n as [|n IH]; intros x; cbn [le_bytes length]; [reflexivity|]. rewrite IH. reflexivity. Qed.

Lemma le_value_bytes n x : le_value (le_bytes n x) = x mod 2^(8 * N.of_nat n).
Proof.
  revert x. induction n as [|n IH]; intros x; cbn [le_bytes le_value].
  - change (2^(8 * N.of_nat 0)) with 1. rewrite N.mod_1_r. reflexivity.
  - rewrite IH, land255, N.shiftr_div_pow2. change (2^8) with 256.
    replace (8 * N.of_nat (S n)) with (8 + 8 * N.of_nat n) by lia.
    rewrite N.pow_add_r. change (2^8) with 256.
    rewrite N.mod_mul_r; [reflexivity|lia|apply N.pow_nonzero; lia].
Qed.

Lemma firstn_app_len {A} (l r : list A) n : length l = n -> firstn n (l ++ r) = l.
Proof.
  intros H. subst n. induction l as [|a l IH]; cbn [length firstn app].
  - destruct r; reflexivity.
  - rewrite IH. reflexivity.
Qed.
Lemma skipn_app_len {A} (l r : list A) n : length l = n -> skipn n (l ++ r) = r.
Proof.
  intros H. subst n. induction l as [|a l IH]; cbn [length skipn app]; [reflexivity|exact IH].
Qed.

Theorem f64le_length bits : length (enc_f64le_bits bits) = 8%nat.
Proof. apply le_bytes_length. Qed.

Theorem f64le_roundtrip bits rest : bits < W64 ->
  dec_f64le_bits (enc_f64le_bits bits ++ rest) = Ok bits rest.
Proof.
  intros Hb. unfold dec_f64le_bits.
  rewrite app_length, f64le_length.
  replace (8 + length rest <? 8)%nat with false by (symmetry; apply Nat.ltb_ge; lia).
  rewrite firstn_app_len, skipn_app_len by apply f64le_length.
  unfold enc_f64le_bits. rewrite le_value_bytes.
  change (2^(8 * N.of_nat 8)) with W64. rewrite N.mod_small by exact Hb. reflexivity.
Qed.

(* ------------------------------------------------------------------ *)
(* e. varfloat on the rotated bit pattern                              *)
(* ------------------------------------------------------------------ *)
Lemma split57 i : (i <= 7)%nat -> 2^(64 - 7 * N.of_nat (S i)) * 2^(7 * N.of_nat i) = 2^57.
Proof. intros H. rewrite <- N.pow_add_r. f_equal. lia. Qed.

Lemma lor128_ge n : 128 <= N.lor n 128.
Proof.
  destruct (N.le_gt_cases 128 (N.lor n 128)) as [H|H]; [exact H|exfalso].
  assert (Hb : N.testbit (N.lor n 128) 7 = false) by (apply (small_testbit_high _ 7 7); [exact H|lia]).
  rewrite N.lor_spec in Hb. change (N.testbit 128 7) with true in Hb.
  rewrite orb_true_r in Hb. discriminate Hb.
Qed.

Lemma dec_enc_vf_loop : forall f i a y rest,
  (i + f = 8)%nat -> y < 2^(64 - 7 * N.of_nat i) -> a mod 2^(64 - 7 * N.of_nat i) = 0 ->
  dec_vf_loop (S f) i a (57 - 7 * N.of_nat i) (enc_vf_loop f (y * 2^(7 * N.of_nat i)) ++ rest)
  = Ok (a + y) rest.
Proof.
  induction f as [|f IH]; intros i a y rest Hi Hy Ha.
  - assert (i = 8%nat) by lia. subst i. rewrite enc_vf_0. cbn [app]. rewrite dec_vf_step.
    rewrite Nat.eqb_refl.
    change (7 * N.of_nat 8) with 56 in *. change (64 - 56) with 8 in *.
    rewrite N.shiftr_div_pow2, N.div_mul by (apply N.pow_nonzero; lia).
    rewrite (lor_high_low a y 8) by assumption. reflexivity.
  - rewrite enc_vf_S.
    assert (Hi8 : Nat.eqb i 8 = false) by (apply Nat.eqb_neq; lia).
    pose proof (split64 i ltac:(lia)) as H64.
    pose proof (split_hi i ltac:(lia)) as Hhi.
    pose proof (split57 i ltac:(lia)) as H57.
    pose proof (pow_split i) as Hps.
    assert (Hs : 57 - 7 * N.of_nat i = 64 - 7 * N.of_nat (S i)) by lia.
    rewrite Hs.
    set (p := 2^(7 * N.of_nat i)) in *. set (q := 2^(64 - 7 * N.of_nat (S i))) in *.
    set (Q := 2^(64 - 7 * N.of_nat i)) in *.
    assert (Hp0 : p <> 0) by (apply N.pow_nonzero; lia).
    assert (Hq0 : q <> 0) by (apply N.pow_nonzero; lia).
    assert (Hn : N.shiftr (y * p) 57 = y / q).
    { rewrite N.shiftr_div_pow2, <- H57. apply N.div_mul_cancel_r; assumption. }
    assert (Hx' : wrap64 (N.shiftl (y * p) 7) = (y mod q) * (p * 128)).
    { unfold wrap64. rewrite N.shiftl_mul_pow2. change (2^7) with 128.
      replace W64 with (q * (p * 128)) by lia.
      rewrite <- N.mul_assoc. apply N.mul_mod_distr_r; lia. }
    rewrite Hn, Hx'.
    pose proof (N.div_mod y q Hq0) as Hdm. pose proof (N.mod_lt y q Hq0) as Hml.
    set (n := y / q) in *. set (r := y mod q) in *.
    assert (Hn128 : n < 128) by (clear - Hdm Hml Hy Hhi Hq0; nia).
    assert (Haq : a = q * 128 * (a / Q)).
    { pose proof (N.div_mod a Q ltac:(clear - Hhi Hq0; lia)) as Hda. rewrite Ha in Hda. clear - Hda Hhi. lia. }
    assert (Hlor : N.lor a (N.shiftl n (64 - 7 * N.of_nat (S i))) = a + n * q).
    { rewrite N.shiftl_mul_pow2. fold q.
      apply (lor_high_low a (n * q) (64 - 7 * N.of_nat i)); [exact Ha|].
      fold Q. rewrite Hhi, (N.mul_comm q 128). apply N.mul_lt_mono_pos_r; lia. }
    destruct (N.eqb_spec (r * (p * 128)) 0) as [Hz|Hnz].
    + assert (Hr0 : r = 0).
      { apply N.mul_eq_0 in Hz. destruct Hz as [Hz|Hz]; [exact Hz|]. clear - Hz Hp0. lia. }
      cbn [app]. rewrite dec_vf_step, Hi8.
      replace (n <? 128) with true by (symmetry; apply N.ltb_lt; exact Hn128).
      rewrite Hlor. f_equal. clear - Hdm Hr0. lia.
    + cbn [app]. rewrite dec_vf_step, Hi8.
      replace (N.lor n 128 <? 128) with false by (symmetry; apply N.ltb_ge, lor128_ge).
      rewrite lor128 by (clear - Hn128; lia). rewrite land127.
      replace ((n mod 128 + 128) mod 128) with n by (clear - Hn128; lia).
      rewrite Hlor.
      replace (64 - 7 * N.of_nat (S i) - 7) with (57 - 7 * N.of_nat (S i)) by (clear - Hi; lia).
      replace (r * (p * 128)) with (r * 2^(7 * N.of_nat (S i))) by (rewrite Hps; reflexivity).
      rewrite IH.
      * f_equal. clear - Hdm. lia.
      * clear - Hi. lia.
      * exact Hml.
      * fold q. rewrite Haq.
        replace (q * 128 * (a / Q) + n * q) with ((128 * (a / Q) + n) * q) by lia.
        apply N.mod_mul. exact Hq0.
Qed.

Theorem varfloat_raw_roundtrip x rest : x < W64 -> dec_vf_raw (enc_vf_raw x ++ rest) = Ok x rest.
Proof.
  intros Hx. unfold dec_vf_raw, enc_vf_raw.
  pose proof (dec_enc_vf_loop 8 0 0 x rest eq_refl) as H.
  change (7 * N.of_nat 0) with 0 in H. change (2^0) with 1 in H. change (2^(64-0)) with W64 in H.
  change (57 - 0) with 57 in H. rewrite N.mul_1_r in H.
  rewrite H; [reflexivity|exact Hx|reflexivity].
Qed.

Lemma rotl6_val x : rotl6 x = (x * 64) mod W64 + x / 288230376151711744.
Proof. unfold rotl6, wrap64. rewrite N.shiftl_mul_pow2, N.shiftr_div_pow2. reflexivity. Qed.
Lemma rotr6_val x : rotr6 x = x / 64 + (x * 288230376151711744) mod W64.
Proof. unfold rotr6, wrap64. rewrite N.shiftl_mul_pow2, N.shiftr_div_pow2. reflexivity. Qed.

Theorem rotl6_lt x : x < W64 -> rotl6 x < W64.
Proof. intros Hx. rewrite rotl6_val. unfold W64 in *. lia. Qed.
Theorem rotr6_rotl6 x : x < W64 -> rotr6 (rotl6 x) = x.
Proof. intros Hx. rewrite rotr6_val, rotl6_val. unfold W64 in *. lia. Qed.

Theorem vf_fold_lt b : vf_fold b < W64.
Proof. unfold vf_fold. apply rotl6_lt. unfold wrap64, W64. lia. Qed.
Theorem vf_unfold_fold b : b < W64 -> vf_unfold (vf_fold b) = b.
Proof.
  intros Hb. unfold vf_unfold, vf_fold.
  rewrite rotr6_rotl6 by (unfold wrap64, W64; lia).
  unfold wrap64, W64, one_bits in *. lia.
Qed.

(* ------------------------------------------------------------------ *)
(* g. strict prefixes of an encoding decode to Eof                     *)
(* ------------------------------------------------------------------ *)
Definition cont (b : byte) : Prop := 128 <= b.

Lemma dec_uv_cont_eof : forall p fuel i x s,
  Forall cont p -> (i + length p <= 8)%nat -> dec_uv_loop fuel i x s p = Eof.
Proof.
  induction p as [|n tl IH]; intros fuel i x s Hc Hlen.
  - apply dec_uv_nil.
  - rewrite dec_uv_step. inversion Hc as [|n' tl' Hn Htl]; subst. unfold cont in Hn.
    cbn [length] in Hlen.
    replace (n <? 128) with false by (symmetry; apply N.ltb_ge; exact Hn).
    replace (Nat.eqb i 8) with false by (symmetry; apply Nat.eqb_neq; lia).
    cbn [orb]. destruct fuel as [|f]; [reflexivity|].
    apply IH; [exact Htl|lia].
Qed.

Lemma dec_vf_cont_eof : forall p fuel i x s,
  Forall cont p -> (i + length p <= 8)%nat -> dec_vf_loop fuel i x s p = Eof.
Proof.
  induction p as [|n tl IH]; intros fuel i x s Hc Hlen.
  - apply dec_vf_nil.
  - rewrite dec_vf_step. inversion Hc as [|n' tl' Hn Htl]; subst. unfold cont in Hn.
    cbn [length] in Hlen.
    replace (n <? 128) with false by (symmetry; apply N.ltb_ge; exact Hn).
    replace (Nat.eqb i 8) with false by (symmetry; apply Nat.eqb_neq; lia).
    destruct fuel as [|f]; [reflexivity|].
    apply IH; [exact Htl|lia].
Qed.

Lemma singleton_prefix {A} (b : A) (p s : list A) : [b] = p ++ s -> s <> [] -> p = [].
Proof.
  intros H Hs. destruct p as [|c p']; [reflexivity|exfalso].
  cbn [app] in H. injection H as _ H. symmetry in H. apply app_eq_nil in H.
  apply Hs, H.
Qed.

Lemma cons_inj {A} (a b : A) (l m : list A) : a :: l = b :: m -> a = b /\ l = m.
Proof. intros H. injection H as H1 H2. split; assumption. Qed.

Lemma enc_uv_prefix_cont : forall f v p s,
  enc_uv_loop f v = p ++ s -> s <> [] -> Forall cont p /\ (length p <= f)%nat.
Proof.
  induction f as [|f IH]; intros v p s H Hs.
  - rewrite enc_uv_0 in H. apply singleton_prefix in H; [|exact Hs]. subst p.
    split; [constructor|cbn; lia].
  - rewrite enc_uv_S in H. destruct (v <? 128).
    + apply singleton_prefix in H; [|exact Hs]. subst p. split; [constructor|cbn; lia].
    + destruct p as [|c p']; [split; [constructor|cbn; lia]|].
      cbn [app] in H. apply cons_inj in H. destruct H as [Hc H]. apply IH in H; [|exact Hs].
      destruct H as [HF HL]. split.
      * constructor; [|exact HF]. subst c. unfold cont. apply lor128_ge.
      * cbn [length]. lia.
Qed.

Lemma enc_vf_prefix_cont : forall f x p s,
  enc_vf_loop f x = p ++ s -> s <> [] -> Forall cont p /\ (length p <= f)%nat.
Proof.
  induction f as [|f IH]; intros x p s H Hs.
  - rewrite enc_vf_0 in H. apply singleton_prefix in H; [|exact Hs]. subst p.
    split; [constructor|cbn; lia].
  - rewrite enc_vf_S in H. destruct (wrap64 (N.shiftl x 7) =? 0).
    + apply singleton_prefix in H; [|exact Hs]. subst p. split; [constructor|cbn; lia].
    + destruct p as [|c p']; [split; [constructor|cbn; lia]|].
      cbn [app] in H. apply cons_inj in H. destruct H as [Hc H]. apply IH in H; [|exact Hs].
      destruct H as [HF HL]. split.
      * constructor; [|exact HF]. subst c. unfold cont. apply lor128_ge.
      * cbn [length]. lia.
Qed.

Theorem uvarint_prefix_eof v p s : enc_uv v = p ++ s -> s <> [] -> dec_uv p = Eof.
Proof.
  intros H Hs. apply enc_uv_prefix_cont in H; [|exact Hs]. destruct H as [HF HL].
  apply dec_uv_cont_eof; [exact HF|lia].
Qed.

Theorem varint_prefix_eof v p s : enc_sv v = p ++ s -> s <> [] -> dec_sv p = Eof.
Proof.
  intros H Hs. unfold dec_sv. unfold enc_sv in H.
  rewrite (uvarint_prefix_eof _ _ _ H Hs). reflexivity.
Qed.

Theorem varint32_prefix_eof v p s : enc_sv v = p ++ s -> s <> [] -> dec_sv32 p = Eof.
Proof.
  intros H Hs. unfold dec_sv32. rewrite (varint_prefix_eof _ _ _ H Hs). reflexivity.
Qed.

Theorem varfloat_raw_prefix_eof x p s : enc_vf_raw x = p ++ s -> s <> [] -> dec_vf_raw p = Eof.
Proof.
  intros H Hs. apply enc_vf_prefix_cont in H; [|exact Hs]. destruct H as [HF HL].
  apply dec_vf_cont_eof; [exact HF|lia].
Qed.

Theorem f64le_prefix_eof bits p s : enc_f64le_bits bits = p ++ s -> s <> [] -> dec_f64le_bits p = Eof.
Proof.
  intros H Hs. pose proof (f64le_length bits) as HL. rewrite H, app_length in HL.
  destruct s as [|c s']; [exfalso; apply Hs; reflexivity|]. cbn [length] in HL.
  unfold dec_f64le_bits.
  replace (length p <? 8)%nat with true by (symmetry; apply Nat.ltb_lt; lia). reflexivity.
Qed.

(* ------------------------------------------------------------------ *)
(* h. the decoders look at no more than 9 bytes                        *)
(* ------------------------------------------------------------------ *)
Definition extend {A} (r : res A) (more : list byte) : res A :=
  match r with Ok v rest => Ok v (rest ++ more) | Eof => Eof | Overflow32 => Overflow32 end.

Lemma dec_uv_loop_firstn : forall b fuel i x s, (i <= 8)%nat ->
  dec_uv_loop fuel i x s b =
  extend (dec_uv_loop fuel i x s (firstn (9 - i) b)) (skipn (9 - i) b).
Proof.
  induction b as [|n tl IH]; intros fuel i x s Hi.
  - rewrite firstn_nil, !dec_uv_nil. reflexivity.
  - replace (9 - i)%nat with (S (8 - i)) by lia. cbn [firstn skipn]. rewrite !dec_uv_step.
    destruct ((n <? 128) || Nat.eqb i 8) eqn:Hstop.
    + cbn [extend]. rewrite firstn_skipn. reflexivity.
    + destruct fuel as [|f]; [reflexivity|].
      apply orb_false_iff in Hstop. destruct Hstop as [_ Hi8]. apply Nat.eqb_neq in Hi8.
      replace (8 - i)%nat with (9 - S i)%nat by lia. apply IH. lia.
Qed.

Lemma dec_vf_loop_firstn : forall b fuel i x s, (i <= 8)%nat ->
  dec_vf_loop fuel i x s b =
  extend (dec_vf_loop fuel i x s (firstn (9 - i) b)) (skipn (9 - i) b).
Proof.
  induction b as [|n tl IH]; intros fuel i x s Hi.
  - rewrite firstn_nil, !dec_vf_nil. reflexivity.
  - replace (9 - i)%nat with (S (8 - i)) by lia. cbn [firstn skipn]. rewrite !dec_vf_step.
    destruct (Nat.eqb i 8) eqn:Hi8.
    + cbn [extend]. rewrite firstn_skipn. reflexivity.
    + destruct (n <? 128).
      * cbn [extend]. rewrite firstn_skipn. reflexivity.
      * destruct fuel as [|f]; [reflexivity|].
        apply Nat.eqb_neq in Hi8.
        replace (8 - i)%nat with (9 - S i)%nat by lia. apply IH. lia.
Qed.

Theorem uvarint_reads_at_most_9 b :
  dec_uv b = match dec_uv (firstn 9 b) with
             | Ok v r => Ok v (r ++ skipn 9 b) | Eof => Eof | Overflow32 => Overflow32 end.
Proof. unfold dec_uv. apply (dec_uv_loop_firstn b 9 0 0 0). lia. Qed.

Theorem varfloat_raw_reads_at_most_9 b :
  dec_vf_raw b = match dec_vf_raw (firstn 9 b) with
                 | Ok v r => Ok v (r ++ skipn 9 b) | Eof => Eof | Overflow32 => Overflow32 end.
Proof. unfold dec_vf_raw. apply (dec_vf_loop_firstn b 9 0 0 57). lia. Qed.

Lemma dec_uv_loop_lt : forall b fuel i x s v r, dec_uv_loop fuel i x s b = Ok v r -> v < W64.
Proof.
  induction b as [|n tl IH]; intros fuel i x s v r H.
  - rewrite dec_uv_nil in H. discriminate H.
  - rewrite dec_uv_step in H. destruct ((n <? 128) || Nat.eqb i 8).
    + injection H as Hv _. subst v. unfold wrap64. apply N.mod_lt. unfold W64. lia.
    + destruct fuel as [|f]; [discriminate H|]. eapply IH. exact H.
Qed.

Theorem uvarint_decoded_lt b v r : dec_uv b = Ok v r -> v < W64.
Proof. unfold dec_uv. apply dec_uv_loop_lt. Qed.

Lemma shiftl7_lt n s : n < 128 -> s <= 57 -> N.shiftl n s < 2^64.
Proof.
  intros Hn Hs. rewrite N.shiftl_mul_pow2.
  apply N.lt_le_trans with (128 * 2^s).
  - apply N.mul_lt_mono_pos_r; [apply pow2_pos|exact Hn].
  - change 128 with (2^7). rewrite <- N.pow_add_r. apply N.pow_le_mono_r; lia.
Qed.

Lemma dec_vf_loop_lt : forall b fuel i x s v r,
  Forall (fun c => c < 256) b -> x < 2^64 -> s <= 57 ->
  dec_vf_loop fuel i x s b = Ok v r -> v < 2^64.
Proof.
  induction b as [|n tl IH]; intros fuel i x s v r Hb Hx Hs H.
  - rewrite dec_vf_nil in H. discriminate H.
  - rewrite dec_vf_step in H. inversion Hb as [|n' tl' Hn Htl]; subst.
    destruct (Nat.eqb i 8).
    + injection H as Hv _. subst v. apply lor_lt_pow2; [exact Hx|].
      apply N.lt_trans with 256; [exact Hn|reflexivity].
    + destruct (N.ltb_spec n 128) as [Hlt|Hge].
      * injection H as Hv _. subst v. apply lor_lt_pow2; [exact Hx|]. apply shiftl7_lt; assumption.
      * destruct fuel as [|f]; [discriminate H|].
        apply IH in H; [exact H|exact Htl| |lia].
        apply lor_lt_pow2; [exact Hx|]. apply shiftl7_lt; [|exact Hs].
        rewrite land127. apply N.mod_lt. lia.
Qed.

Theorem varfloat_raw_decoded_lt b v r :
  Forall (fun c => c < 256) b -> dec_vf_raw b = Ok v r -> v < W64.
Proof.
  intros Hb H. unfold dec_vf_raw in H. rewrite W64_pow.
  apply (dec_vf_loop_lt b 9 0 0 57 v r Hb); [apply pow2_pos|lia|exact H].
Qed.

(* ------------------------------------------------------------------ *)
(* i. flags                                                            *)
(* ------------------------------------------------------------------ *)
Lemma in_range_list n b : b < N.of_nat n -> In b (map N.of_nat (seq 0 n)).
Proof.
  intros H. apply in_map_iff. exists (N.to_nat b). split; [lia|]. apply in_seq. lia.
Qed.

Definition flag_ok (t s : N) : bool :=
  (flag_type (mk_flag t s) =? t) && (flag_sub (mk_flag t s) =? s * 4) && (mk_flag t s <? 256).

Lemma flag_sweep :
  forallb (fun t => forallb (fun s => flag_ok t s) (map N.of_nat (seq 0 64))) (map N.of_nat (seq 0 4)) = true.
Proof. vm_compute. reflexivity. Qed.

Theorem flag_roundtrip t s : t < 4 -> s < 64 ->
  flag_type (mk_flag t s) = t /\ flag_sub (mk_flag t s) = s * 4 /\ mk_flag t s < 256.
Proof.
  intros Ht Hs. pose proof flag_sweep as H. rewrite forallb_forall in H.
  specialize (H t (in_range_list 4 t Ht)). rewrite forallb_forall in H.
  specialize (H s (in_range_list 64 s Hs)). unfold flag_ok in H.
  apply andb_true_iff in H. destruct H as [H H3]. apply andb_true_iff in H. destruct H as [H1 H2].
  apply N.eqb_eq in H1. apply N.eqb_eq in H2. apply N.ltb_lt in H3. auto.
Qed.

Theorem dec_flag_cons f rest : dec_flag (f :: rest) = Ok f rest.
Proof. reflexivity. Qed.
Theorem dec_flag_nil : dec_flag [] = Eof.
Proof. reflexivity. Qed.

(* ------------------------------------------------------------------ *)
(* f. size functions                                                   *)
(* ------------------------------------------------------------------ *)
Lemma size_le_iff v k : N.size v <= k <-> v < 2^k.
Proof.
  destruct (N.eq_dec v 0) as [->|Hz].
  - cbn [N.size]. split; intros _; [apply pow2_pos|lia].
  - rewrite N.size_log2 by exact Hz. rewrite N.le_succ_l. symmetry. apply N.log2_lt_pow2. lia.
Qed.

Fixpoint ulen (f : nat) (k sz : N) : nat :=
  match f with O => 1%nat | S f' => if sz <=? k then 1%nat else S (ulen f' (k + 7) sz) end.

Lemma div_pow_ltb v j : (v / 2^j <? 128) = (N.size v <=? j + 7).
Proof.
  pose proof (pow2_pos j) as Hp.
  assert (H2 : 2^(j + 7) = 2^j * 128) by (rewrite N.pow_add_r; reflexivity).
  destruct (N.leb_spec (N.size v) (j + 7)) as [Hs|Hs].
  - apply size_le_iff in Hs. apply N.ltb_lt. apply N.div_lt_upper_bound; lia.
  - apply N.ltb_ge. apply N.div_le_lower_bound; [lia|].
    destruct (N.le_gt_cases (2^j * 128) v) as [Hle|Hgt]; [exact Hle|exfalso].
    rewrite <- H2 in Hgt. apply size_le_iff in Hgt. lia.
Qed.

Lemma enc_uv_len : forall f j v, length (enc_uv_loop f (v / 2^j)) = ulen f (j + 7) (N.size v).
Proof.
  induction f as [|f IH]; intros j v.
  - reflexivity.
  - rewrite enc_uv_S. cbn [ulen]. rewrite div_pow_ltb.
    destruct (N.size v <=? j + 7); [reflexivity|].
    cbn [length]. f_equal. rewrite shr7.
    change 128 with (2^7). rewrite N.div_div by (apply N.pow_nonzero; lia).
    rewrite <- N.pow_add_r. apply IH.
Qed.

Definition uv_size_ok (sz : N) : bool :=
  let n := nth (64 - N.to_nat sz) uv_sizes 0%nat in
  Nat.eqb n (ulen 8 7 sz) && Nat.leb 1 n && Nat.leb n 9.
Lemma uv_size_sweep : forallb uv_size_ok (map N.of_nat (seq 0 65)) = true.
Proof. vm_compute. reflexivity. Qed.

Theorem uvarint_size v : v < W64 ->
  length (enc_uv v) = uv_size v /\ (1 <= uv_size v <= 9)%nat.
Proof.
  intros Hv. unfold enc_uv, uv_size, clz64.
  pose proof (enc_uv_len 8 0 v) as HL. change (2^0) with 1 in HL. rewrite N.div_1_r in HL.
  change (0 + 7) with 7 in HL. rewrite HL.
  assert (Hsz : N.size v <= 64) by (apply size_le_iff; exact Hv).
  pose proof uv_size_sweep as H. rewrite forallb_forall in H.
  assert (Hin : N.size v < N.of_nat 65) by lia.
  specialize (H (N.size v) (in_range_list 65 (N.size v) Hin)). unfold uv_size_ok in H.
  cbv zeta in H.
  apply andb_true_iff in H. destruct H as [H H3]. apply andb_true_iff in H. destruct H as [H1 H2].
  apply Nat.eqb_eq in H1. apply Nat.leb_le in H2. apply Nat.leb_le in H3.
  rewrite <- H1. auto.
Qed.

Theorem varint_size v : length (enc_sv v) = sv_size v /\ (1 <= sv_size v <= 9)%nat.
Proof. unfold enc_sv, sv_size. apply uvarint_size. apply zz_enc_u_lt, to_u64_lt. Qed.

(* trailing zeros *)
Lemma pow2_S k : 2^(N.of_nat (S k)) = 2 * 2^(N.of_nat k).
Proof. replace (N.of_nat (S k)) with (N.succ (N.of_nat k)) by lia. apply N.pow_succ_r'. Qed.

Lemma ctz_pos_ge : forall k p, (k <= ctz_pos p)%nat <-> (N.pos p) mod 2^(N.of_nat k) = 0.
Proof.
  induction k as [|k IH]; intros p.
  - change (2^(N.of_nat 0)) with 1. rewrite N.mod_1_r. split; intros _; [reflexivity|lia].
  - rewrite pow2_S. pose proof (pow2_pos (N.of_nat k)) as Hm. set (m := 2^(N.of_nat k)) in *.
    destruct p as [q|q|].
    + cbn [ctz_pos]. change (N.pos q~1) with (2 * N.pos q + 1). split; intros H; exfalso; lia.
    + cbn [ctz_pos]. change (N.pos q~0) with (2 * N.pos q).
      rewrite N.mul_mod_distr_l by lia. specialize (IH q). fold m in IH. lia.
    + cbn [ctz_pos]. rewrite N.mod_small by lia. split; intros H; exfalso; lia.
Qed.

Lemma ctz64_ge x k : (k <= 64)%nat -> (k <= ctz64 x)%nat <-> x mod 2^(N.of_nat k) = 0.
Proof.
  intros Hk. destruct x as [|p].
  - cbn [ctz64]. rewrite N.mod_0_l by (apply N.pow_nonzero; lia). split; intros _; [reflexivity|exact Hk].
  - cbn [ctz64]. apply ctz_pos_ge.
Qed.

Lemma ctz64_le x : x < W64 -> (ctz64 x <= 64)%nat.
Proof.
  intros Hx. destruct x as [|p]; [cbn; lia|]. cbn [ctz64].
  destruct (Nat.le_gt_cases (ctz_pos p) 64) as [H|H]; [exact H|exfalso].
  assert (H65 : (65 <= ctz_pos p)%nat) by lia.
  apply ctz_pos_ge in H65. change (2^(N.of_nat 65)) with 36893488147419103232 in H65.
  unfold W64 in Hx. lia.
Qed.

Lemma wrap_shift_zero x k : (k <= 64)%nat ->
  (wrap64 (N.shiftl x (N.of_nat k)) =? 0) = (64 - k <=? ctz64 x)%nat.
Proof.
  intros Hk. apply eq_iff_eq_true. rewrite N.eqb_eq, Nat.leb_le.
  rewrite ctz64_ge by lia.
  unfold wrap64. rewrite N.shiftl_mul_pow2.
  replace W64 with (2^(N.of_nat (64 - k)) * 2^(N.of_nat k))
    by (rewrite <- N.pow_add_r, W64_pow; f_equal; lia).
  rewrite N.mul_mod_distr_r by (apply N.pow_nonzero; lia).
  pose proof (pow2_pos (N.of_nat k)) as Hp.
  split; intros H; [|rewrite H; reflexivity].
  apply N.mul_eq_0 in H. destruct H as [H|H]; [exact H|lia].
Qed.

Fixpoint vlen (f : nat) (k c : nat) : nat :=
  match f with O => 1%nat | S f' => if (k <=? c)%nat then 1%nat else S (vlen f' (k - 7) c) end.

Lemma enc_vf_len : forall f i x, (i + f = 8)%nat ->
  length (enc_vf_loop f (wrap64 (N.shiftl x (N.of_nat (7 * i))))) = vlen f (57 - 7 * i) (ctz64 x).
Proof.
  induction f as [|f IH]; intros i x Hi.
  - reflexivity.
  - rewrite enc_vf_S. cbn [vlen].
    assert (Hnext : wrap64 (N.shiftl (wrap64 (N.shiftl x (N.of_nat (7 * i)))) 7)
                    = wrap64 (N.shiftl x (N.of_nat (7 * S i)))).
    { unfold wrap64. rewrite !N.shiftl_mul_pow2.
      rewrite N.mul_mod_idemp_l by (unfold W64; lia).
      rewrite <- N.mul_assoc, <- N.pow_add_r. do 3 f_equal. lia. }
    rewrite Hnext. rewrite wrap_shift_zero by lia.
    replace (64 - 7 * S i)%nat with (57 - 7 * i)%nat by lia.
    destruct (57 - 7 * i <=? ctz64 x)%nat; [reflexivity|].
    cbn [length]. f_equal. rewrite IH by lia. f_equal. lia.
Qed.

Definition vf_size_ok (c : nat) : bool :=
  let n := nth c vf_sizes 0%nat in
  Nat.eqb n (vlen 8 57 c) && Nat.leb 1 n && Nat.leb n 9.
Lemma vf_size_sweep : forallb vf_size_ok (seq 0 65) = true.
Proof. vm_compute. reflexivity. Qed.

Theorem varfloat_raw_size x : x < W64 ->
  length (enc_vf_raw x) = vf_size_raw x /\ (1 <= vf_size_raw x <= 9)%nat.
Proof.
  intros Hx. unfold enc_vf_raw, vf_size_raw.
  pose proof (enc_vf_len 8 0 x eq_refl) as HL.
  change (N.of_nat (7 * 0)) with 0 in HL. rewrite N.shiftl_0_r in HL.
  unfold wrap64 in HL. rewrite N.mod_small in HL by exact Hx.
  change (57 - 7 * 0)%nat with 57%nat in HL. rewrite HL.
  pose proof (ctz64_le x Hx) as Hc.
  pose proof vf_size_sweep as H. rewrite forallb_forall in H.
  specialize (H (ctz64 x)). unfold vf_size_ok in H. cbv zeta in H.
  assert (Hin : In (ctz64 x) (seq 0 65)) by (apply in_seq; lia).
  apply H in Hin.
  apply andb_true_iff in Hin. destruct Hin as [Hin H3]. apply andb_true_iff in Hin. destruct Hin as [H1 H2].
  apply Nat.eqb_eq in H1. apply Nat.leb_le in H2. apply Nat.leb_le in H3.
  rewrite <- H1. auto.
Qed.

(* ------------------------------------------------------------------ *)
(* The encoders emit bytes                                             *)
(* ------------------------------------------------------------------ *)
Definition is_byte (b : N) : Prop := b < 256.

Lemma land255_byte v : is_byte (N.land v 255).
Proof. unfold is_byte. rewrite land255. apply N.mod_lt. lia. Qed.
Lemma lor128_byte n : n < 256 -> is_byte (N.lor n 128).
Proof. intros Hn. unfold is_byte. apply (lor_lt_pow2 n 128 8); [exact Hn|reflexivity]. Qed.

Lemma enc_uv_loop_bytes : forall f v, Forall is_byte (enc_uv_loop f v).
Proof.
  induction f as [|f IH]; intros v.
  - rewrite enc_uv_0. constructor; [apply land255_byte|constructor].
  - rewrite enc_uv_S. destruct (v <? 128).
    + constructor; [apply land255_byte|constructor].
    + constructor; [apply lor128_byte, land255_byte|apply IH].
Qed.
Theorem enc_uv_bytes v : Forall is_byte (enc_uv v).
Proof. apply enc_uv_loop_bytes. Qed.
Theorem enc_sv_bytes v : Forall is_byte (enc_sv v).
Proof. apply enc_uv_loop_bytes. Qed.

Lemma shiftr_lt x k : x < W64 -> k <= 64 -> N.shiftr x k < 2^(64 - k).
Proof.
  intros Hx Hk. rewrite N.shiftr_div_pow2.
  apply N.div_lt_upper_bound; [apply N.pow_nonzero; lia|].
  rewrite <- N.pow_add_r. replace (k + (64 - k)) with 64 by lia. exact Hx.
Qed.

Lemma enc_vf_loop_bytes : forall f x, x < W64 -> Forall is_byte (enc_vf_loop f x).
Proof.
  induction f as [|f IH]; intros x Hx.
  - rewrite enc_vf_0. constructor; [|constructor]. exact (shiftr_lt x 56 Hx ltac:(lia)).
  - rewrite enc_vf_S.
    assert (Hn : N.shiftr x 57 < 128) by exact (shiftr_lt x 57 Hx ltac:(lia)).
    destruct (wrap64 (N.shiftl x 7) =? 0).
    + constructor; [|constructor]. unfold is_byte. lia.
    + constructor; [apply lor128_byte; lia|]. apply IH. unfold wrap64. apply N.mod_lt. unfold W64. lia.
Qed.
Theorem enc_vf_raw_bytes x : x < W64 -> Forall is_byte (enc_vf_raw x).
Proof. apply enc_vf_loop_bytes. Qed.

Theorem enc_f64le_bytes bits : Forall is_byte (enc_f64le_bits bits).
Proof.
  unfold enc_f64le_bits. generalize 8%nat as n. intros n. revert bits.
  induction n as [|n IH]; intros bits; cbn [le_bytes]; constructor; [apply land255_byte|apply IH].
Qed.
