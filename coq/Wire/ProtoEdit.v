(* A caller editing a protobuf message it was handed (harness op `kpscale P f`): every count of the message is
   multiplied in place by a binary64 factor, as the Go statements
     p.ZeroCount *= f; st.ContiguousBinCounts[i] *= f; st.BinCounts[k] *= f
   do.  Messages are values in the model; the point of modelling the edit is that the edited message keeps being
   compared with the implementation's (kpobs, kfromproto), and that the sketches it came from are provably not
   functions of it.  Definitions and their small algebra. *)
From Coq Require Import Bool ZArith List.
From SK Require Import Base.Prelude Base.F64 Wire.Proto.
Import ListNotations.

Definition pb_store_scale (f : f64) (s : pb_store) : pb_store :=
  {| bin_counts := map (fun kv => (fst kv, fmul (snd kv) f)) (bin_counts s);
     contiguous_counts := map (fun c => fmul c f) (contiguous_counts s);
     contiguous_offset := contiguous_offset s |}.
Definition pb_sketch_scale (f : f64) (m : pb_sketch) : pb_sketch :=
  {| ps_mapping := ps_mapping m;
     ps_pos := option_map (pb_store_scale f) (ps_pos m);
     ps_neg := option_map (pb_store_scale f) (ps_neg m);
     ps_zero := fmul (ps_zero m) f |}.

(* the Go map holds the last entry of every key: scaling the entries and taking the view commute *)
Lemma existsb_scale (f : f64) (k : Z) (l : list (Z * f64)) :
  existsb (fun kv' => (fst kv' =? k)%Z) (map (fun kv => (fst kv, fmul (snd kv) f)) l) =
  existsb (fun kv' => (fst kv' =? k)%Z) l.
Proof. induction l as [|kv tl IH]; cbn [map existsb fst]; [reflexivity|now rewrite IH]. Qed.
Lemma pb_map_view_scale (f : f64) (l : list (Z * f64)) :
  pb_map_view (map (fun kv => (fst kv, fmul (snd kv) f)) l) = map (fun kv => (fst kv, fmul (snd kv) f)) (pb_map_view l).
Proof.
  induction l as [|kv tl IH]; [reflexivity|].
  cbn [map pb_map_view fst]. rewrite existsb_scale. destruct (existsb _ tl); [exact IH|].
  cbn [map]. now rewrite IH.
Qed.

(* the edit keeps the shape: same keys in the same order, same offset, same number of contiguous counts, same mapping *)
Lemma pb_store_scale_shape (f : f64) (s : pb_store) :
  map fst (bin_counts (pb_store_scale f s)) = map fst (bin_counts s) /\
  length (contiguous_counts (pb_store_scale f s)) = length (contiguous_counts s) /\
  contiguous_offset (pb_store_scale f s) = contiguous_offset s.
Proof.
  unfold pb_store_scale; cbn [bin_counts contiguous_counts contiguous_offset].
  rewrite map_map, map_length. repeat split.
Qed.
Lemma pb_sketch_scale_mapping (f : f64) (m : pb_sketch) : ps_mapping (pb_sketch_scale f m) = ps_mapping m.
Proof. reflexivity. Qed.
Lemma pb_sketch_scale_scale (f g : f64) (m : pb_sketch) :
  pb_sketch_scale g (pb_sketch_scale f m) =
  {| ps_mapping := ps_mapping m;
     ps_pos := option_map (fun s => pb_store_scale g (pb_store_scale f s)) (ps_pos m);
     ps_neg := option_map (fun s => pb_store_scale g (pb_store_scale f s)) (ps_neg m);
     ps_zero := fmul (fmul (ps_zero m) f) g |}.
Proof. unfold pb_sketch_scale; cbn. now destruct (ps_pos m), (ps_neg m). Qed.
