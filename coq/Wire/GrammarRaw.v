(* The meaning of an ALREADY-PARSED stream. [Grammar.sem] gives a stream its documented meaning
   BEFORE serialisation: the weights it denotes are what the varfloat codec will carry, (w+1)-1.
   The reference parser [ref_parse] returns the weights after the codec ([dec_vf] already applied
   (w+1)-1), so the content of a parsed stream reads them directly: [f2q x] for bin counts and the
   zero count, the total count kept as is. [ref_decode_raw] = bytes -> content with the codec's
   transform applied exactly once. Definitions only. *)
From Flocq Require Import IEEE754.BinarySingleNaN IEEE754.Binary IEEE754.Bits.
From SK Require Import Codec.Codec.
From SK Require Codec.Varfloat.
From SK Require Import Base.Prelude Base.F64 Spec.Bins.
From SK Require Import Wire.Grammar.

Definition bins_of_block_raw (b : bin_block) : list (Z * W) :=
  match b with
  | IndexDeltasAndCounts l =>
    snd (fold_left (fun acc dc => let i := wrap_i64 (fst acc + fst dc) in (i, snd acc ++ [(i, f2q (snd dc))])) l (0, []))
  | IndexDeltas l =>
    snd (fold_left (fun acc d => let i := wrap_i64 (fst acc + d) in (i, snd acc ++ [(i, w1)])) l (0, []))
  | ContiguousCounts first stride l =>
    snd (fold_left (fun acc c => (wrap_i64 (fst acc + stride), snd acc ++ [(fst acc, f2q c)])) l (first, []))
  end.

Definition sem_block_raw (c : content) (b : block) : content :=
  match b with
  | BZeroCount w => {| c_pos := c_pos c; c_neg := c_neg c; c_zero := wadd (c_zero c) (f2q w); c_map := c_map c;
                       c_count := c_count c; c_sum := c_sum c; c_min := c_min c; c_max := c_max c |}
  | BMapping k g o => {| c_pos := c_pos c; c_neg := c_neg c; c_zero := c_zero c; c_map := Some (k, g, o);
                         c_count := c_count c; c_sum := c_sum c; c_min := c_min c; c_max := c_max c |}
  | BStore false bb => {| c_pos := bmerge_list (c_pos c) (bins_of_block_raw bb); c_neg := c_neg c; c_zero := c_zero c; c_map := c_map c;
                          c_count := c_count c; c_sum := c_sum c; c_min := c_min c; c_max := c_max c |}
  | BStore true bb => {| c_pos := c_pos c; c_neg := bmerge_list (c_neg c) (bins_of_block_raw bb); c_zero := c_zero c; c_map := c_map c;
                         c_count := c_count c; c_sum := c_sum c; c_min := c_min c; c_max := c_max c |}
  | BCount w => {| c_pos := c_pos c; c_neg := c_neg c; c_zero := c_zero c; c_map := c_map c;
                   c_count := c_count c ++ [w]; c_sum := c_sum c; c_min := c_min c; c_max := c_max c |}
  | BSum x => {| c_pos := c_pos c; c_neg := c_neg c; c_zero := c_zero c; c_map := c_map c;
                 c_count := c_count c; c_sum := c_sum c ++ [x]; c_min := c_min c; c_max := c_max c |}
  | BMin x => {| c_pos := c_pos c; c_neg := c_neg c; c_zero := c_zero c; c_map := c_map c;
                 c_count := c_count c; c_sum := c_sum c; c_min := c_min c ++ [x]; c_max := c_max c |}
  | BMax x => {| c_pos := c_pos c; c_neg := c_neg c; c_zero := c_zero c; c_map := c_map c;
                 c_count := c_count c; c_sum := c_sum c; c_min := c_min c; c_max := c_max c ++ [x] |}
  end.
Definition sem_raw (s : stream) : content := fold_left sem_block_raw s c_empty.

(* bytes -> content, from the documentation alone, the (w+1)-1 of the codec applied once (in dec_vf) *)
Definition ref_decode_raw (b : list byte) : option content := option_map sem_raw (ref_parse b).
