(* Proofs about the binary wire format: the documented grammar (Grammar.v) against its reference
   parser, and the model of the implementation's encoders/decoders (Wire.v) against the grammar.
   G1 parser inverts serialisation, G2 composition, G3 the implementation's decoder accepts the
   grammar, G4 the encoders emit the grammar, G5 truncation / unknown flags / totality. *)
From Coq Require Import Bool NArith ZArith List Lia ZifyN ZifyNat ZifyBool.
From Flocq Require Import IEEE754.BinarySingleNaN IEEE754.Binary IEEE754.Bits.
From SK Require Import Codec.Codec Codec.CodecProofs Codec.VarfloatProofs.
From SK Require Codec.Varfloat.
From SK Require Import Base.Prelude Base.F64 Spec.Bins Spec.BinsProofs Store.Any Stat.Summary Sketch.Sketch.
From SK Require Import Wire.Grammar Wire.Wire.
Import ListNotations.
Unset Lia Cache.
Close Scope Z_scope.
Close Scope N_scope.
Open Scope nat_scope.
Open Scope list_scope.

(* ================================================================== *)
(* 0. Vocabulary                                                       *)
(* ================================================================== *)
(* what the varfloat codec does to a weight *)
Definition wire_f (x : f64) : f64 := fsub (fadd x f64_one) f64_one.
Definition i64 (z : Z) : Prop := (-9223372036854775808 <= z < 9223372036854775808)%Z.

Definition wf_bins (bb : bin_block) : Prop :=
  match bb with
  | IndexDeltasAndCounts l => (N.of_nat (length l) < W64)%N /\ Forall (fun dc => i64 (fst dc)) l
  | IndexDeltas l => (N.of_nat (length l) < W64)%N /\ Forall i64 l
  | ContiguousCounts first stride l => (N.of_nat (length l) < W64)%N /\ i64 first /\ i64 stride
  end.
Definition wf_block (b : block) : Prop :=
  match b with
  | BMapping k _ _ => (k < 64)%N
  | BStore _ bb => wf_bins bb
  | _ => True
  end.
Definition wf_stream (st : stream) : Prop := Forall wf_block st.

(* the stream the decoder sees: every varfloat-carried weight went through (w+1)-1 *)
Definition wire_bins (bb : bin_block) : bin_block :=
  match bb with
  | IndexDeltasAndCounts l => IndexDeltasAndCounts (map (fun dc => (fst dc, wire_f (snd dc))) l)
  | IndexDeltas l => IndexDeltas l
  | ContiguousCounts first stride l => ContiguousCounts first stride (map wire_f l)
  end.
Definition wire_block (b : block) : block :=
  match b with
  | BZeroCount w => BZeroCount (wire_f w)
  | BStore neg bb => BStore neg (wire_bins bb)
  | BCount w => BCount (wire_f w)
  | BMapping k g o => BMapping k g o
  | BSum x => BSum x | BMin x => BMin x | BMax x => BMax x
  end.
Definition wire_stream (st : stream) : stream := map wire_block st.

(* weights that cross the wire unchanged / on which the wire transform is stable *)
Definition exact_f (x : f64) : Prop := wire_f x = x.
Definition stable_f (x : f64) : Prop := wire_f (wire_f x) = wire_f x.
Definition bins_weights (bb : bin_block) : list f64 :=
  match bb with
  | IndexDeltasAndCounts l => map snd l
  | IndexDeltas _ => []
  | ContiguousCounts _ _ l => l
  end.
Definition block_weights (b : block) : list f64 :=
  match b with
  | BZeroCount w => [w] | BCount w => [w]
  | BStore _ bb => bins_weights bb
  | _ => []
  end.
Definition exact_stream (st : stream) : Prop := Forall (fun b => Forall exact_f (block_weights b)) st.
Definition stable_stream (st : stream) : Prop := Forall (fun b => Forall stable_f (block_weights b)) st.

Lemma exact_stable x : exact_f x -> stable_f x.
Proof. unfold exact_f, stable_f. intros H. rewrite H. exact H. Qed.
Lemma exact_stable_stream st : exact_stream st -> stable_stream st.
Proof.
  unfold exact_stream, stable_stream. intros H. eapply Forall_impl; [|exact H].
  intros b Hb. eapply Forall_impl; [|exact Hb]. apply exact_stable.
Qed.

(* ================================================================== *)
(* 1. Primitive codecs, in the form used below                         *)
(* ================================================================== *)
Lemma dec_uv_enc n rest : (n < W64)%N -> dec_uv (enc_uv n ++ rest) = Ok n rest.
Proof. apply uvarint_roundtrip. Qed.
Lemma dec_sv_enc v rest : i64 v -> dec_sv (enc_sv v ++ rest) = Ok v rest.
Proof. apply varint_roundtrip. Qed.
Lemma dec_vf_enc (v : f64) rest : Varfloat.dec_vf (Varfloat.enc_vf v ++ rest) = Ok (wire_f v) rest.
Proof. exact (varfloat_value v rest). Qed.
Lemma dec_f64_enc (v : f64) rest : Varfloat.dec_f64le (Varfloat.enc_f64le v ++ rest) = Ok v rest.
Proof. exact (f64le_float_roundtrip v rest). Qed.

Lemma enc_uv_nonempty v : enc_uv v <> [].
Proof. unfold enc_uv. rewrite enc_uv_S. destruct (v <? 128)%N; discriminate. Qed.
Lemma enc_sv_nonempty v : enc_sv v <> [].
Proof. unfold enc_sv. apply enc_uv_nonempty. Qed.
Lemma enc_vf_nonempty (v : f64) : Varfloat.enc_vf v <> [].
Proof.
  unfold Varfloat.enc_vf, enc_vf_raw. rewrite enc_vf_S.
  destruct (wrap64 (N.shiftl (Varfloat.vf_pattern v) 7) =? 0)%N; discriminate.
Qed.
Lemma enc_f64_length (v : f64) : length (Varfloat.enc_f64le v) = 8.
Proof. exact (f64le_float_length v). Qed.
Lemma enc_f64_nonempty (v : f64) : Varfloat.enc_f64le v <> [].
Proof. intros H. pose proof (enc_f64_length v) as HL. rewrite H in HL. discriminate. Qed.

Lemma dec_uv_prefix v p s : enc_uv v = p ++ s -> s <> [] -> dec_uv p = Eof.
Proof. apply uvarint_prefix_eof. Qed.
Lemma dec_sv_prefix v p s : enc_sv v = p ++ s -> s <> [] -> dec_sv p = Eof.
Proof. apply varint_prefix_eof. Qed.
Lemma dec_vf_prefix (v : f64) p s : Varfloat.enc_vf v = p ++ s -> s <> [] -> Varfloat.dec_vf p = Eof.
Proof. exact (varfloat_prefix_eof v p s). Qed.
Lemma dec_f64_prefix (v : f64) p s : Varfloat.enc_f64le v = p ++ s -> s <> [] -> Varfloat.dec_f64le p = Eof.
Proof. exact (f64le_float_prefix_eof v p s). Qed.

(* a cut of x ++ y falls strictly inside x, or after x *)
Lemma prefix_split {A} (x y p s : list A) :
  x ++ y = p ++ s -> s <> [] ->
  (exists l, l <> [] /\ x = p ++ l) \/ (exists q, p = x ++ q /\ y = q ++ s).
Proof.
  intros H Hs. apply app_eq_app in H. destruct H as [l [[H1 H2]|[H1 H2]]].
  - destruct l as [|a l'].
    + right. exists []. rewrite app_nil_r in H1. cbn [app] in H2. subst. split; [now rewrite app_nil_r|reflexivity].
    + left. exists (a :: l'). split; [discriminate|exact H1].
  - right. exists l. split; assumption.
Qed.

Lemma concat_length_ge {A B} (f : A -> list B) (l : list A) :
  (forall a, f a <> []) -> length l <= length (concat (map f l)).
Proof.
  intros Hf. induction l as [|a l IH]; [cbn; lia|].
  cbn [map concat length]. rewrite app_length.
  specialize (Hf a). destruct (f a); [contradiction|cbn [length]; lia].
Qed.

(* flags of the grammar *)
Lemma g_flag_val ty sub : (ty < 4)%N -> g_flag ty sub = (ty + sub * 4)%N.
Proof. intros H. unfold g_flag. apply (lor_disjoint_add ty sub 2). exact H. Qed.
Lemma g_flag_ty ty sub : (ty < 4)%N -> N.land (g_flag ty sub) 3 = ty.
Proof.
  intros H. rewrite g_flag_val by exact H. change 3%N with (N.ones 2). rewrite N.land_ones.
  change (2 ^ 2)%N with 4%N. lia.
Qed.
Lemma g_flag_sub ty sub : (ty < 4)%N -> N.shiftr (g_flag ty sub) 2 = sub.
Proof.
  intros H. rewrite g_flag_val by exact H. rewrite N.shiftr_div_pow2.
  change (2 ^ 2)%N with 4%N. lia.
Qed.

(* ================================================================== *)
(* 2. The reference parser: unfolding, accumulator-free form           *)
(* ================================================================== *)
Lemma parse_idc_eq fuel n b acc : parse_idc fuel n b acc =
  if (n =? 0)%N then Some (rev acc, b) else
  match fuel with
  | O => None
  | S f => match dec_sv b with
           | Ok d b1 => match Varfloat.dec_vf b1 with
                        | Ok c b2 => parse_idc f (n - 1)%N b2 ((d, c) :: acc)
                        | _ => None end
           | _ => None end
  end.
Proof. destruct fuel; reflexivity. Qed.
Lemma parse_id_eq fuel n b acc : parse_id fuel n b acc =
  if (n =? 0)%N then Some (rev acc, b) else
  match fuel with
  | O => None
  | S f => match dec_sv b with Ok d b1 => parse_id f (n - 1)%N b1 (d :: acc) | _ => None end
  end.
Proof. destruct fuel; reflexivity. Qed.
Lemma parse_cc_eq fuel n b acc : parse_cc fuel n b acc =
  if (n =? 0)%N then Some (rev acc, b) else
  match fuel with
  | O => None
  | S f => match Varfloat.dec_vf b with Ok c b1 => parse_cc f (n - 1)%N b1 (c :: acc) | _ => None end
  end.
Proof. destruct fuel; reflexivity. Qed.
Arguments parse_idc : simpl never.
Arguments parse_id : simpl never.
Arguments parse_cc : simpl never.

Definition with_acc {A} (acc : list A) (r : option (list A * list byte)) : option (list A * list byte) :=
  match r with Some (l, rest) => Some (rev acc ++ l, rest) | None => None end.
Lemma with_acc_cons {A} (x : A) acc r :
  with_acc (x :: acc) r = with_acc acc (match r with Some (l, rest) => Some (x :: l, rest) | None => None end).
Proof.
  destruct r as [[l rest]|]; [|reflexivity]. unfold with_acc. cbn [rev].
  rewrite <- app_assoc. reflexivity.
Qed.
Lemma with_acc_nil {A} (r : option (list A * list byte)) : with_acc [] r = r.
Proof. destruct r as [[l rest]|]; reflexivity. Qed.

Lemma parse_idc_acc : forall fuel n b acc, parse_idc fuel n b acc = with_acc acc (parse_idc fuel n b []).
Proof.
  induction fuel as [|f IH]; intros n b acc; rewrite (parse_idc_eq _ n b acc), (parse_idc_eq _ n b []);
    destruct (n =? 0)%N; try (cbn [with_acc rev]; rewrite app_nil_r; reflexivity); try reflexivity.
  destruct (dec_sv b) as [d b1| |]; try reflexivity.
  destruct (Varfloat.dec_vf b1) as [c b2| |]; try reflexivity.
  rewrite (IH _ b2 ((d, c) :: acc)), (IH _ b2 [(d, c)]).
  rewrite with_acc_cons. f_equal.
Qed.
Lemma parse_id_acc : forall fuel n b acc, parse_id fuel n b acc = with_acc acc (parse_id fuel n b []).
Proof.
  induction fuel as [|f IH]; intros n b acc; rewrite (parse_id_eq _ n b acc), (parse_id_eq _ n b []);
    destruct (n =? 0)%N; try (cbn [with_acc rev]; rewrite app_nil_r; reflexivity); try reflexivity.
  destruct (dec_sv b) as [d b1| |]; try reflexivity.
  rewrite (IH _ b1 (d :: acc)), (IH _ b1 [d]).
  rewrite with_acc_cons. f_equal.
Qed.
Lemma parse_cc_acc : forall fuel n b acc, parse_cc fuel n b acc = with_acc acc (parse_cc fuel n b []).
Proof.
  induction fuel as [|f IH]; intros n b acc; rewrite (parse_cc_eq _ n b acc), (parse_cc_eq _ n b []);
    destruct (n =? 0)%N; try (cbn [with_acc rev]; rewrite app_nil_r; reflexivity); try reflexivity.
  destruct (Varfloat.dec_vf b) as [c b1| |]; try reflexivity.
  rewrite (IH _ b1 (c :: acc)), (IH _ b1 [c]).
  rewrite with_acc_cons. f_equal.
Qed.

Definition consr {A} (x : A) (r : option (list A * list byte)) : option (list A * list byte) :=
  match r with Some (l, rest) => Some (x :: l, rest) | None => None end.

Lemma parse_idc_0 fuel b : parse_idc fuel 0 b [] = Some ([], b).
Proof. rewrite parse_idc_eq. reflexivity. Qed.
Lemma parse_id_0 fuel b : parse_id fuel 0 b [] = Some ([], b).
Proof. rewrite parse_id_eq. reflexivity. Qed.
Lemma parse_cc_0 fuel b : parse_cc fuel 0 b [] = Some ([], b).
Proof. rewrite parse_cc_eq. reflexivity. Qed.
Lemma parse_idc_O n b : n <> 0%N -> parse_idc 0 n b [] = None.
Proof. intros H. rewrite parse_idc_eq. apply N.eqb_neq in H. rewrite H. reflexivity. Qed.
Lemma parse_id_O n b : n <> 0%N -> parse_id 0 n b [] = None.
Proof. intros H. rewrite parse_id_eq. apply N.eqb_neq in H. rewrite H. reflexivity. Qed.
Lemma parse_cc_O n b : n <> 0%N -> parse_cc 0 n b [] = None.
Proof. intros H. rewrite parse_cc_eq. apply N.eqb_neq in H. rewrite H. reflexivity. Qed.
Lemma parse_idc_S f n b : n <> 0%N -> parse_idc (S f) n b [] =
  match dec_sv b with
  | Ok d b1 => match Varfloat.dec_vf b1 with
               | Ok c b2 => consr (d, c) (parse_idc f (n - 1)%N b2 [])
               | _ => None end
  | _ => None end.
Proof.
  intros H. rewrite parse_idc_eq. apply N.eqb_neq in H. rewrite H.
  destruct (dec_sv b) as [d b1| |]; try reflexivity.
  destruct (Varfloat.dec_vf b1) as [c b2| |]; try reflexivity.
  rewrite parse_idc_acc. unfold with_acc, consr. cbn [rev app].
  destruct (parse_idc f (n - 1)%N b2 []) as [[l r]|]; reflexivity.
Qed.
Lemma parse_id_S f n b : n <> 0%N -> parse_id (S f) n b [] =
  match dec_sv b with
  | Ok d b1 => consr d (parse_id f (n - 1)%N b1 [])
  | _ => None end.
Proof.
  intros H. rewrite parse_id_eq. apply N.eqb_neq in H. rewrite H.
  destruct (dec_sv b) as [d b1| |]; try reflexivity.
  rewrite parse_id_acc. unfold with_acc, consr. cbn [rev app].
  destruct (parse_id f (n - 1)%N b1 []) as [[l r]|]; reflexivity.
Qed.
Lemma parse_cc_S f n b : n <> 0%N -> parse_cc (S f) n b [] =
  match Varfloat.dec_vf b with
  | Ok c b1 => consr c (parse_cc f (n - 1)%N b1 [])
  | _ => None end.
Proof.
  intros H. rewrite parse_cc_eq. apply N.eqb_neq in H. rewrite H.
  destruct (Varfloat.dec_vf b) as [c b1| |]; try reflexivity.
  rewrite parse_cc_acc. unfold with_acc, consr. cbn [rev app].
  destruct (parse_cc f (n - 1)%N b1 []) as [[l r]|]; reflexivity.
Qed.

Lemma of_nat_S_neq0 k : N.of_nat (S k) <> 0%N.
Proof. lia. Qed.
Lemma of_nat_S_pred k : (N.of_nat (S k) - 1)%N = N.of_nat k.
Proof. lia. Qed.

(* ================================================================== *)
(* 3. G1: the parser inverts serialisation                             *)
(* ================================================================== *)
Lemma parse_idc_ser : forall (l : list (Z * f64)) fuel rest,
  Forall (fun dc => i64 (fst dc)) l -> length l <= fuel ->
  parse_idc fuel (N.of_nat (length l))
            (concat (map (fun dc => enc_sv (fst dc) ++ Varfloat.enc_vf (snd dc)) l) ++ rest) []
  = Some (map (fun dc => (fst dc, wire_f (snd dc))) l, rest).
Proof.
  induction l as [|[d c] l IH]; intros fuel rest Hwf Hfuel.
  - apply parse_idc_0.
  - destruct fuel as [|f]; [cbn [length] in Hfuel; lia|].
    inversion Hwf as [|x l' Hd Hl]; subst. cbn [fst] in Hd.
    cbn [length map concat fst snd]. rewrite parse_idc_S by apply of_nat_S_neq0.
    rewrite <- !app_assoc. rewrite dec_sv_enc by exact Hd. rewrite dec_vf_enc.
    rewrite of_nat_S_pred. rewrite IH; [reflexivity|exact Hl|cbn [length] in Hfuel; lia].
Qed.
Lemma parse_id_ser : forall (l : list Z) fuel rest,
  Forall i64 l -> length l <= fuel ->
  parse_id fuel (N.of_nat (length l)) (concat (map enc_sv l) ++ rest) [] = Some (l, rest).
Proof.
  induction l as [|d l IH]; intros fuel rest Hwf Hfuel.
  - apply parse_id_0.
  - destruct fuel as [|f]; [cbn [length] in Hfuel; lia|].
    inversion Hwf as [|x l' Hd Hl]; subst.
    cbn [length map concat]. rewrite parse_id_S by apply of_nat_S_neq0.
    rewrite <- !app_assoc. rewrite dec_sv_enc by exact Hd.
    rewrite of_nat_S_pred. rewrite IH; [reflexivity|exact Hl|cbn [length] in Hfuel; lia].
Qed.
Lemma parse_cc_ser : forall (l : list f64) fuel rest,
  length l <= fuel ->
  parse_cc fuel (N.of_nat (length l)) (concat (map Varfloat.enc_vf l) ++ rest) [] = Some (map wire_f l, rest).
Proof.
  induction l as [|c l IH]; intros fuel rest Hfuel.
  - apply parse_cc_0.
  - destruct fuel as [|f]; [cbn [length] in Hfuel; lia|].
    cbn [length map concat]. rewrite parse_cc_S by apply of_nat_S_neq0.
    rewrite <- !app_assoc. rewrite dec_vf_enc.
    rewrite of_nat_S_pred. rewrite IH; [reflexivity|cbn [length] in Hfuel; lia].
Qed.

Lemma enc_dc_nonempty (dc : Z * f64) : enc_sv (fst dc) ++ Varfloat.enc_vf (snd dc) <> [].
Proof. intros H. apply app_eq_nil in H. destruct H as [H _]. exact (enc_sv_nonempty _ H). Qed.

Theorem parse_bins_ser bb rest : wf_bins bb ->
  parse_bins (fst (ser_bins bb)) (snd (ser_bins bb) ++ rest) = Some (wire_bins bb, rest).
Proof.
  intros Hwf. destruct bb as [l|l|first stride l]; cbn [ser_bins fst snd wire_bins]; unfold parse_bins.
  - destruct Hwf as [Hlen Hd]. rewrite <- app_assoc. rewrite dec_uv_enc by exact Hlen.
    change (SUB_BINS_IDC =? SUB_BINS_IDC)%N with true. cbv iota.
    rewrite parse_idc_ser; [reflexivity|exact Hd|].
    rewrite app_length. pose proof (concat_length_ge _ l enc_dc_nonempty). unfold Varfloat.f64, f64 in *. lia.
  - destruct Hwf as [Hlen Hd]. rewrite <- app_assoc. rewrite dec_uv_enc by exact Hlen.
    change (SUB_BINS_ID =? SUB_BINS_IDC)%N with false. change (SUB_BINS_ID =? SUB_BINS_ID)%N with true. cbv iota.
    rewrite parse_id_ser; [reflexivity|exact Hd|].
    rewrite app_length. pose proof (concat_length_ge _ l enc_sv_nonempty). lia.
  - destruct Hwf as [Hlen [Hf Hs]]. rewrite <- !app_assoc. rewrite dec_uv_enc by exact Hlen.
    change (SUB_BINS_CC =? SUB_BINS_IDC)%N with false. change (SUB_BINS_CC =? SUB_BINS_ID)%N with false.
    change (SUB_BINS_CC =? SUB_BINS_CC)%N with true. cbv iota.
    rewrite dec_sv_enc by exact Hf. rewrite dec_sv_enc by exact Hs.
    rewrite parse_cc_ser; [reflexivity|].
    rewrite app_length. pose proof (concat_length_ge _ l enc_vf_nonempty). unfold Varfloat.f64, f64 in *. lia.
Qed.

Lemma ser_block_store neg bb :
  ser_block (BStore neg bb) = g_flag (if neg then TY_NEGATIVE else TY_POSITIVE) (fst (ser_bins bb)) :: snd (ser_bins bb).
Proof. destruct bb; reflexivity. Qed.

Lemma parse_block_pos sub b1 : parse_block (g_flag TY_POSITIVE sub :: b1) =
  match parse_bins sub b1 with Some (bb, r) => Some (BStore false bb, r) | None => None end.
Proof.
  unfold parse_block. rewrite g_flag_ty, g_flag_sub by (unfold TY_POSITIVE; lia). reflexivity.
Qed.
Lemma parse_block_neg sub b1 : parse_block (g_flag TY_NEGATIVE sub :: b1) =
  match parse_bins sub b1 with Some (bb, r) => Some (BStore true bb, r) | None => None end.
Proof.
  unfold parse_block. rewrite g_flag_ty, g_flag_sub by (unfold TY_NEGATIVE; lia). reflexivity.
Qed.
Lemma parse_block_map sub b1 : parse_block (g_flag TY_MAPPING sub :: b1) =
  match Varfloat.dec_f64le b1 with
  | Ok g b2 => match Varfloat.dec_f64le b2 with Ok o b3 => Some (BMapping sub g o, b3) | _ => None end
  | _ => None end.
Proof.
  unfold parse_block. rewrite g_flag_ty, g_flag_sub by (unfold TY_MAPPING; lia). reflexivity.
Qed.

Theorem parse_block_ser b rest : wf_block b ->
  parse_block (ser_block b ++ rest) = Some (wire_block b, rest).
Proof.
  intros Hwf. destruct b as [w|k g o|neg bb|w|x|x|x].
  - cbn [ser_block app]. change (parse_block (g_flag TY_FEATURES SUB_ZERO_COUNT :: Varfloat.enc_vf w ++ rest))
      with (match Varfloat.dec_vf (Varfloat.enc_vf w ++ rest) with Ok w r => Some (BZeroCount w, r) | _ => None end).
    rewrite dec_vf_enc. reflexivity.
  - cbn [ser_block]. rewrite <- app_comm_cons, <- app_assoc. rewrite parse_block_map.
    rewrite dec_f64_enc, dec_f64_enc. reflexivity.
  - rewrite ser_block_store, <- app_comm_cons. cbn [wf_block] in Hwf.
    destruct neg; [rewrite parse_block_neg|rewrite parse_block_pos]; rewrite parse_bins_ser by exact Hwf; reflexivity.
  - cbn [ser_block app]. change (parse_block (g_flag TY_FEATURES SUB_COUNT :: Varfloat.enc_vf w ++ rest))
      with (match Varfloat.dec_vf (Varfloat.enc_vf w ++ rest) with Ok w r => Some (BCount w, r) | _ => None end).
    rewrite dec_vf_enc. reflexivity.
  - cbn [ser_block app]. change (parse_block (g_flag TY_FEATURES SUB_SUM :: Varfloat.enc_f64le x ++ rest))
      with (match Varfloat.dec_f64le (Varfloat.enc_f64le x ++ rest) with Ok w r => Some (BSum w, r) | _ => None end).
    rewrite dec_f64_enc. reflexivity.
  - cbn [ser_block app]. change (parse_block (g_flag TY_FEATURES SUB_MIN :: Varfloat.enc_f64le x ++ rest))
      with (match Varfloat.dec_f64le (Varfloat.enc_f64le x ++ rest) with Ok w r => Some (BMin w, r) | _ => None end).
    rewrite dec_f64_enc. reflexivity.
  - cbn [ser_block app]. change (parse_block (g_flag TY_FEATURES SUB_MAX :: Varfloat.enc_f64le x ++ rest))
      with (match Varfloat.dec_f64le (Varfloat.enc_f64le x ++ rest) with Ok w r => Some (BMax w, r) | _ => None end).
    rewrite dec_f64_enc. reflexivity.
Qed.

Lemma ser_block_cons b : exists f body, ser_block b = f :: body.
Proof. destruct b as [w|k g o|neg bb|w|x|x|x]; try (eexists; eexists; reflexivity). rewrite ser_block_store. eauto. Qed.
Lemma ser_block_nonempty b : ser_block b <> [].
Proof. destruct (ser_block_cons b) as [f [body H]]. rewrite H. discriminate. Qed.

Lemma serialize_nil : serialize [] = [].
Proof. reflexivity. Qed.
Lemma serialize_cons b st : serialize (b :: st) = ser_block b ++ serialize st.
Proof. reflexivity. Qed.
Theorem serialize_app a b : serialize (a ++ b) = serialize a ++ serialize b.
Proof. unfold serialize. rewrite map_app, concat_app. reflexivity. Qed.
Lemma serialize_length_ge st : length st <= length (serialize st).
Proof. unfold serialize. apply concat_length_ge. apply ser_block_nonempty. Qed.

Lemma parse_stream_nil fuel : parse_stream fuel [] = Some [].
Proof. destruct fuel; reflexivity. Qed.
Lemma parse_stream_cons fuel x tl : parse_stream (S fuel) (x :: tl) =
  match parse_block (x :: tl) with
  | Some (blk, rest) => match parse_stream fuel rest with Some s => Some (blk :: s) | None => None end
  | None => None
  end.
Proof. reflexivity. Qed.
Arguments parse_stream : simpl never.

Lemma parse_stream_ser : forall st fuel, wf_stream st -> length st < fuel ->
  parse_stream fuel (serialize st) = Some (wire_stream st).
Proof.
  induction st as [|b st IH]; intros fuel Hwf Hfuel.
  - apply parse_stream_nil.
  - destruct fuel as [|f]; [lia|]. inversion Hwf as [|x l Hb Hst]; subst.
    rewrite serialize_cons. destruct (ser_block_cons b) as [fl [body Hser]].
    pose proof (parse_block_ser b (serialize st) Hb) as HP. rewrite Hser in *.
    rewrite <- app_comm_cons in *. rewrite parse_stream_cons, HP.
    rewrite IH; [reflexivity|exact Hst|cbn [length] in Hfuel; lia].
Qed.

Theorem parse_serialize st : wf_stream st -> ref_parse (serialize st) = Some (wire_stream st).
Proof.
  intros Hwf. unfold ref_parse. apply parse_stream_ser; [exact Hwf|].
  pose proof (serialize_length_ge st). lia.
Qed.

Lemma wire_bins_exact bb : Forall exact_f (bins_weights bb) -> wire_bins bb = bb.
Proof.
  destruct bb as [l|l|first stride l]; cbn [bins_weights wire_bins]; intros H; [|reflexivity|].
  - f_equal. induction l as [|[d c] l IH]; [reflexivity|]. cbn [map fst snd] in *.
    inversion H as [|x y Hc Hl]; subst. rewrite IH by exact Hl. unfold exact_f in Hc. rewrite Hc. reflexivity.
  - f_equal. induction l as [|c l IH]; [reflexivity|]. cbn [map].
    inversion H as [|x y Hc Hl]; subst. rewrite IH by exact Hl. unfold exact_f in Hc. rewrite Hc. reflexivity.
Qed.
Lemma wire_block_exact b : Forall exact_f (block_weights b) -> wire_block b = b.
Proof.
  destruct b as [w|k g o|neg bb|w|x|x|x]; cbn [block_weights wire_block]; intros H; try reflexivity.
  - inversion H as [|x y Hc Hl]; subst. unfold exact_f in Hc. rewrite Hc. reflexivity.
  - rewrite wire_bins_exact by exact H. reflexivity.
  - inversion H as [|x y Hc Hl]; subst. unfold exact_f in Hc. rewrite Hc. reflexivity.
Qed.
Lemma wire_stream_exact st : exact_stream st -> wire_stream st = st.
Proof.
  induction st as [|b st IH]; intros H; [reflexivity|].
  inversion H as [|x y Hb Hst]; subst. cbn [wire_stream map].
  rewrite wire_block_exact by exact Hb. fold (wire_stream st). rewrite IH by exact Hst. reflexivity.
Qed.

Theorem parse_serialize_exact st : wf_stream st -> exact_stream st -> ref_parse (serialize st) = Some st.
Proof. intros Hwf Hex. rewrite parse_serialize by exact Hwf. rewrite wire_stream_exact by exact Hex. reflexivity. Qed.
(* ================================================================== *)
(* 4. Bins of a block without accumulator; G2 composition              *)
(* ================================================================== *)
Fixpoint idc_bins (w : f64 -> W) (idx : Z) (l : list (Z * f64)) : list (Z * W) :=
  match l with
  | [] => []
  | dc :: tl => let i := wrap_i64 (idx + fst dc) in (i, w (snd dc)) :: idc_bins w i tl
  end.
Fixpoint id_bins (idx : Z) (l : list Z) : list (Z * W) :=
  match l with
  | [] => []
  | d :: tl => let i := wrap_i64 (idx + d) in (i, w1) :: id_bins i tl
  end.
Fixpoint cc_bins (w : f64 -> W) (idx stride : Z) (l : list f64) : list (Z * W) :=
  match l with
  | [] => []
  | c :: tl => (idx, w c) :: cc_bins w (wrap_i64 (idx + stride)) stride tl
  end.
Definition bins_of_block_w (w : f64 -> W) (bb : bin_block) : list (Z * W) :=
  match bb with
  | IndexDeltasAndCounts l => idc_bins w 0 l
  | IndexDeltas l => id_bins 0 l
  | ContiguousCounts first stride l => cc_bins w first stride l
  end.

Lemma idc_fold w : forall l idx out,
  snd (fold_left (fun (acc : Z * list (Z * W)) (dc : Z * f64) =>
                    let i := wrap_i64 (fst acc + fst dc) in (i, snd acc ++ [(i, w (snd dc))])) l (idx, out))
  = out ++ idc_bins w idx l.
Proof.
  induction l as [|dc l IH]; intros idx out; cbn [fold_left idc_bins fst snd].
  - now rewrite app_nil_r.
  - cbv zeta. rewrite IH. rewrite <- app_assoc. reflexivity.
Qed.
Lemma id_fold : forall l idx out,
  snd (fold_left (fun (acc : Z * list (Z * W)) (d : Z) =>
                    let i := wrap_i64 (fst acc + d) in (i, snd acc ++ [(i, w1)])) l (idx, out))
  = out ++ id_bins idx l.
Proof.
  induction l as [|d l IH]; intros idx out; cbn [fold_left id_bins fst snd].
  - now rewrite app_nil_r.
  - cbv zeta. rewrite IH. rewrite <- app_assoc. reflexivity.
Qed.
Lemma cc_fold w stride : forall l idx out,
  snd (fold_left (fun (acc : Z * list (Z * W)) (c : f64) =>
                    (wrap_i64 (fst acc + stride), snd acc ++ [(fst acc, w c)])) l (idx, out))
  = out ++ cc_bins w idx stride l.
Proof.
  induction l as [|c l IH]; intros idx out; cbn [fold_left cc_bins fst snd].
  - now rewrite app_nil_r.
  - rewrite IH. rewrite <- app_assoc. reflexivity.
Qed.
Theorem bins_of_block_eq bb : bins_of_block bb = bins_of_block_w wire_w bb.
Proof.
  destruct bb as [l|l|first stride l]; cbn [bins_of_block bins_of_block_w].
  - apply (idc_fold wire_w l 0%Z []).
  - apply (id_fold l 0%Z []).
  - apply (cc_fold wire_w stride l first []).
Qed.

Lemma wire_w_f x : wire_w x = f2q (wire_f x).
Proof. reflexivity. Qed.

Lemma idc_bins_map w g : forall l idx,
  idc_bins w idx (map (fun dc => (fst dc, g (snd dc))) l) = idc_bins (fun x => w (g x)) idx l.
Proof. induction l as [|dc l IH]; intros idx; cbn [map idc_bins fst snd]; [reflexivity|]. cbv zeta. now rewrite IH. Qed.
Lemma cc_bins_map w g stride : forall l idx,
  cc_bins w idx stride (map g l) = cc_bins (fun x => w (g x)) idx stride l.
Proof. induction l as [|c l IH]; intros idx; cbn [map cc_bins]; [reflexivity|]. now rewrite IH. Qed.
Lemma idc_bins_ext w w' : forall l idx,
  Forall (fun x => w x = w' x) (map snd l) -> idc_bins w idx l = idc_bins w' idx l.
Proof.
  induction l as [|dc l IH]; intros idx H; cbn [map idc_bins] in *; [reflexivity|].
  inversion H as [|x y Hx Hl]; subst. cbv zeta. rewrite Hx, IH by exact Hl. reflexivity.
Qed.
Lemma cc_bins_ext w w' stride : forall l idx,
  Forall (fun x => w x = w' x) l -> cc_bins w idx stride l = cc_bins w' idx stride l.
Proof.
  induction l as [|c l IH]; intros idx H; cbn [cc_bins]; [reflexivity|].
  inversion H as [|x y Hx Hl]; subst. rewrite Hx, IH by exact Hl. reflexivity.
Qed.

(* the bins a decoder computes from the parsed block (weights already (w+1)-1) are the bins the
   grammar gives to the block that was serialised *)
Theorem raw_bins_wire bb : bins_of_block_w f2q (wire_bins bb) = bins_of_block bb.
Proof.
  rewrite bins_of_block_eq. destruct bb as [l|l|first stride l]; cbn [wire_bins bins_of_block_w].
  - rewrite idc_bins_map. reflexivity.
  - reflexivity.
  - rewrite cc_bins_map. reflexivity.
Qed.

Lemma stable_wire_w x : stable_f x -> wire_w (wire_f x) = wire_w x.
Proof. unfold stable_f. intros H. rewrite !wire_w_f, H. reflexivity. Qed.

Lemma bins_of_block_wire bb : Forall stable_f (bins_weights bb) -> bins_of_block (wire_bins bb) = bins_of_block bb.
Proof.
  intros H. rewrite !bins_of_block_eq. destruct bb as [l|l|first stride l]; cbn [wire_bins bins_of_block_w bins_weights] in *.
  - rewrite idc_bins_map. apply idc_bins_ext. eapply Forall_impl; [|exact H]. apply stable_wire_w.
  - reflexivity.
  - rewrite cc_bins_map. apply cc_bins_ext. eapply Forall_impl; [|exact H]. apply stable_wire_w.
Qed.
Lemma sem_block_wire c b : Forall stable_f (block_weights b) -> sem_block c (wire_block b) = sem_block c b.
Proof.
  destruct b as [w|k g o|neg bb|w|x|x|x]; cbn [block_weights wire_block]; intros H; try reflexivity.
  - inversion H as [|x y Hc Hl]; subst. cbn [sem_block]. rewrite stable_wire_w by exact Hc. reflexivity.
  - destruct neg; cbn [sem_block]; rewrite bins_of_block_wire by exact H; reflexivity.
  - inversion H as [|x y Hc Hl]; subst. cbn [sem_block]. unfold stable_f in Hc.
    change (fsub (fadd (wire_f w) f64_one) f64_one) with (wire_f (wire_f w)). rewrite Hc. reflexivity.
Qed.
Lemma sem_wire_from : forall st c, stable_stream st ->
  fold_left sem_block (wire_stream st) c = fold_left sem_block st c.
Proof.
  induction st as [|b st IH]; intros c H; [reflexivity|].
  inversion H as [|x y Hb Hst]; subst. cbn [wire_stream map fold_left].
  rewrite sem_block_wire by exact Hb. apply IH. exact Hst.
Qed.
Theorem sem_wire st : stable_stream st -> sem (wire_stream st) = sem st.
Proof. intros H. unfold sem. apply sem_wire_from. exact H. Qed.

Theorem ref_decode_serialize_wire st : wf_stream st -> ref_decode (serialize st) = Some (sem (wire_stream st)).
Proof. intros H. unfold ref_decode. rewrite parse_serialize by exact H. reflexivity. Qed.
Theorem ref_decode_serialize st : wf_stream st -> stable_stream st -> ref_decode (serialize st) = Some (sem st).
Proof. intros H Hs. rewrite ref_decode_serialize_wire by exact H. rewrite sem_wire by exact Hs. reflexivity. Qed.

(* ---- G2 ---- *)
Theorem sem_app a b : sem (a ++ b) = fold_left sem_block b (sem a).
Proof. unfold sem. apply fold_left_app. Qed.

Definition block_pos_bins (b : block) : list (Z * W) := match b with BStore false bb => bins_of_block bb | _ => [] end.
Definition block_neg_bins (b : block) : list (Z * W) := match b with BStore true bb => bins_of_block bb | _ => [] end.
Definition block_zero (b : block) : list W := match b with BZeroCount w => [wire_w w] | _ => [] end.
Definition stream_pos_bins (st : stream) : list (Z * W) := concat (map block_pos_bins st).
Definition stream_neg_bins (st : stream) : list (Z * W) := concat (map block_neg_bins st).
Definition stream_zero (st : stream) : list W := concat (map block_zero st).
Fixpoint last_mapping (cur : option (N * f64 * f64)) (st : stream) : option (N * f64 * f64) :=
  match st with
  | [] => cur
  | BMapping k g o :: tl => last_mapping (Some (k, g, o)) tl
  | _ :: tl => last_mapping cur tl
  end.

Lemma sem_from_pos : forall st c, c_pos (fold_left sem_block st c) = bmerge_list (c_pos c) (stream_pos_bins st).
Proof.
  induction st as [|b st IH]; intros c; [reflexivity|].
  cbn [fold_left]. rewrite IH. unfold stream_pos_bins. cbn [map concat]. rewrite bmerge_list_app.
  f_equal. destruct b as [w|k g o|[|] bb|w|x|x|x]; reflexivity.
Qed.
Lemma sem_from_neg : forall st c, c_neg (fold_left sem_block st c) = bmerge_list (c_neg c) (stream_neg_bins st).
Proof.
  induction st as [|b st IH]; intros c; [reflexivity|].
  cbn [fold_left]. rewrite IH. unfold stream_neg_bins. cbn [map concat]. rewrite bmerge_list_app.
  f_equal. destruct b as [w|k g o|[|] bb|w|x|x|x]; reflexivity.
Qed.
Lemma sem_from_zero : forall st c, c_zero (fold_left sem_block st c) = fold_left wadd (stream_zero st) (c_zero c).
Proof.
  induction st as [|b st IH]; intros c; [reflexivity|].
  cbn [fold_left]. rewrite IH. unfold stream_zero. cbn [map concat]. rewrite fold_left_app.
  f_equal. destruct b as [w|k g o|[|] bb|w|x|x|x]; reflexivity.
Qed.
Lemma sem_from_map : forall st c, c_map (fold_left sem_block st c) = last_mapping (c_map c) st.
Proof.
  induction st as [|b st IH]; intros c; [reflexivity|].
  cbn [fold_left]. rewrite IH. destruct b as [w|k g o|[|] bb|w|x|x|x]; reflexivity.
Qed.

(* decoding a concatenation = merging *)
Theorem sem_app_pos a b : c_pos (sem (a ++ b)) = bmerge_list (c_pos (sem a)) (stream_pos_bins b).
Proof. rewrite sem_app. apply sem_from_pos. Qed.
Theorem sem_app_neg a b : c_neg (sem (a ++ b)) = bmerge_list (c_neg (sem a)) (stream_neg_bins b).
Proof. rewrite sem_app. apply sem_from_neg. Qed.
Theorem sem_app_zero a b : c_zero (sem (a ++ b)) = fold_left wadd (stream_zero b) (c_zero (sem a)).
Proof. rewrite sem_app. apply sem_from_zero. Qed.
Theorem sem_app_map a b : c_map (sem (a ++ b)) = last_mapping (c_map (sem a)) b.
Proof. rewrite sem_app. apply sem_from_map. Qed.
Theorem sem_pos st : c_pos (sem st) = bins_of_list (stream_pos_bins st).
Proof. unfold sem. rewrite sem_from_pos. reflexivity. Qed.
Theorem sem_neg st : c_neg (sem st) = bins_of_list (stream_neg_bins st).
Proof. unfold sem. rewrite sem_from_neg. reflexivity. Qed.

Theorem ref_decode_concat a b : wf_stream a -> wf_stream b -> stable_stream a -> stable_stream b ->
  ref_decode (serialize a ++ serialize b) = Some (fold_left sem_block b (sem a)).
Proof.
  intros Ha Hb Hsa Hsb. rewrite <- serialize_app. rewrite ref_decode_serialize.
  - rewrite sem_app. reflexivity.
  - apply Forall_app. split; assumption.
  - apply Forall_app. split; assumption.
Qed.

(* ================================================================== *)
(* 5. G5 for the reference parser: a truncated block does not parse    *)
(* ================================================================== *)
Lemma parse_idc_trunc : forall (l : list (Z * f64)) fuel p s,
  Forall (fun dc => i64 (fst dc)) l ->
  concat (map (fun dc => enc_sv (fst dc) ++ Varfloat.enc_vf (snd dc)) l) = p ++ s -> s <> [] ->
  parse_idc fuel (N.of_nat (length l)) p [] = None.
Proof.
  induction l as [|[d c] l IH]; intros fuel p s Hwf H Hs.
  - cbn [map concat] in H. symmetry in H. apply app_eq_nil in H. destruct H as [_ H]. contradiction.
  - inversion Hwf as [|x l' Hd Hl]; subst. cbn [fst] in Hd.
    cbn [length]. destruct fuel as [|f]; [apply parse_idc_O, of_nat_S_neq0|].
    rewrite parse_idc_S by apply of_nat_S_neq0. rewrite of_nat_S_pred.
    cbn [map concat fst snd] in H. rewrite <- app_assoc in H.
    destruct (prefix_split _ _ _ _ H Hs) as [[l0 [Hl0 H1]]|[q [H1 H2]]].
    + rewrite (dec_sv_prefix _ _ _ H1 Hl0). reflexivity.
    + subst p. rewrite dec_sv_enc by exact Hd.
      destruct (prefix_split _ _ _ _ H2 Hs) as [[l0 [Hl0 H3]]|[q' [H3 H4]]].
      * rewrite (dec_vf_prefix _ _ _ H3 Hl0). reflexivity.
      * subst q. rewrite dec_vf_enc. rewrite (IH f q' s Hl H4 Hs). reflexivity.
Qed.
Lemma parse_id_trunc : forall (l : list Z) fuel p s,
  Forall i64 l -> concat (map enc_sv l) = p ++ s -> s <> [] ->
  parse_id fuel (N.of_nat (length l)) p [] = None.
Proof.
  induction l as [|d l IH]; intros fuel p s Hwf H Hs.
  - cbn [map concat] in H. symmetry in H. apply app_eq_nil in H. destruct H as [_ H]. contradiction.
  - inversion Hwf as [|x l' Hd Hl]; subst.
    cbn [length]. destruct fuel as [|f]; [apply parse_id_O, of_nat_S_neq0|].
    rewrite parse_id_S by apply of_nat_S_neq0. rewrite of_nat_S_pred.
    cbn [map concat] in H.
    destruct (prefix_split _ _ _ _ H Hs) as [[l0 [Hl0 H1]]|[q [H1 H2]]].
    + rewrite (dec_sv_prefix _ _ _ H1 Hl0). reflexivity.
    + subst p. rewrite dec_sv_enc by exact Hd. rewrite (IH f q s Hl H2 Hs). reflexivity.
Qed.
Lemma parse_cc_trunc : forall (l : list f64) fuel p s,
  concat (map Varfloat.enc_vf l) = p ++ s -> s <> [] ->
  parse_cc fuel (N.of_nat (length l)) p [] = None.
Proof.
  induction l as [|c l IH]; intros fuel p s H Hs.
  - cbn [map concat] in H. symmetry in H. apply app_eq_nil in H. destruct H as [_ H]. contradiction.
  - cbn [length]. destruct fuel as [|f]; [apply parse_cc_O, of_nat_S_neq0|].
    rewrite parse_cc_S by apply of_nat_S_neq0. rewrite of_nat_S_pred.
    cbn [map concat] in H.
    destruct (prefix_split _ _ _ _ H Hs) as [[l0 [Hl0 H1]]|[q [H1 H2]]].
    + rewrite (dec_vf_prefix _ _ _ H1 Hl0). reflexivity.
    + subst p. rewrite dec_vf_enc. rewrite (IH f q s H2 Hs). reflexivity.
Qed.

Theorem parse_bins_trunc bb p s : wf_bins bb ->
  snd (ser_bins bb) = p ++ s -> s <> [] -> parse_bins (fst (ser_bins bb)) p = None.
Proof.
  intros Hwf H Hs. destruct bb as [l|l|first stride l]; cbn [ser_bins fst snd] in *; unfold parse_bins.
  - destruct Hwf as [Hlen Hd].
    destruct (prefix_split _ _ _ _ H Hs) as [[l0 [Hl0 H1]]|[q [H1 H2]]].
    + rewrite (dec_uv_prefix _ _ _ H1 Hl0). reflexivity.
    + subst p. rewrite dec_uv_enc by exact Hlen.
      change (SUB_BINS_IDC =? SUB_BINS_IDC)%N with true. cbv iota.
      rewrite (parse_idc_trunc l _ q s Hd H2 Hs). reflexivity.
  - destruct Hwf as [Hlen Hd].
    destruct (prefix_split _ _ _ _ H Hs) as [[l0 [Hl0 H1]]|[q [H1 H2]]].
    + rewrite (dec_uv_prefix _ _ _ H1 Hl0). reflexivity.
    + subst p. rewrite dec_uv_enc by exact Hlen.
      change (SUB_BINS_ID =? SUB_BINS_IDC)%N with false. change (SUB_BINS_ID =? SUB_BINS_ID)%N with true. cbv iota.
      rewrite (parse_id_trunc l _ q s Hd H2 Hs). reflexivity.
  - destruct Hwf as [Hlen [Hf Hst]].
    destruct (prefix_split _ _ _ _ H Hs) as [[l0 [Hl0 H1]]|[q [H1 H2]]].
    + rewrite (dec_uv_prefix _ _ _ H1 Hl0). reflexivity.
    + subst p. rewrite dec_uv_enc by exact Hlen.
      change (SUB_BINS_CC =? SUB_BINS_IDC)%N with false. change (SUB_BINS_CC =? SUB_BINS_ID)%N with false.
      change (SUB_BINS_CC =? SUB_BINS_CC)%N with true. cbv iota.
      destruct (prefix_split _ _ _ _ H2 Hs) as [[l0 [Hl0 H3]]|[q1 [H3 H4]]].
      * rewrite (dec_sv_prefix _ _ _ H3 Hl0). reflexivity.
      * subst q. rewrite dec_sv_enc by exact Hf.
        destruct (prefix_split _ _ _ _ H4 Hs) as [[l0 [Hl0 H5]]|[q2 [H5 H6]]].
        -- rewrite (dec_sv_prefix _ _ _ H5 Hl0). reflexivity.
        -- subst q1. rewrite dec_sv_enc by exact Hst.
           rewrite (parse_cc_trunc l _ q2 s H6 Hs). reflexivity.
Qed.

(* one primitive after the flag *)
Lemma vf_body_trunc (w : f64) p s : Varfloat.enc_vf w = p ++ s -> s <> [] -> Varfloat.dec_vf p = Eof.
Proof. apply dec_vf_prefix. Qed.

Lemma parse_block_zc b1 : parse_block (g_flag TY_FEATURES SUB_ZERO_COUNT :: b1) =
  match Varfloat.dec_vf b1 with Ok w r => Some (BZeroCount w, r) | _ => None end.
Proof. reflexivity. Qed.
Lemma parse_block_count b1 : parse_block (g_flag TY_FEATURES SUB_COUNT :: b1) =
  match Varfloat.dec_vf b1 with Ok w r => Some (BCount w, r) | _ => None end.
Proof. reflexivity. Qed.
Lemma parse_block_sum b1 : parse_block (g_flag TY_FEATURES SUB_SUM :: b1) =
  match Varfloat.dec_f64le b1 with Ok w r => Some (BSum w, r) | _ => None end.
Proof. reflexivity. Qed.
Lemma parse_block_min b1 : parse_block (g_flag TY_FEATURES SUB_MIN :: b1) =
  match Varfloat.dec_f64le b1 with Ok w r => Some (BMin w, r) | _ => None end.
Proof. reflexivity. Qed.
Lemma parse_block_max b1 : parse_block (g_flag TY_FEATURES SUB_MAX :: b1) =
  match Varfloat.dec_f64le b1 with Ok w r => Some (BMax w, r) | _ => None end.
Proof. reflexivity. Qed.

Theorem block_truncation b p s : wf_block b ->
  ser_block b = p ++ s -> s <> [] -> p <> [] -> parse_block p = None.
Proof.
  intros Hwf H Hs Hp. destruct p as [|f p']; [contradiction|]. clear Hp.
  destruct b as [w|k g o|neg bb|w|x|x|x].
  - cbn [ser_block] in H. rewrite <- app_comm_cons in H. apply cons_inj in H. destruct H as [Hf H]. subst f.
    rewrite parse_block_zc.
    rewrite (dec_vf_prefix _ _ _ H Hs). reflexivity.
  - cbn [ser_block] in H. rewrite <- app_comm_cons in H. apply cons_inj in H. destruct H as [Hf H]. subst f.
    rewrite parse_block_map.
    destruct (prefix_split _ _ _ _ H Hs) as [[l0 [Hl0 H1]]|[q [H1 H2]]].
    + rewrite (dec_f64_prefix _ _ _ H1 Hl0). reflexivity.
    + subst p'. rewrite dec_f64_enc. rewrite (dec_f64_prefix _ _ _ H2 Hs). reflexivity.
  - rewrite ser_block_store in H. rewrite <- app_comm_cons in H. apply cons_inj in H. destruct H as [Hf H]. subst f.
    cbn [wf_block] in Hwf.
    destruct neg; [rewrite parse_block_neg|rewrite parse_block_pos];
      rewrite (parse_bins_trunc bb p' s Hwf H Hs); reflexivity.
  - cbn [ser_block] in H. rewrite <- app_comm_cons in H. apply cons_inj in H. destruct H as [Hf H]. subst f.
    rewrite parse_block_count.
    rewrite (dec_vf_prefix _ _ _ H Hs). reflexivity.
  - cbn [ser_block] in H. rewrite <- app_comm_cons in H. apply cons_inj in H. destruct H as [Hf H]. subst f.
    rewrite parse_block_sum.
    rewrite (dec_f64_prefix _ _ _ H Hs). reflexivity.
  - cbn [ser_block] in H. rewrite <- app_comm_cons in H. apply cons_inj in H. destruct H as [Hf H]. subst f.
    rewrite parse_block_min.
    rewrite (dec_f64_prefix _ _ _ H Hs). reflexivity.
  - cbn [ser_block] in H. rewrite <- app_comm_cons in H. apply cons_inj in H. destruct H as [Hf H]. subst f.
    rewrite parse_block_max.
    rewrite (dec_f64_prefix _ _ _ H Hs). reflexivity.
Qed.

(* the whole-stream version: complete blocks followed by a strict non-empty prefix of a block *)
Lemma parse_stream_trunc : forall st fuel b p s, wf_stream st -> wf_block b ->
  ser_block b = p ++ s -> s <> [] -> p <> [] ->
  parse_stream fuel (serialize st ++ p) = None.
Proof.
  induction st as [|a st IH]; intros fuel b p s Hwf Hb H Hs Hp.
  - cbn [serialize map concat app]. destruct p as [|f p']; [contradiction|].
    destruct fuel as [|k]; [reflexivity|]. rewrite parse_stream_cons.
    rewrite (block_truncation b (f :: p') s Hb H Hs Hp). reflexivity.
  - inversion Hwf as [|x l Ha Hst]; subst. rewrite serialize_cons, <- app_assoc.
    destruct (ser_block_cons a) as [fl [body Hser]].
    pose proof (parse_block_ser a (serialize st ++ p) Ha) as HP. rewrite Hser in *.
    rewrite <- app_comm_cons in *. destruct fuel as [|k]; [reflexivity|].
    rewrite parse_stream_cons, HP. rewrite (IH k b p s Hst Hb H Hs Hp). reflexivity.
Qed.
Theorem stream_truncation st b p s : wf_stream st -> wf_block b ->
  ser_block b = p ++ s -> s <> [] -> p <> [] -> ref_parse (serialize st ++ p) = None.
Proof. intros. unfold ref_parse. eapply parse_stream_trunc; eauto. Qed.
