(* Proofs about the binary wire format: the documented grammar (Grammar.v) against its reference
   parser, and the model of the implementation's encoders/decoders (Wire.v) against the grammar.
   G1 parser inverts serialisation, G2 composition, G3 the implementation's decoder accepts the
   grammar, G4 the encoders emit the grammar, G5 truncation / unknown flags / totality. *)
From Coq Require Import Bool NArith ZArith List Lia ZifyN ZifyNat ZifyBool.
From Flocq Require Import IEEE754.BinarySingleNaN IEEE754.Binary IEEE754.Bits.
From SK Require Import Codec.Codec Codec.CodecProofs Codec.VarfloatProofs.
From SK Require Codec.Varfloat.
From SK Require Import Base.Prelude Base.F64 Spec.Bins Spec.BinsProofs Store.Any Stat.Summary Sketch.Sketch.
From SK Require Import Wire.Grammar Wire.Wire.
Import ListNotations.
Unset Lia Cache.
Close Scope Z_scope.
Close Scope N_scope.
Open Scope nat_scope.
Open Scope list_scope.

(* ================================================================== *)
(* 0. Vocabulary                                                       *)
(* ================================================================== *)
(* what the varfloat codec does to a weight *)
Definition wire_f (x : f64) : f64 := fsub (fadd x f64_one) f64_one.
Definition i64 (z : Z) : Prop := (-9223372036854775808 <= z < 9223372036854775808)%Z.

Definition wf_bins (bb : bin_block) : Prop :=
  match bb with
  | IndexDeltasAndCounts l => (N.of_nat (length l) < W64)%N /\ Forall (fun dc => i64 (fst dc)) l
  | IndexDeltas l => (N.of_nat (length l) < W64)%N /\ Forall i64 l
  | ContiguousCounts first stride l => (N.of_nat (length l) < W64)%N /\ i64 first /\ i64 stride
  end.
Definition wf_block (b : block) : Prop :=
  match b with
  | BMapping k _ _ => (k < 64)%N
  | BStore _ bb => wf_bins bb
  | _ => True
  end.
Definition wf_stream (st : stream) : Prop := Forall wf_block st.

(* the stream the decoder sees: every varfloat-carried weight went through (w+1)-1 *)
Definition wire_bins (bb : bin_block) : bin_block :=
  match bb with
  | IndexDeltasAndCounts l => IndexDeltasAndCounts (map (fun dc => (fst dc, wire_f (snd dc))) l)
  | IndexDeltas l => IndexDeltas l
  | ContiguousCounts first stride l => ContiguousCounts first stride (map wire_f l)
  end.
Definition wire_block (b : block) : block :=
  match b with
  | BZeroCount w => BZeroCount (wire_f w)
  | BStore neg bb => BStore neg (wire_bins bb)
  | BCount w => BCount (wire_f w)
  | BMapping k g o => BMapping k g o
  | BSum x => BSum x | BMin x => BMin x | BMax x => BMax x
  end.
Definition wire_stream (st : stream) : stream := map wire_block st.

(* weights that cross the wire unchanged / on which the wire transform is stable *)
Definition exact_f (x : f64) : Prop := wire_f x = x.
Definition stable_f (x : f64) : Prop := wire_f (wire_f x) = wire_f x.
Definition bins_weights (bb : bin_block) : list f64 :=
  match bb with
  | IndexDeltasAndCounts l => map snd l
  | IndexDeltas _ => []
  | ContiguousCounts _ _ l => l
  end.
Definition block_weights (b : block) : list f64 :=
  match b with
  | BZeroCount w => [w] | BCount w => [w]
  | BStore _ bb => bins_weights bb
  | _ => []
  end.
Definition exact_stream (st : stream) : Prop := Forall (fun b => Forall exact_f (block_weights b)) st.
Definition stable_stream (st : stream) : Prop := Forall (fun b => Forall stable_f (block_weights b)) st.

Lemma exact_stable x : exact_f x -> stable_f x.
Proof. unfold exact_f, stable_f. intros H. rewrite H. exact H. Qed.
Lemma exact_stable_stream st : exact_stream st -> stable_stream st.
Proof.
  unfold exact_stream, stable_stream. intros H. eapply Forall_impl; [|exact H].
  intros b Hb. eapply Forall_impl; [|exact Hb]. apply exact_stable.
Qed.

(* ================================================================== *)
(* 1. Primitive codecs, in the form used below                         *)
(* ================================================================== *)
Lemma dec_uv_enc n rest : (n < W64)%N -> dec_uv (enc_uv n ++ rest) = Ok n rest.
Proof. apply uvarint_roundtrip. Qed.
Lemma dec_sv_enc v rest : i64 v -> dec_sv (enc_sv v ++ rest) = Ok v rest.
Proof. apply varint_roundtrip. Qed.
Lemma dec_vf_enc (v : f64) rest : Varfloat.dec_vf (Varfloat.enc_vf v ++ rest) = Ok (wire_f v) rest.
Proof. exact (varfloat_value v rest). Qed.
Lemma dec_f64_enc (v : f64) rest : Varfloat.dec_f64le (Varfloat.enc_f64le v ++ rest) = Ok v rest.
Proof. exact (f64le_float_roundtrip v rest). Qed.

Lemma enc_uv_nonempty v : enc_uv v <> [].
Proof. unfold enc_uv. rewrite enc_uv_S. destruct (v <? 128)%N; discriminate. Qed.
Lemma enc_sv_nonempty v : enc_sv v <> [].
Proof. unfold enc_sv. apply enc_uv_nonempty. Qed.
Lemma enc_vf_nonempty (v : f64) : Varfloat.enc_vf v <> [].
Proof.
  unfold Varfloat.enc_vf, enc_vf_raw. rewrite enc_vf_S.
  destruct (wrap64 (N.shiftl (Varfloat.vf_pattern v) 7) =? 0)%N; discriminate.
Qed.
Lemma enc_f64_length (v : f64) : length (Varfloat.enc_f64le v) = 8.
Proof. exact (f64le_float_length v). Qed.
Lemma enc_f64_nonempty (v : f64) : Varfloat.enc_f64le v <> [].
Proof. intros H. pose proof (enc_f64_length v) as HL. rewrite H in HL. discriminate. Qed.

Lemma dec_uv_prefix v p s : enc_uv v = p ++ s -> s <> [] -> dec_uv p = Eof.
Proof. apply uvarint_prefix_eof. Qed.
Lemma dec_sv_prefix v p s : enc_sv v = p ++ s -> s <> [] -> dec_sv p = Eof.
Proof. apply varint_prefix_eof. Qed.
Lemma dec_vf_prefix (v : f64) p s : Varfloat.enc_vf v = p ++ s -> s <> [] -> Varfloat.dec_vf p = Eof.
Proof. exact (varfloat_prefix_eof v p s). Qed.
Lemma dec_f64_prefix (v : f64) p s : Varfloat.enc_f64le v = p ++ s -> s <> [] -> Varfloat.dec_f64le p = Eof.
Proof. exact (f64le_float_prefix_eof v p s). Qed.

(* a cut of x ++ y falls strictly inside x, or after x *)
Lemma prefix_split {A} (x y p s : list A) :
  x ++ y = p ++ s -> s <> [] ->
  (exists l, l <> [] /\ x = p ++ l) \/ (exists q, p = x ++ q /\ y = q ++ s).
Proof.
  intros H Hs. apply app_eq_app in H. destruct H as [l [[H1 H2]|[H1 H2]]].
  - destruct l as [|a l'].
    + right. exists []. rewrite app_nil_r in H1. cbn [app] in H2. subst. split; [now rewrite app_nil_r|reflexivity].
    + left. exists (a :: l'). split; [discriminate|exact H1].
  - right. exists l. split; assumption.
Qed.

Lemma concat_length_ge {A B} (f : A -> list B) (l : list A) :
  (forall a, f a <> []) -> length l <= length (concat (map f l)).
Proof.
  intros Hf. induction l as [|a l IH]; [cbn; lia|].
  cbn [map concat length]. rewrite app_length.
  specialize (Hf a). destruct (f a); [contradiction|cbn [length]; lia].
Qed.

(* flags of the grammar *)
Lemma g_flag_val ty sub : (ty < 4)%N -> g_flag ty sub = (ty + sub * 4)%N.
Proof. intros H. unfold g_flag. apply (lor_disjoint_add ty sub 2). exact H. Qed.
Lemma g_flag_ty ty sub : (ty < 4)%N -> N.land (g_flag ty sub) 3 = ty.
Proof.
  intros H. rewrite g_flag_val by exact H. change 3%N with (N.ones 2). rewrite N.land_ones.
  change (2 ^ 2)%N with 4%N. lia.
Qed.
Lemma g_flag_sub ty sub : (ty < 4)%N -> N.shiftr (g_flag ty sub) 2 = sub.
Proof.
  intros H. rewrite g_flag_val by exact H. rewrite N.shiftr_div_pow2.
  change (2 ^ 2)%N with 4%N. lia.
Qed.

(* ================================================================== *)
(* 2. The reference parser: unfolding, accumulator-free form           *)
(* ================================================================== *)
Lemma parse_idc_eq fuel n b acc : parse_idc fuel n b acc =
  if (n =? 0)%N then Some (rev acc, b) else
  match fuel with
  | O => None
  | S f => match dec_sv b with
           | Ok d b1 => match Varfloat.dec_vf b1 with
                        | Ok c b2 => parse_idc f (n - 1)%N b2 ((d, c) :: acc)
                        | _ => None end
           | _ => None end
  end.
Proof. destruct fuel; reflexivity. Qed.
Lemma parse_id_eq fuel n b acc : parse_id fuel n b acc =
  if (n =? 0)%N then Some (rev acc, b) else
  match fuel with
  | O => None
  | S f => match dec_sv b with Ok d b1 => parse_id f (n - 1)%N b1 (d :: acc) | _ => None end
  end.
Proof. destruct fuel; reflexivity. Qed.
Lemma parse_cc_eq fuel n b acc : parse_cc fuel n b acc =
  if (n =? 0)%N then Some (rev acc, b) else
  match fuel with
  | O => None
  | S f => match Varfloat.dec_vf b with Ok c b1 => parse_cc f (n - 1)%N b1 (c :: acc) | _ => None end
  end.
Proof. destruct fuel; reflexivity. Qed.
Arguments parse_idc : simpl never.
Arguments parse_id : simpl never.
Arguments parse_cc : simpl never.

Definition with_acc {A} (acc : list A) (r : option (list A * list byte)) : option (list A * list byte) :=
  match r with Some (l, rest) => Some (rev acc ++ l, rest) | None => None end.
Lemma with_acc_cons {A} (x : A) acc r :
  with_acc (x :: acc) r = with_acc acc (match r with Some (l, rest) => Some (x :: l, rest) | None => None end).
Proof.
  destruct r as [[l rest]|]; [|reflexivity]. unfold with_acc. cbn [rev].
  rewrite <- app_assoc. reflexivity.
Qed.
Lemma with_acc_nil {A} (r : option (list A * list byte)) : with_acc [] r = r.
Proof. destruct r as [[l rest]|]; reflexivity. Qed.

Lemma parse_idc_acc : forall fuel n b acc, parse_idc fuel n b acc = with_acc acc (parse_idc fuel n b []).
Proof.
  induction fuel as [|f IH]; intros n b acc; rewrite (parse_idc_eq _ n b acc), (parse_idc_eq _ n b []);
    destruct (n =? 0)%N; try (cbn [with_acc rev]; rewrite app_nil_r; reflexivity); try reflexivity.
  destruct (dec_sv b) as [d b1| |]; try reflexivity.
  destruct (Varfloat.dec_vf b1) as [c b2| |]; try reflexivity.
  rewrite (IH _ b2 ((d, c) :: acc)), (IH _ b2 [(d, c)]).
  rewrite with_acc_cons. f_equal.
Qed.
Lemma parse_id_acc : forall fuel n b acc, parse_id fuel n b acc = with_acc acc (parse_id fuel n b []).
Proof.
  induction fuel as [|f IH]; intros n b acc; rewrite (parse_id_eq _ n b acc), (parse_id_eq _ n b []);
    destruct (n =? 0)%N; try (cbn [with_acc rev]; rewrite app_nil_r; reflexivity); try reflexivity.
  destruct (dec_sv b) as [d b1| |]; try reflexivity.
  rewrite (IH _ b1 (d :: acc)), (IH _ b1 [d]).
  rewrite with_acc_cons. f_equal.
Qed.
Lemma parse_cc_acc : forall fuel n b acc, parse_cc fuel n b acc = with_acc acc (parse_cc fuel n b []).
Proof.
  induction fuel as [|f IH]; intros n b acc; rewrite (parse_cc_eq _ n b acc), (parse_cc_eq _ n b []);
    destruct (n =? 0)%N; try (cbn [with_acc rev]; rewrite app_nil_r; reflexivity); try reflexivity.
  destruct (Varfloat.dec_vf b) as [c b1| |]; try reflexivity.
  rewrite (IH _ b1 (c :: acc)), (IH _ b1 [c]).
  rewrite with_acc_cons. f_equal.
Qed.

Definition consr {A} (x : A) (r : option (list A * list byte)) : option (list A * list byte) :=
  match r with Some (l, rest) => Some (x :: l, rest) | None => None end.

Lemma parse_idc_0 fuel b : parse_idc fuel 0 b [] = Some ([], b).
Proof. rewrite parse_idc_eq. reflexivity. Qed.
Lemma parse_id_0 fuel b : parse_id fuel 0 b [] = Some ([], b).
Proof. rewrite parse_id_eq. reflexivity. Qed.
Lemma parse_cc_0 fuel b : parse_cc fuel 0 b [] = Some ([], b).
Proof. rewrite parse_cc_eq. reflexivity. Qed.
Lemma parse_idc_O n b : n <> 0%N -> parse_idc 0 n b [] = None.
Proof. intros H. rewrite parse_idc_eq. apply N.eqb_neq in H. rewrite H. reflexivity. Qed.
Lemma parse_id_O n b : n <> 0%N -> parse_id 0 n b [] = None.
Proof. intros H. rewrite parse_id_eq. apply N.eqb_neq in H. rewrite H. reflexivity. Qed.
Lemma parse_cc_O n b : n <> 0%N -> parse_cc 0 n b [] = None.
Proof. intros H. rewrite parse_cc_eq. apply N.eqb_neq in H. rewrite H. reflexivity. Qed.
Lemma parse_idc_S f n b : n <> 0%N -> parse_idc (S f) n b [] =
  match dec_sv b with
  | Ok d b1 => match Varfloat.dec_vf b1 with
               | Ok c b2 => consr (d, c) (parse_idc f (n - 1)%N b2 [])
               | _ => None end
  | _ => None end.
Proof.
  intros H. rewrite parse_idc_eq. apply N.eqb_neq in H. rewrite H.
  destruct (dec_sv b) as [d b1| |]; try reflexivity.
  destruct (Varfloat.dec_vf b1) as [c b2| |]; try reflexivity.
  rewrite parse_idc_acc. unfold with_acc, consr. cbn [rev app].
  destruct (parse_idc f (n - 1)%N b2 []) as [[l r]|]; reflexivity.
Qed.
Lemma parse_id_S f n b : n <> 0%N -> parse_id (S f) n b [] =
  match dec_sv b with
  | Ok d b1 => consr d (parse_id f (n - 1)%N b1 [])
  | _ => None end.
Proof.
  intros H. rewrite parse_id_eq. apply N.eqb_neq in H. rewrite H.
  destruct (dec_sv b) as [d b1| |]; try reflexivity.
  rewrite parse_id_acc. unfold with_acc, consr. cbn [rev app].
  destruct (parse_id f (n - 1)%N b1 []) as [[l r]|]; reflexivity.
Qed.
Lemma parse_cc_S f n b : n <> 0%N -> parse_cc (S f) n b [] =
  match Varfloat.dec_vf b with
  | Ok c b1 => consr c (parse_cc f (n - 1)%N b1 [])
  | _ => None end.
Proof.
  intros H. rewrite parse_cc_eq. apply N.eqb_neq in H. rewrite H.
  destruct (Varfloat.dec_vf b) as [c b1| |]; try reflexivity.
  rewrite parse_cc_acc. unfold with_acc, consr. cbn [rev app].
  destruct (parse_cc f (n - 1)%N b1 []) as [[l r]|]; reflexivity.
Qed.

Lemma of_nat_S_neq0 k : N.of_nat (S k) <> 0%N.
Proof. lia. Qed.
Lemma of_nat_S_pred k : (N.of_nat (S k) - 1)%N = N.of_nat k.
Proof. lia. Qed.

(* ================================================================== *)
(* 3. G1: the parser inverts serialisation                             *)
(* ================================================================== *)
Lemma parse_idc_ser : forall (l : list (Z * f64)) fuel rest,
  Forall (fun dc => i64 (fst dc)) l -> length l <= fuel ->
  parse_idc fuel (N.of_nat (length l))
            (concat (map (fun dc => enc_sv (fst dc) ++ Varfloat.enc_vf (snd dc)) l) ++ rest) []
  = Some (map (fun dc => (fst dc, wire_f (snd dc))) l, rest).
Proof.
  induction l as [|[d c] l IH]; intros fuel rest Hwf Hfuel.
  - apply parse_idc_0.
  - destruct fuel as [|f]; [cbn [length] in Hfuel; lia|].
    inversion Hwf as [|x l' Hd Hl]; subst. cbn [fst] in Hd.
    cbn [length map concat fst snd]. rewrite parse_idc_S by apply of_nat_S_neq0.
    rewrite <- !app_assoc. rewrite dec_sv_enc by exact Hd. rewrite dec_vf_enc.
    rewrite of_nat_S_pred. rewrite IH; [reflexivity|exact Hl|cbn [length] in Hfuel; lia].
Qed.
Lemma parse_id_ser : forall (l : list Z) fuel rest,
  Forall i64 l -> length l <= fuel ->
  parse_id fuel (N.of_nat (length l)) (concat (map enc_sv l) ++ rest) [] = Some (l, rest).
Proof.
  induction l as [|d l IH]; intros fuel rest Hwf Hfuel.
  - apply parse_id_0.
  - destruct fuel as [|f]; [cbn [length] in Hfuel; lia|].
    inversion Hwf as [|x l' Hd Hl]; subst.
    cbn [length map concat]. rewrite parse_id_S by apply of_nat_S_neq0.
    rewrite <- !app_assoc. rewrite dec_sv_enc by exact Hd.
    rewrite of_nat_S_pred. rewrite IH; [reflexivity|exact Hl|cbn [length] in Hfuel; lia].
Qed.
Lemma parse_cc_ser : forall (l : list f64) fuel rest,
  length l <= fuel ->
  parse_cc fuel (N.of_nat (length l)) (concat (map Varfloat.enc_vf l) ++ rest) [] = Some (map wire_f l, rest).
Proof.
  induction l as [|c l IH]; intros fuel rest Hfuel.
  - apply parse_cc_0.
  - destruct fuel as [|f]; [cbn [length] in Hfuel; lia|].
    cbn [length map concat]. rewrite parse_cc_S by apply of_nat_S_neq0.
    rewrite <- !app_assoc. rewrite dec_vf_enc.
    rewrite of_nat_S_pred. rewrite IH; [reflexivity|cbn [length] in Hfuel; lia].
Qed.

Lemma enc_dc_nonempty (dc : Z * f64) : enc_sv (fst dc) ++ Varfloat.enc_vf (snd dc) <> [].
Proof. intros H. apply app_eq_nil in H. destruct H as [H _]. exact (enc_sv_nonempty _ H). Qed.

Theorem parse_bins_ser bb rest : wf_bins bb ->
  parse_bins (fst (ser_bins bb)) (snd (ser_bins bb) ++ rest) = Some (wire_bins bb, rest).
Proof.
  intros Hwf. destruct bb as [l|l|first stride l]; cbn [ser_bins fst snd wire_bins]; unfold parse_bins.
  - destruct Hwf as [Hlen Hd]. rewrite <- app_assoc. rewrite dec_uv_enc by exact Hlen.
    change (SUB_BINS_IDC =? SUB_BINS_IDC)%N with true. cbv iota.
    rewrite parse_idc_ser; [reflexivity|exact Hd|].
    rewrite app_length. pose proof (concat_length_ge _ l enc_dc_nonempty). unfold Varfloat.f64, f64 in *. lia.
  - destruct Hwf as [Hlen Hd]. rewrite <- app_assoc. rewrite dec_uv_enc by exact Hlen.
    change (SUB_BINS_ID =? SUB_BINS_IDC)%N with false. change (SUB_BINS_ID =? SUB_BINS_ID)%N with true. cbv iota.
    rewrite parse_id_ser; [reflexivity|exact Hd|].
    rewrite app_length. pose proof (concat_length_ge _ l enc_sv_nonempty). lia.
  - destruct Hwf as [Hlen [Hf Hs]]. rewrite <- !app_assoc. rewrite dec_uv_enc by exact Hlen.
    change (SUB_BINS_CC =? SUB_BINS_IDC)%N with false. change (SUB_BINS_CC =? SUB_BINS_ID)%N with false.
    change (SUB_BINS_CC =? SUB_BINS_CC)%N with true. cbv iota.
    rewrite dec_sv_enc by exact Hf. rewrite dec_sv_enc by exact Hs.
    rewrite parse_cc_ser; [reflexivity|].
    rewrite app_length. pose proof (concat_length_ge _ l enc_vf_nonempty). unfold Varfloat.f64, f64 in *. lia.
Qed.

Lemma ser_block_store neg bb :
  ser_block (BStore neg bb) = g_flag (if neg then TY_NEGATIVE else TY_POSITIVE) (fst (ser_bins bb)) :: snd (ser_bins bb).
Proof. destruct bb; reflexivity. Qed.

Lemma parse_block_pos sub b1 : parse_block (g_flag TY_POSITIVE sub :: b1) =
  match parse_bins sub b1 with Some (bb, r) => Some (BStore false bb, r) | None => None end.
Proof.
  unfold parse_block. rewrite g_flag_ty, g_flag_sub by (unfold TY_POSITIVE; lia). reflexivity.
Qed.
Lemma parse_block_neg sub b1 : parse_block (g_flag TY_NEGATIVE sub :: b1) =
  match parse_bins sub b1 with Some (bb, r) => Some (BStore true bb, r) | None => None end.
Proof.
  unfold parse_block. rewrite g_flag_ty, g_flag_sub by (unfold TY_NEGATIVE; lia). reflexivity.
Qed.
Lemma parse_block_map sub b1 : parse_block (g_flag TY_MAPPING sub :: b1) =
  match Varfloat.dec_f64le b1 with
  | Ok g b2 => match Varfloat.dec_f64le b2 with Ok o b3 => Some (BMapping sub g o, b3) | _ => None end
  | _ => None end.
Proof.
  unfold parse_block. rewrite g_flag_ty, g_flag_sub by (unfold TY_MAPPING; lia). reflexivity.
Qed.

Theorem parse_block_ser b rest : wf_block b ->
  parse_block (ser_block b ++ rest) = Some (wire_block b, rest).
Proof.
  intros Hwf. destruct b as [w|k g o|neg bb|w|x|x|x].
  - cbn [ser_block app]. change (parse_block (g_flag TY_FEATURES SUB_ZERO_COUNT :: Varfloat.enc_vf w ++ rest))
      with (match Varfloat.dec_vf (Varfloat.enc_vf w ++ rest) with Ok w r => Some (BZeroCount w, r) | _ => None end).
    rewrite dec_vf_enc. reflexivity.
  - cbn [ser_block]. rewrite <- app_comm_cons, <- app_assoc. rewrite parse_block_map.
    rewrite dec_f64_enc, dec_f64_enc. reflexivity.
  - rewrite ser_block_store, <- app_comm_cons. cbn [wf_block] in Hwf.
    destruct neg; [rewrite parse_block_neg|rewrite parse_block_pos]; rewrite parse_bins_ser by exact Hwf; reflexivity.
  - cbn [ser_block app]. change (parse_block (g_flag TY_FEATURES SUB_COUNT :: Varfloat.enc_vf w ++ rest))
      with (match Varfloat.dec_vf (Varfloat.enc_vf w ++ rest) with Ok w r => Some (BCount w, r) | _ => None end).
    rewrite dec_vf_enc. reflexivity.
  - cbn [ser_block app]. change (parse_block (g_flag TY_FEATURES SUB_SUM :: Varfloat.enc_f64le x ++ rest))
      with (match Varfloat.dec_f64le (Varfloat.enc_f64le x ++ rest) with Ok w r => Some (BSum w, r) | _ => None end).
    rewrite dec_f64_enc. reflexivity.
  - cbn [ser_block app]. change (parse_block (g_flag TY_FEATURES SUB_MIN :: Varfloat.enc_f64le x ++ rest))
      with (match Varfloat.dec_f64le (Varfloat.enc_f64le x ++ rest) with Ok w r => Some (BMin w, r) | _ => None end).
    rewrite dec_f64_enc. reflexivity.
  - cbn [ser_block app]. change (parse_block (g_flag TY_FEATURES SUB_MAX :: Varfloat.enc_f64le x ++ rest))
      with (match Varfloat.dec_f64le (Varfloat.enc_f64le x ++ rest) with Ok w r => Some (BMax w, r) | _ => None end).
    rewrite dec_f64_enc. reflexivity.
Qed.

Lemma ser_block_cons b : exists f body, ser_block b = f :: body.
Proof. destruct b as [w|k g o|neg bb|w|x|x|x]; try (eexists; eexists; reflexivity). rewrite ser_block_store. eauto. Qed.
Lemma ser_block_nonempty b : ser_block b <> [].
Proof. destruct (ser_block_cons b) as [f [body H]]. rewrite H. discriminate. Qed.

Lemma serialize_nil : serialize [] = [].
Proof. reflexivity. Qed.
Lemma serialize_cons b st : serialize (b :: st) = ser_block b ++ serialize st.
Proof. reflexivity. Qed.
Theorem serialize_app a b : serialize (a ++ b) = serialize a ++ serialize b.
Proof. unfold serialize. rewrite map_app, concat_app. reflexivity. Qed.
Lemma serialize_length_ge st : length st <= length (serialize st).
Proof. unfold serialize. apply concat_length_ge. apply ser_block_nonempty. Qed.

Lemma parse_stream_nil fuel : parse_stream fuel [] = Some [].
Proof. destruct fuel; reflexivity. Qed.
Lemma parse_stream_cons fuel x tl : parse_stream (S fuel) (x :: tl) =
  match parse_block (x :: tl) with
  | Some (blk, rest) => match parse_stream fuel rest with Some s => Some (blk :: s) | None => None end
  | None => None
  end.
Proof. reflexivity. Qed.
Arguments parse_stream : simpl never.

Lemma parse_stream_ser : forall st fuel, wf_stream st -> length st < fuel ->
  parse_stream fuel (serialize st) = Some (wire_stream st).
Proof.
  induction st as [|b st IH]; intros fuel Hwf Hfuel.
  - apply parse_stream_nil.
  - destruct fuel as [|f]; [lia|]. inversion Hwf as [|x l Hb Hst]; subst.
    rewrite serialize_cons. destruct (ser_block_cons b) as [fl [body Hser]].
    pose proof (parse_block_ser b (serialize st) Hb) as HP. rewrite Hser in *.
    rewrite <- app_comm_cons in *. rewrite parse_stream_cons, HP.
    rewrite IH; [reflexivity|exact Hst|cbn [length] in Hfuel; lia].
Qed.

Theorem parse_serialize st : wf_stream st -> ref_parse (serialize st) = Some (wire_stream st).
Proof.
  intros Hwf. unfold ref_parse. apply parse_stream_ser; [exact Hwf|].
  pose proof (serialize_length_ge st). lia.
Qed.

Lemma wire_bins_exact bb : Forall exact_f (bins_weights bb) -> wire_bins bb = bb.
Proof.
  destruct bb as [l|l|first stride l]; cbn [bins_weights wire_bins]; intros H; [|reflexivity|].
  - f_equal. induction l as [|[d c] l IH]; [reflexivity|]. cbn [map fst snd] in *.
    inversion H as [|x y Hc Hl]; subst. rewrite IH by exact Hl. unfold exact_f in Hc. rewrite Hc. reflexivity.
  - f_equal. induction l as [|c l IH]; [reflexivity|]. cbn [map].
    inversion H as [|x y Hc Hl]; subst. rewrite IH by exact Hl. unfold exact_f in Hc. rewrite Hc. reflexivity.
Qed.
Lemma wire_block_exact b : Forall exact_f (block_weights b) -> wire_block b = b.
Proof.
  destruct b as [w|k g o|neg bb|w|x|x|x]; cbn [block_weights wire_block]; intros H; try reflexivity.
  - inversion H as [|x y Hc Hl]; subst. unfold exact_f in Hc. rewrite Hc. reflexivity.
  - rewrite wire_bins_exact by exact H. reflexivity.
  - inversion H as [|x y Hc Hl]; subst. unfold exact_f in Hc. rewrite Hc. reflexivity.
Qed.
Lemma wire_stream_exact st : exact_stream st -> wire_stream st = st.
Proof.
  induction st as [|b st IH]; intros H; [reflexivity|].
  inversion H as [|x y Hb Hst]; subst. cbn [wire_stream map].
  rewrite wire_block_exact by exact Hb. fold (wire_stream st). rewrite IH by exact Hst. reflexivity.
Qed.

Theorem parse_serialize_exact st : wf_stream st -> exact_stream st -> ref_parse (serialize st) = Some st.
Proof. intros Hwf Hex. rewrite parse_serialize by exact Hwf. rewrite wire_stream_exact by exact Hex. reflexivity. Qed.
(* ================================================================== *)
(* 4. Bins of a block without accumulator; G2 composition              *)
(* ================================================================== *)
Fixpoint idc_bins (w : f64 -> W) (idx : Z) (l : list (Z * f64)) : list (Z * W) :=
  match l with
  | [] => []
  | dc :: tl => let i := wrap_i64 (idx + fst dc) in (i, w (snd dc)) :: idc_bins w i tl
  end.
Fixpoint id_bins (idx : Z) (l : list Z) : list (Z * W) :=
  match l with
  | [] => []
  | d :: tl => let i := wrap_i64 (idx + d) in (i, w1) :: id_bins i tl
  end.
Fixpoint cc_bins (w : f64 -> W) (idx stride : Z) (l : list f64) : list (Z * W) :=
  match l with
  | [] => []
  | c :: tl => (idx, w c) :: cc_bins w (wrap_i64 (idx + stride)) stride tl
  end.
Definition bins_of_block_w (w : f64 -> W) (bb : bin_block) : list (Z * W) :=
  match bb with
  | IndexDeltasAndCounts l => idc_bins w 0 l
  | IndexDeltas l => id_bins 0 l
  | ContiguousCounts first stride l => cc_bins w first stride l
  end.

Lemma idc_fold w : forall l idx out,
  snd (fold_left (fun (acc : Z * list (Z * W)) (dc : Z * f64) =>
                    let i := wrap_i64 (fst acc + fst dc) in (i, snd acc ++ [(i, w (snd dc))])) l (idx, out))
  = out ++ idc_bins w idx l.
Proof.
  induction l as [|dc l IH]; intros idx out; cbn [fold_left idc_bins fst snd].
  - now rewrite app_nil_r.
  - cbv zeta. rewrite IH. rewrite <- app_assoc. reflexivity.
Qed.
Lemma id_fold : forall l idx out,
  snd (fold_left (fun (acc : Z * list (Z * W)) (d : Z) =>
                    let i := wrap_i64 (fst acc + d) in (i, snd acc ++ [(i, w1)])) l (idx, out))
  = out ++ id_bins idx l.
Proof.
  induction l as [|d l IH]; intros idx out; cbn [fold_left id_bins fst snd].
  - now rewrite app_nil_r.
  - cbv zeta. rewrite IH. rewrite <- app_assoc. reflexivity.
Qed.
Lemma cc_fold w stride : forall l idx out,
  snd (fold_left (fun (acc : Z * list (Z * W)) (c : f64) =>
                    (wrap_i64 (fst acc + stride), snd acc ++ [(fst acc, w c)])) l (idx, out))
  = out ++ cc_bins w idx stride l.
Proof.
  induction l as [|c l IH]; intros idx out; cbn [fold_left cc_bins fst snd].
  - now rewrite app_nil_r.
  - rewrite IH. rewrite <- app_assoc. reflexivity.
Qed.
Theorem bins_of_block_eq bb : bins_of_block bb = bins_of_block_w wire_w bb.
Proof.
  destruct bb as [l|l|first stride l]; cbn [bins_of_block bins_of_block_w].
  - apply (idc_fold wire_w l 0%Z []).
  - apply (id_fold l 0%Z []).
  - apply (cc_fold wire_w stride l first []).
Qed.

Lemma wire_w_f x : wire_w x = f2q (wire_f x).
Proof. reflexivity. Qed.

Lemma idc_bins_map w g : forall l idx,
  idc_bins w idx (map (fun dc => (fst dc, g (snd dc))) l) = idc_bins (fun x => w (g x)) idx l.
Proof. induction l as [|dc l IH]; intros idx; cbn [map idc_bins fst snd]; [reflexivity|]. cbv zeta. now rewrite IH. Qed.
Lemma cc_bins_map w g stride : forall l idx,
  cc_bins w idx stride (map g l) = cc_bins (fun x => w (g x)) idx stride l.
Proof. induction l as [|c l IH]; intros idx; cbn [map cc_bins]; [reflexivity|]. now rewrite IH. Qed.
Lemma idc_bins_ext w w' : forall l idx,
  Forall (fun x => w x = w' x) (map snd l) -> idc_bins w idx l = idc_bins w' idx l.
Proof.
  induction l as [|dc l IH]; intros idx H; cbn [map idc_bins] in *; [reflexivity|].
  inversion H as [|x y Hx Hl]; subst. cbv zeta. rewrite Hx, IH by exact Hl. reflexivity.
Qed.
Lemma cc_bins_ext w w' stride : forall l idx,
  Forall (fun x => w x = w' x) l -> cc_bins w idx stride l = cc_bins w' idx stride l.
Proof.
  induction l as [|c l IH]; intros idx H; cbn [cc_bins]; [reflexivity|].
  inversion H as [|x y Hx Hl]; subst. rewrite Hx, IH by exact Hl. reflexivity.
Qed.

(* the bins a decoder computes from the parsed block (weights already (w+1)-1) are the bins the
   grammar gives to the block that was serialised *)
Theorem raw_bins_wire bb : bins_of_block_w f2q (wire_bins bb) = bins_of_block bb.
Proof.
  rewrite bins_of_block_eq. destruct bb as [l|l|first stride l]; cbn [wire_bins bins_of_block_w].
  - rewrite idc_bins_map. reflexivity.
  - reflexivity.
  - rewrite cc_bins_map. reflexivity.
Qed.

Lemma stable_wire_w x : stable_f x -> wire_w (wire_f x) = wire_w x.
Proof. unfold stable_f. intros H. rewrite !wire_w_f, H. reflexivity. Qed.

Lemma bins_of_block_wire bb : Forall stable_f (bins_weights bb) -> bins_of_block (wire_bins bb) = bins_of_block bb.
Proof.
  intros H. rewrite !bins_of_block_eq. destruct bb as [l|l|first stride l]; cbn [wire_bins bins_of_block_w bins_weights] in *.
  - rewrite idc_bins_map. apply idc_bins_ext. eapply Forall_impl; [|exact H]. apply stable_wire_w.
  - reflexivity.
  - rewrite cc_bins_map. apply cc_bins_ext. eapply Forall_impl; [|exact H]. apply stable_wire_w.
Qed.
Lemma sem_block_wire c b : Forall stable_f (block_weights b) -> sem_block c (wire_block b) = sem_block c b.
Proof.
  destruct b as [w|k g o|neg bb|w|x|x|x]; cbn [block_weights wire_block]; intros H; try reflexivity.
  - inversion H as [|x y Hc Hl]; subst. cbn [sem_block]. rewrite stable_wire_w by exact Hc. reflexivity.
  - destruct neg; cbn [sem_block]; rewrite bins_of_block_wire by exact H; reflexivity.
  - inversion H as [|x y Hc Hl]; subst. cbn [sem_block]. unfold stable_f in Hc.
    change (fsub (fadd (wire_f w) f64_one) f64_one) with (wire_f (wire_f w)). rewrite Hc. reflexivity.
Qed.
Lemma sem_wire_from : forall st c, stable_stream st ->
  fold_left sem_block (wire_stream st) c = fold_left sem_block st c.
Proof.
  induction st as [|b st IH]; intros c H; [reflexivity|].
  inversion H as [|x y Hb Hst]; subst. cbn [wire_stream map fold_left].
  rewrite sem_block_wire by exact Hb. apply IH. exact Hst.
Qed.
Theorem sem_wire st : stable_stream st -> sem (wire_stream st) = sem st.
Proof. intros H. unfold sem. apply sem_wire_from. exact H. Qed.

Theorem ref_decode_serialize_wire st : wf_stream st -> ref_decode (serialize st) = Some (sem (wire_stream st)).
Proof. intros H. unfold ref_decode. rewrite parse_serialize by exact H. reflexivity. Qed.
Theorem ref_decode_serialize st : wf_stream st -> stable_stream st -> ref_decode (serialize st) = Some (sem st).
Proof. intros H Hs. rewrite ref_decode_serialize_wire by exact H. rewrite sem_wire by exact Hs. reflexivity. Qed.

(* ---- G2 ---- *)
Theorem sem_app a b : sem (a ++ b) = fold_left sem_block b (sem a).
Proof. unfold sem. apply fold_left_app. Qed.

Definition block_pos_bins (b : block) : list (Z * W) := match b with BStore false bb => bins_of_block bb | _ => [] end.
Definition block_neg_bins (b : block) : list (Z * W) := match b with BStore true bb => bins_of_block bb | _ => [] end.
Definition block_zero (b : block) : list W := match b with BZeroCount w => [wire_w w] | _ => [] end.
Definition stream_pos_bins (st : stream) : list (Z * W) := concat (map block_pos_bins st).
Definition stream_neg_bins (st : stream) : list (Z * W) := concat (map block_neg_bins st).
Definition stream_zero (st : stream) : list W := concat (map block_zero st).
Fixpoint last_mapping (cur : option (N * f64 * f64)) (st : stream) : option (N * f64 * f64) :=
  match st with
  | [] => cur
  | BMapping k g o :: tl => last_mapping (Some (k, g, o)) tl
  | _ :: tl => last_mapping cur tl
  end.

Lemma sem_from_pos : forall st c, c_pos (fold_left sem_block st c) = bmerge_list (c_pos c) (stream_pos_bins st).
Proof.
  induction st as [|b st IH]; intros c; [reflexivity|].
  cbn [fold_left]. rewrite IH. unfold stream_pos_bins. cbn [map concat]. rewrite bmerge_list_app.
  f_equal. destruct b as [w|k g o|[|] bb|w|x|x|x]; reflexivity.
Qed.
Lemma sem_from_neg : forall st c, c_neg (fold_left sem_block st c) = bmerge_list (c_neg c) (stream_neg_bins st).
Proof.
  induction st as [|b st IH]; intros c; [reflexivity|].
  cbn [fold_left]. rewrite IH. unfold stream_neg_bins. cbn [map concat]. rewrite bmerge_list_app.
  f_equal. destruct b as [w|k g o|[|] bb|w|x|x|x]; reflexivity.
Qed.
Lemma sem_from_zero : forall st c, c_zero (fold_left sem_block st c) = fold_left wadd (stream_zero st) (c_zero c).
Proof.
  induction st as [|b st IH]; intros c; [reflexivity|].
  cbn [fold_left]. rewrite IH. unfold stream_zero. cbn [map concat]. rewrite fold_left_app.
  f_equal. destruct b as [w|k g o|[|] bb|w|x|x|x]; reflexivity.
Qed.
Lemma sem_from_map : forall st c, c_map (fold_left sem_block st c) = last_mapping (c_map c) st.
Proof.
  induction st as [|b st IH]; intros c; [reflexivity|].
  cbn [fold_left]. rewrite IH. destruct b as [w|k g o|[|] bb|w|x|x|x]; reflexivity.
Qed.

(* decoding a concatenation = merging *)
Theorem sem_app_pos a b : c_pos (sem (a ++ b)) = bmerge_list (c_pos (sem a)) (stream_pos_bins b).
Proof. rewrite sem_app. apply sem_from_pos. Qed.
Theorem sem_app_neg a b : c_neg (sem (a ++ b)) = bmerge_list (c_neg (sem a)) (stream_neg_bins b).
Proof. rewrite sem_app. apply sem_from_neg. Qed.
Theorem sem_app_zero a b : c_zero (sem (a ++ b)) = fold_left wadd (stream_zero b) (c_zero (sem a)).
Proof. rewrite sem_app. apply sem_from_zero. Qed.
Theorem sem_app_map a b : c_map (sem (a ++ b)) = last_mapping (c_map (sem a)) b.
Proof. rewrite sem_app. apply sem_from_map. Qed.
Theorem sem_pos st : c_pos (sem st) = bins_of_list (stream_pos_bins st).
Proof. unfold sem. rewrite sem_from_pos. reflexivity. Qed.
Theorem sem_neg st : c_neg (sem st) = bins_of_list (stream_neg_bins st).
Proof. unfold sem. rewrite sem_from_neg. reflexivity. Qed.

Theorem ref_decode_concat a b : wf_stream a -> wf_stream b -> stable_stream a -> stable_stream b ->
  ref_decode (serialize a ++ serialize b) = Some (fold_left sem_block b (sem a)).
Proof.
  intros Ha Hb Hsa Hsb. rewrite <- serialize_app. rewrite ref_decode_serialize.
  - rewrite sem_app. reflexivity.
  - apply Forall_app. split; assumption.
  - apply Forall_app. split; assumption.
Qed.

(* ================================================================== *)
(* 5. G5 for the reference parser: a truncated block does not parse    *)
(* ================================================================== *)
Lemma parse_idc_trunc : forall (l : list (Z * f64)) fuel p s,
  Forall (fun dc => i64 (fst dc)) l ->
  concat (map (fun dc => enc_sv (fst dc) ++ Varfloat.enc_vf (snd dc)) l) = p ++ s -> s <> [] ->
  parse_idc fuel (N.of_nat (length l)) p [] = None.
Proof.
  induction l as [|[d c] l IH]; intros fuel p s Hwf H Hs.
  - cbn [map concat] in H. symmetry in H. apply app_eq_nil in H. destruct H as [_ H]. contradiction.
  - inversion Hwf as [|x l' Hd Hl]; subst. cbn [fst] in Hd.
    cbn [length]. destruct fuel as [|f]; [apply parse_idc_O, of_nat_S_neq0|].
    rewrite parse_idc_S by apply of_nat_S_neq0. rewrite of_nat_S_pred.
    cbn [map concat fst snd] in H. rewrite <- app_assoc in H.
    destruct (prefix_split _ _ _ _ H Hs) as [[l0 [Hl0 H1]]|[q [H1 H2]]].
    + rewrite (dec_sv_prefix _ _ _ H1 Hl0). reflexivity.
    + subst p. rewrite dec_sv_enc by exact Hd.
      destruct (prefix_split _ _ _ _ H2 Hs) as [[l0 [Hl0 H3]]|[q' [H3 H4]]].
      * rewrite (dec_vf_prefix _ _ _ H3 Hl0). reflexivity.
      * subst q. rewrite dec_vf_enc. rewrite (IH f q' s Hl H4 Hs). reflexivity.
Qed.
Lemma parse_id_trunc : forall (l : list Z) fuel p s,
  Forall i64 l -> concat (map enc_sv l) = p ++ s -> s <> [] ->
  parse_id fuel (N.of_nat (length l)) p [] = None.
Proof.
  induction l as [|d l IH]; intros fuel p s Hwf H Hs.
  - cbn [map concat] in H. symmetry in H. apply app_eq_nil in H. destruct H as [_ H]. contradiction.
  - inversion Hwf as [|x l' Hd Hl]; subst.
    cbn [length]. destruct fuel as [|f]; [apply parse_id_O, of_nat_S_neq0|].
    rewrite parse_id_S by apply of_nat_S_neq0. rewrite of_nat_S_pred.
    cbn [map concat] in H.
    destruct (prefix_split _ _ _ _ H Hs) as [[l0 [Hl0 H1]]|[q [H1 H2]]].
    + rewrite (dec_sv_prefix _ _ _ H1 Hl0). reflexivity.
    + subst p. rewrite dec_sv_enc by exact Hd. rewrite (IH f q s Hl H2 Hs). reflexivity.
Qed.
Lemma parse_cc_trunc : forall (l : list f64) fuel p s,
  concat (map Varfloat.enc_vf l) = p ++ s -> s <> [] ->
  parse_cc fuel (N.of_nat (length l)) p [] = None.
Proof.
  induction l as [|c l IH]; intros fuel p s H Hs.
  - cbn [map concat] in H. symmetry in H. apply app_eq_nil in H. destruct H as [_ H]. contradiction.
  - cbn [length]. destruct fuel as [|f]; [apply parse_cc_O, of_nat_S_neq0|].
    rewrite parse_cc_S by apply of_nat_S_neq0. rewrite of_nat_S_pred.
    cbn [map concat] in H.
    destruct (prefix_split _ _ _ _ H Hs) as [[l0 [Hl0 H1]]|[q [H1 H2]]].
    + rewrite (dec_vf_prefix _ _ _ H1 Hl0). reflexivity.
    + subst p. rewrite dec_vf_enc. rewrite (IH f q s H2 Hs). reflexivity.
Qed.

Theorem parse_bins_trunc bb p s : wf_bins bb ->
  snd (ser_bins bb) = p ++ s -> s <> [] -> parse_bins (fst (ser_bins bb)) p = None.
Proof.
  intros Hwf H Hs. destruct bb as [l|l|first stride l]; cbn [ser_bins fst snd] in *; unfold parse_bins.
  - destruct Hwf as [Hlen Hd].
    destruct (prefix_split _ _ _ _ H Hs) as [[l0 [Hl0 H1]]|[q [H1 H2]]].
    + rewrite (dec_uv_prefix _ _ _ H1 Hl0). reflexivity.
    + subst p. rewrite dec_uv_enc by exact Hlen.
      change (SUB_BINS_IDC =? SUB_BINS_IDC)%N with true. cbv iota.
      rewrite (parse_idc_trunc l _ q s Hd H2 Hs). reflexivity.
  - destruct Hwf as [Hlen Hd].
    destruct (prefix_split _ _ _ _ H Hs) as [[l0 [Hl0 H1]]|[q [H1 H2]]].
    + rewrite (dec_uv_prefix _ _ _ H1 Hl0). reflexivity.
    + subst p. rewrite dec_uv_enc by exact Hlen.
      change (SUB_BINS_ID =? SUB_BINS_IDC)%N with false. change (SUB_BINS_ID =? SUB_BINS_ID)%N with true. cbv iota.
      rewrite (parse_id_trunc l _ q s Hd H2 Hs). reflexivity.
  - destruct Hwf as [Hlen [Hf Hst]].
    destruct (prefix_split _ _ _ _ H Hs) as [[l0 [Hl0 H1]]|[q [H1 H2]]].
    + rewrite (dec_uv_prefix _ _ _ H1 Hl0). reflexivity.
    + subst p. rewrite dec_uv_enc by exact Hlen.
      change (SUB_BINS_CC =? SUB_BINS_IDC)%N with false. change (SUB_BINS_CC =? SUB_BINS_ID)%N with false.
      change (SUB_BINS_CC =? SUB_BINS_CC)%N with true. cbv iota.
      destruct (prefix_split _ _ _ _ H2 Hs) as [[l0 [Hl0 H3]]|[q1 [H3 H4]]].
      * rewrite (dec_sv_prefix _ _ _ H3 Hl0). reflexivity.
      * subst q. rewrite dec_sv_enc by exact Hf.
        destruct (prefix_split _ _ _ _ H4 Hs) as [[l0 [Hl0 H5]]|[q2 [H5 H6]]].
        -- rewrite (dec_sv_prefix _ _ _ H5 Hl0). reflexivity.
        -- subst q1. rewrite dec_sv_enc by exact Hst.
           rewrite (parse_cc_trunc l _ q2 s H6 Hs). reflexivity.
Qed.

(* one primitive after the flag *)
Lemma vf_body_trunc (w : f64) p s : Varfloat.enc_vf w = p ++ s -> s <> [] -> Varfloat.dec_vf p = Eof.
Proof. apply dec_vf_prefix. Qed.

Lemma parse_block_zc b1 : parse_block (g_flag TY_FEATURES SUB_ZERO_COUNT :: b1) =
  match Varfloat.dec_vf b1 with Ok w r => Some (BZeroCount w, r) | _ => None end.
Proof. reflexivity. Qed.
Lemma parse_block_count b1 : parse_block (g_flag TY_FEATURES SUB_COUNT :: b1) =
  match Varfloat.dec_vf b1 with Ok w r => Some (BCount w, r) | _ => None end.
Proof. reflexivity. Qed.
Lemma parse_block_sum b1 : parse_block (g_flag TY_FEATURES SUB_SUM :: b1) =
  match Varfloat.dec_f64le b1 with Ok w r => Some (BSum w, r) | _ => None end.
Proof. reflexivity. Qed.
Lemma parse_block_min b1 : parse_block (g_flag TY_FEATURES SUB_MIN :: b1) =
  match Varfloat.dec_f64le b1 with Ok w r => Some (BMin w, r) | _ => None end.
Proof. reflexivity. Qed.
Lemma parse_block_max b1 : parse_block (g_flag TY_FEATURES SUB_MAX :: b1) =
  match Varfloat.dec_f64le b1 with Ok w r => Some (BMax w, r) | _ => None end.
Proof. reflexivity. Qed.

Theorem block_truncation b p s : wf_block b ->
  ser_block b = p ++ s -> s <> [] -> p <> [] -> parse_block p = None.
Proof.
  intros Hwf H Hs Hp. destruct p as [|f p']; [contradiction|]. clear Hp.
  destruct b as [w|k g o|neg bb|w|x|x|x].
  - cbn [ser_block] in H. rewrite <- app_comm_cons in H. apply cons_inj in H. destruct H as [Hf H]. subst f.
    rewrite parse_block_zc.
    rewrite (dec_vf_prefix _ _ _ H Hs). reflexivity.
  - cbn [ser_block] in H. rewrite <- app_comm_cons in H. apply cons_inj in H. destruct H as [Hf H]. subst f.
    rewrite parse_block_map.
    destruct (prefix_split _ _ _ _ H Hs) as [[l0 [Hl0 H1]]|[q [H1 H2]]].
    + rewrite (dec_f64_prefix _ _ _ H1 Hl0). reflexivity.
    + subst p'. rewrite dec_f64_enc. rewrite (dec_f64_prefix _ _ _ H2 Hs). reflexivity.
  - rewrite ser_block_store in H. rewrite <- app_comm_cons in H. apply cons_inj in H. destruct H as [Hf H]. subst f.
    cbn [wf_block] in Hwf.
    destruct neg; [rewrite parse_block_neg|rewrite parse_block_pos];
      rewrite (parse_bins_trunc bb p' s Hwf H Hs); reflexivity.
  - cbn [ser_block] in H. rewrite <- app_comm_cons in H. apply cons_inj in H. destruct H as [Hf H]. subst f.
    rewrite parse_block_count.
    rewrite (dec_vf_prefix _ _ _ H Hs). reflexivity.
  - cbn [ser_block] in H. rewrite <- app_comm_cons in H. apply cons_inj in H. destruct H as [Hf H]. subst f.
    rewrite parse_block_sum.
    rewrite (dec_f64_prefix _ _ _ H Hs). reflexivity.
  - cbn [ser_block] in H. rewrite <- app_comm_cons in H. apply cons_inj in H. destruct H as [Hf H]. subst f.
    rewrite parse_block_min.
    rewrite (dec_f64_prefix _ _ _ H Hs). reflexivity.
  - cbn [ser_block] in H. rewrite <- app_comm_cons in H. apply cons_inj in H. destruct H as [Hf H]. subst f.
    rewrite parse_block_max.
    rewrite (dec_f64_prefix _ _ _ H Hs). reflexivity.
Qed.

(* the whole-stream version: complete blocks followed by a strict non-empty prefix of a block *)
Lemma parse_stream_trunc : forall st fuel b p s, wf_stream st -> wf_block b ->
  ser_block b = p ++ s -> s <> [] -> p <> [] ->
  parse_stream fuel (serialize st ++ p) = None.
Proof.
  induction st as [|a st IH]; intros fuel b p s Hwf Hb H Hs Hp.
  - cbn [serialize map concat app]. destruct p as [|f p']; [contradiction|].
    destruct fuel as [|k]; [reflexivity|]. rewrite parse_stream_cons.
    rewrite (block_truncation b (f :: p') s Hb H Hs Hp). reflexivity.
  - inversion Hwf as [|x l Ha Hst]; subst. rewrite serialize_cons, <- app_assoc.
    destruct (ser_block_cons a) as [fl [body Hser]].
    pose proof (parse_block_ser a (serialize st ++ p) Ha) as HP. rewrite Hser in *.
    rewrite <- app_comm_cons in *. destruct fuel as [|k]; [reflexivity|].
    rewrite parse_stream_cons, HP. rewrite (IH k b p s Hst Hb H Hs Hp). reflexivity.
Qed.
Theorem stream_truncation st b p s : wf_stream st -> wf_block b ->
  ser_block b = p ++ s -> s <> [] -> p <> [] -> ref_parse (serialize st ++ p) = None.
Proof. intros. unfold ref_parse. eapply parse_stream_trunc; eauto. Qed.
(* ================================================================== *)
(* 6. The implementation's decoders: unfolding                         *)
(* ================================================================== *)
Lemma dec_idc_loop_eq fuel n idx s b : dec_idc_loop fuel n idx s b =
  if (n =? 0)%N then DOk s b else
  match fuel with
  | O => DErr EEof
  | S f =>
    match dec_sv b with
    | Ok d b1 =>
      match dec_count b1 with
      | Ok c b2 => match st_addw s (wrap_i64 (idx + d)) c with
                   | Some s' => dec_idc_loop f (n - 1)%N (wrap_i64 (idx + d)) s' b2
                   | None => DPanic
                   end
      | _ => DErr EEof
      end
    | _ => DErr EEof
    end
  end.
Proof. destruct fuel; reflexivity. Qed.
Lemma dec_id_loop_eq fuel n idx s b : dec_id_loop fuel n idx s b =
  if (n =? 0)%N then DOk s b else
  match fuel with
  | O => DErr EEof
  | S f =>
    match dec_sv b with
    | Ok d b1 => match st_add s (wrap_i64 (idx + d)) with
                 | Some s' => dec_id_loop f (n - 1)%N (wrap_i64 (idx + d)) s' b1
                 | None => DPanic
                 end
    | _ => DErr EEof
    end
  end.
Proof. destruct fuel; reflexivity. Qed.
Lemma dec_cc_loop_eq fuel n idx delta s b : dec_cc_loop fuel n idx delta s b =
  if (n =? 0)%N then DOk s b else
  match fuel with
  | O => DErr EEof
  | S f =>
    match dec_count b with
    | Ok c b1 => match st_addw s idx c with
                 | Some s' => dec_cc_loop f (n - 1)%N (wrap_i64 (idx + delta)) delta s' b1
                 | None => DPanic
                 end
    | _ => DErr EEof
    end
  end.
Proof. destruct fuel; reflexivity. Qed.
Arguments dec_idc_loop : simpl never.
Arguments dec_id_loop : simpl never.
Arguments dec_cc_loop : simpl never.

Lemma of_nat_S_eqb k : (N.of_nat (S k) =? 0)%N = false.
Proof. apply N.eqb_neq. lia. Qed.

Lemma dec_count_enc (c : f64) rest : dec_count (Varfloat.enc_vf c ++ rest) = Ok (wire_w c) rest.
Proof. unfold dec_count. rewrite dec_vf_enc. reflexivity. Qed.
Lemma dec_count_prefix (c : f64) p s : Varfloat.enc_vf c = p ++ s -> s <> [] -> dec_count p = Eof.
Proof. intros H Hs. unfold dec_count. rewrite (dec_vf_prefix _ _ _ H Hs). reflexivity. Qed.

(* the implementation's view of a grammar flag *)
Lemma flag_type_g ty sub : (ty < 4)%N -> flag_type (g_flag ty sub) = ty.
Proof. apply g_flag_ty. Qed.
Lemma flag_sub_g ty sub : (ty < 4)%N -> (sub < 64)%N -> flag_sub (g_flag ty sub) = (sub * 4)%N.
Proof. intros Ht Hs. destruct (flag_roundtrip ty sub Ht Hs) as [_ [H _]]. exact H. Qed.

Lemma dec_blocks_nil wx fuel d : dec_blocks wx fuel d [] = DOk d [].
Proof. destruct fuel; reflexivity. Qed.
Lemma dec_blocks_S wx k s f b1 : dec_blocks wx (S k) s (f :: b1) =
      let t := flag_type f in
      if (t =? ft_positive)%N then
        match dec_bins (ds_pos s) (flag_sub f) b1 with
        | DOk p' rest => dec_blocks wx k {| ds_map := ds_map s; ds_pos := p'; ds_neg := ds_neg s; ds_zero := ds_zero s; ds_stats := ds_stats s |} rest
        | DErr e => if fD3 wx then DErr e else DOk s []
        | DPanic => DPanic
        end
      else if (t =? ft_negative)%N then
        match dec_bins (ds_neg s) (flag_sub f) b1 with
        | DOk n' rest => dec_blocks wx k {| ds_map := ds_map s; ds_pos := ds_pos s; ds_neg := n'; ds_zero := ds_zero s; ds_stats := ds_stats s |} rest
        | DErr e => if fD3 wx then DErr e else DOk s []
        | DPanic => DPanic
        end
      else if (t =? ft_mapping)%N then
        match dec_mapping f b1 with
        | DOk m rest =>
          match ds_map s with
          | Some m0 => if map_equals m0 m
                       then dec_blocks wx k {| ds_map := Some m; ds_pos := ds_pos s; ds_neg := ds_neg s; ds_zero := ds_zero s; ds_stats := ds_stats s |} rest
                       else DErr EMismatch
          | None => dec_blocks wx k {| ds_map := Some m; ds_pos := ds_pos s; ds_neg := ds_neg s; ds_zero := ds_zero s; ds_stats := ds_stats s |} rest
          end
        | DErr e => DErr e | DPanic => DPanic
        end
      else if (f =? flag_zero_count)%N then
        match dec_count b1 with
        | Ok z rest => dec_blocks wx k {| ds_map := ds_map s; ds_pos := ds_pos s; ds_neg := ds_neg s; ds_zero := wadd (ds_zero s) z; ds_stats := ds_stats s |} rest
        | _ => DErr EEof
        end
      else
        match dec_feature wx s f b1 with
        | DOk s' rest => dec_blocks wx k s' rest
        | r => r
        end.
Proof. reflexivity. Qed.
Arguments dec_blocks : simpl never.

Lemma dec_blocks_pos wx k s sub b1 : (sub < 64)%N ->
  dec_blocks wx (S k) s (g_flag TY_POSITIVE sub :: b1) =
  match dec_bins (ds_pos s) (sub * 4)%N b1 with
  | DOk p' rest => dec_blocks wx k {| ds_map := ds_map s; ds_pos := p'; ds_neg := ds_neg s; ds_zero := ds_zero s; ds_stats := ds_stats s |} rest
  | DErr e => if fD3 wx then DErr e else DOk s []
  | DPanic => DPanic
  end.
Proof.
  intros Hs. rewrite dec_blocks_S. cbv zeta.
  rewrite flag_type_g, flag_sub_g by (unfold TY_POSITIVE; lia). reflexivity.
Qed.
Lemma dec_blocks_neg wx k s sub b1 : (sub < 64)%N ->
  dec_blocks wx (S k) s (g_flag TY_NEGATIVE sub :: b1) =
  match dec_bins (ds_neg s) (sub * 4)%N b1 with
  | DOk n' rest => dec_blocks wx k {| ds_map := ds_map s; ds_pos := ds_pos s; ds_neg := n'; ds_zero := ds_zero s; ds_stats := ds_stats s |} rest
  | DErr e => if fD3 wx then DErr e else DOk s []
  | DPanic => DPanic
  end.
Proof.
  intros Hs. rewrite dec_blocks_S. cbv zeta.
  rewrite flag_type_g, flag_sub_g by (unfold TY_NEGATIVE; lia). reflexivity.
Qed.
Lemma dec_blocks_map wx k s kd b1 :
  dec_blocks wx (S k) s (g_flag TY_MAPPING kd :: b1) =
  match dec_mapping (g_flag TY_MAPPING kd) b1 with
  | DOk m rest =>
    match ds_map s with
    | Some m0 => if map_equals m0 m
                 then dec_blocks wx k {| ds_map := Some m; ds_pos := ds_pos s; ds_neg := ds_neg s; ds_zero := ds_zero s; ds_stats := ds_stats s |} rest
                 else DErr EMismatch
    | None => dec_blocks wx k {| ds_map := Some m; ds_pos := ds_pos s; ds_neg := ds_neg s; ds_zero := ds_zero s; ds_stats := ds_stats s |} rest
    end
  | DErr e => DErr e | DPanic => DPanic
  end.
Proof.
  rewrite dec_blocks_S. cbv zeta. rewrite flag_type_g by (unfold TY_MAPPING; lia). reflexivity.
Qed.
Lemma dec_blocks_zc wx k s b1 :
  dec_blocks wx (S k) s (g_flag TY_FEATURES SUB_ZERO_COUNT :: b1) =
  match dec_count b1 with
  | Ok z rest => dec_blocks wx k {| ds_map := ds_map s; ds_pos := ds_pos s; ds_neg := ds_neg s; ds_zero := wadd (ds_zero s) z; ds_stats := ds_stats s |} rest
  | _ => DErr EEof
  end.
Proof. reflexivity. Qed.
Lemma dec_blocks_feature wx k s sub b1 :
  sub = SUB_COUNT \/ sub = SUB_SUM \/ sub = SUB_MIN \/ sub = SUB_MAX ->
  dec_blocks wx (S k) s (g_flag TY_FEATURES sub :: b1) =
  match dec_feature wx s (g_flag TY_FEATURES sub) b1 with
  | DOk s' rest => dec_blocks wx k s' rest
  | r => r
  end.
Proof. intros [H|[H|[H|H]]]; subst sub; reflexivity. Qed.

Definition map_of (k : N) (g o : f64) : mapid := {| mk_kind := k; mk_gamma := g; mk_off := o |}.
Definition kind_ok (k : N) : Prop := k = 0%N \/ k = 1%N \/ k = 3%N.
Lemma dec_mapping_g kd b : kind_ok kd ->
  dec_mapping (g_flag TY_MAPPING kd) b =
  match Varfloat.dec_f64le b with
  | Ok g b1 => match Varfloat.dec_f64le b1 with
               | Ok o b2 => if fle g f64_one then DErr EBadGamma else DOk (map_of kd g o) b2
               | _ => DErr EEof end
  | _ => DErr EEof
  end.
Proof. intros [H|[H|H]]; subst kd; reflexivity. Qed.

(* the plain decoder's treatment of the statistics blocks (fD2 = true: repaired) *)
Lemma dec_feature_count wx s b : ds_stats s = None -> fD2 wx = true ->
  dec_feature wx s (g_flag TY_FEATURES SUB_COUNT) b =
  match Varfloat.dec_vf b with Ok _ rest => DOk s rest | _ => DErr EEof end.
Proof. intros H1 H2. unfold dec_feature. rewrite H1, H2. reflexivity. Qed.
Lemma dec_feature_skip8 wx s sub b : ds_stats s = None -> sub = SUB_SUM \/ sub = SUB_MIN \/ sub = SUB_MAX ->
  dec_feature wx s (g_flag TY_FEATURES sub) b =
  match skip8 b with DOk _ rest => DOk s rest | DErr e => DErr e | DPanic => DPanic end.
Proof. intros H1 [H|[H|H]]; subst sub; unfold dec_feature; rewrite H1; reflexivity. Qed.
Lemma skip8_enc (x : f64) rest : skip8 (Varfloat.enc_f64le x ++ rest) = DOk tt rest.
Proof.
  unfold skip8. rewrite app_length, enc_f64_length. cbn [Nat.ltb Nat.leb Nat.add].
  rewrite skipn_app_len by apply enc_f64_length. reflexivity.
Qed.
Lemma skip8_prefix (x : f64) p s : Varfloat.enc_f64le x = p ++ s -> s <> [] -> skip8 p = DErr EEof.
Proof.
  intros H Hs. pose proof (enc_f64_length x) as HL. rewrite H, app_length in HL.
  destruct s as [|c s']; [contradiction|]. cbn [length] in HL. unfold skip8.
  replace (length p <? 8) with true by (symmetry; apply Nat.ltb_lt; lia). reflexivity.
Qed.

(* ================================================================== *)
(* 7. G3 over an abstract store interface                              *)
(* ================================================================== *)
Definition okw_bins (okw : W -> Prop) (bb : bin_block) : Prop := Forall (fun x => okw (wire_w x)) (bins_weights bb).
Definition okw_block (okw : W -> Prop) (b : block) : Prop := match b with BStore _ bb => okw_bins okw bb | _ => True end.
Definition okw_stream (okw : W -> Prop) (st : stream) : Prop := Forall (okw_block okw) st.

Definition block_ok (cur : option mapid) (b : block) : Prop :=
  match b with
  | BMapping k g o => kind_ok k /\ fle g f64_one = false /\
                      match cur with Some m0 => map_equals m0 (map_of k g o) = true | None => True end
  | _ => True
  end.
Definition block_map (cur : option mapid) (b : block) : option mapid :=
  match b with BMapping k g o => Some (map_of k g o) | _ => cur end.
Fixpoint maps_chain (cur : option mapid) (st : stream) : Prop :=
  match st with
  | [] => True
  | b :: tl => block_ok cur b /\ maps_chain (block_map cur b) tl
  end.
Definition last_mapid (cur : option mapid) (st : stream) : option mapid := fold_left block_map st cur.
Definition mapid_triple (m : mapid) : N * f64 * f64 := (mk_kind m, mk_gamma m, mk_off m).
Lemma last_mapid_triple : forall st cur,
  option_map mapid_triple (last_mapid cur st) = last_mapping (option_map mapid_triple cur) st.
Proof.
  induction st as [|b st IH]; intros cur; [reflexivity|].
  unfold last_mapid in *. cbn [fold_left]. rewrite IH.
  destruct b as [w|k g o|neg bb|w|x|x|x]; reflexivity.
Qed.

Section Refine.
Variable abs : store -> bins.
Variable good : store -> Prop.
Variable okw : W -> Prop.
Variable step : bins -> Z -> W -> bins.
Hypothesis Haddw : forall s i c, good s -> okw c ->
  exists s', st_addw s i c = Some s' /\ good s' /\ abs s' = step (abs s) i c.
Hypothesis Hadd : forall s i, good s ->
  exists s', st_add s i = Some s' /\ good s' /\ abs s' = step (abs s) i w1.

Definition steps (a : bins) (l : list (Z * W)) : bins := fold_left (fun acc kw => step acc (fst kw) (snd kw)) l a.
Lemma steps_app a l1 l2 : steps a (l1 ++ l2) = steps (steps a l1) l2.
Proof. apply fold_left_app. Qed.

Lemma dec_idc_ser : forall (l : list (Z * f64)) idx s,
  good s -> Forall (fun dc => i64 (fst dc)) l -> Forall (fun x => okw (wire_w x)) (map snd l) ->
  exists s', (forall fuel rest, length l <= fuel ->
                dec_idc_loop fuel (N.of_nat (length l)) idx s
                  (concat (map (fun dc => enc_sv (fst dc) ++ Varfloat.enc_vf (snd dc)) l) ++ rest) = DOk s' rest)
             /\ good s' /\ abs s' = steps (abs s) (idc_bins wire_w idx l).
Proof.
  induction l as [|[d c] l IH]; intros idx s Hg Hwf Hok.
  - exists s. split; [|split; [exact Hg|reflexivity]]. intros fuel rest _. rewrite dec_idc_loop_eq. reflexivity.
  - inversion Hwf as [|x l' Hd Hl]; subst. cbn [fst] in Hd.
    cbn [map snd] in Hok. inversion Hok as [|x l' Hc Hokl]; subst.
    destruct (Haddw s (wrap_i64 (idx + d)) (wire_w c) Hg Hc) as [s1 [E1 [G1 A1]]].
    destruct (IH (wrap_i64 (idx + d)) s1 G1 Hl Hokl) as [s' [E' [G' A']]].
    exists s'. split; [|split; [exact G'|]].
    + intros fuel rest Hfuel. destruct fuel as [|f]; [cbn [length] in Hfuel; lia|].
      cbn [length map concat fst snd]. rewrite dec_idc_loop_eq, of_nat_S_eqb.
      rewrite <- !app_assoc. rewrite dec_sv_enc by exact Hd. rewrite dec_count_enc, E1.
      rewrite of_nat_S_pred. apply E'. cbn [length] in Hfuel. lia.
    + rewrite A'. cbn [idc_bins fst snd]. cbv zeta. unfold steps at 2. cbn [fold_left fst snd]. rewrite A1. reflexivity.
Qed.
Lemma dec_id_ser : forall (l : list Z) idx s,
  good s -> Forall i64 l ->
  exists s', (forall fuel rest, length l <= fuel ->
                dec_id_loop fuel (N.of_nat (length l)) idx s (concat (map enc_sv l) ++ rest) = DOk s' rest)
             /\ good s' /\ abs s' = steps (abs s) (id_bins idx l).
Proof.
  induction l as [|d l IH]; intros idx s Hg Hwf.
  - exists s. split; [|split; [exact Hg|reflexivity]]. intros fuel rest _. rewrite dec_id_loop_eq. reflexivity.
  - inversion Hwf as [|x l' Hd Hl]; subst.
    destruct (Hadd s (wrap_i64 (idx + d)) Hg) as [s1 [E1 [G1 A1]]].
    destruct (IH (wrap_i64 (idx + d)) s1 G1 Hl) as [s' [E' [G' A']]].
    exists s'. split; [|split; [exact G'|]].
    + intros fuel rest Hfuel. destruct fuel as [|f]; [cbn [length] in Hfuel; lia|].
      cbn [length map concat]. rewrite dec_id_loop_eq, of_nat_S_eqb.
      rewrite <- !app_assoc. rewrite dec_sv_enc by exact Hd. rewrite E1.
      rewrite of_nat_S_pred. apply E'. cbn [length] in Hfuel. lia.
    + rewrite A'. cbn [id_bins]. cbv zeta. unfold steps at 2. cbn [fold_left fst snd]. rewrite A1. reflexivity.
Qed.
Lemma dec_cc_ser stride : forall (l : list f64) idx s,
  good s -> Forall (fun x => okw (wire_w x)) l ->
  exists s', (forall fuel rest, length l <= fuel ->
                dec_cc_loop fuel (N.of_nat (length l)) idx stride s (concat (map Varfloat.enc_vf l) ++ rest) = DOk s' rest)
             /\ good s' /\ abs s' = steps (abs s) (cc_bins wire_w idx stride l).
Proof.
  induction l as [|c l IH]; intros idx s Hg Hok.
  - exists s. split; [|split; [exact Hg|reflexivity]]. intros fuel rest _. rewrite dec_cc_loop_eq. reflexivity.
  - inversion Hok as [|x l' Hc Hokl]; subst.
    destruct (Haddw s idx (wire_w c) Hg Hc) as [s1 [E1 [G1 A1]]].
    destruct (IH (wrap_i64 (idx + stride)) s1 G1 Hokl) as [s' [E' [G' A']]].
    exists s'. split; [|split; [exact G'|]].
    + intros fuel rest Hfuel. destruct fuel as [|f]; [cbn [length] in Hfuel; lia|].
      cbn [length map concat]. rewrite dec_cc_loop_eq, of_nat_S_eqb.
      rewrite <- !app_assoc. rewrite dec_count_enc, E1.
      rewrite of_nat_S_pred. apply E'. cbn [length] in Hfuel. lia.
    + rewrite A'. cbn [cc_bins]. unfold steps at 2. cbn [fold_left fst snd]. rewrite A1. reflexivity.
Qed.

(* G3, bins of one block, generic decoder of store.go *)
Theorem dec_bins_generic_ser bb s : wf_bins bb -> good s -> okw_bins okw bb ->
  exists s', (forall rest, dec_bins_generic s (fst (ser_bins bb) * 4)%N (snd (ser_bins bb) ++ rest) = DOk s' rest)
             /\ good s' /\ abs s' = steps (abs s) (bins_of_block bb).
Proof.
  intros Hwf Hg Hok. rewrite bins_of_block_eq. unfold okw_bins in Hok.
  destruct bb as [l|l|first stride l]; cbn [ser_bins fst snd bins_of_block_w bins_weights] in *.
  - destruct Hwf as [Hlen Hd]. destruct (dec_idc_ser l 0%Z s Hg Hd Hok) as [s' [E [G A]]].
    exists s'. split; [|split; assumption]. intros rest. unfold dec_bins_generic.
    change (SUB_BINS_IDC * 4 =? sub_idx_deltas_counts)%N with true. cbv iota.
    rewrite <- app_assoc. rewrite dec_uv_enc by exact Hlen. apply E.
    rewrite app_length. pose proof (concat_length_ge _ l enc_dc_nonempty). unfold Varfloat.f64, f64 in *. lia.
  - destruct Hwf as [Hlen Hd]. destruct (dec_id_ser l 0%Z s Hg Hd) as [s' [E [G A]]].
    exists s'. split; [|split; assumption]. intros rest. unfold dec_bins_generic.
    change (SUB_BINS_ID * 4 =? sub_idx_deltas_counts)%N with false.
    change (SUB_BINS_ID * 4 =? sub_idx_deltas)%N with true. cbv iota.
    rewrite <- app_assoc. rewrite dec_uv_enc by exact Hlen. apply E.
    rewrite app_length. pose proof (concat_length_ge _ l enc_sv_nonempty). lia.
  - destruct Hwf as [Hlen [Hf Hst]]. destruct (dec_cc_ser stride l first s Hg Hok) as [s' [E [G A]]].
    exists s'. split; [|split; assumption]. intros rest. unfold dec_bins_generic.
    change (SUB_BINS_CC * 4 =? sub_idx_deltas_counts)%N with false.
    change (SUB_BINS_CC * 4 =? sub_idx_deltas)%N with false.
    change (SUB_BINS_CC * 4 =? sub_contiguous)%N with true. cbv iota.
    rewrite <- !app_assoc. rewrite dec_uv_enc by exact Hlen.
    rewrite dec_sv_enc by exact Hf. rewrite dec_sv_enc by exact Hst. apply E.
    rewrite app_length. pose proof (concat_length_ge _ l enc_vf_nonempty). unfold Varfloat.f64, f64 in *. lia.
Qed.

(* G5, bins of one block: a truncated body gives io.EOF, never a panic *)
Lemma dec_idc_trunc : forall (l : list (Z * f64)) fuel p t idx s,
  good s -> Forall (fun dc => i64 (fst dc)) l -> Forall (fun x => okw (wire_w x)) (map snd l) ->
  concat (map (fun dc => enc_sv (fst dc) ++ Varfloat.enc_vf (snd dc)) l) = p ++ t -> t <> [] ->
  dec_idc_loop fuel (N.of_nat (length l)) idx s p = DErr EEof.
Proof.
  induction l as [|[d c] l IH]; intros fuel p t idx s Hg Hwf Hok H Ht.
  - cbn [map concat] in H. symmetry in H. apply app_eq_nil in H. destruct H as [_ H]. contradiction.
  - inversion Hwf as [|x l' Hd Hl]; subst. cbn [fst] in Hd.
    cbn [map snd] in Hok. inversion Hok as [|x l' Hc Hokl]; subst.
    cbn [length]. rewrite dec_idc_loop_eq, of_nat_S_eqb. destruct fuel as [|f]; [reflexivity|].
    rewrite of_nat_S_pred. cbn [map concat fst snd] in H. rewrite <- app_assoc in H.
    destruct (prefix_split _ _ _ _ H Ht) as [[l0 [Hl0 H1]]|[q [H1 H2]]].
    + rewrite (dec_sv_prefix _ _ _ H1 Hl0). reflexivity.
    + subst p. rewrite dec_sv_enc by exact Hd.
      destruct (prefix_split _ _ _ _ H2 Ht) as [[l0 [Hl0 H3]]|[q' [H3 H4]]].
      * rewrite (dec_count_prefix _ _ _ H3 Hl0). reflexivity.
      * subst q. rewrite dec_count_enc.
        destruct (Haddw s (wrap_i64 (idx + d)) (wire_w c) Hg Hc) as [s1 [E1 [G1 A1]]]. rewrite E1.
        apply (IH f q' t _ s1 G1 Hl Hokl H4 Ht).
Qed.
Lemma dec_id_trunc : forall (l : list Z) fuel p t idx s,
  good s -> Forall i64 l -> concat (map enc_sv l) = p ++ t -> t <> [] ->
  dec_id_loop fuel (N.of_nat (length l)) idx s p = DErr EEof.
Proof.
  induction l as [|d l IH]; intros fuel p t idx s Hg Hwf H Ht.
  - cbn [map concat] in H. symmetry in H. apply app_eq_nil in H. destruct H as [_ H]. contradiction.
  - inversion Hwf as [|x l' Hd Hl]; subst.
    cbn [length]. rewrite dec_id_loop_eq, of_nat_S_eqb. destruct fuel as [|f]; [reflexivity|].
    rewrite of_nat_S_pred. cbn [map concat] in H.
    destruct (prefix_split _ _ _ _ H Ht) as [[l0 [Hl0 H1]]|[q [H1 H2]]].
    + rewrite (dec_sv_prefix _ _ _ H1 Hl0). reflexivity.
    + subst p. rewrite dec_sv_enc by exact Hd.
      destruct (Hadd s (wrap_i64 (idx + d)) Hg) as [s1 [E1 [G1 A1]]]. rewrite E1.
      apply (IH f q t _ s1 G1 Hl H2 Ht).
Qed.
Lemma dec_cc_trunc stride : forall (l : list f64) fuel p t idx s,
  good s -> Forall (fun x => okw (wire_w x)) l -> concat (map Varfloat.enc_vf l) = p ++ t -> t <> [] ->
  dec_cc_loop fuel (N.of_nat (length l)) idx stride s p = DErr EEof.
Proof.
  induction l as [|c l IH]; intros fuel p t idx s Hg Hok H Ht.
  - cbn [map concat] in H. symmetry in H. apply app_eq_nil in H. destruct H as [_ H]. contradiction.
  - inversion Hok as [|x l' Hc Hokl]; subst.
    cbn [length]. rewrite dec_cc_loop_eq, of_nat_S_eqb. destruct fuel as [|f]; [reflexivity|].
    rewrite of_nat_S_pred. cbn [map concat] in H.
    destruct (prefix_split _ _ _ _ H Ht) as [[l0 [Hl0 H1]]|[q [H1 H2]]].
    + rewrite (dec_count_prefix _ _ _ H1 Hl0). reflexivity.
    + subst p. rewrite dec_count_enc.
      destruct (Haddw s idx (wire_w c) Hg Hc) as [s1 [E1 [G1 A1]]]. rewrite E1.
      apply (IH f q t _ s1 G1 Hokl H2 Ht).
Qed.
Theorem dec_bins_generic_trunc bb s p t : wf_bins bb -> good s -> okw_bins okw bb ->
  snd (ser_bins bb) = p ++ t -> t <> [] ->
  dec_bins_generic s (fst (ser_bins bb) * 4)%N p = DErr EEof.
Proof.
  intros Hwf Hg Hok H Ht. unfold okw_bins in Hok.
  destruct bb as [l|l|first stride l]; cbn [ser_bins fst snd bins_weights] in *; unfold dec_bins_generic.
  - destruct Hwf as [Hlen Hd].
    change (SUB_BINS_IDC * 4 =? sub_idx_deltas_counts)%N with true. cbv iota.
    destruct (prefix_split _ _ _ _ H Ht) as [[l0 [Hl0 H1]]|[q [H1 H2]]].
    + rewrite (dec_uv_prefix _ _ _ H1 Hl0). reflexivity.
    + subst p. rewrite dec_uv_enc by exact Hlen. apply (dec_idc_trunc l _ q t _ s Hg Hd Hok H2 Ht).
  - destruct Hwf as [Hlen Hd].
    change (SUB_BINS_ID * 4 =? sub_idx_deltas_counts)%N with false.
    change (SUB_BINS_ID * 4 =? sub_idx_deltas)%N with true. cbv iota.
    destruct (prefix_split _ _ _ _ H Ht) as [[l0 [Hl0 H1]]|[q [H1 H2]]].
    + rewrite (dec_uv_prefix _ _ _ H1 Hl0). reflexivity.
    + subst p. rewrite dec_uv_enc by exact Hlen. apply (dec_id_trunc l _ q t _ s Hg Hd H2 Ht).
  - destruct Hwf as [Hlen [Hf Hst]].
    change (SUB_BINS_CC * 4 =? sub_idx_deltas_counts)%N with false.
    change (SUB_BINS_CC * 4 =? sub_idx_deltas)%N with false.
    change (SUB_BINS_CC * 4 =? sub_contiguous)%N with true. cbv iota.
    destruct (prefix_split _ _ _ _ H Ht) as [[l0 [Hl0 H1]]|[q [H1 H2]]].
    + rewrite (dec_uv_prefix _ _ _ H1 Hl0). reflexivity.
    + subst p. rewrite dec_uv_enc by exact Hlen.
      destruct (prefix_split _ _ _ _ H2 Ht) as [[l0 [Hl0 H3]]|[q1 [H3 H4]]].
      * rewrite (dec_sv_prefix _ _ _ H3 Hl0). reflexivity.
      * subst q. rewrite dec_sv_enc by exact Hf.
        destruct (prefix_split _ _ _ _ H4 Ht) as [[l0 [Hl0 H5]]|[q2 [H5 H6]]].
        -- rewrite (dec_sv_prefix _ _ _ H5 Hl0). reflexivity.
        -- subst q1. rewrite dec_sv_enc by exact Hst. apply (dec_cc_trunc stride l _ q2 t _ s Hg Hok H6 Ht).
Qed.
(* ---- the block loop of ddsketch.go over the same interface ---- *)
Variable wx : wfixes.
Hypothesis HD2 : fD2 wx = true.
Hypothesis Hnp : forall s sub b, good s -> dec_bins s sub b = dec_bins_generic s sub b.

Definition ds_good (d : dsketch) : Prop := good (ds_pos d) /\ good (ds_neg d) /\ ds_stats d = None.
Definition ds_rel (d d' : dsketch) (pos neg : list (Z * W)) (zero : list W) (mp : option mapid) : Prop :=
  ds_good d' /\ abs (ds_pos d') = steps (abs (ds_pos d)) pos /\ abs (ds_neg d') = steps (abs (ds_neg d)) neg
  /\ ds_zero d' = fold_left wadd zero (ds_zero d) /\ ds_map d' = mp.

Lemma ser_bins_sub_lt bb : (fst (ser_bins bb) < 64)%N.
Proof. destruct bb; cbn [ser_bins fst]; unfold SUB_BINS_IDC, SUB_BINS_ID, SUB_BINS_CC; lia. Qed.

Lemma dec_blocks_step b d : wf_block b -> block_ok (ds_map d) b -> okw_block okw b -> ds_good d ->
  exists d', (forall k rest, dec_blocks wx (S k) d (ser_block b ++ rest) = dec_blocks wx k d' rest)
             /\ ds_rel d d' (block_pos_bins b) (block_neg_bins b) (block_zero b) (block_map (ds_map d) b).
Proof.
  intros Hwf Hbo Hokw [Hgp [Hgn Hst]].
  destruct b as [w|kd g o|neg bb|w|x|x|x].
  - eexists. split.
    + intros k rest. cbn [ser_block]. rewrite <- app_comm_cons. rewrite dec_blocks_zc, dec_count_enc. reflexivity.
    + repeat split; cbn; assumption || reflexivity.
  - destruct Hbo as [Hk [Hfle Heq]]. eexists. split.
    + intros k rest. cbn [ser_block]. rewrite <- app_comm_cons, <- app_assoc.
      rewrite dec_blocks_map, dec_mapping_g by exact Hk. rewrite !dec_f64_enc, Hfle.
      destruct (ds_map d) as [m0|]; [rewrite Heq|]; reflexivity.
    + repeat split; cbn; assumption || reflexivity.
  - cbn [wf_block okw_block] in Hwf, Hokw. destruct neg.
    + destruct (dec_bins_generic_ser bb (ds_neg d) Hwf Hgn Hokw) as [s' [E [G A]]].
      eexists. split.
      * intros k rest. rewrite ser_block_store, <- app_comm_cons.
        rewrite dec_blocks_neg by apply ser_bins_sub_lt. rewrite Hnp by exact Hgn. rewrite E. reflexivity.
      * repeat split; cbn; assumption || reflexivity.
    + destruct (dec_bins_generic_ser bb (ds_pos d) Hwf Hgp Hokw) as [s' [E [G A]]].
      eexists. split.
      * intros k rest. rewrite ser_block_store, <- app_comm_cons.
        rewrite dec_blocks_pos by apply ser_bins_sub_lt. rewrite Hnp by exact Hgp. rewrite E. reflexivity.
      * repeat split; cbn; assumption || reflexivity.
  - exists d. split.
    + intros k rest. cbn [ser_block]. rewrite <- app_comm_cons.
      rewrite dec_blocks_feature by auto. rewrite dec_feature_count by assumption. rewrite dec_vf_enc. reflexivity.
    + repeat split; cbn; assumption || reflexivity.
  - exists d. split.
    + intros k rest. cbn [ser_block]. rewrite <- app_comm_cons.
      rewrite dec_blocks_feature by auto. rewrite dec_feature_skip8 by auto. rewrite skip8_enc. reflexivity.
    + repeat split; cbn; assumption || reflexivity.
  - exists d. split.
    + intros k rest. cbn [ser_block]. rewrite <- app_comm_cons.
      rewrite dec_blocks_feature by auto. rewrite dec_feature_skip8 by auto. rewrite skip8_enc. reflexivity.
    + repeat split; cbn; assumption || reflexivity.
  - exists d. split.
    + intros k rest. cbn [ser_block]. rewrite <- app_comm_cons.
      rewrite dec_blocks_feature by auto. rewrite dec_feature_skip8 by auto. rewrite skip8_enc. reflexivity.
    + repeat split; cbn; assumption || reflexivity.
Qed.

Definition ds_rel_st (d d' : dsketch) (st : stream) : Prop :=
  ds_rel d d' (stream_pos_bins st) (stream_neg_bins st) (stream_zero st) (last_mapid (ds_map d) st).

Lemma dec_blocks_ser : forall st d, wf_stream st -> okw_stream okw st -> maps_chain (ds_map d) st -> ds_good d ->
  exists d', (forall k rest, dec_blocks wx (length st + k) d (serialize st ++ rest) = dec_blocks wx k d' rest)
             /\ ds_rel_st d d' st.
Proof.
  induction st as [|b st IH]; intros d Hwf Hokw Hch Hg.
  - exists d. split; [intros; reflexivity|]. repeat split; try apply Hg; reflexivity.
  - inversion Hwf as [|x l Hb Hst]; subst. inversion Hokw as [|x l Hob Host]; subst.
    destruct Hch as [Hbo Hch].
    destruct (dec_blocks_step b d Hb Hbo Hob Hg) as [d1 [E1 [G1 [P1 [N1 [Z1 M1]]]]]].
    rewrite <- M1 in Hch.
    destruct (IH d1 Hst Host Hch G1) as [d' [E' [G' [P' [N' [Z' M']]]]]].
    exists d'. split.
    + intros k rest. rewrite serialize_cons, <- app_assoc. cbn [length Nat.add]. rewrite E1. apply E'.
    + unfold ds_rel_st, ds_rel. split; [exact G'|].
      unfold stream_pos_bins, stream_neg_bins, stream_zero, last_mapid. cbn [map concat fold_left].
      rewrite !steps_app, fold_left_app. rewrite <- P1, <- N1, <- Z1, <- M1. auto.
Qed.

(* G3: DecodeAndMergeWith of a whole serialised stream *)
Theorem dec_sketch_ser st d : wf_stream st -> okw_stream okw st -> maps_chain (ds_map d) st -> ds_good d ->
  last_mapid (ds_map d) st <> None ->
  exists d', dec_sketch_into wx d (serialize st) = DOk d' [] /\ ds_rel_st d d' st.
Proof.
  intros Hwf Hokw Hch Hg Hm.
  destruct (dec_blocks_ser st d Hwf Hokw Hch Hg) as [d' [E R]]. exists d'. split; [|exact R].
  unfold dec_sketch_into. pose proof (serialize_length_ge st) as HL.
  replace (S (length (serialize st))) with (length st + (S (length (serialize st)) - length st)) by lia.
  rewrite <- (app_nil_r (serialize st)) at 2. rewrite E, dec_blocks_nil.
  destruct R as [[_ [_ Hs]] [_ [_ [_ M]]]]. rewrite M, Hs.
  destruct (last_mapid (ds_map d) st); [reflexivity|contradiction].
Qed.
(* G5: no mapping anywhere *)
Theorem dec_sketch_missing_mapping st d : wf_stream st -> okw_stream okw st -> maps_chain (ds_map d) st -> ds_good d ->
  last_mapid (ds_map d) st = None ->
  dec_sketch_into wx d (serialize st) = DErr EMissingMapping.
Proof.
  intros Hwf Hokw Hch Hg Hm.
  destruct (dec_blocks_ser st d Hwf Hokw Hch Hg) as [d' [E R]].
  unfold dec_sketch_into. pose proof (serialize_length_ge st) as HL.
  replace (S (length (serialize st))) with (length st + (S (length (serialize st)) - length st)) by lia.
  rewrite <- (app_nil_r (serialize st)) at 2. rewrite E, dec_blocks_nil.
  destruct R as [_ [_ [_ [_ M]]]]. rewrite M, Hm. reflexivity.
Qed.

(* G5: a mapping block that differs from the receiver's mapping *)
Lemma dec_blocks_mismatch1 d kd g o m0 k rest :
  kind_ok kd -> fle g f64_one = false -> ds_map d = Some m0 -> map_equals m0 (map_of kd g o) = false ->
  dec_blocks wx (S k) d (ser_block (BMapping kd g o) ++ rest) = DErr EMismatch.
Proof.
  intros Hk Hfle Hm Heq. cbn [ser_block]. rewrite <- app_comm_cons, <- app_assoc.
  rewrite dec_blocks_map, dec_mapping_g by exact Hk. rewrite !dec_f64_enc, Hfle, Hm, Heq. reflexivity.
Qed.
Theorem dec_sketch_mapping_mismatch st d kd g o m0 rest :
  wf_stream st -> okw_stream okw st -> maps_chain (ds_map d) st -> ds_good d ->
  last_mapid (ds_map d) st = Some m0 ->
  kind_ok kd -> fle g f64_one = false -> map_equals m0 (map_of kd g o) = false ->
  dec_sketch_into wx d (serialize st ++ ser_block (BMapping kd g o) ++ rest) = DErr EMismatch.
Proof.
  intros Hwf Hokw Hch Hg Hm Hk Hfle Heq.
  destruct (dec_blocks_ser st d Hwf Hokw Hch Hg) as [d' [E [_ [_ [_ [_ M]]]]]].
  unfold dec_sketch_into. pose proof (serialize_length_ge st) as HL.
  set (bytes := serialize st ++ ser_block (BMapping kd g o) ++ rest).
  assert (HB : length st + 1 <= length bytes).
  { unfold bytes. rewrite !app_length. cbn [ser_block length]. lia. }
  replace (S (length bytes)) with (length st + S (length bytes - length st)) by lia.
  unfold bytes. rewrite E. rewrite (dec_blocks_mismatch1 d' kd g o m0); auto. congruence.
Qed.

(* G5: a block cut strictly inside gives io.EOF (repaired code: fD3) *)
Hypothesis HD3 : fD3 wx = true.
Definition kind_ok_block (b : block) : Prop := match b with BMapping k _ _ => kind_ok k | _ => True end.

Lemma dec_blocks_trunc1 b d p t k : wf_block b -> kind_ok_block b -> okw_block okw b -> ds_good d ->
  ser_block b = p ++ t -> t <> [] -> p <> [] -> dec_blocks wx (S k) d p = DErr EEof.
Proof.
  intros Hwf Hk Hokw [Hgp [Hgn Hst]] H Ht Hp. destruct p as [|f p']; [contradiction|]. clear Hp.
  destruct b as [w|kd g o|neg bb|w|x|x|x].
  - cbn [ser_block] in H. rewrite <- app_comm_cons in H. apply cons_inj in H. destruct H as [Hf H]. subst f.
    rewrite dec_blocks_zc. rewrite (dec_count_prefix _ _ _ H Ht). reflexivity.
  - cbn [ser_block] in H. rewrite <- app_comm_cons in H. apply cons_inj in H. destruct H as [Hf H]. subst f.
    rewrite dec_blocks_map, dec_mapping_g by exact Hk.
    destruct (prefix_split _ _ _ _ H Ht) as [[l0 [Hl0 H1]]|[q [H1 H2]]].
    + rewrite (dec_f64_prefix _ _ _ H1 Hl0). reflexivity.
    + subst p'. rewrite dec_f64_enc. rewrite (dec_f64_prefix _ _ _ H2 Ht). reflexivity.
  - rewrite ser_block_store in H. rewrite <- app_comm_cons in H. apply cons_inj in H. destruct H as [Hf H]. subst f.
    cbn [wf_block okw_block] in Hwf, Hokw. destruct neg.
    + rewrite dec_blocks_neg by apply ser_bins_sub_lt. rewrite Hnp by exact Hgn.
      rewrite (dec_bins_generic_trunc bb (ds_neg d) p' t Hwf Hgn Hokw H Ht). rewrite HD3. reflexivity.
    + rewrite dec_blocks_pos by apply ser_bins_sub_lt. rewrite Hnp by exact Hgp.
      rewrite (dec_bins_generic_trunc bb (ds_pos d) p' t Hwf Hgp Hokw H Ht). rewrite HD3. reflexivity.
  - cbn [ser_block] in H. rewrite <- app_comm_cons in H. apply cons_inj in H. destruct H as [Hf H]. subst f.
    rewrite dec_blocks_feature by auto. rewrite dec_feature_count by assumption.
    rewrite (dec_vf_prefix _ _ _ H Ht). reflexivity.
  - cbn [ser_block] in H. rewrite <- app_comm_cons in H. apply cons_inj in H. destruct H as [Hf H]. subst f.
    rewrite dec_blocks_feature by auto. rewrite dec_feature_skip8 by auto.
    rewrite (skip8_prefix _ _ _ H Ht). reflexivity.
  - cbn [ser_block] in H. rewrite <- app_comm_cons in H. apply cons_inj in H. destruct H as [Hf H]. subst f.
    rewrite dec_blocks_feature by auto. rewrite dec_feature_skip8 by auto.
    rewrite (skip8_prefix _ _ _ H Ht). reflexivity.
  - cbn [ser_block] in H. rewrite <- app_comm_cons in H. apply cons_inj in H. destruct H as [Hf H]. subst f.
    rewrite dec_blocks_feature by auto. rewrite dec_feature_skip8 by auto.
    rewrite (skip8_prefix _ _ _ H Ht). reflexivity.
Qed.

Theorem dec_blocks_truncation st b d p t k :
  wf_stream st -> okw_stream okw st -> maps_chain (ds_map d) st -> ds_good d ->
  wf_block b -> kind_ok_block b -> okw_block okw b ->
  ser_block b = p ++ t -> t <> [] -> p <> [] ->
  dec_blocks wx (length st + S k) d (serialize st ++ p) = DErr EEof.
Proof.
  intros Hwf Hokw Hch Hg Hb Hk Hob H Ht Hp.
  destruct (dec_blocks_ser st d Hwf Hokw Hch Hg) as [d' [E [G _]]].
  rewrite E. eapply dec_blocks_trunc1; eauto.
Qed.
Theorem dec_sketch_truncation st b d p t :
  wf_stream st -> okw_stream okw st -> maps_chain (ds_map d) st -> ds_good d ->
  wf_block b -> kind_ok_block b -> okw_block okw b ->
  ser_block b = p ++ t -> t <> [] -> p <> [] ->
  dec_sketch_into wx d (serialize st ++ p) = DErr EEof.
Proof.
  intros Hwf Hokw Hch Hg Hb Hk Hob H Ht Hp. unfold dec_sketch_into.
  pose proof (serialize_length_ge st) as HL.
  assert (HP : 1 <= length p) by (destruct p; [contradiction|cbn [length]; lia]).
  replace (S (length (serialize st ++ p))) with (length st + S (length (serialize st ++ p) - length st))
    by (rewrite app_length; lia).
  rewrite (dec_blocks_truncation st b d p t _ Hwf Hokw Hch Hg Hb Hk Hob H Ht Hp). reflexivity.
Qed.
End Refine.
(* ================================================================== *)
(* 8. The sparse store instance (Layer A already)                      *)
(* ================================================================== *)
Definition ss_bins (s : store) : bins := match s with SS m => m | _ => [] end.
Definition is_sparse (s : store) : Prop := exists m, s = SS m.
Definition any_w (_ : W) : Prop := True.

Lemma sparse_addw s i c : is_sparse s -> any_w c ->
  exists s', st_addw s i c = Some s' /\ is_sparse s' /\ ss_bins s' = badd0 (ss_bins s) i c.
Proof. intros [m ->] _. eexists. split; [reflexivity|]. split; [eexists; reflexivity|reflexivity]. Qed.
Lemma sparse_add s i : is_sparse s ->
  exists s', st_add s i = Some s' /\ is_sparse s' /\ ss_bins s' = badd0 (ss_bins s) i w1.
Proof. intros [m ->]. eexists. split; [reflexivity|]. split; [eexists; reflexivity|reflexivity]. Qed.
Lemma sparse_np s sub b : is_sparse s -> dec_bins s sub b = dec_bins_generic s sub b.
Proof. intros [m ->]. reflexivity. Qed.
Lemma steps_badd0 a l : steps badd0 a l = bmerge_list a l.
Proof. reflexivity. Qed.
Lemma any_w_bins bb : okw_bins any_w bb.
Proof. unfold okw_bins. apply Forall_forall. intros; exact I. Qed.
Lemma any_w_stream st : okw_stream any_w st.
Proof. apply Forall_forall. intros b _. destruct b; try exact I. apply any_w_bins. Qed.

(* G3, sparse: the generic decoder of store.go on the body of a bins block *)
Theorem sparse_dec_bins bb m rest : wf_bins bb ->
  dec_bins_generic (SS m) (fst (ser_bins bb) * 4)%N (snd (ser_bins bb) ++ rest)
  = DOk (SS (bmerge_list m (bins_of_block bb))) rest.
Proof.
  intros Hwf.
  destruct (dec_bins_generic_ser ss_bins is_sparse any_w badd0 sparse_addw sparse_add bb (SS m) Hwf
              (ex_intro _ m eq_refl) (any_w_bins bb)) as [s' [E [[m' ->] A]]].
  rewrite E. cbn [ss_bins] in A. rewrite steps_badd0 in A. rewrite A. reflexivity.
Qed.
Theorem sparse_dec_bins_trunc bb m p t : wf_bins bb -> snd (ser_bins bb) = p ++ t -> t <> [] ->
  dec_bins_generic (SS m) (fst (ser_bins bb) * 4)%N p = DErr EEof.
Proof.
  intros Hwf H Ht.
  exact (dec_bins_generic_trunc ss_bins is_sparse any_w badd0 sparse_addw sparse_add bb (SS m) p t Hwf
           (ex_intro _ m eq_refl) (any_w_bins bb) H Ht).
Qed.

Definition sp_ds (mp : option mapid) (p n : bins) (z : W) : dsketch :=
  {| ds_map := mp; ds_pos := SS p; ds_neg := SS n; ds_zero := z; ds_stats := None |}.
Lemma sp_ds_good mp p n z : ds_good is_sparse (sp_ds mp p n z).
Proof. split; [eexists; reflexivity|]. split; [eexists; reflexivity|reflexivity]. Qed.
Lemma ds_fresh_sparse mp : ds_fresh mp KSparse false = sp_ds mp [] [] w0.
Proof. reflexivity. Qed.

Lemma sp_ds_of_rel d mp p n z pos neg zero mp' :
  ds_rel ss_bins is_sparse badd0 (sp_ds mp p n z) d pos neg zero mp' ->
  d = sp_ds mp' (bmerge_list p pos) (bmerge_list n neg) (fold_left wadd zero z).
Proof.
  intros [[[mp1 Hp] [[mn1 Hn] Hs]] [P [N [Z M]]]]. destruct d as [dm dp dn dz dst]. cbn in *. subst.
  cbn [ss_bins] in *. rewrite steps_badd0 in *. subst. reflexivity.
Qed.

(* G3: the plain decoder (repaired, fD2) on a serialised stream, sparse receiver *)
Theorem sparse_dec_sketch wx st mp p n z : fD2 wx = true ->
  wf_stream st -> maps_chain mp st -> last_mapid mp st <> None ->
  dec_sketch_into wx (sp_ds mp p n z) (serialize st)
  = DOk (sp_ds (last_mapid mp st) (bmerge_list p (stream_pos_bins st)) (bmerge_list n (stream_neg_bins st))
               (fold_left wadd (stream_zero st) z)) [].
Proof.
  intros HD2 Hwf Hch Hm.
  destruct (dec_sketch_ser ss_bins is_sparse any_w badd0 sparse_addw sparse_add wx HD2 sparse_np st
              (sp_ds mp p n z) Hwf (any_w_stream st) Hch (sp_ds_good mp p n z) Hm) as [d' [E R]].
  rewrite E. apply sp_ds_of_rel in R. rewrite R. reflexivity.
Qed.
Lemma sparse_dec_blocks wx st mp p n z k rest : fD2 wx = true ->
  wf_stream st -> maps_chain mp st ->
  dec_blocks wx (length st + k) (sp_ds mp p n z) (serialize st ++ rest)
  = dec_blocks wx k (sp_ds (last_mapid mp st) (bmerge_list p (stream_pos_bins st)) (bmerge_list n (stream_neg_bins st))
                           (fold_left wadd (stream_zero st) z)) rest.
Proof.
  intros HD2 Hwf Hch.
  destruct (dec_blocks_ser ss_bins is_sparse any_w badd0 sparse_addw sparse_add wx HD2 sparse_np st
              (sp_ds mp p n z) Hwf (any_w_stream st) Hch (sp_ds_good mp p n z)) as [d' [E R]].
  rewrite E. apply sp_ds_of_rel in R. rewrite R. reflexivity.
Qed.

Theorem sparse_decode_fresh wx st : fD2 wx = true ->
  wf_stream st -> maps_chain None st -> last_mapid None st <> None ->
  exists d, dec_sketch_into wx (ds_fresh None KSparse false) (serialize st) = DOk d []
            /\ ds_pos d = SS (c_pos (sem st)) /\ ds_neg d = SS (c_neg (sem st))
            /\ ds_zero d = c_zero (sem st) /\ option_map mapid_triple (ds_map d) = c_map (sem st)
            /\ ds_stats d = None.
Proof.
  intros HD2 Hwf Hch Hm. eexists. split.
  - rewrite ds_fresh_sparse. apply sparse_dec_sketch; assumption.
  - unfold sem. rewrite sem_from_pos, sem_from_neg, sem_from_zero, sem_from_map. cbn [sp_ds ds_pos ds_neg ds_zero ds_map ds_stats c_empty c_pos c_neg c_zero c_map].
    repeat split. apply (last_mapid_triple st None).
Qed.

(* the same through the abstraction function of the stores, for non-negative weights *)
Lemma st_abs_sparse m : st_abs (SS m) = bins_of_list m.
Proof. reflexivity. Qed.
Lemma st_abs_sparse_canon l : nonneg l -> st_abs (SS (bins_of_list l)) = bins_of_list l.
Proof.
  intros H. rewrite st_abs_sparse. apply bins_of_list_canon; [apply wf_bins_of_list|apply pos_bins_of_list]; exact H.
Qed.
Definition nonneg_stream (st : stream) : Prop := nonneg (stream_pos_bins st) /\ nonneg (stream_neg_bins st).
Theorem sparse_decode_fresh_abs wx st : fD2 wx = true ->
  wf_stream st -> maps_chain None st -> last_mapid None st <> None -> nonneg_stream st ->
  exists d, dec_sketch_into wx (ds_fresh None KSparse false) (serialize st) = DOk d []
            /\ st_abs (ds_pos d) = c_pos (sem st) /\ st_abs (ds_neg d) = c_neg (sem st)
            /\ ds_zero d = c_zero (sem st) /\ option_map mapid_triple (ds_map d) = c_map (sem st).
Proof.
  intros HD2 Hwf Hch Hm [Hp Hn].
  destruct (sparse_decode_fresh wx st HD2 Hwf Hch Hm) as [d [E [P [N [Z [M _]]]]]].
  exists d. split; [exact E|]. rewrite P, N, sem_pos, sem_neg.
  rewrite !st_abs_sparse_canon by assumption. auto.
Qed.

(* decode (enc a ++ enc b) = decode b into (decode a): concatenation is merging *)
Lemma maps_chain_app : forall a b cur, maps_chain cur (a ++ b) <-> maps_chain cur a /\ maps_chain (last_mapid cur a) b.
Proof.
  induction a as [|x a IH]; intros b cur; cbn [app maps_chain].
  - unfold last_mapid. cbn [fold_left]. tauto.
  - rewrite IH. unfold last_mapid. cbn [fold_left]. tauto.
Qed.
Lemma last_mapid_app a b cur : last_mapid cur (a ++ b) = last_mapid (last_mapid cur a) b.
Proof. apply fold_left_app. Qed.
Theorem sparse_decode_concat wx a b mp p n z : fD2 wx = true ->
  wf_stream a -> wf_stream b -> maps_chain mp (a ++ b) -> last_mapid mp a <> None ->
  exists d1, dec_sketch_into wx (sp_ds mp p n z) (serialize a) = DOk d1 []
             /\ dec_sketch_into wx (sp_ds mp p n z) (serialize a ++ serialize b) = dec_sketch_into wx d1 (serialize b).
Proof.
  intros HD2 Ha Hb Hch Hm. apply maps_chain_app in Hch. destruct Hch as [Hca Hcb].
  eexists. split; [apply sparse_dec_sketch; assumption|].
  assert (Hm2 : last_mapid (last_mapid mp a) b <> None).
  { revert Hm. generalize (last_mapid mp a). clear. induction b as [|x b IH]; intros c Hc; [exact Hc|].
    unfold last_mapid. cbn [fold_left]. apply IH. destruct x; try exact Hc. discriminate. }
  rewrite <- serialize_app. rewrite sparse_dec_sketch; try assumption.
  - rewrite sparse_dec_sketch by assumption.
    unfold stream_pos_bins, stream_neg_bins, stream_zero. rewrite !map_app, !concat_app.
    rewrite !bmerge_list_app, fold_left_app, last_mapid_app. reflexivity.
  - apply Forall_app. split; assumption.
  - apply maps_chain_app. split; assumption.
  - rewrite last_mapid_app. exact Hm2.
Qed.

(* G5 instances for the sparse receiver *)
Theorem sparse_truncation wx st b mp p n z pre t : fD2 wx = true -> fD3 wx = true ->
  wf_stream st -> maps_chain mp st -> wf_block b -> kind_ok_block b ->
  ser_block b = pre ++ t -> t <> [] -> pre <> [] ->
  dec_sketch_into wx (sp_ds mp p n z) (serialize st ++ pre) = DErr EEof.
Proof.
  intros HD2 HD3 Hwf Hch Hb Hk H Ht Hp.
  apply (dec_sketch_truncation ss_bins is_sparse any_w badd0 sparse_addw sparse_add wx HD2 sparse_np HD3 st b
           (sp_ds mp p n z) pre t Hwf (any_w_stream st) Hch (sp_ds_good mp p n z) Hb Hk); auto.
  destruct b; try exact I. apply any_w_bins.
Qed.
Theorem sparse_mapping_mismatch wx st mp p n z kd g o m0 rest : fD2 wx = true ->
  wf_stream st -> maps_chain mp st -> last_mapid mp st = Some m0 ->
  kind_ok kd -> fle g f64_one = false -> map_equals m0 (map_of kd g o) = false ->
  dec_sketch_into wx (sp_ds mp p n z) (serialize st ++ ser_block (BMapping kd g o) ++ rest) = DErr EMismatch.
Proof.
  intros HD2 Hwf Hch Hm Hk Hfle Heq.
  exact (dec_sketch_mapping_mismatch ss_bins is_sparse any_w badd0 sparse_addw sparse_add wx HD2 sparse_np st
           (sp_ds mp p n z) kd g o m0 rest Hwf (any_w_stream st) Hch (sp_ds_good mp p n z) Hm Hk Hfle Heq).
Qed.
Theorem sparse_missing_mapping wx st p n z : fD2 wx = true ->
  wf_stream st -> Forall (fun b => match b with BMapping _ _ _ => False | _ => True end) st ->
  dec_sketch_into wx (sp_ds None p n z) (serialize st) = DErr EMissingMapping.
Proof.
  intros HD2 Hwf Hno.
  assert (H : maps_chain None st /\ last_mapid None st = None).
  { clear Hwf. induction st as [|b st IH]; [split; [exact I|reflexivity]|].
    inversion Hno as [|x l Hb Hst]; subst. destruct (IH Hst) as [H1 H2].
    destruct b; try contradiction; (split; [split; [exact I|exact H1]|exact H2]). }
  destruct H as [Hch Hm].
  exact (dec_sketch_missing_mapping ss_bins is_sparse any_w badd0 sparse_addw sparse_add wx HD2 sparse_np st
           (sp_ds None p n z) Hwf (any_w_stream st) Hch (sp_ds_good None p n z) Hm).
Qed.

(* ================================================================== *)
(* 9. G5: unknown flags; totality                                      *)
(* ================================================================== *)
Definition known_flag (f : byte) : Prop :=
  ((flag_type f = ft_positive \/ flag_type f = ft_negative) /\
   (flag_sub f = sub_idx_deltas_counts \/ flag_sub f = sub_idx_deltas \/ flag_sub f = sub_contiguous))
  \/ (flag_type f = ft_mapping /\ kind_ok (N.shiftr f 2))
  \/ f = flag_zero_count \/ f = flag_count \/ f = flag_sum \/ f = flag_min \/ f = flag_max.

Lemma dec_bins_unknown s sub b :
  sub <> sub_idx_deltas_counts -> sub <> sub_idx_deltas -> sub <> sub_contiguous ->
  dec_bins s sub b = DErr EUnknownBins.
Proof.
  intros H1 H2 H3. apply N.eqb_neq in H1, H2, H3.
  destruct s; unfold dec_bins, dec_bins_pag, dec_bins_generic; rewrite ?H1, ?H2, ?H3; reflexivity.
Qed.

Theorem unknown_flag wx k d f tl : fD3 wx = true -> ~ known_flag f ->
  exists e, dec_blocks wx (S k) d (f :: tl) = DErr e /\ (e = EUnknownFlag \/ e = EUnknownBins \/ e = EUnknownMapping).
Proof.
  intros HD3 Hk. rewrite dec_blocks_S. cbv zeta.
  destruct (flag_type f =? ft_positive)%N eqn:E1.
  { apply N.eqb_eq in E1. rewrite dec_bins_unknown, HD3; [eexists; split; [reflexivity|auto]| | |];
      intros Hs; apply Hk; left; auto. }
  destruct (flag_type f =? ft_negative)%N eqn:E2.
  { apply N.eqb_eq in E2. rewrite dec_bins_unknown, HD3; [eexists; split; [reflexivity|auto]| | |];
      intros Hs; apply Hk; left; auto. }
  destruct (flag_type f =? ft_mapping)%N eqn:E3.
  { apply N.eqb_eq in E3. unfold dec_mapping. cbv zeta.
    destruct ((N.shiftr f 2 =? 0) || (N.shiftr f 2 =? 1) || (N.shiftr f 2 =? 3))%N eqn:E4.
    - exfalso. apply Hk. right. left. split; [exact E3|]. unfold kind_ok.
      apply orb_true_iff in E4. destruct E4 as [E4|E4]; [apply orb_true_iff in E4; destruct E4 as [E4|E4]|];
        apply N.eqb_eq in E4; auto.
    - eexists; split; [reflexivity|auto]. }
  assert (F0 : (f =? flag_zero_count)%N = false) by (apply N.eqb_neq; intros ->; apply Hk; unfold known_flag; do 2 right; left; reflexivity).
  assert (F1 : (f =? flag_count)%N = false) by (apply N.eqb_neq; intros ->; apply Hk; unfold known_flag; do 3 right; left; reflexivity).
  assert (F2 : (f =? flag_sum)%N = false) by (apply N.eqb_neq; intros ->; apply Hk; unfold known_flag; do 4 right; left; reflexivity).
  assert (F3 : (f =? flag_min)%N = false) by (apply N.eqb_neq; intros ->; apply Hk; unfold known_flag; do 5 right; left; reflexivity).
  assert (F4 : (f =? flag_max)%N = false) by (apply N.eqb_neq; intros ->; apply Hk; unfold known_flag; do 6 right; reflexivity).
  rewrite F0. unfold dec_feature. rewrite F1, F2, F3, F4. cbn [orb].
  destruct (ds_stats d); eexists; (split; [reflexivity|auto]).
Qed.

(* never a panic with sparse stores, whatever the bytes and whichever variant of the code *)
Definition sp_res (r : dres store) : Prop :=
  (exists m' rest, r = DOk (SS m') rest) \/ (exists e, r = DErr e).
Lemma sp_idc_total : forall fuel n idx m b, sp_res (dec_idc_loop fuel n idx (SS m) b).
Proof.
  induction fuel as [|f IH]; intros n idx m b; rewrite dec_idc_loop_eq; destruct (n =? 0)%N;
    try (left; eauto; fail); try (right; eauto; fail).
  destruct (dec_sv b) as [d b1| |]; try (right; eauto; fail).
  destruct (dec_count b1) as [c b2| |]; try (right; eauto; fail).
  cbn [st_addw]. apply IH.
Qed.
Lemma sp_id_total : forall fuel n idx m b, sp_res (dec_id_loop fuel n idx (SS m) b).
Proof.
  induction fuel as [|f IH]; intros n idx m b; rewrite dec_id_loop_eq; destruct (n =? 0)%N;
    try (left; eauto; fail); try (right; eauto; fail).
  destruct (dec_sv b) as [d b1| |]; try (right; eauto; fail).
  cbn [st_add]. apply IH.
Qed.
Lemma sp_cc_total : forall fuel n idx delta m b, sp_res (dec_cc_loop fuel n idx delta (SS m) b).
Proof.
  induction fuel as [|f IH]; intros n idx delta m b; rewrite dec_cc_loop_eq; destruct (n =? 0)%N;
    try (left; eauto; fail); try (right; eauto; fail).
  destruct (dec_count b) as [c b1| |]; try (right; eauto; fail).
  cbn [st_addw]. apply IH.
Qed.
Lemma sp_bins_total m sub b : sp_res (dec_bins (SS m) sub b).
Proof.
  unfold dec_bins, dec_bins_generic.
  destruct (sub =? sub_idx_deltas_counts)%N.
  { destruct (dec_uv b); try (right; eauto; fail). apply sp_idc_total. }
  destruct (sub =? sub_idx_deltas)%N.
  { destruct (dec_uv b); try (right; eauto; fail). apply sp_id_total. }
  destruct (sub =? sub_contiguous)%N; [|right; eauto].
  destruct (dec_uv b) as [n b1| |]; try (right; eauto; fail).
  destruct (dec_sv b1) as [i b2| |]; try (right; eauto; fail).
  destruct (dec_sv b2) as [dl b3| |]; try (right; eauto; fail).
  apply sp_cc_total.
Qed.

Definition ds_sparse (d : dsketch) : Prop := is_sparse (ds_pos d) /\ is_sparse (ds_neg d).
Lemma dec_feature_res wx s f b :
  match dec_feature wx s f b with
  | DOk s' _ => ds_pos s' = ds_pos s /\ ds_neg s' = ds_neg s
  | DErr _ => True
  | DPanic => False
  end.
Proof.
  unfold dec_feature, skip8.
  destruct (ds_stats s); destruct (f =? flag_count)%N; destruct (f =? flag_sum)%N;
    destruct (f =? flag_min)%N; destruct (f =? flag_max)%N; destruct (fD2 wx); cbn [orb];
    try destruct (Varfloat.dec_vf b); try destruct (Varfloat.dec_f64le b); try destruct (length b <? 8);
    cbn; auto.
Qed.
Lemma dec_mapping_no_panic f b : dec_mapping f b <> DPanic.
Proof.
  unfold dec_mapping. cbv zeta.
  destruct ((N.shiftr f 2 =? 0) || (N.shiftr f 2 =? 1) || (N.shiftr f 2 =? 3))%N; [|discriminate].
  destruct (Varfloat.dec_f64le b) as [g b1| |]; try discriminate.
  destruct (Varfloat.dec_f64le b1) as [o b2| |]; try discriminate.
  destruct (fle g f64_one); discriminate.
Qed.

Theorem dec_blocks_total wx : forall fuel d b, ds_sparse d -> dec_blocks wx fuel d b <> DPanic.
Proof.
  induction fuel as [|k IH]; intros d b Hd; destruct b as [|f b1]; try (cbn; discriminate).
  destruct Hd as [[mp Hp] [mn Hn]]. rewrite dec_blocks_S. cbv zeta.
  destruct (flag_type f =? ft_positive)%N.
  { rewrite Hp. destruct (sp_bins_total mp (flag_sub f) b1) as [[m' [rest ->]]|[e ->]].
    - apply IH. split; [eexists; reflexivity|eexists; exact Hn].
    - destruct (fD3 wx); discriminate. }
  destruct (flag_type f =? ft_negative)%N.
  { rewrite Hn. destruct (sp_bins_total mn (flag_sub f) b1) as [[m' [rest ->]]|[e ->]].
    - apply IH. split; [eexists; exact Hp|eexists; reflexivity].
    - destruct (fD3 wx); discriminate. }
  destruct (flag_type f =? ft_mapping)%N.
  { pose proof (dec_mapping_no_panic f b1) as HM. destruct (dec_mapping f b1) as [m rest|e|]; [|discriminate|contradiction].
    destruct (ds_map d) as [m0|]; [destruct (map_equals m0 m); [|discriminate]|];
      apply IH; (split; [eexists; exact Hp|eexists; exact Hn]). }
  destruct (f =? flag_zero_count)%N.
  { destruct (dec_count b1); try discriminate. apply IH. split; [eexists; exact Hp|eexists; exact Hn]. }
  pose proof (dec_feature_res wx d f b1) as HF.
  destruct (dec_feature wx d f b1) as [s' rest|e|]; [|discriminate|contradiction].
  destruct HF as [H1 H2]. apply IH. split; [rewrite H1; eexists; exact Hp|rewrite H2; eexists; exact Hn].
Qed.
Theorem decoder_total wx d b : ds_sparse d -> dec_sketch_into wx d b <> DPanic.
Proof.
  intros Hd. unfold dec_sketch_into.
  pose proof (dec_blocks_total wx (S (length b)) d b Hd) as H.
  destruct (dec_blocks wx (S (length b)) d b) as [s' rest|e|]; [|discriminate|contradiction].
  destruct (ds_map s'); [|discriminate]. destruct (ds_stats s') as [t|]; [|discriminate].
  destruct (feq (su_count t) f64_zero && negb (ds_plain_empty s')); discriminate.
Qed.
(* ================================================================== *)
(* 10. G4: the encoders emit the grammar (sparse store, plain sketch)  *)
(* ================================================================== *)
Fixpoint sparse_deltas (prev : Z) (l : list (Z * W)) : list (Z * f64) :=
  match l with
  | [] => []
  | ic :: tl => (fst ic - prev, q2f (snd ic))%Z :: sparse_deltas (fst ic) tl
  end.
Definition sparse_blocks (neg : bool) (l : list (Z * W)) : stream :=
  match l with [] => [] | _ => [BStore neg (IndexDeltasAndCounts (sparse_deltas 0 l))] end.

Lemma sparse_deltas_length : forall l prev, length (sparse_deltas prev l) = length l.
Proof. induction l as [|ic l IH]; intros prev; cbn [sparse_deltas length]; [reflexivity|now rewrite IH]. Qed.

Lemma enc_sparse_fold : forall (l : list (Z * W)) prev out,
  snd (fold_left (fun (acc : Z * list byte) (ic : Z * W) =>
                    let '(prev, out) := acc in (fst ic, out ++ enc_sv (fst ic - prev) ++ enc_w (snd ic))) l (prev, out))
  = out ++ concat (map (fun dc => enc_sv (fst dc) ++ Varfloat.enc_vf (snd dc)) (sparse_deltas prev l)).
Proof.
  induction l as [|ic l IH]; intros prev out; cbn [fold_left sparse_deltas map concat fst snd].
  - now rewrite app_nil_r.
  - rewrite IH. unfold enc_w. rewrite <- !app_assoc. reflexivity.
Qed.

Definition ty_of (neg : bool) : N := if neg then ft_negative else ft_positive.

(* SparseStore.Encode emits one IndexDeltasAndCounts block (nothing for an empty store) *)
Theorem enc_sparse_grammar l neg : enc_sparse l (ty_of neg) = serialize (sparse_blocks neg l).
Proof.
  destruct l as [|ic l]; [reflexivity|].
  unfold sparse_blocks, serialize. cbn [map concat]. rewrite app_nil_r.
  unfold enc_sparse. rewrite enc_sparse_fold. cbn [app].
  rewrite ser_block_store. cbn [ser_bins fst snd]. rewrite sparse_deltas_length.
  destruct neg; reflexivity.
Qed.

(* weights that the wire carries exactly *)
Definition wexact (w : W) : Prop := exact_f (q2f w) /\ f2q (q2f w) = w.
Lemma wexact_wire w : wexact w -> wire_w (q2f w) = w.
Proof. intros [H1 H2]. rewrite wire_w_f. unfold exact_f in H1. rewrite H1. exact H2. Qed.

Lemma wrap_i64_id z : i64 z -> wrap_i64 z = z.
Proof. unfold i64, wrap_i64. intros H. rewrite Z.mod_small by lia. lia. Qed.

Definition sparse_wire_ok (l : list (Z * W)) : Prop :=
  (N.of_nat (length l) < W64)%N /\ Forall (fun ic => i64 (fst ic)) l
  /\ Forall (fun dc => i64 (fst dc)) (sparse_deltas 0 l) /\ Forall (fun ic => wexact (snd ic)) l.

Lemma sparse_deltas_int32 : forall l prev, idx_ok prev -> Forall (fun ic => idx_ok (fst ic)) l ->
  Forall (fun dc => i64 (fst dc)) (sparse_deltas prev l).
Proof.
  induction l as [|ic l IH]; intros prev Hp H; cbn [sparse_deltas]; [constructor|].
  inversion H as [|x y Hi Hl]; subst. constructor; [|apply IH; assumption].
  cbn [fst]. unfold idx_ok, MinInt32, MaxInt32, i64 in *. lia.
Qed.
Lemma sparse_wire_ok_int32 l : (N.of_nat (length l) < W64)%N ->
  Forall (fun ic => idx_ok (fst ic)) l -> Forall (fun ic => wexact (snd ic)) l -> sparse_wire_ok l.
Proof.
  intros HL Hi Hw. split; [exact HL|]. split; [|split; [|exact Hw]].
  - eapply Forall_impl; [|exact Hi]. intros ic. unfold idx_ok, MinInt32, MaxInt32, i64. lia.
  - apply sparse_deltas_int32; [|exact Hi]. unfold idx_ok, MinInt32, MaxInt32. lia.
Qed.

Lemma sparse_deltas_bins : forall l prev, Forall (fun ic => i64 (fst ic)) l -> Forall (fun ic => wexact (snd ic)) l ->
  idc_bins wire_w prev (sparse_deltas prev l) = l.
Proof.
  induction l as [|[i w] l IH]; intros prev Hi Hw; cbn [sparse_deltas idc_bins fst snd]; [reflexivity|].
  inversion Hi as [|x y Hi1 Hil]; subst. inversion Hw as [|x y Hw1 Hwl]; subst. cbn [fst snd] in *. cbv zeta.
  replace (prev + (i - prev))%Z with i by lia. rewrite wrap_i64_id by exact Hi1.
  rewrite wexact_wire by exact Hw1. rewrite IH by assumption. reflexivity.
Qed.

Lemma sparse_blocks_wf neg l : sparse_wire_ok l -> wf_stream (sparse_blocks neg l).
Proof.
  intros [HL [_ [Hd _]]]. destruct l as [|ic l]; [constructor|].
  constructor; [|constructor]. cbn [wf_block wf_bins]. rewrite sparse_deltas_length. split; assumption.
Qed.
Lemma sparse_blocks_bins (neg : bool) l : sparse_wire_ok l ->
  (if neg then stream_neg_bins (sparse_blocks neg l) else stream_pos_bins (sparse_blocks neg l)) = l
  /\ (if neg then stream_pos_bins (sparse_blocks neg l) else stream_neg_bins (sparse_blocks neg l)) = [].
Proof.
  intros [_ [Hi [_ Hw]]]. destruct l as [|ic l]; [destruct neg; split; reflexivity|].
  pose proof (sparse_deltas_bins (ic :: l) 0%Z Hi Hw) as H.
  destruct neg; unfold stream_pos_bins, stream_neg_bins, sparse_blocks; cbn [map concat block_pos_bins block_neg_bins];
    rewrite ?app_nil_r, ?bins_of_block_eq; cbn [bins_of_block_w]; split; (exact H || reflexivity).
Qed.
Lemma sparse_blocks_exact neg l : sparse_wire_ok l -> exact_stream (sparse_blocks neg l).
Proof.
  intros [_ [_ [_ Hw]]]. destruct l as [|ic l]; [constructor|]. constructor; [|constructor].
  cbn [block_weights bins_weights]. clear neg. revert Hw. generalize 0%Z. generalize (ic :: l). clear.
  induction l as [|ic l IH]; intros prev Hw; cbn [sparse_deltas map snd]; [constructor|].
  inversion Hw as [|x y H1 Hl]; subst. constructor; [apply H1|apply IH; exact Hl].
Qed.

(* the reference decoder reads the encoded store back *)
Theorem enc_sparse_ref_decode l : sparse_wire_ok l ->
  exists c, ref_decode (enc_sparse l ft_positive) = Some c /\ c_pos c = bins_of_list l /\ c_neg c = [].
Proof.
  intros Hok. eexists. split.
  - change ft_positive with (ty_of false). rewrite enc_sparse_grammar.
    apply ref_decode_serialize; [apply sparse_blocks_wf; exact Hok|].
    apply exact_stable_stream, sparse_blocks_exact; exact Hok.
  - destruct (sparse_blocks_bins false l Hok) as [H1 H2]. rewrite sem_pos, sem_neg, H1, H2. split; reflexivity.
Qed.
Theorem enc_sparse_ref_decode_neg l : sparse_wire_ok l ->
  exists c, ref_decode (enc_sparse l ft_negative) = Some c /\ c_neg c = bins_of_list l /\ c_pos c = [].
Proof.
  intros Hok. eexists. split.
  - change ft_negative with (ty_of true). rewrite enc_sparse_grammar.
    apply ref_decode_serialize; [apply sparse_blocks_wf; exact Hok|].
    apply exact_stable_stream, sparse_blocks_exact; exact Hok.
  - destruct (sparse_blocks_bins true l Hok) as [H1 H2]. rewrite sem_pos, sem_neg, H1, H2. split; reflexivity.
Qed.

(* ---- sketch level: DDSketch.Encode with sparse stores ---- *)
Lemma serialize_one b : serialize [b] = ser_block b.
Proof. unfold serialize. cbn [map concat]. apply app_nil_r. Qed.
Definition plain_sparse (s : sketch) (p n : bins) : Prop := sk_pos s = SS p /\ sk_neg s = SS n /\ sk_stats s = None.
Definition zero_blocks (z : W) : stream := if weqb z w0 then [] else [BZeroCount (q2f z)].
Definition map_block (m : mapid) : block := BMapping (mk_kind m) (mk_gamma m) (mk_off m).
Definition sketch_stream (m : mapid) (p n : bins) (z : W) (omit : bool) : stream :=
  zero_blocks z ++ (if omit then [] else [map_block m]) ++ sparse_blocks false p ++ sparse_blocks true n.

Theorem enc_sketch_grammar s p n omit : plain_sparse s p n ->
  enc_sketch s omit = (s, serialize (sketch_stream (sk_map s) p n (sk_zero s) omit)).
Proof.
  intros [Hp [Hn Hs]]. destruct s as [m sp sn z st]. cbn [sk_pos sk_neg sk_stats sk_map sk_zero] in *. subst.
  unfold enc_sketch. cbn [sk_pos sk_neg sk_stats sk_map sk_zero enc_store]. unfold sp_foreach, x_visit.
  change ft_positive with (ty_of false). change ft_negative with (ty_of true).
  rewrite !enc_sparse_grammar. unfold sketch_stream. rewrite !serialize_app. f_equal.
  cbn [app]. f_equal; [|f_equal].
  - unfold zero_blocks. destruct (weqb z w0); [reflexivity|]. rewrite serialize_one. reflexivity.
  - destruct omit; [reflexivity|]. rewrite serialize_one. reflexivity.
Qed.

(* encoding does not depend on any buffer: Encode(b) appends [snd (enc_sketch ..)] to b by construction,
   and does not change the sketch *)
Corollary encode_appends s p n omit (buf : list byte) : plain_sparse s p n ->
  fst (enc_sketch s omit) = s /\
  buf ++ snd (enc_sketch s omit) = buf ++ serialize (sketch_stream (sk_map s) p n (sk_zero s) omit).
Proof. intros H. rewrite (enc_sketch_grammar s p n omit H). split; reflexivity. Qed.

Definition map_valid (m : mapid) : Prop := kind_ok (mk_kind m) /\ fle (mk_gamma m) f64_one = false.
Definition sketch_wire_ok (p n : bins) (z : W) : Prop := sparse_wire_ok p /\ sparse_wire_ok n /\ wexact z.

Lemma kind_ok_lt k : kind_ok k -> (k < 64)%N.
Proof. intros [H|[H|H]]; subst; reflexivity. Qed.
Lemma sketch_stream_wf m p n z omit : map_valid m -> sketch_wire_ok p n z -> wf_stream (sketch_stream m p n z omit).
Proof.
  intros [Hk _] [Hp [Hn _]]. unfold sketch_stream, wf_stream.
  apply Forall_app; split; [|apply Forall_app; split; [|apply Forall_app; split]].
  - unfold zero_blocks. destruct (weqb z w0); repeat constructor.
  - destruct omit; repeat constructor. cbn. apply kind_ok_lt, Hk.
  - apply sparse_blocks_wf, Hp.
  - apply sparse_blocks_wf, Hn.
Qed.
Lemma map_of_mapid m : map_of (mk_kind m) (mk_gamma m) (mk_off m) = m.
Proof. destruct m; reflexivity. Qed.

Lemma stream_pos_bins_app a b : stream_pos_bins (a ++ b) = stream_pos_bins a ++ stream_pos_bins b.
Proof. unfold stream_pos_bins. now rewrite map_app, concat_app. Qed.
Lemma stream_neg_bins_app a b : stream_neg_bins (a ++ b) = stream_neg_bins a ++ stream_neg_bins b.
Proof. unfold stream_neg_bins. now rewrite map_app, concat_app. Qed.
Lemma stream_zero_app a b : stream_zero (a ++ b) = stream_zero a ++ stream_zero b.
Proof. unfold stream_zero. now rewrite map_app, concat_app. Qed.

Lemma sketch_stream_content m p n z omit : sketch_wire_ok p n z ->
  stream_pos_bins (sketch_stream m p n z omit) = p /\ stream_neg_bins (sketch_stream m p n z omit) = n
  /\ stream_zero (sketch_stream m p n z omit) = (if weqb z w0 then [] else [z]).
Proof.
  intros [Hp [Hn Hz]]. unfold sketch_stream.
  destruct (sparse_blocks_bins false p Hp) as [P1 P2]. destruct (sparse_blocks_bins true n Hn) as [N1 N2].
  rewrite !stream_pos_bins_app, !stream_neg_bins_app, !stream_zero_app, P1, P2, N1, N2.
  assert (Z1 : stream_pos_bins (zero_blocks z) = [] /\ stream_neg_bins (zero_blocks z) = []
               /\ stream_zero (zero_blocks z) = (if weqb z w0 then [] else [z])).
  { unfold zero_blocks. destruct (weqb z w0); repeat split; try reflexivity.
    unfold stream_zero. cbn [map concat block_zero app]. rewrite wexact_wire by exact Hz. reflexivity. }
  destruct Z1 as [Z1 [Z2 Z3]]. rewrite Z1, Z2, Z3.
  assert (S0 : forall ng l, stream_zero (sparse_blocks ng l) = []) by (intros ng [|ic l]; reflexivity).
  rewrite !S0. destruct omit; cbn [app]; rewrite ?app_nil_r; repeat split; reflexivity.
Qed.
Lemma sketch_stream_maps m p n z cur :
  maps_chain cur (sketch_stream m p n z false) <-> block_ok cur (map_block m).
Proof.
  unfold sketch_stream, zero_blocks.
  assert (S0 : forall c ng l, maps_chain c (sparse_blocks ng l)) by (intros c ng [|ic l]; cbn; tauto).
  destruct (weqb z w0); cbn [app maps_chain block_ok block_map map_block]; rewrite maps_chain_app;
    pose proof (S0 (Some (map_of (mk_kind m) (mk_gamma m) (mk_off m))) false p);
    pose proof (S0 (last_mapid (Some (map_of (mk_kind m) (mk_gamma m) (mk_off m))) (sparse_blocks false p)) true n); tauto.
Qed.
Lemma sketch_stream_last m p n z cur : last_mapid cur (sketch_stream m p n z false) = Some m.
Proof.
  unfold sketch_stream, zero_blocks.
  assert (S0 : forall c ng l, last_mapid c (sparse_blocks ng l) = c) by (intros c ng [|ic l]; reflexivity).
  destruct (weqb z w0); cbn [app]; unfold last_mapid; cbn [fold_left block_map map_block];
    fold (last_mapid (Some (map_of (mk_kind m) (mk_gamma m) (mk_off m))) (sparse_blocks false p ++ sparse_blocks true n));
    rewrite last_mapid_app, !S0, map_of_mapid; reflexivity.
Qed.
Lemma zero_fold z0 z : fold_left wadd (if weqb z w0 then [] else [z]) z0 = wadd z0 z.
Proof.
  destruct (weqb z w0) eqn:E; cbn [fold_left]; [|reflexivity].
  apply weqb_eq in E. subst z. now rewrite wadd_0_r.
Qed.

(* decode (encode s) into a receiver: merge *)
Lemma sketch_stream_decode wx m p n z mp p0 n0 z0 : fD2 wx = true ->
  map_valid m -> sketch_wire_ok p n z ->
  match mp with Some m0 => map_equals m0 m = true | None => True end ->
  dec_sketch_into wx (sp_ds mp p0 n0 z0) (serialize (sketch_stream m p n z false))
  = DOk (sp_ds (Some m) (bmerge_list p0 p) (bmerge_list n0 n) (wadd z0 z)) [].
Proof.
  intros HD2 [Hk Hg] Hok Hm.
  rewrite sparse_dec_sketch; try assumption.
  - destruct (sketch_stream_content m p n z false Hok) as [P [N Z]].
    rewrite P, N, Z, zero_fold, sketch_stream_last. reflexivity.
  - apply sketch_stream_wf; [split; assumption|exact Hok].
  - apply sketch_stream_maps. cbn [block_ok map_block]. rewrite map_of_mapid. auto.
  - rewrite sketch_stream_last. discriminate.
Qed.
Theorem sketch_decode_into wx s p n mp p0 n0 z0 : fD2 wx = true ->
  plain_sparse s p n -> map_valid (sk_map s) -> sketch_wire_ok p n (sk_zero s) ->
  match mp with Some m0 => map_equals m0 (sk_map s) = true | None => True end ->
  dec_sketch_into wx (sp_ds mp p0 n0 z0) (snd (enc_sketch s false))
  = DOk (sp_ds (Some (sk_map s)) (bmerge_list p0 p) (bmerge_list n0 n) (wadd z0 (sk_zero s))) [].
Proof.
  intros HD2 Hps Hmv Hok Hm. rewrite (enc_sketch_grammar s p n false Hps). cbn [snd].
  apply sketch_stream_decode; assumption.
Qed.

Theorem sketch_roundtrip wx s p n : fD2 wx = true ->
  plain_sparse s p n -> map_valid (sk_map s) -> sketch_wire_ok p n (sk_zero s) ->
  dec_sketch_into wx (ds_fresh None KSparse false) (snd (enc_sketch s false))
  = DOk (sp_ds (Some (sk_map s)) (bins_of_list p) (bins_of_list n) (sk_zero s)) [].
Proof.
  intros HD2 Hps Hmv Hok. rewrite ds_fresh_sparse.
  rewrite (sketch_decode_into wx s p n None [] [] w0 HD2 Hps Hmv Hok I). rewrite wadd_0_l. reflexivity.
Qed.
(* canonical stores (Layer A normal form, positive weights): the very same sketch comes back *)
Corollary sketch_roundtrip_canon wx s p n : fD2 wx = true ->
  plain_sparse s p n -> map_valid (sk_map s) -> sketch_wire_ok p n (sk_zero s) ->
  wf p = true -> pos p -> wf n = true -> pos n ->
  dec_sketch_into wx (ds_fresh None KSparse false) (snd (enc_sketch s false)) = DOk (ds_of_sketch s) [].
Proof.
  intros HD2 Hps Hmv Hok Wp Pp Wn Pn. rewrite (sketch_roundtrip wx s p n HD2 Hps Hmv Hok).
  rewrite !bins_of_list_canon by assumption.
  destruct Hps as [Hp [Hn Hs]]. destruct s as [m sp sn z st]. cbn in *. subst. reflexivity.
Qed.

(* decode (enc a ++ enc b) into a fresh sketch = merge of the two contents *)
Theorem decode_concat_merge wx a pa na b pb nb : fD2 wx = true ->
  plain_sparse a pa na -> map_valid (sk_map a) -> sketch_wire_ok pa na (sk_zero a) ->
  plain_sparse b pb nb -> map_valid (sk_map b) -> sketch_wire_ok pb nb (sk_zero b) ->
  map_equals (sk_map a) (sk_map b) = true ->
  dec_sketch_into wx (ds_fresh None KSparse false) (snd (enc_sketch a false) ++ snd (enc_sketch b false))
  = DOk (sp_ds (Some (sk_map b)) (bmerge_list (bins_of_list pa) pb) (bmerge_list (bins_of_list na) nb)
               (wadd (sk_zero a) (sk_zero b))) [].
Proof.
  intros HD2 Ha Hma Hoa Hb Hmb Hob Heq. rewrite ds_fresh_sparse.
  rewrite (enc_sketch_grammar a pa na false Ha), (enc_sketch_grammar b pb nb false Hb). cbn [snd].
  set (sa := sketch_stream (sk_map a) pa na (sk_zero a) false).
  set (sb := sketch_stream (sk_map b) pb nb (sk_zero b) false).
  assert (Hca : maps_chain None sa).
  { apply sketch_stream_maps. cbn [block_ok map_block]. destruct Hma. auto. }
  assert (Hla : last_mapid None sa = Some (sk_map a)) by apply sketch_stream_last.
  assert (Hcb : maps_chain (Some (sk_map a)) sb).
  { apply sketch_stream_maps. cbn [block_ok map_block]. rewrite map_of_mapid. destruct Hmb. auto. }
  destruct (sparse_decode_concat wx sa sb None [] [] w0 HD2) as [d1 [E1 E2]].
  - apply sketch_stream_wf; assumption.
  - apply sketch_stream_wf; assumption.
  - apply maps_chain_app. rewrite Hla. split; assumption.
  - rewrite Hla. discriminate.
  - rewrite E2. unfold sa in E1.
    rewrite (sketch_stream_decode wx (sk_map a) pa na (sk_zero a) None [] [] w0 HD2 Hma Hoa I) in E1.
    injection E1 as E1. subst d1. rewrite wadd_0_l. unfold sb.
    apply (sketch_stream_decode wx (sk_map b) pb nb (sk_zero b) (Some (sk_map a)) _ _ _ HD2 Hmb Hob Heq).
Qed.
(* ================================================================== *)
(* 11. The abstract store interface, packaged                          *)
(* ================================================================== *)
(* [abs] abstraction to Layer A, [good] representation invariant, [okw] admissible weights,
   [step] what one AddWithCount does to the content (badd0 for exact stores, [sadd l] for collapsing ones).
   Proved per store kind elsewhere; here for the sparse store. *)
Definition store_refines (abs : store -> bins) (good : store -> Prop) (okw : W -> Prop)
                         (step : bins -> Z -> W -> bins) : Prop :=
  (forall s i c, good s -> okw c -> exists s', st_addw s i c = Some s' /\ good s' /\ abs s' = step (abs s) i c)
  /\ (forall s i, good s -> exists s', st_add s i = Some s' /\ good s' /\ abs s' = step (abs s) i w1)
  /\ (forall s sub b, good s -> dec_bins s sub b = dec_bins_generic s sub b).

Theorem sparse_refines : store_refines ss_bins is_sparse any_w badd0.
Proof. split; [exact sparse_addw|]. split; [exact sparse_add|exact sparse_np]. Qed.

Theorem generic_dec_bins abs good okw step bb s : store_refines abs good okw step ->
  wf_bins bb -> good s -> okw_bins okw bb ->
  exists s', (forall rest, dec_bins_generic s (fst (ser_bins bb) * 4)%N (snd (ser_bins bb) ++ rest) = DOk s' rest)
             /\ good s' /\ abs s' = steps step (abs s) (bins_of_block bb).
Proof. intros [H1 [H2 _]]. apply dec_bins_generic_ser; assumption. Qed.
Theorem generic_dec_bins_trunc abs good okw step bb s p t : store_refines abs good okw step ->
  wf_bins bb -> good s -> okw_bins okw bb -> snd (ser_bins bb) = p ++ t -> t <> [] ->
  dec_bins_generic s (fst (ser_bins bb) * 4)%N p = DErr EEof.
Proof. intros [H1 [H2 _]]. eapply dec_bins_generic_trunc; eassumption. Qed.
Theorem generic_dec_sketch abs good okw step wx st d : store_refines abs good okw step -> fD2 wx = true ->
  wf_stream st -> okw_stream okw st -> maps_chain (ds_map d) st -> ds_good good d ->
  last_mapid (ds_map d) st <> None ->
  exists d', dec_sketch_into wx d (serialize st) = DOk d' [] /\ ds_rel_st abs good step d d' st.
Proof. intros [H1 [H2 H3]] HD2. apply dec_sketch_ser with (okw := okw); assumption. Qed.
Theorem generic_truncation abs good okw step wx st b d p t : store_refines abs good okw step ->
  fD2 wx = true -> fD3 wx = true ->
  wf_stream st -> okw_stream okw st -> maps_chain (ds_map d) st -> ds_good good d ->
  wf_block b -> kind_ok_block b -> okw_block okw b ->
  ser_block b = p ++ t -> t <> [] -> p <> [] ->
  dec_sketch_into wx d (serialize st ++ p) = DErr EEof.
Proof. intros [H1 [H2 H3]] HD2 HD3. apply dec_sketch_truncation with (abs := abs) (good := good) (okw := okw) (step := step); assumption. Qed.
Theorem generic_mapping_mismatch abs good okw step wx st d kd g o m0 rest : store_refines abs good okw step ->
  fD2 wx = true ->
  wf_stream st -> okw_stream okw st -> maps_chain (ds_map d) st -> ds_good good d ->
  last_mapid (ds_map d) st = Some m0 ->
  kind_ok kd -> fle g f64_one = false -> map_equals m0 (map_of kd g o) = false ->
  dec_sketch_into wx d (serialize st ++ ser_block (BMapping kd g o) ++ rest) = DErr EMismatch.
Proof. intros [H1 [H2 H3]] HD2. apply dec_sketch_mapping_mismatch with (abs := abs) (good := good) (okw := okw) (step := step); assumption. Qed.
Theorem generic_missing_mapping abs good okw step wx st d : store_refines abs good okw step -> fD2 wx = true ->
  wf_stream st -> okw_stream okw st -> maps_chain (ds_map d) st -> ds_good good d ->
  last_mapid (ds_map d) st = None ->
  dec_sketch_into wx d (serialize st) = DErr EMissingMapping.
Proof. intros [H1 [H2 H3]] HD2. apply dec_sketch_missing_mapping with (abs := abs) (good := good) (okw := okw) (step := step); assumption. Qed.

(* ================================================================== *)
(* 12. Observers for the executable examples (floats compared by bit pattern, weights as Q) *)
(* ================================================================== *)
Definition bins_sig (bb : bin_block) : N * list Z * list N :=
  match bb with
  | IndexDeltasAndCounts l => (1%N, map fst l, map (fun dc => bits_of_f64 (snd dc)) l)
  | IndexDeltas l => (2%N, l, [])
  | ContiguousCounts f s l => (3%N, [f; s], map bits_of_f64 l)
  end.
Definition block_sig (b : block) : N * N * (N * list Z * list N) :=
  match b with
  | BZeroCount w => (0%N, 0%N, (0%N, [], [bits_of_f64 w]))
  | BMapping k g o => (1%N, k, (0%N, [], [bits_of_f64 g; bits_of_f64 o]))
  | BStore neg bb => (2%N, if neg then 1%N else 0%N, bins_sig bb)
  | BCount w => (3%N, 0%N, (0%N, [], [bits_of_f64 w]))
  | BSum w => (4%N, 0%N, (0%N, [], [bits_of_f64 w]))
  | BMin w => (5%N, 0%N, (0%N, [], [bits_of_f64 w]))
  | BMax w => (6%N, 0%N, (0%N, [], [bits_of_f64 w]))
  end.
Definition qbins (b : list (Z * W)) : list (Z * Q) := map (fun kw => (fst kw, this (snd kw))) b.
Definition map_sig (m : option mapid) : option (N * N * N) :=
  option_map (fun m => (mk_kind m, bits_of_f64 (mk_gamma m), bits_of_f64 (mk_off m))) m.
Definition ds_sig (r : dres dsketch) :=
  match r with
  | DOk d rest => inl (qbins (ss_bins (ds_pos d)), qbins (ss_bins (ds_neg d)), this (ds_zero d), map_sig (ds_map d), rest)
  | DErr e => inr (Some e)
  | DPanic => inr None
  end.
Definition content_sig (c : option content) :=
  match c with
  | Some c => Some (qbins (c_pos c), qbins (c_neg c), this (c_zero c),
                    option_map (fun m => (fst (fst m), bits_of_f64 (snd (fst m)), bits_of_f64 (snd m))) (c_map c),
                    (map bits_of_f64 (c_count c), map bits_of_f64 (c_sum c), map bits_of_f64 (c_min c), map bits_of_f64 (c_max c)))
  | None => None
  end.
(* ================================================================== *)
(* 13. G4 for the dense store: both layouts of DenseStore.Encode       *)
(* ================================================================== *)
Definition dense_cells (d : dense) : list (Z * W) :=
  map (fun i => (i, at_ (Dense.bins d) (i - offset d)%Z)) (zrange (minI d) (maxI d)).
Definition nzb (ic : Z * W) : bool := negb (weqb (snd ic) w0).
(* [contiguous]: which of the two layouts the size comparison picked *)
Definition dense_blocks (neg : bool) (d : dense) (contiguous : bool) : stream :=
  if is_empty d then []
  else if contiguous then [BStore neg (ContiguousCounts (minI d) 1 (map (fun ic => q2f (snd ic)) (dense_cells d)))]
  else [BStore neg (IndexDeltasAndCounts (sparse_deltas 0 (filter nzb (dense_cells d))))].

Lemma dense_count_fold : forall (l : list (Z * W)) (sz0 : nat) (n0 : N) (p0 : Z),
  snd (fst (fold_left (fun (acc : nat * N * Z) (ic : Z * W) =>
                         let '(sz, n, prev) := acc in
                         if weqb (snd ic) w0 then acc
                         else ((sz + sv_size (fst ic - prev)%Z + Varfloat.vf_size (q2f (snd ic)))%nat, (n + 1)%N, fst ic))
                      l (sz0, n0, p0)))
  = (n0 + N.of_nat (length (filter nzb l)))%N.
Proof.
  induction l as [|ic l IH]; intros sz0 n0 p0; cbn [fold_left filter].
  - cbn [length snd fst]. lia.
  - unfold nzb at 1. destruct (weqb (snd ic) w0); cbn [negb].
    + apply IH.
    + rewrite IH. cbn [length]. lia.
Qed.
Lemma dense_enc_fold : forall (l : list (Z * W)) prev out,
  snd (fold_left (fun (acc : Z * list byte) (ic : Z * W) =>
                    let '(prev, out) := acc in
                    if weqb (snd ic) w0 then acc
                    else (fst ic, out ++ enc_sv (fst ic - prev) ++ enc_w (snd ic))) l (prev, out))
  = out ++ concat (map (fun dc => enc_sv (fst dc) ++ Varfloat.enc_vf (snd dc)) (sparse_deltas prev (filter nzb l))).
Proof.
  induction l as [|ic l IH]; intros prev out; cbn [fold_left filter].
  - cbn [sparse_deltas map concat snd]. now rewrite app_nil_r.
  - unfold nzb at 1. destruct (weqb (snd ic) w0); cbn [negb].
    + apply IH.
    + rewrite IH. cbn [sparse_deltas map concat fst snd]. unfold enc_w. rewrite <- !app_assoc. reflexivity.
Qed.

Lemma dense_cells_length d : length (dense_cells d) = Z.to_nat (maxI d - minI d + 1).
Proof. unfold dense_cells. rewrite map_length. apply zrange_length. Qed.

Theorem enc_dense_grammar d neg : (minI d <= maxI d)%Z ->
  exists c, enc_dense d (ty_of neg) = serialize (dense_blocks neg d c).
Proof.
  intros Hmm. unfold enc_dense, dense_blocks. destruct (is_empty d); [exists true; reflexivity|].
  cbv zeta. fold (dense_cells d).
  match goal with |- context [match ?X with pair _ _ => _ end] => destruct X as [[ssz ne] lp] eqn:E end.
  assert (Hne : ne = N.of_nat (length (filter nzb (dense_cells d)))).
  { change ne with (snd (fst (ssz, ne, lp))). rewrite <- E. rewrite dense_count_fold. lia. }
  match goal with |- context [if ?c then _ else _] => destruct c end.
  - exists true. rewrite serialize_one, ser_block_store. cbn [ser_bins fst snd].
    rewrite map_length, dense_cells_length, map_map.
    replace (Z.to_N (maxI d - minI d) + 1)%N with (N.of_nat (Z.to_nat (maxI d - minI d + 1))) by lia.
    destruct neg; reflexivity.
  - exists false. rewrite serialize_one, ser_block_store. cbn [ser_bins fst snd].
    rewrite dense_enc_fold, sparse_deltas_length, Hne. destruct neg; reflexivity.
Qed.

(* ---- meaning of the two layouts ---- *)
Fixpoint consec (i0 : Z) (l : list (Z * W)) : Prop :=
  match l with [] => True | ic :: tl => fst ic = i0 /\ consec (i0 + 1)%Z tl end.
Lemma consec_map_seq (g : Z -> W) lo : forall n s,
  consec (lo + Z.of_nat s)%Z (map (fun i => (i, g i)) (map (fun k => (lo + Z.of_nat k)%Z) (seq s n))).
Proof.
  induction n as [|n IH]; intros s; cbn [seq map consec]; [exact I|].
  split; [reflexivity|]. replace (lo + Z.of_nat s + 1)%Z with (lo + Z.of_nat (S s))%Z by lia. apply IH.
Qed.
Lemma dense_cells_consec d : consec (minI d) (dense_cells d).
Proof.
  unfold dense_cells, zrange.
  pose proof (consec_map_seq (fun i => at_ (Dense.bins d) (i - offset d)%Z) (minI d)
                (Z.to_nat (maxI d - minI d + 1)) 0) as H.
  replace (minI d + Z.of_nat 0)%Z with (minI d) in H by lia. exact H.
Qed.
Lemma cc_bins_consec : forall l i0, consec i0 l -> Forall (fun ic => i64 (fst ic)) l -> Forall (fun ic => wexact (snd ic)) l ->
  cc_bins wire_w i0 1 (map (fun ic => q2f (snd ic)) l) = l.
Proof.
  induction l as [|[i w] l IH]; intros i0 Hc Hi Hw; cbn [map cc_bins]; [reflexivity|].
  destruct Hc as [Hc1 Hc2]. cbn [fst snd] in *. subst i0.
  inversion Hi as [|x y Hi1 Hil]; subst. inversion Hw as [|x y Hw1 Hwl]; subst. cbn [fst snd] in *.
  rewrite wexact_wire by exact Hw1. f_equal.
  destruct l as [|[i' w'] l']; [reflexivity|].
  assert (Hi' : i64 (i + 1)%Z).
  { destruct Hc2 as [E _]. cbn [fst] in E. inversion Hil as [|x y H1 _]. cbn [fst] in H1. rewrite <- E. exact H1. }
  rewrite wrap_i64_id by exact Hi'. apply IH; assumption.
Qed.
Lemma bmerge_list_filter : forall l a, bmerge_list a (filter nzb l) = bmerge_list a l.
Proof.
  induction l as [|[k w] l IH]; intros a; cbn [filter]; [reflexivity|].
  unfold nzb at 1. cbn [snd]. rewrite (bmerge_list_cons a k w l).
  destruct (weqb w w0) eqn:E; cbn [negb].
  - unfold badd0. rewrite E. apply IH.
  - rewrite bmerge_list_cons. apply IH.
Qed.

Definition dense_wire_ok (d : dense) : Prop :=
  (minI d <= maxI d)%Z /\ idx_ok (minI d) /\ idx_ok (maxI d) /\ Forall (fun ic => wexact (snd ic)) (dense_cells d).

Lemma dense_cells_idx d : idx_ok (minI d) -> idx_ok (maxI d) -> Forall (fun ic => idx_ok (fst ic)) (dense_cells d).
Proof.
  intros H1 H2. unfold dense_cells. apply Forall_forall. intros ic Hin.
  apply in_map_iff in Hin. destruct Hin as [i [<- Hi]]. apply in_zrange in Hi. cbn [fst].
  unfold idx_ok in *. lia.
Qed.
Lemma idx_ok_i64 l : Forall (fun ic : Z * W => idx_ok (fst ic)) l -> Forall (fun ic => i64 (fst ic)) l.
Proof. apply Forall_impl. intros ic. unfold idx_ok, MinInt32, MaxInt32, i64. lia. Qed.
Lemma Forall_filter {A} (P : A -> Prop) f (l : list A) : Forall P l -> Forall P (filter f l).
Proof. intros H. apply Forall_forall. intros x Hx. apply filter_In in Hx. destruct Hx as [Hx _]. rewrite Forall_forall in H. auto. Qed.
Lemma filter_length_le {A} f (l : list A) : length (filter f l) <= length l.
Proof. induction l as [|x l IH]; cbn [filter length]; [lia|]. destruct (f x); cbn [length]; lia. Qed.

Lemma dense_len_ok d : idx_ok (minI d) -> idx_ok (maxI d) -> (N.of_nat (length (dense_cells d)) < W64)%N.
Proof. intros H1 H2. rewrite dense_cells_length. unfold idx_ok, MinInt32, MaxInt32, W64 in *. lia. Qed.

Lemma dense_blocks_wf neg d c : dense_wire_ok d -> wf_stream (dense_blocks neg d c).
Proof.
  intros [Hmm [H1 [H2 Hw]]]. unfold dense_blocks. destruct (is_empty d); [constructor|].
  pose proof (dense_len_ok d H1 H2) as HL. pose proof (dense_cells_idx d H1 H2) as Hidx.
  destruct c; (constructor; [|constructor]); cbn [wf_block wf_bins].
  - rewrite map_length. split; [exact HL|]. unfold idx_ok, MinInt32, MaxInt32, i64 in *. lia.
  - rewrite sparse_deltas_length. split.
    + pose proof (filter_length_le nzb (dense_cells d)). lia.
    + apply sparse_deltas_int32; [unfold idx_ok, MinInt32, MaxInt32; lia|]. apply Forall_filter. exact Hidx.
Qed.
Lemma deltas_exact : forall l prev, Forall (fun ic => wexact (snd ic)) l -> Forall exact_f (map snd (sparse_deltas prev l)).
Proof.
  induction l as [|ic l IH]; intros prev Hw; cbn [sparse_deltas map snd]; [constructor|].
  inversion Hw as [|x y H1 Hl]; subst. constructor; [apply H1|apply IH; exact Hl].
Qed.
Lemma dense_blocks_exact neg d c : dense_wire_ok d -> exact_stream (dense_blocks neg d c).
Proof.
  intros [_ [_ [_ Hw]]]. unfold dense_blocks. destruct (is_empty d); [constructor|].
  destruct c; (constructor; [|constructor]); cbn [block_weights bins_weights].
  - apply Forall_forall. intros x Hx. apply in_map_iff in Hx. destruct Hx as [ic [<- Hic]].
    rewrite Forall_forall in Hw. apply (Hw ic Hic).
  - apply deltas_exact. apply Forall_filter. exact Hw.
Qed.
Lemma dense_blocks_bins d c a : dense_wire_ok d -> is_empty d = false ->
  bmerge_list a (stream_pos_bins (dense_blocks false d c)) = bmerge_list a (dense_cells d)
  /\ stream_neg_bins (dense_blocks false d c) = [].
Proof.
  intros [Hmm [H1 [H2 Hw]]] Hne. unfold dense_blocks. rewrite Hne.
  pose proof (idx_ok_i64 _ (dense_cells_idx d H1 H2)) as Hi.
  destruct c; unfold stream_pos_bins, stream_neg_bins; cbn [map concat block_pos_bins block_neg_bins];
    rewrite app_nil_r, bins_of_block_eq; cbn [bins_of_block_w]; (split; [|reflexivity]).
  - rewrite cc_bins_consec; [reflexivity|apply dense_cells_consec|exact Hi|exact Hw].
  - rewrite sparse_deltas_bins; [apply bmerge_list_filter|apply Forall_filter; exact Hi|apply Forall_filter; exact Hw].
Qed.

(* whichever layout was chosen, the reference decoder reads the cells of the window back *)
Theorem enc_dense_ref_decode d : dense_wire_ok d -> is_empty d = false ->
  exists c, ref_decode (enc_dense d ft_positive) = Some c /\ c_pos c = bins_of_list (dense_cells d) /\ c_neg c = [].
Proof.
  intros Hok Hne. destruct (enc_dense_grammar d false (proj1 Hok)) as [lay E].
  eexists. split.
  - change ft_positive with (ty_of false). rewrite E.
    apply ref_decode_serialize; [apply dense_blocks_wf; exact Hok|].
    apply exact_stable_stream, dense_blocks_exact; exact Hok.
  - destruct (dense_blocks_bins d lay [] Hok Hne) as [H1 H2]. rewrite sem_pos, sem_neg, H2.
    split; [exact H1|reflexivity].
Qed.
Lemma ser_bins_sub_lt64 bb : (fst (ser_bins bb) < 64)%N.
Proof. destruct bb; reflexivity. Qed.
(* and so does the implementation's decoder with a sparse receiver *)
Theorem enc_dense_sparse_decode d m : dense_wire_ok d -> is_empty d = false ->
  exists f body, enc_dense d ft_positive = f :: body /\ flag_type f = ft_positive
                 /\ dec_bins (SS m) (flag_sub f) body = DOk (SS (bmerge_list m (dense_cells d))) [].
Proof.
  intros Hok Hne. destruct (enc_dense_grammar d false (proj1 Hok)) as [lay E].
  change ft_positive with (ty_of false). rewrite E.
  pose proof (dense_blocks_wf false d lay Hok) as Hwf.
  destruct (dense_blocks_bins d lay m Hok Hne) as [HB _]. rewrite <- HB.
  unfold dense_blocks in *. rewrite Hne in *.
  destruct lay; rewrite serialize_one, ser_block_store; inversion Hwf as [|x y Hb _]; subst; cbn [wf_block] in Hb;
    (eexists; eexists; split; [reflexivity|]; split; [apply flag_type_g; reflexivity|]);
    (rewrite flag_sub_g; [|reflexivity|apply ser_bins_sub_lt64]);
    cbn [dec_bins]; rewrite <- (app_nil_r (snd (ser_bins _))); rewrite sparse_dec_bins by exact Hb;
    unfold stream_pos_bins; cbn [map concat block_pos_bins]; rewrite app_nil_r; reflexivity.
Qed.
(* ================================================================== *)
(* 14. Integer weights below 2^53 cross the wire exactly               *)
(* ================================================================== *)
From Coq Require Import Reals.
From Flocq Require Import Core.Core.
Close Scope R_scope.
Close Scope Z_scope.
Close Scope N_scope.
Open Scope nat_scope.
Open Scope list_scope.
Lemma this_w_of_Z n : this (w_of_Z n) = inject_Z n.
Proof.
  unfold w_of_Z, Q2Qc. cbn [this]. unfold Qred, inject_Z. cbn [Qnum Qden].
  pose proof (Z.ggcd_gcd n 1) as Hg. pose proof (Z.ggcd_correct_divisors n 1) as Hd.
  destruct (Z.ggcd n 1) as [g [a b]]. cbn [fst snd] in *. rewrite Z.gcd_1_r in Hg. subst g.
  destruct Hd as [Ha Hb]. assert (Ea : a = n) by lia. assert (Eb : b = 1%Z) by lia. rewrite Ea, Eb. reflexivity.
Qed.
Lemma q2f_int n : q2f (w_of_Z n) = f64_of_int n.
Proof. unfold q2f. rewrite this_w_of_Z. reflexivity. Qed.

Lemma f2q_of_R (x : f64) (n : Z) :
  Binary.is_finite 53 1024 x = true -> Binary.B2R 53 1024 x = IZR n -> f2q x = w_of_Z n.
Proof.
  intros Hfin HR. unfold f2q, w_of_Z. destruct x as [s|s|s pl Hpl|s m e Hb]; try discriminate.
  - cbn [f2v]. cbn in HR. apply eq_IZR in HR. subst n. reflexivity.
  - cbn [f2v]. unfold w0. apply Q2Qc_eq_iff.
    unfold Binary.B2R, Defs.F2R in HR. cbn [Defs.Fnum Defs.Fexp] in HR.
    set (sm := (if s then Z.neg m else Z.pos m)) in *.
    assert (Hsm : SpecFloat.cond_Zopp s (Z.pos m) = sm) by (destruct s; reflexivity). rewrite Hsm in HR.
    destruct e as [|p|p]; cbn [pow2Q].
    + cbn [Raux.bpow] in HR. rewrite Rmult_1_r in HR. apply eq_IZR in HR. subst n. apply Qmult_1_r.
    + cbn [Raux.bpow] in HR. rewrite <- mult_IZR in HR. apply eq_IZR in HR. subst n.
      rewrite inject_Z_mult. reflexivity.
    + cbn [Raux.bpow] in HR.
      assert (Hp : (0 < Z.pow_pos Zaux.radix2 p)%Z) by (apply Zaux.Zpower_pos_gt_0; reflexivity).
      assert (HR' : IZR sm = (IZR n * IZR (Z.pow_pos Zaux.radix2 p))%R).
      { rewrite <- HR. field. apply not_0_IZR. lia. }
      rewrite <- mult_IZR in HR'. apply eq_IZR in HR'.
      unfold Qeq, Qmult, inject_Z. cbn [Qnum Qden].
      change (Z.pow_pos Zaux.radix2 p) with (2 ^ Z.pos p)%Z in HR'.
      rewrite Pos.mul_1_l, Pos2Z.inj_pow, !Z.mul_1_r. change (Z.pos 2) with 2%Z. exact HR'.
Qed.

Theorem wexact_int n : (0 <= n < 9007199254740992)%Z -> wexact (w_of_Z n).
Proof.
  intros Hn. destruct (f64_of_int_spec n Hn) as (HFin & HS & HR). unfold wexact. rewrite q2f_int. split.
  - exact (varfloat_exact_int (f64_of_int n) n Hn HFin HS HR).
  - apply f2q_of_R; assumption.
Qed.
Corollary wexact_nat k : (Z.of_nat k < 9007199254740992)%Z -> wexact (w_of_nat k).
Proof. intros H. apply wexact_int. lia. Qed.
(* ================================================================== *)
(* 15. On ALL byte strings the generic decoder of store.go (sparse receiver) is the reference
       parser followed by the merge of the parsed bins: same acceptance, same remaining bytes,
       same content; the only failure is io.EOF                         *)
(* ================================================================== *)
Lemma idc_agree : forall fuel n b idx m,
  dec_idc_loop fuel n idx (SS m) b =
  match parse_idc fuel n b [] with
  | Some (l, r) => DOk (SS (bmerge_list m (idc_bins f2q idx l))) r
  | None => DErr EEof
  end.
Proof.
  induction fuel as [|f IH]; intros n b idx m; rewrite dec_idc_loop_eq;
    destruct (N.eqb_spec n 0) as [->|Hn]; try (rewrite parse_idc_0; reflexivity).
  - rewrite parse_idc_O by exact Hn. reflexivity.
  - rewrite parse_idc_S by exact Hn. destruct (dec_sv b) as [d b1| |]; try reflexivity.
    unfold dec_count. destruct (Varfloat.dec_vf b1) as [c b2| |]; try reflexivity.
    cbn [st_addw]. rewrite IH. destruct (parse_idc f (n - 1)%N b2 []) as [[l r]|]; reflexivity.
Qed.
Lemma id_agree : forall fuel n b idx m,
  dec_id_loop fuel n idx (SS m) b =
  match parse_id fuel n b [] with
  | Some (l, r) => DOk (SS (bmerge_list m (id_bins idx l))) r
  | None => DErr EEof
  end.
Proof.
  induction fuel as [|f IH]; intros n b idx m; rewrite dec_id_loop_eq;
    destruct (N.eqb_spec n 0) as [->|Hn]; try (rewrite parse_id_0; reflexivity).
  - rewrite parse_id_O by exact Hn. reflexivity.
  - rewrite parse_id_S by exact Hn. destruct (dec_sv b) as [d b1| |]; try reflexivity.
    cbn [st_add]. rewrite IH. destruct (parse_id f (n - 1)%N b1 []) as [[l r]|]; reflexivity.
Qed.
Lemma cc_agree : forall fuel n b idx stride m,
  dec_cc_loop fuel n idx stride (SS m) b =
  match parse_cc fuel n b [] with
  | Some (l, r) => DOk (SS (bmerge_list m (cc_bins f2q idx stride l))) r
  | None => DErr EEof
  end.
Proof.
  induction fuel as [|f IH]; intros n b idx stride m; rewrite dec_cc_loop_eq;
    destruct (N.eqb_spec n 0) as [->|Hn]; try (rewrite parse_cc_0; reflexivity).
  - rewrite parse_cc_O by exact Hn. reflexivity.
  - rewrite parse_cc_S by exact Hn.
    unfold dec_count. destruct (Varfloat.dec_vf b) as [c b1| |]; try reflexivity.
    cbn [st_addw]. rewrite IH. destruct (parse_cc f (n - 1)%N b1 []) as [[l r]|]; reflexivity.
Qed.

Theorem sparse_dec_bins_agrees m sub b : sub = SUB_BINS_IDC \/ sub = SUB_BINS_ID \/ sub = SUB_BINS_CC ->
  dec_bins_generic (SS m) (sub * 4)%N b =
  match parse_bins sub b with
  | Some (bb, r) => DOk (SS (bmerge_list m (bins_of_block_w f2q bb))) r
  | None => DErr EEof
  end.
Proof.
  intros [ -> | [ -> | -> ] ]; unfold dec_bins_generic, parse_bins.
  - change (SUB_BINS_IDC * 4 =? sub_idx_deltas_counts)%N with true.
    change (SUB_BINS_IDC =? SUB_BINS_IDC)%N with true. cbv iota.
    destruct (dec_uv b) as [n b1| |]; try reflexivity. rewrite idc_agree.
    destruct (parse_idc (S (length b1)) n b1 []) as [[l r]|]; reflexivity.
  - change (SUB_BINS_ID * 4 =? sub_idx_deltas_counts)%N with false.
    change (SUB_BINS_ID * 4 =? sub_idx_deltas)%N with true.
    change (SUB_BINS_ID =? SUB_BINS_IDC)%N with false. change (SUB_BINS_ID =? SUB_BINS_ID)%N with true. cbv iota.
    destruct (dec_uv b) as [n b1| |]; try reflexivity. rewrite id_agree.
    destruct (parse_id (S (length b1)) n b1 []) as [[l r]|]; reflexivity.
  - change (SUB_BINS_CC * 4 =? sub_idx_deltas_counts)%N with false.
    change (SUB_BINS_CC * 4 =? sub_idx_deltas)%N with false.
    change (SUB_BINS_CC * 4 =? sub_contiguous)%N with true.
    change (SUB_BINS_CC =? SUB_BINS_IDC)%N with false. change (SUB_BINS_CC =? SUB_BINS_ID)%N with false.
    change (SUB_BINS_CC =? SUB_BINS_CC)%N with true. cbv iota.
    destruct (dec_uv b) as [n b1| |]; try reflexivity.
    destruct (dec_sv b1) as [i b2| |]; try reflexivity.
    destruct (dec_sv b2) as [dl b3| |]; try reflexivity. rewrite cc_agree.
    destruct (parse_cc (S (length b3)) n b3 []) as [[l r]|]; reflexivity.
Qed.

(* G2 in one statement *)
Theorem sem_app_all a b :
  c_pos (sem (a ++ b)) = bmerge_list (c_pos (sem a)) (stream_pos_bins b) /\
  c_neg (sem (a ++ b)) = bmerge_list (c_neg (sem a)) (stream_neg_bins b) /\
  c_zero (sem (a ++ b)) = fold_left wadd (stream_zero b) (c_zero (sem a)) /\
  c_map (sem (a ++ b)) = last_mapping (c_map (sem a)) b.
Proof. repeat split; [apply sem_app_pos|apply sem_app_neg|apply sem_app_zero|apply sem_app_map]. Qed.
