(* What the edited message (Wire/ProtoEdit.v) means: on the dyadic grid where binary64 products are exact
   (Sketch/MiscProofs.v grid_fmul), the content of a scaled message is the content scaled. *)
From Coq Require Import Bool ZArith QArith Qcanon Qcabs List Lia.
From SK Require Import Base.Prelude Base.F64 Spec.Bins Wire.Proto Wire.ProtoEdit Sketch.MiscProofs.
Import ListNotations.
Local Open Scope Z_scope.

Definition scalable (k j : Z) (g : Qc) (w : Qc) : Prop :=
  grid53 k w /\ (Qcabs (w * g) <= gridv (k + j) (2 ^ 53))%Qc.

Lemma entries_content_scale_grid (k j : Z) (g : Qc) (l : list (Z * W)) :
  0 <= k -> 0 <= j -> k + j <= 1074 -> grid53 j g ->
  Forall (fun kw => scalable k j g (snd kw)) l ->
  entries_content (map (fun kv => (fst kv, fmul (snd kv) (q2f g))) (map (fun kw => (fst kw, q2f (snd kw))) l)) =
  map (fun kw => (fst kw, (snd kw * g)%Qc)) l.
Proof.
  intros Hk Hj Hkj Hg H. unfold entries_content. rewrite !map_map.
  induction H as [|kw tl [Gw Bw] _ IH]; [reflexivity|].
  cbn [map fst snd] in *. rewrite IH. f_equal. f_equal. now apply (grid_fmul k j).
Qed.

(* ToProto of a sparse/paginated store whose weights are on the grid, edited by a factor on the grid: the message now
   means the store with every weight multiplied (nothing else moves) *)
Theorem scaled_message_content (k j : Z) (g : Qc) (l : list (Z * W)) :
  0 <= k -> 0 <= j -> k + j <= 1074 -> grid53 j g ->
  Forall (fun kw => scalable k j g (snd kw)) l ->
  store_content (pb_store_scale (q2f g) (to_proto_sparse l)) = map (fun kw => (fst kw, (snd kw * g)%Qc)) l.
Proof.
  intros Hk Hj Hkj Hg H. unfold store_content, pb_store_scale, to_proto_sparse.
  cbn [bin_counts contiguous_counts contiguous_offset map contig_content]. rewrite app_nil_r.
  now apply (entries_content_scale_grid k j).
Qed.
