(* Layer B: the binary format. Encoders of the three store families and of the sketch
   (ddsketch.go Encode, dense_store.go Encode, sparse.go Encode, buffered_paginated.go Encode),
   the generic bin decoders of store.go, the specialised ones of buffered_paginated.go, and the
   block loop of ddsketch.go decodeAndMergeWith. Weights cross the wire through the real varfloat
   codec on Flocq floats. [fD2]/[fD3] select the repaired code. Definitions only. *)
From Flocq Require Import IEEE754.BinarySingleNaN IEEE754.Binary IEEE754.Bits.
From SK Require Import Codec.Codec.
From SK Require Codec.Varfloat.
From SK Require Import Base.Prelude Base.F64 Spec.Bins Store.Any Stat.Summary Sketch.Sketch.

Definition enc_w (w : W) : list byte := Varfloat.enc_vf (q2f w).
Definition enc_flag (t : N) (sub : N) : list byte := [N.lor t sub].

(* ---------- store encoders ---------- *)
Definition sub_of (f : byte) : N := flag_sub f.

(* DenseStore.Encode *)
Definition enc_dense (s : dense) (t : N) : list byte :=
  if is_empty s then [] else
  let cells := map (fun i => (i, at_ (Dense.bins s) (i - offset s))) (zrange (minI s) (maxI s)) in
  let numBins := (Z.to_N (maxI s - minI s) + 1)%N in
  let dense_size := (uv_size numBins + sv_size (minI s) + sv_size 1
                     + fold_left (fun a ic => a + Varfloat.vf_size (q2f (snd ic))) cells 0)%nat in
  let '(sparse_size, nonempty, _) :=
    fold_left (fun acc ic =>
                 let '(sz, n, prev) := acc in
                 if weqb (snd ic) w0 then acc
                 else ((sz + sv_size (fst ic - prev) + Varfloat.vf_size (q2f (snd ic)))%nat, n + 1, fst ic)%N)
              cells (0%nat, 0%N, minI s) in
  let sparse_size := (sparse_size + uv_size nonempty)%nat in
  if (dense_size <=? sparse_size)%nat then
    enc_flag t sub_contiguous ++ enc_uv numBins ++ enc_sv (minI s) ++ enc_sv 1
    ++ concat (map (fun ic => enc_w (snd ic)) cells)
  else
    enc_flag t sub_idx_deltas_counts ++ enc_uv nonempty
    ++ snd (fold_left (fun acc ic =>
                         let '(prev, out) := acc in
                         if weqb (snd ic) w0 then acc
                         else (fst ic, out ++ enc_sv (fst ic - prev) ++ enc_w (snd ic)))
                      cells (0, [])).

(* SparseStore.Encode, in visiting order [l] *)
Definition enc_sparse (l : list (Z * W)) (t : N) : list byte :=
  match l with
  | [] => []
  | _ => enc_flag t sub_idx_deltas_counts ++ enc_uv (N.of_nat (length l))
         ++ snd (fold_left (fun acc ic => let '(prev, out) := acc in (fst ic, out ++ enc_sv (fst ic - prev) ++ enc_w (snd ic))) l (0, []))
  end.

(* BufferedPaginatedStore.Encode: compacts first; returns the compacted store *)
Definition enc_pag (s : pag) (t : N) : pag * list byte :=
  let s' := compact pgrow8 worth32 ZSort.sort s in
  let buf := match buffer s' with
             | [] => []
             | b => enc_flag t sub_idx_deltas ++ enc_uv (N.of_nat (length b))
                    ++ snd (fold_left (fun acc i => let '(prev, out) := acc in (i, out ++ enc_sv (i - prev))) b (0, []))
             end in
  let pgs := concat (map (fun op =>
                            let '(off, pg) := op in
                            match pg with
                            | [] => []
                            | _ => enc_flag t sub_contiguous ++ enc_uv (N.of_nat (length pg))
                                   ++ enc_sv (index_of (minPage s' + Z.of_nat off) 0) ++ enc_sv 1
                                   ++ concat (map enc_w pg)
                            end) (combine (seq 0 (length (pages s'))) (pages s'))) in
  (s', buf ++ pgs).

Definition enc_store (s : store) (t : N) : store * list byte :=
  match s with
  | SD d => (s, enc_dense d t)
  | SS m => (s, enc_sparse (sp_foreach x_visit m) t)
  | SP p => let '(p', b) := enc_pag p t in (SP p', b)
  end.

(* ---------- bin decoders ---------- *)
Inductive dres (A : Type) := DOk (a : A) (rest : list byte) | DErr (e : err) | DPanic.
Arguments DOk {A}. Arguments DErr {A}. Arguments DPanic {A}.
Definition dec_count (b : list byte) : Codec.res W :=
  match Varfloat.dec_vf b with
  | Ok x rest => Ok (f2q x) rest
  | Eof => Eof | Overflow32 => Overflow32
  end.

(* generic DecodeAndMergeWith of store.go; every iteration consumes at least one byte, so
   [length b] bounds the number of iterations whatever numBins says *)
Fixpoint dec_idc_loop (fuel : nat) (n : N) (index : Z) (s : store) (b : list byte) : dres store :=
  if (n =? 0)%N then DOk s b else
  match fuel with
  | O => DErr EEof
  | S f =>
    match dec_sv b with
    | Ok d b1 =>
      match dec_count b1 with
      | Ok c b2 => let index := wrap_i64 (index + d) in
                   match st_addw s index c with
                   | Some s' => dec_idc_loop f (n - 1)%N index s' b2
                   | None => DPanic
                   end
      | _ => DErr EEof
      end
    | _ => DErr EEof
    end
  end.
Fixpoint dec_id_loop (fuel : nat) (n : N) (index : Z) (s : store) (b : list byte) : dres store :=
  if (n =? 0)%N then DOk s b else
  match fuel with
  | O => DErr EEof
  | S f =>
    match dec_sv b with
    | Ok d b1 => let index := wrap_i64 (index + d) in
                 match st_add s index with
                 | Some s' => dec_id_loop f (n - 1)%N index s' b1
                 | None => DPanic
                 end
    | _ => DErr EEof
    end
  end.
Fixpoint dec_cc_loop (fuel : nat) (n : N) (index delta : Z) (s : store) (b : list byte) : dres store :=
  if (n =? 0)%N then DOk s b else
  match fuel with
  | O => DErr EEof
  | S f =>
    match dec_count b with
    | Ok c b1 => match st_addw s index c with
                 | Some s' => dec_cc_loop f (n - 1)%N (wrap_i64 (index + delta)) delta s' b1
                 | None => DPanic
                 end
    | _ => DErr EEof
    end
  end.

Definition dec_bins_generic (s : store) (sub : N) (b : list byte) : dres store :=
  if (sub =? sub_idx_deltas_counts)%N then
    match dec_uv b with Ok n b1 => dec_idc_loop (S (length b1)) n 0 s b1 | _ => DErr EEof end
  else if (sub =? sub_idx_deltas)%N then
    match dec_uv b with Ok n b1 => dec_id_loop (S (length b1)) n 0 s b1 | _ => DErr EEof end
  else if (sub =? sub_contiguous)%N then
    match dec_uv b with
    | Ok n b1 => match dec_sv b1 with
                 | Ok i b2 => match dec_sv b2 with
                              | Ok d b3 => dec_cc_loop (S (length b3)) n i d s b3
                              | _ => DErr EEof end
                 | _ => DErr EEof end
    | _ => DErr EEof
    end
  else DErr EUnknownBins.

(* specialised decoders of the paginated store: collect, then hand over (content-wise the same adds) *)
Fixpoint collect_ids (fuel : nat) (n : N) (index : Z) (acc : list Z) (b : list byte) : dres (list Z) :=
  if (n =? 0)%N then DOk (rev acc) b else
  match fuel with
  | O => DErr EEof
  | S f => match dec_sv b with
           | Ok d b1 => let index := wrap_i64 (index + d) in collect_ids f (n - 1)%N index (index :: acc) b1
           | _ => DErr EEof
           end
  end.
Fixpoint collect_cc (fuel : nat) (n : N) (index delta : Z) (acc : list (Z * W)) (b : list byte) : dres (list (Z * W)) :=
  if (n =? 0)%N then DOk (rev acc) b else
  match fuel with
  | O => DErr EEof
  | S f => match dec_count b with
           | Ok c b1 => collect_cc f (n - 1)%N (wrap_i64 (index + delta)) delta ((index, c) :: acc) b1
           | _ => DErr EEof
           end
  end.
Definition dec_bins_pag (p : pag) (sub : N) (b : list byte) : dres store :=
  if (sub =? sub_idx_deltas)%N then
    match dec_uv b with
    | Ok n b1 => match collect_ids (S (length b1)) n 0 [] b1 with
                 | DOk l rest => DOk (SP (p_dec_indexes pgrow8 worth32 x_full ZSort.sort p l)) rest
                 | DErr e => DErr e | DPanic => DPanic end
    | _ => DErr EEof
    end
  else if (sub =? sub_contiguous)%N then
    match dec_uv b with
    | Ok n b1 => match dec_sv b1 with
                 | Ok i b2 => match dec_sv b2 with
                              | Ok d b3 => match collect_cc (S (length b3)) n i d [] b3 with
                                           | DOk l rest => DOk (SP (p_dec_contiguous pgrow8 p l)) rest
                                           | DErr e => DErr e | DPanic => DPanic end
                              | _ => DErr EEof end
                 | _ => DErr EEof end
    | _ => DErr EEof
    end
  else dec_bins_generic (SP p) sub b.

Definition dec_bins (s : store) (sub : N) (b : list byte) : dres store :=
  match s with SP p => dec_bins_pag p sub b | _ => dec_bins_generic s sub b end.

(* store-level decode of a whole byte string: flag, block, flag, block, ... (harness loop) *)
Fixpoint dec_store_all (fuel : nat) (s : store) (b : list byte) : dres store :=
  match b with
  | [] => DOk s []
  | f :: b1 =>
    match fuel with
    | O => DErr EOther
    | S k => match dec_bins s (flag_sub f) b1 with
             | DOk s' rest => dec_store_all k s' rest
             | r => r
             end
    end
  end.

(* ---------- mapping block ---------- *)
Definition enc_mapping (m : mapid) : list byte :=
  [mk_flag ft_mapping (mk_kind m)] ++ Varfloat.enc_f64le (mk_gamma m) ++ Varfloat.enc_f64le (mk_off m).
(* mapping.Decode: kinds 0 (log), 1 (linear), 3 (cubic); gamma <= 1 is refused by the constructors *)
Definition dec_mapping (f : byte) (b : list byte) : dres mapid :=
  let k := N.shiftr f 2 in
  if ((k =? 0) || (k =? 1) || (k =? 3))%N then
    match Varfloat.dec_f64le b with
    | Ok g b1 => match Varfloat.dec_f64le b1 with
                 | Ok o b2 => if fle g f64_one then DErr EBadGamma else DOk {| mk_kind := k; mk_gamma := g; mk_off := o |} b2
                 | _ => DErr EEof end
    | _ => DErr EEof
    end
  else DErr EUnknownMapping.

(* ---------- sketch ---------- *)
Record wfixes := { fD2 : bool; fD3 : bool }.
Section WireSketch.
Variable wx : wfixes.

Definition enc_sketch (s : sketch) (omit : bool) : sketch * list byte :=
  let stats := match sk_stats s with
               | None => []
               | Some t =>
                 (if feq (su_count t) f64_zero then [] else [flag_count] ++ Varfloat.enc_vf (su_count t))
                 ++ (if feq (su_get_sum t) f64_zero then [] else [flag_sum] ++ Varfloat.enc_f64le (su_get_sum t))
                 ++ (if feq (su_min t) f64_pinf then [] else [flag_min] ++ Varfloat.enc_f64le (su_min t))
                 ++ (if feq (su_max t) f64_ninf then [] else [flag_max] ++ Varfloat.enc_f64le (su_max t))
               end in
  let zero := if weqb (sk_zero s) w0 then [] else [flag_zero_count] ++ enc_w (sk_zero s) in
  let mp := if omit then [] else enc_mapping (sk_map s) in
  let '(p', bp) := enc_store (sk_pos s) ft_positive in
  let '(n', bn) := enc_store (sk_neg s) ft_negative in
  (with_stores s p' n', stats ++ zero ++ mp ++ bp ++ bn).

(* the receiver of a decode: the mapping may still be missing (nil) *)
Record dsketch := { ds_map : option mapid; ds_pos : store; ds_neg : store; ds_zero : W; ds_stats : option summary }.

Definition skip8 (b : list byte) : dres unit :=
  if (length b <? 8)%nat then DErr EEof else DOk tt (skipn 8 b).

(* fallback for the sketch-feature flags that are not the zero count *)
Definition dec_feature (s : dsketch) (f : byte) (b : list byte) : dres dsketch :=
  match ds_stats s with
  | None =>     (* plain decoder: exact summary statistics are ignored *)
    if (f =? flag_count)%N then
      if fD2 wx then match Varfloat.dec_vf b with Ok _ rest => DOk s rest | _ => DErr EEof end
      else match skip8 b with DOk _ rest => DOk s rest | DErr e => DErr e | DPanic => DPanic end
    else if ((f =? flag_sum) || (f =? flag_min) || (f =? flag_max))%N then
      match skip8 b with DOk _ rest => DOk s rest | DErr e => DErr e | DPanic => DPanic end
    else DErr EUnknownFlag
  | Some t =>
    let upd t' := {| ds_map := ds_map s; ds_pos := ds_pos s; ds_neg := ds_neg s; ds_zero := ds_zero s; ds_stats := Some t' |} in
    if (f =? flag_count)%N then
      match Varfloat.dec_vf b with Ok c rest => DOk (upd (su_add_to_count t c)) rest | _ => DErr EEof end
    else if (f =? flag_sum)%N then
      match Varfloat.dec_f64le b with Ok x rest => DOk (upd (su_add_to_sum t x)) rest | _ => DErr EEof end
    else if ((f =? flag_min) || (f =? flag_max))%N then
      match Varfloat.dec_f64le b with Ok x rest => DOk (upd (su_add t x f64_zero)) rest | _ => DErr EEof end
    else DErr EUnknownFlag
  end.

Fixpoint dec_blocks (fuel : nat) (s : dsketch) (b : list byte) : dres dsketch :=
  match b with
  | [] => DOk s []
  | f :: b1 =>
    match fuel with
    | O => DErr EOther
    | S k =>
      let t := flag_type f in
      if (t =? ft_positive)%N then
        match dec_bins (ds_pos s) (flag_sub f) b1 with
        | DOk p' rest => dec_blocks k {| ds_map := ds_map s; ds_pos := p'; ds_neg := ds_neg s; ds_zero := ds_zero s; ds_stats := ds_stats s |} rest
        | DErr e => if fD3 wx then DErr e else DOk s []    (* before the repair the error was dropped: success with partial content (approximation) *)
        | DPanic => DPanic
        end
      else if (t =? ft_negative)%N then
        match dec_bins (ds_neg s) (flag_sub f) b1 with
        | DOk n' rest => dec_blocks k {| ds_map := ds_map s; ds_pos := ds_pos s; ds_neg := n'; ds_zero := ds_zero s; ds_stats := ds_stats s |} rest
        | DErr e => if fD3 wx then DErr e else DOk s []
        | DPanic => DPanic
        end
      else if (t =? ft_mapping)%N then
        match dec_mapping f b1 with
        | DOk m rest =>
          match ds_map s with
          | Some m0 => if map_equals m0 m
                       then dec_blocks k {| ds_map := Some m; ds_pos := ds_pos s; ds_neg := ds_neg s; ds_zero := ds_zero s; ds_stats := ds_stats s |} rest
                       else DErr EMismatch
          | None => dec_blocks k {| ds_map := Some m; ds_pos := ds_pos s; ds_neg := ds_neg s; ds_zero := ds_zero s; ds_stats := ds_stats s |} rest
          end
        | DErr e => DErr e | DPanic => DPanic
        end
      else if (f =? flag_zero_count)%N then
        match dec_count b1 with
        | Ok z rest => dec_blocks k {| ds_map := ds_map s; ds_pos := ds_pos s; ds_neg := ds_neg s; ds_zero := wadd (ds_zero s) z; ds_stats := ds_stats s |} rest
        | _ => DErr EEof
        end
      else
        match dec_feature s f b1 with
        | DOk s' rest => dec_blocks k s' rest
        | r => r
        end
    end
  end.

Definition ds_plain_empty (s : dsketch) : bool := weqb (ds_zero s) w0 && st_is_empty (ds_pos s) && st_is_empty (ds_neg s).
(* DecodeAndMergeWith of either variant *)
Definition dec_sketch_into (s : dsketch) (b : list byte) : dres dsketch :=
  match dec_blocks (S (length b)) s b with
  | DOk s' rest =>
    match ds_map s' with
    | None => DErr EMissingMapping
    | Some _ =>
      match ds_stats s' with
      | Some t => if feq (su_count t) f64_zero && negb (ds_plain_empty s') then DErr EMissingStats else DOk s' rest
      | None => DOk s' rest
      end
    end
  | r => r
  end.

Definition ds_of_sketch (s : sketch) : dsketch :=
  {| ds_map := Some (sk_map s); ds_pos := sk_pos s; ds_neg := sk_neg s; ds_zero := sk_zero s; ds_stats := sk_stats s |}.
Definition ds_fresh (m : option mapid) (k : kind) (exact : bool) : dsketch :=
  {| ds_map := m; ds_pos := st_new k; ds_neg := st_new k; ds_zero := w0; ds_stats := if exact then Some su_new else None |}.
Definition sketch_of_ds (s : dsketch) : option sketch :=
  match ds_map s with
  | Some m => Some {| sk_map := m; sk_pos := ds_pos s; sk_neg := ds_neg s; sk_zero := ds_zero s; sk_stats := ds_stats s |}
  | None => None
  end.
End WireSketch.
