(* C09 model: the protobuf forms of sketches-go.
     ddsketch/pb/ddsketch.proto                       the schema (messages DDSketch, IndexMapping, Store,
                                                      Store.BinCountsEntry = map<sint32,double> entry)
     ddsketch/pb/sketchpb/ddsketch.proto_builder.go   the allocation-free streaming writer
     ddsketch/store/store.go  MergeWithProto          reading a Store message into a store
     dense_store.go / sparse.go / buffered_paginated.go / ddsketch.go / mapping/*.go
                                                      ToProto, EncodeProto, FromProto
   Sections: (a) messages  (b) wire primitives  (c) streaming writer (and the proto.Marshal form)
             (d) parser for the schema  (e) semantics on Layer A (Spec/Bins.v).
   Bytes are [N] below 256 (Codec.byte), byte strings are lists.  Definitions only: the file is
   extracted and run against the implementation's bytes; proofs live in Wire/ProtoProofs.v.

   Wire choices of the Go builder (read off ddsketch.proto_builder.go and the EncodeProto callers):
     - every tag fits one byte: DDSketch 0x0a 0x12 0x1a 0x21, IndexMapping 0x09 0x11 0x18,
       Store 0x0a 0x11 0x18, entry 0x08 0x11;
     - Store.contiguousBinCounts is written NON-PACKED: one (0x11, fixed64) pair per element
       (the schema says [packed = true]; proto.Marshal packs; parsers must accept both);
     - Store.contiguousBinIndexOffset (SetContiguousBinIndexOffset) is written whenever called, zero
       included; DenseStore.EncodeProto calls it after the counts iff the store is not empty;
       the sparse and paginated stores never call it;
     - map entries: nested message (0x0a, length, payload), payload = key (0x08, zig-zag varint) then
       value (0x11, fixed64), both always written;
     - IndexMapping: gamma and indexOffset always written, interpolation skipped when 0;
     - DDSketch.EncodeProto order: mapping (1), zeroCount (4, always written, zero included),
       negativeValues (3), positiveValues (2); the two Store sub-messages are always written, with
       length 0 for an empty store. *)
From Coq Require Import Bool NArith ZArith List.
From SK Require Import Base.Prelude.
From SK Require Import Base.F64.
From SK Require Import Codec.Codec.
From SK Require Import Spec.Bins.
Import ListNotations.
Local Open Scope N_scope.

(* ================================================================== *)
(** * (a) messages                                                     *)
(* ================================================================== *)
(* map<sint32,double> as an association list in emission order; see [pb_map_view] for Go's map view *)
Record pb_store := { bin_counts : list (Z * f64); contiguous_counts : list f64; contiguous_offset : Z }.
Record pb_mapping := { pm_gamma : f64; pm_offset : f64; pm_interp : N }.   (* enum as the uint32 image of its int32 *)
Record pb_sketch := { ps_mapping : option pb_mapping; ps_pos : option pb_store; ps_neg : option pb_store; ps_zero : f64 }.

Definition pb_store_empty : pb_store :=
  {| bin_counts := []; contiguous_counts := []; contiguous_offset := 0%Z |}.
Definition pb_mapping_default : pb_mapping :=
  {| pm_gamma := f64_zero; pm_offset := f64_zero; pm_interp := 0 |}.
Definition pb_sketch_default : pb_sketch :=
  {| ps_mapping := None; ps_pos := None; ps_neg := None; ps_zero := f64_zero |}.

(* What proto.Unmarshal stores in a Go map: the last entry of every key wins. *)
Fixpoint pb_map_view (l : list (Z * f64)) : list (Z * f64) :=
  match l with
  | [] => []
  | kv :: tl => if existsb (fun kv' => (fst kv' =? fst kv)%Z) tl then pb_map_view tl else kv :: pb_map_view tl
  end.

(* ================================================================== *)
(** * (b) wire primitives                                              *)
(* ================================================================== *)
(* protowire.AppendVarint: base-128, least significant group first, at most 10 bytes for a uint64 *)
Fixpoint pb_enc_varint_loop (fuel : nat) (v : N) : list byte :=
  match fuel with
  | O => [v]
  | S f => if v <? 128 then [v] else N.lor (N.land v 127) 128 :: pb_enc_varint_loop f (N.shiftr v 7)
  end.
Definition pb_enc_varint (v : N) : list byte := pb_enc_varint_loop 9 v.

(* protowire.ConsumeVarint: error on truncation, on an 11th byte and on a value >= 2^64 *)
Fixpoint pb_dec_varint_loop (fuel : nat) (bs : list byte) : option (N * list byte) :=
  match bs with
  | [] => None
  | b :: r =>
    if b <? 128 then Some (b, r)
    else match fuel with
         | O => None
         | S f => match pb_dec_varint_loop f r with
                  | Some (v, r') => Some (N.land b 127 + 128 * v, r')
                  | None => None
                  end
         end
  end.
Definition pb_dec_varint (bs : list byte) : option (N * list byte) :=
  match pb_dec_varint_loop 9 bs with
  | Some (v, r) => if v <? W64 then Some (v, r) else None
  | None => None
  end.

(* protowire.EncodeZigZag(int64(v)) = uint64(v<<1) ^ uint64(v>>63), on two's complement integers *)
Definition pb_zigzag (v : Z) : N := Z.to_N (Z.lxor (Z.shiftl v 1) (Z.shiftr v 63)).
(* sint32 field: int32(protowire.DecodeZigZag(x & 0xFFFFFFFF)), DecodeZigZag x = (x>>1) ^ -(x&1) *)
Definition pb_unzigzag32 (n : N) : Z :=
  let x := N.land n 4294967295 in
  Z.lxor (Z.of_N (N.shiftr x 1)) (- Z.of_N (N.land x 1)).

(* fixed64 / fixed32, little endian *)
Definition pb_enc_fixed64 (bits : N) : list byte := le_bytes 8 bits.
Definition pb_dec_fixed64 (bs : list byte) : option (N * list byte) :=
  match bs with
  | b0 :: b1 :: b2 :: b3 :: b4 :: b5 :: b6 :: b7 :: r => Some (le_value [b0; b1; b2; b3; b4; b5; b6; b7], r)
  | _ => None
  end.
Definition pb_dec_fixed32 (bs : list byte) : option (N * list byte) :=
  match bs with
  | b0 :: b1 :: b2 :: b3 :: r => Some (le_value [b0; b1; b2; b3], r)
  | _ => None
  end.
Definition pb_enc_double (v : f64) : list byte := pb_enc_fixed64 (bits_of_f64 v).
Definition pb_dec_double (bs : list byte) : option (f64 * list byte) :=
  match pb_dec_fixed64 bs with Some (x, r) => Some (f64_of_bits x, r) | None => None end.

(* tags *)
Definition WT_VARINT : N := 0.
Definition WT_I64 : N := 1.
Definition WT_LEN : N := 2.
Definition WT_I32 : N := 5.
Definition pb_tag (fld wt : N) : N := N.lor (N.shiftl fld 3) wt.
Definition pb_enc_tag (fld wt : N) : list byte := pb_enc_varint (pb_tag fld wt).
Definition pb_max_field : N := 536870911.        (* protowire.MaxValidNumber = 2^29 - 1 *)

(* tail-recursive list helpers (the extracted parser runs on megabyte inputs): length as a nat
   (fuel) and as an N (length prefix), reversal *)
Fixpoint pb_len_acc (l : list byte) (acc : nat) : nat :=
  match l with [] => acc | _ :: tl => pb_len_acc tl (S acc) end.
Definition pb_length (l : list byte) : nat := pb_len_acc l 0.
Fixpoint pb_nlen_acc (l : list byte) (acc : N) : N :=
  match l with [] => acc | _ :: tl => pb_nlen_acc tl (N.succ acc) end.
Definition pb_nlength (l : list byte) : N := pb_nlen_acc l 0.
Definition pb_rev {A : Type} (l : list A) : list A := rev_append l [].
(* l ++ m without recursion depth |l|: used where l can be a whole Store message *)
Definition pb_app (l m : list byte) : list byte := rev_append (pb_rev l) m.

(* length-delimited field *)
Definition pb_enc_len (fld : N) (payload : list byte) : list byte :=
  pb_enc_tag fld WT_LEN ++ pb_enc_varint (pb_nlength payload) ++ payload.

(* the first n bytes and the rest; None when fewer than n bytes are left (never builds a unary n) *)
Fixpoint pb_take_loop (l : list byte) (n : N) (acc : list byte) : option (list byte * list byte) :=
  match n with
  | 0 => Some (pb_rev acc, l)
  | _ => match l with
         | [] => None
         | x :: tl => pb_take_loop tl (N.pred n) (x :: acc)
         end
  end.
Definition pb_take (n : N) (l : list byte) : option (list byte * list byte) := pb_take_loop l n [].

(* one field: number, value by wire type, remaining bytes.
   Field numbers outside 1..2^29-1 and the group wire types 3/4 (and 6, 7) are errors
   (the Go library skips a well-formed unknown group: not modelled). *)
Inductive pb_val := PVarint (v : N) | PI64 (bits : N) | PLen (payload : list byte) | PI32 (bits : N).
Definition pb_dec_field (bs : list byte) : option (N * pb_val * list byte) :=
  match pb_dec_varint bs with
  | None => None
  | Some (tag, r) =>
    let fld := N.shiftr tag 3 in
    if (fld =? 0) || (pb_max_field <? fld) then None else
    match N.land tag 7 with
    | 0 => match pb_dec_varint r with Some (v, r') => Some (fld, PVarint v, r') | None => None end
    | 1 => match pb_dec_fixed64 r with Some (x, r') => Some (fld, PI64 x, r') | None => None end
    | 2 => match pb_dec_varint r with
           | Some (n, r') => match pb_take n r' with Some (p, r'') => Some (fld, PLen p, r'') | None => None end
           | None => None
           end
    | 5 => match pb_dec_fixed32 r with Some (x, r') => Some (fld, PI32 x, r') | None => None end
    | _ => None
    end
  end.

(* a message = a sequence of fields folded into an accumulator; every field consumes at least one
   byte, so the byte count is enough fuel *)
Fixpoint pb_fields_loop {A : Type} (step : A -> N -> pb_val -> option A) (fuel : nat) (bs : list byte) (a : A)
  : option A :=
  match bs with
  | [] => Some a
  | _ :: _ =>
    match fuel with
    | O => None
    | S f =>
      match pb_dec_field bs with
      | None => None
      | Some (fld, val, r) =>
        match step a fld val with
        | None => None
        | Some a' => pb_fields_loop step f r a'
        end
      end
    end
  end.
Definition pb_fold_fields {A : Type} (step : A -> N -> pb_val -> option A) (bs : list byte) (a : A) : option A :=
  pb_fields_loop step (pb_length bs) bs a.

(* ================================================================== *)
(** * (c) the streaming writer (ddsketch.proto_builder.go)             *)
(* ================================================================== *)
(* Store_BinCountsEntryBuilder: SetKey then SetValue, as every caller does *)
Definition stream_entry (k : Z) (v : f64) : list byte :=
  pb_enc_tag 1 WT_VARINT ++ pb_enc_varint (pb_zigzag k) ++ pb_enc_tag 2 WT_I64 ++ pb_enc_double v.

(* the calls a store makes on its StoreBuilder *)
Inductive store_op :=
| OpBin (k : Z) (v : f64)          (* AddBinCounts(func(w){ w.SetKey(k); w.SetValue(v) }) *)
| OpCount (v : f64)                (* AddContiguousBinCounts(v) *)
| OpOffset (o : Z).                (* SetContiguousBinIndexOffset(o) *)
Definition stream_store_op (op : store_op) : list byte :=
  match op with
  | OpBin k v => pb_enc_len 1 (stream_entry k v)
  | OpCount v => pb_enc_tag 2 WT_I64 ++ pb_enc_double v
  | OpOffset o => pb_enc_tag 3 WT_VARINT ++ pb_enc_varint (pb_zigzag o)
  end.
Definition stream_store_ops (ops : list store_op) : list byte := concat (map stream_store_op ops).

(* The calls that emit a message: entries in list order, then the counts, then the offset.
   The offset is written iff there are contiguous counts or it is not zero: this is exactly
   what the three EncodeProto do (dense non-empty: counts then offset, zero included; dense
   empty / sparse / paginated: no counts, no offset). *)
Definition store_writes_offset (p : pb_store) : bool :=
  match contiguous_counts p with [] => negb (contiguous_offset p =? 0)%Z | _ :: _ => true end.
Definition store_ops_of (p : pb_store) : list store_op :=
  map (fun kv => OpBin (fst kv) (snd kv)) (bin_counts p)
  ++ map OpCount (contiguous_counts p)
  ++ (if store_writes_offset p then [OpOffset (contiguous_offset p)] else []).
Definition stream_store (p : pb_store) : list byte := stream_store_ops (store_ops_of p).

(* IndexMappingBuilder: SetGamma, SetIndexOffset, SetInterpolation (skipped when 0) *)
Definition stream_mapping (m : pb_mapping) : list byte :=
  pb_enc_tag 1 WT_I64 ++ pb_enc_double (pm_gamma m)
  ++ pb_enc_tag 2 WT_I64 ++ pb_enc_double (pm_offset m)
  ++ (if pm_interp m =? 0 then [] else pb_enc_tag 3 WT_VARINT ++ pb_enc_varint (pm_interp m)).

(* DDSketch.EncodeProto: SetMapping, SetZeroCount, SetNegativeValues, SetPositiveValues.
   An absent sub-message ([None]) = the corresponding Set call is not made (EncodeProto makes all). *)
Definition stream_opt {A : Type} (fld : N) (f : A -> list byte) (o : option A) : list byte :=
  match o with None => [] | Some a => pb_enc_len fld (f a) end.
Definition stream_sketch (s : pb_sketch) : list byte :=
  stream_opt 1 stream_mapping (ps_mapping s)
  ++ (pb_enc_tag 4 WT_I64 ++ pb_enc_double (ps_zero s))
  ++ pb_app (stream_opt 3 stream_store (ps_neg s))
            (stream_opt 2 stream_store (ps_pos s)).

(* ---- proto.Marshal of the generated message types (for the cross-check of the parser against the
   real library): fields by number, repeated doubles packed, zero scalars omitted (a double is
   omitted iff its bit pattern is 0), map entries always carry key and value; entry order = list order ---- *)
Definition marshal_double_nz (fld : N) (v : f64) : list byte :=
  if bits_of_f64 v =? 0 then [] else pb_enc_tag fld WT_I64 ++ pb_enc_double v.
Definition marshal_store (p : pb_store) : list byte :=
  pb_app (concat (map (fun kv => pb_enc_len 1 (stream_entry (fst kv) (snd kv))) (bin_counts p)))
  (pb_app (match contiguous_counts p with
           | [] => []
           | _ :: _ => pb_enc_len 2 (concat (map pb_enc_double (contiguous_counts p)))
           end)
  (if (contiguous_offset p =? 0)%Z then [] else pb_enc_tag 3 WT_VARINT ++ pb_enc_varint (pb_zigzag (contiguous_offset p)))).
Definition marshal_mapping (m : pb_mapping) : list byte :=
  marshal_double_nz 1 (pm_gamma m) ++ marshal_double_nz 2 (pm_offset m)
  ++ (if pm_interp m =? 0 then [] else pb_enc_tag 3 WT_VARINT ++ pb_enc_varint (pm_interp m)).
Definition marshal_sketch (s : pb_sketch) : list byte :=
  stream_opt 1 marshal_mapping (ps_mapping s)
  ++ pb_app (stream_opt 2 marshal_store (ps_pos s))
    (pb_app (stream_opt 3 marshal_store (ps_neg s))
            (marshal_double_nz 4 (ps_zero s))).

(* ================================================================== *)
(** * (d) parser for the schema                                        *)
(* ================================================================== *)
(* Fields in any order; unknown fields, and known fields carrying another wire type, are skipped;
   scalars: last wins; repeated: concatenation in wire order; embedded messages met several times
   are merged; absent fields keep the proto3 defaults. *)

(* map entry: key = 1 (sint32), value = 2 (double) *)
Definition entry_step (kv : Z * f64) (fld : N) (val : pb_val) : option (Z * f64) :=
  match fld, val with
  | 1, PVarint x => Some (pb_unzigzag32 x, snd kv)
  | 2, PI64 b => Some (fst kv, f64_of_bits b)
  | _, _ => Some kv
  end.
Definition parse_entry (bs : list byte) : option (Z * f64) := pb_fold_fields entry_step bs (0%Z, f64_zero).

(* packed repeated double: the doubles are pushed on the (reversed) accumulator *)
Fixpoint pb_dec_packed_loop (fuel : nat) (bs : list byte) (acc : list f64) : option (list f64) :=
  match bs with
  | [] => Some acc
  | _ :: _ =>
    match fuel with
    | O => None
    | S f => match pb_dec_double bs with
             | Some (v, r) => pb_dec_packed_loop f r (v :: acc)
             | None => None
             end
    end
  end.
Definition pb_dec_packed (bs : list byte) (acc : list f64) : option (list f64) :=
  pb_dec_packed_loop (pb_length bs) bs acc.

(* Store accumulator: both lists reversed *)
Record store_acc := { sa_bins : list (Z * f64); sa_counts : list f64; sa_off : Z }.
Definition store_acc0 : store_acc := {| sa_bins := []; sa_counts := []; sa_off := 0%Z |}.
Definition store_finish (a : store_acc) : pb_store :=
  {| bin_counts := pb_rev (sa_bins a); contiguous_counts := pb_rev (sa_counts a); contiguous_offset := sa_off a |}.
Definition store_step (a : store_acc) (fld : N) (val : pb_val) : option store_acc :=
  match fld, val with
  | 1, PLen p =>
    match parse_entry p with
    | Some e => Some {| sa_bins := e :: sa_bins a; sa_counts := sa_counts a; sa_off := sa_off a |}
    | None => None
    end
  | 2, PI64 b => Some {| sa_bins := sa_bins a; sa_counts := f64_of_bits b :: sa_counts a; sa_off := sa_off a |}
  | 2, PLen p =>
    match pb_dec_packed p (sa_counts a) with
    | Some cc => Some {| sa_bins := sa_bins a; sa_counts := cc; sa_off := sa_off a |}
    | None => None
    end
  | 3, PVarint x => Some {| sa_bins := sa_bins a; sa_counts := sa_counts a; sa_off := pb_unzigzag32 x |}
  | _, _ => Some a
  end.
Definition parse_store_acc (a : store_acc) (bs : list byte) : option store_acc := pb_fold_fields store_step bs a.
Definition parse_store (bs : list byte) : option pb_store := option_map store_finish (parse_store_acc store_acc0 bs).

(* IndexMapping; the enum is an int32: the varint is truncated to 32 bits *)
Definition mapping_step (m : pb_mapping) (fld : N) (val : pb_val) : option pb_mapping :=
  match fld, val with
  | 1, PI64 b => Some {| pm_gamma := f64_of_bits b; pm_offset := pm_offset m; pm_interp := pm_interp m |}
  | 2, PI64 b => Some {| pm_gamma := pm_gamma m; pm_offset := f64_of_bits b; pm_interp := pm_interp m |}
  | 3, PVarint x => Some {| pm_gamma := pm_gamma m; pm_offset := pm_offset m; pm_interp := N.land x 4294967295 |}
  | _, _ => Some m
  end.
Definition parse_mapping_acc (m : pb_mapping) (bs : list byte) : option pb_mapping := pb_fold_fields mapping_step bs m.
Definition parse_mapping (bs : list byte) : option pb_mapping := parse_mapping_acc pb_mapping_default bs.

(* DDSketch *)
Record sketch_acc := { ka_mapping : option pb_mapping; ka_pos : option store_acc; ka_neg : option store_acc; ka_zero : f64 }.
Definition sketch_acc0 : sketch_acc := {| ka_mapping := None; ka_pos := None; ka_neg := None; ka_zero := f64_zero |}.
Definition sketch_finish (a : sketch_acc) : pb_sketch :=
  {| ps_mapping := ka_mapping a; ps_pos := option_map store_finish (ka_pos a);
     ps_neg := option_map store_finish (ka_neg a); ps_zero := ka_zero a |}.
Definition or_default {A : Type} (d : A) (o : option A) : A := match o with Some a => a | None => d end.
Definition sketch_step (a : sketch_acc) (fld : N) (val : pb_val) : option sketch_acc :=
  match fld, val with
  | 1, PLen p =>
    match parse_mapping_acc (or_default pb_mapping_default (ka_mapping a)) p with
    | Some m => Some {| ka_mapping := Some m; ka_pos := ka_pos a; ka_neg := ka_neg a; ka_zero := ka_zero a |}
    | None => None
    end
  | 2, PLen p =>
    match parse_store_acc (or_default store_acc0 (ka_pos a)) p with
    | Some s => Some {| ka_mapping := ka_mapping a; ka_pos := Some s; ka_neg := ka_neg a; ka_zero := ka_zero a |}
    | None => None
    end
  | 3, PLen p =>
    match parse_store_acc (or_default store_acc0 (ka_neg a)) p with
    | Some s => Some {| ka_mapping := ka_mapping a; ka_pos := ka_pos a; ka_neg := Some s; ka_zero := ka_zero a |}
    | None => None
    end
  | 4, PI64 b => Some {| ka_mapping := ka_mapping a; ka_pos := ka_pos a; ka_neg := ka_neg a; ka_zero := f64_of_bits b |}
  | _, _ => Some a
  end.
Definition parse_sketch (bs : list byte) : option pb_sketch :=
  option_map sketch_finish (pb_fold_fields sketch_step bs sketch_acc0).

(* ================================================================== *)
(** * (e) semantics on Layer A                                         *)
(* ================================================================== *)
(* Weights through [f2q]: NaN and the infinities are outside Layer A (read as 0). *)
Fixpoint contig_content (o : Z) (l : list f64) : list (Z * W) :=
  match l with [] => [] | x :: tl => (o, f2q x) :: contig_content (o + 1)%Z tl end.
Definition entries_content (l : list (Z * f64)) : list (Z * W) := map (fun kv => (fst kv, f2q (snd kv))) l.
(* map entries, then the contiguous counts at offset + k *)
Definition store_content (p : pb_store) : list (Z * W) :=
  entries_content (bin_counts p) ++ contig_content (contiguous_offset p) (contiguous_counts p).
(* store.MergeWithProto: AddWithCount for every entry, then for every contiguous count
   (AddWithCount returns at once on a zero count: [badd0]) *)
Definition merge_with_proto (b : bins) (p : pb_store) : bins := bmerge_list b (store_content p).
(* the same on what proto.Unmarshal hands over (duplicate wire keys collapsed, last wins) *)
Definition merge_with_proto_go (b : bins) (p : pb_store) : bins :=
  merge_with_proto b {| bin_counts := pb_map_view (bin_counts p); contiguous_counts := contiguous_counts p;
                        contiguous_offset := contiguous_offset p |}.

(* ToProto of the sparse / paginated stores: one entry per bin, in the visiting order l *)
Definition to_proto_sparse (l : list (Z * W)) : pb_store :=
  {| bin_counts := map (fun kw => (fst kw, q2f (snd kw))) l; contiguous_counts := []; contiguous_offset := 0%Z |}.
(* ToProto of the dense stores: the window [min key, max key] with its interior zeros *)
Definition to_proto_dense (b : bins) : pb_store :=
  match min_key b, max_key b with
  | Some mn, Some mx =>
    {| bin_counts := []; contiguous_counts := map (fun k => q2f (get b k)) (zrange mn mx); contiguous_offset := mn |}
  | _, _ => pb_store_empty
  end.
(* the message of Dense.to_proto_d's result *)
Definition pb_of_dense_proto (r : option (Z * list W)) : pb_store :=
  match r with
  | None => pb_store_empty
  | Some (o, cells) => {| bin_counts := []; contiguous_counts := map q2f cells; contiguous_offset := o |}
  end.
(* IndexMapping.ToProto / DDSketch.ToProto assemble records; DDSketch.FromProtoWithStoreProvider: *)
Definition from_proto_stores (s : pb_sketch) : bins * bins * f64 :=
  (match ps_pos s with Some p => merge_with_proto [] p | None => [] end,
   match ps_neg s with Some p => merge_with_proto [] p | None => [] end,
   ps_zero s).
