(* Proofs about Wire/Proto.v (C09, the protobuf forms).
     Part A  Layer A: MergeWithProto o ToProto, mixed sparse + contiguous counts
     Part B  wire primitives: varint, zig-zag, fixed64, field framing with arbitrary trailing bytes
     Part C  the streaming writer read back by the parser: parse (stream m) = Some m
     Part D  the dense store model (Store/Dense.v) against to_proto_dense
     Part E  the proto.Marshal form (packed doubles, zero scalars omitted) read back by the parser
     Part F  end to end through the bytes
   Axioms: none for the integer / framing lemmas of Part B and for the statements of Part A that do
   not mention floats; every statement mentioning Flocq floats (f64, q2f, f2q, rnd64) reports the four
   real-number axioms of the standard library that Flocq's definitions themselves depend on.
   Imported facts about floats: f64_of_bits (bits_of_f64 v) = v and bits_of_f64 v < 2^64
   (Codec/VarfloatProofs.v), rnd64 (f2q x) = f2q x (Base/F64Proofs.v). *)
From Coq Require Import Bool NArith ZArith List Lia Permutation ZifyN ZifyNat ZifyBool.
From SK Require Import Base.Prelude.
From SK Require Import Base.F64.
From SK Require Import Codec.Codec.
From SK Require Import Spec.Bins.
From SK Require Import Spec.BinsProofs.
From SK Require Import Wire.Proto.
From SK Require Codec.CodecProofs.
From SK Require Codec.Varfloat.
From SK Require Codec.VarfloatProofs.
From SK Require Store.Dense.
From SK Require Store.DenseProofs.
From SK Require Base.F64Proofs.
Import ListNotations.
Local Open Scope Z_scope.

(* ================================================================== *)
(** * Part A: Layer A                                                  *)
(* ================================================================== *)

(* the weights of l are float64 values: rounding to binary64 and back is the identity *)
Definition f64_weights (l : list (Z * W)) : Prop := Forall (fun kw => rnd64 (snd kw) = snd kw) l.
Definition pb_nonneg (p : pb_store) : Prop := nonneg (store_content p).

Lemma rnd64_w0 : rnd64 w0 = w0.
Proof. vm_compute. reflexivity. Qed.

Lemma f64_weights_perm l l' : Permutation l l' -> f64_weights l -> f64_weights l'.
Proof. intros Hp H. unfold f64_weights in *. eapply Permutation_Forall; eassumption. Qed.

Lemma f64_weights_get b j : f64_weights b -> rnd64 (get b j) = get b j.
Proof.
  intros H. induction b as [|[k w] tl IH]; [exact rnd64_w0|].
  inversion H as [|x l Hx Hl]; subst. cbn [get]. destruct (j =? k); [exact Hx|exact (IH Hl)].
Qed.

(* the values of float64s are float64 values (Base/F64Proofs.v: rnd64 (f2q x) = f2q x) *)
Lemma f64_weights_floats l : Forall (fun kw => exists x : f64, snd kw = f2q x) l -> f64_weights l.
Proof.
  intros H. unfold f64_weights. eapply Forall_impl; [|exact H].
  intros kw [x Hx]. rewrite Hx. apply F64Proofs.rnd64_f2q.
Qed.
Lemma f64_weights_entries (lf : list (Z * f64)) : f64_weights (entries_content lf).
Proof.
  apply f64_weights_floats. unfold entries_content. apply Forall_forall. intros kw Hin.
  apply in_map_iff in Hin. destruct Hin as [kv [<- _]]. exists (snd kv). reflexivity.
Qed.

(* ---- the content of the two ToProto forms ---- *)
Lemma content_sparse l : f64_weights l -> store_content (to_proto_sparse l) = l.
Proof.
  intros H. unfold store_content, to_proto_sparse, entries_content.
  cbn [bin_counts contiguous_counts contiguous_offset contig_content]. rewrite app_nil_r, map_map.
  induction l as [|[k w] tl IH]; [reflexivity|].
  inversion H as [|x l Hx Hl]; subst. cbn [map fst snd] in *. rewrite (IH Hl).
  unfold rnd64 in Hx. rewrite Hx. reflexivity.
Qed.

Lemma contig_content_seq (g : Z -> f64) (o : Z) : forall n s,
  contig_content (o + Z.of_nat s) (map (fun k => g (o + Z.of_nat k)) (seq s n)) =
  map (fun k => (o + Z.of_nat k, f2q (g (o + Z.of_nat k)))) (seq s n).
Proof.
  induction n as [|n IH]; intros s; [reflexivity|].
  cbn [seq map contig_content]. f_equal.
  replace (o + Z.of_nat s + 1) with (o + Z.of_nat (S s)) by lia. apply IH.
Qed.

Lemma contig_content_zrange (g : Z -> f64) lo hi :
  contig_content lo (map g (zrange lo hi)) = map (fun k => (k, f2q (g k))) (zrange lo hi).
Proof.
  unfold zrange. rewrite !map_map.
  pose proof (contig_content_seq g lo (Z.to_nat (hi - lo + 1)) 0) as H.
  replace (lo + Z.of_nat 0) with lo in H by lia. exact H.
Qed.

Lemma content_dense b mn mx :
  f64_weights b -> min_key b = Some mn -> max_key b = Some mx ->
  store_content (to_proto_dense b) = map (fun k => (k, get b k)) (zrange mn mx).
Proof.
  intros H Hmn Hmx. unfold store_content, to_proto_dense. rewrite Hmn, Hmx.
  cbn [bin_counts contiguous_counts contiguous_offset entries_content map app].
  rewrite (contig_content_zrange (fun k => q2f (get b k))).
  apply map_ext. intros k. f_equal. exact (f64_weights_get b k H).
Qed.

Lemma content_dense_nil : store_content (to_proto_dense []) = [].
Proof. reflexivity. Qed.

(* weight a tabulated range puts on index j *)
Lemma lsum_seq (f : Z -> W) (o j : Z) : forall n s,
  lsum (map (fun k => (o + Z.of_nat k, f (o + Z.of_nat k))) (seq s n)) j =
  if (o + Z.of_nat s <=? j) && (j <? o + Z.of_nat s + Z.of_nat n) then f j else w0.
Proof.
  induction n as [|n IH]; intros s.
  - cbn [seq map]. destruct (_ && _) eqn:E; [lia|reflexivity].
  - cbn [seq map]. unfold lsum in *. rewrite gsum_cons, IH.
    destruct (Z.eqb_spec j (o + Z.of_nat s)) as [E|E].
    + subst j.
      destruct ((o + Z.of_nat (S s) <=? o + Z.of_nat s) && _) eqn:E1; [lia|].
      destruct ((o + Z.of_nat s <=? o + Z.of_nat s) && _) eqn:E2; [apply wadd_0_r|lia].
    + destruct ((o + Z.of_nat (S s) <=? j) && _) eqn:E1;
        destruct ((o + Z.of_nat s <=? j) && _) eqn:E2; try reflexivity; lia.
Qed.
Lemma lsum_zrange (f : Z -> W) lo hi j :
  lsum (map (fun k => (k, f k)) (zrange lo hi)) j = if (lo <=? j) && (j <=? hi) then f j else w0.
Proof.
  unfold zrange. rewrite map_map.
  pose proof (lsum_seq f lo j (Z.to_nat (hi - lo + 1)) 0) as H. cbv beta in H. rewrite H.
  destruct ((lo + Z.of_nat 0 <=? j) && _) eqn:E1; destruct ((lo <=? j) && (j <=? hi)) eqn:E2; try reflexivity; lia.
Qed.

Lemma nonneg_tab (b : bins) lo hi : nonneg b -> nonneg (map (fun k => (k, get b k)) (zrange lo hi)).
Proof.
  intros H. unfold nonneg. apply Forall_forall. intros [k w] Hin.
  apply in_map_iff in Hin. destruct Hin as [i [E _]]. inversion E; subst. cbn [snd].
  apply get_nonneg. exact H.
Qed.

Lemma lsum_window b mn mx j :
  wf b = true -> min_key b = Some mn -> max_key b = Some mx ->
  lsum (map (fun k => (k, get b k)) (zrange mn mx)) j = get b j.
Proof.
  intros Hwf Hmn Hmx. rewrite (lsum_zrange (get b)).
  destruct ((mn <=? j) && (j <=? mx)) eqn:E; [reflexivity|].
  destruct (weqb_spec (get b j) w0) as [E0|N0]; [symmetry; exact E0|].
  pose proof (min_key_le b mn j Hwf Hmn N0). pose proof (max_key_ge b mx j Hwf Hmx N0). lia.
Qed.

(* ---- C09_proto_roundtrip ---- *)
Theorem merge_sparse_into r b l :
  wf r = true -> pos r -> wf b = true -> pos b -> f64_weights b -> Permutation b l ->
  merge_with_proto r (to_proto_sparse l) = bmerge r b.
Proof.
  intros Hr Hpr Hb Hpb Hf Hperm. unfold merge_with_proto.
  rewrite content_sparse by (eapply f64_weights_perm; eassumption).
  unfold bmerge. symmetry. apply bmerge_list_perm; [exact Hr|exact Hpr|apply pos_nonneg; exact Hpb|exact Hperm].
Qed.

Theorem merge_dense_into r b :
  wf r = true -> pos r -> wf b = true -> pos b -> f64_weights b ->
  merge_with_proto r (to_proto_dense b) = bmerge r b.
Proof.
  intros Hr Hpr Hb Hpb Hf. unfold merge_with_proto.
  destruct b as [|kw tl] eqn:Eb; [reflexivity|]. rewrite <- Eb in *.
  assert (Hne : b <> []) by (rewrite Eb; discriminate).
  destruct (min_key_some b Hne) as [mn Hmn]. destruct (max_key_some b Hne) as [mx Hmx].
  rewrite (content_dense b mn mx Hf Hmn Hmx).
  pose proof (nonneg_tab b mn mx (pos_nonneg b Hpb)) as Hn.
  apply bins_ext.
  - apply wf_bmerge_list; assumption.
  - apply wf_bmerge; assumption.
  - intros j. rewrite get_bmerge_list by assumption. rewrite get_bmerge by assumption.
    rewrite (lsum_window b mn mx j Hb Hmn Hmx). reflexivity.
Qed.

Theorem proto_roundtrip_sparse b l :
  wf b = true -> pos b -> f64_weights b -> Permutation b l ->
  merge_with_proto [] (to_proto_sparse l) = b.
Proof.
  intros Hb Hpb Hf Hperm.
  rewrite (merge_sparse_into [] b l) by (try assumption; try reflexivity; apply pos_nil).
  apply bmerge_nil_l; assumption.
Qed.

Theorem proto_roundtrip_dense b :
  wf b = true -> pos b -> f64_weights b -> merge_with_proto [] (to_proto_dense b) = b.
Proof.
  intros Hb Hpb Hf.
  rewrite (merge_dense_into [] b) by (try assumption; try reflexivity; apply pos_nil).
  apply bmerge_nil_l; assumption.
Qed.

(* a bounded (collapsing) receiver: its content is norm lim of the exact content *)
Theorem merge_with_proto_norm lim r p :
  limit_ok lim -> wf r = true -> pos r -> pb_nonneg p ->
  norm lim (merge_with_proto (norm lim r) p) = norm lim (merge_with_proto r p).
Proof. intros Hl Hr Hpr Hn. unfold merge_with_proto. apply norm_absorb_list; assumption. Qed.

Lemma pb_nonneg_sparse b l : pos b -> f64_weights b -> Permutation b l -> pb_nonneg (to_proto_sparse l).
Proof.
  intros Hpb Hf Hperm. unfold pb_nonneg. rewrite content_sparse by (eapply f64_weights_perm; eassumption).
  eapply nonneg_perm; [exact Hperm|apply pos_nonneg; exact Hpb].
Qed.
Lemma pb_nonneg_dense b : pos b -> f64_weights b -> pb_nonneg (to_proto_dense b).
Proof.
  intros Hpb Hf. unfold pb_nonneg.
  destruct b as [|kw tl] eqn:Eb; [constructor|]. rewrite <- Eb in *.
  assert (Hne : b <> []) by (rewrite Eb; discriminate).
  destruct (min_key_some b Hne) as [mn Hmn]. destruct (max_key_some b Hne) as [mx Hmx].
  rewrite (content_dense b mn mx Hf Hmn Hmx). apply nonneg_tab. apply pos_nonneg. exact Hpb.
Qed.

Theorem proto_roundtrip_bounded lim r b l :
  limit_ok lim -> wf r = true -> pos r -> wf b = true -> pos b -> f64_weights b -> Permutation b l ->
  norm lim (merge_with_proto (norm lim r) (to_proto_sparse l)) = norm lim (bmerge r b) /\
  norm lim (merge_with_proto (norm lim r) (to_proto_dense b)) = norm lim (bmerge r b).
Proof.
  intros Hl Hr Hpr Hb Hpb Hf Hperm. split.
  - rewrite merge_with_proto_norm by (try assumption; eapply pb_nonneg_sparse; eassumption).
    rewrite (merge_sparse_into r b l) by assumption. reflexivity.
  - rewrite merge_with_proto_norm by (try assumption; apply pb_nonneg_dense; assumption).
    rewrite (merge_dense_into r b) by assumption. reflexivity.
Qed.

(* the order in which MergeWithProto ranges over the Go map does not matter *)
Theorem merge_with_proto_order r p p' :
  wf r = true -> pos r -> pb_nonneg p ->
  Permutation (bin_counts p) (bin_counts p') ->
  contiguous_counts p' = contiguous_counts p -> contiguous_offset p' = contiguous_offset p ->
  merge_with_proto r p' = merge_with_proto r p.
Proof.
  intros Hr Hpr Hn Hperm Hc Ho. unfold merge_with_proto. symmetry.
  apply bmerge_list_perm; [exact Hr|exact Hpr|exact Hn|].
  unfold store_content. rewrite Hc, Ho. apply Permutation_app_tail.
  unfold entries_content. apply Permutation_map. exact Hperm.
Qed.

(* stated on the floats of the message: reading any message with non-negative counts is merging the
   canonical form of its content (weights cross exactly: the only arithmetic is the merge) *)
Theorem merge_with_proto_canon r p :
  wf r = true -> pos r -> pb_nonneg p ->
  merge_with_proto r p = bmerge r (bins_of_list (store_content p)).
Proof. intros Hr Hpr Hn. unfold merge_with_proto. apply bmerge_list_canon; assumption. Qed.

(* ---- C09_mixed_counts_add ---- *)
Theorem mixed_counts_add b p :
  merge_with_proto b p =
  bmerge_list (bmerge_list b (entries_content (bin_counts p)))
              (contig_content (contiguous_offset p) (contiguous_counts p)).
Proof. unfold merge_with_proto, store_content. apply bmerge_list_app. Qed.

Theorem mixed_counts_add_get b p j :
  wf b = true -> pos b -> pb_nonneg p ->
  get (merge_with_proto b p) j =
  wadd (wadd (get b j) (lsum (entries_content (bin_counts p)) j))
       (lsum (contig_content (contiguous_offset p) (contiguous_counts p)) j).
Proof.
  intros Hb Hpb Hn. unfold merge_with_proto. rewrite get_bmerge_list by assumption.
  unfold store_content, lsum. rewrite gsum_app. apply wadd_assoc.
Qed.

(* weight the contiguous part puts on index j: the count at position j - offset *)
Lemma lsum_contig (l : list f64) : forall o j,
  lsum (contig_content o l) j =
  if (o <=? j) && (j <? o + Z.of_nat (length l)) then f2q (nth (Z.to_nat (j - o)) l f64_zero) else w0.
Proof.
  induction l as [|x tl IH]; intros o j.
  - cbn [contig_content length]. destruct (_ && _) eqn:E; [lia|reflexivity].
  - cbn [contig_content length]. unfold lsum in *. rewrite gsum_cons, IH.
    destruct (Z.eqb_spec j o) as [E|E].
    + subst j. replace (Z.to_nat (o - o)) with 0%nat by lia. cbn [nth].
      destruct ((o + 1 <=? o) && _) eqn:E1; [lia|].
      destruct ((o <=? o) && _) eqn:E2; [apply wadd_0_r|lia].
    + destruct ((o + 1 <=? j) && _) eqn:E1; destruct ((o <=? j) && _) eqn:E2; try reflexivity; try lia.
      replace (Z.to_nat (j - o)) with (S (Z.to_nat (j - (o + 1)))) by lia. reflexivity.
Qed.

(* ---- Go's map view of the entries ---- *)
Lemma pb_map_view_nodup l : NoDup (map fst l) -> pb_map_view l = l.
Proof.
  induction l as [|[k v] tl IH]; intros H; [reflexivity|].
  cbn [map fst] in H. inversion H as [|x xs Hnin Hnd]; subst.
  cbn [pb_map_view fst].
  destruct (existsb (fun kv' => fst kv' =? k) tl) eqn:E.
  - exfalso. apply existsb_exists in E. destruct E as [[k' v'] [Hin Hk]]. cbn [fst] in Hk.
    apply Z.eqb_eq in Hk. subst k'. apply Hnin. apply in_map_iff. exists (k, v'). split; [reflexivity|exact Hin].
  - rewrite (IH Hnd). reflexivity.
Qed.

Lemma keys_above_nodup lo (b : bins) : keys_above lo b = true -> NoDup (map fst b).
Proof.
  revert lo. induction b as [|[k w] tl IH]; intros lo H; [constructor|].
  apply keys_above_cons in H. destruct H as [_ [_ H]]. cbn [map fst]. constructor.
  - intros Hin. pose proof (keys_above_In k tl k H Hin). lia.
  - exact (IH k H).
Qed.
Lemma wf_nodup (b : bins) : wf b = true -> NoDup (map fst b).
Proof.
  intros H. destruct (wf_keys_above_lt b 0 H) as [lo [_ Hlo]]. exact (keys_above_nodup lo b Hlo).
Qed.

Theorem merge_with_proto_go_sparse r b l :
  wf b = true -> Permutation b l ->
  merge_with_proto_go r (to_proto_sparse l) = merge_with_proto r (to_proto_sparse l).
Proof.
  intros Hb Hperm. unfold merge_with_proto_go. f_equal.
  unfold to_proto_sparse. cbn [bin_counts contiguous_counts contiguous_offset]. f_equal.
  apply pb_map_view_nodup. rewrite map_map. cbn [fst].
  apply (Permutation_NoDup (l := map fst b)); [apply Permutation_map; exact Hperm|apply wf_nodup; exact Hb].
Qed.

(* ================================================================== *)
(** * Part B: wire primitives                                          *)
(* ================================================================== *)
Local Open Scope N_scope.
Ltac Zify.zify_post_hook ::= Z.div_mod_to_equations.
Arguments pb_enc_varint_loop : simpl never.
Arguments pb_dec_varint_loop : simpl never.
Arguments pb_take_loop : simpl never.
Arguments pb_fields_loop : simpl never.
Arguments pb_dec_packed_loop : simpl never.

(* ---- the tail-recursive helpers are the usual functions ---- *)
Lemma pb_len_acc_eq l : forall acc, pb_len_acc l acc = (acc + length l)%nat.
Proof. induction l as [|x l IH]; intros acc; cbn [pb_len_acc length]; [lia|]. rewrite IH. lia. Qed.
Lemma pb_length_eq l : pb_length l = length l.
Proof. unfold pb_length. rewrite pb_len_acc_eq. reflexivity. Qed.
Lemma pb_nlen_acc_eq l : forall acc, pb_nlen_acc l acc = acc + N.of_nat (length l).
Proof. induction l as [|x l IH]; intros acc; cbn [pb_nlen_acc length]; [lia|]. rewrite IH. lia. Qed.
Lemma pb_nlength_eq l : pb_nlength l = N.of_nat (length l).
Proof. unfold pb_nlength. rewrite pb_nlen_acc_eq. lia. Qed.
Lemma pb_rev_eq {T : Type} (l : list T) : pb_rev l = rev l.
Proof. unfold pb_rev. rewrite rev_append_rev. apply app_nil_r. Qed.
Lemma pb_app_eq l m : pb_app l m = l ++ m.
Proof. unfold pb_app. rewrite rev_append_rev, pb_rev_eq, rev_involutive. reflexivity. Qed.
Lemma pb_enc_len_eq fld p :
  pb_enc_len fld p = pb_enc_tag fld WT_LEN ++ pb_enc_varint (N.of_nat (length p)) ++ p.
Proof. unfold pb_enc_len. rewrite pb_nlength_eq. reflexivity. Qed.

(* ---- varint ---- *)
Lemma enc_varint_0 v : pb_enc_varint_loop 0 v = [v].
Proof. reflexivity. Qed.
Lemma enc_varint_S f v :
  pb_enc_varint_loop (S f) v = if v <? 128 then [v] else (v mod 128 + 128) :: pb_enc_varint_loop f (v / 128).
Proof.
  change (pb_enc_varint_loop (S f) v)
    with (if v <? 128 then [v] else N.lor (N.land v 127) 128 :: pb_enc_varint_loop f (N.shiftr v 7)).
  rewrite CodecProofs.land127, CodecProofs.shr7.
  rewrite CodecProofs.lor128 by (pose proof (N.mod_lt v 128); lia).
  rewrite N.mod_mod by lia. reflexivity.
Qed.
Lemma dec_varint_nil fuel : pb_dec_varint_loop fuel [] = None.
Proof. destruct fuel; reflexivity. Qed.
Lemma dec_varint_cons fuel b r :
  pb_dec_varint_loop fuel (b :: r) =
  if b <? 128 then Some (b, r)
  else match fuel with
       | O => None
       | S f => match pb_dec_varint_loop f r with
                | Some (v, r') => Some (N.land b 127 + 128 * v, r')
                | None => None
                end
       end.
Proof. destruct fuel; reflexivity. Qed.

Lemma dec_enc_varint_loop : forall f v rest,
  v < 2^(7 * N.of_nat (S f)) ->
  pb_dec_varint_loop f (pb_enc_varint_loop f v ++ rest) = Some (v, rest).
Proof.
  induction f as [|f IH]; intros v rest Hv.
  - change (2^(7 * N.of_nat 1)) with 128 in Hv. rewrite enc_varint_0. cbn [app]. rewrite dec_varint_cons.
    replace (v <? 128) with true by (symmetry; apply N.ltb_lt; exact Hv). reflexivity.
  - rewrite enc_varint_S. destruct (N.ltb_spec v 128) as [Hlt|Hge].
    + cbn [app]. rewrite dec_varint_cons.
      replace (v <? 128) with true by (symmetry; apply N.ltb_lt; exact Hlt). reflexivity.
    + cbn [app]. rewrite dec_varint_cons.
      replace (v mod 128 + 128 <? 128) with false by (symmetry; apply N.ltb_ge; lia).
      rewrite IH.
      * rewrite CodecProofs.land127. f_equal. f_equal. lia.
      * rewrite (CodecProofs.pow_split (S f)) in Hv.
        set (q := 2^(7 * N.of_nat (S f))) in *. apply N.div_lt_upper_bound; lia.
Qed.

Theorem varint_roundtrip v rest : v < W64 -> pb_dec_varint (pb_enc_varint v ++ rest) = Some (v, rest).
Proof.
  intros Hv. unfold pb_dec_varint, pb_enc_varint. rewrite dec_enc_varint_loop.
  - replace (v <? W64) with true by (symmetry; apply N.ltb_lt; exact Hv). reflexivity.
  - change (2^(7 * N.of_nat 10)) with 1180591620717411303424. unfold W64 in Hv. lia.
Qed.

Lemma enc_varint_loop_length : forall f v, (1 <= length (pb_enc_varint_loop f v) <= S f)%nat.
Proof.
  induction f as [|f IH]; intros v.
  - rewrite enc_varint_0. cbn [length]. lia.
  - rewrite enc_varint_S. destruct (v <? 128); cbn [length]; [lia|]. specialize (IH (v / 128)). lia.
Qed.
Lemma enc_varint_length v : (1 <= length (pb_enc_varint v) <= 10)%nat.
Proof. apply enc_varint_loop_length. Qed.
Lemma enc_varint_nonnil v : pb_enc_varint v <> [].
Proof. pose proof (enc_varint_length v) as H. destruct (pb_enc_varint v); [cbn [length] in H; lia|discriminate]. Qed.

(* every emitted byte is a byte, continuation bit exactly on the non-final ones *)
Lemma enc_varint_loop_bytes : forall f v b,
  v < 2^(7 * N.of_nat (S f)) -> In b (pb_enc_varint_loop f v) -> b < 256.
Proof.
  induction f as [|f IH]; intros v b Hv Hin.
  - change (2^(7 * N.of_nat 1)) with 128 in Hv. rewrite enc_varint_0 in Hin.
    destruct Hin as [<-|[]]. lia.
  - rewrite enc_varint_S in Hin. destruct (N.ltb_spec v 128) as [Hlt|Hge].
    + destruct Hin as [<-|[]]. lia.
    + destruct Hin as [<-|Hin]; [lia|]. apply (IH (v / 128)); [|exact Hin].
      rewrite (CodecProofs.pow_split (S f)) in Hv.
      set (q := 2^(7 * N.of_nat (S f))) in *. apply N.div_lt_upper_bound; lia.
Qed.
Theorem enc_varint_bytes v b : v < W64 -> In b (pb_enc_varint v) -> b < 256.
Proof.
  intros Hv. apply enc_varint_loop_bytes.
  change (2^(7 * N.of_nat 10)) with 1180591620717411303424. unfold W64 in Hv. lia.
Qed.

(* ---- zig-zag ---- *)
Lemma zigzag_val v : pb_zigzag v = Z.to_N (if (v <? 0)%Z then (-2 * v - 1)%Z else (2 * v)%Z) \/ ~ (-9223372036854775808 <= v < 9223372036854775808)%Z.
Proof.
  destruct (Z_le_dec (-9223372036854775808) v) as [H1|H1]; [|right; lia].
  destruct (Z_lt_dec v 9223372036854775808) as [H2|H2]; [|right; lia]. left.
  unfold pb_zigzag. rewrite Z.shiftl_mul_pow2, Z.shiftr_div_pow2 by lia.
  change (2^1)%Z with 2%Z. change (2^63)%Z with 9223372036854775808%Z.
  destruct (Z.ltb_spec v 0) as [Hn|Hp].
  - replace (v / 9223372036854775808)%Z with (-1)%Z by lia.
    rewrite Z.lxor_m1_r. unfold Z.lnot. f_equal. lia.
  - replace (v / 9223372036854775808)%Z with 0%Z by lia.
    rewrite Z.lxor_0_r. f_equal. lia.
Qed.
Lemma zigzag32_val v : idx_ok v -> pb_zigzag v = Z.to_N (if (v <? 0)%Z then (-2 * v - 1)%Z else (2 * v)%Z).
Proof.
  intros H. unfold idx_ok, MinInt32, MaxInt32 in H. destruct (zigzag_val v) as [E|E]; [exact E|lia].
Qed.
Lemma zigzag32_lt v : idx_ok v -> pb_zigzag v < 4294967296.
Proof.
  intros H. rewrite (zigzag32_val v H). unfold idx_ok, MinInt32, MaxInt32 in H.
  destruct (Z.ltb_spec v 0); lia.
Qed.

Lemma unzigzag32_val n :
  pb_unzigzag32 n = let x := (Z.of_N n mod 4294967296)%Z in
                    if Z.even x then (x / 2)%Z else (- (x / 2) - 1)%Z.
Proof.
  unfold pb_unzigzag32. change 4294967295 with (N.ones 32). rewrite N.land_ones.
  change 1 with (N.ones 1) at 2. rewrite N.land_ones. rewrite N.shiftr_div_pow2.
  change (2^32) with 4294967296. change (2^1) with 2.
  set (x := n mod 4294967296). cbv zeta.
  replace (Z.of_N n mod 4294967296)%Z with (Z.of_N x) by (unfold x; lia).
  rewrite N2Z.inj_div. change (Z.of_N 2) with 2%Z.
  rewrite Zeven_mod.
  assert (Hm : (Z.of_N (x mod 2) = Z.of_N x mod 2)%Z) by lia. rewrite Hm.
  destruct (Z.eqb_spec (Z.of_N x mod 2) 0) as [E|E].
  - rewrite E. cbn [Z.opp]. apply Z.lxor_0_r.
  - replace (Z.of_N x mod 2)%Z with 1%Z by lia. change (- (1))%Z with (-1)%Z.
    rewrite Z.lxor_m1_r. unfold Z.lnot. change (Zeq_bool 1 0) with false. cbv iota. lia.
Qed.

Theorem zigzag32_roundtrip v : idx_ok v -> pb_unzigzag32 (pb_zigzag v) = v.
Proof.
  intros H. rewrite unzigzag32_val, (zigzag32_val v H). cbv zeta.
  unfold idx_ok, MinInt32, MaxInt32 in H.
  destruct (Z.ltb_spec v 0) as [Hn|Hp].
  - rewrite Z2N.id by lia. rewrite Z.mod_small by lia.
    replace (-2 * v - 1)%Z with (1 + 2 * (- v - 1))%Z by lia.
    rewrite Z.even_add_mul_2. cbn [Z.even negb]. lia.
  - rewrite Z2N.id by lia. rewrite Z.mod_small by lia.
    replace (2 * v)%Z with (0 + 2 * v)%Z by lia. rewrite Z.even_add_mul_2. cbn [Z.even]. lia.
Qed.
(* the decoder always lands in the int32 range *)
Theorem unzigzag32_range n : idx_ok (pb_unzigzag32 n).
Proof.
  rewrite unzigzag32_val. cbv zeta. unfold idx_ok, MinInt32, MaxInt32.
  pose proof (Z.mod_pos_bound (Z.of_N n) 4294967296 ltac:(lia)).
  destruct (Z.even _); lia.
Qed.

(* ---- fixed64, doubles ---- *)
Theorem fixed64_roundtrip bits rest : bits < W64 -> pb_dec_fixed64 (pb_enc_fixed64 bits ++ rest) = Some (bits, rest).
Proof.
  intros Hb.
  assert (H : pb_dec_fixed64 (pb_enc_fixed64 bits ++ rest) = Some (le_value (le_bytes 8 bits), rest)) by reflexivity.
  rewrite H, CodecProofs.le_value_bytes. change (2^(8 * N.of_nat 8)) with W64.
  rewrite N.mod_small by exact Hb. reflexivity.
Qed.
Lemma enc_fixed64_length bits : length (pb_enc_fixed64 bits) = 8%nat.
Proof. apply CodecProofs.le_bytes_length. Qed.

Lemma bits_of_f64_lt (v : f64) : bits_of_f64 v < W64.
Proof. exact (VarfloatProofs.bits_of_f64_lt v). Qed.
Lemma f64_of_bits_of_f64 (v : f64) : f64_of_bits (bits_of_f64 v) = v.
Proof. exact (VarfloatProofs.f64_of_bits_of_f64 v). Qed.

Theorem double_roundtrip (v : f64) rest : pb_dec_double (pb_enc_double v ++ rest) = Some (v, rest).
Proof.
  unfold pb_dec_double, pb_enc_double. rewrite fixed64_roundtrip by apply bits_of_f64_lt.
  rewrite f64_of_bits_of_f64. reflexivity.
Qed.
Lemma enc_double_length v : length (pb_enc_double v) = 8%nat.
Proof. apply enc_fixed64_length. Qed.

(* ---- tags ---- *)
Lemma tag_val fld wt : wt < 8 -> pb_tag fld wt = 8 * fld + wt.
Proof.
  intros H. unfold pb_tag. rewrite N.shiftl_mul_pow2. change (2^3) with 8.
  rewrite (CodecProofs.lor_high_low (fld * 8) wt 3); [lia| |exact H].
  change (2^3) with 8. lia.
Qed.
Lemma tag_field fld wt : wt < 8 -> N.shiftr (pb_tag fld wt) 3 = fld.
Proof. intros H. rewrite (tag_val fld wt H), N.shiftr_div_pow2. change (2^3) with 8. lia. Qed.
Lemma tag_wt fld wt : wt < 8 -> N.land (pb_tag fld wt) 7 = wt.
Proof.
  intros H. rewrite (tag_val fld wt H). change 7 with (N.ones 3). rewrite N.land_ones.
  change (2^3) with 8. lia.
Qed.
Lemma tag_lt fld wt : wt < 8 -> fld <= pb_max_field -> pb_tag fld wt < W64.
Proof. intros H Hf. rewrite (tag_val fld wt H). unfold pb_max_field, W64 in *. lia. Qed.

Definition field_ok (fld : N) : Prop := 1 <= fld <= pb_max_field.

(* what the field decoder does after a well-formed tag *)
Lemma dec_field_tag fld wt r :
  field_ok fld -> wt < 8 ->
  pb_dec_field (pb_enc_tag fld wt ++ r) =
  match wt with
  | 0 => match pb_dec_varint r with Some (v, r') => Some (fld, PVarint v, r') | None => None end
  | 1 => match pb_dec_fixed64 r with Some (x, r') => Some (fld, PI64 x, r') | None => None end
  | 2 => match pb_dec_varint r with
         | Some (n, r') => match pb_take n r' with Some (p, r'') => Some (fld, PLen p, r'') | None => None end
         | None => None
         end
  | 5 => match pb_dec_fixed32 r with Some (x, r') => Some (fld, PI32 x, r') | None => None end
  | _ => None
  end.
Proof.
  intros [Hf1 Hf2] Hw. unfold pb_dec_field, pb_enc_tag.
  rewrite varint_roundtrip by (apply tag_lt; assumption).
  rewrite (tag_field fld wt Hw), (tag_wt fld wt Hw).
  replace (fld =? 0) with false by (symmetry; apply N.eqb_neq; lia).
  replace (pb_max_field <? fld) with false by (symmetry; apply N.ltb_ge; exact Hf2).
  reflexivity.
Qed.

Theorem dec_field_varint fld v rest :
  field_ok fld -> v < W64 ->
  pb_dec_field (pb_enc_tag fld WT_VARINT ++ pb_enc_varint v ++ rest) = Some (fld, PVarint v, rest).
Proof.
  intros Hf Hv. rewrite dec_field_tag by (try exact Hf; unfold WT_VARINT; lia).
  unfold WT_VARINT. rewrite varint_roundtrip by exact Hv. reflexivity.
Qed.
Theorem dec_field_fixed64 fld bits rest :
  field_ok fld -> bits < W64 ->
  pb_dec_field (pb_enc_tag fld WT_I64 ++ pb_enc_fixed64 bits ++ rest) = Some (fld, PI64 bits, rest).
Proof.
  intros Hf Hv. rewrite dec_field_tag by (try exact Hf; unfold WT_I64; lia).
  unfold WT_I64. rewrite fixed64_roundtrip by exact Hv. reflexivity.
Qed.
Theorem dec_field_double fld (v : f64) rest :
  field_ok fld ->
  pb_dec_field (pb_enc_tag fld WT_I64 ++ pb_enc_double v ++ rest) = Some (fld, PI64 (bits_of_f64 v), rest).
Proof. intros Hf. apply dec_field_fixed64; [exact Hf|apply bits_of_f64_lt]. Qed.

(* ---- length-delimited ---- *)
Lemma take_loop_0 l acc : pb_take_loop l 0 acc = Some (rev acc, l).
Proof. rewrite <- pb_rev_eq. destruct l; reflexivity. Qed.
Lemma take_loop_cons x tl n acc : n <> 0 -> pb_take_loop (x :: tl) n acc = pb_take_loop tl (N.pred n) (x :: acc).
Proof. intros H. destruct n; [contradiction|reflexivity]. Qed.
Lemma take_loop_app p : forall rest acc,
  pb_take_loop (p ++ rest) (N.of_nat (length p)) acc = Some (rev acc ++ p, rest).
Proof.
  induction p as [|x p IH]; intros rest acc.
  - cbn [length app]. change (N.of_nat 0) with 0. rewrite take_loop_0, app_nil_r. reflexivity.
  - cbn [length app]. rewrite take_loop_cons by lia.
    replace (N.pred (N.of_nat (S (length p)))) with (N.of_nat (length p)) by lia.
    rewrite IH. cbn [rev]. rewrite <- app_assoc. reflexivity.
Qed.
Theorem take_app p rest : pb_take (N.of_nat (length p)) (p ++ rest) = Some (p, rest).
Proof. unfold pb_take. rewrite take_loop_app. reflexivity. Qed.
(* too short a buffer is an error *)
Lemma take_loop_short : forall l n acc, N.of_nat (length l) < n -> pb_take_loop l n acc = None.
Proof.
  induction l as [|x l IH]; intros n acc H.
  - destruct n; [cbn [length] in H; lia|reflexivity].
  - rewrite take_loop_cons by (cbn [length] in H; lia). apply IH. cbn [length] in H. lia.
Qed.

Theorem dec_field_len fld p rest :
  field_ok fld -> N.of_nat (length p) < W64 ->
  pb_dec_field (pb_enc_len fld p ++ rest) = Some (fld, PLen p, rest).
Proof.
  intros Hf Hp. rewrite pb_enc_len_eq. rewrite <- !app_assoc.
  rewrite dec_field_tag by (try exact Hf; unfold WT_LEN; lia).
  unfold WT_LEN. rewrite varint_roundtrip by exact Hp. rewrite take_app. reflexivity.
Qed.

Lemma enc_tag_length fld wt : (1 <= length (pb_enc_tag fld wt) <= 10)%nat.
Proof. apply enc_varint_length. Qed.
Lemma enc_len_length fld p : (2 + length p <= length (pb_enc_len fld p) <= 20 + length p)%nat.
Proof.
  rewrite pb_enc_len_eq. rewrite !app_length.
  pose proof (enc_tag_length fld WT_LEN). pose proof (enc_varint_length (N.of_nat (length p))). lia.
Qed.

(* ================================================================== *)
(** * Part C: the streaming writer read back by the parser             *)
(* ================================================================== *)
Lemma fields_loop_nil {A : Type} (step : A -> N -> pb_val -> option A) fuel a :
  pb_fields_loop step fuel [] a = Some a.
Proof. destruct fuel; reflexivity. Qed.
Lemma fields_loop_cons {A : Type} (step : A -> N -> pb_val -> option A) f b bs a :
  pb_fields_loop step (S f) (b :: bs) a =
  match pb_dec_field (b :: bs) with
  | None => None
  | Some (fld, val, r) =>
    match step a fld val with
    | None => None
    | Some a' => pb_fields_loop step f r a'
    end
  end.
Proof. reflexivity. Qed.
Lemma fields_loop_step {A : Type} (step : A -> N -> pb_val -> option A) fuel fb rest (a a' : A) fld val :
  fb <> [] -> pb_dec_field (fb ++ rest) = Some (fld, val, rest) -> step a fld val = Some a' ->
  pb_fields_loop step (S fuel) (fb ++ rest) a = pb_fields_loop step fuel rest a'.
Proof.
  intros Hne Hd Hs. destruct fb as [|b fb]; [contradiction|]. cbn [app] in *.
  rewrite fields_loop_cons, Hd, Hs. reflexivity.
Qed.

Lemma app_nonnil_l {T : Type} (l m : list T) : l <> [] -> l ++ m <> [].
Proof. destruct l; [contradiction|discriminate]. Qed.
Lemma length_pos_of_nonnil {T : Type} (l : list T) : l <> [] -> (1 <= length l)%nat.
Proof. destruct l; [contradiction|cbn [length]; lia]. Qed.

(* a message written as a sequence of builder calls [ops], each emitting one field [enc op] that the
   step function folds as [app_op] *)
Section FoldOps.
Context {A O : Type}.
Variable step : A -> N -> pb_val -> option A.
Variable enc : O -> list byte.
Variable app_op : A -> O -> A.
Variable P : O -> Prop.
Hypothesis Hstep : forall op a rest, P op ->
  enc op <> [] /\
  exists fld val, pb_dec_field (enc op ++ rest) = Some (fld, val, rest) /\ step a fld val = Some (app_op a op).

Lemma fold_ops_loop : forall ops a fuel,
  Forall P ops -> (length (concat (map enc ops)) <= fuel)%nat ->
  pb_fields_loop step fuel (concat (map enc ops)) a = Some (fold_left app_op ops a).
Proof.
  induction ops as [|op ops IH]; intros a fuel HP Hf.
  - apply fields_loop_nil.
  - inversion HP as [|x l Hop Hops]; subst. cbn [map concat fold_left] in *.
    destruct (Hstep op a (concat (map enc ops)) Hop) as [Hne [fld [val [Hd Hs]]]].
    rewrite app_length in Hf. pose proof (length_pos_of_nonnil _ Hne) as Hl.
    destruct fuel as [|fuel]; [lia|].
    rewrite (fields_loop_step step fuel _ _ a _ fld val Hne Hd Hs). apply IH; [exact Hops|lia].
Qed.
Lemma fold_ops ops a :
  Forall P ops -> pb_fold_fields step (concat (map enc ops)) a = Some (fold_left app_op ops a).
Proof. intros HP. unfold pb_fold_fields. rewrite pb_length_eq. apply fold_ops_loop; [exact HP|lia]. Qed.
End FoldOps.

Lemma field_ok_small fld : 1 <= fld <= 15 -> field_ok fld.
Proof. unfold field_ok, pb_max_field. lia. Qed.

(* ---- map entry ---- *)
Inductive entry_op := EKey (k : Z) | EVal (v : f64).
Definition enc_entry_op (op : entry_op) : list byte :=
  match op with
  | EKey k => pb_enc_tag 1 WT_VARINT ++ pb_enc_varint (pb_zigzag k)
  | EVal v => pb_enc_tag 2 WT_I64 ++ pb_enc_double v
  end.
Definition entry_apply (kv : Z * f64) (op : entry_op) : Z * f64 :=
  match op with EKey k => (k, snd kv) | EVal v => (fst kv, v) end.
Definition entry_op_ok (op : entry_op) : Prop := match op with EKey k => idx_ok k | EVal _ => True end.

Lemma zigzag32_lt64 k : idx_ok k -> pb_zigzag k < W64.
Proof. intros H. pose proof (zigzag32_lt k H). unfold W64. lia. Qed.

Lemma entry_step_ok op kv rest : entry_op_ok op ->
  enc_entry_op op <> [] /\
  exists fld val, pb_dec_field (enc_entry_op op ++ rest) = Some (fld, val, rest) /\
                  entry_step kv fld val = Some (entry_apply kv op).
Proof.
  destruct op as [k|v]; intros H; cbn [enc_entry_op entry_op_ok] in *.
  - split; [apply app_nonnil_l, enc_varint_nonnil|].
    exists 1, (PVarint (pb_zigzag k)). split.
    + rewrite <- app_assoc. apply dec_field_varint; [apply field_ok_small; lia|apply zigzag32_lt64; exact H].
    + unfold entry_step. cbv beta iota. rewrite (zigzag32_roundtrip k H). reflexivity.
  - split; [apply app_nonnil_l, enc_varint_nonnil|].
    exists 2, (PI64 (bits_of_f64 v)). split.
    + rewrite <- app_assoc. apply dec_field_double. apply field_ok_small; lia.
    + unfold entry_step. cbv beta iota. rewrite f64_of_bits_of_f64. reflexivity.
Qed.

Theorem parse_entry_stream k v : idx_ok k -> parse_entry (stream_entry k v) = Some (k, v).
Proof.
  intros H. unfold parse_entry.
  assert (E : stream_entry k v = concat (map enc_entry_op [EKey k; EVal v])).
  { unfold stream_entry. cbn [map concat enc_entry_op]. rewrite app_nil_r, <- !app_assoc. reflexivity. }
  rewrite E. rewrite (fold_ops entry_step enc_entry_op entry_apply entry_op_ok).
  - reflexivity.
  - intros op a rest. apply entry_step_ok.
  - constructor; [exact H|constructor; [exact I|constructor]].
Qed.
Lemma stream_entry_length k v : (length (stream_entry k v) <= 38)%nat.
Proof.
  unfold stream_entry. rewrite !app_length, enc_double_length.
  pose proof (enc_tag_length 1 WT_VARINT). pose proof (enc_tag_length 2 WT_I64).
  pose proof (enc_varint_length (pb_zigzag k)). lia.
Qed.

(* ---- Store ---- *)
Definition store_apply (a : store_acc) (op : store_op) : store_acc :=
  match op with
  | OpBin k v => {| sa_bins := (k, v) :: sa_bins a; sa_counts := sa_counts a; sa_off := sa_off a |}
  | OpCount v => {| sa_bins := sa_bins a; sa_counts := v :: sa_counts a; sa_off := sa_off a |}
  | OpOffset o => {| sa_bins := sa_bins a; sa_counts := sa_counts a; sa_off := o |}
  end.
Definition store_op_ok (op : store_op) : Prop :=
  match op with OpBin k _ => idx_ok k | OpCount _ => True | OpOffset o => idx_ok o end.

Lemma store_step_ok op a rest : store_op_ok op ->
  stream_store_op op <> [] /\
  exists fld val, pb_dec_field (stream_store_op op ++ rest) = Some (fld, val, rest) /\
                  store_step a fld val = Some (store_apply a op).
Proof.
  destruct op as [k v|v|o]; intros H; cbn [stream_store_op store_op_ok] in *.
  - split; [unfold pb_enc_len; apply app_nonnil_l, enc_varint_nonnil|].
    exists 1, (PLen (stream_entry k v)). split.
    + apply dec_field_len; [apply field_ok_small; lia|].
      pose proof (stream_entry_length k v). unfold W64. lia.
    + unfold store_step. cbv beta iota. rewrite (parse_entry_stream k v H). reflexivity.
  - split; [apply app_nonnil_l, enc_varint_nonnil|].
    exists 2, (PI64 (bits_of_f64 v)). split.
    + rewrite <- app_assoc. apply dec_field_double. apply field_ok_small; lia.
    + unfold store_step. cbv beta iota. rewrite f64_of_bits_of_f64. reflexivity.
  - split; [apply app_nonnil_l, enc_varint_nonnil|].
    exists 3, (PVarint (pb_zigzag o)). split.
    + rewrite <- app_assoc. apply dec_field_varint; [apply field_ok_small; lia|apply zigzag32_lt64; exact H].
    + unfold store_step. cbv beta iota. rewrite (zigzag32_roundtrip o H). reflexivity.
Qed.

(* the general form: any sequence of builder calls, into any accumulator *)
Theorem parse_store_ops ops a :
  Forall store_op_ok ops ->
  parse_store_acc a (stream_store_ops ops) = Some (fold_left store_apply ops a).
Proof.
  intros H. unfold parse_store_acc, stream_store_ops.
  apply (fold_ops store_step stream_store_op store_apply store_op_ok); [|exact H].
  intros op a' rest. apply store_step_ok.
Qed.

Definition store_ok (p : pb_store) : Prop :=
  Forall (fun kv => idx_ok (fst kv)) (bin_counts p) /\ idx_ok (contiguous_offset p).

Lemma store_ops_of_ok p : store_ok p -> Forall store_op_ok (store_ops_of p).
Proof.
  intros [Hk Ho]. unfold store_ops_of. apply Forall_app. split; [|apply Forall_app; split].
  - apply Forall_forall. intros op Hin. apply in_map_iff in Hin. destruct Hin as [kv [<- Hin]].
    cbn [store_op_ok]. rewrite Forall_forall in Hk. exact (Hk kv Hin).
  - apply Forall_forall. intros op Hin. apply in_map_iff in Hin. destruct Hin as [v [<- _]]. exact I.
  - destruct (store_writes_offset p); [constructor; [exact Ho|constructor]|constructor].
Qed.

Lemma fold_bins l : forall a,
  fold_left store_apply (map (fun kv => OpBin (fst kv) (snd kv)) l) a =
  {| sa_bins := rev l ++ sa_bins a; sa_counts := sa_counts a; sa_off := sa_off a |}.
Proof.
  induction l as [|[k v] l IH]; intros a; [destruct a; reflexivity|].
  cbn [map fold_left fst snd]. rewrite IH. cbn [store_apply sa_bins sa_counts sa_off rev].
  rewrite <- app_assoc. reflexivity.
Qed.
Lemma fold_counts l : forall a,
  fold_left store_apply (map OpCount l) a =
  {| sa_bins := sa_bins a; sa_counts := rev l ++ sa_counts a; sa_off := sa_off a |}.
Proof.
  induction l as [|v l IH]; intros a; [destruct a; reflexivity|].
  cbn [map fold_left]. rewrite IH. cbn [store_apply sa_bins sa_counts sa_off rev].
  rewrite <- app_assoc. reflexivity.
Qed.
(* reading [p]'s stream into the accumulator [a]: repeated fields are appended, the offset is
   overwritten when written *)
Lemma fold_store_ops_of p a :
  store_finish (fold_left store_apply (store_ops_of p) a) =
  {| bin_counts := rev (sa_bins a) ++ bin_counts p;
     contiguous_counts := rev (sa_counts a) ++ contiguous_counts p;
     contiguous_offset := if store_writes_offset p then contiguous_offset p else sa_off a |}.
Proof.
  unfold store_ops_of. rewrite !fold_left_app, fold_bins, fold_counts.
  destruct (store_writes_offset p); cbn [fold_left store_apply sa_bins sa_counts sa_off];
    unfold store_finish; cbn [sa_bins sa_counts sa_off];
    rewrite !pb_rev_eq, !rev_app_distr, !rev_involutive; reflexivity.
Qed.
Lemma store_result p : store_finish (fold_left store_apply (store_ops_of p) store_acc0) = p.
Proof.
  rewrite fold_store_ops_of. cbn [store_acc0 sa_bins sa_counts sa_off rev app].
  destruct p as [bc cc o]. unfold store_writes_offset. cbn [bin_counts contiguous_counts contiguous_offset].
  destruct cc as [|c cc]; [|reflexivity].
  destruct (Z.eqb_spec o 0) as [->|Hn]; reflexivity.
Qed.

Theorem parse_store_stream p : store_ok p -> parse_store (stream_store p) = Some p.
Proof.
  intros H. unfold parse_store, stream_store.
  rewrite (parse_store_ops (store_ops_of p) store_acc0 (store_ops_of_ok p H)).
  cbn [option_map]. rewrite store_result. reflexivity.
Qed.

(* sizes, for the nested length prefix *)
Lemma stream_store_op_length op : (length (stream_store_op op) <= 60)%nat.
Proof.
  destruct op as [k v|v|o]; cbn [stream_store_op].
  - pose proof (enc_len_length 1 (stream_entry k v)). pose proof (stream_entry_length k v). lia.
  - rewrite app_length, enc_double_length. pose proof (enc_tag_length 2 WT_I64). lia.
  - rewrite app_length. pose proof (enc_tag_length 3 WT_VARINT). pose proof (enc_varint_length (pb_zigzag o)). lia.
Qed.
Lemma stream_store_ops_length ops : (length (stream_store_ops ops) <= 60 * length ops)%nat.
Proof.
  unfold stream_store_ops. induction ops as [|op ops IH]; [cbn; lia|].
  cbn [map concat length]. rewrite app_length. pose proof (stream_store_op_length op). lia.
Qed.
Definition store_small (p : pb_store) : Prop :=
  N.of_nat (length (bin_counts p)) < 2147483648 /\ N.of_nat (length (contiguous_counts p)) < 2147483648.
Lemma stream_store_length p : store_small p -> N.of_nat (length (stream_store p)) < W64.
Proof.
  intros [H1 H2]. unfold stream_store. pose proof (stream_store_ops_length (store_ops_of p)) as H.
  assert (Hl : (length (store_ops_of p) <= length (bin_counts p) + length (contiguous_counts p) + 1)%nat).
  { unfold store_ops_of. rewrite !app_length, !map_length. destruct (store_writes_offset p); cbn [length]; lia. }
  unfold W64. lia.
Qed.

(* ---- IndexMapping ---- *)
Inductive mapping_op := MGamma (v : f64) | MOffset (v : f64) | MInterp (n : N).
Definition enc_mapping_op (op : mapping_op) : list byte :=
  match op with
  | MGamma v => pb_enc_tag 1 WT_I64 ++ pb_enc_double v
  | MOffset v => pb_enc_tag 2 WT_I64 ++ pb_enc_double v
  | MInterp n => pb_enc_tag 3 WT_VARINT ++ pb_enc_varint n
  end.
Definition mapping_apply (m : pb_mapping) (op : mapping_op) : pb_mapping :=
  match op with
  | MGamma v => {| pm_gamma := v; pm_offset := pm_offset m; pm_interp := pm_interp m |}
  | MOffset v => {| pm_gamma := pm_gamma m; pm_offset := v; pm_interp := pm_interp m |}
  | MInterp n => {| pm_gamma := pm_gamma m; pm_offset := pm_offset m; pm_interp := n |}
  end.
Definition mapping_op_ok (op : mapping_op) : Prop := match op with MInterp n => n < 4294967296 | _ => True end.
Definition mapping_ops_of (m : pb_mapping) : list mapping_op :=
  [MGamma (pm_gamma m); MOffset (pm_offset m)] ++ (if pm_interp m =? 0 then [] else [MInterp (pm_interp m)]).

Lemma land_u32 x : x < 4294967296 -> N.land x 4294967295 = x.
Proof. intros H. change 4294967295 with (N.ones 32). rewrite N.land_ones. apply N.mod_small. exact H. Qed.

Lemma mapping_step_ok op m rest : mapping_op_ok op ->
  enc_mapping_op op <> [] /\
  exists fld val, pb_dec_field (enc_mapping_op op ++ rest) = Some (fld, val, rest) /\
                  mapping_step m fld val = Some (mapping_apply m op).
Proof.
  destruct op as [v|v|n]; intros H; cbn [enc_mapping_op mapping_op_ok] in *.
  - split; [apply app_nonnil_l, enc_varint_nonnil|].
    exists 1, (PI64 (bits_of_f64 v)). split.
    + rewrite <- app_assoc. apply dec_field_double. apply field_ok_small; lia.
    + unfold mapping_step. cbv beta iota. rewrite f64_of_bits_of_f64. reflexivity.
  - split; [apply app_nonnil_l, enc_varint_nonnil|].
    exists 2, (PI64 (bits_of_f64 v)). split.
    + rewrite <- app_assoc. apply dec_field_double. apply field_ok_small; lia.
    + unfold mapping_step. cbv beta iota. rewrite f64_of_bits_of_f64. reflexivity.
  - split; [apply app_nonnil_l, enc_varint_nonnil|].
    exists 3, (PVarint n). split.
    + rewrite <- app_assoc. apply dec_field_varint; [apply field_ok_small; lia|unfold W64; lia].
    + unfold mapping_step. cbv beta iota. rewrite (land_u32 n H). reflexivity.
Qed.

Lemma stream_mapping_ops m : stream_mapping m = concat (map enc_mapping_op (mapping_ops_of m)).
Proof.
  unfold stream_mapping, mapping_ops_of. destruct (pm_interp m =? 0);
    cbn [app map concat enc_mapping_op]; rewrite ?app_nil_r, <- ?app_assoc; reflexivity.
Qed.
Definition mapping_ok (m : pb_mapping) : Prop := pm_interp m < 4294967296.
Lemma mapping_ops_of_ok m : mapping_ok m -> Forall mapping_op_ok (mapping_ops_of m).
Proof.
  intros H. unfold mapping_ops_of.
  destruct (pm_interp m =? 0); cbn [app]; (constructor; [exact I|]); (constructor; [exact I|]);
    [constructor|constructor; [exact H|constructor]].
Qed.
Theorem parse_mapping_acc_stream m0 m :
  mapping_ok m ->
  parse_mapping_acc m0 (stream_mapping m) = Some (fold_left mapping_apply (mapping_ops_of m) m0).
Proof.
  intros H. unfold parse_mapping_acc. rewrite stream_mapping_ops.
  apply (fold_ops mapping_step enc_mapping_op mapping_apply mapping_op_ok); [|apply mapping_ops_of_ok; exact H].
  intros op a rest. apply mapping_step_ok.
Qed.
Lemma mapping_result m : fold_left mapping_apply (mapping_ops_of m) pb_mapping_default = m.
Proof.
  destruct m as [g o i]. unfold mapping_ops_of. cbn [pm_gamma pm_offset pm_interp].
  destruct (N.eqb_spec i 0) as [->|Hn]; reflexivity.
Qed.
Theorem parse_mapping_stream m : mapping_ok m -> parse_mapping (stream_mapping m) = Some m.
Proof.
  intros H. unfold parse_mapping. rewrite (parse_mapping_acc_stream _ m H), mapping_result. reflexivity.
Qed.
Lemma stream_mapping_length m : (length (stream_mapping m) <= 56)%nat.
Proof.
  unfold stream_mapping. rewrite !app_length, !enc_double_length.
  pose proof (enc_tag_length 1 WT_I64). pose proof (enc_tag_length 2 WT_I64).
  destruct (pm_interp m =? 0); [cbn [length]; lia|].
  rewrite app_length. pose proof (enc_tag_length 3 WT_VARINT). pose proof (enc_varint_length (pm_interp m)). lia.
Qed.

(* ---- DDSketch ---- *)
Inductive sketch_op := KMapping (m : pb_mapping) | KZero (v : f64) | KNeg (p : pb_store) | KPos (p : pb_store).
Definition enc_sketch_op (op : sketch_op) : list byte :=
  match op with
  | KMapping m => pb_enc_len 1 (stream_mapping m)
  | KZero v => pb_enc_tag 4 WT_I64 ++ pb_enc_double v
  | KNeg p => pb_enc_len 3 (stream_store p)
  | KPos p => pb_enc_len 2 (stream_store p)
  end.
Definition sketch_apply (a : sketch_acc) (op : sketch_op) : sketch_acc :=
  match op with
  | KMapping m =>
    {| ka_mapping := Some (fold_left mapping_apply (mapping_ops_of m) (or_default pb_mapping_default (ka_mapping a)));
       ka_pos := ka_pos a; ka_neg := ka_neg a; ka_zero := ka_zero a |}
  | KZero v => {| ka_mapping := ka_mapping a; ka_pos := ka_pos a; ka_neg := ka_neg a; ka_zero := v |}
  | KNeg p =>
    {| ka_mapping := ka_mapping a; ka_pos := ka_pos a;
       ka_neg := Some (fold_left store_apply (store_ops_of p) (or_default store_acc0 (ka_neg a)));
       ka_zero := ka_zero a |}
  | KPos p =>
    {| ka_mapping := ka_mapping a;
       ka_pos := Some (fold_left store_apply (store_ops_of p) (or_default store_acc0 (ka_pos a)));
       ka_neg := ka_neg a; ka_zero := ka_zero a |}
  end.
Definition sketch_op_ok (op : sketch_op) : Prop :=
  match op with
  | KMapping m => mapping_ok m
  | KZero _ => True
  | KNeg p | KPos p => store_ok p /\ store_small p
  end.

Lemma sketch_step_ok op a rest : sketch_op_ok op ->
  enc_sketch_op op <> [] /\
  exists fld val, pb_dec_field (enc_sketch_op op ++ rest) = Some (fld, val, rest) /\
                  sketch_step a fld val = Some (sketch_apply a op).
Proof.
  destruct op as [m|v|p|p]; intros H; cbn [enc_sketch_op sketch_op_ok] in *.
  - split; [unfold pb_enc_len; apply app_nonnil_l, enc_varint_nonnil|].
    exists 1, (PLen (stream_mapping m)). split.
    + apply dec_field_len; [apply field_ok_small; lia|].
      pose proof (stream_mapping_length m). unfold W64. lia.
    + unfold sketch_step. cbv beta iota. rewrite (parse_mapping_acc_stream _ m H). reflexivity.
  - split; [apply app_nonnil_l, enc_varint_nonnil|].
    exists 4, (PI64 (bits_of_f64 v)). split.
    + rewrite <- app_assoc. apply dec_field_double. apply field_ok_small; lia.
    + unfold sketch_step. cbv beta iota. rewrite f64_of_bits_of_f64. reflexivity.
  - destruct H as [Hok Hsm]. split; [unfold pb_enc_len; apply app_nonnil_l, enc_varint_nonnil|].
    exists 3, (PLen (stream_store p)). split.
    + apply dec_field_len; [apply field_ok_small; lia|apply stream_store_length; exact Hsm].
    + unfold sketch_step. cbv beta iota. unfold stream_store.
      rewrite (parse_store_ops (store_ops_of p) _ (store_ops_of_ok p Hok)). reflexivity.
  - destruct H as [Hok Hsm]. split; [unfold pb_enc_len; apply app_nonnil_l, enc_varint_nonnil|].
    exists 2, (PLen (stream_store p)). split.
    + apply dec_field_len; [apply field_ok_small; lia|apply stream_store_length; exact Hsm].
    + unfold sketch_step. cbv beta iota. unfold stream_store.
      rewrite (parse_store_ops (store_ops_of p) _ (store_ops_of_ok p Hok)). reflexivity.
Qed.

Definition opt_list {T U : Type} (f : T -> U) (o : option T) : list U := match o with Some a => [f a] | None => [] end.
Definition sketch_ops_of (s : pb_sketch) : list sketch_op :=
  opt_list KMapping (ps_mapping s) ++ [KZero (ps_zero s)] ++ opt_list KNeg (ps_neg s) ++ opt_list KPos (ps_pos s).
Lemma stream_sketch_ops s : stream_sketch s = concat (map enc_sketch_op (sketch_ops_of s)).
Proof.
  destruct s as [[m|] [p|] [n|] z]; unfold stream_sketch, sketch_ops_of; rewrite !pb_app_eq;
    cbn [ps_mapping ps_pos ps_neg ps_zero opt_list stream_opt app map concat enc_sketch_op];
    rewrite ?app_nil_r, <- ?app_assoc; reflexivity.
Qed.
Definition opt_ok {T : Type} (P : T -> Prop) (o : option T) : Prop := match o with Some a => P a | None => True end.
Definition sketch_ok (s : pb_sketch) : Prop :=
  opt_ok mapping_ok (ps_mapping s) /\
  opt_ok (fun p => store_ok p /\ store_small p) (ps_pos s) /\
  opt_ok (fun p => store_ok p /\ store_small p) (ps_neg s).
Lemma sketch_ops_of_ok s : sketch_ok s -> Forall sketch_op_ok (sketch_ops_of s).
Proof.
  intros [Hm [Hp Hn]]. destruct s as [[m|] [p|] [n|] z]; unfold sketch_ops_of;
    cbn [ps_mapping ps_pos ps_neg ps_zero opt_list app opt_ok] in *;
    repeat (apply Forall_cons; [first [exact Hm|exact Hp|exact Hn|exact I]|]); apply Forall_nil.
Qed.
Lemma sketch_result s : sketch_finish (fold_left sketch_apply (sketch_ops_of s) sketch_acc0) = s.
Proof.
  destruct s as [[m|] [p|] [n|] z]; unfold sketch_ops_of, sketch_finish;
    cbn [ps_mapping ps_pos ps_neg ps_zero opt_list app fold_left sketch_apply sketch_acc0
         ka_mapping ka_pos ka_neg ka_zero or_default option_map];
    rewrite ?mapping_result, ?store_result; reflexivity.
Qed.
Theorem parse_sketch_stream s : sketch_ok s -> parse_sketch (stream_sketch s) = Some s.
Proof.
  intros H. unfold parse_sketch. rewrite stream_sketch_ops.
  rewrite (fold_ops sketch_step enc_sketch_op sketch_apply sketch_op_ok).
  - cbn [option_map]. rewrite sketch_result. reflexivity.
  - intros op a rest. apply sketch_step_ok.
  - apply sketch_ops_of_ok. exact H.
Qed.

(* ================================================================== *)
(** * Part D: the dense store model (Store/Dense.v)                    *)
(* ================================================================== *)
(* DenseStore.ToProto as transcribed in Dense.to_proto_d (weights in Qc), turned into a message by
   rounding every cell to binary64, is the Layer A form of the store's abstract content. *)
Theorem dense_to_proto (s : Dense.dense) :
  DenseProofs.Inv s ->
  exists r, Dense.to_proto_d s = Some r /\ pb_of_dense_proto r = to_proto_dense (DenseProofs.dabs s).
Proof.
  intros I. unfold Dense.to_proto_d. destruct (Dense.is_empty s) eqn:E.
  - apply DenseProofs.is_empty_true in E. exists None. split; [reflexivity|].
    rewrite (DenseProofs.dabs_empty s I E). reflexivity.
  - apply DenseProofs.is_empty_false in E. rewrite (DenseProofs.window_spec s I).
    eexists. split; [reflexivity|]. unfold to_proto_dense.
    rewrite (DenseProofs.dabs_min s I E), (DenseProofs.dabs_max s I E). cbn [pb_of_dense_proto].
    f_equal. rewrite !map_map. apply map_ext. intros k. cbn [snd].
    rewrite (DenseProofs.get_dabs s k I). reflexivity.
Qed.

Lemma posb_pos (b : list (Z * W)) : DenseProofs.posb b -> pos b.
Proof. intros H. unfold pos. apply Forall_forall. intros [k w] Hin. cbn [snd]. exact (H k w Hin). Qed.

(* ToProto then MergeWithProto on the model of the dense store: the content comes back, into an
   empty receiver and as a merge into any receiver *)
Theorem dense_proto_roundtrip (s : Dense.dense) r0 :
  DenseProofs.Inv s -> f64_weights (DenseProofs.dabs s) -> wf r0 = true -> pos r0 ->
  exists r, Dense.to_proto_d s = Some r /\
            merge_with_proto [] (pb_of_dense_proto r) = DenseProofs.dabs s /\
            merge_with_proto r0 (pb_of_dense_proto r) = bmerge r0 (DenseProofs.dabs s).
Proof.
  intros I Hf Hr Hpr. destruct (dense_to_proto s I) as [r [E1 E2]]. exists r. split; [exact E1|].
  rewrite E2. pose proof (DenseProofs.dabs_wf s) as Hwf. pose proof (posb_pos _ (DenseProofs.dabs_pos s I)) as Hp.
  split; [apply proto_roundtrip_dense|apply merge_dense_into]; assumption.
Qed.

(* ================================================================== *)
(** * Part E: the proto.Marshal form                                   *)
(* ================================================================== *)
Lemma packed_loop_nil fuel acc : pb_dec_packed_loop fuel [] acc = Some acc.
Proof. destruct fuel; reflexivity. Qed.
Lemma packed_loop_step f v rest acc :
  pb_dec_packed_loop (S f) (pb_enc_double v ++ rest) acc = pb_dec_packed_loop f rest (v :: acc).
Proof.
  pose proof (double_roundtrip v rest) as H.
  destruct (pb_enc_double v ++ rest) as [|b l] eqn:E.
  - apply (f_equal (@length byte)) in E. rewrite app_length, enc_double_length in E. discriminate.
  - change (pb_dec_packed_loop (S f) (b :: l) acc)
      with (match pb_dec_double (b :: l) with
            | Some (v0, r) => pb_dec_packed_loop f r (v0 :: acc)
            | None => None
            end).
    rewrite H. reflexivity.
Qed.
Lemma packed_length l : length (concat (map pb_enc_double l)) = (8 * length l)%nat.
Proof.
  induction l as [|v l IH]; [reflexivity|]. cbn [map concat length].
  rewrite app_length, enc_double_length, IH. lia.
Qed.
Lemma packed_loop_all : forall l acc fuel,
  (8 * length l <= fuel)%nat ->
  pb_dec_packed_loop fuel (concat (map pb_enc_double l)) acc = Some (rev l ++ acc).
Proof.
  induction l as [|v l IH]; intros acc fuel Hf.
  - apply packed_loop_nil.
  - cbn [map concat length] in *. destruct fuel as [|fuel]; [lia|].
    rewrite packed_loop_step, IH by lia. cbn [rev]. rewrite <- app_assoc. reflexivity.
Qed.
Theorem packed_roundtrip l acc : pb_dec_packed (concat (map pb_enc_double l)) acc = Some (rev l ++ acc).
Proof. unfold pb_dec_packed. rewrite pb_length_eq. apply packed_loop_all. rewrite packed_length. lia. Qed.

(* ---- Store ---- *)
Inductive mstore_op := MOp (op : store_op) | MPacked (l : list f64).
Definition enc_mstore_op (op : mstore_op) : list byte :=
  match op with
  | MOp op => stream_store_op op
  | MPacked l => pb_enc_len 2 (concat (map pb_enc_double l))
  end.
Definition mstore_apply (a : store_acc) (op : mstore_op) : store_acc :=
  match op with
  | MOp op => store_apply a op
  | MPacked l => {| sa_bins := sa_bins a; sa_counts := rev l ++ sa_counts a; sa_off := sa_off a |}
  end.
Definition mstore_op_ok (op : mstore_op) : Prop :=
  match op with MOp op => store_op_ok op | MPacked l => N.of_nat (length l) < 2147483648 end.

Lemma mstore_step_ok op a rest : mstore_op_ok op ->
  enc_mstore_op op <> [] /\
  exists fld val, pb_dec_field (enc_mstore_op op ++ rest) = Some (fld, val, rest) /\
                  store_step a fld val = Some (mstore_apply a op).
Proof.
  destruct op as [op|l]; intros H; cbn [enc_mstore_op mstore_op_ok mstore_apply] in *.
  - apply store_step_ok. exact H.
  - split; [unfold pb_enc_len; apply app_nonnil_l, enc_varint_nonnil|].
    exists 2, (PLen (concat (map pb_enc_double l))). split.
    + apply dec_field_len; [apply field_ok_small; lia|]. rewrite packed_length. unfold W64. lia.
    + unfold store_step. cbv beta iota. rewrite packed_roundtrip. reflexivity.
Qed.

Definition mstore_ops_of (p : pb_store) : list mstore_op :=
  map (fun kv => MOp (OpBin (fst kv) (snd kv))) (bin_counts p)
  ++ (match contiguous_counts p with [] => [] | _ :: _ => [MPacked (contiguous_counts p)] end)
  ++ (if (contiguous_offset p =? 0)%Z then [] else [MOp (OpOffset (contiguous_offset p))]).
Lemma concat_map_app {T : Type} (f : T -> list byte) l1 l2 :
  concat (map f (l1 ++ l2)) = concat (map f l1) ++ concat (map f l2).
Proof. rewrite map_app, concat_app. reflexivity. Qed.
Lemma marshal_store_ops p : marshal_store p = concat (map enc_mstore_op (mstore_ops_of p)).
Proof.
  unfold marshal_store, mstore_ops_of. rewrite !pb_app_eq, !concat_map_app, map_map. f_equal. f_equal.
  - destruct (contiguous_counts p); cbn [map concat enc_mstore_op]; rewrite ?app_nil_r; reflexivity.
  - destruct (contiguous_offset p =? 0)%Z; cbn [map concat enc_mstore_op stream_store_op];
      rewrite ?app_nil_r; reflexivity.
Qed.
Lemma mstore_ops_of_ok p : store_ok p -> store_small p -> Forall mstore_op_ok (mstore_ops_of p).
Proof.
  intros [Hk Ho] [_ Hc]. unfold mstore_ops_of. apply Forall_app. split; [|apply Forall_app; split].
  - apply Forall_forall. intros op Hin. apply in_map_iff in Hin. destruct Hin as [kv [<- Hin]].
    cbn [mstore_op_ok store_op_ok]. rewrite Forall_forall in Hk. exact (Hk kv Hin).
  - destruct (contiguous_counts p) eqn:E; [constructor|]. constructor; [|constructor].
    cbn [mstore_op_ok]. exact Hc.
  - destruct (contiguous_offset p =? 0)%Z; [constructor|]. constructor; [exact Ho|constructor].
Qed.
Lemma fold_mbins l : forall a,
  fold_left mstore_apply (map (fun kv => MOp (OpBin (fst kv) (snd kv))) l) a =
  {| sa_bins := rev l ++ sa_bins a; sa_counts := sa_counts a; sa_off := sa_off a |}.
Proof.
  induction l as [|[k v] l IH]; intros a; [destruct a; reflexivity|].
  cbn [map fold_left fst snd]. rewrite IH. cbn [mstore_apply store_apply sa_bins sa_counts sa_off rev].
  rewrite <- app_assoc. reflexivity.
Qed.
Lemma mstore_result p : store_finish (fold_left mstore_apply (mstore_ops_of p) store_acc0) = p.
Proof.
  unfold mstore_ops_of. rewrite !fold_left_app, fold_mbins.
  destruct p as [bc cc o]. cbn [bin_counts contiguous_counts contiguous_offset store_acc0 sa_bins sa_counts sa_off].
  rewrite app_nil_r.
  destruct cc as [|c cc]; destruct (Z.eqb_spec o 0) as [->|Hn];
    cbn [fold_left mstore_apply store_apply sa_bins sa_counts sa_off]; unfold store_finish;
    cbn [sa_bins sa_counts sa_off]; rewrite !pb_rev_eq, ?app_nil_r, ?rev_involutive; reflexivity.
Qed.
Theorem parse_store_acc_marshal a p :
  store_ok p -> store_small p ->
  parse_store_acc a (marshal_store p) = Some (fold_left mstore_apply (mstore_ops_of p) a).
Proof.
  intros H1 H2. unfold parse_store_acc. rewrite marshal_store_ops.
  apply (fold_ops store_step enc_mstore_op mstore_apply mstore_op_ok); [|apply mstore_ops_of_ok; assumption].
  intros op a' rest. apply mstore_step_ok.
Qed.
Theorem parse_store_marshal p : store_ok p -> store_small p -> parse_store (marshal_store p) = Some p.
Proof.
  intros H1 H2. unfold parse_store. rewrite (parse_store_acc_marshal _ p H1 H2).
  cbn [option_map]. rewrite mstore_result. reflexivity.
Qed.

Lemma marshal_store_length p : store_small p -> N.of_nat (length (marshal_store p)) < W64.
Proof.
  intros [Hb Hc]. unfold marshal_store. rewrite !pb_app_eq, !app_length.
  assert (He : forall l : list (Z * f64),
            (length (concat (map (fun kv => pb_enc_len 1 (stream_entry (fst kv) (snd kv))) l)) <= 60 * length l)%nat).
  { induction l as [|kv l IH]; [cbn; lia|]. cbn [map concat length]. rewrite app_length.
    pose proof (stream_store_op_length (OpBin (fst kv) (snd kv))) as H. cbn [stream_store_op] in H. lia. }
  specialize (He (bin_counts p)).
  assert (Hp : (length (match contiguous_counts p with
                        | [] => []
                        | _ :: _ => pb_enc_len 2 (concat (map pb_enc_double (contiguous_counts p)))
                        end) <= 20 + 8 * length (contiguous_counts p))%nat).
  { destruct (contiguous_counts p) eqn:E; [cbn [length]; lia|]. rewrite <- E.
    pose proof (enc_len_length 2 (concat (map pb_enc_double (contiguous_counts p)))) as H.
    rewrite packed_length in H. lia. }
  assert (Ho : (length (if (contiguous_offset p =? 0)%Z then []
                        else pb_enc_tag 3 WT_VARINT ++ pb_enc_varint (pb_zigzag (contiguous_offset p))) <= 20)%nat).
  { destruct (contiguous_offset p =? 0)%Z; [cbn [length]; lia|]. rewrite app_length.
    pose proof (enc_tag_length 3 WT_VARINT). pose proof (enc_varint_length (pb_zigzag (contiguous_offset p))). lia. }
  unfold W64. lia.
Qed.

(* ---- IndexMapping ---- *)
Definition mapping_mops_of (m : pb_mapping) : list mapping_op :=
  (if bits_of_f64 (pm_gamma m) =? 0 then [] else [MGamma (pm_gamma m)])
  ++ (if bits_of_f64 (pm_offset m) =? 0 then [] else [MOffset (pm_offset m)])
  ++ (if pm_interp m =? 0 then [] else [MInterp (pm_interp m)]).
Lemma marshal_mapping_ops m : marshal_mapping m = concat (map enc_mapping_op (mapping_mops_of m)).
Proof.
  unfold marshal_mapping, mapping_mops_of, marshal_double_nz.
  destruct (bits_of_f64 (pm_gamma m) =? 0); destruct (bits_of_f64 (pm_offset m) =? 0); destruct (pm_interp m =? 0);
    cbn [app map concat enc_mapping_op]; rewrite ?app_nil_r, <- ?app_assoc; reflexivity.
Qed.
Lemma mapping_mops_of_ok m : mapping_ok m -> Forall mapping_op_ok (mapping_mops_of m).
Proof.
  intros H. unfold mapping_mops_of. repeat (apply Forall_app; split).
  - destruct (_ =? 0); [constructor|constructor; [exact I|constructor]].
  - destruct (_ =? 0); [constructor|constructor; [exact I|constructor]].
  - destruct (_ =? 0); [constructor|constructor; [exact H|constructor]].
Qed.
Lemma f64_bits0 (v : f64) : bits_of_f64 v = 0 -> v = f64_zero.
Proof. intros H. rewrite <- (f64_of_bits_of_f64 v), H. reflexivity. Qed.
Lemma mapping_mresult m : fold_left mapping_apply (mapping_mops_of m) pb_mapping_default = m.
Proof.
  destruct m as [g o i]. unfold mapping_mops_of. cbn [pm_gamma pm_offset pm_interp].
  destruct (N.eqb_spec (bits_of_f64 g) 0) as [Eg|Eg]; destruct (N.eqb_spec (bits_of_f64 o) 0) as [Eo|Eo];
    destruct (N.eqb_spec i 0) as [Ei|Ei];
    cbn [app fold_left mapping_apply pb_mapping_default pm_gamma pm_offset pm_interp];
    rewrite ?(f64_bits0 g Eg), ?(f64_bits0 o Eo), ?Ei; reflexivity.
Qed.
Theorem parse_mapping_acc_marshal m0 m :
  mapping_ok m ->
  parse_mapping_acc m0 (marshal_mapping m) = Some (fold_left mapping_apply (mapping_mops_of m) m0).
Proof.
  intros H. unfold parse_mapping_acc. rewrite marshal_mapping_ops.
  apply (fold_ops mapping_step enc_mapping_op mapping_apply mapping_op_ok); [|apply mapping_mops_of_ok; exact H].
  intros op a rest. apply mapping_step_ok.
Qed.
Theorem parse_mapping_marshal m : mapping_ok m -> parse_mapping (marshal_mapping m) = Some m.
Proof.
  intros H. unfold parse_mapping. rewrite (parse_mapping_acc_marshal _ m H), mapping_mresult. reflexivity.
Qed.
Lemma marshal_mapping_length m : (length (marshal_mapping m) <= 56)%nat.
Proof.
  unfold marshal_mapping, marshal_double_nz.
  pose proof (enc_tag_length 1 WT_I64). pose proof (enc_tag_length 2 WT_I64).
  pose proof (enc_tag_length 3 WT_VARINT). pose proof (enc_varint_length (pm_interp m)).
  destruct (_ =? 0); destruct (_ =? 0); destruct (_ =? 0);
    rewrite ?app_length, ?enc_double_length; cbn [length]; lia.
Qed.

(* ---- DDSketch ---- *)
Inductive sketch_mop := KMMapping (m : pb_mapping) | KMZero (v : f64) | KMNeg (p : pb_store) | KMPos (p : pb_store).
Definition enc_sketch_mop (op : sketch_mop) : list byte :=
  match op with
  | KMMapping m => pb_enc_len 1 (marshal_mapping m)
  | KMZero v => pb_enc_tag 4 WT_I64 ++ pb_enc_double v
  | KMNeg p => pb_enc_len 3 (marshal_store p)
  | KMPos p => pb_enc_len 2 (marshal_store p)
  end.
Definition sketch_mapply (a : sketch_acc) (op : sketch_mop) : sketch_acc :=
  match op with
  | KMMapping m =>
    {| ka_mapping := Some (fold_left mapping_apply (mapping_mops_of m) (or_default pb_mapping_default (ka_mapping a)));
       ka_pos := ka_pos a; ka_neg := ka_neg a; ka_zero := ka_zero a |}
  | KMZero v => {| ka_mapping := ka_mapping a; ka_pos := ka_pos a; ka_neg := ka_neg a; ka_zero := v |}
  | KMNeg p =>
    {| ka_mapping := ka_mapping a; ka_pos := ka_pos a;
       ka_neg := Some (fold_left mstore_apply (mstore_ops_of p) (or_default store_acc0 (ka_neg a)));
       ka_zero := ka_zero a |}
  | KMPos p =>
    {| ka_mapping := ka_mapping a;
       ka_pos := Some (fold_left mstore_apply (mstore_ops_of p) (or_default store_acc0 (ka_pos a)));
       ka_neg := ka_neg a; ka_zero := ka_zero a |}
  end.
Definition sketch_mop_ok (op : sketch_mop) : Prop :=
  match op with
  | KMMapping m => mapping_ok m
  | KMZero _ => True
  | KMNeg p | KMPos p => store_ok p /\ store_small p
  end.
Lemma sketch_mstep_ok op a rest : sketch_mop_ok op ->
  enc_sketch_mop op <> [] /\
  exists fld val, pb_dec_field (enc_sketch_mop op ++ rest) = Some (fld, val, rest) /\
                  sketch_step a fld val = Some (sketch_mapply a op).
Proof.
  destruct op as [m|v|p|p]; intros H; cbn [enc_sketch_mop sketch_mop_ok] in *.
  - split; [unfold pb_enc_len; apply app_nonnil_l, enc_varint_nonnil|].
    exists 1, (PLen (marshal_mapping m)). split.
    + apply dec_field_len; [apply field_ok_small; lia|].
      pose proof (marshal_mapping_length m). unfold W64. lia.
    + unfold sketch_step. cbv beta iota. rewrite (parse_mapping_acc_marshal _ m H). reflexivity.
  - split; [apply app_nonnil_l, enc_varint_nonnil|].
    exists 4, (PI64 (bits_of_f64 v)). split.
    + rewrite <- app_assoc. apply dec_field_double. apply field_ok_small; lia.
    + unfold sketch_step. cbv beta iota. rewrite f64_of_bits_of_f64. reflexivity.
  - destruct H as [Hok Hsm]. split; [unfold pb_enc_len; apply app_nonnil_l, enc_varint_nonnil|].
    exists 3, (PLen (marshal_store p)). split.
    + apply dec_field_len; [apply field_ok_small; lia|apply marshal_store_length; exact Hsm].
    + unfold sketch_step. cbv beta iota. rewrite (parse_store_acc_marshal _ p Hok Hsm). reflexivity.
  - destruct H as [Hok Hsm]. split; [unfold pb_enc_len; apply app_nonnil_l, enc_varint_nonnil|].
    exists 2, (PLen (marshal_store p)). split.
    + apply dec_field_len; [apply field_ok_small; lia|apply marshal_store_length; exact Hsm].
    + unfold sketch_step. cbv beta iota. rewrite (parse_store_acc_marshal _ p Hok Hsm). reflexivity.
Qed.
Definition sketch_mops_of (s : pb_sketch) : list sketch_mop :=
  opt_list KMMapping (ps_mapping s) ++ opt_list KMPos (ps_pos s) ++ opt_list KMNeg (ps_neg s)
  ++ (if bits_of_f64 (ps_zero s) =? 0 then [] else [KMZero (ps_zero s)]).
Lemma marshal_sketch_ops s : marshal_sketch s = concat (map enc_sketch_mop (sketch_mops_of s)).
Proof.
  destruct s as [[m|] [p|] [n|] z]; unfold marshal_sketch, sketch_mops_of, marshal_double_nz; rewrite !pb_app_eq;
    cbn [ps_mapping ps_pos ps_neg ps_zero opt_list stream_opt app];
    destruct (bits_of_f64 z =? 0); cbn [app map concat enc_sketch_mop];
    rewrite ?app_nil_r, <- ?app_assoc; reflexivity.
Qed.
Lemma sketch_mops_of_ok s : sketch_ok s -> Forall sketch_mop_ok (sketch_mops_of s).
Proof.
  intros [Hm [Hp Hn]]. destruct s as [[m|] [p|] [n|] z]; unfold sketch_mops_of;
    cbn [ps_mapping ps_pos ps_neg ps_zero opt_list app opt_ok] in *;
    destruct (bits_of_f64 z =? 0); cbn [app];
    repeat (apply Forall_cons; [first [exact Hm|exact Hp|exact Hn|exact I]|]); apply Forall_nil.
Qed.
Lemma sketch_mresult s : sketch_finish (fold_left sketch_mapply (sketch_mops_of s) sketch_acc0) = s.
Proof.
  destruct s as [[m|] [p|] [n|] z]; unfold sketch_mops_of, sketch_finish;
    cbn [ps_mapping ps_pos ps_neg ps_zero opt_list app];
    destruct (N.eqb_spec (bits_of_f64 z) 0) as [Ez|Ez];
    cbn [app fold_left sketch_mapply sketch_acc0 ka_mapping ka_pos ka_neg ka_zero or_default option_map];
    rewrite ?mapping_mresult, ?mstore_result, ?(f64_bits0 z Ez); reflexivity.
Qed.
Theorem parse_sketch_marshal s : sketch_ok s -> parse_sketch (marshal_sketch s) = Some s.
Proof.
  intros H. unfold parse_sketch. rewrite marshal_sketch_ops.
  rewrite (fold_ops sketch_step enc_sketch_mop sketch_mapply sketch_mop_ok).
  - cbn [option_map]. rewrite sketch_mresult. reflexivity.
  - intros op a rest. apply sketch_mstep_ok.
  - apply sketch_mops_of_ok. exact H.
Qed.

(* ================================================================== *)
(** * Part F: end to end, through the bytes                            *)
(* ================================================================== *)
Definition keys_ok (l : list (Z * W)) : Prop := Forall (fun kw => idx_ok (fst kw)) l.

Lemma store_ok_sparse l : keys_ok l -> store_ok (to_proto_sparse l).
Proof.
  intros H. split; cbn [to_proto_sparse bin_counts contiguous_offset].
  - apply Forall_forall. intros kv Hin. apply in_map_iff in Hin. destruct Hin as [kw [<- Hin]].
    cbn [fst]. unfold keys_ok in H. rewrite Forall_forall in H. exact (H kw Hin).
  - unfold idx_ok, MinInt32, MaxInt32. lia.
Qed.
Lemma store_ok_dense (b : bins) : keys_ok b -> store_ok (to_proto_dense b).
Proof.
  intros H. unfold to_proto_dense. destruct b as [|[k w] tl].
  - split; [constructor|]. cbn. unfold idx_ok, MinInt32, MaxInt32. lia.
  - cbn [min_key]. destruct (max_key ((k, w) :: tl)) as [mx|].
    + split; [constructor|]. cbn [contiguous_offset]. inversion H; subst. assumption.
    + split; [constructor|]. cbn. unfold idx_ok, MinInt32, MaxInt32. lia.
Qed.
Lemma keys_ok_perm l l' : Permutation l l' -> keys_ok l -> keys_ok l'.
Proof. intros Hp H. unfold keys_ok in *. eapply Permutation_Forall; eassumption. Qed.

(* ToProto, the streaming writer (or proto.Marshal), the parser, MergeWithProto: the receiver ends up
   with the merge, for both store forms and both wire forms *)
Theorem wire_roundtrip_sparse r b l :
  wf r = true -> pos r -> wf b = true -> pos b -> f64_weights b -> keys_ok b -> Permutation b l ->
  exists p, parse_store (stream_store (to_proto_sparse l)) = Some p /\ merge_with_proto r p = bmerge r b.
Proof.
  intros Hr Hpr Hb Hpb Hf Hk Hperm. exists (to_proto_sparse l). split.
  - apply parse_store_stream, store_ok_sparse. eapply keys_ok_perm; eassumption.
  - apply merge_sparse_into; assumption.
Qed.
Theorem wire_roundtrip_dense r b :
  wf r = true -> pos r -> wf b = true -> pos b -> f64_weights b -> keys_ok b ->
  exists p, parse_store (stream_store (to_proto_dense b)) = Some p /\ merge_with_proto r p = bmerge r b.
Proof.
  intros Hr Hpr Hb Hpb Hf Hk. exists (to_proto_dense b). split.
  - apply parse_store_stream, store_ok_dense. exact Hk.
  - apply merge_dense_into; assumption.
Qed.
