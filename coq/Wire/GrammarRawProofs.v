(* The raw meaning of the parsed stream is the documented meaning of the serialised one:
   no stability / exactness premise on the weights. *)
From Coq Require Import Bool NArith ZArith List.
From Flocq Require Import IEEE754.BinarySingleNaN IEEE754.Binary IEEE754.Bits.
From SK Require Import Codec.Codec.
From SK Require Codec.Varfloat.
From SK Require Import Base.Prelude Base.F64 Spec.Bins Spec.BinsProofs.
From SK Require Import Wire.Grammar Wire.GrammarRaw Wire.WireProofs.
Import ListNotations.
Close Scope Z_scope.
Close Scope N_scope.
Open Scope nat_scope.
Open Scope list_scope.

Lemma bins_of_block_raw_eq bb : bins_of_block_raw bb = bins_of_block_w f2q bb.
Proof.
  destruct bb as [l|l|first stride l]; cbn [bins_of_block_raw bins_of_block_w].
  - apply (idc_fold f2q l 0%Z []).
  - apply (id_fold l 0%Z []).
  - apply (cc_fold f2q stride l first []).
Qed.

(* the bins read off the parsed block = the bins the grammar gives to the block that was serialised *)
Theorem bins_raw_wire bb : bins_of_block_raw (wire_bins bb) = bins_of_block bb.
Proof. rewrite bins_of_block_raw_eq. apply raw_bins_wire. Qed.

Theorem sem_block_raw_wire c b : sem_block_raw c (wire_block b) = sem_block c b.
Proof.
  destruct b as [w|k g o|neg bb|w|x|x|x]; cbn [wire_block]; try reflexivity.
  destruct neg; cbn [sem_block_raw sem_block]; rewrite bins_raw_wire; reflexivity.
Qed.

Lemma sem_raw_wire_from : forall st c,
  fold_left sem_block_raw (wire_stream st) c = fold_left sem_block st c.
Proof.
  induction st as [|b st IH]; intros c; [reflexivity|].
  cbn [wire_stream map fold_left]. rewrite sem_block_raw_wire. apply IH.
Qed.
Theorem sem_raw_wire st : sem_raw (wire_stream st) = sem st.
Proof. unfold sem_raw, sem. apply sem_raw_wire_from. Qed.

(* the documentation-only decoder recovers the documented meaning of every well-formed stream *)
Theorem ref_decode_raw_serialize st : wf_stream st -> ref_decode_raw (serialize st) = Some (sem st).
Proof.
  intros Hwf. unfold ref_decode_raw. rewrite parse_serialize by exact Hwf. cbn [option_map].
  rewrite sem_raw_wire. reflexivity.
Qed.

(* concatenation of encodings = merge *)
Theorem ref_decode_raw_concat a b : wf_stream a -> wf_stream b ->
  ref_decode_raw (serialize a ++ serialize b) = Some (fold_left sem_block b (sem a)).
Proof.
  intros Ha Hb. rewrite <- serialize_app. rewrite ref_decode_raw_serialize.
  - rewrite sem_app. reflexivity.
  - apply Forall_app. split; assumption.
Qed.
Corollary ref_decode_raw_concat_bins a b : wf_stream a -> wf_stream b ->
  exists c, ref_decode_raw (serialize a ++ serialize b) = Some c /\
    c_pos c = bmerge_list (c_pos (sem a)) (stream_pos_bins b) /\
    c_neg c = bmerge_list (c_neg (sem a)) (stream_neg_bins b) /\
    c_zero c = fold_left wadd (stream_zero b) (c_zero (sem a)) /\
    c_map c = last_mapping (c_map (sem a)) b.
Proof.
  intros Ha Hb. eexists. split; [apply ref_decode_raw_concat; assumption|].
  rewrite <- sem_app. apply sem_app_all.
Qed.

(* where the double transform is harmless the two reference decoders agree *)
Theorem ref_decode_raw_stable st : wf_stream st -> stable_stream st ->
  ref_decode_raw (serialize st) = ref_decode (serialize st).
Proof.
  intros Hwf Hs. rewrite ref_decode_raw_serialize by exact Hwf.
  rewrite ref_decode_serialize by assumption. reflexivity.
Qed.
Corollary ref_decode_raw_exact st : wf_stream st -> exact_stream st ->
  ref_decode_raw (serialize st) = ref_decode (serialize st).
Proof. intros Hwf He. apply ref_decode_raw_stable; [exact Hwf|apply exact_stable_stream; exact He]. Qed.

(* a truncated stream is refused (the parser is shared) *)
Theorem ref_decode_raw_truncation st b p s : wf_stream st -> wf_block b ->
  ser_block b = p ++ s -> s <> [] -> p <> [] -> ref_decode_raw (serialize st ++ p) = None.
Proof.
  intros Hwf Hb H Hs Hp. unfold ref_decode_raw.
  rewrite (stream_truncation st b p s Hwf Hb H Hs Hp). reflexivity.
Qed.
