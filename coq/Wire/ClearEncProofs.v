(* C15, the encoding clause: a cleared store or sketch ENCODES byte for byte like a freshly
   constructed one. Nothing of what the store retains across Clear (the dense store's offset,
   the paginated store's page table and trigger) and nothing of the sketch's earlier statistics
   or zero count reaches the wire.
     - dense kinds (exact, collapsing-lowest, collapsing-highest): Encode returns at once on
       IsEmpty (count = 0), whatever offset the cleared store retains;
     - sparse: Clear leaves the very value the constructor builds;
     - paginated: Encode compacts first; on a cleared store the buffer is empty, so compaction
       touches no page, and every page of the retained table has length 0 and is skipped.
   Hence the bytes of a cleared store are [] for every kind, as for a new store; those of a cleared
   sketch are the mapping block alone (nothing when the mapping is omitted), for both variants.
   The invariants StInv / SkInv are not needed; the statements of Props/C15enc.v carry them
   because that is where C15 quantifies. *)
From Coq Require Import Bool NArith ZArith List Lia.
From Flocq Require Import IEEE754.BinarySingleNaN IEEE754.Binary IEEE754.Bits.
From SK Require Import Codec.Codec.
From SK Require Codec.Varfloat.
From SK Require Import Base.Prelude Base.F64 Spec.Bins Spec.BinsProofs Store.Any Stat.Summary Sketch.Sketch.
From SK Require Import Store.AnyProofs Sketch.RefineProofs.
From SK Require Import Wire.Wire.
Import ListNotations.
Close Scope Z_scope.
Close Scope N_scope.
Open Scope nat_scope.
Open Scope list_scope.

(* which variant a sketch is: DDSketchWithExactSummaryStatistics (true) or DDSketch (false) *)
Definition sk_is_exact (s : sketch) : bool := match sk_stats s with Some _ => true | None => false end.

(* ---------------- stores ---------------- *)
Lemma enc_dense_empty (d : dense) (t : N) : is_empty d = true -> enc_dense d t = [].
Proof. intros H. unfold enc_dense. rewrite H. reflexivity. Qed.

Lemma enc_dense_clear (d : dense) (t : N) : enc_dense (clear_d d) t = [].
Proof. apply enc_dense_empty. unfold is_empty, clear_d; simpl. apply weqb_refl. Qed.
Lemma enc_dense_new (l : limit) (t : N) : enc_dense (new_dense l) t = [].
Proof. apply enc_dense_empty. unfold is_empty, new_dense; simpl. apply weqb_refl. Qed.

(* the page blocks of a table of cleared pages *)
Lemma pag_blocks_of_cleared_pages (f : nat * list W -> list byte) (pp : list (list W)) :
  (forall off, f (off, []) = []) ->
  forall n, concat (map f (combine (seq n (length (map (fun _ : list W => @nil W) pp)))
                                   (map (fun _ : list W => @nil W) pp))) = [].
Proof.
  intros Hf. induction pp as [|p pp IH]; intros n; simpl; [reflexivity|].
  rewrite Hf, IH. reflexivity.
Qed.

Lemma compact_clear (p : pag) :
  compact pgrow8 worth32 ZSort.sort (p_clear p) =
  {| buffer := []; trigger := zlen (@nil Z) + pageLen;
     pages := map (fun _ => []) (pages p); minPage := MaxInt64 |}.
Proof. reflexivity. Qed.
Lemma compact_new :
  compact pgrow8 worth32 ZSort.sort new_pag =
  {| buffer := []; trigger := zlen (@nil Z) + pageLen; pages := []; minPage := MaxInt64 |}.
Proof. reflexivity. Qed.

Lemma enc_pag_clear (p : pag) (t : N) : snd (enc_pag (p_clear p) t) = [].
Proof.
  unfold enc_pag. rewrite compact_clear. cbv beta iota zeta delta [snd buffer pages minPage].
  rewrite app_nil_l.
  apply (pag_blocks_of_cleared_pages
           (fun op => let '(off, pg) := op in
                      match pg with
                      | [] => []
                      | _ => enc_flag t sub_contiguous ++ enc_uv (N.of_nat (length pg))
                             ++ enc_sv (index_of (MaxInt64 + Z.of_nat off) 0) ++ enc_sv 1
                             ++ concat (map enc_w pg)
                      end)).
  reflexivity.
Qed.
Lemma enc_pag_new (t : N) : snd (enc_pag new_pag t) = [].
Proof. reflexivity. Qed.

(* a cleared store of any kind emits no byte *)
Theorem enc_store_clear_empty (s : store) (t : N) : snd (enc_store (st_clear s) t) = [].
Proof.
  destruct s as [d|m|p].
  - change (enc_dense (clear_d d) t = []). apply enc_dense_clear.
  - reflexivity.
  - change (snd (let '(p', b) := enc_pag (p_clear p) t in (SP p', b)) = []).
    pose proof (enc_pag_clear p t) as H. destruct (enc_pag (p_clear p) t) as [p' b]. exact H.
Qed.
(* neither does a new one *)
Theorem enc_store_new_empty (k : kind) (t : N) : snd (enc_store (st_new k) t) = [].
Proof.
  destruct k as [| | |n|n].
  - change (enc_dense (new_dense Exact) t = []). apply enc_dense_new.
  - reflexivity.
  - reflexivity.
  - change (enc_dense (new_dense (Lowest n)) t = []). apply enc_dense_new.
  - change (enc_dense (new_dense (Highest n)) t = []). apply enc_dense_new.
Qed.

Theorem enc_store_clear_like_new (s : store) (t : N) :
  StInv s -> snd (enc_store (st_clear s) t) = snd (enc_store (st_new (st_kind s)) t).
Proof. intros _. rewrite enc_store_clear_empty, enc_store_new_empty. reflexivity. Qed.

(* what the encoder hands back after encoding a cleared store is again a store that encodes to
   nothing (the paginated encoder returns the compacted store) *)
Theorem enc_store_clear_again (s : store) (t t' : N) :
  snd (enc_store (fst (enc_store (st_clear s) t)) t') = [].
Proof.
  destruct s as [d|m|p].
  - change (enc_dense (clear_d d) t' = []). apply enc_dense_clear.
  - reflexivity.
  - change (snd (enc_store (fst (let '(p', b) := enc_pag (p_clear p) t in (SP p', b))) t') = []).
    assert (H : fst (enc_pag (p_clear p) t) =
                p_clear {| buffer := []; trigger := zlen (@nil Z) + pageLen;
                           pages := pages p; minPage := MaxInt64 |}).
    { unfold enc_pag. rewrite compact_clear. reflexivity. }
    destruct (enc_pag (p_clear p) t) as [p' b]. cbv beta iota delta [fst] in H |- *. subst p'.
    apply (enc_store_clear_empty (SP _) t').
Qed.

(* ---------------- sketch ---------------- *)
(* fresh statistics emit no block: count 0, sum 0, min +inf, max -inf are the neutral values *)
Lemma stats_new_no_block :
  (if feq (su_count su_new) f64_zero then [] else [flag_count] ++ Varfloat.enc_vf (su_count su_new))
  ++ (if feq (su_get_sum su_new) f64_zero then [] else [flag_sum] ++ Varfloat.enc_f64le (su_get_sum su_new))
  ++ (if feq (su_min su_new) f64_pinf then [] else [flag_min] ++ Varfloat.enc_f64le (su_min su_new))
  ++ (if feq (su_max su_new) f64_ninf then [] else [flag_max] ++ Varfloat.enc_f64le (su_max su_new))
  = @nil byte.
Proof. vm_compute. reflexivity. Qed.

Lemma enc_sketch_bytes (s : sketch) (omit : bool) :
  snd (enc_sketch s omit) =
  (match sk_stats s with
   | None => []
   | Some t =>
     (if feq (su_count t) f64_zero then [] else [flag_count] ++ Varfloat.enc_vf (su_count t))
     ++ (if feq (su_get_sum t) f64_zero then [] else [flag_sum] ++ Varfloat.enc_f64le (su_get_sum t))
     ++ (if feq (su_min t) f64_pinf then [] else [flag_min] ++ Varfloat.enc_f64le (su_min t))
     ++ (if feq (su_max t) f64_ninf then [] else [flag_max] ++ Varfloat.enc_f64le (su_max t))
   end)
  ++ (if weqb (sk_zero s) w0 then [] else [flag_zero_count] ++ enc_w (sk_zero s))
  ++ (if omit then [] else enc_mapping (sk_map s))
  ++ snd (enc_store (sk_pos s) ft_positive) ++ snd (enc_store (sk_neg s) ft_negative).
Proof.
  unfold enc_sketch.
  destruct (enc_store (sk_pos s) ft_positive) as [p' bp].
  destruct (enc_store (sk_neg s) ft_negative) as [n' bn]. reflexivity.
Qed.

(* a cleared sketch emits the mapping block and nothing else *)
Theorem enc_sketch_clear_bytes (s : sketch) (omit : bool) :
  snd (enc_sketch (sk_clear s) omit) = if omit then [] else enc_mapping (sk_map s).
Proof.
  rewrite enc_sketch_bytes. unfold sk_clear; cbn [sk_stats sk_zero sk_map sk_pos sk_neg].
  rewrite !enc_store_clear_empty, weqb_refl, !app_nil_r.
  destruct (sk_stats s); cbv beta iota; [rewrite stats_new_no_block|]; reflexivity.
Qed.
Theorem enc_sketch_new_bytes (m : mapid) (kp kn : kind) (exact omit : bool) :
  snd (enc_sketch (sk_new m kp kn exact) omit) = if omit then [] else enc_mapping m.
Proof.
  rewrite enc_sketch_bytes. unfold sk_new; cbn [sk_stats sk_zero sk_map sk_pos sk_neg].
  rewrite !enc_store_new_empty, weqb_refl, !app_nil_r.
  destruct exact; cbv beta iota; [rewrite stats_new_no_block|]; reflexivity.
Qed.

Theorem enc_sketch_clear_like_new (s : sketch) (omit : bool) :
  SkInv s ->
  snd (enc_sketch (sk_clear s) omit) =
  snd (enc_sketch (sk_new (sk_map s) (st_kind (sk_pos s)) (st_kind (sk_neg s)) (sk_is_exact s)) omit).
Proof. intros _. rewrite enc_sketch_clear_bytes, enc_sketch_new_bytes. reflexivity. Qed.

(* the sketch the encoder hands back (its paginated stores compacted) still encodes like a new one *)
Theorem enc_sketch_clear_again (s : sketch) (omit omit' : bool) :
  snd (enc_sketch (fst (enc_sketch (sk_clear s) omit)) omit') = if omit' then [] else enc_mapping (sk_map s).
Proof.
  rewrite enc_sketch_bytes.
  assert (H : fst (enc_sketch (sk_clear s) omit) =
              with_stores (sk_clear s) (fst (enc_store (st_clear (sk_pos s)) ft_positive))
                                       (fst (enc_store (st_clear (sk_neg s)) ft_negative))).
  { unfold enc_sketch. unfold sk_clear at 1 2; cbn [sk_pos sk_neg].
    destruct (enc_store (st_clear (sk_pos s)) ft_positive) as [p' bp].
    destruct (enc_store (st_clear (sk_neg s)) ft_negative) as [n' bn]. reflexivity. }
  rewrite H. unfold with_stores, sk_clear; cbn [sk_stats sk_zero sk_map sk_pos sk_neg].
  rewrite !enc_store_clear_again, weqb_refl, !app_nil_r.
  destruct (sk_stats s); cbv beta iota; [rewrite stats_new_no_block|]; reflexivity.
Qed.
