(* The wire format as ddsketch/encoding/flag.go DOCUMENTS it: an inductive grammar of blocks, its
   serialisation, its meaning (content), and a reference decoder [ref_decode] into Layer A content
   written from the documentation alone — it knows nothing about the stores or about the
   implementation's decoder. The flag constants are written down here, not derived from the source:
   a consistent change of a constant in the implementation's encoder and decoder must show up.
   Definitions only. *)
From Flocq Require Import IEEE754.BinarySingleNaN IEEE754.Binary IEEE754.Bits.
From SK Require Import Codec.Codec.
From SK Require Codec.Varfloat.
From SK Require Import Base.Prelude Base.F64 Spec.Bins.

(* bins of one block *)
Inductive bin_block :=
| IndexDeltasAndCounts (l : list (Z * f64))        (* (index delta, count) *)
| IndexDeltas (l : list Z)                         (* index deltas; counts are 1 *)
| ContiguousCounts (first stride : Z) (l : list f64).
Inductive block :=
| BZeroCount (w : f64)
| BMapping (kind : N) (gamma offset : f64)         (* kind = interpolation subflag: 0 log, 1 linear, 3 cubic (2 quadratic, 4 quartic) *)
| BStore (negative : bool) (b : bin_block)
| BCount (w : f64) | BSum (x : f64) | BMin (x : f64) | BMax (x : f64).
Definition stream := list block.

(* documented flag layout: type = 2 least significant bits, subflag = 6 most significant bits *)
Definition g_flag (ty sub : N) : byte := N.lor ty (N.shiftl sub 2).
Definition TY_FEATURES : N := 0.  Definition TY_MAPPING : N := 2.
Definition TY_POSITIVE : N := 1.  Definition TY_NEGATIVE : N := 3.
Definition SUB_ZERO_COUNT : N := 1.  Definition SUB_COUNT : N := 40.   (* 0x28 *)
Definition SUB_SUM : N := 33.  Definition SUB_MIN : N := 34.  Definition SUB_MAX : N := 35.   (* 0x21 0x22 0x23 *)
Definition SUB_BINS_IDC : N := 1.  Definition SUB_BINS_ID : N := 2.  Definition SUB_BINS_CC : N := 3.

Definition ser_bins (b : bin_block) : N * list byte :=
  match b with
  | IndexDeltasAndCounts l =>
    (SUB_BINS_IDC, enc_uv (N.of_nat (length l)) ++ concat (map (fun dc => enc_sv (fst dc) ++ Varfloat.enc_vf (snd dc)) l))
  | IndexDeltas l => (SUB_BINS_ID, enc_uv (N.of_nat (length l)) ++ concat (map enc_sv l))
  | ContiguousCounts first stride l =>
    (SUB_BINS_CC, enc_uv (N.of_nat (length l)) ++ enc_sv first ++ enc_sv stride ++ concat (map Varfloat.enc_vf l))
  end.
Definition ser_block (b : block) : list byte :=
  match b with
  | BZeroCount w => g_flag TY_FEATURES SUB_ZERO_COUNT :: Varfloat.enc_vf w
  | BMapping k g o => g_flag TY_MAPPING k :: Varfloat.enc_f64le g ++ Varfloat.enc_f64le o
  | BStore neg bb => let '(sub, body) := ser_bins bb in g_flag (if neg then TY_NEGATIVE else TY_POSITIVE) sub :: body
  | BCount w => g_flag TY_FEATURES SUB_COUNT :: Varfloat.enc_vf w
  | BSum x => g_flag TY_FEATURES SUB_SUM :: Varfloat.enc_f64le x
  | BMin x => g_flag TY_FEATURES SUB_MIN :: Varfloat.enc_f64le x
  | BMax x => g_flag TY_FEATURES SUB_MAX :: Varfloat.enc_f64le x
  end.
Definition serialize (s : stream) : list byte := concat (map ser_block s).

(* meaning: the content a stream denotes. Indexes are accumulated in 64-bit arithmetic as documented
   for varint64; weights are what the varfloat codec carries, (w+1)-1 *)
Record content := { c_pos : bins; c_neg : bins; c_zero : W; c_map : option (N * f64 * f64);
                    c_count : list f64; c_sum : list f64; c_min : list f64; c_max : list f64 }.
Definition c_empty : content :=
  {| c_pos := []; c_neg := []; c_zero := w0; c_map := None; c_count := []; c_sum := []; c_min := []; c_max := [] |}.
Definition wire_w (x : f64) : W := f2q (fsub (fadd x f64_one) f64_one).
Definition bins_of_block (b : bin_block) : list (Z * W) :=
  match b with
  | IndexDeltasAndCounts l =>
    snd (fold_left (fun acc dc => let i := wrap_i64 (fst acc + fst dc) in (i, snd acc ++ [(i, wire_w (snd dc))])) l (0, []))
  | IndexDeltas l =>
    snd (fold_left (fun acc d => let i := wrap_i64 (fst acc + d) in (i, snd acc ++ [(i, w1)])) l (0, []))
  | ContiguousCounts first stride l =>
    snd (fold_left (fun acc c => (wrap_i64 (fst acc + stride), snd acc ++ [(fst acc, wire_w c)])) l (first, []))
  end.
Definition sem_block (c : content) (b : block) : content :=
  match b with
  | BZeroCount w => {| c_pos := c_pos c; c_neg := c_neg c; c_zero := wadd (c_zero c) (wire_w w); c_map := c_map c;
                       c_count := c_count c; c_sum := c_sum c; c_min := c_min c; c_max := c_max c |}
  | BMapping k g o => {| c_pos := c_pos c; c_neg := c_neg c; c_zero := c_zero c; c_map := Some (k, g, o);
                         c_count := c_count c; c_sum := c_sum c; c_min := c_min c; c_max := c_max c |}
  | BStore false bb => {| c_pos := bmerge_list (c_pos c) (bins_of_block bb); c_neg := c_neg c; c_zero := c_zero c; c_map := c_map c;
                          c_count := c_count c; c_sum := c_sum c; c_min := c_min c; c_max := c_max c |}
  | BStore true bb => {| c_pos := c_pos c; c_neg := bmerge_list (c_neg c) (bins_of_block bb); c_zero := c_zero c; c_map := c_map c;
                         c_count := c_count c; c_sum := c_sum c; c_min := c_min c; c_max := c_max c |}
  | BCount w => {| c_pos := c_pos c; c_neg := c_neg c; c_zero := c_zero c; c_map := c_map c;
                   c_count := c_count c ++ [fsub (fadd w f64_one) f64_one]; c_sum := c_sum c; c_min := c_min c; c_max := c_max c |}
  | BSum x => {| c_pos := c_pos c; c_neg := c_neg c; c_zero := c_zero c; c_map := c_map c;
                 c_count := c_count c; c_sum := c_sum c ++ [x]; c_min := c_min c; c_max := c_max c |}
  | BMin x => {| c_pos := c_pos c; c_neg := c_neg c; c_zero := c_zero c; c_map := c_map c;
                 c_count := c_count c; c_sum := c_sum c; c_min := c_min c ++ [x]; c_max := c_max c |}
  | BMax x => {| c_pos := c_pos c; c_neg := c_neg c; c_zero := c_zero c; c_map := c_map c;
                 c_count := c_count c; c_sum := c_sum c; c_min := c_min c; c_max := c_max c ++ [x] |}
  end.
Definition sem (s : stream) : content := fold_left sem_block s c_empty.

(* ---------- reference parser: bytes -> stream, by the documented layout ---------- *)
Fixpoint parse_idc (fuel : nat) (n : N) (b : list byte) (acc : list (Z * f64)) : option (list (Z * f64) * list byte) :=
  if (n =? 0)%N then Some (rev acc, b) else
  match fuel with
  | O => None
  | S f => match dec_sv b with
           | Ok d b1 => match Varfloat.dec_vf b1 with
                        | Ok c b2 => parse_idc f (n - 1)%N b2 ((d, c) :: acc)
                        | _ => None end
           | _ => None end
  end.
Fixpoint parse_id (fuel : nat) (n : N) (b : list byte) (acc : list Z) : option (list Z * list byte) :=
  if (n =? 0)%N then Some (rev acc, b) else
  match fuel with
  | O => None
  | S f => match dec_sv b with Ok d b1 => parse_id f (n - 1)%N b1 (d :: acc) | _ => None end
  end.
Fixpoint parse_cc (fuel : nat) (n : N) (b : list byte) (acc : list f64) : option (list f64 * list byte) :=
  if (n =? 0)%N then Some (rev acc, b) else
  match fuel with
  | O => None
  | S f => match Varfloat.dec_vf b with Ok c b1 => parse_cc f (n - 1)%N b1 (c :: acc) | _ => None end
  end.
Definition parse_bins (sub : N) (b : list byte) : option (bin_block * list byte) :=
  match dec_uv b with
  | Ok n b1 =>
    if (sub =? SUB_BINS_IDC)%N then
      match parse_idc (S (length b1)) n b1 [] with Some (l, r) => Some (IndexDeltasAndCounts l, r) | None => None end
    else if (sub =? SUB_BINS_ID)%N then
      match parse_id (S (length b1)) n b1 [] with Some (l, r) => Some (IndexDeltas l, r) | None => None end
    else if (sub =? SUB_BINS_CC)%N then
      match dec_sv b1 with
      | Ok first b2 => match dec_sv b2 with
                       | Ok stride b3 => match parse_cc (S (length b3)) n b3 [] with
                                         | Some (l, r) => Some (ContiguousCounts first stride l, r) | None => None end
                       | _ => None end
      | _ => None end
    else None
  | _ => None
  end.
Definition parse_block (b : list byte) : option (block * list byte) :=
  match b with
  | [] => None
  | f :: b1 =>
    let ty := N.land f 3 in let sub := N.shiftr f 2 in
    if (ty =? TY_POSITIVE)%N then match parse_bins sub b1 with Some (bb, r) => Some (BStore false bb, r) | None => None end
    else if (ty =? TY_NEGATIVE)%N then match parse_bins sub b1 with Some (bb, r) => Some (BStore true bb, r) | None => None end
    else if (ty =? TY_MAPPING)%N then
      match Varfloat.dec_f64le b1 with
      | Ok g b2 => match Varfloat.dec_f64le b2 with Ok o b3 => Some (BMapping sub g o, b3) | _ => None end
      | _ => None end
    else if (sub =? SUB_ZERO_COUNT)%N then match Varfloat.dec_vf b1 with Ok w r => Some (BZeroCount w, r) | _ => None end
    else if (sub =? SUB_COUNT)%N then match Varfloat.dec_vf b1 with Ok w r => Some (BCount w, r) | _ => None end
    else if (sub =? SUB_SUM)%N then match Varfloat.dec_f64le b1 with Ok x r => Some (BSum x, r) | _ => None end
    else if (sub =? SUB_MIN)%N then match Varfloat.dec_f64le b1 with Ok x r => Some (BMin x, r) | _ => None end
    else if (sub =? SUB_MAX)%N then match Varfloat.dec_f64le b1 with Ok x r => Some (BMax x, r) | _ => None end
    else None
  end.
Fixpoint parse_stream (fuel : nat) (b : list byte) : option stream :=
  match b with
  | [] => Some []
  | _ => match fuel with
         | O => None
         | S f => match parse_block b with
                  | Some (blk, rest) => match parse_stream f rest with Some s => Some (blk :: s) | None => None end
                  | None => None
                  end
         end
  end.
Definition ref_parse (b : list byte) : option stream := parse_stream (S (length b)) b.
Definition ref_decode (b : list byte) : option content := option_map sem (ref_parse b).
