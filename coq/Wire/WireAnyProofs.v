(* The wire-format theorems of Wire/WireProofs.v (G3 the implementation's decoder accepts the
   documented grammar, G2 concatenation = merge, G5 truncation, G4 the encoders emit the grammar),
   extended from the sparse receiver to receivers and sources of ALL FIVE store kinds, through the
   refinement theorems of Store/AnyProofs.v (StInv, st_abs, st_addw_spec, st_add_spec).

   The interface [store_refines] of WireProofs.v quantifies the two add operations over EVERY
   index, which only the map-backed sparse store supports: the array-backed stores are specified
   on int32 indexes (idx_ok). [store_refines_idx] below is the same interface with an index
   predicate; the accumulated indexes of a stream are then required to be int32 ([idx_stream]).
   The step function of a collapsing store depends on its capacity, so the block loop is re-proved
   here with the step [sadd (st_limit s)] of whichever store receives the block. *)
From Coq Require Import Bool NArith ZArith List Lia ZifyN ZifyNat ZifyBool.
From Flocq Require Import IEEE754.BinarySingleNaN IEEE754.Binary IEEE754.Bits.
From SK Require Import Codec.Codec Codec.CodecProofs Codec.VarfloatProofs.
From SK Require Codec.Varfloat.
From SK Require Import Base.Prelude Base.F64 Spec.Bins Spec.BinsProofs Store.Any Stat.Summary Sketch.Sketch.
From SK Require Store.DenseProofs Store.PaginatedProofs.
From SK Require Import Store.AnyProofs.
From SK Require Import Wire.Grammar Wire.GrammarRaw Wire.Wire Wire.WireProofs Wire.GrammarRawProofs.
Import ListNotations.
Unset Lia Cache.
Close Scope Z_scope.
Close Scope N_scope.
Open Scope nat_scope.
Open Scope list_scope.

(* ================================================================== *)
(* 1. The store interface with an index predicate                      *)
(* ================================================================== *)
Definition ok_adds (oki : Z -> Prop) (okw : W -> Prop) (l : list (Z * W)) : Prop :=
  Forall (fun kw => oki (fst kw) /\ okw (snd kw)) l.

Definition store_refines_idx (abs : store -> bins) (good : store -> Prop) (oki : Z -> Prop) (okw : W -> Prop)
                             (step : bins -> Z -> W -> bins) : Prop :=
  (forall s i c, good s -> oki i -> okw c -> exists s', st_addw s i c = Some s' /\ good s' /\ abs s' = step (abs s) i c)
  /\ (forall s i, good s -> oki i -> exists s', st_add s i = Some s' /\ good s' /\ abs s' = step (abs s) i w1)
  /\ (forall s sub b, good s -> dec_bins s sub b = dec_bins_generic s sub b).

(* the interface of WireProofs.v is the instance "every index is admissible" *)
Lemma store_refines_idx_all abs good okw step :
  store_refines abs good okw step <-> store_refines_idx abs good (fun _ => True) okw step.
Proof.
  split; intros [H1 [H2 H3]]; (split; [|split; [|exact H3]]).
  - intros s i c Hg _ Hc. now apply H1.
  - intros s i Hg _. now apply H2.
  - intros s i c Hg Hc. now apply H1.
  - intros s i Hg. now apply H2.
Qed.

Section RefineIdx.
Variable abs : store -> bins.
Variable good : store -> Prop.
Variable oki : Z -> Prop.
Variable okw : W -> Prop.
Variable step : bins -> Z -> W -> bins.
Hypothesis Haddw : forall s i c, good s -> oki i -> okw c ->
  exists s', st_addw s i c = Some s' /\ good s' /\ abs s' = step (abs s) i c.
Hypothesis Hadd : forall s i, good s -> oki i ->
  exists s', st_add s i = Some s' /\ good s' /\ abs s' = step (abs s) i w1.

Lemma xi_idc_ser : forall (l : list (Z * f64)) idx s,
  good s -> Forall (fun dc => i64 (fst dc)) l -> ok_adds oki okw (idc_bins wire_w idx l) ->
  exists s', (forall fuel rest, length l <= fuel ->
                dec_idc_loop fuel (N.of_nat (length l)) idx s
                  (concat (map (fun dc => enc_sv (fst dc) ++ Varfloat.enc_vf (snd dc)) l) ++ rest) = DOk s' rest)
             /\ good s' /\ abs s' = steps step (abs s) (idc_bins wire_w idx l).
Proof.
  induction l as [|[d c] l IH]; intros idx s Hg Hwf Hok.
  - exists s. split; [|split; [exact Hg|reflexivity]]. intros fuel rest _. rewrite dec_idc_loop_eq. reflexivity.
  - inversion Hwf as [|x l' Hd Hl]; subst. cbn [fst] in Hd.
    cbn [idc_bins fst snd] in Hok. cbv zeta in Hok. inversion Hok as [|x l' [Hi Hc] Hokl]; subst. cbn [fst snd] in Hi, Hc.
    destruct (Haddw s (wrap_i64 (idx + d)) (wire_w c) Hg Hi Hc) as [s1 [E1 [G1 A1]]].
    destruct (IH (wrap_i64 (idx + d)) s1 G1 Hl Hokl) as [s' [E' [G' A']]].
    exists s'. split; [|split; [exact G'|]].
    + intros fuel rest Hfuel. destruct fuel as [|f]; [cbn [length] in Hfuel; lia|].
      cbn [length map concat fst snd]. rewrite dec_idc_loop_eq, of_nat_S_eqb.
      rewrite <- !app_assoc. rewrite dec_sv_enc by exact Hd. rewrite dec_count_enc, E1.
      rewrite of_nat_S_pred. apply E'. cbn [length] in Hfuel. lia.
    + rewrite A'. cbn [idc_bins fst snd]. cbv zeta. unfold steps at 2. cbn [fold_left fst snd]. rewrite A1. reflexivity.
Qed.
Lemma xi_id_ser : forall (l : list Z) idx s,
  good s -> Forall i64 l -> ok_adds oki okw (id_bins idx l) ->
  exists s', (forall fuel rest, length l <= fuel ->
                dec_id_loop fuel (N.of_nat (length l)) idx s (concat (map enc_sv l) ++ rest) = DOk s' rest)
             /\ good s' /\ abs s' = steps step (abs s) (id_bins idx l).
Proof.
  induction l as [|d l IH]; intros idx s Hg Hwf Hok.
  - exists s. split; [|split; [exact Hg|reflexivity]]. intros fuel rest _. rewrite dec_id_loop_eq. reflexivity.
  - inversion Hwf as [|x l' Hd Hl]; subst.
    cbn [id_bins] in Hok. cbv zeta in Hok. inversion Hok as [|x l' [Hi _] Hokl]; subst. cbn [fst] in Hi.
    destruct (Hadd s (wrap_i64 (idx + d)) Hg Hi) as [s1 [E1 [G1 A1]]].
    destruct (IH (wrap_i64 (idx + d)) s1 G1 Hl Hokl) as [s' [E' [G' A']]].
    exists s'. split; [|split; [exact G'|]].
    + intros fuel rest Hfuel. destruct fuel as [|f]; [cbn [length] in Hfuel; lia|].
      cbn [length map concat]. rewrite dec_id_loop_eq, of_nat_S_eqb.
      rewrite <- !app_assoc. rewrite dec_sv_enc by exact Hd. rewrite E1.
      rewrite of_nat_S_pred. apply E'. cbn [length] in Hfuel. lia.
    + rewrite A'. cbn [id_bins]. cbv zeta. unfold steps at 2. cbn [fold_left fst snd]. rewrite A1. reflexivity.
Qed.
Lemma xi_cc_ser stride : forall (l : list f64) idx s,
  good s -> ok_adds oki okw (cc_bins wire_w idx stride l) ->
  exists s', (forall fuel rest, length l <= fuel ->
                dec_cc_loop fuel (N.of_nat (length l)) idx stride s (concat (map Varfloat.enc_vf l) ++ rest) = DOk s' rest)
             /\ good s' /\ abs s' = steps step (abs s) (cc_bins wire_w idx stride l).
Proof.
  induction l as [|c l IH]; intros idx s Hg Hok.
  - exists s. split; [|split; [exact Hg|reflexivity]]. intros fuel rest _. rewrite dec_cc_loop_eq. reflexivity.
  - cbn [cc_bins] in Hok. inversion Hok as [|x l' [Hi Hc] Hokl]; subst. cbn [fst snd] in Hi, Hc.
    destruct (Haddw s idx (wire_w c) Hg Hi Hc) as [s1 [E1 [G1 A1]]].
    destruct (IH (wrap_i64 (idx + stride)) s1 G1 Hokl) as [s' [E' [G' A']]].
    exists s'. split; [|split; [exact G'|]].
    + intros fuel rest Hfuel. destruct fuel as [|f]; [cbn [length] in Hfuel; lia|].
      cbn [length map concat]. rewrite dec_cc_loop_eq, of_nat_S_eqb.
      rewrite <- !app_assoc. rewrite dec_count_enc, E1.
      rewrite of_nat_S_pred. apply E'. cbn [length] in Hfuel. lia.
    + rewrite A'. cbn [cc_bins]. unfold steps at 2. cbn [fold_left fst snd]. rewrite A1. reflexivity.
Qed.

(* G3, bins of one block, generic decoder of store.go *)
Theorem xi_dec_bins_generic_ser bb s : wf_bins bb -> good s -> ok_adds oki okw (bins_of_block bb) ->
  exists s', (forall rest, dec_bins_generic s (fst (ser_bins bb) * 4)%N (snd (ser_bins bb) ++ rest) = DOk s' rest)
             /\ good s' /\ abs s' = steps step (abs s) (bins_of_block bb).
Proof.
  intros Hwf Hg Hok. rewrite bins_of_block_eq in *.
  destruct bb as [l|l|first stride l]; cbn [ser_bins fst snd bins_of_block_w] in *.
  - destruct Hwf as [Hlen Hd]. destruct (xi_idc_ser l 0%Z s Hg Hd Hok) as [s' [E [G A]]].
    exists s'. split; [|split; assumption]. intros rest. unfold dec_bins_generic.
    change (SUB_BINS_IDC * 4 =? sub_idx_deltas_counts)%N with true. cbv iota.
    rewrite <- app_assoc. rewrite dec_uv_enc by exact Hlen. apply E.
    rewrite app_length. pose proof (concat_length_ge _ l enc_dc_nonempty). unfold Varfloat.f64, f64 in *. lia.
  - destruct Hwf as [Hlen Hd]. destruct (xi_id_ser l 0%Z s Hg Hd Hok) as [s' [E [G A]]].
    exists s'. split; [|split; assumption]. intros rest. unfold dec_bins_generic.
    change (SUB_BINS_ID * 4 =? sub_idx_deltas_counts)%N with false.
    change (SUB_BINS_ID * 4 =? sub_idx_deltas)%N with true. cbv iota.
    rewrite <- app_assoc. rewrite dec_uv_enc by exact Hlen. apply E.
    rewrite app_length. pose proof (concat_length_ge _ l enc_sv_nonempty). lia.
  - destruct Hwf as [Hlen [Hf Hst]]. destruct (xi_cc_ser stride l first s Hg Hok) as [s' [E [G A]]].
    exists s'. split; [|split; assumption]. intros rest. unfold dec_bins_generic.
    change (SUB_BINS_CC * 4 =? sub_idx_deltas_counts)%N with false.
    change (SUB_BINS_CC * 4 =? sub_idx_deltas)%N with false.
    change (SUB_BINS_CC * 4 =? sub_contiguous)%N with true. cbv iota.
    rewrite <- !app_assoc. rewrite dec_uv_enc by exact Hlen.
    rewrite dec_sv_enc by exact Hf. rewrite dec_sv_enc by exact Hst. apply E.
    rewrite app_length. pose proof (concat_length_ge _ l enc_vf_nonempty). unfold Varfloat.f64, f64 in *. lia.
Qed.

(* G5, bins of one block: a truncated body gives io.EOF, never a panic *)
Lemma xi_idc_trunc : forall (l : list (Z * f64)) fuel p t idx s,
  good s -> Forall (fun dc => i64 (fst dc)) l -> ok_adds oki okw (idc_bins wire_w idx l) ->
  concat (map (fun dc => enc_sv (fst dc) ++ Varfloat.enc_vf (snd dc)) l) = p ++ t -> t <> [] ->
  dec_idc_loop fuel (N.of_nat (length l)) idx s p = DErr EEof.
Proof.
  induction l as [|[d c] l IH]; intros fuel p t idx s Hg Hwf Hok H Ht.
  - cbn [map concat] in H. symmetry in H. apply app_eq_nil in H. destruct H as [_ H]. contradiction.
  - inversion Hwf as [|x l' Hd Hl]; subst. cbn [fst] in Hd.
    cbn [idc_bins fst snd] in Hok. cbv zeta in Hok. inversion Hok as [|x l' [Hi Hc] Hokl]; subst. cbn [fst snd] in Hi, Hc.
    cbn [length]. rewrite dec_idc_loop_eq, of_nat_S_eqb. destruct fuel as [|f]; [reflexivity|].
    rewrite of_nat_S_pred. cbn [map concat fst snd] in H. rewrite <- app_assoc in H.
    destruct (prefix_split _ _ _ _ H Ht) as [[l0 [Hl0 H1]]|[q [H1 H2]]].
    + rewrite (dec_sv_prefix _ _ _ H1 Hl0). reflexivity.
    + subst p. rewrite dec_sv_enc by exact Hd.
      destruct (prefix_split _ _ _ _ H2 Ht) as [[l0 [Hl0 H3]]|[q' [H3 H4]]].
      * rewrite (dec_count_prefix _ _ _ H3 Hl0). reflexivity.
      * subst q. rewrite dec_count_enc.
        destruct (Haddw s (wrap_i64 (idx + d)) (wire_w c) Hg Hi Hc) as [s1 [E1 [G1 A1]]]. rewrite E1.
        apply (IH f q' t _ s1 G1 Hl Hokl H4 Ht).
Qed.
Lemma xi_id_trunc : forall (l : list Z) fuel p t idx s,
  good s -> Forall i64 l -> ok_adds oki okw (id_bins idx l) -> concat (map enc_sv l) = p ++ t -> t <> [] ->
  dec_id_loop fuel (N.of_nat (length l)) idx s p = DErr EEof.
Proof.
  induction l as [|d l IH]; intros fuel p t idx s Hg Hwf Hok H Ht.
  - cbn [map concat] in H. symmetry in H. apply app_eq_nil in H. destruct H as [_ H]. contradiction.
  - inversion Hwf as [|x l' Hd Hl]; subst.
    cbn [id_bins] in Hok. cbv zeta in Hok. inversion Hok as [|x l' [Hi _] Hokl]; subst. cbn [fst] in Hi.
    cbn [length]. rewrite dec_id_loop_eq, of_nat_S_eqb. destruct fuel as [|f]; [reflexivity|].
    rewrite of_nat_S_pred. cbn [map concat] in H.
    destruct (prefix_split _ _ _ _ H Ht) as [[l0 [Hl0 H1]]|[q [H1 H2]]].
    + rewrite (dec_sv_prefix _ _ _ H1 Hl0). reflexivity.
    + subst p. rewrite dec_sv_enc by exact Hd.
      destruct (Hadd s (wrap_i64 (idx + d)) Hg Hi) as [s1 [E1 [G1 A1]]]. rewrite E1.
      apply (IH f q t _ s1 G1 Hl Hokl H2 Ht).
Qed.
Lemma xi_cc_trunc stride : forall (l : list f64) fuel p t idx s,
  good s -> ok_adds oki okw (cc_bins wire_w idx stride l) -> concat (map Varfloat.enc_vf l) = p ++ t -> t <> [] ->
  dec_cc_loop fuel (N.of_nat (length l)) idx stride s p = DErr EEof.
Proof.
  induction l as [|c l IH]; intros fuel p t idx s Hg Hok H Ht.
  - cbn [map concat] in H. symmetry in H. apply app_eq_nil in H. destruct H as [_ H]. contradiction.
  - cbn [cc_bins] in Hok. inversion Hok as [|x l' [Hi Hc] Hokl]; subst. cbn [fst snd] in Hi, Hc.
    cbn [length]. rewrite dec_cc_loop_eq, of_nat_S_eqb. destruct fuel as [|f]; [reflexivity|].
    rewrite of_nat_S_pred. cbn [map concat] in H.
    destruct (prefix_split _ _ _ _ H Ht) as [[l0 [Hl0 H1]]|[q [H1 H2]]].
    + rewrite (dec_count_prefix _ _ _ H1 Hl0). reflexivity.
    + subst p. rewrite dec_count_enc.
      destruct (Haddw s idx (wire_w c) Hg Hi Hc) as [s1 [E1 [G1 A1]]]. rewrite E1.
      apply (IH f q t _ s1 G1 Hokl H2 Ht).
Qed.
Theorem xi_dec_bins_generic_trunc bb s p t : wf_bins bb -> good s -> ok_adds oki okw (bins_of_block bb) ->
  snd (ser_bins bb) = p ++ t -> t <> [] ->
  dec_bins_generic s (fst (ser_bins bb) * 4)%N p = DErr EEof.
Proof.
  intros Hwf Hg Hok H Ht. rewrite bins_of_block_eq in Hok.
  destruct bb as [l|l|first stride l]; cbn [ser_bins fst snd bins_of_block_w] in *; unfold dec_bins_generic.
  - destruct Hwf as [Hlen Hd].
    change (SUB_BINS_IDC * 4 =? sub_idx_deltas_counts)%N with true. cbv iota.
    destruct (prefix_split _ _ _ _ H Ht) as [[l0 [Hl0 H1]]|[q [H1 H2]]].
    + rewrite (dec_uv_prefix _ _ _ H1 Hl0). reflexivity.
    + subst p. rewrite dec_uv_enc by exact Hlen. apply (xi_idc_trunc l _ q t _ s Hg Hd Hok H2 Ht).
  - destruct Hwf as [Hlen Hd].
    change (SUB_BINS_ID * 4 =? sub_idx_deltas_counts)%N with false.
    change (SUB_BINS_ID * 4 =? sub_idx_deltas)%N with true. cbv iota.
    destruct (prefix_split _ _ _ _ H Ht) as [[l0 [Hl0 H1]]|[q [H1 H2]]].
    + rewrite (dec_uv_prefix _ _ _ H1 Hl0). reflexivity.
    + subst p. rewrite dec_uv_enc by exact Hlen. apply (xi_id_trunc l _ q t _ s Hg Hd Hok H2 Ht).
  - destruct Hwf as [Hlen [Hf Hst]].
    change (SUB_BINS_CC * 4 =? sub_idx_deltas_counts)%N with false.
    change (SUB_BINS_CC * 4 =? sub_idx_deltas)%N with false.
    change (SUB_BINS_CC * 4 =? sub_contiguous)%N with true. cbv iota.
    destruct (prefix_split _ _ _ _ H Ht) as [[l0 [Hl0 H1]]|[q [H1 H2]]].
    + rewrite (dec_uv_prefix _ _ _ H1 Hl0). reflexivity.
    + subst p. rewrite dec_uv_enc by exact Hlen.
      destruct (prefix_split _ _ _ _ H2 Ht) as [[l0 [Hl0 H3]]|[q1 [H3 H4]]].
      * rewrite (dec_sv_prefix _ _ _ H3 Hl0). reflexivity.
      * subst q. rewrite dec_sv_enc by exact Hf.
        destruct (prefix_split _ _ _ _ H4 Ht) as [[l0 [Hl0 H5]]|[q2 [H5 H6]]].
        -- rewrite (dec_sv_prefix _ _ _ H5 Hl0). reflexivity.
        -- subst q1. rewrite dec_sv_enc by exact Hst. apply (xi_cc_trunc stride l _ q2 t _ s Hg Hok H6 Ht).
Qed.
End RefineIdx.

Theorem generic_idx_dec_bins abs good oki okw step bb s : store_refines_idx abs good oki okw step ->
  wf_bins bb -> good s -> ok_adds oki okw (bins_of_block bb) ->
  exists s', (forall rest, dec_bins s (fst (ser_bins bb) * 4)%N (snd (ser_bins bb) ++ rest) = DOk s' rest)
             /\ good s' /\ abs s' = steps step (abs s) (bins_of_block bb).
Proof.
  intros [H1 [H2 H3]] Hwf Hg Hok.
  destruct (xi_dec_bins_generic_ser abs good oki okw step H1 H2 bb s Hwf Hg Hok) as [s' [E R]].
  exists s'. split; [|exact R]. intros rest. rewrite H3 by exact Hg. apply E.
Qed.
Theorem generic_idx_dec_bins_trunc abs good oki okw step bb s p t : store_refines_idx abs good oki okw step ->
  wf_bins bb -> good s -> ok_adds oki okw (bins_of_block bb) -> snd (ser_bins bb) = p ++ t -> t <> [] ->
  dec_bins s (fst (ser_bins bb) * 4)%N p = DErr EEof.
Proof.
  intros [H1 [H2 H3]] Hwf Hg Hok H Ht. rewrite H3 by exact Hg.
  exact (xi_dec_bins_generic_trunc abs good oki okw step H1 H2 bb s p t Hwf Hg Hok H Ht).
Qed.

(* ================================================================== *)
(* 2. Every store kind refines the interface                           *)
(* ================================================================== *)
Definition nonneg_w (c : W) : Prop := (w0 <= c)%Qc.
(* stores of kind k (Go type and capacity) satisfying the representation invariant *)
Definition good_k (k : kind) (s : store) : Prop := StInv s /\ st_kind s = k.
Definition generic_kind (k : kind) : Prop := k <> KPag.

Lemma adds_ok_eq l : PaginatedProofs.adds_ok l = ok_adds idx_ok nonneg_w l.
Proof. reflexivity. Qed.

Lemma any_addw k s i c : good_k k s -> idx_ok i -> nonneg_w c ->
  exists s', st_addw s i c = Some s' /\ good_k k s' /\ st_abs s' = sadd (kind_limit k) (st_abs s) i c.
Proof.
  intros [Hs Hk] Hi Hc. destruct (st_addw_spec s i c Hs Hi Hc) as (s' & E & I' & K' & A).
  exists s'. split; [exact E|]. split; [split; [exact I'|congruence]|]. rewrite A, st_limit_kind, Hk. reflexivity.
Qed.
Lemma any_add k s i : good_k k s -> idx_ok i ->
  exists s', st_add s i = Some s' /\ good_k k s' /\ st_abs s' = sadd (kind_limit k) (st_abs s) i w1.
Proof.
  intros [Hs Hk] Hi. destruct (st_add_spec s i Hs Hi) as (s' & E & I' & K' & A).
  exists s'. split; [exact E|]. split; [split; [exact I'|congruence]|]. rewrite A, st_limit_kind, Hk. reflexivity.
Qed.
Lemma generic_np k s sub b : generic_kind k -> good_k k s -> dec_bins s sub b = dec_bins_generic s sub b.
Proof. intros Hk [_ E]. destruct s as [d|m|p]; try reflexivity. cbn [st_kind] in E. subst k. contradiction Hk. reflexivity. Qed.

(* dense, collapsing-lowest, collapsing-highest (any capacity >= 1) and sparse stores: AddWithCount / Add
   refine [sadd] of the kind's limit on int32 indexes and non-negative weights, and their
   DecodeAndMergeWith is the generic one of store.go *)
Theorem any_refines k : generic_kind k ->
  store_refines_idx st_abs (good_k k) idx_ok nonneg_w (sadd (kind_limit k)).
Proof. intros Hk. split; [exact (any_addw k)|]. split; [exact (any_add k)|]. intros s sub b. apply generic_np. exact Hk. Qed.

Lemma steps_sadd L a l : steps (sadd L) a l = smerge_list L a l.
Proof. reflexivity. Qed.
Lemma smerge_list_app L a l1 l2 : smerge_list L a (l1 ++ l2) = smerge_list L (smerge_list L a l1) l2.
Proof. apply fold_left_app. Qed.

(* the generic decoder of store.go, on a receiver of ANY kind (the paginated one included) *)
Theorem any_dec_bins_generic bb s : wf_bins bb -> StInv s -> PaginatedProofs.adds_ok (bins_of_block bb) ->
  exists s', (forall rest, dec_bins_generic s (fst (ser_bins bb) * 4)%N (snd (ser_bins bb) ++ rest) = DOk s' rest)
             /\ StInv s' /\ st_kind s' = st_kind s
             /\ st_abs s' = smerge_list (st_limit s) (st_abs s) (bins_of_block bb).
Proof.
  intros Hwf Hs Hok.
  destruct (xi_dec_bins_generic_ser st_abs (good_k (st_kind s)) idx_ok nonneg_w (sadd (kind_limit (st_kind s)))
              (any_addw _) (any_add _) bb s Hwf (conj Hs eq_refl) Hok) as [s' [E [[I' K'] A]]].
  exists s'. split; [exact E|]. split; [exact I'|]. split; [exact K'|].
  rewrite A, steps_sadd, st_limit_kind. reflexivity.
Qed.
Theorem any_dec_bins_generic_trunc bb s p t : wf_bins bb -> StInv s -> PaginatedProofs.adds_ok (bins_of_block bb) ->
  snd (ser_bins bb) = p ++ t -> t <> [] ->
  dec_bins_generic s (fst (ser_bins bb) * 4)%N p = DErr EEof.
Proof.
  intros Hwf Hs Hok H Ht.
  exact (xi_dec_bins_generic_trunc st_abs (good_k (st_kind s)) idx_ok nonneg_w (sadd (kind_limit (st_kind s)))
           (any_addw _) (any_add _) bb s p t Hwf (conj Hs eq_refl) Hok H Ht).
Qed.

(* ================================================================== *)
(* 3. The specialised decoders of the paginated store                  *)
(* ================================================================== *)
Lemma collect_ids_eq fuel n idx acc b : collect_ids fuel n idx acc b =
  if (n =? 0)%N then DOk (rev acc) b else
  match fuel with
  | O => DErr EEof
  | S f => match dec_sv b with
           | Ok d b1 => collect_ids f (n - 1)%N (wrap_i64 (idx + d)) (wrap_i64 (idx + d) :: acc) b1
           | _ => DErr EEof
           end
  end.
Proof. destruct fuel; reflexivity. Qed.
Lemma collect_cc_eq fuel n idx delta acc b : collect_cc fuel n idx delta acc b =
  if (n =? 0)%N then DOk (rev acc) b else
  match fuel with
  | O => DErr EEof
  | S f => match dec_count b with
           | Ok c b1 => collect_cc f (n - 1)%N (wrap_i64 (idx + delta)) delta ((idx, c) :: acc) b1
           | _ => DErr EEof
           end
  end.
Proof. destruct fuel; reflexivity. Qed.
Arguments collect_ids : simpl never.
Arguments collect_cc : simpl never.

Lemma collect_ids_ser : forall (l : list Z) fuel idx acc rest, Forall i64 l -> length l <= fuel ->
  collect_ids fuel (N.of_nat (length l)) idx acc (concat (map enc_sv l) ++ rest)
  = DOk (rev acc ++ map fst (id_bins idx l)) rest.
Proof.
  induction l as [|d l IH]; intros fuel idx acc rest Hwf Hfuel.
  - rewrite collect_ids_eq. cbn [length N.of_nat N.eqb id_bins map concat app]. now rewrite app_nil_r.
  - inversion Hwf as [|x l' Hd Hl]; subst. destruct fuel as [|f]; [cbn [length] in Hfuel; lia|].
    cbn [length map concat]. rewrite collect_ids_eq, of_nat_S_eqb.
    rewrite <- !app_assoc. rewrite dec_sv_enc by exact Hd. rewrite of_nat_S_pred.
    rewrite IH; [|exact Hl|cbn [length] in Hfuel; lia].
    cbn [id_bins map fst rev]. rewrite <- app_assoc. reflexivity.
Qed.
Lemma collect_cc_ser stride : forall (l : list f64) fuel idx acc rest, length l <= fuel ->
  collect_cc fuel (N.of_nat (length l)) idx stride acc (concat (map Varfloat.enc_vf l) ++ rest)
  = DOk (rev acc ++ cc_bins wire_w idx stride l) rest.
Proof.
  induction l as [|c l IH]; intros fuel idx acc rest Hfuel.
  - rewrite collect_cc_eq. cbn [length N.of_nat N.eqb cc_bins map concat app]. now rewrite app_nil_r.
  - destruct fuel as [|f]; [cbn [length] in Hfuel; lia|].
    cbn [length map concat]. rewrite collect_cc_eq, of_nat_S_eqb.
    rewrite <- !app_assoc. rewrite dec_count_enc. rewrite of_nat_S_pred.
    rewrite IH; [|cbn [length] in Hfuel; lia].
    cbn [cc_bins rev]. rewrite <- app_assoc. reflexivity.
Qed.
(* the collectors fail with io.EOF on a truncated body, before the store is touched *)
Lemma collect_ids_trunc : forall (l : list Z) fuel p t idx acc,
  Forall i64 l -> concat (map enc_sv l) = p ++ t -> t <> [] ->
  collect_ids fuel (N.of_nat (length l)) idx acc p = DErr EEof.
Proof.
  induction l as [|d l IH]; intros fuel p t idx acc Hwf H Ht.
  - cbn [map concat] in H. symmetry in H. apply app_eq_nil in H. destruct H as [_ H]. contradiction.
  - inversion Hwf as [|x l' Hd Hl]; subst.
    cbn [length]. rewrite collect_ids_eq, of_nat_S_eqb. destruct fuel as [|f]; [reflexivity|].
    rewrite of_nat_S_pred. cbn [map concat] in H.
    destruct (prefix_split _ _ _ _ H Ht) as [[l0 [Hl0 H1]]|[q [H1 H2]]].
    + rewrite (dec_sv_prefix _ _ _ H1 Hl0). reflexivity.
    + subst p. rewrite dec_sv_enc by exact Hd. apply (IH f q t _ _ Hl H2 Ht).
Qed.
Lemma collect_cc_trunc stride : forall (l : list f64) fuel p t idx acc,
  concat (map Varfloat.enc_vf l) = p ++ t -> t <> [] ->
  collect_cc fuel (N.of_nat (length l)) idx stride acc p = DErr EEof.
Proof.
  induction l as [|c l IH]; intros fuel p t idx acc H Ht.
  - cbn [map concat] in H. symmetry in H. apply app_eq_nil in H. destruct H as [_ H]. contradiction.
  - cbn [length]. rewrite collect_cc_eq, of_nat_S_eqb. destruct fuel as [|f]; [reflexivity|].
    rewrite of_nat_S_pred. cbn [map concat] in H.
    destruct (prefix_split _ _ _ _ H Ht) as [[l0 [Hl0 H1]]|[q [H1 H2]]].
    + rewrite (dec_count_prefix _ _ _ H1 Hl0). reflexivity.
    + subst p. rewrite dec_count_enc. apply (IH f q t _ _ H2 Ht).
Qed.

Lemma unit_bins_id_bins : forall l idx, PaginatedProofs.unit_bins (map fst (id_bins idx l)) = id_bins idx l.
Proof.
  induction l as [|d l IH]; intros idx; [reflexivity|].
  cbn [id_bins map fst]. unfold PaginatedProofs.unit_bins in *. cbn [map]. rewrite IH. reflexivity.
Qed.
Lemma adds_ok_keys l : PaginatedProofs.adds_ok l -> Forall idx_ok (map fst l).
Proof.
  induction l as [|kw l IH]; intros H; [constructor|].
  inversion H as [|x y [H1 _] Hl]; subst. cbn [map]. constructor; [exact H1|apply IH; exact Hl].
Qed.

Lemma st_abs_SP p : PaginatedProofs.PInv p -> st_abs (SP p) = PaginatedProofs.pabs p.
Proof. intros H. exact (st_abs_content (SP p) H). Qed.

(* BufferedPaginatedStore.DecodeAndMergeWith, on the body of a bins block of any of the three layouts *)
Theorem pag_dec_bins bb p : wf_bins bb -> PaginatedProofs.PInv p -> PaginatedProofs.adds_ok (bins_of_block bb) ->
  exists p', (forall rest, dec_bins_pag p (fst (ser_bins bb) * 4)%N (snd (ser_bins bb) ++ rest) = DOk (SP p') rest)
             /\ PaginatedProofs.PInv p'
             /\ PaginatedProofs.pabs p' = bmerge_list (PaginatedProofs.pabs p) (bins_of_block bb).
Proof.
  intros Hwf Hp Hok. destruct bb as [l|l|first stride l].
  - (* index deltas and counts: the generic path of store.go *)
    destruct (any_dec_bins_generic (IndexDeltasAndCounts l) (SP p) Hwf Hp Hok) as [s' [E [I' [K' A]]]].
    destruct s' as [d|m|p']; [cbn [st_kind] in K'; destruct (lim d); discriminate K'|discriminate K'|]. exists p'. split; [|split; [exact I'|]].
    + intros rest. rewrite <- E. reflexivity.
    + rewrite <- !st_abs_SP by assumption. exact A.
  - (* index deltas: collected, appended to the buffer *)
    rewrite bins_of_block_eq in *. cbn [ser_bins fst snd bins_of_block_w] in *. destruct Hwf as [Hlen Hd].
    pose proof (adds_ok_keys _ Hok) as Hk.
    destruct (PaginatedProofs.p_dec_indexes_spec pgrow8 worth32 x_full ZSort.sort x_pgrow_ok x_sort_ok p
                (map fst (id_bins 0%Z l)) Hp Hk) as [I' A].
    eexists. split; [|split; [exact I'|]].
    + intros rest. unfold dec_bins_pag.
      change (SUB_BINS_ID * 4 =? sub_idx_deltas)%N with true. cbv iota.
      rewrite <- app_assoc. rewrite dec_uv_enc by exact Hlen.
      rewrite collect_ids_ser; [reflexivity|exact Hd|].
      rewrite app_length. pose proof (concat_length_ge _ l enc_sv_nonempty). lia.
    + rewrite A, unit_bins_id_bins. reflexivity.
  - (* contiguous counts: collected, written to the pages *)
    rewrite bins_of_block_eq in *. cbn [ser_bins fst snd bins_of_block_w] in *. destruct Hwf as [Hlen [Hf Hst]].
    destruct (PaginatedProofs.p_dec_contiguous_spec pgrow8 x_pgrow_ok (cc_bins wire_w first stride l) p Hp Hok) as [I' A].
    eexists. split; [|split; [exact I'|exact A]].
    intros rest. unfold dec_bins_pag.
    change (SUB_BINS_CC * 4 =? sub_idx_deltas)%N with false.
    change (SUB_BINS_CC * 4 =? sub_contiguous)%N with true. cbv iota.
    rewrite <- !app_assoc. rewrite dec_uv_enc by exact Hlen.
    rewrite dec_sv_enc by exact Hf. rewrite dec_sv_enc by exact Hst.
    rewrite collect_cc_ser; [reflexivity|].
    rewrite app_length. pose proof (concat_length_ge _ l enc_vf_nonempty). unfold Varfloat.f64, f64 in *. lia.
Qed.
Theorem pag_dec_bins_trunc bb p pre t : wf_bins bb -> PaginatedProofs.PInv p ->
  PaginatedProofs.adds_ok (bins_of_block bb) -> snd (ser_bins bb) = pre ++ t -> t <> [] ->
  dec_bins_pag p (fst (ser_bins bb) * 4)%N pre = DErr EEof.
Proof.
  intros Hwf Hp Hok H Ht. destruct bb as [l|l|first stride l].
  - exact (any_dec_bins_generic_trunc (IndexDeltasAndCounts l) (SP p) pre t Hwf Hp Hok H Ht).
  - cbn [ser_bins fst snd] in *. destruct Hwf as [Hlen Hd]. unfold dec_bins_pag.
    change (SUB_BINS_ID * 4 =? sub_idx_deltas)%N with true. cbv iota.
    destruct (prefix_split _ _ _ _ H Ht) as [[l0 [Hl0 H1]]|[q [H1 H2]]].
    + rewrite (dec_uv_prefix _ _ _ H1 Hl0). reflexivity.
    + subst pre. rewrite dec_uv_enc by exact Hlen.
      rewrite (collect_ids_trunc l _ q t _ _ Hd H2 Ht). reflexivity.
  - cbn [ser_bins fst snd] in *. destruct Hwf as [Hlen [Hf Hst]]. unfold dec_bins_pag.
    change (SUB_BINS_CC * 4 =? sub_idx_deltas)%N with false.
    change (SUB_BINS_CC * 4 =? sub_contiguous)%N with true. cbv iota.
    destruct (prefix_split _ _ _ _ H Ht) as [[l0 [Hl0 H1]]|[q [H1 H2]]].
    + rewrite (dec_uv_prefix _ _ _ H1 Hl0). reflexivity.
    + subst pre. rewrite dec_uv_enc by exact Hlen.
      destruct (prefix_split _ _ _ _ H2 Ht) as [[l0 [Hl0 H3]]|[q1 [H3 H4]]].
      * rewrite (dec_sv_prefix _ _ _ H3 Hl0). reflexivity.
      * subst q. rewrite dec_sv_enc by exact Hf.
        destruct (prefix_split _ _ _ _ H4 Ht) as [[l0 [Hl0 H5]]|[q2 [H5 H6]]].
        -- rewrite (dec_sv_prefix _ _ _ H5 Hl0). reflexivity.
        -- subst q1. rewrite dec_sv_enc by exact Hst.
           rewrite (collect_cc_trunc stride l _ q2 t _ _ H6 Ht). reflexivity.
Qed.
(* a zero count in a contiguous block creates its page and leaves the content unchanged *)
Theorem pag_dec_contiguous_zero p i : PaginatedProofs.PInv p -> idx_ok i ->
  PaginatedProofs.pabs (p_dec_contiguous pgrow8 p [(i, w0)]) = PaginatedProofs.pabs p /\
  existing_page (p_dec_contiguous pgrow8 p [(i, w0)]) (page_index i) <> None.
Proof. exact (PaginatedProofs.p_dec_contiguous_zero pgrow8 x_pgrow_ok p i). Qed.

(* ================================================================== *)
(* 4. DecodeAndMergeWith of a receiver of ANY kind, one block          *)
(* ================================================================== *)
Theorem any_dec_bins bb s : wf_bins bb -> StInv s -> PaginatedProofs.adds_ok (bins_of_block bb) ->
  exists s', (forall rest, dec_bins s (fst (ser_bins bb) * 4)%N (snd (ser_bins bb) ++ rest) = DOk s' rest)
             /\ StInv s' /\ st_kind s' = st_kind s
             /\ st_abs s' = smerge_list (st_limit s) (st_abs s) (bins_of_block bb).
Proof.
  intros Hwf Hs Hok. destruct s as [d|m|p].
  - exact (any_dec_bins_generic bb (SD d) Hwf Hs Hok).
  - exact (any_dec_bins_generic bb (SS m) Hwf Hs Hok).
  - destruct (pag_dec_bins bb p Hwf Hs Hok) as [p' [E [I' A]]].
    exists (SP p'). split; [exact E|]. split; [exact I'|]. split; [reflexivity|].
    rewrite !st_abs_SP by assumption. exact A.
Qed.
Theorem any_dec_bins_trunc bb s p t : wf_bins bb -> StInv s -> PaginatedProofs.adds_ok (bins_of_block bb) ->
  snd (ser_bins bb) = p ++ t -> t <> [] ->
  dec_bins s (fst (ser_bins bb) * 4)%N p = DErr EEof.
Proof.
  intros Hwf Hs Hok H Ht. destruct s as [d|m|q].
  - exact (any_dec_bins_generic_trunc bb (SD d) p t Hwf Hs Hok H Ht).
  - exact (any_dec_bins_generic_trunc bb (SS m) p t Hwf Hs Hok H Ht).
  - exact (pag_dec_bins_trunc bb q p t Hwf Hs Hok H Ht).
Qed.

(* ================================================================== *)
(* 5. Admissible streams                                               *)
(* ================================================================== *)
(* every ACCUMULATED index of every bins block is an int32 (deltas and strides may be zero, negative or
   large), and every weight the codec carries is non-negative *)
Definition idx_bins (bb : bin_block) : Prop := Forall idx_ok (map fst (bins_of_block bb)).
Definition idx_block (b : block) : Prop := match b with BStore _ bb => idx_bins bb | _ => True end.
Definition idx_stream (st : stream) : Prop := Forall idx_block st.
Definition nonneg_stream_w (st : stream) : Prop := okw_stream nonneg_w st.

Definition ok_block (b : block) : Prop :=
  match b with BStore _ bb => PaginatedProofs.adds_ok (bins_of_block bb) | _ => True end.
Definition ok_stream (st : stream) : Prop := Forall ok_block st.

Lemma idc_bins_ok : forall l idx, Forall idx_ok (map fst (idc_bins wire_w idx l)) ->
  Forall (fun x => nonneg_w (wire_w x)) (map snd l) -> PaginatedProofs.adds_ok (idc_bins wire_w idx l).
Proof.
  induction l as [|dc l IH]; intros idx Hi Hw; [constructor|].
  cbn [idc_bins map fst snd] in *. cbv zeta in *.
  inversion Hi as [|x y Hi1 Hil]; subst. inversion Hw as [|x y Hw1 Hwl]; subst.
  constructor; [split; assumption|apply IH; assumption].
Qed.
Lemma id_bins_ok : forall l idx, Forall idx_ok (map fst (id_bins idx l)) -> PaginatedProofs.adds_ok (id_bins idx l).
Proof.
  induction l as [|d l IH]; intros idx Hi; [constructor|].
  cbn [id_bins map fst] in *. cbv zeta in *. inversion Hi as [|x y Hi1 Hil]; subst.
  constructor; [split; [exact Hi1|exact w1_nonneg]|apply IH; assumption].
Qed.
Lemma cc_bins_ok stride : forall l idx, Forall idx_ok (map fst (cc_bins wire_w idx stride l)) ->
  Forall (fun x => nonneg_w (wire_w x)) l -> PaginatedProofs.adds_ok (cc_bins wire_w idx stride l).
Proof.
  induction l as [|c l IH]; intros idx Hi Hw; [constructor|].
  cbn [cc_bins map fst] in *. inversion Hi as [|x y Hi1 Hil]; subst. inversion Hw as [|x y Hw1 Hwl]; subst.
  constructor; [split; assumption|apply IH; assumption].
Qed.
Lemma ok_bins_of bb : idx_bins bb -> okw_bins nonneg_w bb -> PaginatedProofs.adds_ok (bins_of_block bb).
Proof.
  unfold idx_bins, okw_bins. rewrite bins_of_block_eq.
  destruct bb as [l|l|first stride l]; cbn [bins_of_block_w bins_weights]; intros Hi Hw.
  - now apply idc_bins_ok.
  - now apply id_bins_ok.
  - now apply cc_bins_ok.
Qed.
Lemma ok_block_of b : idx_block b -> okw_block nonneg_w b -> ok_block b.
Proof. destruct b; cbn [idx_block okw_block ok_block]; auto. apply ok_bins_of. Qed.
Lemma ok_stream_of st : idx_stream st -> nonneg_stream_w st -> ok_stream st.
Proof.
  unfold idx_stream, nonneg_stream_w, okw_stream, ok_stream. intros Hi Hw.
  induction st as [|b st IH]; [constructor|].
  inversion Hi as [|x y Hi1 Hil]; subst. inversion Hw as [|x y Hw1 Hwl]; subst.
  constructor; [now apply ok_block_of|now apply IH].
Qed.
Lemma ok_stream_app a b : ok_stream (a ++ b) <-> ok_stream a /\ ok_stream b.
Proof. apply Forall_app. Qed.
Lemma adds_ok_app a b : PaginatedProofs.adds_ok (a ++ b) <-> PaginatedProofs.adds_ok a /\ PaginatedProofs.adds_ok b.
Proof. apply Forall_app. Qed.
Lemma ok_stream_pos st : ok_stream st -> PaginatedProofs.adds_ok (stream_pos_bins st).
Proof.
  induction st as [|b st IH]; intros H; [constructor|]. inversion H as [|x y Hb Hst]; subst.
  unfold stream_pos_bins. cbn [map concat]. apply adds_ok_app. split; [|apply IH; exact Hst].
  destruct b as [w|k g o|[|] bb|w|x|x|x]; try constructor. exact Hb.
Qed.
Lemma ok_stream_neg st : ok_stream st -> PaginatedProofs.adds_ok (stream_neg_bins st).
Proof.
  induction st as [|b st IH]; intros H; [constructor|]. inversion H as [|x y Hb Hst]; subst.
  unfold stream_neg_bins. cbn [map concat]. apply adds_ok_app. split; [|apply IH; exact Hst].
  destruct b as [w|k g o|[|] bb|w|x|x|x]; try constructor. exact Hb.
Qed.

(* ================================================================== *)
(* 6. The block loop of ddsketch.go with receivers of any kinds        *)
(* ================================================================== *)
Definition ds_inv (d : dsketch) : Prop := StInv (ds_pos d) /\ StInv (ds_neg d) /\ ds_stats d = None.
Definition ds_rel_any (d d' : dsketch) (pos neg : list (Z * W)) (zero : list W) (mp : option mapid) : Prop :=
  ds_inv d' /\ st_kind (ds_pos d') = st_kind (ds_pos d) /\ st_kind (ds_neg d') = st_kind (ds_neg d)
  /\ st_abs (ds_pos d') = smerge_list (st_limit (ds_pos d)) (st_abs (ds_pos d)) pos
  /\ st_abs (ds_neg d') = smerge_list (st_limit (ds_neg d)) (st_abs (ds_neg d)) neg
  /\ ds_zero d' = fold_left wadd zero (ds_zero d) /\ ds_map d' = mp.
Definition ds_rel_any_st (d d' : dsketch) (st : stream) : Prop :=
  ds_rel_any d d' (stream_pos_bins st) (stream_neg_bins st) (stream_zero st) (last_mapid (ds_map d) st).

Section AnyLoop.
Variable wx : wfixes.
Hypothesis HD2 : fD2 wx = true.

Lemma dec_blocks_step_any b d : wf_block b -> block_ok (ds_map d) b -> ok_block b -> ds_inv d ->
  exists d', (forall k rest, dec_blocks wx (S k) d (ser_block b ++ rest) = dec_blocks wx k d' rest)
             /\ ds_rel_any d d' (block_pos_bins b) (block_neg_bins b) (block_zero b) (block_map (ds_map d) b).
Proof.
  intros Hwf Hbo Hokw [Hgp [Hgn Hst]].
  destruct b as [w|kd g o|neg bb|w|x|x|x].
  - eexists. split.
    + intros k rest. cbn [ser_block]. rewrite <- app_comm_cons. rewrite dec_blocks_zc, dec_count_enc. reflexivity.
    + unfold ds_rel_any, ds_inv. cbn [ds_pos ds_neg ds_stats ds_zero ds_map]. repeat split; assumption || reflexivity.
  - destruct Hbo as [Hk [Hfle Heq]]. eexists. split.
    + intros k rest. cbn [ser_block]. rewrite <- app_comm_cons, <- app_assoc.
      rewrite dec_blocks_map, dec_mapping_g by exact Hk. rewrite !dec_f64_enc, Hfle.
      destruct (ds_map d) as [m0|]; [rewrite Heq|]; reflexivity.
    + unfold ds_rel_any, ds_inv. cbn [ds_pos ds_neg ds_stats ds_zero ds_map]. repeat split; assumption || reflexivity.
  - cbn [wf_block ok_block] in Hwf, Hokw. destruct neg.
    + destruct (any_dec_bins bb (ds_neg d) Hwf Hgn Hokw) as [s' [E [I' [K' A]]]].
      eexists. split.
      * intros k rest. rewrite ser_block_store, <- app_comm_cons.
        rewrite dec_blocks_neg by apply ser_bins_sub_lt64. rewrite E. reflexivity.
      * unfold ds_rel_any, ds_inv. cbn [ds_pos ds_neg ds_stats ds_zero ds_map]. repeat split; assumption || reflexivity.
    + destruct (any_dec_bins bb (ds_pos d) Hwf Hgp Hokw) as [s' [E [I' [K' A]]]].
      eexists. split.
      * intros k rest. rewrite ser_block_store, <- app_comm_cons.
        rewrite dec_blocks_pos by apply ser_bins_sub_lt64. rewrite E. reflexivity.
      * unfold ds_rel_any, ds_inv. cbn [ds_pos ds_neg ds_stats ds_zero ds_map]. repeat split; assumption || reflexivity.
  - exists d. split.
    + intros k rest. cbn [ser_block]. rewrite <- app_comm_cons.
      rewrite dec_blocks_feature by auto. rewrite dec_feature_count by assumption. rewrite dec_vf_enc. reflexivity.
    + unfold ds_rel_any, ds_inv. repeat split; assumption || reflexivity.
  - exists d. split.
    + intros k rest. cbn [ser_block]. rewrite <- app_comm_cons.
      rewrite dec_blocks_feature by auto. rewrite dec_feature_skip8 by auto. rewrite skip8_enc. reflexivity.
    + unfold ds_rel_any, ds_inv. repeat split; assumption || reflexivity.
  - exists d. split.
    + intros k rest. cbn [ser_block]. rewrite <- app_comm_cons.
      rewrite dec_blocks_feature by auto. rewrite dec_feature_skip8 by auto. rewrite skip8_enc. reflexivity.
    + unfold ds_rel_any, ds_inv. repeat split; assumption || reflexivity.
  - exists d. split.
    + intros k rest. cbn [ser_block]. rewrite <- app_comm_cons.
      rewrite dec_blocks_feature by auto. rewrite dec_feature_skip8 by auto. rewrite skip8_enc. reflexivity.
    + unfold ds_rel_any, ds_inv. repeat split; assumption || reflexivity.
Qed.

Lemma dec_blocks_ser_any : forall st d, wf_stream st -> ok_stream st -> maps_chain (ds_map d) st -> ds_inv d ->
  exists d', (forall k rest, dec_blocks wx (length st + k) d (serialize st ++ rest) = dec_blocks wx k d' rest)
             /\ ds_rel_any_st d d' st.
Proof.
  induction st as [|b st IH]; intros d Hwf Hokw Hch Hg.
  - exists d. split; [intros; reflexivity|]. unfold ds_rel_any_st, ds_rel_any. repeat split; try apply Hg; reflexivity.
  - inversion Hwf as [|x l Hb Hst]; subst. inversion Hokw as [|x l Hob Host]; subst.
    destruct Hch as [Hbo Hch].
    destruct (dec_blocks_step_any b d Hb Hbo Hob Hg) as [d1 [E1 [G1 [KP1 [KN1 [P1 [N1 [Z1 M1]]]]]]]].
    rewrite <- M1 in Hch.
    destruct (IH d1 Hst Host Hch G1) as [d' [E' [G' [KP' [KN' [P' [N' [Z' M']]]]]]]].
    exists d'. split.
    + intros k rest. rewrite serialize_cons, <- app_assoc. cbn [length Nat.add]. rewrite E1. apply E'.
    + unfold ds_rel_any_st, ds_rel_any. split; [exact G'|]. split; [congruence|]. split; [congruence|].
      unfold stream_pos_bins, stream_neg_bins, stream_zero, last_mapid. cbn [map concat fold_left].
      rewrite !smerge_list_app, fold_left_app. rewrite <- P1, <- N1, <- Z1, <- M1.
      rewrite (st_limit_kind (ds_pos d)), (st_limit_kind (ds_neg d)), <- KP1, <- KN1, <- !st_limit_kind. auto.
Qed.

(* G3: DecodeAndMergeWith of a whole serialised stream *)
Theorem dec_sketch_ser_any st d : wf_stream st -> ok_stream st -> maps_chain (ds_map d) st -> ds_inv d ->
  last_mapid (ds_map d) st <> None ->
  exists d', dec_sketch_into wx d (serialize st) = DOk d' [] /\ ds_rel_any_st d d' st.
Proof.
  intros Hwf Hokw Hch Hg Hm.
  destruct (dec_blocks_ser_any st d Hwf Hokw Hch Hg) as [d' [E R]]. exists d'. split; [|exact R].
  unfold dec_sketch_into. pose proof (serialize_length_ge st) as HL.
  replace (S (length (serialize st))) with (length st + (S (length (serialize st)) - length st)) by lia.
  rewrite <- (app_nil_r (serialize st)) at 2. rewrite E, dec_blocks_nil.
  destruct R as [[_ [_ Hs]] [_ [_ [_ [_ [_ M]]]]]]. rewrite M, Hs.
  destruct (last_mapid (ds_map d) st); [reflexivity|contradiction].
Qed.
Theorem dec_sketch_missing_mapping_any st d : wf_stream st -> ok_stream st -> maps_chain (ds_map d) st -> ds_inv d ->
  last_mapid (ds_map d) st = None ->
  dec_sketch_into wx d (serialize st) = DErr EMissingMapping.
Proof.
  intros Hwf Hokw Hch Hg Hm.
  destruct (dec_blocks_ser_any st d Hwf Hokw Hch Hg) as [d' [E R]].
  unfold dec_sketch_into. pose proof (serialize_length_ge st) as HL.
  replace (S (length (serialize st))) with (length st + (S (length (serialize st)) - length st)) by lia.
  rewrite <- (app_nil_r (serialize st)) at 2. rewrite E, dec_blocks_nil.
  destruct R as [_ [_ [_ [_ [_ [_ M]]]]]]. rewrite M, Hm. reflexivity.
Qed.
Theorem dec_sketch_mapping_mismatch_any st d kd g o m0 rest :
  wf_stream st -> ok_stream st -> maps_chain (ds_map d) st -> ds_inv d ->
  last_mapid (ds_map d) st = Some m0 ->
  WireProofs.kind_ok kd -> fle g f64_one = false -> map_equals m0 (map_of kd g o) = false ->
  dec_sketch_into wx d (serialize st ++ ser_block (BMapping kd g o) ++ rest) = DErr EMismatch.
Proof.
  intros Hwf Hokw Hch Hg Hm Hk Hfle Heq.
  destruct (dec_blocks_ser_any st d Hwf Hokw Hch Hg) as [d' [E [_ [_ [_ [_ [_ [_ M]]]]]]]].
  unfold dec_sketch_into. pose proof (serialize_length_ge st) as HL.
  set (bytes := serialize st ++ ser_block (BMapping kd g o) ++ rest).
  assert (HB : length st + 1 <= length bytes).
  { unfold bytes. rewrite !app_length. cbn [ser_block length]. lia. }
  replace (S (length bytes)) with (length st + S (length bytes - length st)) by lia.
  unfold bytes. rewrite E. rewrite (dec_blocks_mismatch1 wx d' kd g o m0); auto. congruence.
Qed.

(* G5: a block cut strictly inside gives io.EOF (repaired code: fD3) *)
Hypothesis HD3 : fD3 wx = true.
Lemma dec_blocks_trunc1_any b d p t k : wf_block b -> kind_ok_block b -> ok_block b -> ds_inv d ->
  ser_block b = p ++ t -> t <> [] -> p <> [] -> dec_blocks wx (S k) d p = DErr EEof.
Proof.
  intros Hwf Hk Hokw [Hgp [Hgn Hst]] H Ht Hp. destruct p as [|f p']; [contradiction|]. clear Hp.
  destruct b as [w|kd g o|neg bb|w|x|x|x].
  - cbn [ser_block] in H. rewrite <- app_comm_cons in H. apply cons_inj in H. destruct H as [Hf H]. subst f.
    rewrite dec_blocks_zc. rewrite (dec_count_prefix _ _ _ H Ht). reflexivity.
  - cbn [ser_block] in H. rewrite <- app_comm_cons in H. apply cons_inj in H. destruct H as [Hf H]. subst f.
    rewrite dec_blocks_map, dec_mapping_g by exact Hk.
    destruct (prefix_split _ _ _ _ H Ht) as [[l0 [Hl0 H1]]|[q [H1 H2]]].
    + rewrite (dec_f64_prefix _ _ _ H1 Hl0). reflexivity.
    + subst p'. rewrite dec_f64_enc. rewrite (dec_f64_prefix _ _ _ H2 Ht). reflexivity.
  - rewrite ser_block_store in H. rewrite <- app_comm_cons in H. apply cons_inj in H. destruct H as [Hf H]. subst f.
    cbn [wf_block ok_block] in Hwf, Hokw. destruct neg.
    + rewrite dec_blocks_neg by apply ser_bins_sub_lt64.
      rewrite (any_dec_bins_trunc bb (ds_neg d) p' t Hwf Hgn Hokw H Ht). rewrite HD3. reflexivity.
    + rewrite dec_blocks_pos by apply ser_bins_sub_lt64.
      rewrite (any_dec_bins_trunc bb (ds_pos d) p' t Hwf Hgp Hokw H Ht). rewrite HD3. reflexivity.
  - cbn [ser_block] in H. rewrite <- app_comm_cons in H. apply cons_inj in H. destruct H as [Hf H]. subst f.
    rewrite dec_blocks_feature by auto. rewrite dec_feature_count by assumption.
    rewrite (dec_vf_prefix _ _ _ H Ht). reflexivity.
  - cbn [ser_block] in H. rewrite <- app_comm_cons in H. apply cons_inj in H. destruct H as [Hf H]. subst f.
    rewrite dec_blocks_feature by auto. rewrite dec_feature_skip8 by auto.
    rewrite (skip8_prefix _ _ _ H Ht). reflexivity.
  - cbn [ser_block] in H. rewrite <- app_comm_cons in H. apply cons_inj in H. destruct H as [Hf H]. subst f.
    rewrite dec_blocks_feature by auto. rewrite dec_feature_skip8 by auto.
    rewrite (skip8_prefix _ _ _ H Ht). reflexivity.
  - cbn [ser_block] in H. rewrite <- app_comm_cons in H. apply cons_inj in H. destruct H as [Hf H]. subst f.
    rewrite dec_blocks_feature by auto. rewrite dec_feature_skip8 by auto.
    rewrite (skip8_prefix _ _ _ H Ht). reflexivity.
Qed.
Theorem dec_sketch_truncation_any st b d p t :
  wf_stream st -> ok_stream st -> maps_chain (ds_map d) st -> ds_inv d ->
  wf_block b -> kind_ok_block b -> ok_block b ->
  ser_block b = p ++ t -> t <> [] -> p <> [] ->
  dec_sketch_into wx d (serialize st ++ p) = DErr EEof.
Proof.
  intros Hwf Hokw Hch Hg Hb Hk Hob H Ht Hp. unfold dec_sketch_into.
  pose proof (serialize_length_ge st) as HL.
  assert (HP : 1 <= length p) by (destruct p; [contradiction|cbn [length]; lia]).
  replace (S (length (serialize st ++ p))) with (length st + S (length (serialize st ++ p) - length st))
    by (rewrite app_length; lia).
  destruct (dec_blocks_ser_any st d Hwf Hokw Hch Hg) as [d' [E [G _]]].
  rewrite E. rewrite (dec_blocks_trunc1_any b d' p t _ Hb Hk Hob G H Ht Hp). reflexivity.
Qed.
End AnyLoop.

(* ================================================================== *)
(* 7. Headline statements: G3 / G2 / G5 for receivers of any kinds     *)
(* ================================================================== *)
Lemma ok_stream_nonneg_pos st : ok_stream st -> nonneg (stream_pos_bins st).
Proof. intros H. apply PaginatedProofs.adds_ok_nonneg. now apply ok_stream_pos. Qed.
Lemma ok_stream_nonneg_neg st : ok_stream st -> nonneg (stream_neg_bins st).
Proof. intros H. apply PaginatedProofs.adds_ok_nonneg. now apply ok_stream_neg. Qed.

(* what the receiver holds after the decode, in the three equivalent forms: bin by bin with the receiver's
   normal form; the exact merge re-normalised (clamped for a bounded receiver); the Layer A merge with
   the documented content [sem st] of the stream *)
Definition absorbed (s s' : store) (xs : list (Z * W)) : Prop :=
  StInv s' /\ st_kind s' = st_kind s /\
  st_abs s' = smerge_list (st_limit s) (st_abs s) xs /\
  st_abs s' = norm (st_limit s) (bmerge_list (st_abs s) xs) /\
  st_abs s' = norm (st_limit s) (bmerge (st_abs s) (bins_of_list xs)).
Lemma absorbed_of s s' xs : StInv s -> StInv s' -> st_kind s' = st_kind s -> nonneg xs ->
  st_abs s' = smerge_list (st_limit s) (st_abs s) xs -> absorbed s s' xs.
Proof.
  intros Hs Hs' K Hn A. split; [exact Hs'|]. split; [exact K|]. split; [exact A|].
  rewrite A, (smerge_list_st_norm s xs Hs Hn). split; [reflexivity|].
  rewrite (bmerge_list_canon (st_abs s) xs (st_abs_wf s Hs) (st_abs_pos s Hs) Hn). reflexivity.
Qed.

Theorem any_decoder_accepts_grammar_all wx st d : fD2 wx = true ->
  wf_stream st -> idx_stream st -> nonneg_stream_w st -> maps_chain (ds_map d) st -> ds_inv d ->
  last_mapid (ds_map d) st <> None ->
  exists d', dec_sketch_into wx d (serialize st) = DOk d' [] /\
             absorbed (ds_pos d) (ds_pos d') (stream_pos_bins st) /\
             absorbed (ds_neg d) (ds_neg d') (stream_neg_bins st) /\
             ds_zero d' = fold_left wadd (stream_zero st) (ds_zero d) /\
             ds_map d' = last_mapid (ds_map d) st /\ ds_stats d' = None.
Proof.
  intros HD2 Hwf Hi Hw Hch Hg Hm. pose proof (ok_stream_of st Hi Hw) as Hok.
  destruct (dec_sketch_ser_any wx HD2 st d Hwf Hok Hch Hg Hm) as [d' [E [[Ip [In Hs]] [Kp [Kn [P [N [Z M]]]]]]]].
  destruct Hg as [Hgp [Hgn _]].
  exists d'. split; [exact E|]. split; [|split; [|auto]].
  - apply absorbed_of; auto. now apply ok_stream_nonneg_pos.
  - apply absorbed_of; auto. now apply ok_stream_nonneg_neg.
Qed.

(* item 1: the receivers whose DecodeAndMergeWith is the generic one of store.go *)
Definition ds_generic (d : dsketch) : Prop := generic_kind (st_kind (ds_pos d)) /\ generic_kind (st_kind (ds_neg d)).
Theorem any_decoder_accepts_grammar wx st d : fD2 wx = true -> ds_generic d ->
  wf_stream st -> idx_stream st -> nonneg_stream_w st -> maps_chain (ds_map d) st -> ds_inv d ->
  last_mapid (ds_map d) st <> None ->
  exists d', dec_sketch_into wx d (serialize st) = DOk d' [] /\ ds_generic d' /\
             absorbed (ds_pos d) (ds_pos d') (stream_pos_bins st) /\
             absorbed (ds_neg d) (ds_neg d') (stream_neg_bins st) /\
             ds_zero d' = fold_left wadd (stream_zero st) (ds_zero d) /\
             ds_map d' = last_mapid (ds_map d) st /\ ds_stats d' = None.
Proof.
  intros HD2 [G1 G2] Hwf Hi Hw Hch Hg Hm.
  destruct (any_decoder_accepts_grammar_all wx st d HD2 Hwf Hi Hw Hch Hg Hm) as [d' [E [P [N R]]]].
  exists d'. split; [exact E|]. split; [|auto].
  destruct P as [_ [Kp _]]. destruct N as [_ [Kn _]]. unfold ds_generic. rewrite Kp, Kn. split; assumption.
Qed.

(* G2: decoding into a non-empty receiver adds the stream's documented content to it *)
Theorem any_decode_is_merge wx st d : fD2 wx = true ->
  wf_stream st -> idx_stream st -> nonneg_stream_w st -> maps_chain (ds_map d) st -> ds_inv d ->
  last_mapid (ds_map d) st <> None ->
  exists d', dec_sketch_into wx d (serialize st) = DOk d' [] /\ ds_inv d' /\
             st_abs (ds_pos d') = norm (st_limit (ds_pos d)) (bmerge (st_abs (ds_pos d)) (c_pos (sem st))) /\
             st_abs (ds_neg d') = norm (st_limit (ds_neg d)) (bmerge (st_abs (ds_neg d)) (c_neg (sem st))) /\
             ds_zero d' = wadd (ds_zero d) (c_zero (sem st)).
Proof.
  intros HD2 Hwf Hi Hw Hch Hg Hm.
  destruct (any_decoder_accepts_grammar_all wx st d HD2 Hwf Hi Hw Hch Hg Hm)
    as [d' [E [[Ip [_ [_ [_ P]]]] [[In [_ [_ [_ N]]]] [Z [M S]]]]]].
  exists d'. split; [exact E|]. split; [split; [exact Ip|split; [exact In|exact S]]|].
  rewrite sem_pos, sem_neg. split; [exact P|]. split; [exact N|].
  rewrite Z. unfold sem. rewrite sem_from_zero. cbn [c_empty c_zero].
  generalize (stream_zero st) (ds_zero d). clear.
  assert (G : forall l a z, fold_left wadd l (wadd z a) = wadd z (fold_left wadd l a)).
  { induction l as [|x l IH]; intros a z; cbn [fold_left]; [reflexivity|]. rewrite <- IH. f_equal. apply eq_sym, wadd_assoc. }
  intros l z. rewrite <- G. rewrite wadd_0_r. reflexivity.
Qed.

Lemma dec_blocks_full wx st d d' :
  (forall k rest, dec_blocks wx (length st + k) d (serialize st ++ rest) = dec_blocks wx k d' rest) ->
  forall fuel rest, length st <= fuel -> dec_blocks wx fuel d (serialize st ++ rest) = dec_blocks wx (fuel - length st) d' rest.
Proof.
  intros H fuel rest Hf. replace fuel with (length st + (fuel - length st)) at 1 by lia. apply H.
Qed.
Lemma last_mapid_some : forall b c, c <> None -> last_mapid c b <> None.
Proof.
  induction b as [|x b IH]; intros c Hc; [exact Hc|].
  unfold last_mapid. cbn [fold_left]. apply IH. destruct x; try exact Hc. discriminate.
Qed.

(* G2: decoding [serialize a ++ serialize b] = decoding b into the result of decoding a *)
Theorem any_decode_concat wx a b d : fD2 wx = true ->
  wf_stream a -> wf_stream b -> idx_stream a -> idx_stream b -> nonneg_stream_w a -> nonneg_stream_w b ->
  maps_chain (ds_map d) (a ++ b) -> ds_inv d -> last_mapid (ds_map d) a <> None ->
  exists d1 d2, dec_sketch_into wx d (serialize a) = DOk d1 []
             /\ dec_sketch_into wx d1 (serialize b) = DOk d2 []
             /\ dec_sketch_into wx d (serialize a ++ serialize b) = DOk d2 []
             /\ absorbed (ds_pos d) (ds_pos d1) (stream_pos_bins a) /\ absorbed (ds_neg d) (ds_neg d1) (stream_neg_bins a)
             /\ absorbed (ds_pos d1) (ds_pos d2) (stream_pos_bins b) /\ absorbed (ds_neg d1) (ds_neg d2) (stream_neg_bins b).
Proof.
  intros HD2 Ha Hb Hia Hib Hwa Hwb Hch Hg Hm. apply maps_chain_app in Hch. destruct Hch as [Hca Hcb].
  pose proof (ok_stream_of a Hia Hwa) as Hoa. pose proof (ok_stream_of b Hib Hwb) as Hob.
  destruct (dec_blocks_ser_any wx HD2 a d Ha Hoa Hca Hg) as [d1 [E1 R1]].
  pose proof R1 as [[Ip1 [In1 Hs1]] [Kp1 [Kn1 [P1 [N1 [Z1 M1]]]]]].
  rewrite <- M1 in Hcb.
  destruct (dec_blocks_ser_any wx HD2 b d1 Hb Hob Hcb (conj Ip1 (conj In1 Hs1))) as [d2 [E2 R2]].
  pose proof R2 as [[Ip2 [In2 Hs2]] [Kp2 [Kn2 [P2 [N2 [Z2 M2]]]]]].
  assert (Hm2 : ds_map d2 <> None) by (rewrite M2, M1; now apply last_mapid_some).
  pose proof (serialize_length_ge a) as HLa. pose proof (serialize_length_ge b) as HLb.
  assert (F1 : dec_sketch_into wx d (serialize a) = DOk d1 []).
  { unfold dec_sketch_into. rewrite <- (app_nil_r (serialize a)) at 2.
    rewrite (dec_blocks_full wx a d d1 E1) by lia. rewrite dec_blocks_nil, Hs1, M1.
    destruct (last_mapid (ds_map d) a); [reflexivity|contradiction]. }
  assert (F2 : dec_sketch_into wx d1 (serialize b) = DOk d2 []).
  { unfold dec_sketch_into. rewrite <- (app_nil_r (serialize b)) at 2.
    rewrite (dec_blocks_full wx b d1 d2 E2) by lia. rewrite dec_blocks_nil, Hs2.
    destruct (ds_map d2); [reflexivity|contradiction]. }
  assert (F3 : dec_sketch_into wx d (serialize a ++ serialize b) = DOk d2 []).
  { unfold dec_sketch_into.
    rewrite (dec_blocks_full wx a d d1 E1) by (rewrite app_length; lia).
    rewrite <- (app_nil_r (serialize b)).
    rewrite (dec_blocks_full wx b d1 d2 E2) by (rewrite !app_length; cbn [length]; lia). rewrite dec_blocks_nil, Hs2.
    destruct (ds_map d2); [reflexivity|contradiction]. }
  destruct Hg as [Hgp [Hgn _]].
  exists d1, d2. split; [exact F1|]. split; [exact F2|]. split; [exact F3|].
  split; [apply absorbed_of; auto; now apply ok_stream_nonneg_pos|].
  split; [apply absorbed_of; auto; now apply ok_stream_nonneg_neg|].
  split; [apply absorbed_of; auto; now apply ok_stream_nonneg_pos|].
  apply absorbed_of; auto; now apply ok_stream_nonneg_neg.
Qed.

(* G5: complete blocks followed by a strict non-empty prefix of a block: io.EOF *)
Theorem any_truncation wx st b d p t : fD2 wx = true -> fD3 wx = true ->
  wf_stream st -> idx_stream st -> nonneg_stream_w st -> maps_chain (ds_map d) st -> ds_inv d ->
  wf_block b -> kind_ok_block b -> idx_block b -> okw_block nonneg_w b ->
  ser_block b = p ++ t -> t <> [] -> p <> [] ->
  dec_sketch_into wx d (serialize st ++ p) = DErr EEof.
Proof.
  intros HD2 HD3 Hwf Hi Hw Hch Hg Hb Hk Hib Hwb H Ht Hp.
  exact (dec_sketch_truncation_any wx HD2 HD3 st b d p t Hwf (ok_stream_of st Hi Hw) Hch Hg Hb Hk
           (ok_block_of b Hib Hwb) H Ht Hp).
Qed.
Theorem any_mapping_mismatch wx st d kd g o m0 rest : fD2 wx = true ->
  wf_stream st -> idx_stream st -> nonneg_stream_w st -> maps_chain (ds_map d) st -> ds_inv d ->
  last_mapid (ds_map d) st = Some m0 ->
  WireProofs.kind_ok kd -> fle g f64_one = false -> map_equals m0 (map_of kd g o) = false ->
  dec_sketch_into wx d (serialize st ++ ser_block (BMapping kd g o) ++ rest) = DErr EMismatch.
Proof.
  intros HD2 Hwf Hi Hw Hch Hg Hm Hk Hfle Heq.
  exact (dec_sketch_mapping_mismatch_any wx HD2 st d kd g o m0 rest Hwf (ok_stream_of st Hi Hw) Hch Hg Hm Hk Hfle Heq).
Qed.
Theorem any_missing_mapping wx st d : fD2 wx = true ->
  wf_stream st -> idx_stream st -> nonneg_stream_w st -> maps_chain (ds_map d) st -> ds_inv d ->
  last_mapid (ds_map d) st = None ->
  dec_sketch_into wx d (serialize st) = DErr EMissingMapping.
Proof.
  intros HD2 Hwf Hi Hw Hch Hg Hm.
  exact (dec_sketch_missing_mapping_any wx HD2 st d Hwf (ok_stream_of st Hi Hw) Hch Hg Hm).
Qed.

(* every prefix of the serialisation is the complete blocks, or the complete blocks and a cut block *)
Lemma firstn_serialize : forall st n,
  (exists st1 st2, st = st1 ++ st2 /\ firstn n (serialize st) = serialize st1) \/
  (exists st1 b st2 p t, st = st1 ++ b :: st2 /\ firstn n (serialize st) = serialize st1 ++ p
                         /\ ser_block b = p ++ t /\ t <> [] /\ p <> []).
Proof.
  induction st as [|b st IH]; intros n.
  - left. exists [], []. split; [reflexivity|]. cbn. now rewrite firstn_nil.
  - rewrite serialize_cons, firstn_app.
    destruct (Nat.eq_dec n 0) as [->|Hn0].
    { left. exists [], (b :: st). split; [reflexivity|]. reflexivity. }
    destruct (Nat.lt_ge_cases n (length (ser_block b))) as [Hlt|Hge].
    + right. exists [], b, st, (firstn n (ser_block b)), (skipn n (ser_block b)).
      split; [reflexivity|]. split.
      * replace (n - length (ser_block b)) with 0 by lia. cbn [firstn serialize map concat app]. now rewrite app_nil_r.
      * split; [now rewrite firstn_skipn|]. split.
        -- intros E. pose proof (f_equal (@length _) E) as EL. rewrite skipn_length in EL. cbn [length] in EL. lia.
        -- intros E. pose proof (f_equal (@length _) E) as EL. rewrite firstn_length in EL. cbn [length] in EL. lia.
    + rewrite firstn_all2 by exact Hge.
      destruct (IH (n - length (ser_block b))) as [[st1 [st2 [E1 E2]]]|[st1 [b' [st2 [p [t [E1 [E2 R]]]]]]]].
      * left. exists (b :: st1), st2. split; [rewrite E1; reflexivity|]. rewrite E2, serialize_cons. reflexivity.
      * right. exists (b :: st1), b', st2, p, t. split; [rewrite E1; reflexivity|].
        split; [rewrite E2, serialize_cons, app_assoc; reflexivity|exact R].
Qed.
Lemma idx_stream_app a b : idx_stream (a ++ b) <-> idx_stream a /\ idx_stream b.
Proof. apply Forall_app. Qed.
Lemma nonneg_stream_w_app a b : nonneg_stream_w (a ++ b) <-> nonneg_stream_w a /\ nonneg_stream_w b.
Proof. apply Forall_app. Qed.

(* G5: on every prefix (complete, cut at a block boundary, cut inside a block) of the serialisation of an
   admissible stream the decoder answers with a sketch, io.EOF, or "missing index mapping": never a panic *)
Theorem any_decoder_total wx st d n : fD2 wx = true -> fD3 wx = true ->
  wf_stream st -> idx_stream st -> nonneg_stream_w st -> maps_chain (ds_map d) st -> ds_inv d ->
  (exists d', dec_sketch_into wx d (firstn n (serialize st)) = DOk d' [] /\ ds_inv d')
  \/ dec_sketch_into wx d (firstn n (serialize st)) = DErr EEof
  \/ dec_sketch_into wx d (firstn n (serialize st)) = DErr EMissingMapping.
Proof.
  intros HD2 HD3 Hwf Hi Hw Hch Hg.
  destruct (firstn_serialize st n) as [[st1 [st2 [E1 E2]]]|[st1 [b [st2 [p [t [E1 [E2 [Hb [Ht Hp]]]]]]]]]];
    rewrite E2; subst st; apply Forall_app in Hwf; apply idx_stream_app in Hi; apply nonneg_stream_w_app in Hw;
    apply maps_chain_app in Hch; destruct Hwf as [Hwf1 Hwf2]; destruct Hi as [Hi1 Hi2]; destruct Hw as [Hw1 Hw2];
    destruct Hch as [Hch1 Hch2].
  - destruct (last_mapid (ds_map d) st1) as [m|] eqn:Hm.
    + left. destruct (any_decoder_accepts_grammar_all wx st1 d HD2 Hwf1 Hi1 Hw1 Hch1 Hg) as [d' [E [P [N [_ [_ S]]]]]];
        [rewrite Hm; discriminate|].
      exists d'. split; [exact E|]. destruct P as [Ip _]. destruct N as [In _]. split; [exact Ip|split; [exact In|exact S]].
    + right. right. now apply any_missing_mapping.
  - right. left. inversion Hwf2 as [|x y Hwb _]; subst. inversion Hi2 as [|x y Hib _]; subst.
    inversion Hw2 as [|x y Hwwb _]; subst. destruct Hch2 as [Hbo _].
    apply (any_truncation wx st1 b d p t); auto.
    destruct b; try exact I. exact (proj1 Hbo).
Qed.
Corollary any_decoder_no_panic wx st d n : fD2 wx = true -> fD3 wx = true ->
  wf_stream st -> idx_stream st -> nonneg_stream_w st -> maps_chain (ds_map d) st -> ds_inv d ->
  dec_sketch_into wx d (firstn n (serialize st)) <> DPanic.
Proof.
  intros HD2 HD3 Hwf Hi Hw Hch Hg.
  destruct (any_decoder_total wx st d n HD2 HD3 Hwf Hi Hw Hch Hg) as [[d' [E _]]|[E|E]]; rewrite E; discriminate.
Qed.

(* ================================================================== *)
(* 8. Streams made of the bins blocks of one store                     *)
(* ================================================================== *)
Definition block_all_bins (b : block) : list (Z * W) := match b with BStore _ bb => bins_of_block bb | _ => [] end.
Definition all_bins (st : stream) : list (Z * W) := concat (map block_all_bins st).
Definition side_bins (neg : bool) (st : stream) : list (Z * W) := if neg then stream_neg_bins st else stream_pos_bins st.
(* [st] is a sequence of well-formed admissible bins blocks of the side [neg], of raw content [xs] *)
Definition store_stream (neg : bool) (st : stream) (xs : list (Z * W)) : Prop :=
  Forall (fun b => exists bb, b = BStore neg bb) st /\ wf_stream st /\ ok_stream st /\ all_bins st = xs.

Lemma store_stream_nil neg : store_stream neg [] [].
Proof. split; [constructor|]. split; [constructor|]. split; [constructor|reflexivity]. Qed.
Lemma store_stream_app neg a b xa xb : store_stream neg a xa -> store_stream neg b xb -> store_stream neg (a ++ b) (xa ++ xb).
Proof.
  intros [A1 [A2 [A3 A4]]] [B1 [B2 [B3 B4]]]. split; [apply Forall_app; auto|]. split; [apply Forall_app; auto|].
  split; [apply Forall_app; auto|]. unfold all_bins in *. rewrite map_app, concat_app, A4, B4. reflexivity.
Qed.
Lemma store_stream_one neg bb : wf_bins bb -> PaginatedProofs.adds_ok (bins_of_block bb) ->
  store_stream neg [BStore neg bb] (bins_of_block bb).
Proof.
  intros Hwf Hok. split; [constructor; [eexists; reflexivity|constructor]|].
  split; [constructor; [exact Hwf|constructor]|]. split; [constructor; [exact Hok|constructor]|].
  unfold all_bins. cbn [map concat block_all_bins]. apply app_nil_r.
Qed.
Lemma store_stream_facts neg : forall st xs, store_stream neg st xs ->
  side_bins neg st = xs /\ side_bins (negb neg) st = [] /\ stream_zero st = [] /\
  (forall cur, maps_chain cur st) /\ (forall cur, last_mapid cur st = cur) /\ PaginatedProofs.adds_ok xs.
Proof.
  induction st as [|b st IH]; intros xs [H1 [H2 [H3 H4]]].
  - subst xs. destruct neg; repeat split; try reflexivity; constructor.
  - inversion H1 as [|x y [bb ->] H1']; subst. inversion H2 as [|x y Hb H2']; subst. inversion H3 as [|x y Hob H3']; subst.
    destruct (IH (all_bins st) (conj H1' (conj H2' (conj H3' eq_refl)))) as [I1 [I2 [I3 [I4 [I5 I6]]]]].
    unfold all_bins. cbn [map concat block_all_bins]. fold (all_bins st).
    split; [|split; [|split; [|split; [|split]]]].
    + destruct neg; unfold side_bins, stream_pos_bins, stream_neg_bins in *; cbn [map concat block_pos_bins block_neg_bins];
        rewrite I1; reflexivity.
    + destruct neg; unfold side_bins, stream_pos_bins, stream_neg_bins in *; cbn [negb map concat block_pos_bins block_neg_bins app];
        exact I2.
    + unfold stream_zero in *. cbn [map concat block_zero app]. exact I3.
    + intros cur. cbn [maps_chain block_ok block_map]. split; [exact I|apply I4].
    + intros cur. unfold last_mapid in *. cbn [fold_left block_map]. apply I5.
    + apply adds_ok_app. split; [exact Hob|exact I6].
Qed.

(* the store-level decode loop of the harness (flag, block, flag, block, ...) *)
Lemma dec_store_all_nil fuel s : dec_store_all fuel s [] = DOk s [].
Proof. destruct fuel; reflexivity. Qed.
Lemma dec_store_all_S k s f b1 : dec_store_all (S k) s (f :: b1) =
  match dec_bins s (flag_sub f) b1 with DOk s' rest => dec_store_all k s' rest | r => r end.
Proof. reflexivity. Qed.
Arguments dec_store_all : simpl never.

Lemma dec_store_all_ser neg : forall st xs r, store_stream neg st xs -> StInv r ->
  exists r', (forall k rest, dec_store_all (length st + k) r (serialize st ++ rest) = dec_store_all k r' rest)
             /\ StInv r' /\ st_kind r' = st_kind r /\ st_abs r' = smerge_list (st_limit r) (st_abs r) xs.
Proof.
  induction st as [|b st IH]; intros xs r [H1 [H2 [H3 H4]]] Hr.
  - subst xs. exists r. split; [intros; reflexivity|]. split; [exact Hr|]. split; reflexivity.
  - inversion H1 as [|x y [bb ->] H1']; subst. inversion H2 as [|x y Hb H2']; subst. inversion H3 as [|x y Hob H3']; subst.
    cbn [wf_block ok_block] in Hb, Hob.
    destruct (any_dec_bins bb r Hb Hr Hob) as [r1 [E1 [I1 [K1 A1]]]].
    destruct (IH (all_bins st) r1 (conj H1' (conj H2' (conj H3' eq_refl))) I1) as [r' [E' [I' [K' A']]]].
    exists r'. split; [|split; [exact I'|split; [congruence|]]].
    + intros k rest. rewrite serialize_cons, <- app_assoc, ser_block_store, <- app_comm_cons.
      cbn [length Nat.add]. rewrite dec_store_all_S.
      rewrite flag_sub_g by (try apply ser_bins_sub_lt64; destruct neg; reflexivity).
      rewrite E1. apply E'.
    + unfold all_bins. cbn [map concat block_all_bins]. fold (all_bins st).
      rewrite smerge_list_app, A', A1, !st_limit_kind, K1. reflexivity.
Qed.

(* absorbing a raw list = absorbing its canonical form (the content of the source store) *)
Lemma smerge_list_canon r xs : StInv r -> nonneg xs ->
  smerge_list (st_limit r) (st_abs r) xs = smerge_list (st_limit r) (st_abs r) (bins_of_list xs).
Proof.
  intros Hr Hn. pose proof (pos_nonneg _ (pos_bins_of_list xs Hn)) as Hn'.
  rewrite (smerge_list_st_norm r xs Hr Hn), (smerge_list_st_norm r _ Hr Hn'). f_equal.
  rewrite (bmerge_list_canon (st_abs r) xs (st_abs_wf r Hr) (st_abs_pos r Hr) Hn).
  rewrite (bmerge_list_canon (st_abs r) (bins_of_list xs) (st_abs_wf r Hr) (st_abs_pos r Hr) Hn').
  rewrite (bins_of_list_canon (bins_of_list xs)); [reflexivity|now apply wf_bins_of_list|now apply pos_bins_of_list].
Qed.

(* ================================================================== *)
(* 9. G4: BufferedPaginatedStore.Encode emits the grammar              *)
(* ================================================================== *)
Fixpoint id_deltas (prev : Z) (l : list Z) : list Z :=
  match l with [] => [] | i :: tl => (i - prev)%Z :: id_deltas i tl end.
Definition pag_buf_blocks (neg : bool) (b : list Z) : stream :=
  match b with [] => [] | _ => [BStore neg (IndexDeltas (id_deltas 0 b))] end.
Definition pag_page_blocks (neg : bool) (m : Z) (op : nat * list W) : stream :=
  match snd op with
  | [] => []
  | _ => [BStore neg (ContiguousCounts (index_of (m + Z.of_nat (fst op)) 0) 1 (map q2f (snd op)))]
  end.
Definition pag_pages_blocks (neg : bool) (m : Z) (a : nat) (ps : list (list W)) : stream :=
  concat (map (pag_page_blocks neg m) (combine (seq a (length ps)) ps)).
(* one IndexDeltas block for the buffer when it is not empty, then one ContiguousCounts block of
   first index index_of (minPage + off) 0 and stride 1 per allocated page *)
Definition pag_blocks (neg : bool) (p : pag) : stream :=
  pag_buf_blocks neg (buffer p) ++ pag_pages_blocks neg (minPage p) 0 (pages p).
Definition x_compact (p : pag) : pag := compact pgrow8 worth32 ZSort.sort p.

Lemma id_deltas_length : forall l prev, length (id_deltas prev l) = length l.
Proof. induction l as [|i l IH]; intros prev; cbn [id_deltas length]; [reflexivity|now rewrite IH]. Qed.
Lemma enc_pag_buf_fold : forall (l : list Z) prev out,
  snd (fold_left (fun (acc : Z * list byte) (i : Z) => let '(prev, out) := acc in (i, out ++ enc_sv (i - prev))) l (prev, out))
  = out ++ concat (map enc_sv (id_deltas prev l)).
Proof.
  induction l as [|i l IH]; intros prev out; cbn [fold_left id_deltas map concat snd].
  - now rewrite app_nil_r.
  - rewrite IH. rewrite <- app_assoc. reflexivity.
Qed.

Theorem enc_pag_grammar p neg :
  enc_pag p (ty_of neg) = (x_compact p, serialize (pag_blocks neg (x_compact p))).
Proof.
  unfold enc_pag. cbv zeta. fold (x_compact p). f_equal. unfold pag_blocks. rewrite serialize_app. f_equal.
  - destruct (buffer (x_compact p)) as [|i b]; [reflexivity|].
    unfold pag_buf_blocks. rewrite serialize_one, ser_block_store. cbn [ser_bins fst snd].
    rewrite enc_pag_buf_fold, id_deltas_length. destruct neg; reflexivity.
  - unfold pag_pages_blocks. generalize (combine (seq 0 (length (pages (x_compact p)))) (pages (x_compact p))).
    intros l. induction l as [|[off pg] l IH]; [reflexivity|].
    cbn [map concat]. rewrite serialize_app, IH. f_equal.
    destruct pg as [|c pg]; [reflexivity|].
    unfold pag_page_blocks. cbn [snd fst]. rewrite serialize_one, ser_block_store. cbn [ser_bins fst snd].
    rewrite map_length, map_map. destruct neg; reflexivity.
Qed.
Theorem enc_pag_keeps_content p neg : PaginatedProofs.PInv p ->
  PaginatedProofs.PInv (fst (enc_pag p (ty_of neg))) /\
  PaginatedProofs.pabs (fst (enc_pag p (ty_of neg))) = PaginatedProofs.pabs p.
Proof.
  intros H. rewrite enc_pag_grammar. cbn [fst].
  exact (PaginatedProofs.compact_abs pgrow8 worth32 ZSort.sort x_pgrow_ok x_sort_ok p H).
Qed.

(* ---- the meaning of the blocks ---- *)
Lemma id_deltas_i64 : forall l prev, idx_ok prev -> Forall idx_ok l -> Forall i64 (id_deltas prev l).
Proof.
  induction l as [|i l IH]; intros prev Hp H; cbn [id_deltas]; [constructor|].
  inversion H as [|x y Hi Hl]; subst. constructor; [|apply IH; assumption].
  unfold idx_ok, MinInt32, MaxInt32, i64 in *. lia.
Qed.
Lemma id_bins_deltas : forall l prev, Forall idx_ok l -> id_bins prev (id_deltas prev l) = PaginatedProofs.unit_bins l.
Proof.
  induction l as [|i l IH]; intros prev H; cbn [id_deltas id_bins]; [reflexivity|].
  inversion H as [|x y Hi Hl]; subst. cbv zeta.
  replace (prev + (i - prev))%Z with i by lia.
  rewrite wrap_i64_id by (unfold idx_ok, MinInt32, MaxInt32, i64 in *; lia).
  rewrite IH by exact Hl. reflexivity.
Qed.

Definition pag_wire_ok (p : pag) : Prop :=
  (N.of_nat (length (buffer p)) < W64)%N /\ Forall (Forall wexact) (pages p).

Lemma pag_buf_stream neg b : Forall idx_ok b -> (N.of_nat (length b) < W64)%N ->
  store_stream neg (pag_buf_blocks neg b) (PaginatedProofs.unit_bins b).
Proof.
  intros Hb HL. destruct b as [|i b]; [apply store_stream_nil|]. unfold pag_buf_blocks.
  assert (E : bins_of_block (IndexDeltas (id_deltas 0 (i :: b))) = PaginatedProofs.unit_bins (i :: b)).
  { rewrite bins_of_block_eq. cbn [bins_of_block_w]. apply id_bins_deltas. exact Hb. }
  rewrite <- E. apply store_stream_one.
  - cbn [wf_bins]. rewrite id_deltas_length. split; [exact HL|].
    apply id_deltas_i64; [unfold idx_ok, MinInt32, MaxInt32; lia|exact Hb].
  - rewrite E. apply PaginatedProofs.adds_ok_unit. exact Hb.
Qed.

(* a page as a contiguous block: cells [b, b + length pg) of page P *)
Lemma cc_bins_row P : forall (pg : list W) b, PaginatedProofs.page_ok P -> (Z.of_nat b + Z.of_nat (length pg) <= 32)%Z ->
  Forall wexact pg ->
  cc_bins wire_w (index_of P (Z.of_nat b)) 1 (map q2f pg) = PaginatedProofs.pc_row P b pg.
Proof.
  induction pg as [|c pg IH]; intros b HP Hb Hw; [reflexivity|].
  inversion Hw as [|x y Hc Hl]; subst. cbn [map cc_bins]. rewrite PaginatedProofs.pc_row_cons.
  rewrite wexact_wire by exact Hc. f_equal.
  cbn [length] in Hb.
  replace (wrap_i64 (index_of P (Z.of_nat b) + 1)) with (index_of P (Z.of_nat (S b))).
  - apply IH; [exact HP| lia |exact Hl].
  - rewrite !PaginatedProofs.index_of_mul. rewrite wrap_i64_id.
    + lia.
    + unfold PaginatedProofs.page_ok, PaginatedProofs.PB, i64 in *. lia.
Qed.
Lemma pc_row_ok P : forall (pg : list W) b, PaginatedProofs.page_ok P -> (Z.of_nat b + Z.of_nat (length pg) <= 32)%Z ->
  Forall (fun c => (w0 <= c)%Qc) pg -> PaginatedProofs.adds_ok (PaginatedProofs.pc_row P b pg).
Proof.
  induction pg as [|c pg IH]; intros b HP Hb Hw; [constructor|].
  inversion Hw as [|x y Hc Hl]; subst. rewrite PaginatedProofs.pc_row_cons. cbn [length] in Hb.
  constructor; [|apply IH; [exact HP|lia|exact Hl]].
  cbn [fst snd]. split; [|exact Hc]. rewrite PaginatedProofs.index_of_mul.
  unfold PaginatedProofs.page_ok, PaginatedProofs.PB, idx_ok, MinInt32, MaxInt32 in *. lia.
Qed.

Definition pages_ok (m : Z) (a : nat) (ps : list (list W)) : Prop :=
  forall k, PaginatedProofs.pg_ok (PaginatedProofs.pgat ps k) /\
            (PaginatedProofs.pgat ps k <> [] -> PaginatedProofs.page_ok (m + Z.of_nat a + k)).
Lemma pages_ok_cons m a pg ps : pages_ok m a (pg :: ps) ->
  PaginatedProofs.pg_ok pg /\ (pg <> [] -> PaginatedProofs.page_ok (m + Z.of_nat a)) /\ pages_ok m (S a) ps.
Proof.
  intros H. pose proof (H 0%Z) as [H0 H0']. rewrite PaginatedProofs.pgat_cons in H0, H0'. cbn [Z.eqb] in H0, H0'.
  split; [exact H0|]. split; [intros Hn; specialize (H0' Hn); now rewrite Z.add_0_r in H0'|].
  intros k. destruct (Z.ltb_spec k 0) as [Hk|Hk].
  - unfold PaginatedProofs.pgat. apply Z.ltb_lt in Hk. rewrite Hk. split; [apply PaginatedProofs.pg_ok_nil|]. intros C; contradiction C; reflexivity.
  - pose proof (H (k + 1)%Z) as [H1 H1']. rewrite PaginatedProofs.pgat_cons in H1, H1'.
    destruct (Z.eqb_spec (k + 1) 0) as [E|_]; [lia|]. replace (k + 1 - 1)%Z with k in H1, H1' by lia.
    split; [exact H1|]. intros Hn. specialize (H1' Hn). replace (m + Z.of_nat (S a) + k)%Z with (m + Z.of_nat a + (k + 1))%Z by lia.
    exact H1'.
Qed.
Lemma PInv_pages_ok p : PaginatedProofs.PInv p -> pages_ok (minPage p) 0 (pages p).
Proof.
  intros H k. split; [apply (PaginatedProofs.inv_pg p H)|]. intros Hn. rewrite Z.add_0_r.
  apply (PaginatedProofs.inv_alloc p H). exact Hn.
Qed.

Lemma pag_pages_stream neg m : forall ps a, pages_ok m a ps -> Forall (Forall wexact) ps ->
  store_stream neg (pag_pages_blocks neg m a ps) (PaginatedProofs.pc_from m a ps).
Proof.
  induction ps as [|pg ps IH]; intros a Hok Hw; [apply store_stream_nil|].
  apply pages_ok_cons in Hok. destruct Hok as [Hpg [Hpage Hok]]. inversion Hw as [|x y Hw1 Hwl]; subst.
  unfold pag_pages_blocks. cbn [length seq combine map concat]. fold (pag_pages_blocks neg m (S a) ps).
  rewrite PaginatedProofs.pc_from_cons. apply store_stream_app; [|apply IH; assumption].
  destruct pg as [|c pg]; [apply store_stream_nil|].
  assert (HP : PaginatedProofs.page_ok (m + Z.of_nat a)) by (apply Hpage; discriminate).
  assert (HL : zlen (c :: pg) = 32%Z).
  { apply PaginatedProofs.pg_ok_len; [exact Hpg|]. unfold zlen. cbn [length]. lia. }
  unfold zlen in HL.
  unfold pag_page_blocks. cbn [snd fst].
  assert (E : bins_of_block (ContiguousCounts (index_of (m + Z.of_nat a) 0) 1 (map q2f (c :: pg)))
              = PaginatedProofs.pc_row (m + Z.of_nat a) 0 (c :: pg)).
  { rewrite bins_of_block_eq. cbn [bins_of_block_w]. apply (cc_bins_row (m + Z.of_nat a) (c :: pg) 0 HP); [lia|exact Hw1]. }
  rewrite <- E. apply store_stream_one.
  - cbn [wf_bins]. rewrite map_length.
    split; [change (N.of_nat (@length W (c :: pg)) < W64)%N; rewrite (Nat2Z.inj _ 32 HL); reflexivity|]. split; [|unfold i64; lia].
    rewrite PaginatedProofs.index_of_mul. unfold PaginatedProofs.page_ok, PaginatedProofs.PB, i64 in *. lia.
  - rewrite E. apply (pc_row_ok (m + Z.of_nat a) (c :: pg) 0 HP); [lia|]. apply PaginatedProofs.pc_Forall_at. apply Hpg.
Qed.

Theorem pag_blocks_stream neg p : PaginatedProofs.PInv p -> pag_wire_ok p ->
  store_stream neg (pag_blocks neg p) (PaginatedProofs.unit_bins (buffer p) ++ page_cells p).
Proof.
  intros H [HL Hw]. unfold pag_blocks. apply store_stream_app.
  - apply pag_buf_stream; [apply (PaginatedProofs.inv_buf p H)|exact HL].
  - rewrite PaginatedProofs.pc_page_cells. apply pag_pages_stream; [now apply PInv_pages_ok|exact Hw].
Qed.

(* the documentation-only decoder reads the content of the store back *)
Theorem enc_pag_ref_decode p : PaginatedProofs.PInv p -> pag_wire_ok (x_compact p) ->
  exists c, ref_decode_raw (snd (enc_pag p ft_positive)) = Some c /\ c_pos c = PaginatedProofs.pabs p /\ c_neg c = [].
Proof.
  intros H Hw. change ft_positive with (ty_of false). rewrite enc_pag_grammar. cbn [snd].
  destruct (PaginatedProofs.compact_abs pgrow8 worth32 ZSort.sort x_pgrow_ok x_sort_ok p H) as [H' A]. fold (x_compact p) in H', A.
  pose proof (pag_blocks_stream false (x_compact p) H' Hw) as S.
  destruct (store_stream_facts false _ _ S) as [F1 [F2 _]]. cbn [side_bins negb] in F1, F2.
  eexists. split; [apply ref_decode_raw_serialize; apply S|].
  rewrite sem_pos, sem_neg, F1, F2. split; [|reflexivity]. rewrite <- A. reflexivity.
Qed.
Theorem enc_pag_ref_decode_neg p : PaginatedProofs.PInv p -> pag_wire_ok (x_compact p) ->
  exists c, ref_decode_raw (snd (enc_pag p ft_negative)) = Some c /\ c_neg c = PaginatedProofs.pabs p /\ c_pos c = [].
Proof.
  intros H Hw. change ft_negative with (ty_of true). rewrite enc_pag_grammar. cbn [snd].
  destruct (PaginatedProofs.compact_abs pgrow8 worth32 ZSort.sort x_pgrow_ok x_sort_ok p H) as [H' A]. fold (x_compact p) in H', A.
  pose proof (pag_blocks_stream true (x_compact p) H' Hw) as S.
  destruct (store_stream_facts true _ _ S) as [F1 [F2 _]]. cbn [side_bins negb] in F1, F2.
  eexists. split; [apply ref_decode_raw_serialize; apply S|].
  rewrite sem_pos, sem_neg, F1, F2. split; [|reflexivity]. rewrite <- A. reflexivity.
Qed.

(* ================================================================== *)
(* 10. Encode of a store of any kind, decoded into a store of any kind *)
(* ================================================================== *)
(* the weights of the source cross the wire unchanged (integers below 2^53 do: wexact_int); the list
   lengths fit the uvarint64 that carries them *)
Definition store_wire_ok (s : store) : Prop :=
  match s with
  | SD d => Forall (fun ic => wexact (snd ic)) (dense_cells d)
  | SS m => (N.of_nat (length m) < W64)%N /\ Forall (fun ic => wexact (snd ic)) m
  | SP p => pag_wire_ok (x_compact p)
  end.

Lemma st_abs_SD d : StInv (SD d) -> st_abs (SD d) = DenseProofs.dabs d.
Proof. intros H. exact (st_abs_content (SD d) H). Qed.
Lemma st_abs_SS m : StInv (SS m) -> st_abs (SS m) = m.
Proof. intros H. exact (st_abs_content (SS m) H). Qed.
Lemma dabs_cells d : DenseProofs.dabs d = filter nzb (dense_cells d).
Proof. reflexivity. Qed.
Lemma keys_ok_Forall (m : list (Z * W)) : keys_ok m -> Forall (fun ic => idx_ok (fst ic)) m.
Proof. intros H. apply Forall_forall. intros [k w] Hin. cbn [fst]. exact (H k w Hin). Qed.

Lemma dense_store_stream neg d : StInv (SD d) -> store_wire_ok (SD d) ->
  exists st xs, enc_dense d (ty_of neg) = serialize st /\ store_stream neg st xs /\ bins_of_list xs = DenseProofs.dabs d.
Proof.
  intros Hs Hw. cbn [store_wire_ok] in Hw. pose proof (StInv_SD_winv d Hs) as Wd.
  destruct (is_empty d) eqn:Em.
  - exists [], []. split; [unfold enc_dense; rewrite Em; reflexivity|]. split; [apply store_stream_nil|].
    apply DenseProofs.is_empty_true in Em. rewrite (CollapsingProofs.dabs_empty_winv d Wd Em). reflexivity.
  - pose proof Em as N. apply DenseProofs.is_empty_false in N.
    destruct (DenseProofs.inv_win _ Wd N) as (_ & Hmm & _). destruct (DenseProofs.inv_idx _ Wd N) as [Hi1 Hi2].
    cbn [CollapsingProofs.as_exact minI maxI] in Hmm, Hi1, Hi2.
    assert (Hok : dense_wire_ok d) by (split; [exact Hmm|split; [exact Hi1|split; [exact Hi2|exact Hw]]]).
    destruct (enc_dense_grammar d neg Hmm) as [c E].
    pose proof (dense_blocks_wf neg d c Hok) as Hwf.
    pose proof (dense_cells_idx d Hi1 Hi2) as Hidx. pose proof (idx_ok_i64 _ Hidx) as Hi64.
    assert (Hnn : Forall (fun ic : Z * W => (w0 <= snd ic)%Qc) (dense_cells d)).
    { unfold dense_cells. apply Forall_forall. intros ic Hin. apply in_map_iff in Hin. destruct Hin as [i [<- _]]. cbn [snd].
      exact (DenseProofs.inv_nonneg _ Wd i). }
    assert (Hadds : PaginatedProofs.adds_ok (dense_cells d)).
    { apply Forall_forall. intros ic Hin. rewrite Forall_forall in Hidx, Hnn. split; [now apply Hidx|now apply Hnn]. }
    assert (Hcanon : bins_of_list (DenseProofs.dabs d) = DenseProofs.dabs d).
    { apply bins_of_list_canon; [apply DenseProofs.dabs_wf|now apply CollapsingProofs.dabs_pos_winv]. }
    unfold dense_blocks in *. rewrite Em in *. destruct c.
    + eexists. exists (dense_cells d). split; [exact E|]. split.
      * inversion Hwf as [|x y Hb _]; subst. cbn [wf_block] in Hb.
        assert (EB : bins_of_block (ContiguousCounts (minI d) 1 (map (fun ic => q2f (snd ic)) (dense_cells d))) = dense_cells d).
        { rewrite bins_of_block_eq. cbn [bins_of_block_w]. apply cc_bins_consec; [apply dense_cells_consec|exact Hi64|exact Hw]. }
        rewrite <- EB at 2. apply store_stream_one; [exact Hb|rewrite EB; exact Hadds].
      * unfold bins_of_list. rewrite <- bmerge_list_filter. rewrite <- dabs_cells. exact Hcanon.
    + eexists. exists (filter nzb (dense_cells d)). split; [exact E|]. split.
      * inversion Hwf as [|x y Hb _]; subst. cbn [wf_block] in Hb.
        assert (EB : bins_of_block (IndexDeltasAndCounts (sparse_deltas 0 (filter nzb (dense_cells d)))) = filter nzb (dense_cells d)).
        { rewrite bins_of_block_eq. cbn [bins_of_block_w]. apply sparse_deltas_bins; apply Forall_filter; assumption. }
        rewrite <- EB at 2. apply store_stream_one; [exact Hb|rewrite EB; apply Forall_filter; exact Hadds].
      * rewrite <- dabs_cells. exact Hcanon.
Qed.
Lemma sparse_store_stream neg m : StInv (SS m) -> store_wire_ok (SS m) ->
  exists st, enc_sparse m (ty_of neg) = serialize st /\ store_stream neg st m.
Proof.
  intros [Hwf [Hp Hk]] [HL Hw]. exists (sparse_blocks neg m). split; [apply enc_sparse_grammar|].
  pose proof (sparse_wire_ok_int32 m HL (keys_ok_Forall m Hk) Hw) as Hok.
  pose proof (sparse_blocks_wf neg m Hok) as Hwfs. destruct Hok as [_ [Hi64 [_ _]]].
  destruct m as [|ic m]; [apply store_stream_nil|]. unfold sparse_blocks in *.
  inversion Hwfs as [|x y Hb _]; subst. cbn [wf_block] in Hb.
  assert (EB : bins_of_block (IndexDeltasAndCounts (sparse_deltas 0 (ic :: m))) = ic :: m).
  { rewrite bins_of_block_eq. cbn [bins_of_block_w]. apply sparse_deltas_bins; assumption. }
  rewrite <- EB at 2. apply store_stream_one; [exact Hb|]. rewrite EB.
  apply Forall_forall. intros [k w] Hin. cbn [fst snd]. split; [exact (Hk k w Hin)|].
  apply wpos_nonneg. exact (proj1 (Forall_forall _ _) Hp (k, w) Hin).
Qed.

(* Encode of a store of any kind: a stream of admissible bins blocks whose canonical content is the
   content of the store; the store it leaves (the paginated store compacts) has the same content *)
Theorem enc_store_stream s neg : StInv s -> store_wire_ok s ->
  exists s' st xs, enc_store s (ty_of neg) = (s', serialize st) /\
                   StInv s' /\ st_kind s' = st_kind s /\ st_abs s' = st_abs s /\
                   store_stream neg st xs /\ bins_of_list xs = st_abs s.
Proof.
  intros Hs Hw. destruct s as [d|m|p].
  - destruct (dense_store_stream neg d Hs Hw) as [st [xs [E [S B]]]].
    exists (SD d), st, xs. cbn [enc_store]. rewrite E. rewrite (st_abs_SD d Hs). auto 10.
  - destruct (sparse_store_stream neg m Hs Hw) as [st [E S]].
    exists (SS m), st, m. cbn [enc_store]. unfold sp_foreach, x_visit. rewrite E. rewrite (st_abs_SS m Hs).
    split; [reflexivity|]. split; [exact Hs|]. split; [reflexivity|]. split; [reflexivity|]. split; [exact S|].
    destruct Hs as [Hwf [Hp _]]. now apply bins_of_list_canon.
  - cbn [StInv store_wire_ok] in Hs, Hw.
    destruct (PaginatedProofs.compact_abs pgrow8 worth32 ZSort.sort x_pgrow_ok x_sort_ok p Hs) as [H' A]. fold (x_compact p) in H', A.
    exists (SP (x_compact p)), (pag_blocks neg (x_compact p)), (PaginatedProofs.unit_bins (buffer (x_compact p)) ++ page_cells (x_compact p)).
    cbn [enc_store]. rewrite enc_pag_grammar. split; [reflexivity|]. split; [exact H'|]. split; [reflexivity|].
    rewrite (st_abs_SP p Hs), (st_abs_SP _ H'). split; [exact A|]. split; [now apply pag_blocks_stream|]. exact A.
Qed.

Theorem any_store_roundtrip s r neg : StInv s -> store_wire_ok s -> StInv r ->
  exists s' bytes r', enc_store s (ty_of neg) = (s', bytes) /\
    StInv s' /\ st_kind s' = st_kind s /\ st_abs s' = st_abs s /\
    dec_store_all (S (length bytes)) r bytes = DOk r' [] /\
    StInv r' /\ st_kind r' = st_kind r /\
    st_abs r' = smerge_list (st_limit r) (st_abs r) (st_abs s) /\
    st_abs r' = norm (st_limit r) (bmerge (st_abs r) (st_abs s)).
Proof.
  intros Hs Hw Hr. destruct (enc_store_stream s neg Hs Hw) as [s' [st [xs [E [I' [K' [A' [Hss B]]]]]]]].
  destruct (dec_store_all_ser neg st xs r Hss Hr) as [r' [D [Ir [Kr Ar]]]].
  destruct (store_stream_facts neg st xs Hss) as [_ [_ [_ [_ [_ Hadds]]]]].
  pose proof (PaginatedProofs.adds_ok_nonneg _ Hadds) as Hn.
  exists s', (serialize st), r'. split; [exact E|]. split; [exact I'|]. split; [exact K'|]. split; [exact A'|].
  split; [|split; [exact Ir|split; [exact Kr|]]].
  - pose proof (serialize_length_ge st) as HL.
    replace (S (length (serialize st))) with (length st + (S (length (serialize st)) - length st)) by lia.
    rewrite <- (app_nil_r (serialize st)) at 2. rewrite D. apply dec_store_all_nil.
  - rewrite Ar, (smerge_list_canon r xs Hr Hn), B. split; [reflexivity|].
    apply (smerge_list_st_norm r (st_abs s) Hr). apply pos_nonneg. now apply st_abs_pos.
Qed.

(* ================================================================== *)
(* 11. DDSketch.Encode / DecodeAndMergeWith, any store kinds on both sides of source and target *)
(* ================================================================== *)
Definition any_sketch_stream (m : mapid) (z : W) (stp stn : stream) : stream :=
  zero_blocks z ++ [map_block m] ++ stp ++ stn.

Theorem enc_sketch_any_grammar s : sk_stats s = None ->
  StInv (sk_pos s) -> StInv (sk_neg s) -> store_wire_ok (sk_pos s) -> store_wire_ok (sk_neg s) ->
  exists p' n' stp stn xp xn,
    enc_sketch s false = (with_stores s p' n', serialize (any_sketch_stream (sk_map s) (sk_zero s) stp stn)) /\
    StInv p' /\ st_kind p' = st_kind (sk_pos s) /\ st_abs p' = st_abs (sk_pos s) /\
    StInv n' /\ st_kind n' = st_kind (sk_neg s) /\ st_abs n' = st_abs (sk_neg s) /\
    store_stream false stp xp /\ bins_of_list xp = st_abs (sk_pos s) /\
    store_stream true stn xn /\ bins_of_list xn = st_abs (sk_neg s).
Proof.
  intros Hst Hp Hn Hwp Hwn.
  destruct (enc_store_stream (sk_pos s) false Hp Hwp) as [p' [stp [xp [Ep [Ip [Kp [Ap [Sp Bp]]]]]]]].
  destruct (enc_store_stream (sk_neg s) true Hn Hwn) as [n' [stn [xn [En [In [Kn [An [Sn Bn]]]]]]]].
  exists p', n', stp, stn, xp, xn. split; [|auto 12].
  unfold enc_sketch. rewrite Hst. change ft_positive with (ty_of false). change ft_negative with (ty_of true).
  rewrite Ep, En. f_equal. unfold any_sketch_stream. rewrite !serialize_app. cbn [app]. apply f_equal2; [|apply f_equal2; [|reflexivity]].
  - unfold zero_blocks. destruct (weqb (sk_zero s) w0); [reflexivity|]. rewrite serialize_one. reflexivity.
  - rewrite serialize_one. reflexivity.
Qed.

Lemma zero_blocks_facts z : wexact z ->
  wf_stream (zero_blocks z) /\ ok_stream (zero_blocks z) /\ stream_pos_bins (zero_blocks z) = [] /\
  stream_neg_bins (zero_blocks z) = [] /\ stream_zero (zero_blocks z) = (if weqb z w0 then [] else [z]) /\
  (forall cur, maps_chain cur (zero_blocks z)) /\ (forall cur, last_mapid cur (zero_blocks z) = cur).
Proof.
  intros Hz. unfold zero_blocks. destruct (weqb z w0).
  - repeat split; try reflexivity; constructor.
  - split; [repeat constructor|]. split; [repeat constructor|]. split; [reflexivity|]. split; [reflexivity|].
    split; [unfold stream_zero; cbn [map concat block_zero app]; rewrite wexact_wire by exact Hz; reflexivity|].
    split; [intros cur; cbn; auto|reflexivity].
Qed.

Theorem any_sketch_stream_decode wx m z stp stn xp xn d : fD2 wx = true ->
  map_valid m -> wexact z -> store_stream false stp xp -> store_stream true stn xn -> ds_inv d ->
  match ds_map d with Some m0 => map_equals m0 m = true | None => True end ->
  exists d', dec_sketch_into wx d (serialize (any_sketch_stream m z stp stn)) = DOk d' [] /\
             ds_rel_any d d' xp xn (if weqb z w0 then [] else [z]) (Some m).
Proof.
  intros HD2 [Hk Hg] Hz Sp Sn Hd Hm.
  destruct (zero_blocks_facts z Hz) as [Z1 [Z2 [Z3 [Z4 [Z5 [Z6 Z7]]]]]].
  destruct (store_stream_facts false stp xp Sp) as [P1 [P2 [P3 [P4 [P5 _]]]]].
  destruct (store_stream_facts true stn xn Sn) as [N1 [N2 [N3 [N4 [N5 _]]]]].
  cbn [side_bins negb] in P1, P2, N1, N2.
  destruct Sp as [_ [Pwf [Pok _]]]. destruct Sn as [_ [Nwf [Nok _]]].
  set (st := any_sketch_stream m z stp stn).
  assert (Hwf : wf_stream st).
  { unfold st, any_sketch_stream, wf_stream. apply Forall_app; split; [exact Z1|]. apply Forall_app; split.
    - repeat constructor. cbn. apply kind_ok_lt, Hk.
    - apply Forall_app; split; assumption. }
  assert (Hok : ok_stream st).
  { unfold st, any_sketch_stream, ok_stream. apply Forall_app; split; [exact Z2|]. apply Forall_app; split.
    - repeat constructor.
    - apply Forall_app; split; assumption. }
  assert (Hch : maps_chain (ds_map d) st).
  { unfold st, any_sketch_stream. apply maps_chain_app. split; [apply Z6|]. rewrite Z7.
    cbn [app maps_chain block_ok block_map map_block]. rewrite map_of_mapid.
    split; [split; [exact Hk|split; [exact Hg|exact Hm]]|]. apply maps_chain_app. split; [apply P4|apply N4]. }
  assert (Hl : last_mapid (ds_map d) st = Some m).
  { unfold st, any_sketch_stream. rewrite last_mapid_app, Z7. unfold last_mapid at 1. cbn [app fold_left block_map map_block].
    rewrite map_of_mapid. fold (last_mapid (Some m) (stp ++ stn)). rewrite last_mapid_app, P5, N5. reflexivity. }
  destruct (dec_sketch_ser_any wx HD2 st d Hwf Hok Hch Hd) as [d' [E R]]; [rewrite Hl; discriminate|].
  exists d'. split; [exact E|]. unfold ds_rel_any_st in R. rewrite Hl in R.
  replace (stream_pos_bins st) with xp in R.
  replace (stream_neg_bins st) with xn in R.
  replace (stream_zero st) with (if weqb z w0 then [] else [z]) in R. exact R.
  - unfold st, any_sketch_stream. rewrite !stream_zero_app, Z5, P3, N3. cbn [stream_zero map concat block_zero map_block app].
    now rewrite app_nil_r.
  - unfold st, any_sketch_stream. rewrite !stream_neg_bins_app, Z4, P2, N1. reflexivity.
  - unfold st, any_sketch_stream. rewrite !stream_pos_bins_app, Z3, P1, N2. cbn [stream_pos_bins map concat block_pos_bins map_block app].
    now rewrite app_nil_r.
Qed.

(* decode (encode s) into a receiver d: both stores of d absorb the content of the corresponding store
   of s, whatever the four store kinds are *)
Theorem any_sketch_roundtrip wx s d : fD2 wx = true -> sk_stats s = None ->
  StInv (sk_pos s) -> StInv (sk_neg s) -> store_wire_ok (sk_pos s) -> store_wire_ok (sk_neg s) ->
  wexact (sk_zero s) -> map_valid (sk_map s) -> ds_inv d ->
  match ds_map d with Some m0 => map_equals m0 (sk_map s) = true | None => True end ->
  exists s' d', enc_sketch s false = (s', snd (enc_sketch s false)) /\
    sk_map s' = sk_map s /\ sk_zero s' = sk_zero s /\ sk_stats s' = None /\
    StInv (sk_pos s') /\ StInv (sk_neg s') /\ st_abs (sk_pos s') = st_abs (sk_pos s) /\ st_abs (sk_neg s') = st_abs (sk_neg s) /\
    dec_sketch_into wx d (snd (enc_sketch s false)) = DOk d' [] /\ ds_inv d' /\
    st_kind (ds_pos d') = st_kind (ds_pos d) /\ st_kind (ds_neg d') = st_kind (ds_neg d) /\
    st_abs (ds_pos d') = smerge_list (st_limit (ds_pos d)) (st_abs (ds_pos d)) (st_abs (sk_pos s)) /\
    st_abs (ds_pos d') = norm (st_limit (ds_pos d)) (bmerge (st_abs (ds_pos d)) (st_abs (sk_pos s))) /\
    st_abs (ds_neg d') = smerge_list (st_limit (ds_neg d)) (st_abs (ds_neg d)) (st_abs (sk_neg s)) /\
    st_abs (ds_neg d') = norm (st_limit (ds_neg d)) (bmerge (st_abs (ds_neg d)) (st_abs (sk_neg s))) /\
    ds_zero d' = wadd (ds_zero d) (sk_zero s) /\ ds_map d' = Some (sk_map s).
Proof.
  intros HD2 Hst Hp Hn Hwp Hwn Hz Hmv Hd Hm.
  destruct (enc_sketch_any_grammar s Hst Hp Hn Hwp Hwn)
    as [p' [n' [stp [stn [xp [xn [E [Ip [Kp [Ap [In [Kn [An [Sp [Bp [Sn Bn]]]]]]]]]]]]]]]].
  destruct (any_sketch_stream_decode wx (sk_map s) (sk_zero s) stp stn xp xn d HD2 Hmv Hz Sp Sn Hd Hm)
    as [d' [D [G' [KP [KN [P [N [Z M]]]]]]]].
  destruct (store_stream_facts false stp xp Sp) as [_ [_ [_ [_ [_ Hap]]]]].
  destruct (store_stream_facts true stn xn Sn) as [_ [_ [_ [_ [_ Han]]]]].
  pose proof (PaginatedProofs.adds_ok_nonneg _ Hap) as Hnp. pose proof (PaginatedProofs.adds_ok_nonneg _ Han) as Hnn.
  destruct Hd as [Hdp [Hdn Hds]].
  exists (with_stores s p' n'), d'. rewrite E. cbn [snd with_stores sk_map sk_zero sk_stats sk_pos sk_neg].
  split; [reflexivity|]. split; [reflexivity|]. split; [reflexivity|]. split; [exact Hst|].
  split; [exact Ip|]. split; [exact In|]. split; [exact Ap|]. split; [exact An|].
  split; [exact D|]. split; [exact G'|]. split; [exact KP|]. split; [exact KN|].
  rewrite P, N, (smerge_list_canon _ xp Hdp Hnp), (smerge_list_canon _ xn Hdn Hnn), Bp, Bn.
  split; [reflexivity|]. split; [apply (smerge_list_st_norm _ _ Hdp); apply pos_nonneg; now apply st_abs_pos|].
  split; [reflexivity|]. split; [apply (smerge_list_st_norm _ _ Hdn); apply pos_nonneg; now apply st_abs_pos|].
  split; [rewrite Z; apply zero_fold|exact M].
Qed.

(* ================================================================== *)
(* 12. Observer for the executable examples: the Layer A content of the receiver's stores *)
(* ================================================================== *)
Definition any_sig (r : dres dsketch) :=
  match r with
  | DOk d rest => inl (qbins (st_abs (ds_pos d)), qbins (st_abs (ds_neg d)), this (ds_zero d), map_sig (ds_map d), rest)
  | DErr e => inr (Some e)
  | DPanic => inr None
  end.
