(* Layer B protobuf operations, definitions only (the functions the extracted driver runs at toproto / fromproto /
   ktoproto / kfromproto; their refinement theorems are in Sketch/MiscProofs.v, statements in Props/Misc.v C09_b_... ). *)
From Coq Require Import Bool NArith ZArith List.
From SK Require Import Base.Prelude Base.F64 Spec.Bins Store.Dense Store.Any Sketch.Sketch Wire.Proto.
Import ListNotations.
Local Open Scope Z_scope.

(* store.MergeWithProto (and model/driver.ml merge_with_proto): AddWithCount for every map entry, then
   for every contiguous count at offset + k; [None] = panic *)
Definition st_merge_with_proto (s : store) (p : pb_store) : option store := st_add_list s (store_content p).
(* on what proto.Unmarshal hands over (a Go map: last duplicate key wins) *)
Definition pb_go_view (p : pb_store) : pb_store :=
  {| bin_counts := pb_map_view (bin_counts p); contiguous_counts := contiguous_counts p;
     contiguous_offset := contiguous_offset p |}.
Definition st_merge_with_proto_go (s : store) (p : pb_store) : option store := st_merge_with_proto s (pb_go_view p).


(* ---- ToProto of the five kinds ---- *)
Definition st_to_proto (s : store) : option pb_store :=
  match s with
  | SD d => option_map pb_of_dense_proto (Dense.to_proto_d d)
  | _ => option_map (fun sl => to_proto_sparse (snd sl)) (st_foreach s)
  end.

(* ---- the sketch ---- *)
Definition pb_of_mapid (m : mapid) : pb_mapping := {| pm_gamma := mk_gamma m; pm_offset := mk_off m; pm_interp := mk_kind m |}.
Definition mapid_of_pb (pm : pb_mapping) : mapid := {| mk_kind := pm_interp pm; mk_gamma := pm_gamma pm; mk_off := pm_offset pm |}.
(* DDSketch.ToProto *)
Definition sk_to_proto (s : sketch) : option pb_sketch :=
  match st_to_proto (sk_pos s), st_to_proto (sk_neg s) with
  | Some p, Some n => Some {| ps_mapping := Some (pb_of_mapid (sk_map s)); ps_pos := Some p; ps_neg := Some n;
                              ps_zero := q2f (sk_zero s) |}
  | _, _ => None
  end.
(* FromProtoWithStoreProvider (as model/driver.ml kfromproto): interpolation NONE / LINEAR / CUBIC, gamma > 1,
   then MergeWithProto into new stores of the requested kinds *)
Definition sk_from_proto (kp kn : kind) (msg : pb_sketch) : result sketch :=
  match ps_mapping msg with
  | None => RErr EMissingMapping
  | Some pm =>
    let i := pm_interp pm in
    if negb ((i =? 0) || (i =? 1) || (i =? 3))%N then RErr EUnknownMapping
    else if fle (pm_gamma pm) f64_one then RErr EBadGamma
    else
      let fill k o := match o with Some sp => st_merge_with_proto_go (st_new k) sp | None => Some (st_new k) end in
      match fill kp (ps_pos msg), fill kn (ps_neg msg) with
      | Some p, Some n => ROk {| sk_map := mapid_of_pb pm; sk_pos := p; sk_neg := n; sk_zero := f2q (ps_zero msg);
                                 sk_stats := None |}
      | _, _ => RPanic
      end
  end.
