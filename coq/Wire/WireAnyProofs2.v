(* Second layer on top of Wire/WireAnyProofs.v. The theorems there are about the PLAIN variant
   (receivers with [ds_stats = None], sources with [sk_stats = None]) and the mapping embedded.
   Here the block loop of ddsketch.go is re-proved for BOTH variants at once (the exact-summary
   receiver absorbs the four statistics blocks with AddToCount / AddToSum / Add(min,0) / Add(max,0),
   the plain one skips them), and from it:
     1. an unknown flag is reported at every block boundary (C08);
     2. no silent truncation: success on a prefix => cut at a block boundary, content = the
        complete blocks (C08);
     3. the exact-summary producer emits the documented statistics blocks, the exact decoder
        absorbs them, the plain decoder ignores them (C06 / C07);
     4. the mapping omitted and supplied by the receiver (C06);
     5. Encode keeps the abstraction of the sketch (C06);
     6. totality on arbitrary bytes for sparse and paginated receivers (C08). *)
From Coq Require Import Bool NArith ZArith List Lia ZifyN ZifyNat ZifyBool.
From Flocq Require Import IEEE754.BinarySingleNaN IEEE754.Binary IEEE754.Bits.
From SK Require Import Codec.Codec Codec.CodecProofs Codec.VarfloatProofs.
From SK Require Codec.Varfloat.
From SK Require Import Base.Prelude Base.F64 Spec.Bins Spec.BinsProofs Store.Any Stat.Summary Sketch.Sketch.
From SK Require Store.DenseProofs Store.PaginatedProofs.
From SK Require Import Store.AnyProofs.
From SK Require Import Wire.Grammar Wire.GrammarRaw Wire.Wire Wire.WireProofs Wire.GrammarRawProofs Wire.WireAnyProofs.
Import ListNotations.
Unset Lia Cache.
Close Scope Z_scope.
Close Scope N_scope.
Open Scope nat_scope.
Open Scope list_scope.

(* ================================================================== *)
(* 1. The block loop for both variants of the decoder                  *)
(* ================================================================== *)
(* what a block does to the exact summary statistics of the receiver (none: plain decoder) *)
Definition stats_block (t : option summary) (b : block) : option summary :=
  match t with
  | None => None
  | Some t => Some match b with
                   | BCount w => su_add_to_count t (wire_f w)
                   | BSum x => su_add_to_sum t x
                   | BMin x => su_add t x f64_zero
                   | BMax x => su_add t x f64_zero
                   | _ => t
                   end
  end.
Definition stats_stream (t : option summary) (st : stream) : option summary := fold_left stats_block st t.

Lemma stats_stream_none st : stats_stream None st = None.
Proof. induction st as [|b st IH]; [reflexivity|exact IH]. Qed.
Lemma stats_stream_app t a b : stats_stream t (a ++ b) = stats_stream (stats_stream t a) b.
Proof. apply fold_left_app. Qed.
Lemma stats_stream_some t st : exists t', stats_stream (Some t) st = Some t'.
Proof.
  revert t. induction st as [|b st IH]; intros t; [eexists; reflexivity|].
  unfold stats_stream. cbn [fold_left stats_block]. apply IH.
Qed.

(* the receiver's two stores satisfy their representation invariants; either variant *)
Definition ds_inv_x (d : dsketch) : Prop := StInv (ds_pos d) /\ StInv (ds_neg d).
Lemma ds_inv_inv_x d : ds_inv d -> ds_inv_x d.
Proof. intros [A [B _]]. split; assumption. Qed.

Definition ds_rel_x (d d' : dsketch) (pos neg : list (Z * W)) (zero : list W) (mp : option mapid)
                    (t : option summary) : Prop :=
  ds_inv_x d' /\ st_kind (ds_pos d') = st_kind (ds_pos d) /\ st_kind (ds_neg d') = st_kind (ds_neg d)
  /\ st_abs (ds_pos d') = smerge_list (st_limit (ds_pos d)) (st_abs (ds_pos d)) pos
  /\ st_abs (ds_neg d') = smerge_list (st_limit (ds_neg d)) (st_abs (ds_neg d)) neg
  /\ ds_zero d' = fold_left wadd zero (ds_zero d) /\ ds_map d' = mp /\ ds_stats d' = t.
Definition ds_rel_x_st (d d' : dsketch) (st : stream) : Prop :=
  ds_rel_x d d' (stream_pos_bins st) (stream_neg_bins st) (stream_zero st) (last_mapid (ds_map d) st)
           (stats_stream (ds_stats d) st).

Definition ds_upd (s : dsketch) (t : summary) : dsketch :=
  {| ds_map := ds_map s; ds_pos := ds_pos s; ds_neg := ds_neg s; ds_zero := ds_zero s; ds_stats := Some t |}.

Lemma dec_feature_count_x wx s t b : ds_stats s = Some t ->
  dec_feature wx s (g_flag TY_FEATURES SUB_COUNT) b =
  match Varfloat.dec_vf b with Ok c rest => DOk (ds_upd s (su_add_to_count t c)) rest | _ => DErr EEof end.
Proof. intros H. unfold dec_feature. rewrite H. reflexivity. Qed.
Lemma dec_feature_sum_x wx s t b : ds_stats s = Some t ->
  dec_feature wx s (g_flag TY_FEATURES SUB_SUM) b =
  match Varfloat.dec_f64le b with Ok x rest => DOk (ds_upd s (su_add_to_sum t x)) rest | _ => DErr EEof end.
Proof. intros H. unfold dec_feature. rewrite H. reflexivity. Qed.
Lemma dec_feature_minmax_x wx s t sub b : ds_stats s = Some t -> sub = SUB_MIN \/ sub = SUB_MAX ->
  dec_feature wx s (g_flag TY_FEATURES sub) b =
  match Varfloat.dec_f64le b with Ok x rest => DOk (ds_upd s (su_add t x f64_zero)) rest | _ => DErr EEof end.
Proof. intros H [E|E]; subst sub; unfold dec_feature; rewrite H; reflexivity. Qed.

Section XLoop.
Variable wx : wfixes.
Hypothesis HD2 : fD2 wx = true.

Lemma dec_blocks_step_x b d : wf_block b -> block_ok (ds_map d) b -> ok_block b -> ds_inv_x d ->
  exists d', (forall k rest, dec_blocks wx (S k) d (ser_block b ++ rest) = dec_blocks wx k d' rest)
             /\ ds_rel_x d d' (block_pos_bins b) (block_neg_bins b) (block_zero b) (block_map (ds_map d) b)
                         (stats_block (ds_stats d) b).
Proof.
  intros Hwf Hbo Hokw [Hgp Hgn].
  assert (HS : forall b', (match b' with BCount _ | BSum _ | BMin _ | BMax _ => False | _ => True end) ->
                          stats_block (ds_stats d) b' = ds_stats d).
  { intros b' Hb'. unfold stats_block. destruct (ds_stats d); [|reflexivity]. destruct b'; try reflexivity; contradiction. }
  destruct b as [w|kd g o|neg bb|w|x|x|x].
  - eexists. split.
    + intros k rest. cbn [ser_block]. rewrite <- app_comm_cons. rewrite dec_blocks_zc, dec_count_enc. reflexivity.
    + unfold ds_rel_x, ds_inv_x. cbn [ds_pos ds_neg ds_stats ds_zero ds_map]. rewrite HS by exact I.
      repeat split; assumption || reflexivity.
  - destruct Hbo as [Hk [Hfle Heq]]. eexists. split.
    + intros k rest. cbn [ser_block]. rewrite <- app_comm_cons, <- app_assoc.
      rewrite dec_blocks_map, dec_mapping_g by exact Hk. rewrite !dec_f64_enc, Hfle.
      destruct (ds_map d) as [m0|]; [rewrite Heq|]; reflexivity.
    + unfold ds_rel_x, ds_inv_x. cbn [ds_pos ds_neg ds_stats ds_zero ds_map]. rewrite HS by exact I.
      repeat split; assumption || reflexivity.
  - cbn [wf_block ok_block] in Hwf, Hokw. destruct neg.
    + destruct (any_dec_bins bb (ds_neg d) Hwf Hgn Hokw) as [s' [E [I' [K' A]]]].
      eexists. split.
      * intros k rest. rewrite ser_block_store, <- app_comm_cons.
        rewrite dec_blocks_neg by apply ser_bins_sub_lt64. rewrite E. reflexivity.
      * unfold ds_rel_x, ds_inv_x. cbn [ds_pos ds_neg ds_stats ds_zero ds_map]. rewrite HS by exact I.
        repeat split; assumption || reflexivity.
    + destruct (any_dec_bins bb (ds_pos d) Hwf Hgp Hokw) as [s' [E [I' [K' A]]]].
      eexists. split.
      * intros k rest. rewrite ser_block_store, <- app_comm_cons.
        rewrite dec_blocks_pos by apply ser_bins_sub_lt64. rewrite E. reflexivity.
      * unfold ds_rel_x, ds_inv_x. cbn [ds_pos ds_neg ds_stats ds_zero ds_map]. rewrite HS by exact I.
        repeat split; assumption || reflexivity.
  - destruct (ds_stats d) as [t|] eqn:Hst.
    + exists (ds_upd d (su_add_to_count t (wire_f w))). split.
      * intros k rest. cbn [ser_block]. rewrite <- app_comm_cons.
        rewrite dec_blocks_feature by auto. rewrite (dec_feature_count_x wx d t) by exact Hst. rewrite dec_vf_enc. reflexivity.
      * unfold ds_rel_x, ds_inv_x, ds_upd. cbn [ds_pos ds_neg ds_stats ds_zero ds_map stats_block].
        repeat split; assumption || reflexivity.
    + exists d. split.
      * intros k rest. cbn [ser_block]. rewrite <- app_comm_cons.
        rewrite dec_blocks_feature by auto. rewrite dec_feature_count by assumption. rewrite dec_vf_enc. reflexivity.
      * unfold ds_rel_x, ds_inv_x. cbn [stats_block]. repeat split; assumption || reflexivity.
  - destruct (ds_stats d) as [t|] eqn:Hst.
    + exists (ds_upd d (su_add_to_sum t x)). split.
      * intros k rest. cbn [ser_block]. rewrite <- app_comm_cons.
        rewrite dec_blocks_feature by auto. rewrite (dec_feature_sum_x wx d t) by exact Hst. rewrite dec_f64_enc. reflexivity.
      * unfold ds_rel_x, ds_inv_x, ds_upd. cbn [ds_pos ds_neg ds_stats ds_zero ds_map stats_block].
        repeat split; assumption || reflexivity.
    + exists d. split.
      * intros k rest. cbn [ser_block]. rewrite <- app_comm_cons.
        rewrite dec_blocks_feature by auto. rewrite dec_feature_skip8 by auto. rewrite skip8_enc. reflexivity.
      * unfold ds_rel_x, ds_inv_x. cbn [stats_block]. repeat split; assumption || reflexivity.
  - destruct (ds_stats d) as [t|] eqn:Hst.
    + exists (ds_upd d (su_add t x f64_zero)). split.
      * intros k rest. cbn [ser_block]. rewrite <- app_comm_cons.
        rewrite dec_blocks_feature by auto. rewrite (dec_feature_minmax_x wx d t) by auto. rewrite dec_f64_enc. reflexivity.
      * unfold ds_rel_x, ds_inv_x, ds_upd. cbn [ds_pos ds_neg ds_stats ds_zero ds_map stats_block].
        repeat split; assumption || reflexivity.
    + exists d. split.
      * intros k rest. cbn [ser_block]. rewrite <- app_comm_cons.
        rewrite dec_blocks_feature by auto. rewrite dec_feature_skip8 by auto. rewrite skip8_enc. reflexivity.
      * unfold ds_rel_x, ds_inv_x. cbn [stats_block]. repeat split; assumption || reflexivity.
  - destruct (ds_stats d) as [t|] eqn:Hst.
    + exists (ds_upd d (su_add t x f64_zero)). split.
      * intros k rest. cbn [ser_block]. rewrite <- app_comm_cons.
        rewrite dec_blocks_feature by auto. rewrite (dec_feature_minmax_x wx d t) by auto. rewrite dec_f64_enc. reflexivity.
      * unfold ds_rel_x, ds_inv_x, ds_upd. cbn [ds_pos ds_neg ds_stats ds_zero ds_map stats_block].
        repeat split; assumption || reflexivity.
    + exists d. split.
      * intros k rest. cbn [ser_block]. rewrite <- app_comm_cons.
        rewrite dec_blocks_feature by auto. rewrite dec_feature_skip8 by auto. rewrite skip8_enc. reflexivity.
      * unfold ds_rel_x, ds_inv_x. cbn [stats_block]. repeat split; assumption || reflexivity.
Qed.

Lemma dec_blocks_ser_x : forall st d, wf_stream st -> ok_stream st -> maps_chain (ds_map d) st -> ds_inv_x d ->
  exists d', (forall k rest, dec_blocks wx (length st + k) d (serialize st ++ rest) = dec_blocks wx k d' rest)
             /\ ds_rel_x_st d d' st.
Proof.
  induction st as [|b st IH]; intros d Hwf Hokw Hch Hg.
  - exists d. split; [intros; reflexivity|]. unfold ds_rel_x_st, ds_rel_x. repeat split; try apply Hg; reflexivity.
  - inversion Hwf as [|x l Hb Hst]; subst. inversion Hokw as [|x l Hob Host]; subst.
    destruct Hch as [Hbo Hch].
    destruct (dec_blocks_step_x b d Hb Hbo Hob Hg) as [d1 [E1 [G1 [KP1 [KN1 [P1 [N1 [Z1 [M1 S1]]]]]]]]].
    rewrite <- M1 in Hch.
    destruct (IH d1 Hst Host Hch G1) as [d' [E' [G' [KP' [KN' [P' [N' [Z' [M' S']]]]]]]]].
    exists d'. split.
    + intros k rest. rewrite serialize_cons, <- app_assoc. cbn [length Nat.add]. rewrite E1. apply E'.
    + unfold ds_rel_x_st, ds_rel_x. split; [exact G'|]. split; [congruence|]. split; [congruence|].
      unfold stream_pos_bins, stream_neg_bins, stream_zero, last_mapid, stats_stream. cbn [map concat fold_left].
      rewrite !smerge_list_app, fold_left_app. rewrite <- P1, <- N1, <- Z1, <- M1, <- S1.
      rewrite (st_limit_kind (ds_pos d)), (st_limit_kind (ds_neg d)), <- KP1, <- KN1, <- !st_limit_kind. auto 10.
Qed.
End XLoop.

(* ================================================================== *)
(* 2. DecodeAndMergeWith of either variant on a serialised stream      *)
(* ================================================================== *)
(* the checks DecodeAndMergeWith makes after the block loop: a mapping must be known; the exact
   variant refuses a non-empty content without a total count *)
Definition ds_final (d' : dsketch) : dres dsketch :=
  match ds_map d' with
  | None => DErr EMissingMapping
  | Some _ => match ds_stats d' with
              | Some t => if feq (su_count t) f64_zero && negb (ds_plain_empty d') then DErr EMissingStats else DOk d' []
              | None => DOk d' []
              end
  end.
Lemma ds_final_ok d' d'' rest : ds_final d' = DOk d'' rest -> d'' = d' /\ rest = [].
Proof.
  unfold ds_final. destruct (ds_map d'); [|discriminate]. destruct (ds_stats d') as [t|].
  - destruct (feq (su_count t) f64_zero && negb (ds_plain_empty d')); [discriminate|]. intros E. inversion E. auto.
  - intros E. inversion E. auto.
Qed.
Lemma ds_final_plain d' : ds_stats d' = None -> ds_map d' <> None -> ds_final d' = DOk d' [].
Proof. intros H1 H2. unfold ds_final. rewrite H1. destruct (ds_map d'); [reflexivity|contradiction]. Qed.
Lemma ds_final_no_panic d' : ds_final d' <> DPanic.
Proof.
  unfold ds_final. destruct (ds_map d'); [|discriminate]. destruct (ds_stats d') as [t|]; [|discriminate].
  destruct (feq (su_count t) f64_zero && negb (ds_plain_empty d')); discriminate.
Qed.

(* what the receiver holds after the stream [st], in the vocabulary of WireAnyProofs.v, for both variants *)
Definition absorbed_x (d d' : dsketch) (st : stream) : Prop :=
  absorbed (ds_pos d) (ds_pos d') (stream_pos_bins st) /\
  absorbed (ds_neg d) (ds_neg d') (stream_neg_bins st) /\
  ds_zero d' = fold_left wadd (stream_zero st) (ds_zero d) /\
  ds_map d' = last_mapid (ds_map d) st /\
  ds_stats d' = stats_stream (ds_stats d) st.

Lemma absorbed_x_of d d' st : ds_inv_x d -> ok_stream st -> ds_rel_x_st d d' st -> absorbed_x d d' st.
Proof.
  intros [Hgp Hgn] Hok [[Ip In] [Kp [Kn [P [N [Z [M S]]]]]]].
  split; [apply absorbed_of; auto; now apply ok_stream_nonneg_pos|].
  split; [apply absorbed_of; auto; now apply ok_stream_nonneg_neg|]. auto.
Qed.

Section XSketch.
Variable wx : wfixes.
Hypothesis HD2 : fD2 wx = true.

Lemma dec_sketch_into_split st d d' tl :
  (forall k rest, dec_blocks wx (length st + k) d (serialize st ++ rest) = dec_blocks wx k d' rest) ->
  dec_blocks wx (S (length (serialize st ++ tl))) d (serialize st ++ tl)
  = dec_blocks wx (S (length (serialize st ++ tl)) - length st) d' tl.
Proof.
  intros E. pose proof (serialize_length_ge st) as HL.
  replace (S (length (serialize st ++ tl))) with (length st + (S (length (serialize st ++ tl)) - length st)) at 1
    by (rewrite app_length; lia).
  apply E.
Qed.

Theorem dec_sketch_ser_x st d : wf_stream st -> ok_stream st -> maps_chain (ds_map d) st -> ds_inv_x d ->
  exists d', dec_sketch_into wx d (serialize st) = ds_final d' /\ ds_rel_x_st d d' st.
Proof.
  intros Hwf Hok Hch Hg. destruct (dec_blocks_ser_x wx HD2 st d Hwf Hok Hch Hg) as [d' [E R]].
  exists d'. split; [|exact R]. unfold dec_sketch_into.
  rewrite <- (app_nil_r (serialize st)). rewrite (dec_sketch_into_split st d d' [] E), dec_blocks_nil. reflexivity.
Qed.

(* G3 for both variants *)
Theorem x_decoder_accepts_grammar st d :
  wf_stream st -> idx_stream st -> nonneg_stream_w st -> maps_chain (ds_map d) st -> ds_inv_x d ->
  exists d', dec_sketch_into wx d (serialize st) = ds_final d' /\ absorbed_x d d' st.
Proof.
  intros Hwf Hi Hw Hch Hg. pose proof (ok_stream_of st Hi Hw) as Hok.
  destruct (dec_sketch_ser_x st d Hwf Hok Hch Hg) as [d' [E R]].
  exists d'. split; [exact E|]. now apply absorbed_x_of.
Qed.

(* ---- 2.1 an unknown flag at a block boundary ---- *)
Hypothesis HD3 : fD3 wx = true.

Theorem x_unknown_flag_at_boundary st d f tl :
  wf_stream st -> idx_stream st -> nonneg_stream_w st -> maps_chain (ds_map d) st -> ds_inv_x d ->
  ~ known_flag f ->
  exists e, dec_sketch_into wx d (serialize st ++ f :: tl) = DErr e /\
            (e = EUnknownFlag \/ e = EUnknownBins \/ e = EUnknownMapping).
Proof.
  intros Hwf Hi Hw Hch Hg Hk. pose proof (ok_stream_of st Hi Hw) as Hok.
  destruct (dec_blocks_ser_x wx HD2 st d Hwf Hok Hch Hg) as [d' [E _]].
  unfold dec_sketch_into. rewrite (dec_sketch_into_split st d d' (f :: tl) E).
  pose proof (serialize_length_ge st) as HL.
  assert (HF : exists k, S (length (serialize st ++ f :: tl)) - length st = S k).
  { rewrite app_length. cbn [length]. exists (length (serialize st) + S (length tl) - length st). lia. }
  destruct HF as [k ->].
  destruct (unknown_flag wx k d' f tl HD3 Hk) as [e [Ee He]]. exists e. rewrite Ee. auto.
Qed.
(* which of the three errors: by the type of the flag *)
Theorem x_unknown_feature_flag_at_boundary st d f tl :
  wf_stream st -> idx_stream st -> nonneg_stream_w st -> maps_chain (ds_map d) st -> ds_inv_x d ->
  ~ known_flag f -> flag_type f = 0%N ->
  dec_sketch_into wx d (serialize st ++ f :: tl) = DErr EUnknownFlag.
Proof.
  intros Hwf Hi Hw Hch Hg Hk Ht. pose proof (ok_stream_of st Hi Hw) as Hok.
  destruct (dec_blocks_ser_x wx HD2 st d Hwf Hok Hch Hg) as [d' [E _]].
  unfold dec_sketch_into. rewrite (dec_sketch_into_split st d d' (f :: tl) E).
  pose proof (serialize_length_ge st) as HL.
  assert (HF : exists k, S (length (serialize st ++ f :: tl)) - length st = S k).
  { rewrite app_length. cbn [length]. exists (length (serialize st) + S (length tl) - length st). lia. }
  destruct HF as [k ->].
  rewrite dec_blocks_S. cbv zeta. rewrite Ht.
  change (0 =? ft_positive)%N with false. change (0 =? ft_negative)%N with false. change (0 =? ft_mapping)%N with false.
  cbv iota.
  assert (F0 : (f =? flag_zero_count)%N = false) by (apply N.eqb_neq; intros ->; apply Hk; unfold known_flag; do 2 right; left; reflexivity).
  assert (F1 : (f =? flag_count)%N = false) by (apply N.eqb_neq; intros ->; apply Hk; unfold known_flag; do 3 right; left; reflexivity).
  assert (F2 : (f =? flag_sum)%N = false) by (apply N.eqb_neq; intros ->; apply Hk; unfold known_flag; do 4 right; left; reflexivity).
  assert (F3 : (f =? flag_min)%N = false) by (apply N.eqb_neq; intros ->; apply Hk; unfold known_flag; do 5 right; left; reflexivity).
  assert (F4 : (f =? flag_max)%N = false) by (apply N.eqb_neq; intros ->; apply Hk; unfold known_flag; do 6 right; reflexivity).
  rewrite F0. unfold dec_feature. rewrite F1, F2, F3, F4. cbn [orb]. destruct (ds_stats d'); reflexivity.
Qed.

(* ---- 2.2 truncation, both variants ---- *)
Lemma dec_blocks_trunc1_x b d p t k : wf_block b -> kind_ok_block b -> ok_block b -> ds_inv_x d ->
  ser_block b = p ++ t -> t <> [] -> p <> [] -> dec_blocks wx (S k) d p = DErr EEof.
Proof.
  intros Hwf Hk Hokw [Hgp Hgn] H Ht Hp. destruct p as [|f p']; [contradiction|]. clear Hp.
  destruct b as [w|kd g o|neg bb|w|x|x|x].
  - cbn [ser_block] in H. rewrite <- app_comm_cons in H. apply cons_inj in H. destruct H as [Hf H]. subst f.
    rewrite dec_blocks_zc. rewrite (dec_count_prefix _ _ _ H Ht). reflexivity.
  - cbn [ser_block] in H. rewrite <- app_comm_cons in H. apply cons_inj in H. destruct H as [Hf H]. subst f.
    rewrite dec_blocks_map, dec_mapping_g by exact Hk.
    destruct (prefix_split _ _ _ _ H Ht) as [[l0 [Hl0 H1]]|[q [H1 H2]]].
    + rewrite (dec_f64_prefix _ _ _ H1 Hl0). reflexivity.
    + subst p'. rewrite dec_f64_enc. rewrite (dec_f64_prefix _ _ _ H2 Ht). reflexivity.
  - rewrite ser_block_store in H. rewrite <- app_comm_cons in H. apply cons_inj in H. destruct H as [Hf H]. subst f.
    cbn [wf_block ok_block] in Hwf, Hokw. destruct neg.
    + rewrite dec_blocks_neg by apply ser_bins_sub_lt64.
      rewrite (any_dec_bins_trunc bb (ds_neg d) p' t Hwf Hgn Hokw H Ht). rewrite HD3. reflexivity.
    + rewrite dec_blocks_pos by apply ser_bins_sub_lt64.
      rewrite (any_dec_bins_trunc bb (ds_pos d) p' t Hwf Hgp Hokw H Ht). rewrite HD3. reflexivity.
  - cbn [ser_block] in H. rewrite <- app_comm_cons in H. apply cons_inj in H. destruct H as [Hf H]. subst f.
    rewrite dec_blocks_feature by auto. destruct (ds_stats d) as [t0|] eqn:Hst.
    + rewrite (dec_feature_count_x wx d t0) by exact Hst. rewrite (dec_vf_prefix _ _ _ H Ht). reflexivity.
    + rewrite dec_feature_count by assumption. rewrite (dec_vf_prefix _ _ _ H Ht). reflexivity.
  - cbn [ser_block] in H. rewrite <- app_comm_cons in H. apply cons_inj in H. destruct H as [Hf H]. subst f.
    rewrite dec_blocks_feature by auto. destruct (ds_stats d) as [t0|] eqn:Hst.
    + rewrite (dec_feature_sum_x wx d t0) by exact Hst. rewrite (dec_f64_prefix _ _ _ H Ht). reflexivity.
    + rewrite dec_feature_skip8 by auto. rewrite (skip8_prefix _ _ _ H Ht). reflexivity.
  - cbn [ser_block] in H. rewrite <- app_comm_cons in H. apply cons_inj in H. destruct H as [Hf H]. subst f.
    rewrite dec_blocks_feature by auto. destruct (ds_stats d) as [t0|] eqn:Hst.
    + rewrite (dec_feature_minmax_x wx d t0) by auto. rewrite (dec_f64_prefix _ _ _ H Ht). reflexivity.
    + rewrite dec_feature_skip8 by auto. rewrite (skip8_prefix _ _ _ H Ht). reflexivity.
  - cbn [ser_block] in H. rewrite <- app_comm_cons in H. apply cons_inj in H. destruct H as [Hf H]. subst f.
    rewrite dec_blocks_feature by auto. destruct (ds_stats d) as [t0|] eqn:Hst.
    + rewrite (dec_feature_minmax_x wx d t0) by auto. rewrite (dec_f64_prefix _ _ _ H Ht). reflexivity.
    + rewrite dec_feature_skip8 by auto. rewrite (skip8_prefix _ _ _ H Ht). reflexivity.
Qed.

Theorem x_truncation st b d p t :
  wf_stream st -> idx_stream st -> nonneg_stream_w st -> maps_chain (ds_map d) st -> ds_inv_x d ->
  wf_block b -> kind_ok_block b -> idx_block b -> okw_block nonneg_w b ->
  ser_block b = p ++ t -> t <> [] -> p <> [] ->
  dec_sketch_into wx d (serialize st ++ p) = DErr EEof.
Proof.
  intros Hwf Hi Hw Hch Hg Hb Hk Hib Hwb H Ht Hp. pose proof (ok_stream_of st Hi Hw) as Hok.
  destruct (dec_blocks_ser_x wx HD2 st d Hwf Hok Hch Hg) as [d' [E [G _]]].
  unfold dec_sketch_into. rewrite (dec_sketch_into_split st d d' p E).
  pose proof (serialize_length_ge st) as HL.
  assert (HF : exists k, S (length (serialize st ++ p)) - length st = S k).
  { rewrite app_length. exists (length (serialize st) + length p - length st). lia. }
  destruct HF as [k ->].
  rewrite (dec_blocks_trunc1_x b d' p t k Hb Hk (ok_block_of b Hib Hwb) G H Ht Hp). reflexivity.
Qed.

(* ---- 2.3 no silent truncation ---- *)
(* on every prefix of the serialisation: the complete blocks with the final checks, or io.EOF *)
Theorem x_prefix_cases st d n :
  wf_stream st -> idx_stream st -> nonneg_stream_w st -> maps_chain (ds_map d) st -> ds_inv_x d ->
  (exists st1 st2 d', st = st1 ++ st2 /\ firstn n (serialize st) = serialize st1 /\
                      dec_sketch_into wx d (firstn n (serialize st)) = ds_final d' /\ absorbed_x d d' st1)
  \/ dec_sketch_into wx d (firstn n (serialize st)) = DErr EEof.
Proof.
  intros Hwf Hi Hw Hch Hg.
  destruct (firstn_serialize st n) as [[st1 [st2 [E1 E2]]]|[st1 [b [st2 [p [t [E1 [E2 [Hb [Ht Hp]]]]]]]]]];
    rewrite E2; subst st; apply Forall_app in Hwf; apply idx_stream_app in Hi; apply nonneg_stream_w_app in Hw;
    apply maps_chain_app in Hch; destruct Hwf as [Hwf1 Hwf2]; destruct Hi as [Hi1 Hi2]; destruct Hw as [Hw1 Hw2];
    destruct Hch as [Hch1 Hch2].
  - left. destruct (x_decoder_accepts_grammar st1 d Hwf1 Hi1 Hw1 Hch1 Hg) as [d' [E A]].
    exists st1, st2, d'. auto.
  - right. inversion Hwf2 as [|x y Hwb _]; subst. inversion Hi2 as [|x y Hib _]; subst.
    inversion Hw2 as [|x y Hwwb _]; subst. destruct Hch2 as [Hbo _].
    apply (x_truncation st1 b d p t); auto. destruct b; try exact I. exact (proj1 Hbo).
Qed.

(* success on a prefix of a valid encoding => the cut is at a block boundary and the receiver holds
   exactly the content of the complete blocks (either variant of the decoder) *)
Theorem x_no_silent_truncation st d n d' rest :
  wf_stream st -> idx_stream st -> nonneg_stream_w st -> maps_chain (ds_map d) st -> ds_inv_x d ->
  dec_sketch_into wx d (firstn n (serialize st)) = DOk d' rest ->
  rest = [] /\
  exists st1 st2, st = st1 ++ st2 /\ firstn n (serialize st) = serialize st1 /\ absorbed_x d d' st1.
Proof.
  intros Hwf Hi Hw Hch Hg HOk.
  destruct (x_prefix_cases st d n Hwf Hi Hw Hch Hg) as [[st1 [st2 [d1 [E1 [E2 [E3 A]]]]]]|E].
  - rewrite E3 in HOk. apply ds_final_ok in HOk. destruct HOk as [-> ->]. split; [reflexivity|]. exists st1, st2. auto.
  - rewrite E in HOk. discriminate.
Qed.
(* never a panic on a prefix, either variant *)
Corollary x_prefix_no_panic st d n :
  wf_stream st -> idx_stream st -> nonneg_stream_w st -> maps_chain (ds_map d) st -> ds_inv_x d ->
  dec_sketch_into wx d (firstn n (serialize st)) <> DPanic.
Proof.
  intros Hwf Hi Hw Hch Hg.
  destruct (x_prefix_cases st d n Hwf Hi Hw Hch Hg) as [[st1 [st2 [d1 [_ [_ [E3 _]]]]]]|E]; rewrite ?E3, ?E;
    [apply ds_final_no_panic|discriminate].
Qed.
End XSketch.

(* ================================================================== *)
(* 3. DDSketch.Encode / DDSketchWithExactSummaryStatistics.Encode      *)
(* ================================================================== *)
(* the statistics blocks of the exact-summary producer, in the order of ddsketch.go:704-722: count
   (varfloat64), sum, min, max (float64 LE); each omitted at its neutral value *)
Definition stats_blocks (t : option summary) : stream :=
  match t with
  | None => []
  | Some t =>
    (if feq (su_count t) f64_zero then [] else [BCount (su_count t)])
    ++ (if feq (su_get_sum t) f64_zero then [] else [BSum (su_get_sum t)])
    ++ (if feq (su_min t) f64_pinf then [] else [BMin (su_min t)])
    ++ (if feq (su_max t) f64_ninf then [] else [BMax (su_max t)])
  end.
Definition map_blocks (m : mapid) (omit : bool) : stream := if omit then [] else [map_block m].
(* statistics (exact variant only), zero count, mapping (unless omitted), positive store, negative store *)
Definition x_sketch_stream (t : option summary) (m : mapid) (z : W) (omit : bool) (stp stn : stream) : stream :=
  stats_blocks t ++ zero_blocks z ++ map_blocks m omit ++ stp ++ stn.

Theorem enc_sketch_x_grammar s omit :
  StInv (sk_pos s) -> StInv (sk_neg s) -> store_wire_ok (sk_pos s) -> store_wire_ok (sk_neg s) ->
  exists p' n' stp stn xp xn,
    enc_sketch s omit = (with_stores s p' n',
                         serialize (x_sketch_stream (sk_stats s) (sk_map s) (sk_zero s) omit stp stn)) /\
    StInv p' /\ st_kind p' = st_kind (sk_pos s) /\ st_abs p' = st_abs (sk_pos s) /\
    StInv n' /\ st_kind n' = st_kind (sk_neg s) /\ st_abs n' = st_abs (sk_neg s) /\
    store_stream false stp xp /\ bins_of_list xp = st_abs (sk_pos s) /\
    store_stream true stn xn /\ bins_of_list xn = st_abs (sk_neg s).
Proof.
  intros Hp Hn Hwp Hwn.
  destruct (enc_store_stream (sk_pos s) false Hp Hwp) as [p' [stp [xp [Ep [Ip [Kp [Ap [Sp Bp]]]]]]]].
  destruct (enc_store_stream (sk_neg s) true Hn Hwn) as [n' [stn [xn [En [In [Kn [An [Sn Bn]]]]]]]].
  exists p', n', stp, stn, xp, xn. split; [|auto 12].
  unfold enc_sketch. change ft_positive with (ty_of false). change ft_negative with (ty_of true).
  rewrite Ep, En. f_equal. unfold x_sketch_stream. rewrite !serialize_app.
  apply f_equal2; [|apply f_equal2; [|apply f_equal2; [|reflexivity]]].
  - unfold stats_blocks. destruct (sk_stats s) as [t|]; [|reflexivity]. rewrite !serialize_app.
    apply f_equal2; [|apply f_equal2; [|apply f_equal2]].
    + destruct (feq (su_count t) f64_zero); [reflexivity|]. rewrite serialize_one. reflexivity.
    + destruct (feq (su_get_sum t) f64_zero); [reflexivity|]. rewrite serialize_one. reflexivity.
    + destruct (feq (su_min t) f64_pinf); [reflexivity|]. rewrite serialize_one. reflexivity.
    + destruct (feq (su_max t) f64_ninf); [reflexivity|]. rewrite serialize_one. reflexivity.
  - unfold zero_blocks. destruct (weqb (sk_zero s) w0); [reflexivity|]. rewrite serialize_one. reflexivity.
  - unfold map_blocks. destruct omit; [reflexivity|]. rewrite serialize_one. reflexivity.
Qed.

(* streams made of statistics blocks only: no bins, no zero count, no mapping *)
Definition stat_block (b : block) : Prop :=
  match b with BCount _ | BSum _ | BMin _ | BMax _ => True | _ => False end.
Lemma stat_stream_facts st : Forall stat_block st ->
  wf_stream st /\ ok_stream st /\ stream_pos_bins st = [] /\ stream_neg_bins st = [] /\ stream_zero st = [] /\
  (forall cur, maps_chain cur st) /\ (forall cur, last_mapid cur st = cur).
Proof.
  induction st as [|b st IH]; intros H.
  - repeat split; try reflexivity; constructor.
  - inversion H as [|x y Hb Hst]; subst. destruct (IH Hst) as [A [B [C [D [E [F G]]]]]].
    destruct b; try contradiction;
      (split; [constructor; [exact I|exact A]|]; split; [constructor; [exact I|exact B]|];
       split; [exact C|]; split; [exact D|]; split; [exact E|];
       split; [intros cur; split; [exact I|apply F]|intros cur; apply G]).
Qed.
Lemma stats_blocks_stat t : Forall stat_block (stats_blocks t).
Proof.
  destruct t as [t|]; [|constructor]. unfold stats_blocks.
  destruct (feq (su_count t) f64_zero), (feq (su_get_sum t) f64_zero), (feq (su_min t) f64_pinf), (feq (su_max t) f64_ninf);
    cbn [app]; repeat constructor.
Qed.

(* what DecodeAndMergeWith of the exact variant does with the statistics of an encoded sketch [src]:
   the Flocq instance of [SummaryProofs.enc_dec], the count having crossed the varfloat codec *)
Definition su_absorb (r src : summary) : summary :=
  let r1 := if feq (su_count src) f64_zero then r else su_add_to_count r (wire_f (su_count src)) in
  let r2 := if feq (su_get_sum src) f64_zero then r1 else su_add_to_sum r1 (su_get_sum src) in
  let r3 := if feq (su_min src) f64_pinf then r2 else su_add r2 (su_min src) f64_zero in
  if feq (su_max src) f64_ninf then r3 else su_add r3 (su_max src) f64_zero.
Definition stats_absorb (r src : option summary) : option summary :=
  match r, src with
  | Some r, Some src => Some (su_absorb r src)
  | _, _ => r
  end.
Lemma stats_stream_blocks r src : stats_stream r (stats_blocks src) = stats_absorb r src.
Proof.
  destruct r as [r|]; [|apply stats_stream_none]. destruct src as [src|]; [|reflexivity].
  unfold stats_blocks, stats_absorb, su_absorb.
  destruct (feq (su_count src) f64_zero), (feq (su_get_sum src) f64_zero), (feq (su_min src) f64_pinf), (feq (su_max src) f64_ninf);
    reflexivity.
Qed.
Lemma stats_stream_other t st : Forall (fun b => ~ stat_block b) st -> stats_stream t st = t.
Proof.
  induction st as [|b st IH]; intros H; [reflexivity|]. inversion H as [|x y Hb Hst]; subst.
  unfold stats_stream. cbn [fold_left]. replace (stats_block t b) with t; [apply IH; exact Hst|].
  destruct t as [t|]; [|reflexivity]. destruct b; try reflexivity; exfalso; apply Hb; exact I.
Qed.
Lemma store_stream_not_stat neg st xs : store_stream neg st xs -> Forall (fun b => ~ stat_block b) st.
Proof.
  intros [H _]. induction H as [|b st [bb ->] _ IH]; constructor; [intros C; exact C|exact IH].
Qed.
Lemma zero_blocks_not_stat z : Forall (fun b => ~ stat_block b) (zero_blocks z).
Proof. unfold zero_blocks. destruct (weqb z w0); repeat constructor. intros C; exact C. Qed.
Lemma map_blocks_not_stat m omit : Forall (fun b => ~ stat_block b) (map_blocks m omit).
Proof. unfold map_blocks. destruct omit; repeat constructor. intros C; exact C. Qed.

Lemma map_blocks_facts m omit : map_valid m ->
  wf_stream (map_blocks m omit) /\ ok_stream (map_blocks m omit) /\ stream_pos_bins (map_blocks m omit) = [] /\
  stream_neg_bins (map_blocks m omit) = [] /\ stream_zero (map_blocks m omit) = [] /\
  (forall cur, match cur with Some m0 => map_equals m0 m = true | None => True end -> maps_chain cur (map_blocks m omit)) /\
  (forall cur, last_mapid cur (map_blocks m omit) = if omit then cur else Some m).
Proof.
  intros [Hk Hg]. unfold map_blocks. destruct omit.
  - repeat split; try reflexivity; constructor.
  - split; [repeat constructor; cbn; apply kind_ok_lt, Hk|]. split; [repeat constructor|].
    split; [reflexivity|]. split; [reflexivity|]. split; [reflexivity|]. split.
    + intros cur Hc. cbn [maps_chain block_ok block_map map_block]. rewrite map_of_mapid. auto.
    + intros cur. unfold last_mapid. cbn [fold_left block_map map_block]. rewrite map_of_mapid. reflexivity.
Qed.

(* the facts about the whole stream of an encoded sketch *)
Lemma x_sketch_stream_facts t m z omit stp stn xp xn cur :
  map_valid m -> wexact z -> store_stream false stp xp -> store_stream true stn xn ->
  match cur with Some m0 => map_equals m0 m = true | None => True end ->
  let st := x_sketch_stream t m z omit stp stn in
  wf_stream st /\ ok_stream st /\ maps_chain cur st /\
  stream_pos_bins st = xp /\ stream_neg_bins st = xn /\ stream_zero st = (if weqb z w0 then [] else [z]) /\
  last_mapid cur st = (if omit then cur else Some m) /\
  (forall r, stats_stream r st = stats_absorb r t).
Proof.
  intros Hmv Hz Sp Sn Hm st.
  destruct (stat_stream_facts _ (stats_blocks_stat t)) as [T1 [T2 [T3 [T4 [T5 [T6 T7]]]]]].
  destruct (zero_blocks_facts z Hz) as [Z1 [Z2 [Z3 [Z4 [Z5 [Z6 Z7]]]]]].
  destruct (map_blocks_facts m omit Hmv) as [M1 [M2 [M3 [M4 [M5 [M6 M7]]]]]].
  destruct (store_stream_facts false stp xp Sp) as [P1 [P2 [P3 [P4 [P5 _]]]]].
  destruct (store_stream_facts true stn xn Sn) as [N1 [N2 [N3 [N4 [N5 _]]]]].
  cbn [side_bins negb] in P1, P2, N1, N2.
  pose proof (store_stream_not_stat _ _ _ Sp) as NSp. pose proof (store_stream_not_stat _ _ _ Sn) as NSn.
  destruct Sp as [_ [Pwf [Pok _]]]. destruct Sn as [_ [Nwf [Nok _]]].
  unfold st, x_sketch_stream.
  split; [repeat (apply Forall_app; split); assumption|].
  split; [repeat (apply Forall_app; split); assumption|].
  split.
  { apply maps_chain_app. split; [apply T6|]. rewrite T7.
    apply maps_chain_app. split; [apply Z6|]. rewrite Z7.
    apply maps_chain_app. split; [apply M6; exact Hm|].
    apply maps_chain_app. split; [apply P4|apply N4]. }
  split; [rewrite !stream_pos_bins_app, T3, Z3, M3, P1, N2; cbn [app]; apply app_nil_r|].
  split; [rewrite !stream_neg_bins_app, T4, Z4, M4, P2, N1; reflexivity|].
  split; [rewrite !stream_zero_app, T5, Z5, M5, P3, N3; cbn [app]; rewrite !app_nil_r; reflexivity|].
  split; [rewrite !last_mapid_app, T7, Z7, M7, P5, N5; reflexivity|].
  intros r. rewrite stats_stream_app, stats_stream_blocks. apply stats_stream_other.
  repeat (apply Forall_app; split); auto using zero_blocks_not_stat, map_blocks_not_stat.
Qed.

Theorem x_sketch_stream_decode wx t m z omit stp stn xp xn d : fD2 wx = true ->
  map_valid m -> wexact z -> store_stream false stp xp -> store_stream true stn xn -> ds_inv_x d ->
  match ds_map d with Some m0 => map_equals m0 m = true | None => True end ->
  exists d', dec_sketch_into wx d (serialize (x_sketch_stream t m z omit stp stn)) = ds_final d' /\
             ds_rel_x d d' xp xn (if weqb z w0 then [] else [z]) (if omit then ds_map d else Some m)
                      (stats_absorb (ds_stats d) t).
Proof.
  intros HD2 Hmv Hz Sp Sn Hd Hm.
  destruct (x_sketch_stream_facts t m z omit stp stn xp xn (ds_map d) Hmv Hz Sp Sn Hm)
    as [Hwf [Hok [Hch [F1 [F2 [F3 [F4 F5]]]]]]].
  destruct (dec_sketch_ser_x wx HD2 _ d Hwf Hok Hch Hd) as [d' [E R]].
  exists d'. split; [exact E|]. unfold ds_rel_x_st in R. rewrite F1, F2, F3, F4, F5 in R. exact R.
Qed.

(* Encode of either variant (mapping embedded or omitted), then DecodeAndMergeWith of either variant, any
   store kinds on the four sides *)
Theorem x_sketch_roundtrip wx s omit d : fD2 wx = true ->
  StInv (sk_pos s) -> StInv (sk_neg s) -> store_wire_ok (sk_pos s) -> store_wire_ok (sk_neg s) ->
  wexact (sk_zero s) -> map_valid (sk_map s) -> ds_inv_x d ->
  match ds_map d with Some m0 => map_equals m0 (sk_map s) = true | None => True end ->
  exists s' d', enc_sketch s omit = (s', snd (enc_sketch s omit)) /\
    sk_map s' = sk_map s /\ sk_zero s' = sk_zero s /\ sk_stats s' = sk_stats s /\
    StInv (sk_pos s') /\ StInv (sk_neg s') /\ st_abs (sk_pos s') = st_abs (sk_pos s) /\ st_abs (sk_neg s') = st_abs (sk_neg s) /\
    dec_sketch_into wx d (snd (enc_sketch s omit)) = ds_final d' /\ ds_inv_x d' /\
    st_kind (ds_pos d') = st_kind (ds_pos d) /\ st_kind (ds_neg d') = st_kind (ds_neg d) /\
    st_abs (ds_pos d') = smerge_list (st_limit (ds_pos d)) (st_abs (ds_pos d)) (st_abs (sk_pos s)) /\
    st_abs (ds_pos d') = norm (st_limit (ds_pos d)) (bmerge (st_abs (ds_pos d)) (st_abs (sk_pos s))) /\
    st_abs (ds_neg d') = smerge_list (st_limit (ds_neg d)) (st_abs (ds_neg d)) (st_abs (sk_neg s)) /\
    st_abs (ds_neg d') = norm (st_limit (ds_neg d)) (bmerge (st_abs (ds_neg d)) (st_abs (sk_neg s))) /\
    ds_zero d' = wadd (ds_zero d) (sk_zero s) /\
    ds_map d' = (if omit then ds_map d else Some (sk_map s)) /\
    ds_stats d' = stats_absorb (ds_stats d) (sk_stats s).
Proof.
  intros HD2 Hp Hn Hwp Hwn Hz Hmv Hd Hm.
  destruct (enc_sketch_x_grammar s omit Hp Hn Hwp Hwn)
    as [p' [n' [stp [stn [xp [xn [E [Ip [Kp [Ap [In [Kn [An [Sp [Bp [Sn Bn]]]]]]]]]]]]]]]].
  destruct (x_sketch_stream_decode wx (sk_stats s) (sk_map s) (sk_zero s) omit stp stn xp xn d HD2 Hmv Hz Sp Sn Hd Hm)
    as [d' [D [G' [KP [KN [P [N [Z [M S]]]]]]]]].
  destruct (store_stream_facts false stp xp Sp) as [_ [_ [_ [_ [_ Hap]]]]].
  destruct (store_stream_facts true stn xn Sn) as [_ [_ [_ [_ [_ Han]]]]].
  pose proof (PaginatedProofs.adds_ok_nonneg _ Hap) as Hnp. pose proof (PaginatedProofs.adds_ok_nonneg _ Han) as Hnn.
  destruct Hd as [Hdp Hdn].
  exists (with_stores s p' n'), d'. rewrite E. cbn [snd with_stores sk_map sk_zero sk_stats sk_pos sk_neg].
  split; [reflexivity|]. split; [reflexivity|]. split; [reflexivity|]. split; [reflexivity|].
  split; [exact Ip|]. split; [exact In|]. split; [exact Ap|]. split; [exact An|].
  split; [exact D|]. split; [exact G'|]. split; [exact KP|]. split; [exact KN|].
  rewrite P, N, (smerge_list_canon _ xp Hdp Hnp), (smerge_list_canon _ xn Hdn Hnn), Bp, Bn.
  split; [reflexivity|]. split; [apply (smerge_list_st_norm _ _ Hdp); apply pos_nonneg; now apply st_abs_pos|].
  split; [reflexivity|]. split; [apply (smerge_list_st_norm _ _ Hdn); apply pos_nonneg; now apply st_abs_pos|].
  split; [rewrite Z; apply zero_fold|]. split; [exact M|exact S].
Qed.

(* ================================================================== *)
(* 4. The four producer / consumer pairings, the mapping omitted       *)
(* ================================================================== *)
Definition sketch_src_ok (s : sketch) : Prop :=
  StInv (sk_pos s) /\ StInv (sk_neg s) /\ store_wire_ok (sk_pos s) /\ store_wire_ok (sk_neg s) /\
  wexact (sk_zero s) /\ map_valid (sk_map s).
(* the receiver's mapping, when it has one, is Equals to the source's *)
Definition map_compatible (d : dsketch) (s : sketch) : Prop :=
  match ds_map d with Some m0 => map_equals m0 (sk_map s) = true | None => True end.
(* the content of the receiver after absorbing the sketch [s] (bins of both stores clamped to the receiver's
   limits, zero count) *)
Definition holds_merge (d d' : dsketch) (s : sketch) : Prop :=
  StInv (ds_pos d') /\ StInv (ds_neg d') /\
  st_kind (ds_pos d') = st_kind (ds_pos d) /\ st_kind (ds_neg d') = st_kind (ds_neg d) /\
  st_abs (ds_pos d') = smerge_list (st_limit (ds_pos d)) (st_abs (ds_pos d)) (st_abs (sk_pos s)) /\
  st_abs (ds_pos d') = norm (st_limit (ds_pos d)) (bmerge (st_abs (ds_pos d)) (st_abs (sk_pos s))) /\
  st_abs (ds_neg d') = smerge_list (st_limit (ds_neg d)) (st_abs (ds_neg d)) (st_abs (sk_neg s)) /\
  st_abs (ds_neg d') = norm (st_limit (ds_neg d)) (bmerge (st_abs (ds_neg d)) (st_abs (sk_neg s))) /\
  ds_zero d' = wadd (ds_zero d) (sk_zero s).

Theorem x_roundtrip wx s omit d : fD2 wx = true -> sketch_src_ok s -> ds_inv_x d -> map_compatible d s ->
  exists d', dec_sketch_into wx d (snd (enc_sketch s omit)) = ds_final d' /\ holds_merge d d' s /\
             ds_map d' = (if omit then ds_map d else Some (sk_map s)) /\
             ds_stats d' = stats_absorb (ds_stats d) (sk_stats s).
Proof.
  intros HD2 (Hp & Hn & Hwp & Hwn & Hz & Hmv) Hd Hm.
  destruct (x_sketch_roundtrip wx s omit d HD2 Hp Hn Hwp Hwn Hz Hmv Hd Hm)
    as (s' & d' & _ & _ & _ & _ & _ & _ & _ & _ & D & [Ip In] & R).
  exists d'. split; [exact D|]. unfold holds_merge. intuition.
Qed.

(* (b) exact producer, exact consumer: the four statistics are absorbed with AddToCount, AddToSum,
   Add(min, 0), Add(max, 0); the only refusal left is "missing exact summary statistics" *)
Theorem x_exact_roundtrip wx s t omit d t0 : fD2 wx = true -> sketch_src_ok s -> ds_inv_x d -> map_compatible d s ->
  sk_stats s = Some t -> ds_stats d = Some t0 -> (omit = true -> ds_map d <> None) ->
  exists d', dec_sketch_into wx d (snd (enc_sketch s omit))
             = (if feq (su_count (su_absorb t0 t)) f64_zero && negb (ds_plain_empty d')
                then DErr EMissingStats else DOk d' []) /\
             holds_merge d d' s /\ ds_map d' = (if omit then ds_map d else Some (sk_map s)) /\
             ds_stats d' = Some (su_absorb t0 t).
Proof.
  intros HD2 Hs Hd Hm Et Et0 Ho.
  destruct (x_roundtrip wx s omit d HD2 Hs Hd Hm) as (d' & D & H & M & S).
  rewrite Et, Et0 in S. cbn [stats_absorb] in S.
  exists d'. split; [|auto]. rewrite D. unfold ds_final. rewrite M, S.
  destruct omit; [|reflexivity]. destruct (ds_map d); [reflexivity|]. exfalso. now apply Ho.
Qed.

(* (c) a plain consumer accepts the encoding of either variant and ends with the same content: the
   statistics blocks are skipped *)
Theorem x_into_plain wx s omit d : fD2 wx = true -> sketch_src_ok s -> ds_inv_x d -> map_compatible d s ->
  ds_stats d = None -> (omit = true -> ds_map d <> None) ->
  exists d', dec_sketch_into wx d (snd (enc_sketch s omit)) = DOk d' [] /\ holds_merge d d' s /\
             ds_map d' = (if omit then ds_map d else Some (sk_map s)) /\ ds_stats d' = None.
Proof.
  intros HD2 Hs Hd Hm E0 Ho.
  destruct (x_roundtrip wx s omit d HD2 Hs Hd Hm) as (d' & D & H & M & S).
  rewrite E0 in S. cbn [stats_absorb] in S.
  exists d'. split; [|auto]. rewrite D. apply ds_final_plain; [exact S|]. rewrite M.
  destruct omit; [now apply Ho|discriminate].
Qed.
Lemma sketch_src_ok_stats s t : sketch_src_ok s -> sketch_src_ok (with_stats s t).
Proof. intros H. exact H. Qed.
Theorem x_plain_ignores_statistics wx s t omit d : fD2 wx = true -> sketch_src_ok s -> ds_inv_x d -> map_compatible d s ->
  ds_stats d = None -> (omit = true -> ds_map d <> None) ->
  exists d1 d2,
    dec_sketch_into wx d (snd (enc_sketch (with_stats s (Some t)) omit)) = DOk d1 [] /\
    dec_sketch_into wx d (snd (enc_sketch (with_stats s None) omit)) = DOk d2 [] /\
    st_abs (ds_pos d1) = st_abs (ds_pos d2) /\ st_abs (ds_neg d1) = st_abs (ds_neg d2) /\
    st_kind (ds_pos d1) = st_kind (ds_pos d2) /\ st_kind (ds_neg d1) = st_kind (ds_neg d2) /\
    ds_zero d1 = ds_zero d2 /\ ds_map d1 = ds_map d2 /\ ds_stats d1 = None /\ ds_stats d2 = None /\
    holds_merge d d1 s.
Proof.
  intros HD2 Hs Hd Hm E0 Ho.
  destruct (x_into_plain wx (with_stats s (Some t)) omit d HD2 (sketch_src_ok_stats s _ Hs) Hd Hm E0 Ho)
    as (d1 & D1 & (A1 & A2 & A3 & A4 & A5 & A6 & A7 & A8 & A9) & M1 & S1).
  destruct (x_into_plain wx (with_stats s None) omit d HD2 (sketch_src_ok_stats s _ Hs) Hd Hm E0 Ho)
    as (d2 & D2 & (B1 & B2 & B3 & B4 & B5 & B6 & B7 & B8 & B9) & M2 & S2).
  cbn [with_stats sk_pos sk_neg sk_zero sk_map] in *.
  exists d1, d2. unfold holds_merge. repeat split; try assumption; congruence.
Qed.

(* (4) mapping omitted: the receiver's own (Equals) mapping is kept; without one the decode is refused,
   whichever variants are on the two sides *)
Theorem x_omit_missing_mapping wx s d : fD2 wx = true -> sketch_src_ok s -> ds_inv_x d -> ds_map d = None ->
  dec_sketch_into wx d (snd (enc_sketch s true)) = DErr EMissingMapping.
Proof.
  intros HD2 Hs Hd E0.
  assert (Hm : map_compatible d s) by (unfold map_compatible; rewrite E0; exact I).
  destruct (x_roundtrip wx s true d HD2 Hs Hd Hm) as (d' & D & _ & M & _).
  rewrite D. unfold ds_final. rewrite M, E0. reflexivity.
Qed.
Theorem x_omit_roundtrip wx s d m0 : fD2 wx = true -> sketch_src_ok s -> ds_inv_x d ->
  ds_map d = Some m0 -> map_equals m0 (sk_map s) = true -> ds_stats d = None ->
  exists d', dec_sketch_into wx d (snd (enc_sketch s true)) = DOk d' [] /\ holds_merge d d' s /\
             ds_map d' = Some m0 /\ ds_stats d' = None.
Proof.
  intros HD2 Hs Hd E0 Eq S0.
  assert (Hm : map_compatible d s) by (unfold map_compatible; rewrite E0; exact Eq).
  destruct (x_into_plain wx s true d HD2 Hs Hd Hm S0) as (d' & D & H & M & S); [rewrite E0; discriminate|].
  exists d'. rewrite M, E0 in *. auto.
Qed.

(* ================================================================== *)
(* 5. Encode keeps the state of the sketch                             *)
(* ================================================================== *)
Lemma enc_store_keeps s t : StInv s ->
  StInv (fst (enc_store s t)) /\ st_kind (fst (enc_store s t)) = st_kind s /\ st_abs (fst (enc_store s t)) = st_abs s.
Proof.
  intros H. destruct s as [d|m|p]; cbn [enc_store fst]; [auto|auto|].
  unfold enc_pag. cbv zeta. cbn [fst]. fold (x_compact p).
  destruct (PaginatedProofs.compact_abs pgrow8 worth32 ZSort.sort x_pgrow_ok x_sort_ok p H) as [H' A].
  fold (x_compact p) in H', A. split; [exact H'|]. split; [reflexivity|].
  rewrite (st_abs_SP p H), (st_abs_SP _ H'). exact A.
Qed.
Lemma enc_sketch_fst s omit :
  fst (enc_sketch s omit) = with_stores s (fst (enc_store (sk_pos s) ft_positive)) (fst (enc_store (sk_neg s) ft_negative)).
Proof.
  unfold enc_sketch. destruct (enc_store (sk_pos s) ft_positive) as [p' bp]. destruct (enc_store (sk_neg s) ft_negative) as [n' bn].
  reflexivity.
Qed.
(* no premise on the weights: purity does not depend on what crosses the wire *)
Theorem enc_sketch_keeps_state s omit : StInv (sk_pos s) -> StInv (sk_neg s) ->
  let s' := fst (enc_sketch s omit) in
  StInv (sk_pos s') /\ StInv (sk_neg s') /\
  st_kind (sk_pos s') = st_kind (sk_pos s) /\ st_kind (sk_neg s') = st_kind (sk_neg s) /\
  st_abs (sk_pos s') = st_abs (sk_pos s) /\ st_abs (sk_neg s') = st_abs (sk_neg s) /\
  sk_zero s' = sk_zero s /\ sk_map s' = sk_map s /\ sk_stats s' = sk_stats s.
Proof.
  intros Hp Hn. cbv zeta. rewrite enc_sketch_fst. cbn [with_stores sk_pos sk_neg sk_zero sk_map sk_stats].
  destruct (enc_store_keeps (sk_pos s) ft_positive Hp) as [A1 [A2 A3]].
  destruct (enc_store_keeps (sk_neg s) ft_negative Hn) as [B1 [B2 B3]]. auto 10.
Qed.
(* "only appends to the caller's buffer": [enc_sketch] has no buffer argument. Every Go encoder does
   [*b = append( *b, ...)]; making the buffer explicit in that way gives the function below, for which the
   clause is a list identity: a remark on the shape of the model, not a fact about the code *)
Definition enc_sketch_into (buf : list byte) (s : sketch) (omit : bool) : sketch * list byte :=
  (fst (enc_sketch s omit), buf ++ snd (enc_sketch s omit)).
Remark enc_sketch_into_appends buf s omit :
  firstn (length buf) (snd (enc_sketch_into buf s omit)) = buf /\
  skipn (length buf) (snd (enc_sketch_into buf s omit)) = snd (enc_sketch s omit).
Proof.
  unfold enc_sketch_into. cbn [snd]. split.
  - rewrite firstn_app, Nat.sub_diag, firstn_all. cbn [firstn]. apply app_nil_r.
  - rewrite skipn_app, Nat.sub_diag, skipn_all. reflexivity.
Qed.

(* ================================================================== *)
(* 6. Totality on arbitrary bytes: sparse and paginated receivers      *)
(* ================================================================== *)
(* the stores that are not array-backed: their Add / AddWithCount accept every index in the model *)
Definition no_array (s : store) : Prop := match s with SD _ => False | _ => True end.
Definition na_res (r : dres store) : Prop :=
  (exists s' rest, r = DOk s' rest /\ no_array s') \/ (exists e, r = DErr e).
Lemma na_addw s i c : no_array s -> exists s', st_addw s i c = Some s' /\ no_array s'.
Proof. destruct s; [contradiction| |]; intros _; eexists; (split; [reflexivity|exact I]). Qed.
Lemma na_add s i : no_array s -> exists s', st_add s i = Some s' /\ no_array s'.
Proof. destruct s; [contradiction| |]; intros _; eexists; (split; [reflexivity|exact I]). Qed.

Lemma na_idc_total : forall fuel n idx s b, no_array s -> na_res (dec_idc_loop fuel n idx s b).
Proof.
  induction fuel as [|f IH]; intros n idx s b Hs; rewrite dec_idc_loop_eq; destruct (n =? 0)%N;
    try (left; eauto; fail); try (right; eauto; fail).
  destruct (dec_sv b) as [d b1| |]; try (right; eauto; fail).
  destruct (dec_count b1) as [c b2| |]; try (right; eauto; fail).
  destruct (na_addw s (wrap_i64 (idx + d)) c Hs) as [s' [E Hs']]. rewrite E. apply IH. exact Hs'.
Qed.
Lemma na_id_total : forall fuel n idx s b, no_array s -> na_res (dec_id_loop fuel n idx s b).
Proof.
  induction fuel as [|f IH]; intros n idx s b Hs; rewrite dec_id_loop_eq; destruct (n =? 0)%N;
    try (left; eauto; fail); try (right; eauto; fail).
  destruct (dec_sv b) as [d b1| |]; try (right; eauto; fail).
  destruct (na_add s (wrap_i64 (idx + d)) Hs) as [s' [E Hs']]. rewrite E. apply IH. exact Hs'.
Qed.
Lemma na_cc_total : forall fuel n idx delta s b, no_array s -> na_res (dec_cc_loop fuel n idx delta s b).
Proof.
  induction fuel as [|f IH]; intros n idx delta s b Hs; rewrite dec_cc_loop_eq; destruct (n =? 0)%N;
    try (left; eauto; fail); try (right; eauto; fail).
  destruct (dec_count b) as [c b1| |]; try (right; eauto; fail).
  destruct (na_addw s idx c Hs) as [s' [E Hs']]. rewrite E. apply IH. exact Hs'.
Qed.
Lemma na_generic_total s sub b : no_array s -> na_res (dec_bins_generic s sub b).
Proof.
  intros Hs. unfold dec_bins_generic.
  destruct (sub =? sub_idx_deltas_counts)%N.
  { destruct (dec_uv b); try (right; eauto; fail). now apply na_idc_total. }
  destruct (sub =? sub_idx_deltas)%N.
  { destruct (dec_uv b); try (right; eauto; fail). now apply na_id_total. }
  destruct (sub =? sub_contiguous)%N; [|right; eauto].
  destruct (dec_uv b) as [n b1| |]; try (right; eauto; fail).
  destruct (dec_sv b1) as [i b2| |]; try (right; eauto; fail).
  destruct (dec_sv b2) as [dl b3| |]; try (right; eauto; fail).
  now apply na_cc_total.
Qed.
Lemma collect_ids_res : forall fuel n idx acc b,
  (exists l rest, collect_ids fuel n idx acc b = DOk l rest) \/ (exists e, collect_ids fuel n idx acc b = DErr e).
Proof.
  induction fuel as [|f IH]; intros n idx acc b; rewrite collect_ids_eq; destruct (n =? 0)%N;
    try (left; eauto; fail); try (right; eauto; fail).
  destruct (dec_sv b) as [d b1| |]; try (right; eauto; fail). apply IH.
Qed.
Lemma collect_cc_res : forall fuel n idx delta acc b,
  (exists l rest, collect_cc fuel n idx delta acc b = DOk l rest) \/ (exists e, collect_cc fuel n idx delta acc b = DErr e).
Proof.
  induction fuel as [|f IH]; intros n idx delta acc b; rewrite collect_cc_eq; destruct (n =? 0)%N;
    try (left; eauto; fail); try (right; eauto; fail).
  destruct (dec_count b) as [c b1| |]; try (right; eauto; fail). apply IH.
Qed.
Lemma na_bins_total s sub b : no_array s -> na_res (dec_bins s sub b).
Proof.
  intros Hs. destruct s as [d|m|p]; [contradiction|now apply na_generic_total|].
  cbn [dec_bins]. unfold dec_bins_pag.
  destruct (sub =? sub_idx_deltas)%N.
  { destruct (dec_uv b) as [n b1| |]; try (right; eauto; fail).
    destruct (collect_ids_res (S (length b1)) n 0%Z [] b1) as [[l [rest ->]]|[e ->]]; [left|right; eauto].
    eexists _, rest. split; [reflexivity|exact I]. }
  destruct (sub =? sub_contiguous)%N.
  { destruct (dec_uv b) as [n b1| |]; try (right; eauto; fail).
    destruct (dec_sv b1) as [i b2| |]; try (right; eauto; fail).
    destruct (dec_sv b2) as [dl b3| |]; try (right; eauto; fail).
    destruct (collect_cc_res (S (length b3)) n i dl [] b3) as [[l [rest ->]]|[e ->]]; [left|right; eauto].
    eexists _, rest. split; [reflexivity|exact I]. }
  now apply na_generic_total.
Qed.

Definition ds_no_array (d : dsketch) : Prop := no_array (ds_pos d) /\ no_array (ds_neg d).
(* whatever the bytes, whichever variant of the decoder, repaired or not *)
Theorem dec_blocks_total_na wx : forall fuel d b, ds_no_array d -> dec_blocks wx fuel d b <> DPanic.
Proof.
  induction fuel as [|k IH]; intros d b Hd; destruct b as [|f b1]; try (cbn; discriminate).
  destruct Hd as [Hp Hn]. rewrite dec_blocks_S. cbv zeta.
  destruct (flag_type f =? ft_positive)%N.
  { destruct (na_bins_total (ds_pos d) (flag_sub f) b1 Hp) as [[s' [rest [-> Hs']]]|[e ->]].
    - apply IH. split; [exact Hs'|exact Hn].
    - destruct (fD3 wx); discriminate. }
  destruct (flag_type f =? ft_negative)%N.
  { destruct (na_bins_total (ds_neg d) (flag_sub f) b1 Hn) as [[s' [rest [-> Hs']]]|[e ->]].
    - apply IH. split; [exact Hp|exact Hs'].
    - destruct (fD3 wx); discriminate. }
  destruct (flag_type f =? ft_mapping)%N.
  { pose proof (dec_mapping_no_panic f b1) as HM. destruct (dec_mapping f b1) as [m rest|e|]; [|discriminate|contradiction].
    destruct (ds_map d) as [m0|]; [destruct (map_equals m0 m); [|discriminate]|]; apply IH; split; assumption. }
  destruct (f =? flag_zero_count)%N.
  { destruct (dec_count b1); try discriminate. apply IH. split; assumption. }
  pose proof (dec_feature_res wx d f b1) as HF.
  destruct (dec_feature wx d f b1) as [s' rest|e|]; [|discriminate|contradiction].
  destruct HF as [H1 H2]. apply IH. split; [rewrite H1; exact Hp|rewrite H2; exact Hn].
Qed.
Theorem decoder_total_na wx d b : ds_no_array d -> dec_sketch_into wx d b <> DPanic.
Proof.
  intros Hd. unfold dec_sketch_into.
  pose proof (dec_blocks_total_na wx (S (length b)) d b Hd) as H.
  destruct (dec_blocks wx (S (length b)) d b) as [s' rest|e|]; [|discriminate|contradiction].
  destruct (ds_map s'); [|discriminate]. destruct (ds_stats s') as [t|]; [|discriminate].
  destruct (feq (su_count t) f64_zero && negb (ds_plain_empty s')); discriminate.
Qed.
Lemma no_array_kind s : st_kind s = KSparse \/ st_kind s = KPag -> no_array s.
Proof.
  destruct s as [d|m|p]; try (intros _; exact I). cbn [st_kind]. destruct (lim d); intros [H|H]; discriminate H.
Qed.
Theorem decoder_total_kinds wx d b :
  (st_kind (ds_pos d) = KSparse \/ st_kind (ds_pos d) = KPag) ->
  (st_kind (ds_neg d) = KSparse \/ st_kind (ds_neg d) = KPag) ->
  dec_sketch_into wx d b <> DPanic.
Proof. intros H1 H2. apply decoder_total_na. split; now apply no_array_kind. Qed.

(* ================================================================== *)
(* 7. The documentation-only decoder on the encoding of either variant *)
(* ================================================================== *)
Definition block_count (b : block) : list f64 := match b with BCount w => [wire_f w] | _ => [] end.
Definition block_sum (b : block) : list f64 := match b with BSum x => [x] | _ => [] end.
Definition block_min (b : block) : list f64 := match b with BMin x => [x] | _ => [] end.
Definition block_max (b : block) : list f64 := match b with BMax x => [x] | _ => [] end.
Lemma sem_from_stats : forall st c,
  c_count (fold_left sem_block st c) = c_count c ++ concat (map block_count st) /\
  c_sum (fold_left sem_block st c) = c_sum c ++ concat (map block_sum st) /\
  c_min (fold_left sem_block st c) = c_min c ++ concat (map block_min st) /\
  c_max (fold_left sem_block st c) = c_max c ++ concat (map block_max st).
Proof.
  induction st as [|b st IH]; intros c.
  - cbn [fold_left map concat]. rewrite !app_nil_r. auto.
  - cbn [fold_left map concat]. destruct (IH (sem_block c b)) as [A [B [C D]]]. rewrite A, B, C, D.
    destruct b as [w|k g o|[|] bb|w|x|x|x];
      cbn [sem_block c_count c_sum c_min c_max block_count block_sum block_min block_max app];
      rewrite <- ?app_assoc; auto.
Qed.
Lemma not_stat_no_stats st : Forall (fun b => ~ stat_block b) st ->
  concat (map block_count st) = [] /\ concat (map block_sum st) = [] /\
  concat (map block_min st) = [] /\ concat (map block_max st) = [].
Proof.
  induction st as [|b st IH]; intros H; [auto|]. inversion H as [|x y Hb Hst]; subst.
  destruct (IH Hst) as [A [B [C D]]]. cbn [map concat]. rewrite A, B, C, D.
  destruct b; cbn [block_count block_sum block_min block_max app]; auto; exfalso; apply Hb; exact I.
Qed.
(* one statistic of the producer as the documentation-only decoder reads it: absent at its neutral value *)
Definition stat_field (t : option summary) (get : summary -> f64) (neutral : f64) (tr : f64 -> f64) : list f64 :=
  match t with None => [] | Some t => if feq (get t) neutral then [] else [tr (get t)] end.

Theorem enc_sketch_ref_decode_x s omit : sketch_src_ok s ->
  exists c, ref_decode_raw (snd (enc_sketch s omit)) = Some c /\
    c_pos c = st_abs (sk_pos s) /\ c_neg c = st_abs (sk_neg s) /\ c_zero c = sk_zero s /\
    c_map c = (if omit then None else Some (mapid_triple (sk_map s))) /\
    c_count c = stat_field (sk_stats s) su_count f64_zero wire_f /\
    c_sum c = stat_field (sk_stats s) su_get_sum f64_zero (fun x => x) /\
    c_min c = stat_field (sk_stats s) su_min f64_pinf (fun x => x) /\
    c_max c = stat_field (sk_stats s) su_max f64_ninf (fun x => x).
Proof.
  intros (Hp & Hn & Hwp & Hwn & Hz & Hmv).
  destruct (enc_sketch_x_grammar s omit Hp Hn Hwp Hwn)
    as [p' [n' [stp [stn [xp [xn [E [_ [_ [_ [_ [_ [_ [Sp [Bp [Sn Bn]]]]]]]]]]]]]]]].
  rewrite E. cbn [snd].
  destruct (x_sketch_stream_facts (sk_stats s) (sk_map s) (sk_zero s) omit stp stn xp xn None Hmv Hz Sp Sn I)
    as [Hwf [_ [_ [F1 [F2 [F3 [F4 _]]]]]]]. cbv zeta in *.
  eexists. split; [apply ref_decode_raw_serialize; exact Hwf|].
  rewrite sem_pos, sem_neg, F1, F2, Bp, Bn. split; [reflexivity|]. split; [reflexivity|].
  unfold sem. rewrite sem_from_zero, sem_from_map, F3. cbn [c_empty c_zero c_map].
  split; [rewrite zero_fold; apply wadd_0_l|].
  split.
  { pose proof (last_mapid_triple (x_sketch_stream (sk_stats s) (sk_map s) (sk_zero s) omit stp stn) None) as T.
    cbn [option_map] in T. rewrite <- T, F4. destruct omit; reflexivity. }
  destruct (sem_from_stats (x_sketch_stream (sk_stats s) (sk_map s) (sk_zero s) omit stp stn) c_empty) as [A [B [C D]]].
  rewrite A, B, C, D. cbn [c_empty c_count c_sum c_min c_max app].
  unfold x_sketch_stream. rewrite !map_app, !concat_app.
  destruct (not_stat_no_stats _ (zero_blocks_not_stat (sk_zero s))) as [Z1 [Z2 [Z3 Z4]]].
  destruct (not_stat_no_stats _ (map_blocks_not_stat (sk_map s) omit)) as [M1 [M2 [M3 M4]]].
  destruct (not_stat_no_stats _ (store_stream_not_stat _ _ _ Sp)) as [P1 [P2 [P3 P4]]].
  destruct (not_stat_no_stats _ (store_stream_not_stat _ _ _ Sn)) as [N1 [N2 [N3 N4]]].
  rewrite Z1, Z2, Z3, Z4, M1, M2, M3, M4, P1, P2, P3, P4, N1, N2, N3, N4. rewrite !app_nil_r.
  unfold stat_field, stats_blocks. destruct (sk_stats s) as [t|]; [|auto].
  destruct (feq (su_count t) f64_zero), (feq (su_get_sum t) f64_zero), (feq (su_min t) f64_pinf), (feq (su_max t) f64_ninf);
    cbn; auto.
Qed.

(* ================================================================== *)
(* 8. Observers for the executable examples                            *)
(* ================================================================== *)
Definition su_sig (t : option summary) : option (N * N * N * N) :=
  match t with
  | Some t => Some (bits_of_f64 (su_count t), bits_of_f64 (su_get_sum t), bits_of_f64 (su_min t), bits_of_f64 (su_max t))
  | None => None
  end.
Definition x_sig (r : dres dsketch) :=
  match r with
  | DOk d rest => inl (qbins (st_abs (ds_pos d)), qbins (st_abs (ds_neg d)), this (ds_zero d), map_sig (ds_map d), su_sig (ds_stats d), rest)
  | DErr e => inr (Some e)
  | DPanic => inr None
  end.

(* ================================================================== *)
(* 9. Checkable side conditions (for the executable examples)          *)
(* ================================================================== *)
From Coq Require Import QArith Qcanon.
Close Scope Q_scope.
Close Scope Qc_scope.
Close Scope Z_scope.
Open Scope nat_scope.
Definition wexact_intb (w : W) : bool :=
  (Qden (this w) =? 1)%positive && (0 <=? Qnum (this w))%Z && (Qnum (this w) <? 9007199254740992)%Z.
Lemma wexact_intb_ok w : wexact_intb w = true -> wexact w.
Proof.
  unfold wexact_intb. intros H. apply andb_prop in H. destruct H as [H H3]. apply andb_prop in H. destruct H as [H1 H2].
  apply Pos.eqb_eq in H1. apply Z.leb_le in H2. apply Z.ltb_lt in H3.
  replace w with (w_of_Z (Qnum (this w))); [apply wexact_int; lia|].
  apply Qc_is_canon. unfold w_of_Z. cbn [this Q2Qc]. rewrite Qred_correct.
  destruct w as [[n d] c]. cbn [this Qnum Qden] in *. subst d. reflexivity.
Qed.
Lemma forallb_Forall {A} (f : A -> bool) (P : A -> Prop) l :
  (forall x, f x = true -> P x) -> forallb f l = true -> Forall P l.
Proof.
  intros H. induction l as [|x l IH]; intros E; [constructor|]. cbn [forallb] in E. apply andb_prop in E.
  destruct E as [E1 E2]. constructor; [now apply H|now apply IH].
Qed.
Definition store_wire_okb (s : store) : bool :=
  match s with
  | SD d => forallb (fun ic => wexact_intb (snd ic)) (dense_cells d)
  | SS m => (N.of_nat (length m) <? W64)%N && forallb (fun ic => wexact_intb (snd ic)) m
  | SP p => (N.of_nat (length (buffer (x_compact p))) <? W64)%N && forallb (forallb wexact_intb) (pages (x_compact p))
  end.
Lemma store_wire_okb_ok s : store_wire_okb s = true -> store_wire_ok s.
Proof.
  destruct s as [d|m|p]; cbn [store_wire_okb store_wire_ok]; intros H.
  - revert H. apply forallb_Forall. intros x. apply wexact_intb_ok.
  - apply andb_prop in H. destruct H as [H1 H2]. apply N.ltb_lt in H1. split; [exact H1|].
    revert H2. apply forallb_Forall. intros x. apply wexact_intb_ok.
  - apply andb_prop in H. destruct H as [H1 H2]. apply N.ltb_lt in H1. split; [exact H1|].
    revert H2. apply forallb_Forall. intros pg. apply forallb_Forall. apply wexact_intb_ok.
Qed.
(* a store built from a list of (index, weight) additions *)
Definition built (k : kind) (l : list (Z * W)) : store :=
  match st_add_list (st_new k) l with Some s => s | None => st_new k end.
Definition bins_okb (l : list (Z * W)) : bool := forallb (fun kw => idx_okb (fst kw) && Qle_bool (this w0) (this (snd kw))) l.
Lemma bins_okb_ok l : bins_okb l = true -> DenseProofs.bins_ok l.
Proof.
  unfold bins_okb. intros H k w Hin. rewrite forallb_forall in H. specialize (H (k, w) Hin). cbn [fst snd] in H.
  apply andb_prop in H. destruct H as [H1 H2]. unfold idx_okb in H1. apply andb_prop in H1. destruct H1 as [A B].
  apply Z.leb_le in A. apply Z.leb_le in B. split; [split; assumption|]. apply Qle_bool_iff in H2. exact H2.
Qed.
Lemma built_inv k l : AnyProofs.kind_ok k -> bins_okb l = true -> StInv (built k l) /\ st_kind (built k l) = k.
Proof.
  intros Hk Hl. destruct (st_add_list_spec l (st_new k) (StInv_new k Hk) (bins_okb_ok l Hl)) as (s' & E & I' & K & _).
  unfold built. rewrite E. split; [exact I'|]. rewrite K. apply st_kind_new.
Qed.
(* decidable forms of the premises on streams *)
Definition i64b (z : Z) : bool := (-9223372036854775808 <=? z)%Z && (z <? 9223372036854775808)%Z.
Lemma i64b_ok z : i64b z = true -> i64 z.
Proof. unfold i64b, i64. intros H. apply andb_prop in H. destruct H as [A B]. apply Z.leb_le in A. apply Z.ltb_lt in B. lia. Qed.
Definition wf_binsb (bb : bin_block) : bool :=
  match bb with
  | IndexDeltasAndCounts l => (N.of_nat (length l) <? W64)%N && forallb (fun dc => i64b (fst dc)) l
  | IndexDeltas l => (N.of_nat (length l) <? W64)%N && forallb i64b l
  | ContiguousCounts first stride l => (N.of_nat (length l) <? W64)%N && i64b first && i64b stride
  end.
Definition wf_blockb (b : block) : bool :=
  match b with BMapping k _ _ => (k <? 64)%N | BStore _ bb => wf_binsb bb | _ => true end.
Lemma wf_blockb_ok b : wf_blockb b = true -> wf_block b.
Proof.
  destruct b as [w|k g o|neg bb|w|x|x|x]; cbn [wf_blockb wf_block]; try (intros _; exact I).
  - intros H. now apply N.ltb_lt.
  - destruct bb as [l|l|f s l]; cbn [wf_binsb wf_bins]; intros H.
    + apply andb_prop in H. destruct H as [A B]. apply N.ltb_lt in A. split; [exact A|].
      revert B. apply forallb_Forall. intros x. apply i64b_ok.
    + apply andb_prop in H. destruct H as [A B]. apply N.ltb_lt in A. split; [exact A|].
      revert B. apply forallb_Forall. intros x. apply i64b_ok.
    + apply andb_prop in H. destruct H as [H C]. apply andb_prop in H. destruct H as [A B]. apply N.ltb_lt in A.
      split; [exact A|]. split; now apply i64b_ok.
Qed.
Definition idx_blockb (b : block) : bool :=
  match b with BStore _ bb => forallb idx_okb (map fst (bins_of_block bb)) | _ => true end.
Lemma idx_okb_ok i : idx_okb i = true -> idx_ok i.
Proof. unfold idx_okb, idx_ok. intros H. apply andb_prop in H. destruct H as [A B]. apply Z.leb_le in A. apply Z.leb_le in B. lia. Qed.
Lemma idx_blockb_ok b : idx_blockb b = true -> idx_block b.
Proof.
  destruct b as [w|k g o|neg bb|w|x|x|x]; cbn [idx_blockb idx_block]; try (intros _; exact I).
  unfold idx_bins. apply forallb_Forall. apply idx_okb_ok.
Qed.
Definition nonneg_blockb (b : block) : bool :=
  match b with BStore _ bb => forallb (fun x => Qle_bool (this w0) (this (wire_w x))) (bins_weights bb) | _ => true end.
Lemma nonneg_blockb_ok b : nonneg_blockb b = true -> okw_block nonneg_w b.
Proof.
  destruct b as [w|k g o|neg bb|w|x|x|x]; cbn [nonneg_blockb okw_block]; try (intros _; exact I).
  unfold okw_bins. apply forallb_Forall. intros x H. apply Qle_bool_iff in H. exact H.
Qed.
Definition kind_okb (k : N) : bool := ((k =? 0) || (k =? 1) || (k =? 3))%N.
Lemma kind_okb_ok k : kind_okb k = true -> WireProofs.kind_ok k.
Proof.
  unfold kind_okb, WireProofs.kind_ok. intros H. apply orb_prop in H. destruct H as [H|H]; [apply orb_prop in H; destruct H as [H|H]|];
    apply N.eqb_eq in H; auto.
Qed.
Fixpoint maps_chainb (cur : option mapid) (st : stream) : bool :=
  match st with
  | [] => true
  | b :: tl =>
    (match b with
     | BMapping k g o => kind_okb k && negb (fle g f64_one) &&
                         match cur with Some m0 => map_equals m0 (map_of k g o) | None => true end
     | _ => true
     end) && maps_chainb (block_map cur b) tl
  end.
Lemma maps_chainb_ok : forall st cur, maps_chainb cur st = true -> maps_chain cur st.
Proof.
  induction st as [|b st IH]; intros cur H; [exact I|]. cbn [maps_chainb maps_chain] in *.
  apply andb_prop in H. destruct H as [H1 H2]. split; [|now apply IH].
  destruct b as [w|k g o|neg bb|w|x|x|x]; cbn [block_ok]; try exact I.
  apply andb_prop in H1. destruct H1 as [H1 C]. apply andb_prop in H1. destruct H1 as [A B].
  split; [now apply kind_okb_ok|]. split; [now apply negb_true_iff|]. destruct cur; [exact C|exact I].
Qed.
(* all the premises of the stream theorems at once *)
Definition admissibleb (cur : option mapid) (st : stream) : bool :=
  forallb wf_blockb st && forallb idx_blockb st && forallb nonneg_blockb st && maps_chainb cur st.
Lemma admissibleb_ok cur st : admissibleb cur st = true ->
  wf_stream st /\ idx_stream st /\ nonneg_stream_w st /\ maps_chain cur st.
Proof.
  unfold admissibleb. intros H. apply andb_prop in H. destruct H as [H D]. apply andb_prop in H. destruct H as [H C].
  apply andb_prop in H. destruct H as [A B].
  split; [revert A; apply forallb_Forall; apply wf_blockb_ok|].
  split; [revert B; apply forallb_Forall; apply idx_blockb_ok|].
  split; [revert C; apply forallb_Forall; apply nonneg_blockb_ok|now apply maps_chainb_ok].
Qed.
Definition map_validb (m : mapid) : bool := kind_okb (mk_kind m) && negb (fle (mk_gamma m) f64_one).
Lemma map_validb_ok m : map_validb m = true -> map_valid m.
Proof.
  unfold map_validb, map_valid. intros H. apply andb_prop in H. destruct H as [A B].
  split; [now apply kind_okb_ok|now apply negb_true_iff].
Qed.
Lemma fresh_inv_x mp k exact : AnyProofs.kind_ok k -> ds_inv_x (ds_fresh mp k exact).
Proof. intros Hk. split; cbn [ds_fresh ds_pos ds_neg]; now apply StInv_new. Qed.

(* ================================================================== *)
(* 10. A concrete exact-summary sketch; the defect of the legacy plain decoder on its encoding *)
(* ================================================================== *)
Definition wit_f (b : N) : f64 := f64_of_bits b.
Definition wit_map : mapid := {| mk_kind := 0; mk_gamma := wit_f 4607272490792564818; mk_off := wit_f 0 |}.   (* log, gamma 1.02 *)
(* Add(2.0, 5); Add(-1.0, 5); Add(0.0, 2): count 12, sum 5, min -1, max 2 *)
Definition wit_stats : summary :=
  su_add (su_add (su_add su_new (wit_f 4611686018427387904) (wit_f 4617315517961601024))
                 (wit_f 13830554455654793216) (wit_f 4617315517961601024))
         (wit_f 0) (wit_f 4611686018427387904).
(* positive store dense; negative store paginated: -38 and -7, -7 sit in the buffer, -40 (weight 3) creates the page
   [-64, -33], into which Encode's compaction moves the buffered -38 *)
Definition wit_sketch (t : option summary) : sketch :=
  {| sk_map := wit_map;
     sk_pos := built KDense [(3%Z, w_of_Z 1); (5%Z, w_of_Z 2); (70%Z, w_of_Z 2)];
     sk_neg := built KPag [((-38)%Z, w_of_Z 1); ((-7)%Z, w_of_Z 1); ((-7)%Z, w_of_Z 1); ((-40)%Z, w_of_Z 3)];
     sk_zero := w_of_Z 2; sk_stats := t |}.
Lemma wit_src_ok t : sketch_src_ok (wit_sketch t).
Proof.
  unfold sketch_src_ok, wit_sketch. cbn [sk_pos sk_neg sk_zero sk_map].
  split; [refine (proj1 (built_inv KDense _ I _)); vm_compute; reflexivity|].
  split; [refine (proj1 (built_inv KPag _ I _)); vm_compute; reflexivity|].
  split; [apply store_wire_okb_ok; vm_compute; reflexivity|].
  split; [apply store_wire_okb_ok; vm_compute; reflexivity|].
  split; [apply wexact_int; lia|apply map_validb_ok; vm_compute; reflexivity].
Qed.
Lemma exact_into_plain_refuted_legacy :
  exists (s : sketch) (d : dsketch),
    sketch_src_ok s /\ ds_inv_x d /\ map_compatible d s /\ ds_stats d = None /\ sk_stats s <> None /\
    (exists d', dec_sketch_into {| fD2 := true; fD3 := true |} d (snd (enc_sketch s false)) = DOk d' []) /\
    dec_sketch_into {| fD2 := false; fD3 := true |} d (snd (enc_sketch s false)) = DErr EUnknownFlag.
Proof.
  exists (wit_sketch (Some wit_stats)), (ds_fresh None KSparse false).
  assert (Hd : ds_inv_x (ds_fresh None KSparse false)) by (apply fresh_inv_x; exact I).
  split; [apply wit_src_ok|]. split; [exact Hd|]. split; [exact I|]. split; [reflexivity|]. split; [discriminate|].
  split.
  - destruct (x_into_plain {| fD2 := true; fD3 := true |} (wit_sketch (Some wit_stats)) false (ds_fresh None KSparse false)
                eq_refl (wit_src_ok _) Hd I eq_refl) as (d' & D & _); [discriminate|]. exists d'. exact D.
  - vm_compute. reflexivity.
Qed.

(* the defined flags, decidably *)
Definition known_flagb (f : N) : bool :=
  ((((flag_type f =? ft_positive) || (flag_type f =? ft_negative))
    && ((flag_sub f =? sub_idx_deltas_counts) || (flag_sub f =? sub_idx_deltas) || (flag_sub f =? sub_contiguous)))
   || ((flag_type f =? ft_mapping) && kind_okb (N.shiftr f 2))
   || (f =? flag_zero_count) || (f =? flag_count) || (f =? flag_sum) || (f =? flag_min) || (f =? flag_max))%N.
Lemma kind_okb_true k : WireProofs.kind_ok k -> kind_okb k = true.
Proof. intros [-> | [-> | ->]]; reflexivity. Qed.
Lemma known_flagb_false f : known_flagb f = false -> ~ known_flag f.
Proof.
  intros H K. unfold known_flagb in H.
  destruct K as [[A B]|[[A B]|K]].
  - assert (E1 : ((flag_type f =? ft_positive) || (flag_type f =? ft_negative))%N = true).
    { destruct A as [A|A]; rewrite A; reflexivity. }
    assert (E2 : ((flag_sub f =? sub_idx_deltas_counts) || (flag_sub f =? sub_idx_deltas) || (flag_sub f =? sub_contiguous))%N = true).
    { destruct B as [B|[B|B]]; rewrite B; reflexivity. }
    rewrite E1, E2 in H. discriminate H.
  - rewrite A, (kind_okb_true _ B) in H. cbn in H. rewrite ?orb_true_r in H. discriminate H.
  - destruct K as [K|[K|[K|[K|K]]]]; subst f; discriminate H.
Qed.
