(* Layer B: dataset/dataset.go. Values are exact rationals (finite floats); the lazily maintained
   [sorted] flag is modelled as written: queries return the dataset sorted with the flag set,
   Add clears it. [sort] is sort.Float64s (Sorted /\ Permutation in the proofs); [rnd] rounds
   q*(Count-1) to binary64. Definitions only. *)
From Coq Require Import Qround.
From SK Require Export Base.Prelude.

Record dataset := { ds_values : list Qc; ds_count : W; ds_sorted : bool }.
Definition d_new : dataset := {| ds_values := []; ds_count := w0; ds_sorted := false |}.
Definition d_add (d : dataset) (v : Qc) : dataset :=
  {| ds_values := ds_values d ++ [v]; ds_count := wadd (ds_count d) w1; ds_sorted := false |}.

Definition qfloor (x : Qc) : Z := Qfloor (this x).
Definition qceil (x : Qc) : Z := Qceiling (this x).

Section Dataset.
Variable sort : list Qc -> list Qc.
Variable rnd : Qc -> Qc.

Definition d_sort (d : dataset) : dataset :=
  if ds_sorted d then d else {| ds_values := sort (ds_values d); ds_count := ds_count d; ds_sorted := true |}.
(* q as an option: None = NaN; out-of-range or empty gives None (NaN) as result *)
Definition d_quantile_at (pick : Qc -> Z) (d : dataset) (q : option Qc) : dataset * option Qc :=
  match q with
  | None => (d, None)
  | Some q =>
    if wltb q w0 || wltb w1 q || weqb (ds_count d) w0 then (d, None) else
    let d' := d_sort d in
    let rank := rnd (wmul q (wsub (ds_count d') w1)) in
    (d', nth_error (ds_values d') (Z.to_nat (pick rank)))     (* None here = index out of range (panic) *)
  end.
Definition d_lower := d_quantile_at qfloor.
Definition d_upper := d_quantile_at qceil.
Definition d_min (d : dataset) : dataset * option Qc := let d' := d_sort d in (d', nth_error (ds_values d') 0).
Definition d_max (d : dataset) : dataset * option Qc := let d' := d_sort d in (d', nth_error (ds_values d') (length (ds_values d') - 1)).
Definition d_merge (d o : dataset) : dataset := fold_left d_add (ds_values o) d.
Definition d_sum_exact (d : dataset) : Qc := fold_left Qcplus (ds_values d) w0.
End Dataset.
