(* Layer B proofs: dataset/dataset.go (model: SK.Data.Dataset).  Stdlib only, axiom-free.

   Structure
     0. Qc helpers ([inj z] = the integer z as a Qc; floor/ceiling facts; sums)
     1. sorted lists over Qc: a sorted permutation is unique
     2. Section over [sort], [rnd], the bound [B] and the four hypotheses:
        - state level: [Rep xs d] ("d represents the multiset xs": DInv d /\ Permutation xs values)
          is established by d_new, preserved by d_add / d_merge / every query, and under [Rep xs d]
          every query answers exactly as the flag-free reference [ref_answer] on [xs];
        - history level: [run] threads the dataset through a list of [op]; [ref_run] is the
          reference semantics that only keeps the list of added values;
        - numeric part: 0 <= rnd (q (n-1)) <= n-1, floor/ceil bracketing.

   About [rnd_int].  binary64 rounding fixes the integers of magnitude <= 2^53 only, so the
   hypothesis is [forall z, 0 <= z <= B -> rnd (inj z) = inj z] for a Section variable [B], and the
   theorems that need it carry the premise [Z.of_nat (length xs) - 1 <= B] (B := 2^53 for binary64;
   if rnd fixes all integers take B := length xs).  The refinement theorems ([run] = [ref_run],
   invariants, order independence, merge) do not use the [rnd] hypotheses at all. *)
From Coq Require Import List Sorted Permutation ZArith QArith Qcanon Qround Lia Lqa.
From SK Require Import Data.Dataset.
Import ListNotations.
Local Open Scope Z_scope.

(* ------------------------------------------------------------------ *)
(** * 0. Qc helpers                                                    *)

Definition inj (z : Z) : Qc := Q2Qc (inject_Z z).

Lemma this_Q2Qc (q : Q) : (this (Q2Qc q) == q)%Q.
Proof. simpl. apply Qred_correct. Qed.
Lemma this_inj (z : Z) : (this (inj z) == inject_Z z)%Q.
Proof. apply this_Q2Qc. Qed.
Lemma this_plus (x y : Qc) : (this (x + y)%Qc == this x + this y)%Q.
Proof. change (this (x + y)%Qc) with (Qred (this x + this y)). apply Qred_correct. Qed.
Lemma this_opp (x : Qc) : (this (- x)%Qc == - this x)%Q.
Proof. change (this (- x)%Qc) with (Qred (- this x)). apply Qred_correct. Qed.
Lemma this_minus (x y : Qc) : (this (x - y)%Qc == this x - this y)%Q.
Proof. unfold Qcminus. rewrite this_plus, this_opp. reflexivity. Qed.

Lemma w0_inj : w0 = inj 0.
Proof. reflexivity. Qed.
Lemma w1_inj : w1 = inj 1.
Proof. reflexivity. Qed.

Lemma inj_le (a b : Z) : a <= b <-> (inj a <= inj b)%Qc.
Proof. unfold Qcle. rewrite !this_inj. rewrite <- Zle_Qle. reflexivity. Qed.
Lemma inj_le_mono (a b : Z) : a <= b -> (inj a <= inj b)%Qc.
Proof. apply inj_le. Qed.
Lemma inj_le_inv (a b : Z) : (inj a <= inj b)%Qc -> a <= b.
Proof. apply inj_le. Qed.
Lemma inj_plus (a b : Z) : (inj a + inj b)%Qc = inj (a + b).
Proof. apply Qc_is_canon. rewrite this_plus, !this_inj. rewrite inject_Z_plus. reflexivity. Qed.
Lemma inj_minus (a b : Z) : (inj a - inj b)%Qc = inj (a - b).
Proof.
  apply Qc_is_canon. rewrite this_minus, !this_inj. unfold Z.sub.
  rewrite inject_Z_plus, inject_Z_opp. reflexivity.
Qed.

Lemma qfloor_inj (z : Z) : qfloor (inj z) = z.
Proof. unfold qfloor. rewrite this_inj. apply Qfloor_Z. Qed.
Lemma qceil_inj (z : Z) : qceil (inj z) = z.
Proof. unfold qceil. rewrite this_inj. apply Qceiling_Z. Qed.
Lemma inj_injective (a b : Z) : inj a = inj b -> a = b.
Proof. intros H. rewrite <- (qfloor_inj a), <- (qfloor_inj b). now rewrite H. Qed.
Lemma qfloor_mono (x y : Qc) : (x <= y)%Qc -> qfloor x <= qfloor y.
Proof. apply Qfloor_resp_le. Qed.
Lemma qceil_mono (x y : Qc) : (x <= y)%Qc -> qceil x <= qceil y.
Proof. apply Qceiling_resp_le. Qed.
Lemma qfloor_le (x : Qc) : (inj (qfloor x) <= x)%Qc.
Proof. unfold Qcle. rewrite this_inj. apply Qfloor_le. Qed.
Lemma qceil_ge (x : Qc) : (x <= inj (qceil x))%Qc.
Proof. unfold Qcle. rewrite this_inj. apply Qle_ceiling. Qed.
Lemma qfloor_le_qceil (x : Qc) : qfloor x <= qceil x.
Proof. apply inj_le_inv. eapply Qcle_trans; [apply qfloor_le | apply qceil_ge]. Qed.
Lemma qceil_le_qfloor_succ (x : Qc) : qceil x <= qfloor x + 1.
Proof.
  unfold qceil, qfloor. rewrite <- (Qceiling_Z (Qfloor (this x) + 1)).
  apply Qceiling_resp_le, Qlt_le_weak, Qlt_floor.
Qed.
Lemma qfloor_lb (z : Z) (x : Qc) : (inj z <= x)%Qc -> z <= qfloor x.
Proof. intros H. rewrite <- (qfloor_inj z). now apply qfloor_mono. Qed.
Lemma qceil_ub (z : Z) (x : Qc) : (x <= inj z)%Qc -> qceil x <= z.
Proof. intros H. rewrite <- (qceil_inj z). now apply qceil_mono. Qed.

Lemma wltb_true (a b : Qc) : wltb a b = true <-> (a < b)%Qc.
Proof.
  unfold wltb. rewrite Qclt_alt. destruct (a ?= b)%Qc; split; intros H; congruence.
Qed.
Lemma wltb_false (a b : Qc) : wltb a b = false <-> (b <= a)%Qc.
Proof.
  split; intros H.
  - apply Qcnot_lt_le. intros Hlt. apply wltb_true in Hlt. congruence.
  - destruct (wltb a b) eqn:E; [|reflexivity]. apply wltb_true in E.
    exfalso. exact (Qcle_not_lt _ _ H E).
Qed.
Lemma weqb_true (a b : Qc) : weqb a b = true <-> a = b.
Proof.
  unfold weqb. rewrite Qceq_alt. destruct (a ?= b)%Qc; split; intros H; congruence.
Qed.

Ltac qcring := match goal with |- context [ds_count ?d] => generalize (ds_count d); unfold W; intro end; ring.

(* sums *)
Definition qsum (l : list Qc) : Qc := fold_right Qcplus w0 l.

Lemma fold_left_Qcplus (l : list Qc) (a : Qc) : fold_left Qcplus l a = (a + qsum l)%Qc.
Proof.
  revert a. induction l as [|x l IH]; intros a; simpl.
  - unfold qsum; simpl. change w0 with 0%Qc. ring.
  - rewrite IH. unfold qsum; simpl. ring.
Qed.
Lemma qsum_perm (l l' : list Qc) : Permutation l l' -> qsum l = qsum l'.
Proof.
  induction 1 as [|x l l' _ IH|x y l|l l' l'' _ IH1 _ IH2]; unfold qsum in *; simpl.
  - reflexivity.
  - now rewrite IH.
  - ring.
  - congruence.
Qed.
Lemma qsum_app (l l' : list Qc) : qsum (l ++ l') = (qsum l + qsum l')%Qc.
Proof.
  induction l as [|x l IH]; unfold qsum in *; simpl.
  - change w0 with 0%Qc. ring.
  - rewrite IH. ring.
Qed.

(* ------------------------------------------------------------------ *)
(** * 1. sorted lists over Qc                                          *)

Lemma Qcle_Transitive : Relations_1.Transitive Qcle.
Proof. intros x y z. apply Qcle_trans. Qed.

Lemma Sorted_SS (l : list Qc) : Sorted Qcle l -> StronglySorted Qcle l.
Proof. apply Sorted_StronglySorted. exact Qcle_Transitive. Qed.

Lemma SS_unique (a : list Qc) : forall b : list Qc,
  StronglySorted Qcle a -> StronglySorted Qcle b -> Permutation a b -> a = b.
Proof.
  induction a as [|x a IH]; intros b Ha Hb P.
  - apply Permutation_nil in P. now subst.
  - destruct b as [|y b].
    { apply Permutation_sym, Permutation_nil in P. discriminate. }
    apply StronglySorted_inv in Ha. destruct Ha as [Ha Fa].
    apply StronglySorted_inv in Hb. destruct Hb as [Hb Fb].
    rewrite Forall_forall in Fa, Fb.
    assert (E : x = y).
    { apply Qcle_antisym.
      - assert (Hin : In y (x :: a))
          by (eapply Permutation_in; [apply Permutation_sym; exact P | left; reflexivity]).
        destruct Hin as [->|Hin]; [apply Qcle_refl | now apply Fa].
      - assert (Hin : In x (y :: b))
          by (eapply Permutation_in; [exact P | left; reflexivity]).
        destruct Hin as [->|Hin]; [apply Qcle_refl | now apply Fb]. }
    subst y. f_equal. apply IH; auto. eapply Permutation_cons_inv; exact P.
Qed.

(** two sorted permutations of the same list are equal (Qcle is antisymmetric) *)
Theorem sorted_perm_unique (a b : list Qc) :
  Sorted Qcle a -> Sorted Qcle b -> Permutation a b -> a = b.
Proof. intros Ha Hb P. apply SS_unique; auto using Sorted_SS. Qed.

Lemma SS_nth_le (l : list Qc) : forall (i j : nat) (a b : Qc),
  StronglySorted Qcle l -> nth_error l i = Some a -> nth_error l j = Some b ->
  (i <= j)%nat -> (a <= b)%Qc.
Proof.
  induction l as [|x l IH]; intros i j a b Hs Hi Hj Hij.
  - destruct i; discriminate.
  - apply StronglySorted_inv in Hs. destruct Hs as [Hs Fx]. rewrite Forall_forall in Fx.
    destruct i as [|i], j as [|j]; simpl in Hi, Hj.
    + injection Hi as <-. injection Hj as <-. apply Qcle_refl.
    + injection Hi as <-. apply Fx. eapply nth_error_In; exact Hj.
    + lia.
    + eapply IH; eauto. lia.
Qed.

(* ------------------------------------------------------------------ *)
(** * 2. the dataset                                                   *)

Definition DInv (d : dataset) : Prop :=
  ds_count d = Q2Qc (inject_Z (Z.of_nat (length (ds_values d)))) /\
  (ds_sorted d = true -> Sorted Qcle (ds_values d)).

(** [d] represents the list (multiset) of added values [xs] *)
Definition Rep (xs : list Qc) (d : dataset) : Prop := DInv d /\ Permutation xs (ds_values d).

Inductive op := OAdd (v : Qc) | OLower (q : option Qc) | OUpper (q : option Qc) | OMin | OMax.

Definition adds1 (o : op) : list Qc := match o with OAdd v => [v] | _ => [] end.
Definition adds (ops : list op) : list Qc := flat_map adds1 ops.
Definition is_query (o : op) : Prop := match o with OAdd _ => False | _ => True end.

Lemma adds_app (a b : list op) : adds (a ++ b) = adds a ++ adds b.
Proof. apply flat_map_app. Qed.
Lemma adds_map_OAdd (l : list Qc) : adds (map OAdd l) = l.
Proof. induction l as [|x l IH]; simpl; [reflexivity | now rewrite IH]. Qed.
Lemma adds_queries (qs : list op) : Forall is_query qs -> adds qs = [].
Proof.
  induction 1 as [|o qs Ho _ IH]; [reflexivity|].
  simpl. rewrite IH. destruct o; simpl in *; tauto.
Qed.

(* facts that do not depend on sort / rnd *)

Lemma DInv_new : DInv d_new.
Proof. split; [reflexivity | discriminate]. Qed.

Lemma DInv_add (d : dataset) (v : Qc) : DInv d -> DInv (d_add d v).
Proof.
  intros [Hc _]. split; [|discriminate]. simpl. rewrite Hc, app_length. simpl.
  change (wadd (inj (Z.of_nat (length (ds_values d)))) (inj 1) =
          inj (Z.of_nat (length (ds_values d) + 1))).
  unfold wadd. rewrite inj_plus. f_equal. lia.
Qed.

Lemma fold_add_values (l : list Qc) : forall d, ds_values (fold_left d_add l d) = ds_values d ++ l.
Proof.
  induction l as [|x l IH]; intros d; simpl.
  - now rewrite app_nil_r.
  - rewrite IH. simpl. now rewrite <- app_assoc.
Qed.
Lemma fold_add_count (l : list Qc) : forall d,
  ds_count (fold_left d_add l d) = (ds_count d + inj (Z.of_nat (length l)))%Qc.
Proof.
  induction l as [|x l IH]; intros d.
  - simpl. change (inj 0) with 0%Qc. qcring.
  - cbn [fold_left length]. rewrite IH. simpl ds_count. unfold wadd. rewrite w1_inj.
    replace (Z.of_nat (S (length l))) with (1 + Z.of_nat (length l)) by lia.
    rewrite <- inj_plus. qcring.
Qed.
Lemma fold_add_sorted (l : list Qc) : forall d,
  ds_sorted (fold_left d_add l d) = match l with [] => ds_sorted d | _ => false end.
Proof.
  induction l as [|x l IH]; intros d; [reflexivity|].
  cbn [fold_left]. rewrite IH. destruct l; reflexivity.
Qed.
Lemma fold_add_DInv (l : list Qc) : forall d, DInv d -> DInv (fold_left d_add l d).
Proof. induction l as [|x l IH]; intros d H; simpl; auto using DInv_add. Qed.

(** ** Merge = adding the values of the argument one by one *)
Theorem merge_values (d o : dataset) : ds_values (d_merge d o) = ds_values d ++ ds_values o.
Proof. apply fold_add_values. Qed.
Theorem merge_count_len (d o : dataset) :
  ds_count (d_merge d o) = (ds_count d + inj (Z.of_nat (length (ds_values o))))%Qc.
Proof. apply fold_add_count. Qed.
Theorem merge_count (d o : dataset) : DInv o -> ds_count (d_merge d o) = (ds_count d + ds_count o)%Qc.
Proof. intros [Hc _]. rewrite merge_count_len. fold (inj (Z.of_nat (length (ds_values o)))) in Hc. now rewrite Hc. Qed.
Theorem merge_sorted_flag (d o : dataset) :
  ds_sorted (d_merge d o) = match ds_values o with [] => ds_sorted d | _ => false end.
Proof. apply fold_add_sorted. Qed.
Theorem DInv_merge (d o : dataset) : DInv d -> DInv (d_merge d o).
Proof. apply fold_add_DInv. Qed.
Theorem merge_empty (d o : dataset) : ds_values o = [] -> d_merge d o = d.
Proof. unfold d_merge. now intros ->. Qed.

Lemma Rep_new : Rep [] d_new.
Proof. split; [exact DInv_new | constructor]. Qed.
Lemma Rep_add (xs : list Qc) (d : dataset) (v : Qc) : Rep xs d -> Rep (xs ++ [v]) (d_add d v).
Proof. intros [Hi Hp]. split; [now apply DInv_add | simpl; now apply Permutation_app_tail]. Qed.
Lemma Rep_merge (xs ys : list Qc) (d o : dataset) :
  Rep xs d -> Permutation ys (ds_values o) -> Rep (xs ++ ys) (d_merge d o).
Proof.
  intros [Hi Hp] Hq. split; [now apply DInv_merge|]. rewrite merge_values. now apply Permutation_app.
Qed.
Lemma Rep_self (d : dataset) : DInv d -> Rep (ds_values d) d.
Proof. intros H. split; [exact H | apply Permutation_refl]. Qed.
Lemma Rep_count (xs : list Qc) (d : dataset) : Rep xs d -> ds_count d = inj (Z.of_nat (length xs)).
Proof. intros [[Hc _] Hp]. rewrite Hc. unfold inj. now rewrite (Permutation_length Hp). Qed.
Lemma Rep_perm (xs ys : list Qc) (d : dataset) : Permutation ys xs -> Rep xs d -> Rep ys d.
Proof. intros P [Hi Hp]. split; [exact Hi | eapply Permutation_trans; eauto]. Qed.
Lemma Rep_sum (xs : list Qc) (d : dataset) : Rep xs d -> d_sum_exact d = qsum xs.
Proof.
  intros [_ Hp]. unfold d_sum_exact. rewrite fold_left_Qcplus. change w0 with 0%Qc.
  rewrite (qsum_perm _ _ Hp). ring.
Qed.

(** Sum is order independent *)
Theorem sum_perm (d d' : dataset) :
  Permutation (ds_values d) (ds_values d') -> d_sum_exact d = d_sum_exact d'.
Proof.
  intros P. unfold d_sum_exact. rewrite !fold_left_Qcplus. now rewrite (qsum_perm _ _ P).
Qed.

(* ------------------------------------------------------------------ *)
Section DatasetProofs.
Variable sort : list Qc -> list Qc.
Variable rnd : Qc -> Qc.
Variable B : Z.
Hypothesis sort_sorted : forall l : list Qc, Sorted Qcle (sort l).
Hypothesis sort_perm : forall l : list Qc, Permutation l (sort l).
Hypothesis rnd_mono : forall x y : Qc, (x <= y)%Qc -> (rnd x <= rnd y)%Qc.
Hypothesis rnd_int : forall z : Z, 0 <= z <= B -> rnd (inj z) = inj z.

(** ** reference (flag-free) semantics: only the list of added values is kept *)
Definition ref_quantile (pick : Qc -> Z) (xs : list Qc) (q : option Qc) : option Qc :=
  match q with
  | None => None
  | Some q =>
    if wltb q w0 || wltb w1 q || Nat.eqb (length xs) 0 then None
    else nth_error (sort xs)
           (Z.to_nat (pick (rnd (q * (inj (Z.of_nat (length xs)) - 1))%Qc)))
  end.
Definition ref_answer (o : op) (xs : list Qc) : list (option Qc) :=
  match o with
  | OAdd _ => []
  | OLower q => [ref_quantile qfloor xs q]
  | OUpper q => [ref_quantile qceil xs q]
  | OMin => [nth_error (sort xs) 0]
  | OMax => [nth_error (sort xs) (length xs - 1)]
  end.
Fixpoint ref_run (ops : list op) (xs : list Qc) : list (option Qc) :=
  match ops with
  | [] => []
  | o :: ops' => ref_answer o xs ++ ref_run ops' (xs ++ adds1 o)
  end.

(** ** the model run on a history *)
Definition step (o : op) (d : dataset) : dataset * list (option Qc) :=
  match o with
  | OAdd v => (d_add d v, [])
  | OLower q => (fst (d_lower sort rnd d q), [snd (d_lower sort rnd d q)])
  | OUpper q => (fst (d_upper sort rnd d q), [snd (d_upper sort rnd d q)])
  | OMin => (fst (d_min sort d), [snd (d_min sort d)])
  | OMax => (fst (d_max sort d), [snd (d_max sort d)])
  end.
Fixpoint run (ops : list op) (d : dataset) : dataset * list (option Qc) :=
  match ops with
  | [] => (d, [])
  | o :: ops' =>
    (fst (run ops' (fst (step o d))), snd (step o d) ++ snd (run ops' (fst (step o d))))
  end.

Lemma run_app (a b : list op) (d : dataset) :
  run (a ++ b) d = (fst (run b (fst (run a d))), snd (run a d) ++ snd (run b (fst (run a d)))).
Proof.
  revert d. induction a as [|o a IH]; intros d; simpl.
  - now destruct (run b d).
  - rewrite IH. simpl. now rewrite app_assoc.
Qed.
Lemma run_adds (l : list Qc) (d : dataset) : run (map OAdd l) d = (fold_left d_add l d, []).
Proof. revert d. induction l as [|x l IH]; intros d; simpl; [reflexivity | now rewrite IH]. Qed.
(** merging is the derived form "add every value of [o]" *)
Lemma run_merge (d o : dataset) : run (map OAdd (ds_values o)) d = (d_merge d o, []).
Proof. apply run_adds. Qed.

(** ** sorting *)
Lemma sort_length (l : list Qc) : length (sort l) = length l.
Proof. symmetry. apply Permutation_length, sort_perm. Qed.

Lemma sort_of_perm (xs ys : list Qc) : Permutation xs ys -> sort xs = sort ys.
Proof.
  intros P. apply sorted_perm_unique; auto.
  eapply Permutation_trans; [apply Permutation_sym, sort_perm|].
  eapply Permutation_trans; [exact P | apply sort_perm].
Qed.
Lemma sort_of_sorted_perm (xs l : list Qc) : Sorted Qcle l -> Permutation xs l -> l = sort xs.
Proof.
  intros Hs P. apply sorted_perm_unique; auto.
  eapply Permutation_trans; [apply Permutation_sym; exact P | apply sort_perm].
Qed.

Lemma d_sort_spec (xs : list Qc) (d : dataset) : Rep xs d ->
  ds_values (d_sort sort d) = sort xs /\ ds_count (d_sort sort d) = ds_count d /\
  ds_sorted (d_sort sort d) = true.
Proof.
  intros [[Hc Hs] Hp]. unfold d_sort. destruct (ds_sorted d) eqn:E; simpl.
  - repeat split; auto. apply sort_of_sorted_perm; auto.
  - repeat split; auto. symmetry. now apply sort_of_perm.
Qed.
Lemma d_sort_Rep (xs : list Qc) (d : dataset) : Rep xs d -> Rep xs (d_sort sort d).
Proof.
  intros HR. destruct (d_sort_spec xs d HR) as (Hv & Hc & Hf).
  split; [split|].
  - rewrite Hc, Hv, sort_length. apply (Rep_count xs d HR).
  - intros _. rewrite Hv. apply sort_sorted.
  - rewrite Hv. apply sort_perm.
Qed.

Lemma count_zero_test (xs : list Qc) (d : dataset) : Rep xs d ->
  weqb (ds_count d) w0 = Nat.eqb (length xs) 0.
Proof.
  intros HR. rewrite (Rep_count xs d HR). destruct (length xs) as [|n]; simpl Nat.eqb.
  - now apply weqb_true.
  - destruct (weqb (inj (Z.of_nat (S n))) w0) eqn:E; [|reflexivity].
    apply weqb_true in E. rewrite w0_inj in E. apply inj_injective in E. lia.
Qed.

(** ** every query refines the reference answer and keeps the representation *)
Lemma quantile_spec (pick : Qc -> Z) (xs : list Qc) (d : dataset) (q : option Qc) : Rep xs d ->
  snd (d_quantile_at sort rnd pick d q) = ref_quantile pick xs q /\
  Rep xs (fst (d_quantile_at sort rnd pick d q)).
Proof.
  intros HR. destruct q as [q|]; [|split; [reflexivity | exact HR]].
  unfold d_quantile_at, ref_quantile. rewrite (count_zero_test xs d HR).
  destruct (wltb q w0 || wltb w1 q || Nat.eqb (length xs) 0); [split; [reflexivity | exact HR]|].
  destruct (d_sort_spec xs d HR) as (Hv & Hc & _). cbn [fst snd]. split.
  - rewrite Hv, Hc, (Rep_count xs d HR). reflexivity.
  - now apply d_sort_Rep.
Qed.
Lemma min_spec (xs : list Qc) (d : dataset) : Rep xs d ->
  snd (d_min sort d) = nth_error (sort xs) 0 /\ Rep xs (fst (d_min sort d)).
Proof.
  intros HR. destruct (d_sort_spec xs d HR) as (Hv & _). unfold d_min; cbn [fst snd].
  rewrite Hv. split; [reflexivity | now apply d_sort_Rep].
Qed.
Lemma max_spec (xs : list Qc) (d : dataset) : Rep xs d ->
  snd (d_max sort d) = nth_error (sort xs) (length xs - 1) /\ Rep xs (fst (d_max sort d)).
Proof.
  intros HR. destruct (d_sort_spec xs d HR) as (Hv & _). unfold d_max; cbn [fst snd].
  rewrite Hv, sort_length. split; [reflexivity | now apply d_sort_Rep].
Qed.

Theorem step_spec (o : op) (xs : list Qc) (d : dataset) : Rep xs d ->
  snd (step o d) = ref_answer o xs /\ Rep (xs ++ adds1 o) (fst (step o d)).
Proof.
  intros HR. destruct o as [v|q|q| |]; cbn [step ref_answer adds1 fst snd];
    rewrite ?app_nil_r.
  - split; [reflexivity | now apply Rep_add].
  - destruct (quantile_spec qfloor xs d q HR) as [Ha Hr]. unfold d_lower. now rewrite Ha.
  - destruct (quantile_spec qceil xs d q HR) as [Ha Hr]. unfold d_upper. now rewrite Ha.
  - destruct (min_spec xs d HR) as [Ha Hr]. now rewrite Ha.
  - destruct (max_spec xs d HR) as [Ha Hr]. now rewrite Ha.
Qed.

Theorem run_spec (ops : list op) : forall (xs : list Qc) (d : dataset), Rep xs d ->
  snd (run ops d) = ref_run ops xs /\ Rep (xs ++ adds ops) (fst (run ops d)).
Proof.
  induction ops as [|o ops IH]; intros xs d HR.
  - simpl. rewrite app_nil_r. split; [reflexivity | exact HR].
  - destruct (step_spec o xs d HR) as [Ha Hr].
    destruct (IH _ _ Hr) as [Ha' Hr']. cbn [run ref_run fst snd].
    rewrite Ha, Ha'. split; [reflexivity|].
    change (adds (o :: ops)) with (adds1 o ++ adds ops). now rewrite app_assoc.
Qed.

(** ** 1. invariant *)
Theorem DInv_query_lower (d : dataset) (q : option Qc) : DInv d ->
  DInv (fst (d_lower sort rnd d q)) /\ Permutation (ds_values d) (ds_values (fst (d_lower sort rnd d q))).
Proof. intros H. exact (proj2 (quantile_spec qfloor _ d q (Rep_self d H))). Qed.
Theorem DInv_query_upper (d : dataset) (q : option Qc) : DInv d ->
  DInv (fst (d_upper sort rnd d q)) /\ Permutation (ds_values d) (ds_values (fst (d_upper sort rnd d q))).
Proof. intros H. exact (proj2 (quantile_spec qceil _ d q (Rep_self d H))). Qed.
Theorem DInv_query_min (d : dataset) : DInv d ->
  DInv (fst (d_min sort d)) /\ Permutation (ds_values d) (ds_values (fst (d_min sort d))).
Proof. intros H. exact (proj2 (min_spec _ d (Rep_self d H))). Qed.
Theorem DInv_query_max (d : dataset) : DInv d ->
  DInv (fst (d_max sort d)) /\ Permutation (ds_values d) (ds_values (fst (d_max sort d))).
Proof. intros H. exact (proj2 (max_spec _ d (Rep_self d H))). Qed.

(** the invariant on every reachable state, with the multiset and the count *)
Theorem reachable_inv (ops : list op) :
  let d := fst (run ops d_new) in
  DInv d /\ Permutation (adds ops) (ds_values d) /\
  ds_count d = Q2Qc (inject_Z (Z.of_nat (length (adds ops)))).
Proof.
  destruct (run_spec ops [] d_new Rep_new) as [_ HR]. simpl in HR. cbv zeta.
  split; [apply HR | split; [apply HR | apply (Rep_count _ _ HR)]].
Qed.

(** all the answers of a history are those of the reference semantics *)
Theorem run_refines_ref (ops : list op) : snd (run ops d_new) = ref_run ops [].
Proof. exact (proj1 (run_spec ops [] d_new Rep_new)). Qed.

(** the answer of the last operation of a history *)
Theorem last_answer (pre : list op) (o : op) :
  snd (run (pre ++ [o]) d_new) = snd (run pre d_new) ++ ref_answer o (adds pre).
Proof.
  rewrite run_app. cbn [snd]. f_equal.
  destruct (run_spec pre [] d_new Rep_new) as [_ HR]. simpl in HR.
  cbn [run fst snd]. rewrite app_nil_r. exact (proj1 (step_spec o _ _ HR)).
Qed.

(** ** numeric part: the rounded rank stays in [0, n-1] *)
Lemma rank_range (q : Qc) (n : nat) : (0 <= q)%Qc -> (q <= 1)%Qc -> (1 <= n)%nat ->
  (inj 0 <= q * (inj (Z.of_nat n) - 1))%Qc /\ (q * (inj (Z.of_nat n) - 1) <= inj (Z.of_nat n - 1))%Qc.
Proof.
  intros H0 H1 Hn. change 1%Qc with (inj 1). rewrite inj_minus.
  assert (Hm : (0 <= inj (Z.of_nat n - 1))%Qc) by (change 0%Qc with (inj 0); apply inj_le_mono; lia).
  set (m := inj (Z.of_nat n - 1)) in *. split.
  - change (inj 0) with 0%Qc. replace 0%Qc with (0 * m)%Qc by ring.
    now apply Qcmult_le_compat_r.
  - replace m with (1 * m)%Qc at 2 by ring. now apply Qcmult_le_compat_r.
Qed.

Lemma rnd_range (r : Qc) (m : Z) : m <= B -> (inj 0 <= r)%Qc -> (r <= inj m)%Qc ->
  (inj 0 <= rnd r)%Qc /\ (rnd r <= inj m)%Qc.
Proof.
  intros HB H0 H1.
  assert (0 <= m) by (apply inj_le_inv; eapply Qcle_trans; eauto).
  split.
  - rewrite <- (rnd_int 0) by lia. now apply rnd_mono.
  - rewrite <- (rnd_int m) by lia. now apply rnd_mono.
Qed.

Lemma pick_range (q : Qc) (n : nat) :
  (0 <= q)%Qc -> (q <= 1)%Qc -> (1 <= n)%nat -> Z.of_nat n - 1 <= B ->
  let rho := rnd (q * (inj (Z.of_nat n) - 1))%Qc in
  0 <= qfloor rho /\ qfloor rho <= qceil rho /\ qceil rho <= Z.of_nat n - 1.
Proof.
  intros H0 H1 Hn HB rho.
  destruct (rank_range q n H0 H1 Hn) as [Ha Hb].
  destruct (rnd_range _ _ HB Ha Hb) as [Hc Hd]. fold rho in Hc, Hd.
  split; [now apply qfloor_lb | split; [apply qfloor_le_qceil | now apply qceil_ub]].
Qed.

(** ** 3. floor/ceiling of the rounded rank are bracketed by those of the exact rank *)
Theorem rank_between_floor_ceil (r : Qc) : 0 <= qfloor r -> qceil r <= B ->
  qfloor r <= qfloor (rnd r) /\ qfloor (rnd r) <= qceil (rnd r) /\ qceil (rnd r) <= qceil r /\
  qceil r <= qfloor r + 1.
Proof.
  intros H0 HB. pose proof (qfloor_le_qceil r) as Hfc.
  split; [|split; [apply qfloor_le_qceil | split; [|apply qceil_le_qfloor_succ]]].
  - apply qfloor_lb. rewrite <- (rnd_int (qfloor r)) by lia. apply rnd_mono, qfloor_le.
  - apply qceil_ub. rewrite <- (rnd_int (qceil r)) by lia. apply rnd_mono, qceil_ge.
Qed.

Theorem rank_exact_integer (k : Z) : 0 <= k <= B ->
  qfloor (rnd (inj k)) = k /\ qceil (rnd (inj k)) = k.
Proof. intros Hk. rewrite (rnd_int k Hk). split; [apply qfloor_inj | apply qceil_inj]. Qed.

(** the exact rank of a valid query on n >= 1 values *)
Lemma exact_rank_range (q : Qc) (n : nat) : (0 <= q)%Qc -> (q <= 1)%Qc -> (1 <= n)%nat ->
  let r := (q * (inj (Z.of_nat n) - 1))%Qc in 0 <= qfloor r /\ qceil r <= Z.of_nat n - 1.
Proof.
  intros H0 H1 Hn r. destruct (rank_range q n H0 H1 Hn) as [Ha Hb]. fold r in Ha, Hb.
  split; [now apply qfloor_lb | now apply qceil_ub].
Qed.

(** ** 2. valid quantile queries are order statistics, never out of range *)
Lemma ref_quantile_valid (pick : Qc -> Z) (xs : list Qc) (q : Qc) :
  (0 <= q)%Qc -> (q <= 1)%Qc -> xs <> [] ->
  ref_quantile pick xs (Some q) =
  nth_error (sort xs) (Z.to_nat (pick (rnd (q * (inj (Z.of_nat (length xs)) - 1))%Qc))).
Proof.
  intros H0 H1 Hne. unfold ref_quantile.
  replace (wltb q w0) with false by (symmetry; now apply wltb_false).
  replace (wltb w1 q) with false by (symmetry; now apply wltb_false).
  destruct xs; [congruence | reflexivity].
Qed.

Lemma nth_error_in_range (l : list Qc) (k : Z) : 0 <= k <= Z.of_nat (length l) - 1 ->
  exists v, nth_error l (Z.to_nat k) = Some v.
Proof.
  intros Hk. destruct (nth_error l (Z.to_nat k)) eqn:E; [eauto|].
  apply nth_error_None in E. lia.
Qed.

Theorem lower_is_order_statistic (pre : list op) (q : Qc) :
  let xs := adds pre in
  let k := Z.to_nat (qfloor (rnd (q * (inj (Z.of_nat (length xs)) - 1))%Qc)) in
  xs <> [] -> (0 <= q)%Qc -> (q <= 1)%Qc -> Z.of_nat (length xs) - 1 <= B ->
  snd (run (pre ++ [OLower (Some q)]) d_new) = snd (run pre d_new) ++ [nth_error (sort xs) k] /\
  (k < length xs)%nat /\ exists v, nth_error (sort xs) k = Some v.
Proof.
  intros xs k Hne H0 H1 HB.
  assert (Hn : (1 <= length xs)%nat) by (destruct xs; [congruence | simpl; lia]).
  destruct (pick_range q (length xs) H0 H1 Hn HB) as (Ha & Hb & Hc).
  split; [|split].
  - rewrite last_answer. cbn [ref_answer]. fold xs. now rewrite ref_quantile_valid.
  - unfold k. lia.
  - apply nth_error_in_range. rewrite sort_length. lia.
Qed.

Theorem upper_is_order_statistic (pre : list op) (q : Qc) :
  let xs := adds pre in
  let k := Z.to_nat (qceil (rnd (q * (inj (Z.of_nat (length xs)) - 1))%Qc)) in
  xs <> [] -> (0 <= q)%Qc -> (q <= 1)%Qc -> Z.of_nat (length xs) - 1 <= B ->
  snd (run (pre ++ [OUpper (Some q)]) d_new) = snd (run pre d_new) ++ [nth_error (sort xs) k] /\
  (k < length xs)%nat /\ exists v, nth_error (sort xs) k = Some v.
Proof.
  intros xs k Hne H0 H1 HB.
  assert (Hn : (1 <= length xs)%nat) by (destruct xs; [congruence | simpl; lia]).
  destruct (pick_range q (length xs) H0 H1 Hn HB) as (Ha & Hb & Hc).
  split; [|split].
  - rewrite last_answer. cbn [ref_answer]. fold xs. now rewrite ref_quantile_valid.
  - unfold k. lia.
  - apply nth_error_in_range. rewrite sort_length. lia.
Qed.

(** the same for any sorted permutation [s] of the added values (no mention of [sort]) *)
Theorem queries_are_order_statistics (pre : list op) (q : Qc) (s : list Qc) :
  let xs := adds pre in
  let rho := rnd (q * (inj (Z.of_nat (length xs)) - 1))%Qc in
  Sorted Qcle s -> Permutation xs s ->
  xs <> [] -> (0 <= q)%Qc -> (q <= 1)%Qc -> Z.of_nat (length xs) - 1 <= B ->
  (exists v, nth_error s (Z.to_nat (qfloor rho)) = Some v /\
     snd (run (pre ++ [OLower (Some q)]) d_new) = snd (run pre d_new) ++ [Some v]) /\
  (exists v, nth_error s (Z.to_nat (qceil rho)) = Some v /\
     snd (run (pre ++ [OUpper (Some q)]) d_new) = snd (run pre d_new) ++ [Some v]).
Proof.
  intros xs rho Hs Hp Hne H0 H1 HB.
  rewrite (sort_of_sorted_perm xs s Hs Hp).
  destruct (lower_is_order_statistic pre q Hne H0 H1 HB) as (El & _ & vl & Hl).
  destruct (upper_is_order_statistic pre q Hne H0 H1 HB) as (Eu & _ & vu & Hu).
  fold xs in El, Eu, Hl, Hu. fold rho in El, Eu, Hl, Hu.
  split; [exists vl | exists vu]; (split; [assumption|]); [rewrite El, Hl | rewrite Eu, Hu]; reflexivity.
Qed.

(** ** 3 (continued): the position is within [floor r, ceil r] of the exact rank r *)
Theorem quantile_position_bracket (xs : list Qc) (q : Qc) :
  let r := (q * (inj (Z.of_nat (length xs)) - 1))%Qc in
  xs <> [] -> (0 <= q)%Qc -> (q <= 1)%Qc -> Z.of_nat (length xs) - 1 <= B ->
  0 <= qfloor r /\ qfloor r <= qfloor (rnd r) /\ qfloor (rnd r) <= qceil (rnd r) /\
  qceil (rnd r) <= qceil r /\ qceil r <= qfloor r + 1 /\ qceil r <= Z.of_nat (length xs) - 1.
Proof.
  intros r Hne H0 H1 HB.
  assert (Hn : (1 <= length xs)%nat) by (destruct xs; [congruence | simpl; lia]).
  destruct (exact_rank_range q (length xs) H0 H1 Hn) as [Ha Hb]. fold r in Ha, Hb.
  destruct (rank_between_floor_ceil r Ha ltac:(lia)) as (Hc & Hd & He & Hf).
  repeat split; assumption.
Qed.

(** when the exact rank is the integer k, both quantiles are the k-th order statistic *)
Theorem quantile_exact_rank (pre : list op) (q : Qc) (k : nat) :
  let xs := adds pre in
  xs <> [] -> (0 <= q)%Qc -> (q <= 1)%Qc -> Z.of_nat (length xs) - 1 <= B ->
  (q * (inj (Z.of_nat (length xs)) - 1))%Qc = inj (Z.of_nat k) ->
  (exists v, nth_error (sort xs) k = Some v) /\
  snd (run (pre ++ [OLower (Some q)]) d_new) = snd (run pre d_new) ++ [nth_error (sort xs) k] /\
  snd (run (pre ++ [OUpper (Some q)]) d_new) = snd (run pre d_new) ++ [nth_error (sort xs) k].
Proof.
  intros xs Hne H0 H1 HB Hr.
  assert (Hn : (1 <= length xs)%nat) by (destruct xs; [congruence | simpl; lia]).
  destruct (exact_rank_range q (length xs) H0 H1 Hn) as [_ Hb]. rewrite Hr, qceil_inj in Hb.
  destruct (rank_exact_integer (Z.of_nat k) ltac:(lia)) as [Ef Ec].
  destruct (lower_is_order_statistic pre q Hne H0 H1 HB) as (El & _ & vl & Hl).
  destruct (upper_is_order_statistic pre q Hne H0 H1 HB) as (Eu & _ & _).
  fold xs in El, Eu, Hl. rewrite Hr in El, Eu, Hl. rewrite Ef in El, Hl. rewrite Ec in Eu.
  rewrite Nat2Z.id in El, Eu, Hl. eauto.
Qed.

(** ** 4. NaN cases *)
Theorem quantile_none_iff (pick : Qc -> Z) (d : dataset) (q : option Qc) :
  pick = qfloor \/ pick = qceil -> DInv d -> Z.of_nat (length (ds_values d)) - 1 <= B ->
  (snd (d_quantile_at sort rnd pick d q) = None <->
   q = None \/ exists q', q = Some q' /\ ((q' < 0)%Qc \/ (1 < q')%Qc \/ ds_values d = [])).
Proof.
  intros Hpick Hi HB. destruct (quantile_spec pick _ d q (Rep_self d Hi)) as [Ha _].
  rewrite Ha. clear Ha. destruct q as [q|]; [|split; [now left | reflexivity]].
  cbn [ref_quantile].
  destruct (wltb q w0) eqn:E0; [apply wltb_true in E0|apply wltb_false in E0].
  { split; [intros _; right; exists q; tauto | reflexivity]. }
  destruct (wltb w1 q) eqn:E1; [apply wltb_true in E1|apply wltb_false in E1].
  { split; [intros _; right; exists q; tauto | reflexivity]. }
  destruct (Nat.eqb (length (ds_values d)) 0) eqn:Ev.
  { apply Nat.eqb_eq, length_zero_iff_nil in Ev.
    split; [intros _; right; exists q; tauto | reflexivity]. }
  apply Nat.eqb_neq in Ev. cbn [orb].
  assert (Hn : (1 <= length (ds_values d))%nat) by lia.
  destruct (pick_range q _ E0 E1 Hn HB) as (Hp0 & Hp1 & Hp2).
  split.
  - intros Hnone. exfalso. apply nth_error_None in Hnone. rewrite sort_length in Hnone.
    destruct Hpick as [-> | ->]; lia.
  - intros [Hq | (q' & Hq & [Hlt | [Hlt | Hnil]])]; try discriminate.
    + injection Hq as <-. exfalso. exact (Qcle_not_lt _ _ E0 Hlt).
    + injection Hq as <-. exfalso. exact (Qcle_not_lt _ _ E1 Hlt).
    + rewrite Hnil in Ev. simpl in Ev. congruence.
Qed.

(** ** 5. Min / Max / Count / Sum *)
Lemma sorted_min (xs : list Qc) : xs <> [] ->
  exists m, nth_error (sort xs) 0 = Some m /\ In m xs /\ forall x, In x xs -> (m <= x)%Qc.
Proof.
  intros Hne. pose proof (sort_length xs) as Hl.
  destruct (sort xs) as [|m s] eqn:Es.
  { destruct xs; [congruence | discriminate]. }
  exists m. split; [reflexivity|]. pose proof (Sorted_SS _ (sort_sorted xs)) as Hs.
  split.
  - eapply Permutation_in; [apply Permutation_sym, sort_perm|]. rewrite Es. now left.
  - intros x Hx. apply (Permutation_in _ (sort_perm xs)) in Hx.
    destruct (In_nth_error _ _ Hx) as [i Hi].
    eapply (SS_nth_le (sort xs) 0 i); eauto; [rewrite Es; reflexivity | lia].
Qed.
Lemma sorted_max (xs : list Qc) : xs <> [] ->
  exists M, nth_error (sort xs) (length xs - 1) = Some M /\ In M xs /\
            forall x, In x xs -> (x <= M)%Qc.
Proof.
  intros Hne. pose proof (sort_length xs) as Hl.
  assert (Hn : (1 <= length xs)%nat) by (destruct xs; [congruence | simpl; lia]).
  destruct (nth_error (sort xs) (length xs - 1)) as [M|] eqn:EM.
  2:{ apply nth_error_None in EM. lia. }
  exists M. split; [reflexivity|]. pose proof (Sorted_SS _ (sort_sorted xs)) as Hs.
  split.
  - eapply Permutation_in; [apply Permutation_sym, sort_perm|]. eapply nth_error_In; eauto.
  - intros x Hx. apply (Permutation_in _ (sort_perm xs)) in Hx.
    destruct (In_nth_error _ _ Hx) as [i Hi].
    assert (i < length (sort xs))%nat by (apply nth_error_Some; congruence).
    eapply (SS_nth_le (sort xs) i (length xs - 1)); eauto. lia.
Qed.

Theorem min_is_least (pre : list op) : adds pre <> [] ->
  exists m, snd (run (pre ++ [OMin]) d_new) = snd (run pre d_new) ++ [Some m] /\
            In m (adds pre) /\ forall x, In x (adds pre) -> (m <= x)%Qc.
Proof.
  intros Hne. destruct (sorted_min _ Hne) as (m & Hm & Hin & Hle).
  exists m. rewrite last_answer. cbn [ref_answer]. rewrite Hm. auto.
Qed.
Theorem max_is_greatest (pre : list op) : adds pre <> [] ->
  exists M, snd (run (pre ++ [OMax]) d_new) = snd (run pre d_new) ++ [Some M] /\
            In M (adds pre) /\ forall x, In x (adds pre) -> (x <= M)%Qc.
Proof.
  intros Hne. destruct (sorted_max _ Hne) as (M & HM & Hin & Hle).
  exists M. rewrite last_answer. cbn [ref_answer]. rewrite HM. auto.
Qed.
(** Min / Max of the empty dataset: index out of range (the Go code panics) *)
Theorem min_max_empty (pre : list op) : adds pre = [] ->
  snd (run (pre ++ [OMin]) d_new) = snd (run pre d_new) ++ [None] /\
  snd (run (pre ++ [OMax]) d_new) = snd (run pre d_new) ++ [None].
Proof.
  intros He. rewrite !last_answer. cbn [ref_answer]. rewrite He.
  pose proof (sort_length []) as Hl. destruct (sort []); [|discriminate]. split; reflexivity.
Qed.
(** state-level versions *)
Theorem d_min_least (d : dataset) : DInv d -> ds_values d <> [] ->
  exists m, snd (d_min sort d) = Some m /\ In m (ds_values d) /\
            forall x, In x (ds_values d) -> (m <= x)%Qc.
Proof.
  intros Hi Hne. destruct (sorted_min _ Hne) as (m & Hm & Hin & Hle).
  exists m. rewrite (proj1 (min_spec _ d (Rep_self d Hi))). auto.
Qed.
Theorem d_max_greatest (d : dataset) : DInv d -> ds_values d <> [] ->
  exists M, snd (d_max sort d) = Some M /\ In M (ds_values d) /\
            forall x, In x (ds_values d) -> (x <= M)%Qc.
Proof.
  intros Hi Hne. destruct (sorted_max _ Hne) as (M & HM & Hin & Hle).
  exists M. rewrite (proj1 (max_spec _ d (Rep_self d Hi))). auto.
Qed.

Theorem count_and_sum (ops : list op) :
  ds_count (fst (run ops d_new)) = Q2Qc (inject_Z (Z.of_nat (length (adds ops)))) /\
  d_sum_exact (fst (run ops d_new)) = qsum (adds ops).
Proof.
  destruct (run_spec ops [] d_new Rep_new) as [_ HR]. simpl in HR.
  split; [apply (Rep_count _ _ HR) | apply (Rep_sum _ _ HR)].
Qed.
(** queries (and any operations that add nothing) leave Count and Sum unchanged *)
Theorem queries_keep_count_sum (ops : list op) (d : dataset) :
  DInv d -> adds ops = [] ->
  ds_count (fst (run ops d)) = ds_count d /\ d_sum_exact (fst (run ops d)) = d_sum_exact d /\
  Permutation (ds_values d) (ds_values (fst (run ops d))).
Proof.
  intros Hi Ha. pose proof (Rep_self d Hi) as HR.
  destruct (run_spec ops _ d HR) as [_ HR']. rewrite Ha, app_nil_r in HR'.
  rewrite (Rep_count _ _ HR), (Rep_count _ _ HR'), (Rep_sum _ _ HR), (Rep_sum _ _ HR').
  repeat split; auto. apply HR'.
Qed.

(** ** 7. answers depend only on the multiset of the values added so far *)
Lemma ref_quantile_perm (pick : Qc -> Z) (xs ys : list Qc) (q : option Qc) :
  Permutation xs ys -> ref_quantile pick xs q = ref_quantile pick ys q.
Proof.
  intros P. unfold ref_quantile. now rewrite (sort_of_perm xs ys P), (Permutation_length P).
Qed.
Lemma ref_answer_perm (o : op) (xs ys : list Qc) :
  Permutation xs ys -> ref_answer o xs = ref_answer o ys.
Proof.
  intros P. destruct o; cbn [ref_answer];
    rewrite ?(ref_quantile_perm _ xs ys _ P), ?(sort_of_perm xs ys P), ?(Permutation_length P);
    reflexivity.
Qed.
Lemma ref_run_perm (ops : list op) : forall xs ys : list Qc,
  Permutation xs ys -> ref_run ops xs = ref_run ops ys.
Proof.
  induction ops as [|o ops IH]; intros xs ys P; [reflexivity|].
  cbn [ref_run]. rewrite (ref_answer_perm o xs ys P). f_equal.
  apply IH. now apply Permutation_app_tail.
Qed.

(** general form: two histories that added the same multiset answer every continuation alike *)
Theorem answers_depend_on_multiset (ops1 ops2 ops : list op) :
  Permutation (adds ops1) (adds ops2) ->
  snd (run ops (fst (run ops1 d_new))) = snd (run ops (fst (run ops2 d_new))).
Proof.
  intros P.
  destruct (run_spec ops1 [] d_new Rep_new) as [_ H1]. simpl in H1.
  destruct (run_spec ops2 [] d_new Rep_new) as [_ H2]. simpl in H2.
  rewrite (proj1 (run_spec ops _ _ H1)), (proj1 (run_spec ops _ _ H2)).
  now apply ref_run_perm.
Qed.

Theorem order_independent (xs ys : list Qc) (o : op) :
  Permutation xs ys ->
  snd (run (map OAdd xs ++ [o]) d_new) = snd (run (map OAdd ys ++ [o]) d_new).
Proof.
  intros P. rewrite !last_answer, !adds_map_OAdd, !run_adds. cbn [snd app].
  now apply ref_answer_perm.
Qed.

(** inserting queries anywhere in the past changes no later answer ([ops] = what is asked next) *)
Theorem queries_transparent (a qs b ops : list op) :
  Forall is_query qs ->
  snd (run ops (fst (run (a ++ qs ++ b) d_new))) = snd (run ops (fst (run (a ++ b) d_new))).
Proof.
  intros Hq. apply answers_depend_on_multiset.
  rewrite !adds_app, (adds_queries qs Hq). apply Permutation_refl.
Qed.

(** ** 6. after a merge every query answers as if all values were added to one dataset *)
Theorem merge_then_queries_state (xs ys : list Qc) (d o : dataset) (ops : list op) :
  Rep xs d -> Rep ys o -> snd (run ops (d_merge d o)) = ref_run ops (xs ++ ys).
Proof.
  intros Hd [_ Ho]. exact (proj1 (run_spec ops _ _ (Rep_merge xs ys d o Hd Ho))).
Qed.
Theorem merge_then_queries (ops1 ops2 ops : list op) :
  let d := fst (run ops1 d_new) in
  let o := fst (run ops2 d_new) in
  snd (run ops (d_merge d o)) =
  snd (run ops (fst (run (map OAdd (adds ops1 ++ adds ops2)) d_new))).
Proof.
  cbv zeta.
  destruct (run_spec ops1 [] d_new Rep_new) as [_ H1]. simpl in H1.
  destruct (run_spec ops2 [] d_new Rep_new) as [_ H2]. simpl in H2.
  rewrite (merge_then_queries_state _ _ _ _ ops H1 H2).
  destruct (run_spec (map OAdd (adds ops1 ++ adds ops2)) [] d_new Rep_new) as [_ H3].
  simpl in H3. rewrite adds_map_OAdd in H3.
  symmetry. exact (proj1 (run_spec ops _ _ H3)).
Qed.
(** self-merge doubles every value *)
Theorem self_merge (xs : list Qc) (d : dataset) : Rep xs d -> Rep (xs ++ xs) (d_merge d d).
Proof. intros H. apply Rep_merge; [exact H | apply H]. Qed.

End DatasetProofs.

(* ------------------------------------------------------------------ *)
(** * corollaries when [rnd] fixes every non-negative integer (no bound on the length) *)
Section AllIntegers.
Variable sort : list Qc -> list Qc.
Variable rnd : Qc -> Qc.
Hypothesis sort_sorted : forall l : list Qc, Sorted Qcle (sort l).
Hypothesis sort_perm : forall l : list Qc, Permutation l (sort l).
Hypothesis rnd_mono : forall x y : Qc, (x <= y)%Qc -> (rnd x <= rnd y)%Qc.
Hypothesis rnd_int_all : forall z : Z, 0 <= z -> rnd (inj z) = inj z.

Theorem queries_are_order_statistics_allint (pre : list op) (q : Qc) (s : list Qc) :
  let xs := adds pre in
  let rho := rnd (q * (inj (Z.of_nat (length xs)) - 1))%Qc in
  Sorted Qcle s -> Permutation xs s -> xs <> [] -> (0 <= q)%Qc -> (q <= 1)%Qc ->
  (exists v, nth_error s (Z.to_nat (qfloor rho)) = Some v /\
     snd (run sort rnd (pre ++ [OLower (Some q)]) d_new) = snd (run sort rnd pre d_new) ++ [Some v]) /\
  (exists v, nth_error s (Z.to_nat (qceil rho)) = Some v /\
     snd (run sort rnd (pre ++ [OUpper (Some q)]) d_new) = snd (run sort rnd pre d_new) ++ [Some v]).
Proof.
  intros xs rho Hs Hp Hne H0 H1.
  apply (queries_are_order_statistics sort rnd (Z.of_nat (length xs) - 1)); auto.
  - intros z Hz. apply rnd_int_all. lia.
  - fold xs. lia.
Qed.

Theorem quantile_position_bracket_allint (xs : list Qc) (q : Qc) :
  let r := (q * (inj (Z.of_nat (length xs)) - 1))%Qc in
  xs <> [] -> (0 <= q)%Qc -> (q <= 1)%Qc ->
  0 <= qfloor r /\ qfloor r <= qfloor (rnd r) /\ qfloor (rnd r) <= qceil (rnd r) /\
  qceil (rnd r) <= qceil r /\ qceil r <= qfloor r + 1 /\ qceil r <= Z.of_nat (length xs) - 1.
Proof.
  intros r Hne H0 H1.
  apply (quantile_position_bracket rnd (Z.of_nat (length xs) - 1)); auto.
  - intros z Hz. apply rnd_int_all. lia.
  - lia.
Qed.

Theorem quantile_none_iff_allint (pick : Qc -> Z) (d : dataset) (q : option Qc) :
  pick = qfloor \/ pick = qceil -> DInv d ->
  (snd (d_quantile_at sort rnd pick d q) = None <->
   q = None \/ exists q', q = Some q' /\ ((q' < 0)%Qc \/ (1 < q')%Qc \/ ds_values d = [])).
Proof.
  intros Hp Hi.
  apply (quantile_none_iff sort rnd (Z.of_nat (length (ds_values d)) - 1)); auto.
  - intros z Hz. apply rnd_int_all. lia.
  - lia.
Qed.
End AllIntegers.
