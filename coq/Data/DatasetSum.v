(* dataset/dataset.go  Sum():
     summaryStatistics := stat.NewSummaryStatistics()
     for _, v := range d.Values { summaryStatistics.Add(v, 1) }
     return summaryStatistics.Sum()
   transcribed on the binary64 instance of Stat/Summary.v (the one that runs bit for bit against the code), and
   the float error of the answer derived from the proved bound on the compensated sum (Stat/KahanProofs.v).
   The dataset model keeps its values as exact rationals of finite floats; [q2f] gives the float back. *)
From Coq Require Import Bool ZArith QArith Qcanon Reals List Lia Lra.
From Flocq Require Import Core.Core IEEE754.BinarySingleNaN IEEE754.Binary IEEE754.Bits.
From SK Require Import Base.Prelude Base.F64 Base.F64Proofs Stat.Summary Stat.KahanProofs Data.Dataset.
Import ListNotations.

Definition d_sum_f64 (vals : list f64) : f64 :=
  su_get_sum (fold_left (fun t v => su_add t v f64_one) vals su_new).
Definition xd_sum (d : dataset) : f64 := d_sum_f64 (map q2f (ds_values d)).

Local Open Scope R_scope.

Lemma val_f64_one : val f64_one = 1.
Proof. unfold f64_one. vm_compute. lra. Qed.
Lemma finite_f64_one : finite f64_one.
Proof. reflexivity. Qed.

Definition with_one (vals : list f64) : list (f64 * f64) := map (fun v => (v, f64_one)) vals.

Lemma d_sum_f64_as_add_list (vals : list f64) :
  d_sum_f64 vals = su_get_sum (su_add_list su_new (with_one vals)).
Proof.
  unfold d_sum_f64, su_add_list, with_one. f_equal.
  generalize su_new. induction vals as [|v vs IH]; intro s; cbn [map fold_left fst snd]; [reflexivity|apply IH].
Qed.

Lemma prodsR_with_one (vals : list f64) : prodsR (with_one vals) = map (fun x : f64 => val x) vals.
Proof.
  unfold prodsR, with_one. rewrite map_map. apply map_ext. intro v. cbn [fst snd]. rewrite val_f64_one. ring.
Qed.

Lemma pairs_finite_with_one (vals : list f64) :
  Forall (fun x : f64 => finite x) vals -> pairs_finite (with_one vals).
Proof.
  unfold pairs_finite, with_one. intro H. rewrite Forall_map. eapply Forall_impl; [|exact H].
  intros v Hv. cbn [fst snd]. split; [exact Hv|exact finite_f64_one].
Qed.

(* Sum() of a dataset of n finite values is finite and within (8u + (10n+49)u^2) sum|x| + 2 n eta of the exact sum *)
Theorem d_sum_f64_err (vals : list f64) :
  Forall (fun x : f64 => finite x) vals -> (Z.of_nat (length vals) <= 2 ^ 50)%Z ->
  sumabsR (map (fun x : f64 => val x) vals) <= bpow radix2 999 ->
  let n := INR (length vals) in
  finite (d_sum_f64 vals) /\
  Rabs (val (d_sum_f64 vals) - sumR (map (fun x : f64 => val x) vals)) <=
    (8 * u53 + (10 * n + 49) * u53 ^ 2) * sumabsR (map (fun x : f64 => val x) vals) + 2 * n * eta64.
Proof.
  intros F L B n.
  pose proof (su_add_list_new_err (with_one vals) (pairs_finite_with_one vals F)) as H.
  rewrite prodsR_with_one in H. unfold with_one in H at 1 3. rewrite map_length in H.
  specialize (H L B). cbn zeta in H. rewrite <- d_sum_f64_as_add_list in H. exact H.
Qed.

(* Sum() does not depend on anything but the sequence of values: merging is appending (d_merge = fold d_add) *)
Lemma d_merge_values (d o : dataset) : ds_values (d_merge d o) = ds_values d ++ ds_values o.
Proof.
  unfold d_merge. generalize d. induction (ds_values o) as [|v vs IH]; intro d0; cbn [fold_left].
  - now rewrite app_nil_r.
  - rewrite IH. unfold d_add. cbn [ds_values]. now rewrite <- app_assoc.
Qed.
Theorem xd_sum_merge (d o : dataset) : xd_sum (d_merge d o) = d_sum_f64 (map q2f (ds_values d) ++ map q2f (ds_values o)).
Proof. unfold xd_sum. now rewrite d_merge_values, map_app. Qed.
