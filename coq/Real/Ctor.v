(* SK.Real.Ctor — the constructors from a relative accuracy alpha in (0,1) and the
   RelativeAccuracy() formulas (item 7), and the accuracy theorem re-stated with the
   quantities the Go code actually uses: value i = lower i * (1 + RelativeAccuracy()). *)
From Coq Require Import Reals Lra Psatz ZArith Lia.
From SK.Real Require Import RBasics MapGeneric Binade MapLog MapLin MapCub.
Open Scope R_scope.

Definition gamma0_ctor (a : R) : R := (1 + a) / (1 - a).
Definition gamma_log_ctor (a : R) : R := gamma0_ctor a.
Definition gamma_lin_ctor (a : R) : R := Rpower (gamma0_ctor a) (ln 2).
Definition gamma_cub_ctor (a : R) : R := Rpower (gamma0_ctor a) (10 * ln 2 / 7).

(** RelativeAccuracy(), with math.Log2 x = ln x / ln 2 *)
Definition relacc_log (gamma : R) : R := 1 - 2 / (1 + gamma).
Definition relacc_lin (gamma : R) : R := 1 - 2 / (1 + exp (ln gamma / ln 2)).
Definition relacc_cub (gamma : R) : R := 1 - 2 / (1 + exp (7 / 10 * (ln gamma / ln 2))).

Lemma gamma0_ctor_gt1 (a : R) : 0 < a < 1 -> 1 < gamma0_ctor a.
Proof.
  intros Ha. unfold gamma0_ctor. apply (Rmult_lt_reg_r (1 - a)); [lra|].
  unfold Rdiv. rewrite Rmult_assoc, Rinv_l by lra. lra.
Qed.

Lemma relacc_gamma0_ctor (a : R) : 0 < a < 1 -> 1 - 2 / (1 + gamma0_ctor a) = a.
Proof. intros Ha. unfold gamma0_ctor. field. lra. Qed.

Lemma Rpower_gt1 (x y : R) : 1 < x -> 0 < y -> 1 < Rpower x y.
Proof.
  intros Hx Hy. unfold Rpower.
  assert (H : 0 < y * ln x) by (apply Rmult_lt_0_compat; [exact Hy | apply ln_pos_gt1, Hx]).
  apply exp_increasing in H. rewrite exp_0 in H. exact H.
Qed.

(** gamma > 1 *)
Theorem gamma_log_ctor_gt1 (a : R) : 0 < a < 1 -> 1 < gamma_log_ctor a.
Proof. apply gamma0_ctor_gt1. Qed.

Theorem gamma_lin_ctor_gt1 (a : R) : 0 < a < 1 -> 1 < gamma_lin_ctor a.
Proof. intros Ha. apply Rpower_gt1; [apply gamma0_ctor_gt1, Ha | apply ln2_pos]. Qed.

Theorem gamma_cub_ctor_gt1 (a : R) : 0 < a < 1 -> 1 < gamma_cub_ctor a.
Proof.
  intros Ha. apply Rpower_gt1; [apply gamma0_ctor_gt1, Ha|]. pose proof ln2_pos. lra.
Qed.

(** the adjusted gamma of the built mapping is gamma0 = (1+a)/(1-a) *)
Theorem gamma0_lin_ctor (a : R) : 0 < a < 1 -> gamma0_lin (gamma_lin_ctor a) = gamma0_ctor a.
Proof.
  intros Ha. pose proof (gamma0_ctor_gt1 a Ha) as Hg. pose proof ln2_pos as H2.
  unfold gamma0_lin, gamma_lin_ctor. rewrite Rpower_mult.
  replace (ln 2 * (1 / ln 2)) with 1 by (field; lra). apply Rpower_1. lra.
Qed.

Theorem gamma0_cub_ctor (a : R) : 0 < a < 1 -> gamma0_cub (gamma_cub_ctor a) = gamma0_ctor a.
Proof.
  intros Ha. pose proof (gamma0_ctor_gt1 a Ha) as Hg. pose proof ln2_pos as H2.
  unfold gamma0_cub, gamma_cub_ctor. rewrite Rpower_mult.
  replace (10 * ln 2 / 7 * (7 / (10 * ln 2))) with 1 by (field; lra). apply Rpower_1. lra.
Qed.

(** RelativeAccuracy() in terms of the adjusted gamma, for every gamma > 1 *)
Theorem relacc_log_alpha (gamma : R) : 1 < gamma -> relacc_log gamma = alpha_of gamma.
Proof. intros Hg. unfold relacc_log, alpha_of. field. lra. Qed.

Theorem relacc_lin_alpha (gamma : R) : 1 < gamma -> relacc_lin gamma = alpha_of (gamma0_lin gamma).
Proof.
  intros Hg. unfold relacc_lin, alpha_of, gamma0_lin, Rpower.
  replace (1 / ln 2 * ln gamma) with (ln gamma / ln 2) by (pose proof ln2_pos; field; lra).
  pose proof (exp_pos (ln gamma / ln 2)). field. lra.
Qed.

Theorem relacc_cub_alpha (gamma : R) : 1 < gamma -> relacc_cub gamma = alpha_of (gamma0_cub gamma).
Proof.
  intros Hg. unfold relacc_cub, alpha_of, gamma0_cub, Rpower.
  replace (7 / (10 * ln 2) * ln gamma) with (7 / 10 * (ln gamma / ln 2))
    by (pose proof ln2_pos; field; lra).
  pose proof (exp_pos (7 / 10 * (ln gamma / ln 2))). field. lra.
Qed.

(** 7. the reported accuracy of a mapping built from alpha is alpha *)
Theorem relacc_log_ctor (a : R) : 0 < a < 1 -> relacc_log (gamma_log_ctor a) = a.
Proof. apply relacc_gamma0_ctor. Qed.

Theorem relacc_lin_ctor (a : R) : 0 < a < 1 -> relacc_lin (gamma_lin_ctor a) = a.
Proof.
  intros Ha. rewrite relacc_lin_alpha by (apply gamma_lin_ctor_gt1, Ha).
  rewrite gamma0_lin_ctor by exact Ha.
  rewrite <- relacc_log_alpha by (apply gamma0_ctor_gt1, Ha). apply relacc_gamma0_ctor, Ha.
Qed.

Theorem relacc_cub_ctor (a : R) : 0 < a < 1 -> relacc_cub (gamma_cub_ctor a) = a.
Proof.
  intros Ha. rewrite relacc_cub_alpha by (apply gamma_cub_ctor_gt1, Ha).
  rewrite gamma0_cub_ctor by exact Ha.
  rewrite <- relacc_log_alpha by (apply gamma0_ctor_gt1, Ha). apply relacc_gamma0_ctor, Ha.
Qed.

(** 6, as the code computes it: Value(i) = LowerBound(i) * (1 + RelativeAccuracy()) *)
Theorem accuracy_log_relacc (gamma o v : R) :
  1 < gamma -> 0 < v ->
  Rabs (value_log gamma o (relacc_log gamma) (idx_log gamma o v) - v) <= relacc_log gamma * v.
Proof. intros Hg Hv. rewrite relacc_log_alpha by exact Hg. apply accuracy_log; assumption. Qed.

Theorem accuracy_lin_relacc (gamma o v : R) :
  1 < gamma -> 0 < v ->
  Rabs (value_lin gamma o (relacc_lin gamma) (idx_lin gamma o v) - v) <= relacc_lin gamma * v.
Proof. intros Hg Hv. rewrite relacc_lin_alpha by exact Hg. apply accuracy_lin; assumption. Qed.

Theorem accuracy_cub_relacc (gamma o v : R) :
  1 < gamma -> 0 < v ->
  Rabs (value_cub gamma o (relacc_cub gamma) (idx_cub gamma o v) - v) <= relacc_cub gamma * v.
Proof. intros Hg Hv. rewrite relacc_cub_alpha by exact Hg. apply accuracy_cub; assumption. Qed.

(** end to end: a mapping built for alpha is alpha-accurate, for every offset *)
Theorem accuracy_log_ctor (a o v : R) :
  0 < a < 1 -> 0 < v ->
  Rabs (value_log (gamma_log_ctor a) o a (idx_log (gamma_log_ctor a) o v) - v) <= a * v.
Proof.
  intros Ha Hv. pose proof (accuracy_log_relacc _ o v (gamma_log_ctor_gt1 a Ha) Hv) as H.
  rewrite (relacc_log_ctor a Ha) in H. exact H.
Qed.

Theorem accuracy_lin_ctor (a o v : R) :
  0 < a < 1 -> 0 < v ->
  Rabs (value_lin (gamma_lin_ctor a) o a (idx_lin (gamma_lin_ctor a) o v) - v) <= a * v.
Proof.
  intros Ha Hv. pose proof (accuracy_lin_relacc _ o v (gamma_lin_ctor_gt1 a Ha) Hv) as H.
  rewrite (relacc_lin_ctor a Ha) in H. exact H.
Qed.

Theorem accuracy_cub_ctor (a o v : R) :
  0 < a < 1 -> 0 < v ->
  Rabs (value_cub (gamma_cub_ctor a) o a (idx_cub (gamma_cub_ctor a) o v) - v) <= a * v.
Proof.
  intros Ha Hv. pose proof (accuracy_cub_relacc _ o v (gamma_cub_ctor_gt1 a Ha) Hv) as H.
  rewrite (relacc_cub_ctor a Ha) in H. exact H.
Qed.
