(* SK.Real.Separation — C19 separation over R (item 8): two relative accuracies in
   [1e-6, 0.99] that differ by at least 0.1 % (relative to the larger) give gammas that
   differ by MORE than 1e-9 relative to the larger, for the three constructor formulas
   (hence also by at least 1e-10; the Equals gate of the Go code is 1e-12 relative).
   Proof: with gamma0 a = (1+a)/(1-a) and d = a2 - a1 >= 0,
     ln gamma0(a2) - ln gamma0(a1) >= d/(1-a1) + d/(1+a2) >= (299/199) d   (a2 <= 99/100);
     ln gamma = c ln gamma0 with c in {1, ln 2, 10 ln 2 / 7}, all >= 2/3 ([ln2_ge_two_thirds]);
     exp (-x) <= 1/(1+x);  d >= 1e-9;  (2/3)(299/199) = 598/597 > 1. *)
From Coq Require Import Reals Lra Psatz ZArith Lia.
From SK.Real Require Import RBasics MapGeneric Ctor.
Open Scope R_scope.

(** (q - p)/q <= ln q - ln p for 0 < p <= q *)
Lemma ln_diff_lower (p q : R) : 0 < p -> p <= q -> (q - p) / q <= ln q - ln p.
Proof.
  intros Hp Hpq. assert (Hq : 0 < q) by lra.
  assert (Hinv : 0 < / q) by (apply Rinv_0_lt_compat; exact Hq).
  assert (H : ln (1 + (p / q - 1)) <= p / q - 1).
  { apply ln_1p_le. assert (0 < p / q) by (apply Rmult_lt_0_compat; lra). lra. }
  replace (1 + (p / q - 1)) with (p / q) in H by ring.
  rewrite ln_div in H by assumption.
  replace ((q - p) / q) with (1 - p / q) by (field; lra). lra.
Qed.

Lemma ln_gamma0_ctor (a : R) : 0 < a < 1 -> ln (gamma0_ctor a) = ln (1 + a) - ln (1 - a).
Proof. intros Ha. unfold gamma0_ctor. apply ln_div; lra. Qed.

Lemma ln_gamma0_ctor_diff (a1 a2 : R) :
  0 < a1 -> a1 <= a2 -> a2 <= 99 / 100 ->
  299 / 199 * (a2 - a1) <= ln (gamma0_ctor a2) - ln (gamma0_ctor a1).
Proof.
  intros H1 H12 H2. rewrite !ln_gamma0_ctor by lra.
  pose proof (ln_diff_lower (1 + a1) (1 + a2)) as Hp.
  pose proof (ln_diff_lower (1 - a2) (1 - a1)) as Hm.
  assert (Hp' : (1 + a2 - (1 + a1)) / (1 + a2) <= ln (1 + a2) - ln (1 + a1)) by (apply Hp; lra).
  assert (Hm' : (1 - a1 - (1 - a2)) / (1 - a1) <= ln (1 - a1) - ln (1 - a2)) by (apply Hm; lra).
  assert (B1 : (a2 - a1) * (100 / 199) <= (1 + a2 - (1 + a1)) / (1 + a2)).
  { replace (1 + a2 - (1 + a1)) with (a2 - a1) by ring. unfold Rdiv at 2.
    apply Rmult_le_compat_l; [lra|].
    replace (100 / 199) with (/ (199 / 100)) by field. apply Rinv_le_contravar; lra. }
  assert (B2 : (a2 - a1) <= (1 - a1 - (1 - a2)) / (1 - a1)).
  { replace (1 - a1 - (1 - a2)) with (a2 - a1) by ring. unfold Rdiv.
    rewrite <- (Rmult_1_r (a2 - a1)) at 1.
    apply Rmult_le_compat_l; [lra|]. rewrite <- Rinv_1 at 1. apply Rinv_le_contravar; lra. }
  lra.
Qed.

Lemma exp_neg_le_inv (x : R) : 0 <= x -> exp (- x) <= / (1 + x).
Proof.
  intros Hx. rewrite exp_Ropp. pose proof (exp_ineq1_le x) as H1.
  apply Rinv_le_contravar; lra.
Qed.

(** core: gamma_k = exp (c * ln gamma0(a_k)), c >= 2/3, a1 <= a2 *)
Lemma sep_core (c a1 a2 : R) :
  2 / 3 <= c ->
  1 / 10 ^ 6 <= a1 -> a1 <= a2 -> a2 <= 99 / 100 ->
  1 / 1000 * a2 <= a2 - a1 ->
  let g1 := exp (c * ln (gamma0_ctor a1)) in
  let g2 := exp (c * ln (gamma0_ctor a2)) in
  g1 <= g2 /\ 1 / 10 ^ 9 * g2 < g2 - g1.
Proof.
  intros Hc Hlo H12 Hhi Hgap g1 g2.
  assert (Ha1 : 0 < a1) by (assert (0 < 1 / 10 ^ 6) by lra; lra).
  pose proof (ln_gamma0_ctor_diff a1 a2 Ha1 H12 Hhi) as Hd.
  set (l1 := ln (gamma0_ctor a1)) in *. set (l2 := ln (gamma0_ctor a2)) in *.
  assert (Hgap' : 1 / 10 ^ 9 <= a2 - a1) by lra.
  set (x0 := 598 / 597 * (1 / 10 ^ 9)).
  assert (Hx : x0 <= c * l2 - c * l1).
  { unfold x0. assert (0 <= l2 - l1) by lra.
    assert (2 / 3 * (l2 - l1) <= c * (l2 - l1)) by (apply Rmult_le_compat_r; lra). lra. }
  assert (Hg2 : 0 < g2) by apply exp_pos.
  assert (Hle : g1 <= g2 * exp (- x0)).
  { unfold g1, g2. rewrite <- exp_plus. apply exp_le_mono. lra. }
  assert (Hx0 : 0 <= x0) by (unfold x0; lra).
  pose proof (exp_neg_le_inv x0 Hx0) as He.
  assert (Hk : / (1 + x0) <= 1 - 1001 / 1000 * (1 / 10 ^ 9)).
  { apply (Rmult_le_reg_r (1 + x0)); [lra|]. rewrite Rinv_l by lra. unfold x0. lra. }
  assert (Hle2 : g2 * exp (- x0) <= g2 * (1 - 1001 / 1000 * (1 / 10 ^ 9))).
  { apply Rmult_le_compat_l; lra. }
  split; lra.
Qed.

Lemma gamma_log_ctor_exp (a : R) : 0 < a < 1 -> gamma_log_ctor a = exp (1 * ln (gamma0_ctor a)).
Proof.
  intros Ha. rewrite Rmult_1_l, exp_ln; [reflexivity|].
  pose proof (gamma0_ctor_gt1 a Ha). lra.
Qed.

Lemma sep_sym (c : R) (G : R -> R) :
  2 / 3 <= c ->
  (forall a, 0 < a < 1 -> G a = exp (c * ln (gamma0_ctor a))) ->
  forall a1 a2 : R,
  1 / 10 ^ 6 <= a1 <= 99 / 100 -> 1 / 10 ^ 6 <= a2 <= 99 / 100 ->
  1 / 1000 * Rmax a1 a2 <= Rabs (a1 - a2) ->
  1 / 10 ^ 9 * Rmax (G a1) (G a2) < Rabs (G a1 - G a2).
Proof.
  intros Hc HG a1 a2 R1 R2 Hgap.
  assert (P1 : 0 < a1 < 1) by (assert (0 < 1 / 10 ^ 6) by lra; lra).
  assert (P2 : 0 < a2 < 1) by (assert (0 < 1 / 10 ^ 6) by lra; lra).
  rewrite (HG a1 P1), (HG a2 P2).
  destruct (Rle_or_lt a1 a2) as [Hle | Hlt].
  - rewrite Rmax_right in Hgap by exact Hle.
    rewrite Rabs_minus_sym, Rabs_right in Hgap by lra.
    destruct (sep_core c a1 a2 Hc ltac:(lra) Hle ltac:(lra) Hgap) as [Hm Hs].
    rewrite Rmax_right by exact Hm. rewrite Rabs_minus_sym, Rabs_right by lra. exact Hs.
  - rewrite Rmax_left in Hgap by lra. rewrite Rabs_right in Hgap by lra.
    destruct (sep_core c a2 a1 Hc ltac:(lra) ltac:(lra) ltac:(lra) Hgap) as [Hm Hs].
    rewrite Rmax_left by exact Hm. rewrite Rabs_right by lra. exact Hs.
Qed.

(** 8. *)
Theorem sep_log (a1 a2 : R) :
  1 / 10 ^ 6 <= a1 <= 99 / 100 -> 1 / 10 ^ 6 <= a2 <= 99 / 100 ->
  1 / 1000 * Rmax a1 a2 <= Rabs (a1 - a2) ->
  1 / 10 ^ 9 * Rmax (gamma_log_ctor a1) (gamma_log_ctor a2)
    < Rabs (gamma_log_ctor a1 - gamma_log_ctor a2).
Proof. apply (sep_sym 1); [lra | apply gamma_log_ctor_exp]. Qed.

Theorem sep_lin (a1 a2 : R) :
  1 / 10 ^ 6 <= a1 <= 99 / 100 -> 1 / 10 ^ 6 <= a2 <= 99 / 100 ->
  1 / 1000 * Rmax a1 a2 <= Rabs (a1 - a2) ->
  1 / 10 ^ 9 * Rmax (gamma_lin_ctor a1) (gamma_lin_ctor a2)
    < Rabs (gamma_lin_ctor a1 - gamma_lin_ctor a2).
Proof. apply (sep_sym (ln 2)); [apply ln2_ge_two_thirds | intros a _; reflexivity]. Qed.

Theorem sep_cub (a1 a2 : R) :
  1 / 10 ^ 6 <= a1 <= 99 / 100 -> 1 / 10 ^ 6 <= a2 <= 99 / 100 ->
  1 / 1000 * Rmax a1 a2 <= Rabs (a1 - a2) ->
  1 / 10 ^ 9 * Rmax (gamma_cub_ctor a1) (gamma_cub_ctor a2)
    < Rabs (gamma_cub_ctor a1 - gamma_cub_ctor a2).
Proof.
  apply (sep_sym (10 * ln 2 / 7)); [pose proof ln2_ge_two_thirds; lra | intros a _; reflexivity].
Qed.

(** the weaker 1e-10 forms asked for by the task statement *)
Lemma weaken_1e10 (M D : R) : 0 <= M -> 1 / 10 ^ 9 * M < D -> 1 / 10 ^ 10 * M <= D.
Proof. intros HM H. lra. Qed.

Lemma Rmax_pos_l (x y : R) : 0 < x -> 0 <= Rmax x y.
Proof. intros Hx. pose proof (Rmax_l x y). lra. Qed.

Theorem sep_log_1e10 (a1 a2 : R) :
  1 / 10 ^ 6 <= a1 <= 99 / 100 -> 1 / 10 ^ 6 <= a2 <= 99 / 100 ->
  1 / 1000 * Rmax a1 a2 <= Rabs (a1 - a2) ->
  1 / 10 ^ 10 * Rmax (gamma_log_ctor a1) (gamma_log_ctor a2)
    <= Rabs (gamma_log_ctor a1 - gamma_log_ctor a2).
Proof.
  intros R1 R2 H. apply weaken_1e10; [|apply sep_log; assumption].
  apply Rmax_pos_l. assert (0 < 1 / 10 ^ 6) by lra.
  pose proof (gamma_log_ctor_gt1 a1 ltac:(lra)). lra.
Qed.

Theorem sep_lin_1e10 (a1 a2 : R) :
  1 / 10 ^ 6 <= a1 <= 99 / 100 -> 1 / 10 ^ 6 <= a2 <= 99 / 100 ->
  1 / 1000 * Rmax a1 a2 <= Rabs (a1 - a2) ->
  1 / 10 ^ 10 * Rmax (gamma_lin_ctor a1) (gamma_lin_ctor a2)
    <= Rabs (gamma_lin_ctor a1 - gamma_lin_ctor a2).
Proof.
  intros R1 R2 H. apply weaken_1e10; [|apply sep_lin; assumption].
  apply Rmax_pos_l. assert (0 < 1 / 10 ^ 6) by lra.
  pose proof (gamma_lin_ctor_gt1 a1 ltac:(lra)). lra.
Qed.

Theorem sep_cub_1e10 (a1 a2 : R) :
  1 / 10 ^ 6 <= a1 <= 99 / 100 -> 1 / 10 ^ 6 <= a2 <= 99 / 100 ->
  1 / 1000 * Rmax a1 a2 <= Rabs (a1 - a2) ->
  1 / 10 ^ 10 * Rmax (gamma_cub_ctor a1) (gamma_cub_ctor a2)
    <= Rabs (gamma_cub_ctor a1 - gamma_cub_ctor a2).
Proof.
  intros R1 R2 H. apply weaken_1e10; [|apply sep_cub; assumption].
  apply Rmax_pos_l. assert (0 < 1 / 10 ^ 6) by lra.
  pose proof (gamma_cub_ctor_gt1 a1 ltac:(lra)). lra.
Qed.
