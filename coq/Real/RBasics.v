(* SK.Real.RBasics — elementary real-analysis toolbox, Coq standard library [Reals] only.
   Contents: floor ([Int_part]) facts, monotonicity of ln/exp in the non-strict form,
   ln(1+u) <= u, powers of two indexed by Z, a derivative-sign lemma obtained from
   [MVT_cor2], crude numeric bounds on ln 2. *)
From Coq Require Import Reals Lra Psatz ZArith Lia.
Open Scope R_scope.

(** * Floor *)

Definition floorZ (x : R) : Z := Int_part x.

Lemma floorZ_spec (x : R) : IZR (floorZ x) <= x < IZR (floorZ x) + 1.
Proof.
  unfold floorZ. destruct (base_Int_part x) as [Hlo Hhi]. lra.
Qed.

Lemma floorZ_unique (x : R) (z : Z) : IZR z <= x < IZR z + 1 -> floorZ x = z.
Proof.
  intros Hz. destruct (floorZ_spec x) as [Hlo Hhi].
  assert (H1 : (floorZ x < z + 1)%Z).
  { apply lt_IZR. rewrite plus_IZR. simpl. lra. }
  assert (H2 : (z < floorZ x + 1)%Z).
  { apply lt_IZR. rewrite plus_IZR. simpl. lra. }
  lia.
Qed.

Lemma floorZ_IZR (z : Z) : floorZ (IZR z) = z.
Proof. apply floorZ_unique. lra. Qed.

Lemma floorZ_le (x y : R) : x <= y -> (floorZ x <= floorZ y)%Z.
Proof.
  intros Hxy. destruct (floorZ_spec x) as [Hx1 Hx2]. destruct (floorZ_spec y) as [Hy1 Hy2].
  assert (H : (floorZ x < floorZ y + 1)%Z).
  { apply lt_IZR. rewrite plus_IZR. simpl. lra. }
  lia.
Qed.

Lemma floorZ_ge_Z (x : R) (z : Z) : IZR z <= x -> (z <= floorZ x)%Z.
Proof.
  intros H. rewrite <- (floorZ_IZR z). apply floorZ_le. exact H.
Qed.

Lemma floorZ_lt_Z (x : R) (z : Z) : x < IZR z -> (floorZ x < z)%Z.
Proof.
  intros H. destruct (floorZ_spec x) as [Hlo Hhi]. apply lt_IZR. lra.
Qed.

Lemma floorZ_plus_Z (x : R) (z : Z) : floorZ (x + IZR z) = (floorZ x + z)%Z.
Proof.
  apply floorZ_unique. rewrite plus_IZR. destruct (floorZ_spec x). lra.
Qed.

Lemma IZR_le_succ (a b : Z) : (a < b)%Z -> IZR a + 1 <= IZR b.
Proof.
  intros H. replace 1 with (IZR 1) by reflexivity. rewrite <- plus_IZR. apply IZR_le. lia.
Qed.

(** * ln / exp, non-strict monotonicity *)

Lemma ln_le_mono (x y : R) : 0 < x -> x <= y -> ln x <= ln y.
Proof.
  intros Hx [Hlt | ->]; [apply Rlt_le, ln_increasing; assumption | apply Rle_refl].
Qed.

Lemma exp_le_mono (x y : R) : x <= y -> exp x <= exp y.
Proof.
  intros [Hlt | ->]; [apply Rlt_le, exp_increasing; assumption | apply Rle_refl].
Qed.

Lemma ln_le_inv (x y : R) : 0 < x -> 0 < y -> ln x <= ln y -> x <= y.
Proof.
  intros Hx Hy H. destruct (Rle_or_lt x y) as [Hle | Hlt]; [exact Hle|].
  apply (ln_increasing _ _ Hy) in Hlt. lra.
Qed.

Lemma ln_div (x y : R) : 0 < x -> 0 < y -> ln (x / y) = ln x - ln y.
Proof.
  intros Hx Hy. unfold Rdiv. rewrite ln_mult by (try apply Rinv_0_lt_compat; assumption).
  rewrite ln_Rinv by assumption. ring.
Qed.

Lemma ln_1p_le (u : R) : -1 < u -> ln (1 + u) <= u.
Proof.
  intros Hu. rewrite <- (ln_exp u) at 2. apply ln_le_mono; [lra|]. apply exp_ineq1_le.
Qed.

Lemma ln_pos_gt1 (x : R) : 1 < x -> 0 < ln x.
Proof. intros H. rewrite <- ln_1. apply ln_increasing; lra. Qed.

(** increment bound for the linear interpolation: d ln(1+s) <= ds *)
Lemma ln_increment (s t : R) : 0 <= s <= t -> ln (1 + t) - ln (1 + s) <= t - s.
Proof.
  intros H.
  assert (Hs : 0 < 1 + s) by lra. assert (Ht : 0 < 1 + t) by lra.
  rewrite <- ln_div by assumption.
  replace ((1 + t) / (1 + s)) with (1 + (t - s) / (1 + s)) by (field; lra).
  assert (Hq : 0 <= (t - s) / (1 + s)).
  { apply Rmult_le_pos; [lra|]. apply Rlt_le, Rinv_0_lt_compat; lra. }
  eapply Rle_trans; [apply ln_1p_le; lra|].
  unfold Rdiv. rewrite <- (Rmult_1_r (t - s)) at 2. apply Rmult_le_compat_l; [lra|].
  rewrite <- Rinv_1. apply Rinv_le_contravar; lra.
Qed.

(** * crude bounds on ln 2 *)

Lemma ln2_pos : 0 < ln 2.
Proof. apply ln_pos_gt1. lra. Qed.

Lemma ln2_le_1 : ln 2 <= 1.
Proof. replace 2 with (1 + 1) by lra. apply ln_1p_le. lra. Qed.

Lemma ln2_ge_half : 1 / 2 <= ln 2.
Proof.
  (* ln 2 = - ln (1 - 1/2) >= 1/2 *)
  assert (H : ln (1 + - (1 / 2)) <= - (1 / 2)) by (apply ln_1p_le; lra).
  replace (1 + - (1 / 2)) with (/ 2) in H by field.
  rewrite ln_Rinv in H by lra. lra.
Qed.

(** * powers of two with an integer exponent *)

Definition pow2 (e : Z) : R := powerRZ 2 e.

Lemma pow2_pos (e : Z) : 0 < pow2 e.
Proof. apply powerRZ_lt. lra. Qed.

Lemma pow2_exp (e : Z) : pow2 e = exp (IZR e * ln 2).
Proof. unfold pow2. rewrite powerRZ_Rpower by lra. reflexivity. Qed.

Lemma pow2_Rpower (e : Z) : pow2 e = Rpower 2 (IZR e).
Proof. unfold pow2. apply powerRZ_Rpower. lra. Qed.

Lemma ln_pow2 (e : Z) : ln (pow2 e) = IZR e * ln 2.
Proof. rewrite pow2_exp. apply ln_exp. Qed.

Lemma pow2_succ (e : Z) : pow2 (e + 1) = 2 * pow2 e.
Proof.
  unfold pow2. rewrite powerRZ_add by lra. simpl. ring.
Qed.

Lemma pow2_0 : pow2 0 = 1.
Proof. reflexivity. Qed.

Lemma pow2_lt (a b : Z) : (a < b)%Z -> pow2 a < pow2 b.
Proof.
  intros H. rewrite !pow2_exp. apply exp_increasing.
  apply Rmult_lt_compat_r; [apply ln2_pos | apply IZR_lt; exact H].
Qed.

Lemma pow2_le (a b : Z) : (a <= b)%Z -> pow2 a <= pow2 b.
Proof.
  intros H. rewrite !pow2_exp. apply exp_le_mono.
  apply Rmult_le_compat_r; [apply Rlt_le, ln2_pos | apply IZR_le; exact H].
Qed.

(** * a function with non-negative derivative on [a,b] is non-decreasing there *)

Lemma nonneg_deriv_nondecr (f f' : R -> R) (a b : R) :
  a <= b ->
  (forall c, a <= c <= b -> derivable_pt_lim f c (f' c)) ->
  (forall c, a <= c <= b -> 0 <= f' c) ->
  f a <= f b.
Proof.
  intros Hab Hd Hpos. destruct Hab as [Hlt | ->]; [|apply Rle_refl].
  destruct (MVT_cor2 f f' a b Hlt Hd) as [c [Heq Hc]].
  assert (H0 : 0 <= f' c) by (apply Hpos; lra).
  assert (H1 : 0 <= f' c * (b - a)) by (apply Rmult_le_pos; lra).
  lra.
Qed.

(** transport of [derivable_pt_lim] along pointwise equality (no functional extensionality) *)
Lemma derivable_pt_lim_ext (f g : R -> R) (x l l' : R) :
  (forall y, f y = g y) -> l = l' -> derivable_pt_lim f x l -> derivable_pt_lim g x l'.
Proof.
  intros Hfg <- Hf eps Heps. destruct (Hf eps Heps) as [delta Hdelta].
  exists delta. intros h Hh0 Hh. rewrite <- !Hfg. apply Hdelta; assumption.
Qed.

(** * a sharper lower bound: 2/3 <= ln 2, from exp (1/24) <= 24/23 and four squarings *)

Lemma exp_double_le (x b : R) : exp x <= b -> exp (2 * x) <= b * b.
Proof.
  intros H. replace (2 * x) with (x + x) by ring. rewrite exp_plus.
  pose proof (exp_pos x) as Hp. apply Rmult_le_compat; lra.
Qed.

Lemma exp_24th : exp (1 / 24) <= 24 / 23.
Proof.
  pose proof (exp_ineq1_le (- (1 / 24))) as H. rewrite exp_Ropp in H.
  pose proof (exp_pos (1 / 24)) as Hp.
  apply (Rmult_le_compat_r (exp (1 / 24))) in H; [|lra].
  rewrite Rinv_l in H by lra. lra.
Qed.

Lemma exp_two_thirds : exp (2 / 3) <= 2.
Proof.
  pose proof (exp_double_le _ _ (exp_double_le _ _ (exp_double_le _ _ (exp_double_le _ _ exp_24th)))) as H.
  replace (2 * (2 * (2 * (2 * (1 / 24))))) with (2 / 3) in H by field.
  eapply Rle_trans; [exact H|]. lra.
Qed.

Lemma ln2_ge_two_thirds : 2 / 3 <= ln 2.
Proof.
  rewrite <- (ln_exp (2 / 3)). apply ln_le_mono; [apply exp_pos | apply exp_two_thirds].
Qed.
