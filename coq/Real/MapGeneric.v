(* SK.Real.MapGeneric — the part of the index-mapping theory that is common to the
   three kinds.  A "log-like" function is a pair (L, Linv) with
     - Linv t > 0 and L (Linv t) = t for every real t      (L maps (0,oo) ONTO R),
     - L strictly increasing on (0,oo),
     - growth:  c * (ln y - ln x) <= L y - L x  for 0 < x <= y, with c > 0.
   For a multiplier m > 0 and an offset o:
     idx v   = floor (L v * m + o)
     lower i = Linv ((i - o) / m)
     gamma0  = exp (1 / (c*m))              (the "adjusted gamma")
     alpha   = (gamma0 - 1) / (gamma0 + 1)
     value i = lower i * (1 + alpha).
   Standard library [Reals] only. *)
From Coq Require Import Reals Lra Psatz ZArith Lia.
From SK.Real Require Import RBasics.
Open Scope R_scope.

Record LogLike (L Linv : R -> R) (c : R) : Prop := {
  ll_c_pos   : 0 < c;
  ll_inv_pos : forall t, 0 < Linv t;
  ll_L_inv   : forall t, L (Linv t) = t;
  ll_incr    : forall x y, 0 < x -> x < y -> L x < L y;
  ll_growth  : forall x y, 0 < x -> x <= y -> c * (ln y - ln x) <= L y - L x
}.

Definition idx_of (L : R -> R) (m o v : R) : Z := floorZ (L v * m + o).
Definition lower_of (Linv : R -> R) (m o : R) (i : Z) : R := Linv ((IZR i - o) / m).
Definition alpha_of (g0 : R) : R := (g0 - 1) / (g0 + 1).
Definition value_of (Linv : R -> R) (m o a : R) (i : Z) : R := lower_of Linv m o i * (1 + a).
Definition gamma0_of (c m : R) : R := exp (1 / (c * m)).

Lemma alpha_of_bounds (g0 : R) : 1 < g0 -> 0 < alpha_of g0 < 1.
Proof.
  intros Hg. unfold alpha_of. split.
  - apply Rmult_lt_0_compat; [lra | apply Rinv_0_lt_compat; lra].
  - apply (Rmult_lt_reg_r (g0 + 1)); [lra|]. unfold Rdiv.
    rewrite Rmult_assoc, Rinv_l by lra. lra.
Qed.

Lemma one_plus_alpha_of (g0 : R) : 1 < g0 -> 1 + alpha_of g0 = 2 * g0 / (g0 + 1).
Proof. intros Hg. unfold alpha_of. field. lra. Qed.

(** the purely algebraic core of the accuracy statement *)
Lemma accuracy_core (g0 lo v : R) :
  1 < g0 -> 0 < lo -> lo <= v -> v <= g0 * lo ->
  Rabs (lo * (1 + alpha_of g0) - v) <= alpha_of g0 * v.
Proof.
  intros Hg Hlo H1 H2.
  assert (Hg1 : 0 < g0 + 1) by lra.
  assert (Hinv : 0 < / (g0 + 1)) by (apply Rinv_0_lt_compat; exact Hg1).
  apply Rabs_le. unfold alpha_of. split.
  - (* v - value <= alpha v *)
    apply (Rmult_le_reg_r (g0 + 1)); [exact Hg1|].
    replace (- ((g0 - 1) / (g0 + 1) * v) * (g0 + 1)) with (- ((g0 - 1) * v)) by (field; lra).
    replace ((lo * (1 + (g0 - 1) / (g0 + 1)) - v) * (g0 + 1))
      with (2 * g0 * lo - v * (g0 + 1)) by (field; lra).
    nra.
  - apply (Rmult_le_reg_r (g0 + 1)); [exact Hg1|].
    replace ((g0 - 1) / (g0 + 1) * v * (g0 + 1)) with ((g0 - 1) * v) by (field; lra).
    replace ((lo * (1 + (g0 - 1) / (g0 + 1)) - v) * (g0 + 1))
      with (2 * g0 * lo - v * (g0 + 1)) by (field; lra).
    nra.
Qed.

Section Generic.
  Variables (L Linv : R -> R) (c : R).
  Hypothesis HL : LogLike L Linv c.
  Variables (m o : R).
  Hypothesis Hm : 0 < m.

  Let idx := idx_of L m o.
  Let lower := lower_of Linv m o.
  Let g0 := gamma0_of c m.

  Lemma ll_le (x y : R) : 0 < x -> x <= y -> L x <= L y.
  Proof.
    intros Hx [Hlt | ->]; [apply Rlt_le, (ll_incr _ _ _ HL); assumption | apply Rle_refl].
  Qed.

  Lemma ll_lt_inv (x y : R) : 0 < x -> 0 < y -> L x < L y -> x < y.
  Proof.
    intros Hx Hy H. destruct (Rlt_or_le x y) as [Hlt | Hle]; [exact Hlt|].
    pose proof (ll_le y x Hy Hle). lra.
  Qed.

  Lemma ll_le_inv (x y : R) : 0 < x -> 0 < y -> L x <= L y -> x <= y.
  Proof.
    intros Hx Hy H. destruct (Rle_or_lt x y) as [Hle | Hlt]; [exact Hle|].
    pose proof (ll_incr _ _ _ HL y x Hy Hlt). lra.
  Qed.

  Lemma ll_inj (x y : R) : 0 < x -> 0 < y -> L x = L y -> x = y.
  Proof.
    intros Hx Hy H. apply Rle_antisym; apply ll_le_inv; try assumption; lra.
  Qed.

  (** [Linv] is a two-sided inverse: [Linv t] is THE positive solution of [L w = t] *)
  Lemma ll_inv_L (v : R) : 0 < v -> Linv (L v) = v.
  Proof.
    intros Hv. apply ll_inj; [apply (ll_inv_pos _ _ _ HL) | exact Hv | apply (ll_L_inv _ _ _ HL)].
  Qed.

  Lemma ll_inv_unique (t w : R) : 0 < w -> L w = t -> w = Linv t.
  Proof. intros Hw <-. symmetry. apply ll_inv_L. exact Hw. Qed.

  Lemma ll_inv_incr (s t : R) : s < t -> Linv s < Linv t.
  Proof.
    intros Hst. apply ll_lt_inv; try apply (ll_inv_pos _ _ _ HL).
    rewrite !(ll_L_inv _ _ _ HL). exact Hst.
  Qed.

  Lemma gen_gamma0_gt1 : 0 < c -> 1 < g0.
  Proof.
    intros Hc. unfold g0, gamma0_of.
    assert (H : 0 < 1 / (c * m)).
    { apply Rmult_lt_0_compat; [lra | apply Rinv_0_lt_compat, Rmult_lt_0_compat; assumption]. }
    apply exp_increasing in H. rewrite exp_0 in H. exact H.
  Qed.

  Lemma gen_lower_pos (i : Z) : 0 < lower i.
  Proof. apply (ll_inv_pos _ _ _ HL). Qed.

  Lemma gen_L_lower (i : Z) : L (lower i) = (IZR i - o) / m.
  Proof. apply (ll_L_inv _ _ _ HL). Qed.

  Lemma gen_lower_incr (i j : Z) : (i < j)%Z -> lower i < lower j.
  Proof.
    intros Hij. apply ll_inv_incr. unfold Rdiv. apply Rmult_lt_compat_r.
    - apply Rinv_0_lt_compat; exact Hm.
    - apply IZR_lt in Hij. lra.
  Qed.

  (** 3. the index is non-decreasing *)
  Theorem gen_idx_mono (x y : R) : 0 < x -> x <= y -> (idx x <= idx y)%Z.
  Proof.
    intros Hx Hxy. apply floorZ_le.
    pose proof (ll_le x y Hx Hxy) as Hle.
    apply Rplus_le_compat_r. apply Rmult_le_compat_r; lra.
  Qed.

  (** 4. containment *)
  Theorem gen_containment (v : R) : 0 < v -> lower (idx v) <= v < lower (idx v + 1).
  Proof.
    intros Hv. destruct (floorZ_spec (L v * m + o)) as [Hlo Hhi]. fold (idx_of L m o v) in Hlo, Hhi.
    fold idx in Hlo, Hhi.
    assert (Hminv : 0 < / m) by (apply Rinv_0_lt_compat; exact Hm).
    split.
    - apply ll_le_inv; [apply gen_lower_pos | exact Hv |]. rewrite gen_L_lower.
      apply (Rmult_le_reg_r m); [exact Hm|]. unfold Rdiv. rewrite Rmult_assoc, Rinv_l by lra. lra.
    - apply ll_lt_inv; [exact Hv | apply gen_lower_pos |]. rewrite gen_L_lower.
      apply (Rmult_lt_reg_r m); [exact Hm|]. unfold Rdiv. rewrite Rmult_assoc, Rinv_l by lra.
      rewrite plus_IZR. simpl. lra.
  Qed.

  (** the index is characterised by containment *)
  Theorem gen_idx_unique (v : R) (i : Z) : 0 < v -> lower i <= v < lower (i + 1) -> idx v = i.
  Proof.
    intros Hv [H1 H2]. apply floorZ_unique.
    apply (ll_le _ _ (gen_lower_pos i)) in H1. rewrite gen_L_lower in H1.
    apply (ll_incr _ _ _ HL _ _ Hv) in H2. rewrite gen_L_lower in H2.
    rewrite plus_IZR in H2. simpl in H2.
    assert (Hminv : 0 < / m) by (apply Rinv_0_lt_compat; exact Hm).
    split.
    - apply (Rmult_le_compat_r m) in H1; [|lra]. unfold Rdiv in H1.
      rewrite Rmult_assoc, Rinv_l in H1 by lra. lra.
    - apply (Rmult_lt_compat_r m) in H2; [|lra]. unfold Rdiv in H2.
      rewrite Rmult_assoc, Rinv_l in H2 by lra. lra.
  Qed.

  (** 5. bin ratio *)
  Theorem gen_bin_ratio (i : Z) : lower (i + 1) <= g0 * lower i.
  Proof.
    pose proof (ll_c_pos _ _ _ HL) as Hc.
    pose proof (gen_lower_pos i) as Hpi. pose proof (gen_lower_pos (i + 1)) as Hpj.
    assert (Hij : lower i <= lower (i + 1)) by (apply Rlt_le, gen_lower_incr; lia).
    pose proof (ll_growth _ _ _ HL _ _ Hpi Hij) as Hg.
    rewrite !gen_L_lower in Hg. rewrite plus_IZR in Hg. simpl in Hg.
    replace ((IZR i + 1 - o) / m - (IZR i - o) / m) with (/ m) in Hg by (field; lra).
    apply ln_le_inv; [exact Hpj | apply Rmult_lt_0_compat; [apply exp_pos | exact Hpi] |].
    rewrite ln_mult by (try apply exp_pos; exact Hpi). unfold g0, gamma0_of. rewrite ln_exp.
    replace (1 / (c * m)) with (/ c * / m) by (field; lra).
    assert (Hcinv : 0 < / c) by (apply Rinv_0_lt_compat; exact Hc).
    apply (Rmult_le_compat_l (/ c)) in Hg; [|lra].
    rewrite <- Rmult_assoc, Rinv_l in Hg by lra. lra.
  Qed.

  Corollary gen_bin_ratio_div (i : Z) : lower (i + 1) / lower i <= g0.
  Proof.
    pose proof (gen_lower_pos i) as Hpi.
    apply (Rmult_le_reg_r (lower i)); [exact Hpi|]. unfold Rdiv.
    rewrite Rmult_assoc, Rinv_l by lra. rewrite Rmult_1_r. apply gen_bin_ratio.
  Qed.

  (** 6. relative accuracy *)
  Theorem gen_accuracy (v : R) :
    0 < v -> Rabs (value_of Linv m o (alpha_of g0) (idx v) - v) <= alpha_of g0 * v.
  Proof.
    intros Hv. unfold value_of. fold lower.
    destruct (gen_containment v Hv) as [H1 H2].
    apply accuracy_core.
    - apply gen_gamma0_gt1, (ll_c_pos _ _ _ HL).
    - apply gen_lower_pos.
    - exact H1.
    - apply Rlt_le. eapply Rlt_le_trans; [exact H2 | apply gen_bin_ratio].
  Qed.

  (** [value] is strictly increasing in the index (used by the quantile monotonicity) *)
  Theorem gen_value_incr (a : R) (i j : Z) :
    -1 < a -> (i < j)%Z -> value_of Linv m o a i < value_of Linv m o a j.
  Proof.
    intros Ha Hij. unfold value_of. apply Rmult_lt_compat_r; [lra|]. apply gen_lower_incr. exact Hij.
  Qed.
End Generic.
