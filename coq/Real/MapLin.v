(* SK.Real.MapLin — the linearly interpolated mapping over R.
     L (2^e (1+s)) = e + s,   multiplier m = ln 2 / ln gamma = 1 / log2 gamma,
     lower i = 2^(floor t) * (1 + (t - floor t))  with t = (i - o) / m
               (this is literally approximateInverseLog of the Go code),
     gamma0 = gamma ^ (1 / ln 2). *)
From Coq Require Import Reals Lra Psatz ZArith Lia.
From SK.Real Require Import RBasics MapGeneric Binade.
Open Scope R_scope.

Definition Plin (s : R) : R := s.
Definition L_lin (v : R) : R := IZR (bexp v) + bsig v.
Definition Linv_lin (t : R) : R := bval (floorZ t) (t - IZR (floorZ t)).
Definition llin (e : Z) (s : R) : R := IZR e + s.

Definition idx_lin (gamma o v : R) : Z := floorZ (L_lin v * mult_log2 gamma + o).
Definition lower_lin (gamma o : R) (i : Z) : R := Linv_lin ((IZR i - o) / mult_log2 gamma).
Definition value_lin (gamma o a : R) (i : Z) : R := lower_lin gamma o i * (1 + a).
Definition gamma0_lin (gamma : R) : R := Rpower gamma (1 / ln 2).

Lemma interp_lin : Interp Plin Plin 1.
Proof.
  constructor; unfold Plin.
  - lra.
  - reflexivity.
  - reflexivity.
  - intros s t Hs Hst Ht. exact Hst.
  - intros s t Hs Hst Ht. pose proof (ln_increment s t (conj Hs Hst)). lra.
  - intros u Hu. exact Hu.
  - intros u Hu. reflexivity.
Qed.

Lemma L_lin_gen v : L_lin v = Lint Plin v. Proof. reflexivity. Qed.
Lemma Linv_lin_gen t : Linv_lin t = Linvint Plin t. Proof. reflexivity. Qed.
Lemma idx_lin_gen gamma o v : idx_lin gamma o v = idx_of (Lint Plin) (mult_log2 gamma) o v.
Proof. reflexivity. Qed.
Lemma lower_lin_gen gamma o i :
  lower_lin gamma o i = lower_of (Linvint Plin) (mult_log2 gamma) o i.
Proof. reflexivity. Qed.
Lemma value_lin_gen gamma o a i :
  value_lin gamma o a i = value_of (Linvint Plin) (mult_log2 gamma) o a i.
Proof. reflexivity. Qed.
Lemma gamma0_lin_gen gamma : gamma0_lin gamma = Rpower gamma (1 / (1 * ln 2)).
Proof. unfold gamma0_lin. rewrite Rmult_1_l. reflexivity. Qed.

Lemma loglike_lin : LogLike L_lin Linv_lin 1.
Proof. exact (loglike_interp _ _ _ interp_lin). Qed.

(** agreement with the pair form, every representation 0 <= s <= 1 *)
Theorem L_lin_bval (e : Z) (s : R) : 0 <= s <= 1 -> L_lin (bval e s) = llin e s.
Proof. apply (Lint_bval _ _ _ interp_lin). Qed.

Theorem llin_carry (e : Z) : llin e 1 = llin (e + 1) 0.
Proof. apply (lpair_carry _ _ _ interp_lin). Qed.

Theorem Linv_lin_llin (e : Z) (s : R) : 0 <= s < 1 -> Linv_lin (llin e s) = bval e s.
Proof. apply (Linvint_lpair _ _ _ interp_lin). Qed.

(** 1. *)
Theorem L_lin_incr (x y : R) : 0 < x -> x < y -> L_lin x < L_lin y.
Proof. apply (Lint_incr _ _ _ interp_lin). Qed.

(** 2. *)
Theorem L_lin_growth (x y : R) : 0 < x -> x <= y -> ln y - ln x <= L_lin y - L_lin x.
Proof.
  intros Hx Hxy. pose proof (Lint_growth _ _ _ interp_lin x y Hx Hxy) as H.
  rewrite Rmult_1_l in H. exact H.
Qed.

(** within one binade, on pairs *)
Theorem llin_growth_binade (e : Z) (s t : R) :
  0 <= s -> s <= t -> t <= 1 -> ln (bval e t) - ln (bval e s) <= llin e t - llin e s.
Proof.
  intros Hs Hst Ht. rewrite !ln_bval by lra. unfold llin.
  pose proof (ln_increment s t (conj Hs Hst)). lra.
Qed.

(** surjectivity / inverse *)
Theorem Linv_lin_pos (t : R) : 0 < Linv_lin t.
Proof. apply (ll_inv_pos _ _ _ loglike_lin). Qed.
Theorem L_lin_Linv_lin (t : R) : L_lin (Linv_lin t) = t.
Proof. apply (ll_L_inv _ _ _ loglike_lin). Qed.
Theorem Linv_lin_L_lin (v : R) : 0 < v -> Linv_lin (L_lin v) = v.
Proof. apply (ll_inv_L _ _ _ loglike_lin). Qed.

Section Lin.
  Variables (gamma o : R).
  Hypothesis Hg : 1 < gamma.

  Theorem gamma0_lin_gt1 : 1 < gamma0_lin gamma.
  Proof. rewrite gamma0_lin_gen. apply (interp_g0_gt1 _ _ _ interp_lin _ Hg). Qed.

  (** 3. *)
  Theorem idx_lin_mono (x y : R) : 0 < x -> x <= y -> (idx_lin gamma o x <= idx_lin gamma o y)%Z.
  Proof. apply (interp_idx_mono _ _ _ interp_lin _ o Hg). Qed.

  (** 4. *)
  Theorem lower_lin_pos (i : Z) : 0 < lower_lin gamma o i.
  Proof. apply (interp_lower_pos _ _ _ interp_lin). Qed.

  Theorem L_lower_lin (i : Z) : L_lin (lower_lin gamma o i) = (IZR i - o) / mult_log2 gamma.
  Proof. apply (interp_L_lower _ _ _ interp_lin). Qed.

  Theorem lower_lin_unique (i : Z) (w : R) :
    0 < w -> L_lin w = (IZR i - o) / mult_log2 gamma -> w = lower_lin gamma o i.
  Proof. apply (interp_lower_unique _ _ _ interp_lin). Qed.

  Theorem lower_lin_incr (i j : Z) : (i < j)%Z -> lower_lin gamma o i < lower_lin gamma o j.
  Proof. apply (interp_lower_incr _ _ _ interp_lin _ o Hg). Qed.

  Theorem containment_lin (v : R) :
    0 < v -> lower_lin gamma o (idx_lin gamma o v) <= v < lower_lin gamma o (idx_lin gamma o v + 1).
  Proof. apply (interp_containment _ _ _ interp_lin _ o Hg). Qed.

  Theorem idx_lin_unique (v : R) (i : Z) :
    0 < v -> lower_lin gamma o i <= v < lower_lin gamma o (i + 1) -> idx_lin gamma o v = i.
  Proof. apply (interp_idx_unique _ _ _ interp_lin _ o Hg). Qed.

  (** 5. *)
  Theorem bin_ratio_lin (i : Z) : lower_lin gamma o (i + 1) / lower_lin gamma o i <= gamma0_lin gamma.
  Proof. rewrite gamma0_lin_gen. apply (interp_bin_ratio _ _ _ interp_lin _ o Hg). Qed.

  (** 6. *)
  Theorem accuracy_lin (v : R) :
    0 < v ->
    Rabs (value_lin gamma o (alpha_of (gamma0_lin gamma)) (idx_lin gamma o v) - v)
      <= alpha_of (gamma0_lin gamma) * v.
  Proof. rewrite gamma0_lin_gen. apply (interp_accuracy _ _ _ interp_lin _ o Hg). Qed.

  (** 9. *)
  Theorem idx_lin_int32 (v : R) :
    Rpower 2 ((- 2 ^ 31 - o) / mult_log2 gamma + 1) <= v ->
    v <= Rpower 2 ((2 ^ 31 - 1 - o) / mult_log2 gamma - 1) ->
    (- 2 ^ 31 <= idx_lin gamma o v <= 2 ^ 31 - 1)%Z.
  Proof. apply (interp_int32 _ _ _ interp_lin _ o Hg). Qed.
End Lin.

Theorem value_lin_incr (gamma o a : R) (i j : Z) :
  1 < gamma -> -1 < a -> (i < j)%Z -> value_lin gamma o a i < value_lin gamma o a j.
Proof. apply (interp_value_incr _ _ _ interp_lin). Qed.
