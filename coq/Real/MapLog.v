(* SK.Real.MapLog — the logarithmic mapping over R.
     L v = ln v,  multiplier m = 1 / ln gamma,  lower i = exp ((i - o) / m),  gamma0 = gamma. *)
From Coq Require Import Reals Lra Psatz ZArith Lia.
From SK.Real Require Import RBasics MapGeneric.
Open Scope R_scope.

Definition mult_log (gamma : R) : R := 1 / ln gamma.
Definition idx_log (gamma o v : R) : Z := floorZ (ln v * mult_log gamma + o).
Definition lower_log (gamma o : R) (i : Z) : R := exp ((IZR i - o) / mult_log gamma).
Definition value_log (gamma o a : R) (i : Z) : R := lower_log gamma o i * (1 + a).

Lemma loglike_log : LogLike ln exp 1.
Proof.
  constructor.
  - lra.
  - apply exp_pos.
  - apply ln_exp.
  - intros x y Hx Hxy. apply ln_increasing; assumption.
  - intros x y Hx Hxy. lra.
Qed.

Lemma mult_log_pos (gamma : R) : 1 < gamma -> 0 < mult_log gamma.
Proof.
  intros Hg. unfold mult_log. apply Rmult_lt_0_compat; [lra|]. apply Rinv_0_lt_compat, ln_pos_gt1, Hg.
Qed.

Lemma gamma0_log (gamma : R) : 1 < gamma -> gamma0_of 1 (mult_log gamma) = gamma.
Proof.
  intros Hg. unfold gamma0_of, mult_log. pose proof (ln_pos_gt1 _ Hg) as Hl.
  replace (1 / (1 * (1 / ln gamma))) with (ln gamma) by (field; lra).
  apply exp_ln. lra.
Qed.

Lemma idx_log_gen gamma o v : idx_log gamma o v = idx_of ln (mult_log gamma) o v.
Proof. reflexivity. Qed.
Lemma lower_log_gen gamma o i : lower_log gamma o i = lower_of exp (mult_log gamma) o i.
Proof. reflexivity. Qed.
Lemma value_log_gen gamma o a i : value_log gamma o a i = value_of exp (mult_log gamma) o a i.
Proof. reflexivity. Qed.

(** 1. strictly increasing *)
Theorem L_log_incr (x y : R) : 0 < x -> x < y -> ln x < ln y.
Proof. apply ln_increasing. Qed.

(** 2. growth (equality, constant 1) *)
Theorem L_log_growth (x y : R) : 0 < x -> x <= y -> ln y - ln x = 1 * (ln y - ln x).
Proof. intros _ _. ring. Qed.

(** 3. *)
Theorem idx_log_mono (gamma o x y : R) :
  1 < gamma -> 0 < x -> x <= y -> (idx_log gamma o x <= idx_log gamma o y)%Z.
Proof.
  intros Hg Hx Hxy. rewrite !idx_log_gen.
  apply (gen_idx_mono _ _ _ loglike_log _ _ (mult_log_pos _ Hg)); assumption.
Qed.

(** 4. *)
Theorem lower_log_pos (gamma o : R) (i : Z) : 0 < lower_log gamma o i.
Proof. apply exp_pos. Qed.

Theorem L_lower_log (gamma o : R) (i : Z) : ln (lower_log gamma o i) = (IZR i - o) / mult_log gamma.
Proof. apply ln_exp. Qed.

Theorem lower_log_unique (gamma o : R) (i : Z) (w : R) :
  0 < w -> ln w = (IZR i - o) / mult_log gamma -> w = lower_log gamma o i.
Proof. intros Hw H. unfold lower_log. rewrite <- H. symmetry. apply exp_ln, Hw. Qed.

Theorem containment_log (gamma o v : R) :
  1 < gamma -> 0 < v ->
  lower_log gamma o (idx_log gamma o v) <= v < lower_log gamma o (idx_log gamma o v + 1).
Proof.
  intros Hg Hv. rewrite !lower_log_gen, idx_log_gen.
  apply (gen_containment _ _ _ loglike_log _ _ (mult_log_pos _ Hg)). exact Hv.
Qed.

Theorem idx_log_unique (gamma o v : R) (i : Z) :
  1 < gamma -> 0 < v -> lower_log gamma o i <= v < lower_log gamma o (i + 1) -> idx_log gamma o v = i.
Proof.
  intros Hg Hv H. rewrite idx_log_gen.
  apply (gen_idx_unique _ _ _ loglike_log _ _ (mult_log_pos _ Hg)); assumption.
Qed.

Theorem lower_log_incr (gamma o : R) (i j : Z) :
  1 < gamma -> (i < j)%Z -> lower_log gamma o i < lower_log gamma o j.
Proof.
  intros Hg Hij. rewrite !lower_log_gen.
  apply (gen_lower_incr _ _ _ loglike_log _ _ (mult_log_pos _ Hg)). exact Hij.
Qed.

(** 5. here the bin ratio is exactly gamma; we state both the bound and the equality *)
Theorem bin_ratio_log (gamma o : R) (i : Z) :
  1 < gamma -> lower_log gamma o (i + 1) / lower_log gamma o i <= gamma.
Proof.
  intros Hg. rewrite !lower_log_gen. rewrite <- (gamma0_log gamma Hg) at 3.
  apply (gen_bin_ratio_div _ _ _ loglike_log _ _ (mult_log_pos _ Hg)).
Qed.

Theorem bin_ratio_log_eq (gamma o : R) (i : Z) :
  1 < gamma -> lower_log gamma o (i + 1) = gamma * lower_log gamma o i.
Proof.
  intros Hg. unfold lower_log, mult_log. pose proof (ln_pos_gt1 _ Hg) as Hl.
  rewrite plus_IZR. simpl.
  replace ((IZR i + 1 - o) / (1 / ln gamma)) with (ln gamma + (IZR i - o) / (1 / ln gamma))
    by (field; lra).
  rewrite exp_plus, exp_ln by lra. reflexivity.
Qed.

(** 6. *)
Theorem accuracy_log (gamma o v : R) :
  1 < gamma -> 0 < v ->
  Rabs (value_log gamma o (alpha_of gamma) (idx_log gamma o v) - v) <= alpha_of gamma * v.
Proof.
  intros Hg Hv. rewrite value_log_gen, idx_log_gen.
  pose proof (gen_accuracy _ _ _ loglike_log _ o (mult_log_pos _ Hg) v Hv) as H.
  rewrite (gamma0_log gamma Hg) in H. exact H.
Qed.

(** 9. int32 range *)
Theorem idx_log_int32 (gamma o v : R) :
  1 < gamma ->
  exp ((- 2 ^ 31 - o) / mult_log gamma + 1) <= v ->
  v <= exp ((2 ^ 31 - 1 - o) / mult_log gamma - 1) ->
  (- 2 ^ 31 <= idx_log gamma o v <= 2 ^ 31 - 1)%Z.
Proof.
  intros Hg Hlo Hhi. pose proof (mult_log_pos _ Hg) as Hm.
  assert (Hv : 0 < v) by (eapply Rlt_le_trans; [apply exp_pos | exact Hlo]).
  apply ln_le_mono in Hlo; [|apply exp_pos]. rewrite ln_exp in Hlo.
  apply (ln_le_mono _ _ Hv) in Hhi. rewrite ln_exp in Hhi.
  apply (Rmult_le_compat_r _ _ _ (Rlt_le _ _ Hm)) in Hlo.
  apply (Rmult_le_compat_r _ _ _ (Rlt_le _ _ Hm)) in Hhi.
  replace (((- 2 ^ 31 - o) / mult_log gamma + 1) * mult_log gamma)
    with (- 2 ^ 31 - o + mult_log gamma) in Hlo by (field; lra).
  replace (((2 ^ 31 - 1 - o) / mult_log gamma - 1) * mult_log gamma)
    with (2 ^ 31 - 1 - o - mult_log gamma) in Hhi by (field; lra).
  unfold idx_log. split.
  - apply floorZ_ge_Z. change (- 2 ^ 31)%Z with (-2147483648)%Z. lra.
  - assert (H : (floorZ (ln v * mult_log gamma + o) < 2 ^ 31)%Z); [|lia].
    apply floorZ_lt_Z. change (2 ^ 31)%Z with (2147483648)%Z. lra.
Qed.

(** [value] is strictly increasing in the index (quantile monotonicity needs it) *)
Theorem value_log_incr (gamma o a : R) (i j : Z) :
  1 < gamma -> -1 < a -> (i < j)%Z -> value_log gamma o a i < value_log gamma o a j.
Proof.
  intros Hg Ha Hij. rewrite !value_log_gen.
  apply (gen_value_incr _ _ _ loglike_log _ o (mult_log_pos _ Hg)); assumption.
Qed.
