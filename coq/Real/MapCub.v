(* SK.Real.MapCub — the cubically interpolated mapping over R.
     L (2^e (1+s)) = e + P s,  P s = A s^3 + B s^2 + C s,  A = 6/35, B = -3/5, C = 10/7,
     multiplier m = ln 2 / ln gamma,  gamma0 = gamma ^ (7 / (10 ln 2)).
   The inverse of P on [0,1] is obtained from the intermediate value theorem ([IVT_cor]),
   NOT from Cardano's closed form: [lower] is characterised as the unique positive w with
   L w = (i - o)/m  ([lower_cub_unique], [L_lower_cub]).  That the closed form used by the Go
   code computes the same root is not proved here. *)
From Coq Require Import Reals Lra Psatz ZArith Lia.
From SK.Real Require Import RBasics MapGeneric Binade.
Open Scope R_scope.

Definition cA : R := 6 / 35.
Definition cB : R := - 3 / 5.
Definition cC : R := 10 / 7.

Definition Pcub (s : R) : R := cA * s ^ 3 + cB * s ^ 2 + cC * s.
Definition Pcub' (s : R) : R := 3 * cA * s ^ 2 + 2 * cB * s + cC.

(** Horner form, as evaluated by the Go code *)
Lemma Pcub_horner (s : R) : Pcub s = ((cA * s + cB) * s + cC) * s.
Proof. unfold Pcub. ring. Qed.

Lemma Pcub_0 : Pcub 0 = 0.
Proof. unfold Pcub. ring. Qed.

Lemma Pcub_1 : Pcub 1 = 1.
Proof. unfold Pcub, cA, cB, cC. field. Qed.

(** P is strictly increasing on the whole line: the divided difference is a positive
    definite quadratic form,
    35 * (P t - P s)/(t - s) = 3/2 (t-s)^2 + 1/2 (3(t+s) - 7)^2 + 51/2 *)
Lemma Pcub_diff (s t : R) :
  Pcub t - Pcub s =
  (t - s) * ((3 / 2 * ((t - s) * (t - s)) + 1 / 2 * ((3 * (t + s) - 7) * (3 * (t + s) - 7)) + 51 / 2) / 35).
Proof. unfold Pcub, cA, cB, cC. field. Qed.

Lemma Pcub_incr (s t : R) : s < t -> Pcub s < Pcub t.
Proof.
  intros Hst. apply Rminus_gt_0_lt. rewrite Pcub_diff.
  apply Rmult_lt_0_compat; [lra|].
  pose proof (Rle_0_sqr (t - s)) as H1. pose proof (Rle_0_sqr (3 * (t + s) - 7)) as H2.
  unfold Rsqr in H1, H2. lra.
Qed.

(** the algebraic heart: P'(s) (1+s) - 10/7 = (2s/35)(3s-2)^2 *)
Lemma cubic_fact_eq (s : R) :
  Pcub' s * (1 + s) = 10 / 7 + 2 / 35 * (s * ((3 * s - 2) * (3 * s - 2))).
Proof. unfold Pcub', cA, cB, cC. field. Qed.

Lemma cubic_fact (s : R) : 0 <= s -> 10 / 7 <= Pcub' s * (1 + s).
Proof.
  intros Hs. rewrite cubic_fact_eq.
  assert (H : 0 <= s * ((3 * s - 2) * (3 * s - 2))).
  { apply Rmult_le_pos; [exact Hs|]. pose proof (Rle_0_sqr (3 * s - 2)) as H. exact H. }
  lra.
Qed.

(** derivatives *)
Lemma Pcub_deriv (x : R) : derivable_pt_lim Pcub x (Pcub' x).
Proof.
  pose (f := (mult_real_fct cA (fun y => y ^ 3) + mult_real_fct cB (fun y => y ^ 2)
              + mult_real_fct cC id)%F).
  apply (derivable_pt_lim_ext f Pcub x
           (cA * (INR 3 * x ^ pred 3) + cB * (INR 2 * x ^ pred 2) + cC * 1)).
  - intros y. unfold f, plus_fct, mult_real_fct, id, Pcub. ring.
  - unfold Pcub'. simpl. ring.
  - unfold f. apply derivable_pt_lim_plus; [apply derivable_pt_lim_plus|];
      apply derivable_pt_lim_scal;
      [apply derivable_pt_lim_pow | apply derivable_pt_lim_pow | apply derivable_pt_lim_id].
Qed.

Definition gcub (s : R) : R := Pcub s - 10 / 7 * ln (1 + s).
Definition gcub' (s : R) : R := Pcub' s - 10 / 7 * / (1 + s).

Lemma gcub_deriv (x : R) : -1 < x -> derivable_pt_lim gcub x (gcub' x).
Proof.
  intros Hx.
  pose (f := (Pcub - mult_real_fct (10 / 7) (comp ln (fct_cte 1 + id)))%F).
  apply (derivable_pt_lim_ext f gcub x (Pcub' x - 10 / 7 * (/ (1 + x) * (0 + 1)))).
  - intros y. reflexivity.
  - unfold gcub'. ring.
  - unfold f. apply derivable_pt_lim_minus; [apply Pcub_deriv|].
    apply derivable_pt_lim_scal. apply derivable_pt_lim_comp.
    + apply derivable_pt_lim_plus; [apply derivable_pt_lim_const | apply derivable_pt_lim_id].
    + unfold plus_fct, fct_cte, id. apply derivable_pt_lim_ln. lra.
Qed.

Lemma gcub'_nonneg (s : R) : 0 <= s -> 0 <= gcub' s.
Proof.
  intros Hs. unfold gcub'. pose proof (cubic_fact s Hs) as H.
  assert (Hp : 0 < 1 + s) by lra.
  assert (Hinv : 0 < / (1 + s)) by (apply Rinv_0_lt_compat; exact Hp).
  apply (Rmult_le_compat_r (/ (1 + s))) in H; [|lra].
  rewrite Rmult_assoc, Rinv_r, Rmult_1_r in H by lra. lra.
Qed.

(** 2. within a binade: g(s) = P s - (10/7) ln (1+s) is non-decreasing on [0, oo) *)
Theorem gcub_mono (s t : R) : 0 <= s -> s <= t -> gcub s <= gcub t.
Proof.
  intros Hs Hst. apply (nonneg_deriv_nondecr gcub gcub' s t Hst).
  - intros c Hc. apply gcub_deriv. lra.
  - intros c Hc. apply gcub'_nonneg. lra.
Qed.

Theorem Pcub_growth (s t : R) :
  0 <= s -> s <= t -> 10 / 7 * (ln (1 + t) - ln (1 + s)) <= Pcub t - Pcub s.
Proof.
  intros Hs Hst. pose proof (gcub_mono s t Hs Hst) as H. unfold gcub in H. lra.
Qed.

(** inverse of P on [0,1] by the intermediate value theorem *)
Lemma Pcub_continuity (u : R) : continuity (fun s => Pcub s - u).
Proof.
  intros x. apply derivable_continuous_pt. exists (Pcub' x - 0).
  apply (derivable_pt_lim_ext (Pcub - fct_cte u)%F _ x (Pcub' x - 0)).
  - intros y. reflexivity.
  - reflexivity.
  - apply derivable_pt_lim_minus; [apply Pcub_deriv | apply derivable_pt_lim_const].
Qed.

Lemma Pcub_ivt (u : R) : 0 <= u <= 1 -> { z : R | 0 <= z <= 1 /\ Pcub z = u }.
Proof.
  intros Hu.
  destruct (IVT_cor (fun s => Pcub s - u) 0 1 (Pcub_continuity u) Rle_0_1) as [z [Hz Hez]].
  - rewrite Pcub_0, Pcub_1. nra.
  - exists z. split; [exact Hz | lra].
Qed.

Definition clamp01 (u : R) : R := Rmax 0 (Rmin u 1).

Lemma clamp01_range (u : R) : 0 <= clamp01 u <= 1.
Proof.
  unfold clamp01. split; [apply Rmax_l|].
  apply Rmax_lub; [lra | apply Rmin_r].
Qed.

Lemma clamp01_id (u : R) : 0 <= u <= 1 -> clamp01 u = u.
Proof.
  intros Hu. unfold clamp01. rewrite Rmin_left by lra. apply Rmax_right. lra.
Qed.

Definition Pinv_cub (u : R) : R := proj1_sig (Pcub_ivt (clamp01 u) (clamp01_range u)).

Lemma Pinv_cub_spec (u : R) : 0 <= u <= 1 -> 0 <= Pinv_cub u <= 1 /\ Pcub (Pinv_cub u) = u.
Proof.
  intros Hu. unfold Pinv_cub.
  destruct (Pcub_ivt (clamp01 u) (clamp01_range u)) as [z [Hz Hez]]. simpl.
  rewrite clamp01_id in Hez by exact Hu. split; assumption.
Qed.

Lemma interp_cub : Interp Pcub Pinv_cub (10 / 7).
Proof.
  constructor.
  - lra.
  - apply Pcub_0.
  - apply Pcub_1.
  - intros s t _ Hst _. apply Pcub_incr, Hst.
  - intros s t Hs Hst _. apply Pcub_growth; assumption.
  - intros u Hu. destruct (Pinv_cub_spec u) as [[H0 H1] He]; [lra|]. split; [exact H0|].
    destruct H1 as [H1 | H1]; [exact H1|]. rewrite H1, Pcub_1 in He. lra.
  - intros u Hu. apply Pinv_cub_spec. lra.
Qed.

(** * the mapping *)

Definition L_cub (v : R) : R := IZR (bexp v) + Pcub (bsig v).
Definition Linv_cub (t : R) : R := bval (floorZ t) (Pinv_cub (t - IZR (floorZ t))).
Definition lcub (e : Z) (s : R) : R := IZR e + Pcub s.

Definition idx_cub (gamma o v : R) : Z := floorZ (L_cub v * mult_log2 gamma + o).
Definition lower_cub (gamma o : R) (i : Z) : R := Linv_cub ((IZR i - o) / mult_log2 gamma).
Definition value_cub (gamma o a : R) (i : Z) : R := lower_cub gamma o i * (1 + a).
Definition gamma0_cub (gamma : R) : R := Rpower gamma (7 / (10 * ln 2)).

Lemma gamma0_cub_gen gamma : gamma0_cub gamma = Rpower gamma (1 / (10 / 7 * ln 2)).
Proof. unfold gamma0_cub. f_equal. pose proof ln2_pos. field. lra. Qed.

Lemma loglike_cub : LogLike L_cub Linv_cub (10 / 7).
Proof. exact (loglike_interp _ _ _ interp_cub). Qed.

Theorem L_cub_bval (e : Z) (s : R) : 0 <= s <= 1 -> L_cub (bval e s) = lcub e s.
Proof. apply (Lint_bval _ _ _ interp_cub). Qed.

Theorem lcub_carry (e : Z) : lcub e 1 = lcub (e + 1) 0.
Proof. apply (lpair_carry _ _ _ interp_cub). Qed.

Theorem Linv_cub_lcub (e : Z) (s : R) : 0 <= s < 1 -> Linv_cub (lcub e s) = bval e s.
Proof. apply (Linvint_lpair _ _ _ interp_cub). Qed.

(** 1. *)
Theorem L_cub_incr (x y : R) : 0 < x -> x < y -> L_cub x < L_cub y.
Proof. apply (Lint_incr _ _ _ interp_cub). Qed.

(** 2. *)
Theorem L_cub_growth (x y : R) :
  0 < x -> x <= y -> 10 / 7 * (ln y - ln x) <= L_cub y - L_cub x.
Proof. apply (Lint_growth _ _ _ interp_cub). Qed.

Theorem lcub_growth_binade (e : Z) (s t : R) :
  0 <= s -> s <= t -> t <= 1 ->
  10 / 7 * (ln (bval e t) - ln (bval e s)) <= lcub e t - lcub e s.
Proof.
  intros Hs Hst Ht. rewrite !ln_bval by lra. unfold lcub.
  pose proof (Pcub_growth s t Hs Hst). lra.
Qed.

(** the constant 10/7 is optimal-compatible with log2: 10/7 * ln 2 <= 1 *)
Theorem cub_const_ok : 10 / 7 * ln 2 <= 1.
Proof. pose proof (interp_K_nonneg _ _ _ interp_cub). lra. Qed.

Theorem Linv_cub_pos (t : R) : 0 < Linv_cub t.
Proof. apply (ll_inv_pos _ _ _ loglike_cub). Qed.
Theorem L_cub_Linv_cub (t : R) : L_cub (Linv_cub t) = t.
Proof. apply (ll_L_inv _ _ _ loglike_cub). Qed.
Theorem Linv_cub_L_cub (v : R) : 0 < v -> Linv_cub (L_cub v) = v.
Proof. apply (ll_inv_L _ _ _ loglike_cub). Qed.

Section Cub.
  Variables (gamma o : R).
  Hypothesis Hg : 1 < gamma.

  Theorem gamma0_cub_gt1 : 1 < gamma0_cub gamma.
  Proof. rewrite gamma0_cub_gen. apply (interp_g0_gt1 _ _ _ interp_cub _ Hg). Qed.

  (** 3. *)
  Theorem idx_cub_mono (x y : R) : 0 < x -> x <= y -> (idx_cub gamma o x <= idx_cub gamma o y)%Z.
  Proof. apply (interp_idx_mono _ _ _ interp_cub _ o Hg). Qed.

  (** 4. *)
  Theorem lower_cub_pos (i : Z) : 0 < lower_cub gamma o i.
  Proof. apply (interp_lower_pos _ _ _ interp_cub). Qed.

  Theorem L_lower_cub (i : Z) : L_cub (lower_cub gamma o i) = (IZR i - o) / mult_log2 gamma.
  Proof. apply (interp_L_lower _ _ _ interp_cub). Qed.

  Theorem lower_cub_unique (i : Z) (w : R) :
    0 < w -> L_cub w = (IZR i - o) / mult_log2 gamma -> w = lower_cub gamma o i.
  Proof. apply (interp_lower_unique _ _ _ interp_cub). Qed.

  Theorem lower_cub_incr (i j : Z) : (i < j)%Z -> lower_cub gamma o i < lower_cub gamma o j.
  Proof. apply (interp_lower_incr _ _ _ interp_cub _ o Hg). Qed.

  Theorem containment_cub (v : R) :
    0 < v -> lower_cub gamma o (idx_cub gamma o v) <= v < lower_cub gamma o (idx_cub gamma o v + 1).
  Proof. apply (interp_containment _ _ _ interp_cub _ o Hg). Qed.

  Theorem idx_cub_unique (v : R) (i : Z) :
    0 < v -> lower_cub gamma o i <= v < lower_cub gamma o (i + 1) -> idx_cub gamma o v = i.
  Proof. apply (interp_idx_unique _ _ _ interp_cub _ o Hg). Qed.

  (** 5. *)
  Theorem bin_ratio_cub (i : Z) : lower_cub gamma o (i + 1) / lower_cub gamma o i <= gamma0_cub gamma.
  Proof. rewrite gamma0_cub_gen. apply (interp_bin_ratio _ _ _ interp_cub _ o Hg). Qed.

  (** 6. *)
  Theorem accuracy_cub (v : R) :
    0 < v ->
    Rabs (value_cub gamma o (alpha_of (gamma0_cub gamma)) (idx_cub gamma o v) - v)
      <= alpha_of (gamma0_cub gamma) * v.
  Proof. rewrite gamma0_cub_gen. apply (interp_accuracy _ _ _ interp_cub _ o Hg). Qed.

  (** 9. *)
  Theorem idx_cub_int32 (v : R) :
    Rpower 2 ((- 2 ^ 31 - o) / mult_log2 gamma + 1) <= v ->
    v <= Rpower 2 ((2 ^ 31 - 1 - o) / mult_log2 gamma - 1) ->
    (- 2 ^ 31 <= idx_cub gamma o v <= 2 ^ 31 - 1)%Z.
  Proof. apply (interp_int32 _ _ _ interp_cub _ o Hg). Qed.
End Cub.

Theorem value_cub_incr (gamma o a : R) (i j : Z) :
  1 < gamma -> -1 < a -> (i < j)%Z -> value_cub gamma o a i < value_cub gamma o a j.
Proof. apply (interp_value_incr _ _ _ interp_cub). Qed.
