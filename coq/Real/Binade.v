(* SK.Real.Binade — binade decomposition of a positive real and the generic theory of an
   "interpolated base-2 logarithm"

       Lint P v = e + P s        where v = 2^e * (1 + s), e integer, 0 <= s < 1.

   What is done here (standard library [Reals] only):
   - the decomposition is a FUNCTION on R:  bexp v = floor (ln v / ln 2),
     bsig v = v / 2^(bexp v) - 1;  existence ([bdecomp]) and uniqueness
     ([bexp_bval], [bsig_bval]) of the representation v = bval e s with 0 <= s < 1;
   - [bval] is strictly increasing for the lexicographic order on (e, s) ([bval_lex]) and
     continuous across binades: (e, 1) and (e+1, 0) denote the same real ([bval_carry]);
   - for any interpolation polynomial P with P 0 = 0, P 1 = 1, P strictly increasing on
     [0,1], growth  c (ln (1+t) - ln (1+s)) <= P t - P s  on [0,1], and an inverse Pinv on
     [0,1):  (Lint P, Linvint Pinv) is [LogLike] with constant c  ([loglike_interp]). *)
From Coq Require Import Reals Lra Psatz ZArith Lia.
From SK.Real Require Import RBasics MapGeneric.
Open Scope R_scope.

(** * binade decomposition *)

Definition bexp (v : R) : Z := floorZ (ln v / ln 2).
Definition bsig (v : R) : R := v / pow2 (bexp v) - 1.
Definition bval (e : Z) (s : R) : R := pow2 e * (1 + s).

Lemma bval_pos (e : Z) (s : R) : -1 < s -> 0 < bval e s.
Proof. intros Hs. apply Rmult_lt_0_compat; [apply pow2_pos | lra]. Qed.

Lemma ln_bval (e : Z) (s : R) : -1 < s -> ln (bval e s) = IZR e * ln 2 + ln (1 + s).
Proof.
  intros Hs. unfold bval. rewrite ln_mult by (try apply pow2_pos; lra). rewrite ln_pow2. reflexivity.
Qed.

Lemma bexp_bounds (v : R) : 0 < v -> pow2 (bexp v) <= v < pow2 (bexp v + 1).
Proof.
  intros Hv. unfold bexp. destruct (floorZ_spec (ln v / ln 2)) as [Hlo Hhi].
  set (e := floorZ (ln v / ln 2)) in *. pose proof ln2_pos as H2.
  assert (Hlo' : IZR e * ln 2 <= ln v).
  { apply (Rmult_le_compat_r (ln 2)) in Hlo; [|lra]. unfold Rdiv in Hlo.
    rewrite Rmult_assoc, Rinv_l in Hlo by lra. lra. }
  assert (Hhi' : ln v < IZR (e + 1) * ln 2).
  { apply (Rmult_lt_compat_r (ln 2)) in Hhi; [|lra]. unfold Rdiv in Hhi.
    rewrite Rmult_assoc, Rinv_l in Hhi by lra. rewrite plus_IZR. simpl. lra. }
  split.
  - apply ln_le_inv; [apply pow2_pos | exact Hv |]. rewrite ln_pow2. exact Hlo'.
  - apply ln_lt_inv; [exact Hv | apply pow2_pos |]. rewrite ln_pow2. exact Hhi'.
Qed.

(** existence of the representation *)
Theorem bdecomp (v : R) : 0 < v -> 0 <= bsig v < 1 /\ v = bval (bexp v) (bsig v).
Proof.
  intros Hv. destruct (bexp_bounds v Hv) as [Hlo Hhi]. rewrite pow2_succ in Hhi.
  pose proof (pow2_pos (bexp v)) as Hp. unfold bsig, bval.
  assert (Hinv : 0 < / pow2 (bexp v)) by (apply Rinv_0_lt_compat; exact Hp).
  split; [split|].
  - apply (Rmult_le_compat_r (/ pow2 (bexp v))) in Hlo; [|lra]. rewrite Rinv_r in Hlo by lra.
    unfold Rdiv. lra.
  - apply (Rmult_lt_compat_r (/ pow2 (bexp v))) in Hhi; [|lra].
    rewrite Rmult_assoc, Rinv_r in Hhi by lra. unfold Rdiv. lra.
  - field. lra.
Qed.

Theorem bdecomp_ex (v : R) : 0 < v -> exists (e : Z) (s : R), 0 <= s < 1 /\ v = bval e s.
Proof. intros Hv. exists (bexp v), (bsig v). apply bdecomp, Hv. Qed.

(** uniqueness of the representation *)
Theorem bexp_bval (e : Z) (s : R) : 0 <= s < 1 -> bexp (bval e s) = e.
Proof.
  intros Hs. unfold bexp. apply floorZ_unique. rewrite ln_bval by lra.
  pose proof ln2_pos as H2.
  assert (H0 : 0 <= ln (1 + s)) by (rewrite <- ln_1; apply ln_le_mono; lra).
  assert (H1 : ln (1 + s) < ln 2) by (apply ln_increasing; lra).
  replace ((IZR e * ln 2 + ln (1 + s)) / ln 2) with (IZR e + ln (1 + s) / ln 2) by (field; lra).
  assert (Hinv : 0 < / ln 2) by (apply Rinv_0_lt_compat; exact H2).
  split.
  - assert (0 <= ln (1 + s) / ln 2) by (apply Rmult_le_pos; lra). lra.
  - assert (ln (1 + s) / ln 2 < 1).
    { apply (Rmult_lt_reg_r (ln 2)); [exact H2|]. unfold Rdiv.
      rewrite Rmult_assoc, Rinv_l by lra. lra. }
    lra.
Qed.

Theorem bsig_bval (e : Z) (s : R) : 0 <= s < 1 -> bsig (bval e s) = s.
Proof.
  intros Hs. unfold bsig. rewrite bexp_bval by exact Hs. unfold bval.
  pose proof (pow2_pos e). field. lra.
Qed.

Theorem bval_unique (e1 e2 : Z) (s1 s2 : R) :
  0 <= s1 < 1 -> 0 <= s2 < 1 -> bval e1 s1 = bval e2 s2 -> e1 = e2 /\ s1 = s2.
Proof.
  intros H1 H2 Heq. split.
  - rewrite <- (bexp_bval e1 s1 H1), <- (bexp_bval e2 s2 H2), Heq. reflexivity.
  - rewrite <- (bsig_bval e1 s1 H1), <- (bsig_bval e2 s2 H2), Heq. reflexivity.
Qed.

(** continuity across binades: (e,1) and (e+1,0) are the same real *)
Theorem bval_carry (e : Z) : bval e 1 = bval (e + 1) 0.
Proof. unfold bval. rewrite pow2_succ. ring. Qed.

(** [bval] is strictly increasing for the lexicographic order *)
Theorem bval_lex (e1 e2 : Z) (s1 s2 : R) :
  0 <= s1 < 1 -> 0 <= s2 < 1 ->
  (e1 < e2)%Z \/ (e1 = e2 /\ s1 < s2) -> bval e1 s1 < bval e2 s2.
Proof.
  intros H1 H2 [Hlt | [-> Hlt]]; unfold bval.
  - pose proof (pow2_pos e1) as Hp1.
    assert (Hle : pow2 (e1 + 1) <= pow2 e2) by (apply pow2_le; lia).
    rewrite pow2_succ in Hle. nra.
  - apply Rmult_lt_compat_l; [apply pow2_pos | lra].
Qed.

Theorem bval_lex_inv (e1 e2 : Z) (s1 s2 : R) :
  0 <= s1 < 1 -> 0 <= s2 < 1 ->
  bval e1 s1 < bval e2 s2 -> (e1 < e2)%Z \/ (e1 = e2 /\ s1 < s2).
Proof.
  intros H1 H2 Hlt.
  destruct (Z_lt_le_dec e1 e2) as [Hz | Hz]; [left; exact Hz | right].
  destruct (Z_lt_le_dec e2 e1) as [Hz' | Hz'].
  - pose proof (bval_lex e2 e1 s2 s1 H2 H1 (or_introl Hz')). lra.
  - assert (He : e1 = e2) by lia. split; [exact He|]. subst e2.
    destruct (Rlt_or_le s1 s2) as [Hs | Hs]; [exact Hs|].
    destruct Hs as [Hs | Hs].
    + pose proof (bval_lex e1 e1 s2 s1 H2 H1 (or_intror (conj eq_refl Hs))). lra.
    + subst s2. lra.
Qed.

Lemma bexp_mono (x y : R) : 0 < x -> x <= y -> (bexp x <= bexp y)%Z.
Proof.
  intros Hx Hxy. unfold bexp. apply floorZ_le. unfold Rdiv.
  apply Rmult_le_compat_r; [apply Rlt_le, Rinv_0_lt_compat, ln2_pos | apply ln_le_mono; assumption].
Qed.

(** * interpolated logarithm *)

Definition lpair (P : R -> R) (e : Z) (s : R) : R := IZR e + P s.
Definition Lint (P : R -> R) (v : R) : R := lpair P (bexp v) (bsig v).
Definition Linvint (Pinv : R -> R) (t : R) : R :=
  bval (floorZ t) (Pinv (t - IZR (floorZ t))).

Record Interp (P Pinv : R -> R) (c : R) : Prop := {
  ip_c_pos  : 0 < c;
  ip_0      : P 0 = 0;
  ip_1      : P 1 = 1;
  ip_incr   : forall s t, 0 <= s -> s < t -> t <= 1 -> P s < P t;
  ip_growth : forall s t, 0 <= s -> s <= t -> t <= 1 ->
                c * (ln (1 + t) - ln (1 + s)) <= P t - P s;
  ip_inv_range : forall u, 0 <= u < 1 -> 0 <= Pinv u < 1;
  ip_P_inv  : forall u, 0 <= u < 1 -> P (Pinv u) = u
}.

Section Interp.
  Variables (P Pinv : R -> R) (c : R).
  Hypothesis HP : Interp P Pinv c.

  Lemma ip_le (s t : R) : 0 <= s -> s <= t -> t <= 1 -> P s <= P t.
  Proof.
    intros Hs [Hlt | ->] Ht; [apply Rlt_le, (ip_incr _ _ _ HP); assumption | apply Rle_refl].
  Qed.

  Lemma ip_range (s : R) : 0 <= s < 1 -> 0 <= P s < 1.
  Proof.
    intros [H0 H1]. split.
    - rewrite <- (ip_0 _ _ _ HP). apply ip_le; lra.
    - rewrite <- (ip_1 _ _ _ HP). apply (ip_incr _ _ _ HP); lra.
  Qed.

  (** agreement of the function on R with the pair form, for EVERY representation
      with 0 <= s <= 1 (s = 1 included: continuity at the binade boundary) *)
  Theorem Lint_bval (e : Z) (s : R) : 0 <= s <= 1 -> Lint P (bval e s) = lpair P e s.
  Proof.
    intros [H0 [H1 | ->]].
    - unfold Lint. rewrite bexp_bval, bsig_bval by lra. reflexivity.
    - rewrite bval_carry. unfold Lint. rewrite bexp_bval, bsig_bval by lra.
      unfold lpair. rewrite plus_IZR, (ip_0 _ _ _ HP), (ip_1 _ _ _ HP). simpl. ring.
  Qed.

  Theorem lpair_carry (e : Z) : lpair P e 1 = lpair P (e + 1) 0.
  Proof. unfold lpair. rewrite plus_IZR, (ip_0 _ _ _ HP), (ip_1 _ _ _ HP). simpl. ring. Qed.

  Lemma Lint_bounds (v : R) : 0 < v -> IZR (bexp v) <= Lint P v < IZR (bexp v) + 1.
  Proof.
    intros Hv. destruct (bdecomp v Hv) as [Hs _]. pose proof (ip_range _ Hs).
    unfold Lint, lpair. lra.
  Qed.

  (** 1. strictly increasing *)
  Theorem Lint_incr (x y : R) : 0 < x -> x < y -> Lint P x < Lint P y.
  Proof.
    intros Hx Hxy. assert (Hy : 0 < y) by lra.
    destruct (bdecomp x Hx) as [Hsx Ex]. destruct (bdecomp y Hy) as [Hsy Ey].
    assert (Hlt : bval (bexp x) (bsig x) < bval (bexp y) (bsig y)) by (rewrite <- Ex, <- Ey; exact Hxy).
    destruct (bval_lex_inv _ _ _ _ Hsx Hsy Hlt) as [He | [He Hs]].
    - pose proof (Lint_bounds x Hx). pose proof (Lint_bounds y Hy).
      pose proof (IZR_le_succ _ _ He). lra.
    - unfold Lint, lpair. rewrite He. apply Rplus_lt_compat_l. apply (ip_incr _ _ _ HP); lra.
  Qed.

  (** 2. growth *)
  Let g (s : R) : R := P s - c * ln (1 + s).

  Lemma g_mono (s t : R) : 0 <= s -> s <= t -> t <= 1 -> g s <= g t.
  Proof.
    intros Hs Hst Ht. pose proof (ip_growth _ _ _ HP s t Hs Hst Ht). unfold g. lra.
  Qed.

  Lemma g_0 : g 0 = 0.
  Proof. unfold g. rewrite (ip_0 _ _ _ HP), Rplus_0_r, ln_1. ring. Qed.

  Lemma g_1 : g 1 = 1 - c * ln 2.
  Proof. unfold g. rewrite (ip_1 _ _ _ HP). replace (1 + 1) with 2 by ring. reflexivity. Qed.

  Lemma interp_K_nonneg : 0 <= 1 - c * ln 2.
  Proof. rewrite <- g_1, <- g_0. apply g_mono; lra. Qed.

  Lemma Lint_minus_ln (v : R) :
    0 < v -> Lint P v - c * ln v = IZR (bexp v) * (1 - c * ln 2) + g (bsig v).
  Proof.
    intros Hv. destruct (bdecomp v Hv) as [Hs Ev]. rewrite Ev at 2. rewrite ln_bval by lra.
    unfold Lint, lpair, g. ring.
  Qed.

  Theorem Lint_growth (x y : R) :
    0 < x -> x <= y -> c * (ln y - ln x) <= Lint P y - Lint P x.
  Proof.
    intros Hx Hxy. assert (Hy : 0 < y) by lra.
    pose proof (Lint_minus_ln x Hx) as Gx. pose proof (Lint_minus_ln y Hy) as Gy.
    destruct (bdecomp x Hx) as [Hsx Ex]. destruct (bdecomp y Hy) as [Hsy Ey].
    pose proof interp_K_nonneg as HK.
    cut (IZR (bexp x) * (1 - c * ln 2) + g (bsig x) <= IZR (bexp y) * (1 - c * ln 2) + g (bsig y));
      [lra|].
    pose proof (bexp_mono x y Hx Hxy) as He.
    destruct (Z_le_lt_eq_dec _ _ He) as [Hlt | Heq].
    - (* different binades *)
      assert (H1 : g (bsig x) <= g 1) by (apply g_mono; lra).
      assert (H0 : g 0 <= g (bsig y)) by (apply g_mono; lra).
      rewrite g_0 in H0. rewrite g_1 in H1.
      pose proof (IZR_le_succ _ _ Hlt) as Hz.
      assert (Hmul : (IZR (bexp x) + 1) * (1 - c * ln 2) <= IZR (bexp y) * (1 - c * ln 2))
        by (apply Rmult_le_compat_r; assumption).
      lra.
    - (* same binade *)
      rewrite Heq. apply Rplus_le_compat_l.
      assert (Hs : bsig x <= bsig y).
      { rewrite Ex, Ey, Heq in Hxy. unfold bval in Hxy.
        apply Rmult_le_reg_l in Hxy; [lra | apply pow2_pos]. }
      apply g_mono; lra.
  Qed.

  (** inverse *)
  Lemma frac_range (t : R) : 0 <= t - IZR (floorZ t) < 1.
  Proof. destruct (floorZ_spec t). lra. Qed.

  Lemma Linvint_pos (t : R) : 0 < Linvint Pinv t.
  Proof.
    unfold Linvint. apply bval_pos.
    pose proof (ip_inv_range _ _ _ HP _ (frac_range t)). lra.
  Qed.

  Lemma Lint_Linvint (t : R) : Lint P (Linvint Pinv t) = t.
  Proof.
    unfold Linvint. pose proof (ip_inv_range _ _ _ HP _ (frac_range t)) as Hr.
    rewrite Lint_bval by lra. unfold lpair.
    rewrite (ip_P_inv _ _ _ HP) by apply frac_range. ring.
  Qed.

  Theorem loglike_interp : LogLike (Lint P) (Linvint Pinv) c.
  Proof.
    constructor.
    - apply (ip_c_pos _ _ _ HP).
    - apply Linvint_pos.
    - apply Lint_Linvint.
    - apply Lint_incr.
    - apply Lint_growth.
  Qed.

  (** [Pinv] is also a left inverse of P on [0,1) *)
  Lemma ip_inv_P (s : R) : 0 <= s < 1 -> Pinv (P s) = s.
  Proof.
    intros Hs. pose proof (ip_range s Hs) as Hr.
    pose proof (ip_inv_range _ _ _ HP _ Hr) as Hi. pose proof (ip_P_inv _ _ _ HP _ Hr) as He.
    destruct (Rtotal_order (Pinv (P s)) s) as [Hlt | [Heq | Hgt]]; [|exact Heq|].
    - pose proof (ip_incr _ _ _ HP (Pinv (P s)) s). lra.
    - pose proof (ip_incr _ _ _ HP s (Pinv (P s))). lra.
  Qed.

  (** the inverse on pairs *)
  Theorem Linvint_lpair (e : Z) (s : R) : 0 <= s < 1 -> Linvint Pinv (lpair P e s) = bval e s.
  Proof.
    intros Hs. pose proof (ip_range s Hs) as Hr. unfold Linvint, lpair.
    assert (Hf : floorZ (IZR e + P s) = e) by (apply floorZ_unique; lra).
    rewrite Hf. replace (IZR e + P s - IZR e) with (P s) by ring. rewrite ip_inv_P by exact Hs.
    reflexivity.
  Qed.
End Interp.

(** * multiplier and adjusted gamma for the two interpolated kinds *)

Definition mult_log2 (gamma : R) : R := ln 2 / ln gamma.       (* = 1 / log2 gamma *)

Lemma mult_log2_pos (gamma : R) : 1 < gamma -> 0 < mult_log2 gamma.
Proof.
  intros Hg. unfold mult_log2. apply Rmult_lt_0_compat; [apply ln2_pos|].
  apply Rinv_0_lt_compat, ln_pos_gt1, Hg.
Qed.

Lemma mult_log2_alt (gamma : R) : 1 < gamma -> mult_log2 gamma = 1 / (ln gamma / ln 2).
Proof.
  intros Hg. pose proof (ln_pos_gt1 _ Hg). pose proof ln2_pos. unfold mult_log2. field. lra.
Qed.

Lemma gamma0_interp (c gamma : R) :
  0 < c -> 1 < gamma -> gamma0_of c (mult_log2 gamma) = Rpower gamma (1 / (c * ln 2)).
Proof.
  intros Hc Hg. pose proof (ln_pos_gt1 _ Hg). pose proof ln2_pos.
  unfold gamma0_of, mult_log2, Rpower. f_equal. field. lra.
Qed.

(** int32 range, generic in the interpolation (item 9 for lin/cub) *)
Section InterpInt32.
  Variables (P Pinv : R -> R) (c : R).
  Hypothesis HP : Interp P Pinv c.

  Theorem idx_interp_int32 (m o v : R) :
    0 < m ->
    Rpower 2 ((- 2 ^ 31 - o) / m + 1) <= v ->
    v <= Rpower 2 ((2 ^ 31 - 1 - o) / m - 1) ->
    (- 2 ^ 31 <= idx_of (Lint P) m o v <= 2 ^ 31 - 1)%Z.
  Proof.
    intros Hm Hlo Hhi. unfold Rpower in Hlo, Hhi. pose proof ln2_pos as H2.
    assert (Hv : 0 < v) by (eapply Rlt_le_trans; [apply exp_pos | exact Hlo]).
    apply ln_le_mono in Hlo; [|apply exp_pos]. rewrite ln_exp in Hlo.
    apply (ln_le_mono _ _ Hv) in Hhi. rewrite ln_exp in Hhi.
    assert (Hinv : 0 < / ln 2) by (apply Rinv_0_lt_compat; exact H2).
    assert (Hlo' : (- 2 ^ 31 - o) / m + 1 <= ln v / ln 2).
    { apply (Rmult_le_reg_r (ln 2)); [exact H2|].
      replace (ln v / ln 2 * ln 2) with (ln v) by (field; lra). lra. }
    assert (Hhi' : ln v / ln 2 <= (2 ^ 31 - 1 - o) / m - 1).
    { apply (Rmult_le_reg_r (ln 2)); [exact H2|].
      replace (ln v / ln 2 * ln 2) with (ln v) by (field; lra). lra. }
    pose proof (Lint_bounds P Pinv c HP v Hv) as [Lb Ub].
    destruct (floorZ_spec (ln v / ln 2)) as [Fl Fu]. fold (bexp v) in Fl, Fu.
    assert (T1 : (- 2 ^ 31 - o) / m <= Lint P v) by lra.
    assert (T2 : Lint P v <= (2 ^ 31 - 1 - o) / m) by lra.
    apply (Rmult_le_compat_r _ _ _ (Rlt_le _ _ Hm)) in T1.
    apply (Rmult_le_compat_r _ _ _ (Rlt_le _ _ Hm)) in T2.
    unfold Rdiv in T1, T2. rewrite Rmult_assoc, Rinv_l in T1, T2 by lra.
    unfold idx_of. split.
    - apply floorZ_ge_Z. change (- 2 ^ 31)%Z with (-2147483648)%Z. lra.
    - assert (H : (floorZ (Lint P v * m + o) < 2 ^ 31)%Z); [|lia].
      apply floorZ_lt_Z. change (2 ^ 31)%Z with (2147483648)%Z. lra.
  Qed.
End InterpInt32.

(** * the six mapping theorems for an arbitrary interpolation, multiplier ln 2 / ln gamma *)
Section InterpMapping.
  Variables (P Pinv : R -> R) (c : R).
  Hypothesis HP : Interp P Pinv c.
  Variables (gamma o : R).
  Hypothesis Hg : 1 < gamma.

  Let m := mult_log2 gamma.
  Let idx := idx_of (Lint P) m o.
  Let lower := lower_of (Linvint Pinv) m o.
  Let g0 := Rpower gamma (1 / (c * ln 2)).

  Lemma interp_g0_eq : gamma0_of c m = g0.
  Proof. apply gamma0_interp; [apply (ip_c_pos _ _ _ HP) | exact Hg]. Qed.

  Theorem interp_g0_gt1 : 1 < g0.
  Proof.
    rewrite <- interp_g0_eq.
    apply (gen_gamma0_gt1 c m (mult_log2_pos _ Hg)), (ip_c_pos _ _ _ HP).
  Qed.

  Theorem interp_idx_mono (x y : R) : 0 < x -> x <= y -> (idx x <= idx y)%Z.
  Proof. apply (gen_idx_mono _ _ _ (loglike_interp _ _ _ HP) _ _ (mult_log2_pos _ Hg)). Qed.

  Theorem interp_lower_pos (i : Z) : 0 < lower i.
  Proof. apply (gen_lower_pos _ _ _ (loglike_interp _ _ _ HP)). Qed.

  Theorem interp_L_lower (i : Z) : Lint P (lower i) = (IZR i - o) / m.
  Proof. apply (gen_L_lower _ _ _ (loglike_interp _ _ _ HP)). Qed.

  Theorem interp_lower_unique (i : Z) (w : R) :
    0 < w -> Lint P w = (IZR i - o) / m -> w = lower i.
  Proof. apply (ll_inv_unique _ _ _ (loglike_interp _ _ _ HP)). Qed.

  Theorem interp_lower_incr (i j : Z) : (i < j)%Z -> lower i < lower j.
  Proof. apply (gen_lower_incr _ _ _ (loglike_interp _ _ _ HP) _ _ (mult_log2_pos _ Hg)). Qed.

  Theorem interp_containment (v : R) : 0 < v -> lower (idx v) <= v < lower (idx v + 1).
  Proof. apply (gen_containment _ _ _ (loglike_interp _ _ _ HP) _ _ (mult_log2_pos _ Hg)). Qed.

  Theorem interp_idx_unique (v : R) (i : Z) :
    0 < v -> lower i <= v < lower (i + 1) -> idx v = i.
  Proof. apply (gen_idx_unique _ _ _ (loglike_interp _ _ _ HP) _ _ (mult_log2_pos _ Hg)). Qed.

  Theorem interp_bin_ratio (i : Z) : lower (i + 1) / lower i <= g0.
  Proof.
    rewrite <- interp_g0_eq.
    apply (gen_bin_ratio_div _ _ _ (loglike_interp _ _ _ HP) _ _ (mult_log2_pos _ Hg)).
  Qed.

  Theorem interp_accuracy (v : R) :
    0 < v -> Rabs (value_of (Linvint Pinv) m o (alpha_of g0) (idx v) - v) <= alpha_of g0 * v.
  Proof.
    intros Hv. rewrite <- interp_g0_eq.
    apply (gen_accuracy _ _ _ (loglike_interp _ _ _ HP) _ _ (mult_log2_pos _ Hg)). exact Hv.
  Qed.

  Theorem interp_int32 (v : R) :
    Rpower 2 ((- 2 ^ 31 - o) / m + 1) <= v ->
    v <= Rpower 2 ((2 ^ 31 - 1 - o) / m - 1) ->
    (- 2 ^ 31 <= idx v <= 2 ^ 31 - 1)%Z.
  Proof. apply (idx_interp_int32 _ _ _ HP), (mult_log2_pos _ Hg). Qed.
End InterpMapping.

Theorem interp_value_incr (P Pinv : R -> R) (c : R) (HP : Interp P Pinv c)
  (gamma o a : R) (i j : Z) :
  1 < gamma -> -1 < a -> (i < j)%Z ->
  value_of (Linvint Pinv) (mult_log2 gamma) o a i < value_of (Linvint Pinv) (mult_log2 gamma) o a j.
Proof.
  intros Hg Ha Hij.
  apply (gen_value_incr _ _ _ (loglike_interp _ _ _ HP) _ o (mult_log2_pos _ Hg)); assumption.
Qed.
