(* The executable binary64 rounding operator [rnd64] of Base/F64.v satisfies, on dyadic rationals,
   the abstract hypotheses the theorems of the development assume of [rnd : Qc -> Qc].
   Bridge Qc <-> R through [qR], Flocq's [binary_normalize_correct], [round_generic], [round_le]. *)
From Coq Require Import Bool NArith ZArith QArith Qcanon Qreals Reals Lra Lia Znumtheory.
From Flocq Require Import Core.Core Relative IEEE754.BinarySingleNaN IEEE754.Binary IEEE754.Bits.
From SK Require Import Base.Prelude Base.F64.

(* ------------------------------------------------------------------ *)
(* definitions                                                         *)
(* ------------------------------------------------------------------ *)
Definition qR (q : Qc) : R := Q2R (this q).

Definition dyadic (q : Qc) : Prop :=
  exists n k : Z, 0 <= k /\ q = Q2Qc (inject_Z n / inject_Z (2 ^ k)).

(* the test [q2f] performs *)
Definition dyadic_den (q : Qc) : Prop :=
  Zpos (Qden (this q)) = 2 ^ Z.log2 (Zpos (Qden (this q))).

(* round to nearest even in binary64 (gradual underflow, unbounded exponent above) *)
Definition rndR (x : R) : R := round radix2 (FLT_exp (-1074) 53) ZnearestE x.

(* largest finite binary64: 2^1024 - 2^971 = (2^53 - 1) * 2^971 *)
Definition f64max_Z : Z := (2 ^ 53 - 1) * 2 ^ 971.
Definition f64max : Qc := Q2Qc (inject_Z f64max_Z).
Definition in_range (q : Qc) : Prop := (- f64max <= q)%Qc /\ (q <= f64max)%Qc.

(* ------------------------------------------------------------------ *)
(* Qc <-> R                                                            *)
(* ------------------------------------------------------------------ *)
Lemma qR_Q2Qc (a : Q) : qR (Q2Qc a) = Q2R a.
Proof. unfold qR. apply Qeq_eqR. change (this (Q2Qc a)) with (Qred a). apply Qred_correct. Qed.

Lemma qR_inj (x y : Qc) : qR x = qR y -> x = y.
Proof. intros H. apply Qc_is_canon. apply eqR_Qeq. exact H. Qed.

Lemma qR_le (x y : Qc) : (x <= y)%Qc <-> (qR x <= qR y)%R.
Proof. split; [apply Qle_Rle | apply Rle_Qle]. Qed.

Lemma qR_lt (x y : Qc) : (x < y)%Qc <-> (qR x < qR y)%R.
Proof. split; [apply Qlt_Rlt | apply Rlt_Qlt]. Qed.

Lemma qR_plus (x y : Qc) : qR (x + y) = (qR x + qR y)%R.
Proof. change (x + y)%Qc with (Q2Qc (this x + this y)). rewrite qR_Q2Qc. apply Q2R_plus. Qed.

Lemma qR_mult (x y : Qc) : qR (x * y) = (qR x * qR y)%R.
Proof. change (x * y)%Qc with (Q2Qc (this x * this y)). rewrite qR_Q2Qc. apply Q2R_mult. Qed.

Lemma qR_opp (x : Qc) : qR (- x) = (- qR x)%R.
Proof. change (- x)%Qc with (Q2Qc (- this x)). rewrite qR_Q2Qc. apply Q2R_opp. Qed.

Lemma qR_minus (x y : Qc) : qR (x - y) = (qR x - qR y)%R.
Proof. unfold Qcminus. rewrite qR_plus, qR_opp. ring. Qed.

Lemma Q2R_inject_Z (z : Z) : Q2R (inject_Z z) = IZR z.
Proof. unfold Q2R, inject_Z. cbn [Qnum Qden]. rewrite Rinv_1. ring. Qed.

Lemma qR_of_Z (z : Z) : qR (Q2Qc (inject_Z z)) = IZR z.
Proof. rewrite qR_Q2Qc. apply Q2R_inject_Z. Qed.

Lemma qR_w0 : qR w0 = 0%R.
Proof. unfold w0. change 0%Q with (inject_Z 0). apply qR_of_Z. Qed.

Lemma Q2R_pow2Q (e : Z) : Q2R (pow2Q e) = bpow radix2 e.
Proof.
  destruct e as [|p|p]; unfold pow2Q.
  - change 1%Q with (inject_Z 1). rewrite Q2R_inject_Z. reflexivity.
  - rewrite Q2R_inject_Z. reflexivity.
  - unfold Q2R. cbn [Qnum Qden]. rewrite Pos2Z.inj_pow_pos.
    change (bpow radix2 (Z.neg p)) with (/ IZR (Z.pow_pos 2 p))%R. ring.
Qed.

(* 1. exact-value bridge *)
Lemma f2q_B2R (x : f64) : is_finite 53 1024 x = true -> qR (f2q x) = B2R 53 1024 x.
Proof.
  destruct x as [s|s|s pl H|s m e H]; intros Hf; try discriminate Hf.
  - unfold f2q, f2v. rewrite qR_w0. reflexivity.
  - unfold f2q, f2v. rewrite qR_Q2Qc, Q2R_mult, Q2R_inject_Z, Q2R_pow2Q.
    unfold B2R, F2R. cbn [Fnum Fexp]. destruct s; reflexivity.
Qed.

Lemma f2q_not_finite (x : f64) : is_finite 53 1024 x = false -> f2q x = w0.
Proof. destruct x; intros Hf; try discriminate Hf; reflexivity. Qed.

(* ------------------------------------------------------------------ *)
(* dyadic rationals: the two forms                                     *)
(* ------------------------------------------------------------------ *)
Lemma pos_divide_pow2 (d : positive) :
  forall k : Z, 0 <= k -> (Zpos d | 2 ^ k) -> exists j : Z, 0 <= j /\ Zpos d = 2 ^ j.
Proof.
  induction d as [d IH|d IH|]; intros k Hk Hd.
  - exfalso.
    assert (Hg : Z.gcd (Zpos d~1) (2 ^ k) = 1).
    { apply Zgcd_1_rel_prime. apply Zpow_facts.rel_prime_Zpower_r; [exact Hk|].
      apply Zgcd_1_rel_prime.
      pose proof (Z.gcd_nonneg (Zpos d~1) 2) as Hn.
      pose proof (Z.gcd_divide_l (Zpos d~1) 2) as Hl.
      pose proof (Z.gcd_divide_r (Zpos d~1) 2) as Hr.
      apply Z.divide_pos_le in Hr; [|lia].
      destruct Hl as [c Hc]. set (g := Z.gcd (Zpos d~1) 2) in *.
      assert (Hcase : g = 0 \/ g = 1 \/ g = 2) by lia.
      destruct Hcase as [Hc0|[Hc1|Hc2]]; [rewrite Hc0 in Hc; lia|exact Hc1|rewrite Hc2 in Hc; lia]. }
    assert (H1 : (Zpos d~1 | 1)).
    { apply (Z.gauss _ (2 ^ k) 1); [rewrite Z.mul_1_r; exact Hd|exact Hg]. }
    apply Z.divide_1_r in H1. lia.
  - destruct (Z.eq_dec k 0) as [->|Hk0].
    + exfalso. change (2 ^ 0) with 1 in Hd. apply Z.divide_1_r in Hd. lia.
    + replace (2 ^ k) with (2 * 2 ^ (k - 1)) in Hd
        by (rewrite <- Z.pow_succ_r by lia; f_equal; lia).
      change (Zpos d~0) with (2 * Zpos d) in Hd.
      apply Z.mul_divide_cancel_l in Hd; [|lia].
      destruct (IH (k - 1) ltac:(lia) Hd) as (j & Hj & Ej).
      exists (j + 1). split; [lia|].
      change (Zpos d~0) with (2 * Zpos d). rewrite Ej, Z.pow_add_r by lia. lia.
  - exists 0. split; [lia|reflexivity].
Qed.

Lemma dyadic_den_of_dyadic (q : Qc) : dyadic q -> dyadic_den q.
Proof.
  intros (n & k & Hk & ->). unfold dyadic_den.
  set (a := (inject_Z n / inject_Z (2 ^ k))%Q).
  change (this (Q2Qc a)) with (Qred a).
  assert (Hg : Z.gcd (Qnum (Qred a)) (QDen (Qred a)) = 1).
  { apply Qred_identity2. apply Qred_involutive. }
  assert (Hp : 0 < 2 ^ k) by (apply Z.pow_pos_nonneg; lia).
  destruct (2 ^ k) as [|p|p] eqn:Ep; try lia.
  assert (He : (Qred a == n # p)%Q).
  { rewrite Qred_correct. unfold a. symmetry. apply Qmake_Qdiv. }
  unfold Qeq in He. cbn [Qnum Qden] in He.
  assert (Hd : (QDen (Qred a) | 2 ^ k)).
  { apply (Z.gauss _ (Qnum (Qred a))); [|rewrite Z.gcd_comm; exact Hg].
    rewrite Ep, He. apply Z.divide_factor_r. }
  destruct (pos_divide_pow2 _ k Hk Hd) as (j & Hj & Ej).
  rewrite Ej. rewrite Z.log2_pow2 by exact Hj. reflexivity.
Qed.

Lemma dyadic_of_dyadic_den (q : Qc) : dyadic_den q -> dyadic q.
Proof.
  unfold dyadic_den. intros H.
  exists (Qnum (this q)), (Z.log2 (Zpos (Qden (this q)))). split; [apply Z.log2_nonneg|].
  apply Qc_is_canon.
  change (this (Q2Qc ?a)) with (Qred a). rewrite Qred_correct, <- H, <- Qmake_Qdiv.
  destruct (this q); reflexivity.
Qed.

Lemma dyadic_iff (q : Qc) : dyadic q <-> dyadic_den q.
Proof. split; [apply dyadic_den_of_dyadic|apply dyadic_of_dyadic_den]. Qed.

(* value of a dyadic rational as a radix-2 float *)
Lemma qR_dyadic_F2R (q : Qc) : dyadic_den q ->
  qR q = F2R (Float radix2 (Qnum (this q)) (- Z.log2 (Zpos (Qden (this q))))).
Proof.
  unfold dyadic_den. intros H. unfold qR, Q2R, F2R. cbn [Fnum Fexp].
  rewrite bpow_opp, <- IZR_Zpower by apply Z.log2_nonneg.
  change (radix2 ^ Z.log2 (Zpos (Qden (this q)))) with (2 ^ Z.log2 (Zpos (Qden (this q)))).
  rewrite <- H. reflexivity.
Qed.

(* ------------------------------------------------------------------ *)
(* 2. q2f on dyadic rationals is Flocq's round to nearest even         *)
(* ------------------------------------------------------------------ *)
Lemma prec53_gt_0 : Prec_gt_0 53.
Proof. reflexivity. Qed.
#[local] Existing Instance prec53_gt_0.

Lemma fexp64_valid : Valid_exp (FLT_exp (-1074) 53).
Proof. apply FLT_exp_valid. exact prec53_gt_0. Qed.
#[local] Existing Instance fexp64_valid.

Lemma q2f_dyadic_eq (q : Qc) : dyadic q ->
  q2f q = binary_normalize 53 1024 eq_refl eq_refl mode_NE
            (Qnum (this q)) (- Z.log2 (Zpos (Qden (this q)))) false.
Proof.
  intros Hd. apply dyadic_den_of_dyadic in Hd. unfold dyadic_den in Hd.
  unfold q2f. cbv zeta. rewrite (proj2 (Z.eqb_eq _ _) Hd). reflexivity.
Qed.

Lemma q2f_correct (q : Qc) : dyadic q ->
  (Rabs (rndR (qR q)) < bpow radix2 1024)%R ->
  is_finite 53 1024 (q2f q) = true /\ B2R 53 1024 (q2f q) = rndR (qR q).
Proof.
  intros Hd Hov. rewrite (q2f_dyadic_eq q Hd).
  pose proof (binary_normalize_correct 53 1024 eq_refl eq_refl mode_NE
                (Qnum (this q)) (- Z.log2 (Zpos (Qden (this q)))) false) as H.
  rewrite <- (qR_dyadic_F2R q (dyadic_den_of_dyadic q Hd)) in H.
  change (round radix2 (SpecFloat.fexp 53 1024) (round_mode mode_NE)) with rndR in H.
  rewrite Rlt_bool_true in H by exact Hov.
  destruct H as (HR & HF & _). split; assumption.
Qed.

Lemma rnd64_R (q : Qc) : dyadic q ->
  (Rabs (rndR (qR q)) < bpow radix2 1024)%R -> qR (rnd64 q) = rndR (qR q).
Proof.
  intros Hd Hov. destruct (q2f_correct q Hd Hov) as (HF & HR).
  unfold rnd64. rewrite (f2q_B2R _ HF). exact HR.
Qed.

(* ------------------------------------------------------------------ *)
(* the no-overflow range                                               *)
(* ------------------------------------------------------------------ *)
Lemma f64max_format : generic_format radix2 (FLT_exp (-1074) 53) (IZR f64max_Z).
Proof.
  apply generic_format_FLT.
  apply (FLT_spec radix2 (-1074) 53 _ (Float radix2 (2 ^ 53 - 1) 971)).
  - unfold f64max_Z, F2R. cbn [Fnum Fexp]. rewrite mult_IZR.
    rewrite <- (IZR_Zpower radix2 971) by lia. reflexivity.
  - cbn [Fnum]. change (radix2 ^ 53) with 9007199254740992.
    change (2 ^ 53 - 1) with 9007199254740991. lia.
  - cbn [Fexp]. lia.
Qed.

Lemma f64max_lt_emax : (IZR f64max_Z < bpow radix2 1024)%R.
Proof. rewrite <- (IZR_Zpower radix2 1024) by lia. apply IZR_lt. reflexivity. Qed.

Lemma f64max_nonneg : (0 <= IZR f64max_Z)%R.
Proof. apply IZR_le. discriminate. Qed.

Lemma in_range_Rabs (q : Qc) : in_range q <-> (Rabs (qR q) <= IZR f64max_Z)%R.
Proof.
  unfold in_range. rewrite !qR_le, qR_opp. unfold f64max. rewrite qR_of_Z. split.
  - intros [H1 H2]. apply Rabs_le. split; assumption.
  - intros H. apply Rabs_le_inv in H. exact H.
Qed.

Lemma no_overflow_Rabs (x : R) : (Rabs x <= IZR f64max_Z)%R ->
  (Rabs (rndR x) < bpow radix2 1024)%R.
Proof.
  intros H. apply Rle_lt_trans with (IZR f64max_Z); [|exact f64max_lt_emax].
  unfold rndR. apply abs_round_le_generic.
  - exact fexp64_valid.
  - apply valid_rnd_N.
  - exact f64max_format.
  - exact H.
Qed.

Lemma no_overflow (q : Qc) : in_range q -> (Rabs (rndR (qR q)) < bpow radix2 1024)%R.
Proof. intros H. apply no_overflow_Rabs. apply in_range_Rabs. exact H. Qed.

(* a convenient sufficient condition: |q| <= an integer below the largest float *)
Lemma in_range_of_Z_bound (q : Qc) (b : Z) : b <= f64max_Z ->
  (- Q2Qc (inject_Z b) <= q)%Qc -> (q <= Q2Qc (inject_Z b))%Qc -> in_range q.
Proof.
  intros Hb H1 H2. apply in_range_Rabs. apply qR_le in H1, H2.
  rewrite qR_opp, qR_of_Z in H1. rewrite qR_of_Z in H2.
  apply IZR_le in Hb. apply Rabs_le. lra.
Qed.

Lemma rnd64_R_in_range (q : Qc) : dyadic q -> in_range q -> qR (rnd64 q) = rndR (qR q).
Proof. intros Hd Hr. apply rnd64_R; [exact Hd|apply no_overflow; exact Hr]. Qed.

(* ------------------------------------------------------------------ *)
(* 3. monotonicity                                                     *)
(* ------------------------------------------------------------------ *)
Lemma rnd64_mono_gen (x y : Qc) : dyadic x -> dyadic y ->
  (Rabs (rndR (qR x)) < bpow radix2 1024)%R -> (Rabs (rndR (qR y)) < bpow radix2 1024)%R ->
  (x <= y)%Qc -> (rnd64 x <= rnd64 y)%Qc.
Proof.
  intros Hdx Hdy Hox Hoy Hxy. apply qR_le.
  rewrite (rnd64_R x Hdx Hox), (rnd64_R y Hdy Hoy).
  unfold rndR. apply round_le.
  - exact fexp64_valid.
  - apply valid_rnd_N.
  - apply qR_le. exact Hxy.
Qed.

Lemma rnd64_mono (x y : Qc) : dyadic x -> dyadic y -> in_range x -> in_range y ->
  (x <= y)%Qc -> (rnd64 x <= rnd64 y)%Qc.
Proof.
  intros Hdx Hdy Hrx Hry. apply rnd64_mono_gen; auto using no_overflow.
Qed.

(* ------------------------------------------------------------------ *)
(* 4./5. fixed points: representable numbers, integers, float values   *)
(* ------------------------------------------------------------------ *)
Lemma rnd64_fix (q : Qc) : dyadic q ->
  generic_format radix2 (FLT_exp (-1074) 53) (qR q) ->
  (Rabs (qR q) < bpow radix2 1024)%R -> rnd64 q = q.
Proof.
  intros Hd Hg Hb.
  assert (Hr : rndR (qR q) = qR q).
  { unfold rndR. apply round_generic; [apply valid_rnd_N|exact Hg]. }
  apply qR_inj. rewrite rnd64_R; [exact Hr|exact Hd|rewrite Hr; exact Hb].
Qed.

Lemma nat_int_format (m : Z) : 0 <= m <= 2 ^ 53 ->
  generic_format radix2 (FLT_exp (-1074) 53) (IZR m).
Proof.
  change (2 ^ 53) with 9007199254740992.
  intros Hm. apply generic_format_FLT.
  destruct (Z.eq_dec m 9007199254740992) as [->|Hne].
  - apply (FLT_spec radix2 (-1074) 53 _ (Float radix2 4503599627370496 1)).
    + unfold F2R, Fnum, Fexp, bpow. simpl Z.pow_pos. lra.
    + cbn. lia.
    + cbn. lia.
  - apply (FLT_spec radix2 (-1074) 53 _ (Float radix2 m 0)).
    + unfold F2R, Fnum, Fexp, bpow. lra.
    + cbn [Fnum]. change (radix2 ^ 53) with 9007199254740992. lia.
    + cbn. lia.
Qed.

Lemma int_format (z : Z) : Z.abs z <= 2 ^ 53 ->
  generic_format radix2 (FLT_exp (-1074) 53) (IZR z).
Proof.
  intros Hz. destruct (Z_le_gt_dec 0 z) as [Hp|Hn].
  - apply nat_int_format. lia.
  - replace z with (- (- z)) by lia. rewrite opp_IZR. apply generic_format_opp.
    apply nat_int_format. lia.
Qed.

Lemma int_lt_emax (z : Z) : Z.abs z <= 2 ^ 53 -> (Rabs (IZR z) < bpow radix2 1024)%R.
Proof.
  intros Hz. rewrite <- abs_IZR. apply Rle_lt_trans with (bpow radix2 53).
  - rewrite <- (IZR_Zpower radix2 53) by lia. apply IZR_le. exact Hz.
  - apply bpow_lt. lia.
Qed.

Lemma inject_Z_pow2_nz (k : Z) : 0 <= k -> ~ (inject_Z (2 ^ k) == 0)%Q.
Proof.
  intros Hk H. unfold Qeq in H. cbn [Qnum Qden inject_Z] in H.
  pose proof (Z.pow_pos_nonneg 2 k ltac:(lia) Hk). lia.
Qed.

Lemma dyadic_of_Z (z : Z) : dyadic (Q2Qc (inject_Z z)).
Proof.
  exists z, 0. split; [lia|]. apply Q2Qc_eq_iff. change (inject_Z (2 ^ 0)) with 1%Q.
  field.
Qed.

Lemma rnd64_int (z : Z) : Z.abs z <= 2 ^ 53 -> rnd64 (Q2Qc (inject_Z z)) = Q2Qc (inject_Z z).
Proof.
  intros Hz. apply rnd64_fix.
  - apply dyadic_of_Z.
  - rewrite qR_of_Z. apply int_format. exact Hz.
  - rewrite qR_of_Z. apply int_lt_emax. exact Hz.
Qed.

Lemma rnd64_w0 : rnd64 w0 = w0.
Proof. exact (rnd64_int 0 ltac:(discriminate)). Qed.

(* ------------------------------------------------------------------ *)
(* 6. closure of the dyadic rationals                                  *)
(* ------------------------------------------------------------------ *)
Lemma Q2Qc_mult (a b : Q) : Q2Qc (a * b) = (Q2Qc a * Q2Qc b)%Qc.
Proof.
  unfold Qcmult. apply Q2Qc_eq_iff. change (this (Q2Qc ?c)) with (Qred c).
  rewrite !Qred_correct. reflexivity.
Qed.

Lemma dyadic_plus (x y : Qc) : dyadic x -> dyadic y -> dyadic (x + y).
Proof.
  intros (n1 & k1 & H1 & ->) (n2 & k2 & H2 & ->).
  exists (n1 * 2 ^ k2 + n2 * 2 ^ k1), (k1 + k2). split; [lia|].
  unfold Qcplus. apply Q2Qc_eq_iff. change (this (Q2Qc ?c)) with (Qred c).
  rewrite !Qred_correct. rewrite Z.pow_add_r by lia.
  rewrite inject_Z_plus, !inject_Z_mult.
  pose proof (inject_Z_pow2_nz k1 H1) as Z1. pose proof (inject_Z_pow2_nz k2 H2) as Z2.
  set (A := inject_Z (2 ^ k1)) in *. set (B := inject_Z (2 ^ k2)) in *.
  field. split; assumption.
Qed.

Lemma dyadic_mult (x y : Qc) : dyadic x -> dyadic y -> dyadic (x * y).
Proof.
  intros (n1 & k1 & H1 & ->) (n2 & k2 & H2 & ->).
  exists (n1 * n2), (k1 + k2). split; [lia|].
  unfold Qcmult. apply Q2Qc_eq_iff. change (this (Q2Qc ?c)) with (Qred c).
  rewrite !Qred_correct. rewrite Z.pow_add_r by lia.
  rewrite !inject_Z_mult.
  pose proof (inject_Z_pow2_nz k1 H1) as Z1. pose proof (inject_Z_pow2_nz k2 H2) as Z2.
  set (A := inject_Z (2 ^ k1)) in *. set (B := inject_Z (2 ^ k2)) in *.
  field. split; assumption.
Qed.

Lemma dyadic_opp (x : Qc) : dyadic x -> dyadic (- x).
Proof.
  intros (n1 & k1 & H1 & ->).
  exists (- n1), k1. split; [lia|].
  unfold Qcopp. apply Q2Qc_eq_iff. change (this (Q2Qc ?c)) with (Qred c).
  rewrite !Qred_correct. rewrite inject_Z_opp.
  pose proof (inject_Z_pow2_nz k1 H1) as Z1.
  set (A := inject_Z (2 ^ k1)) in *.
  field. assumption.
Qed.

Lemma dyadic_minus (x y : Qc) : dyadic x -> dyadic y -> dyadic (x - y).
Proof. intros Hx Hy. unfold Qcminus. apply dyadic_plus; [exact Hx|apply dyadic_opp; exact Hy]. Qed.

Lemma dyadic_w0 : dyadic w0.
Proof. exact (dyadic_of_Z 0). Qed.

Lemma dyadic_pow2Q (e : Z) : dyadic (Q2Qc (pow2Q e)).
Proof.
  destruct e as [|p|p]; unfold pow2Q.
  - exact (dyadic_of_Z 1).
  - apply dyadic_of_Z.
  - exists 1, (Zpos p). split; [lia|]. apply Q2Qc_eq_iff.
    change (2 ^ Zpos p) with (Z.pow_pos 2 p). rewrite <- Pos2Z.inj_pow_pos.
    apply Qmake_Qdiv.
Qed.

Lemma dyadic_f2q (x : f64) : dyadic (f2q x).
Proof.
  destruct x as [s|s|s pl H|s m e H]; try exact dyadic_w0.
  unfold f2q, f2v. rewrite Q2Qc_mult. apply dyadic_mult; [apply dyadic_of_Z|apply dyadic_pow2Q].
Qed.

Lemma dyadic_rnd64 (q : Qc) : dyadic (rnd64 q).
Proof. unfold rnd64. apply dyadic_f2q. Qed.

(* ------------------------------------------------------------------ *)
(* 5. float values are fixed points; idempotence                       *)
(* ------------------------------------------------------------------ *)
Lemma rnd64_f2q (x : f64) : rnd64 (f2q x) = f2q x.
Proof.
  destruct (is_finite 53 1024 x) eqn:HF.
  - apply rnd64_fix.
    + apply dyadic_f2q.
    + rewrite (f2q_B2R x HF).
      exact (generic_format_B2R 53 1024 x).
    + rewrite (f2q_B2R x HF). apply abs_B2R_lt_emax.
  - rewrite (f2q_not_finite x HF). exact rnd64_w0.
Qed.

Lemma rnd64_exact (q : Qc) (x : f64) : is_finite 53 1024 x = true -> q = f2q x -> rnd64 q = q.
Proof. intros _ ->. apply rnd64_f2q. Qed.

(* unconditional: holds for every q (if q2f q is not finite, rnd64 q = 0) *)
Lemma rnd64_idem (q : Qc) : rnd64 (rnd64 q) = rnd64 q.
Proof. unfold rnd64 at 2 3. apply rnd64_f2q. Qed.

Lemma exactb_rnd64 (q : Qc) : exactb (rnd64 q) = true.
Proof.
  unfold exactb, weqb. rewrite rnd64_idem.
  rewrite (proj1 (Qceq_alt (rnd64 q) (rnd64 q)) eq_refl). reflexivity.
Qed.

(* ------------------------------------------------------------------ *)
(* 7. error bounds                                                     *)
(* ------------------------------------------------------------------ *)
Lemma rnd64_err_ulp (q : Qc) : dyadic q -> in_range q ->
  (Rabs (qR (rnd64 q) - qR q) <= / 2 * ulp radix2 (FLT_exp (-1074) 53) (qR q))%R.
Proof.
  intros Hd Hr. rewrite (rnd64_R_in_range q Hd Hr). unfold rndR.
  apply error_le_half_ulp. exact fexp64_valid.
Qed.

Lemma rnd64_err_rel (q : Qc) : dyadic q -> in_range q ->
  (bpow radix2 (-1022) <= Rabs (qR q))%R ->
  (Rabs (qR (rnd64 q) - qR q) <= bpow radix2 (-53) * Rabs (qR q))%R.
Proof.
  intros Hd Hr Hn. rewrite (rnd64_R_in_range q Hd Hr). unfold rndR.
  replace (bpow radix2 (-53)) with (/ 2 * bpow radix2 (- (53) + 1))%R.
  - apply relative_error_N_FLT; [reflexivity|exact Hn].
  - change (- (53) + 1) with (-53 + 1). rewrite bpow_plus.
    change (bpow radix2 1) with 2%R. field.
Qed.

(* ------------------------------------------------------------------ *)
(* further facts used when composing roundings                         *)
(* ------------------------------------------------------------------ *)
Lemma in_range_rnd64 (q : Qc) : dyadic q -> in_range q -> in_range (rnd64 q).
Proof.
  intros Hd Hr. apply in_range_Rabs. rewrite (rnd64_R_in_range q Hd Hr).
  unfold rndR. apply abs_round_le_generic.
  - exact fexp64_valid.
  - apply valid_rnd_N.
  - exact f64max_format.
  - apply in_range_Rabs. exact Hr.
Qed.

Lemma in_range_opp (q : Qc) : in_range q -> in_range (- q).
Proof. rewrite !in_range_Rabs, qR_opp, Rabs_Ropp. exact (fun H => H). Qed.

Lemma rnd64_opp (q : Qc) : dyadic q -> in_range q -> rnd64 (- q) = (- rnd64 q)%Qc.
Proof.
  intros Hd Hr. apply qR_inj.
  rewrite qR_opp, (rnd64_R_in_range q Hd Hr),
    (rnd64_R_in_range (- q) (dyadic_opp q Hd) (in_range_opp q Hr)), qR_opp.
  unfold rndR. apply round_NE_opp.
Qed.

Lemma rnd64_nonneg (q : Qc) : dyadic q -> in_range q -> (w0 <= q)%Qc -> (w0 <= rnd64 q)%Qc.
Proof.
  intros Hd Hr H0. rewrite <- rnd64_w0.
  apply rnd64_mono; [exact dyadic_w0|exact Hd| |exact Hr|exact H0].
  apply in_range_Rabs. rewrite qR_w0, Rabs_R0. exact f64max_nonneg.
Qed.

(* ------------------------------------------------------------------ *)
(* 8. a total specification operator: round to nearest even of ANY     *)
(*    rational (not executable: it goes through R).  It satisfies the  *)
(*    abstract hypotheses on rnd for ALL arguments and coincides with  *)
(*    the executable rnd64 on dyadic arguments in range.               *)
(* ------------------------------------------------------------------ *)
Definition rndQ (q : Qc) : Qc :=
  Q2Qc (inject_Z (ZnearestE (scaled_mantissa radix2 (FLT_exp (-1074) 53) (qR q)))
        * pow2Q (cexp radix2 (FLT_exp (-1074) 53) (qR q))).

Lemma rndQ_R (q : Qc) : qR (rndQ q) = rndR (qR q).
Proof. unfold rndQ. rewrite qR_Q2Qc, Q2R_mult, Q2R_inject_Z, Q2R_pow2Q. reflexivity. Qed.

Lemma rnd64_rndQ (q : Qc) : dyadic q -> in_range q -> rnd64 q = rndQ q.
Proof. intros Hd Hr. apply qR_inj. rewrite rndQ_R. apply rnd64_R_in_range; assumption. Qed.

Lemma rndQ_mono (x y : Qc) : (x <= y)%Qc -> (rndQ x <= rndQ y)%Qc.
Proof.
  intros H. apply qR_le. rewrite !rndQ_R. unfold rndR. apply round_le.
  - exact fexp64_valid.
  - apply valid_rnd_N.
  - apply qR_le. exact H.
Qed.

Lemma rndQ_int (z : Z) : Z.abs z <= 2 ^ 53 -> rndQ (Q2Qc (inject_Z z)) = Q2Qc (inject_Z z).
Proof.
  intros Hz. apply qR_inj. rewrite rndQ_R, qR_of_Z. unfold rndR.
  apply round_generic; [apply valid_rnd_N|apply int_format; exact Hz].
Qed.

Lemma rndQ_w0 : rndQ w0 = w0.
Proof. exact (rndQ_int 0 ltac:(discriminate)). Qed.

Lemma rndQ_idem (q : Qc) : rndQ (rndQ q) = rndQ q.
Proof.
  apply qR_inj. rewrite !rndQ_R. unfold rndR.
  apply round_generic; [apply valid_rnd_N|].
  apply generic_format_round; [exact fexp64_valid|apply valid_rnd_N].
Qed.

Lemma dyadic_rndQ (q : Qc) : dyadic (rndQ q).
Proof.
  unfold rndQ. rewrite Q2Qc_mult. apply dyadic_mult; [apply dyadic_of_Z|apply dyadic_pow2Q].
Qed.
