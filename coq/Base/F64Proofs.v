(* The executable binary64 rounding operator [rnd64] of Base/F64.v satisfies, on dyadic rationals,
   the abstract hypotheses the theorems of the development assume of [rnd : Qc -> Qc].
   Bridge Qc <-> R through [qR], Flocq's [binary_normalize_correct], [round_generic], [round_le]. *)
From Coq Require Import Bool NArith ZArith QArith Qcanon Qreals Reals Lra Lia Znumtheory.
From Flocq Require Import Core.Core Relative IEEE754.BinarySingleNaN IEEE754.Binary IEEE754.Bits.
From SK Require Import Base.Prelude Base.F64.

(* ------------------------------------------------------------------ *)
(* definitions                                                         *)
(* ------------------------------------------------------------------ *)
Definition qR (q : Qc) : R := Q2R (this q).

Definition dyadic (q : Qc) : Prop :=
  exists n k : Z, 0 <= k /\ q = Q2Qc (inject_Z n / inject_Z (2 ^ k)).

(* the test [q2f] performs *)
Definition dyadic_den (q : Qc) : Prop :=
  Zpos (Qden (this q)) = 2 ^ Z.log2 (Zpos (Qden (this q))).

(* round to nearest even in binary64 (gradual underflow, unbounded exponent above) *)
Definition rndR (x : R) : R := round radix2 (FLT_exp (-1074) 53) ZnearestE x.

(* largest finite binary64: 2^1024 - 2^971 = (2^53 - 1) * 2^971 *)
Definition f64max_Z : Z := (2 ^ 53 - 1) * 2 ^ 971.
Definition f64max : Qc := Q2Qc (inject_Z f64max_Z).
Definition in_range (q : Qc) : Prop := (- f64max <= q)%Qc /\ (q <= f64max)%Qc.

(* ------------------------------------------------------------------ *)
(* Qc <-> R                                                            *)
(* ------------------------------------------------------------------ *)
Lemma qR_Q2Qc (a : Q) : qR (Q2Qc a) = Q2R a.
Proof. unfold qR. apply Qeq_eqR. change (this (Q2Qc a)) with (Qred a). apply Qred_correct. Qed.

Lemma qR_inj (x y : Qc) : qR x = qR y -> x = y.
Proof. intros H. apply Qc_is_canon. apply eqR_Qeq. exact H. Qed.

Lemma qR_le (x y : Qc) : (x <= y)%Qc <-> (qR x <= qR y)%R.
Proof. split; [apply Qle_Rle | apply Rle_Qle]. Qed.

Lemma qR_lt (x y : Qc) : (x < y)%Qc <-> (qR x < qR y)%R.
Proof. split; [apply Qlt_Rlt | apply Rlt_Qlt]. Qed.

Lemma qR_plus (x y : Qc) : qR (x + y) = (qR x + qR y)%R.
Proof. change (x + y)%Qc with (Q2Qc (this x + this y)). rewrite qR_Q2Qc. apply Q2R_plus. Qed.

Lemma qR_mult (x y : Qc) : qR (x * y) = (qR x * qR y)%R.
Proof. change (x * y)%Qc with (Q2Qc (this x * this y)). rewrite qR_Q2Qc. apply Q2R_mult. Qed.

Lemma qR_opp (x : Qc) : qR (- x) = (- qR x)%R.
Proof. change (- x)%Qc with (Q2Qc (- this x)). rewrite qR_Q2Qc. apply Q2R_opp. Qed.

Lemma qR_minus (x y : Qc) : qR (x - y) = (qR x - qR y)%R.
Proof. unfold Qcminus. rewrite qR_plus, qR_opp. ring. Qed.

Lemma Q2R_inject_Z (z : Z) : Q2R (inject_Z z) = IZR z.
Proof. unfold Q2R, inject_Z. cbn [Qnum Qden]. rewrite Rinv_1. ring. Qed.

Lemma qR_of_Z (z : Z) : qR (Q2Qc (inject_Z z)) = IZR z.
Proof. rewrite qR_Q2Qc. apply Q2R_inject_Z. Qed.

Lemma qR_w0 : qR w0 = 0%R.
Proof. unfold w0. change 0%Q with (inject_Z 0). apply qR_of_Z. Qed.

Lemma Q2R_pow2Q (e : Z) : Q2R (pow2Q e) = bpow radix2 e.
Proof.
  destruct e as [|p|p]; unfold pow2Q.
  - change 1%Q with (inject_Z 1). rewrite Q2R_inject_Z. reflexivity.
  - rewrite Q2R_inject_Z. reflexivity.
  - unfold Q2R. cbn [Qnum Qden]. rewrite Pos2Z.inj_pow_pos.
    change (bpow radix2 (Z.neg p)) with (/ IZR (Z.pow_pos 2 p))%R. ring.
Qed.

(* 1. exact-value bridge *)
Lemma f2q_B2R (x : f64) : is_finite 53 1024 x = true -> qR (f2q x) = B2R 53 1024 x.
Proof.
  destruct x as [s|s|s pl H|s m e H]; intros Hf; try discriminate Hf.
  - unfold f2q, f2v. rewrite qR_w0. reflexivity.
  - unfold f2q, f2v. rewrite qR_Q2Qc, Q2R_mult, Q2R_inject_Z, Q2R_pow2Q.
    unfold B2R, F2R. cbn [Fnum Fexp]. destruct s; reflexivity.
Qed.

Lemma f2q_not_finite (x : f64) : is_finite 53 1024 x = false -> f2q x = w0.
Proof. destruct x; intros Hf; try discriminate Hf; reflexivity. Qed.

(* ------------------------------------------------------------------ *)
(* dyadic rationals: the two forms                                     *)
(* ------------------------------------------------------------------ *)
Lemma pos_divide_pow2 (d : positive) :
  forall k : Z, 0 <= k -> (Zpos d | 2 ^ k) -> exists j : Z, 0 <= j /\ Zpos d = 2 ^ j.
Proof.
  induction d as [d IH|d IH|]; intros k Hk Hd.
  - exfalso.
    assert (Hg : Z.gcd (Zpos d~1) (2 ^ k) = 1).
    { apply Zgcd_1_rel_prime. apply Zpow_facts.rel_prime_Zpower_r; [exact Hk|].
      apply Zgcd_1_rel_prime.
      pose proof (Z.gcd_nonneg (Zpos d~1) 2) as Hn.
      pose proof (Z.gcd_divide_l (Zpos d~1) 2) as Hl.
      pose proof (Z.gcd_divide_r (Zpos d~1) 2) as Hr.
      apply Z.divide_pos_le in Hr; [|lia].
      destruct Hl as [c Hc]. set (g := Z.gcd (Zpos d~1) 2) in *.
      assert (Hcase : g = 0 \/ g = 1 \/ g = 2) by lia.
      destruct Hcase as [Hc0|[Hc1|Hc2]]; [rewrite Hc0 in Hc; lia|exact Hc1|rewrite Hc2 in Hc; lia]. }
    assert (H1 : (Zpos d~1 | 1)).
    { apply (Z.gauss _ (2 ^ k) 1); [rewrite Z.mul_1_r; exact Hd|exact Hg]. }
    apply Z.divide_1_r in H1. lia.
  - destruct (Z.eq_dec k 0) as [->|Hk0].
    + exfalso. change (2 ^ 0) with 1 in Hd. apply Z.divide_1_r in Hd. lia.
    + replace (2 ^ k) with (2 * 2 ^ (k - 1)) in Hd
        by (rewrite <- Z.pow_succ_r by lia; f_equal; lia).
      change (Zpos d~0) with (2 * Zpos d) in Hd.
      apply Z.mul_divide_cancel_l in Hd; [|lia].
      destruct (IH (k - 1) ltac:(lia) Hd) as (j & Hj & Ej).
      exists (j + 1). split; [lia|].
      change (Zpos d~0) with (2 * Zpos d). rewrite Ej, Z.pow_add_r by lia. lia.
  - exists 0. split; [lia|reflexivity].
Qed.

Lemma dyadic_den_of_dyadic (q : Qc) : dyadic q -> dyadic_den q.
Proof.
  intros (n & k & Hk & ->). unfold dyadic_den.
  set (a := (inject_Z n / inject_Z (2 ^ k))%Q).
  change (this (Q2Qc a)) with (Qred a).
  assert (Hg : Z.gcd (Qnum (Qred a)) (QDen (Qred a)) = 1).
  { apply Qred_identity2. apply Qred_involutive. }
  assert (Hp : 0 < 2 ^ k) by (apply Z.pow_pos_nonneg; lia).
  destruct (2 ^ k) as [|p|p] eqn:Ep; try lia.
  assert (He : (Qred a == n # p)%Q).
  { rewrite Qred_correct. unfold a. symmetry. apply Qmake_Qdiv. }
  unfold Qeq in He. cbn [Qnum Qden] in He.
  assert (Hd : (QDen (Qred a) | 2 ^ k)).
  { apply (Z.gauss _ (Qnum (Qred a))); [|rewrite Z.gcd_comm; exact Hg].
    rewrite Ep, He. apply Z.divide_factor_r. }
  destruct (pos_divide_pow2 _ k Hk Hd) as (j & Hj & Ej).
  rewrite Ej. rewrite Z.log2_pow2 by exact Hj. reflexivity.
Qed.

Lemma dyadic_of_dyadic_den (q : Qc) : dyadic_den q -> dyadic q.
Proof.
  unfold dyadic_den. intros H.
  exists (Qnum (this q)), (Z.log2 (Zpos (Qden (this q)))). split; [apply Z.log2_nonneg|].
  apply Qc_is_canon.
  change (this (Q2Qc ?a)) with (Qred a). rewrite Qred_correct, <- H, <- Qmake_Qdiv.
  destruct (this q); reflexivity.
Qed.

Lemma dyadic_iff (q : Qc) : dyadic q <-> dyadic_den q.
Proof. split; [apply dyadic_den_of_dyadic|apply dyadic_of_dyadic_den]. Qed.

(* value of a dyadic rational as a radix-2 float *)
Lemma qR_dyadic_F2R (q : Qc) : dyadic_den q ->
  qR q = F2R (Float radix2 (Qnum (this q)) (- Z.log2 (Zpos (Qden (this q))))).
Proof.
  unfold dyadic_den. intros H. unfold qR, Q2R, F2R. cbn [Fnum Fexp].
  rewrite bpow_opp, <- IZR_Zpower by apply Z.log2_nonneg.
  change (radix2 ^ Z.log2 (Zpos (Qden (this q)))) with (2 ^ Z.log2 (Zpos (Qden (this q)))).
  rewrite <- H. reflexivity.
Qed.
