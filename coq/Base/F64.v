(* IEEE-754 binary64 through Flocq (no primitive floats): arithmetic, comparisons with Go's
   semantics (every comparison with NaN is false), bit casts, and exact conversions between
   finite floats and the exact weights (Qc). Definitions only. *)
From Coq Require Import Bool NArith ZArith QArith Qcanon List.
From Flocq Require Import Core.Core IEEE754.BinarySingleNaN IEEE754.Binary IEEE754.Bits.
From SK Require Import Base.Prelude.

Definition f64 := binary64.
Definition f64_of_bits (b : N) : f64 := b64_of_bits (Z.of_N b).
Definition bits_of_f64 (v : f64) : N := Z.to_N (bits_of_b64 v).
Definition fadd (a b : f64) : f64 := b64_plus mode_NE a b.
Definition fsub (a b : f64) : f64 := b64_minus mode_NE a b.
Definition fmul (a b : f64) : f64 := b64_mult mode_NE a b.
Definition fdiv (a b : f64) : f64 := b64_div mode_NE a b.
Definition fneg (a : f64) : f64 := b64_opp a.
Definition fabs (a : f64) : f64 := b64_abs a.
Definition f_is_nan (a : f64) : bool := Binary.is_nan 53 1024 a.
Definition f_is_finite (a : f64) : bool := Binary.is_finite 53 1024 a.
Definition fcmp (a b : f64) : option comparison := b64_compare a b.
Definition flt (a b : f64) : bool := match fcmp a b with Some Lt => true | _ => false end.
Definition fle (a b : f64) : bool := match fcmp a b with Some Lt => true | Some Eq => true | _ => false end.
Definition feq (a b : f64) : bool := match fcmp a b with Some Eq => true | _ => false end.
Definition fgt (a b : f64) : bool := flt b a.
Definition fge (a b : f64) : bool := fle b a.
(* math.Max / math.Min on non-NaN arguments of unequal value or equal sign *)
Definition fmax (a b : f64) : f64 := if flt a b then b else a.
Definition fmin (a b : f64) : f64 := if flt b a then b else a.

Definition f64_zero : f64 := f64_of_bits 0.
Definition f64_one : f64 := f64_of_bits 4607182418800017408.           (* 0x3FF0000000000000 *)
Definition f64_pinf : f64 := f64_of_bits 9218868437227405312.          (* 0x7FF0000000000000 *)
Definition f64_ninf : f64 := f64_of_bits 18442240474082181120.         (* 0xFFF0000000000000 *)

(* extended values: what a float64 denotes; -0 is identified with 0 *)
Inductive fval := FNaN | FInf (neg : bool) | FFin (q : Qc).

Definition pow2Q (e : Z) : Q :=
  match e with
  | Z0 => 1%Q
  | Zpos p => inject_Z (Z.pow_pos 2 p)
  | Zneg p => Qmake 1 (Pos.pow 2 p)
  end.
Definition f2v (x : f64) : fval :=
  match x with
  | B754_zero _ _ _ => FFin w0
  | B754_infinity _ _ s => FInf s
  | B754_nan _ _ _ _ _ => FNaN
  | B754_finite _ _ s m e _ => FFin (Q2Qc (Qmult (inject_Z (if s then Zneg m else Zpos m)) (pow2Q e)))
  end.
Definition f2q (x : f64) : Qc := match f2v x with FFin q => q | _ => w0 end.

(* round to nearest even of a dyadic rational num / 2^k (every weight in the model is dyadic);
   a non-dyadic argument is rounded through an integer division, which never happens on the model's domain *)
Definition q2f (q : Qc) : f64 :=
  let n := Qnum (this q) in let d := Zpos (Qden (this q)) in
  let k := Z.log2 d in
  if d =? 2 ^ k then binary_normalize 53 1024 (eq_refl _) (eq_refl _) mode_NE n (- k) false
  else b64_div mode_NE (binary_normalize 53 1024 (eq_refl _) (eq_refl _) mode_NE n 0 false)
                       (binary_normalize 53 1024 (eq_refl _) (eq_refl _) mode_NE d 0 false).
Definition rnd64 (q : Qc) : Qc := f2q (q2f q).
Definition exactb (q : Qc) : bool := weqb (rnd64 q) q.       (* q is a float64 value *)

Definition v2f (v : fval) : f64 :=
  match v with FNaN => b64_div mode_NE f64_zero f64_zero | FInf s => if s then f64_ninf else f64_pinf | FFin q => q2f q end.
