(* Common definitions: exact weights (Qc), checked array access, tabulate, integer ranges.
   Definitions only (plus the handful of list lemmas every file needs). *)
From Coq Require Export Bool ZArith QArith Qcanon List Lia.
Export ListNotations.
Open Scope Z_scope.

(* ---- weights: canonical rationals, Leibniz equality, computable ---- *)
Definition W := Qc.
Definition w0 : W := Q2Qc 0.
Definition w1 : W := Q2Qc 1.
Definition wadd : W -> W -> W := Qcplus.
Definition wsub : W -> W -> W := Qcminus.
Definition wmul : W -> W -> W := Qcmult.
Definition wltb (a b : W) : bool := match Qccompare a b with Lt => true | _ => false end.
Definition wleb (a b : W) : bool := match Qccompare a b with Gt => false | _ => true end.
Definition weqb (a b : W) : bool := match Qccompare a b with Eq => true | _ => false end.
Definition w_of_Z (z : Z) : W := Q2Qc (inject_Z z).
Definition w_of_nat (n : nat) : W := w_of_Z (Z.of_nat n).

(* Go int constants *)
Definition MaxInt32 : Z := 2147483647.
Definition MinInt32 : Z := -2147483648.
Definition MaxInt64 : Z := 9223372036854775807.
Definition MinInt64 : Z := -9223372036854775808.
Definition idx_ok (i : Z) : Prop := MinInt32 <= i <= MaxInt32.
Definition idx_okb (i : Z) : bool := (MinInt32 <=? i) && (i <=? MaxInt32).
(* two's complement wrap of a 64-bit signed integer *)
Definition wrap_i64 (z : Z) : Z := (z + 9223372036854775808) mod 18446744073709551616 - 9223372036854775808.

(* ---- arrays as lists, total accessor, rebuilt with tabulate ---- *)
Definition zlen {A} (l : list A) : Z := Z.of_nat (length l).
Definition at_ (l : list W) (j : Z) : W := if j <? 0 then w0 else nth (Z.to_nat j) l w0.
Definition tabulate (n : nat) (f : Z -> W) : list W := map (fun k => f (Z.of_nat k)) (seq 0 n).
Definition zeros (n : Z) : list W := repeat w0 (Z.to_nat n).
Definition sumW (l : list W) : W := fold_left wadd l w0.

(* integer interval [lo, hi] ascending; empty if hi < lo *)
Definition zrange (lo hi : Z) : list Z := map (fun k => lo + Z.of_nat k) (seq 0 (Z.to_nat (hi - lo + 1))).

Lemma tabulate_length n f : length (tabulate n f) = n.
Proof. unfold tabulate. now rewrite map_length, seq_length. Qed.
Lemma at_tabulate n f j : 0 <= j < Z.of_nat n -> at_ (tabulate n f) j = f j.
Proof.
  intros H. unfold at_, tabulate. destruct (Z.ltb_spec j 0); [lia|].
  rewrite nth_indep with (d' := f 0) by (rewrite map_length, seq_length; lia).
  change (f 0) with ((fun k => f (Z.of_nat k)) 0%nat).
  rewrite map_nth. rewrite seq_nth by lia. f_equal. lia.
Qed.
Lemma at_out l j : j < 0 \/ zlen l <= j -> at_ l j = w0.
Proof. unfold zlen. intros H. unfold at_. destruct (Z.ltb_spec j 0); [reflexivity|]. apply nth_overflow. lia. Qed.
Lemma zrange_length lo hi : length (zrange lo hi) = Z.to_nat (hi - lo + 1).
Proof. unfold zrange. now rewrite map_length, seq_length. Qed.
Lemma in_zrange lo hi i : In i (zrange lo hi) <-> lo <= i <= hi.
Proof.
  unfold zrange. rewrite in_map_iff. split.
  - intros [k [<- Hk]]. apply in_seq in Hk. lia.
  - intros H. exists (Z.to_nat (i - lo)). split; [lia|]. apply in_seq. lia.
Qed.
