(* The interpolated mappings of the bit-exact model (Mapping/Glue.v: kinds MLin, MCub) in the COARSE range of
   relative accuracies, where the multiplier 1 / math.Log2 (gamma) is below 1 and GlueCtor / GlueCub stop
   (linear: a <= 0.3, cubic: a <= 0.32): NewLinearlyInterpolatedMapping (a) for 0.3 <= a <= 0.99 and
   NewCubicallyInterpolatedMapping (a) for 0.32 <= a <= 0.99, under accuracy hypotheses on the oracle only.
     1. the kind-generic argument of GlueAccuracy for a multiplier in [1/16, 2^20] ([reasonable_hi]) in the
        single-index form of GlueCub (nothing is asked of Index v + 1, whose lower bound is +Inf near the
        maximum), with the accuracy algebra of GlueLog (no bound on the bin ratio g0: it goes up to 199)
     2. numerics (exp 6 >= 230, ln 1.8, ln 1.9, the margins L(x) - c ln x at both ends of the float range)
     3. the hypotheses [libm_hi_ok L k]: math.Log2 on [1, 256] (absolute error k 2^-50), math.Pow on
        [1, 256] x [0, 2] (relative error k 2^-53), math.Exp / Exp2 / Floor as in GlueCtor
     4. New*MappingWithGamma, generic in the interpolated kind ([kind_hi]: what distinguishes the kinds)
     5. New*Mapping (relativeAccuracy), generic ([acc_hi])
     6.-8. the two kinds   9. the whole range of accuracies, premises of Sketch/BridgeProofs, C01 end to end
     10. satisfiability: the correctly rounded oracle *)
From Coq Require Import Bool NArith ZArith QArith Qcanon Qcabs Qreals Reals Lra Lia Psatz.
From Flocq Require Import Core.Core Relative IEEE754.BinarySingleNaN IEEE754.Binary IEEE754.Bits.
From SK Require Import Base.Prelude Base.F64 Base.F64Proofs Mapping.Glue Mapping.GlueProofs Mapping.GlueAccuracy
                       Mapping.GlueCtor Mapping.GlueCub.
From SK Require Mapping.GlueLog.
From SK.Real Require Import RBasics MapGeneric Binade MapLin.
From SK.Real Require MapCub.
#[local] Existing Instance prec53_gt_0.
#[local] Existing Instance fexp64_valid.
Local Open Scope R_scope.

(* ------------------------------------------------------------------ *)
(* 1. the kind-generic argument for a multiplier in [1/16, 2^20]       *)
(* ------------------------------------------------------------------ *)
Definition reasonable_hi (k : mkind) (m : gmap) : Prop :=
  gm_kind m = k /\ fin (gm_mult m) /\ fin (gm_off m) /\
  / 16 <= BR (gm_mult m) <= 1048576 /\ Rabs (BR (gm_off m)) <= 2048 * BR (gm_mult m).

Lemma reasonable_is_hi (k : mkind) (m : gmap) : reasonable k m -> reasonable_hi k m.
Proof. intros (K & Fm & Fo & BM & BO). repeat split; try assumption; lra. Qed.

Definition q36 : R := / 68719476736.       (* 2^-36 *)

Section GenHi.
Variable L : libm.
Variable k : mkind.
Variables (Lr Linvr : R -> R) (c : R).
Hypothesis HLL : LogLike Lr Linvr c.
Hypothesis Hc : 1 <= c.
Hypothesis Hfwd : forward_ok L k Lr.
Hypothesis Hinv : inverse_ok L k Linvr.
Variable m : gmap.
Hypothesis Hm : reasonable_hi k m.

Lemma hi_index_float_err (v : f64) : pos_normal v ->
  fin (index_float L m v) /\
  Rabs (BR (index_float L m v) - (Lr (BR v) * BR (gm_mult m) + BR (gm_off m))) <= BR (gm_mult m) * q40 /\
  Rabs (BR (index_float L m v)) <= 4096 * BR (gm_mult m).
Proof.
  intros Hv. destruct Hm as (K & Fm & Fo & BM & BO). unfold index_float. rewrite K.
  destruct (Hfwd v Hv) as (_ & Fa & Ba & Ea).
  assert (FT : fin (fadd (fmul (approx_log L k v) (gm_mult m)) (gm_off m))).
  { apply index_arg_fin; try assumption.
    - change (bpow radix2 40) with 1099511627776. apply Rabs_le. lra.
    - change (bpow radix2 40) with 1099511627776. apply Rabs_le_inv in BO. apply Rabs_le. lra. }
  remember (BR (gm_mult m)) as M eqn:EM. remember (BR (gm_off m)) as O eqn:EO.
  remember (BR (approx_log L k v)) as al eqn:Eal. remember (Lr (BR v)) as Lv eqn:ELv.
  destruct (fadd_fin_inv _ _ FT) as (Fp & _).
  pose proof (fadd_R _ _ Fp Fo FT) as RT. pose proof (fmul_R _ _ Fp) as Rp.
  rewrite <- Eal, <- EM in Rp. rewrite <- EO, Rp in RT.
  remember (rndR (al * M)) as p eqn:Ep.
  apply Rabs_le_inv in Ba. apply Rabs_le_inv in BO. apply Rabs_le_inv in Ea.
  assert (BaM : Rabs (al * M) <= 1026 * M).
  { rewrite Rabs_mult, (Rabs_pos_eq M) by lra. apply Rmult_le_compat_r; [lra|apply Rabs_le; lra]. }
  pose proof (rndR_err_rel (al * M)) as E1. rewrite <- Ep in E1.
  assert (E1' : Rabs (p - al * M) <= u53 * (1026 * M) + u100).
  { apply Rle_trans with (1 := E1). apply Rplus_le_compat_r. apply Rmult_le_compat_l; [unfold u53; lra|exact BaM]. }
  apply Rabs_le_inv in E1'. apply Rabs_le_inv in BaM.
  assert (Bp : Rabs (p + O) <= 3075 * M) by (apply Rabs_le; unfold u53, u100 in *; lra).
  pose proof (rndR_err_rel (p + O)) as E2.
  assert (E2' : Rabs (rndR (p + O) - (p + O)) <= u53 * (3075 * M) + u100).
  { apply Rle_trans with (1 := E2). apply Rplus_le_compat_r. apply Rmult_le_compat_l; [unfold u53; lra|exact Bp]. }
  apply Rabs_le_inv in E2'. apply Rabs_le_inv in Bp.
  assert (EaM : - (/ 4398046511104 * M) <= al * M - Lv * M <= / 4398046511104 * M).
  { replace (al * M - Lv * M) with ((al - Lv) * M) by ring.
    replace (- (/ 4398046511104 * M)) with ((- / 4398046511104) * M) by ring.
    split; apply Rmult_le_compat_r; lra. }
  split; [exact FT|]. rewrite RT. split.
  - apply Rabs_le. unfold u53, u100, q40 in *. lra.
  - apply Rabs_le. unfold u53, u100 in *. lra.
Qed.

Lemma hi_index_brackets (v : f64) : pos_normal v ->
  let i := gm_index L m v in
  (IZR i - BR (gm_off m)) / BR (gm_mult m) <= Lr (BR v) + q40 /\
  Lr (BR v) - q40 <= (IZR i + 1 - BR (gm_off m)) / BR (gm_mult m) /\
  Rabs (IZR i) <= 4096 * BR (gm_mult m) + 1.
Proof.
  intros Hv i. destruct (hi_index_float_err v Hv) as (FT & ET & BT).
  destruct Hm as (K & Fm & Fo & BM & BO).
  pose proof (go_floor_bounds _ FT) as HB.
  assert (Ei : go_floor (index_float L m v) = i) by reflexivity. rewrite Ei in HB.
  remember (BR (gm_mult m)) as M eqn:EM. remember (BR (gm_off m)) as O eqn:EO.
  apply Rabs_le_inv in ET. apply Rabs_le_inv in BT.
  repeat split.
  - apply div_le_intro; [lra|]. nra.
  - apply le_div_intro; [lra|]. nra.
  - apply Rabs_le. lra.
Qed.

Lemma hi_index_small (v : f64) : pos_normal v -> (Z.abs (gm_index L m v) <= 2 ^ 52)%Z.
Proof.
  intros Hv. destruct (hi_index_brackets v Hv) as (_ & _ & B).
  destruct Hm as (_ & _ & _ & BM & _).
  apply le_IZR. rewrite abs_IZR. change (IZR (2 ^ 52)) with 4503599627370496.
  apply Rle_trans with (1 := B). lra.
Qed.

Lemma hi_lower_arg_err (j : Z) : (Z.abs j <= 2 ^ 53)%Z ->
  fin (lower_arg m j) /\
  Rabs (BR (lower_arg m j) - (IZR j - BR (gm_off m)) / BR (gm_mult m))
    <= (2 * u53 + u53 * u53) * Rabs ((IZR j - BR (gm_off m)) / BR (gm_mult m)) + 20 * u100.
Proof.
  intros Hk. destruct Hm as (_ & Fm & Fo & BM & BO). unfold lower_arg.
  destruct (f_of_int_correct j Hk) as (Fk & Rk).
  assert (Bk : Rabs (IZR j) <= 9007199254740992).
  { rewrite <- abs_IZR. change 9007199254740992 with (IZR (2 ^ 53)). apply IZR_le. exact Hk. }
  remember (BR (gm_mult m)) as M eqn:EM. remember (BR (gm_off m)) as O eqn:EO.
  apply Rabs_le_inv in BO. apply Rabs_le_inv in Bk.
  assert (Bx : Rabs (IZR j - O) <= bpow radix2 54).
  { change (bpow radix2 54) with 18014398509481984. apply Rabs_le. lra. }
  destruct (fsub_bounded (f_of_int j) (gm_off m) Fk Fo) as (Fd & Rd).
  { rewrite Rk, <- EO. apply Rle_trans with (1 := Bx). apply bpow_le_max. lia. }
  rewrite Rk, <- EO in Rd.
  remember (IZR j - O) as x eqn:Ex. remember (rndR x) as d eqn:Ed.
  pose proof (rndR_err_rel x) as E1. rewrite <- Ed in E1.
  assert (HM : 0 < M) by lra. assert (HiM : 0 < / M <= 16).
  { split; [apply Rinv_0_lt_compat; exact HM|]. replace 16 with (/ / 16) by field. apply Rinv_le_contravar; lra. }
  assert (Ex' : Rabs (x / M) = Rabs x * / M).
  { unfold Rdiv. rewrite Rabs_mult, (Rabs_pos_eq (/ M)) by lra. reflexivity. }
  assert (E1' : Rabs (d / M - x / M) <= u53 * Rabs (x / M) + 16 * u100).
  { replace (d / M - x / M) with ((d - x) * / M) by (unfold Rdiv; ring).
    rewrite Rabs_mult, (Rabs_pos_eq (/ M)) by lra. rewrite Ex'.
    apply Rle_trans with ((u53 * Rabs x + u100) * / M).
    - apply Rmult_le_compat_r; lra.
    - assert (u100 * / M <= u100 * 16) by (apply Rmult_le_compat_l; [unfold u100; lra|lra]). lra. }
  remember (x / M) as tau eqn:Etau.
  assert (Hu : 0 < u53 < / 1000 /\ 0 < u100 < / 1000) by (unfold u53, u100; lra).
  assert (Bd : Rabs (d / M) <= Rabs tau * (1 + u53) + 16 * u100).
  { replace (d / M) with (tau + (d / M - tau)) by ring.
    apply Rle_trans with (1 := Rabs_triang _ _). lra. }
  assert (Btau : Rabs tau <= bpow radix2 58).
  { rewrite Ex'. change (bpow radix2 58) with 288230376151711744.
    change (bpow radix2 54) with 18014398509481984 in Bx.
    apply Rle_trans with (18014398509481984 * 16); [|lra].
    apply Rmult_le_compat; try lra. apply Rabs_pos. }
  destruct (fdiv_bounded (fsub (f_of_int j) (gm_off m)) (gm_mult m) Fd) as (Ft & Rt).
  { rewrite <- EM. lra. }
  { rewrite Rd, <- EM. apply Rle_trans with (bpow radix2 60); [|apply bpow_le_max; lia].
    change (bpow radix2 58) with 288230376151711744 in Btau.
    change (bpow radix2 60) with 1152921504606846976.
    pose proof (Rabs_pos tau). nra. }
  rewrite Rd, <- EM in Rt. split; [exact Ft|]. rewrite Rt.
  pose proof (rndR_err_rel (d / M)) as E2.
  replace (rndR (d / M) - tau) with ((rndR (d / M) - d / M) + (d / M - tau)) by ring.
  apply Rle_trans with (1 := Rabs_triang _ _).
  pose proof (Rabs_pos tau). nra.
Qed.

Lemma hi_lower_arg_close (j : Z) : (Z.abs j <= 2 ^ 53)%Z -> Rabs (BR (lower_arg m j)) <= 1024 ->
  Rabs ((IZR j - BR (gm_off m)) / BR (gm_mult m)) <= 1025 /\
  Rabs (BR (lower_arg m j) - (IZR j - BR (gm_off m)) / BR (gm_mult m)) <= q41.
Proof.
  intros Hk Bt. destruct (hi_lower_arg_err j Hk) as (_ & E).
  remember ((IZR j - BR (gm_off m)) / BR (gm_mult m)) as tau. remember (BR (lower_arg m j)) as t.
  assert (B : Rabs tau <= 1025).
  { assert (Rabs tau <= Rabs t + Rabs (t - tau)).
    { replace tau with (t - (t - tau)) at 1 by ring. apply Rle_trans with (1 := Rabs_triang _ _).
      rewrite Rabs_Ropp. lra. }
    unfold u53, u100 in *. pose proof (Rabs_pos tau). lra. }
  split; [exact B|]. unfold u53, u100, q41 in *. lra.
Qed.

Lemma hi_lower_vs_ideal (j : Z) : (Z.abs j <= 2 ^ 53)%Z -> in_range m j ->
  let tau := (IZR j - BR (gm_off m)) / BR (gm_mult m) in
  fin (gm_lower L m j) /\ pos_normal (gm_lower L m j) /\
  Linvr (tau - q41) * (1 - q45) <= BR (gm_lower L m j) <= Linvr (tau + q41) * (1 + q45).
Proof.
  intros Hj Hr tau. destruct (hi_lower_arg_err j Hj) as (Ft & _).
  assert (K : gm_kind m = k) by (destruct Hm as (K & _); exact K).
  assert (El : gm_lower L m j = approx_inverse_log L k (lower_arg m j)).
  { unfold gm_lower, lower_arg. rewrite K. reflexivity. }
  rewrite El. destruct (Hinv _ Ft Hr) as (Fl & Nl & Bl).
  remember (BR (lower_arg m j)) as t eqn:Et.
  assert (Bt : Rabs t <= 1024).
  { pose proof (Zfloor_lb t). pose proof (Zfloor_ub t). unfold in_range in Hr. rewrite <- Et in Hr.
    assert (-1022 <= IZR (Zfloor t) <= 1023) by (split; apply IZR_le; lia).
    apply Rabs_le. lra. }
  destruct (hi_lower_arg_close j Hj) as (_ & Ec); [rewrite <- Et; exact Bt|].
  rewrite <- Et in Ec. fold tau in Ec. apply Rabs_le_inv in Ec.
  split; [exact Fl|]. split; [exact Nl|].
  assert (Hq : 0 < q45 < / 1000) by (unfold q45; lra).
  pose proof (ll_inv_pos _ _ _ HLL (tau - q41)). pose proof (ll_inv_pos _ _ _ HLL t).
  pose proof (Linvr_le Lr Linvr c HLL (tau - q41) t ltac:(lra)).
  pose proof (Linvr_le Lr Linvr c HLL t (tau + q41) ltac:(lra)).
  split.
  - apply Rle_trans with (2 := proj1 Bl). apply Rmult_le_compat_r; lra.
  - apply Rle_trans with (1 := proj2 Bl). apply Rmult_le_compat_r; lra.
Qed.

(* LowerBound (Index v) <= v (1 + 2^-38): needs the index itself in range only *)
Lemma hi_lower_le (v : f64) : pos_normal v ->
  let i := gm_index L m v in
  in_range m i ->
  fin (gm_lower L m i) /\ bpow radix2 (-1022) <= BR (gm_lower L m i) /\ BR (gm_lower L m i) <= BR v * (1 + q38).
Proof.
  intros Hv i Ri. pose proof (hi_index_small v Hv) as Hi. fold i in Hi.
  destruct (hi_index_brackets v Hv) as (B1 & _ & _). fold i in B1.
  destruct (Hfwd v Hv) as (Pv & _).
  destruct (hi_lower_vs_ideal i ltac:(lia) Ri) as (Fl & (_ & Nl) & _ & Ui).
  split; [exact Fl|]. split; [exact Nl|].
  remember ((IZR i - BR (gm_off m)) / BR (gm_mult m)) as ti.
  remember (Lr (BR v)) as Lv eqn:ELv.
  assert (Ev : Linvr Lv = BR v) by (rewrite ELv; apply (ll_inv_L Lr Linvr c HLL); exact Pv).
  assert (Hq : 0 < q45 /\ 0 < q41 /\ 0 < q40 /\ q40 + q41 <= q38) by (unfold q45, q41, q40, q38; lra).
  assert (HE : exp (q40 + q41) <= 1 + 2 * (q40 + q41)) by (apply exp_small; lra).
  pose proof (Linvr_le Lr Linvr c HLL (ti + q41) (Lv + q40 + q41) ltac:(lra)) as H1.
  pose proof (Linvr_exp Lr Linvr c HLL Hc Lv (Lv + q40 + q41) ltac:(lra)) as H2.
  replace (Lv + q40 + q41 - Lv) with (q40 + q41) in H2 by ring. rewrite Ev in H2.
  apply Rle_trans with (1 := Ui).
  apply Rle_trans with (BR v * (1 + 2 * (q40 + q41)) * (1 + q45)).
  + apply Rmult_le_compat_r; [lra|]. apply Rle_trans with (1 := H1). apply Rle_trans with (1 := H2).
    apply Rmult_le_compat_l; lra.
  + rewrite Rmult_assoc. apply Rmult_le_compat_l; [lra|]. unfold q45, q41, q40, q38. lra.
Qed.

(* v <= LowerBound (Index v) * (ideal bin ratio) (1 + 2^-38): nothing is asked of Index v + 1 *)
Lemma hi_v_le_lower (v : f64) : pos_normal v ->
  let i := gm_index L m v in
  in_range m i ->
  BR v <= BR (gm_lower L m i) * exp (1 / (c * BR (gm_mult m))) * (1 + q38).
Proof.
  intros Hv i Ri. pose proof (hi_index_small v Hv) as Hi. fold i in Hi.
  destruct (hi_index_brackets v Hv) as (_ & B2 & _). fold i in B2.
  destruct (Hfwd v Hv) as (Pv & _).
  destruct (hi_lower_vs_ideal i ltac:(lia) Ri) as (_ & _ & Li & _).
  destruct Hm as (_ & _ & _ & BM & _).
  remember (BR (gm_mult m)) as M eqn:EM. remember (BR (gm_off m)) as O eqn:EO.
  assert (Et : (IZR i + 1 - O) / M = (IZR i - O) / M + 1 / M) by (field; lra).
  rewrite Et in B2. remember ((IZR i - O) / M) as ti.
  remember (Lr (BR v)) as Lv eqn:ELv.
  assert (Ev : Linvr Lv = BR v) by (rewrite ELv; apply (ll_inv_L Lr Linvr c HLL); exact Pv).
  assert (Hq : 0 < q45 < / 1000 /\ 0 < q41 /\ 0 < q40 /\ q40 + q41 <= q38) by (unfold q45, q41, q40, q38; lra).
  assert (HM : 0 < 1 / M) by (apply Rdiv_lt_0_compat; lra).
  pose proof (Linvr_le Lr Linvr c HLL Lv (ti + 1 / M + q40) ltac:(lra)) as H1. rewrite Ev in H1.
  pose proof (Linvr_exp_c Lr Linvr c HLL Hc (ti - q41) (ti + 1 / M + q40) ltac:(lra)) as H2.
  replace ((ti + 1 / M + q40 - (ti - q41)) / c) with (1 / (c * M) + (q40 + q41) / c) in H2 by (field; lra).
  rewrite exp_plus in H2.
  assert (HE : exp ((q40 + q41) / c) <= 1 + 2 * (q40 + q41)).
  { apply Rle_trans with (exp (q40 + q41)); [|apply exp_small; lra].
    apply exp_le_mono. apply div_le_intro; [lra|]. nra. }
  pose proof (ll_inv_pos _ _ _ HLL (ti - q41)) as Pj. pose proof (exp_pos (1 / (c * M))) as PG.
  set (A := Linvr (ti - q41)) in *. set (G := exp (1 / (c * M))) in *.
  set (lo := BR (gm_lower L m i)) in *.
  apply Rle_trans with (1 := H1). apply Rle_trans with (1 := H2).
  apply Rle_trans with (A * (G * (1 + 2 * (q40 + q41)))).
  - apply Rmult_le_compat_l; [lra|]. apply Rmult_le_compat_l; lra.
  - assert (H4 : 1 + 2 * (q40 + q41) <= (1 - q45) * (1 + q38)) by (unfold q45, q41, q40, q38; lra).
    apply Rle_trans with (A * (1 - q45) * G * (1 + q38)).
    + replace (A * (G * (1 + 2 * (q40 + q41)))) with (A * G * (1 + 2 * (q40 + q41))) by ring.
      replace (A * (1 - q45) * G * (1 + q38)) with (A * G * ((1 - q45) * (1 + q38))) by ring.
      apply Rmult_le_compat_l; [apply Rmult_le_pos; lra|exact H4].
    + apply Rmult_le_compat_r; [unfold q38; lra|]. apply Rmult_le_compat_r; [lra|exact Li].
Qed.

(* containment from above when the next index is in range as well *)
Lemma hi_v_le_next (v : f64) : pos_normal v ->
  let i := gm_index L m v in
  in_range m (i + 1) -> BR v <= BR (gm_lower L m (i + 1)) * (1 + q38).
Proof.
  intros Hv i Rj. pose proof (hi_index_small v Hv) as Hi. fold i in Hi.
  destruct (hi_index_brackets v Hv) as (_ & B2 & _). fold i in B2.
  destruct (Hfwd v Hv) as (Pv & _).
  destruct (hi_lower_vs_ideal (i + 1) ltac:(lia) Rj) as (_ & _ & Lj & _).
  rewrite plus_IZR in Lj. simpl (IZR 1) in Lj.
  remember ((IZR i + 1 - BR (gm_off m)) / BR (gm_mult m)) as tj.
  remember (Lr (BR v)) as Lv eqn:ELv.
  assert (Ev : Linvr Lv = BR v) by (rewrite ELv; apply (ll_inv_L Lr Linvr c HLL); exact Pv).
  assert (Hq : 0 < q45 /\ 0 < q41 /\ 0 < q40 /\ q40 + q41 <= q38) by (unfold q45, q41, q40, q38; lra).
  assert (HE : exp (q40 + q41) <= 1 + 2 * (q40 + q41)) by (apply exp_small; lra).
  pose proof (Linvr_le Lr Linvr c HLL Lv (tj + q40) ltac:(lra)) as H1. rewrite Ev in H1.
  pose proof (Linvr_exp Lr Linvr c HLL Hc (tj - q41) (tj + q40) ltac:(lra)) as H2.
  replace (tj + q40 - (tj - q41)) with (q40 + q41) in H2 by ring.
  pose proof (ll_inv_pos _ _ _ HLL (tj - q41)) as Pj.
  set (A := Linvr (tj - q41)) in *. set (lo := BR (gm_lower L m (i + 1))) in *.
  assert (H3 : BR v <= A * (1 + 2 * (q40 + q41))).
  { apply Rle_trans with (1 := H1). apply Rle_trans with (1 := H2). apply Rmult_le_compat_l; lra. }
  assert (H4 : (1 + 2 * (q40 + q41)) <= (1 - q45) * (1 + q38)) by (unfold q45, q41, q40, q38; lra).
  apply Rle_trans with (1 := H3).
  apply Rle_trans with (A * ((1 - q45) * (1 + q38))); [apply Rmult_le_compat_l; lra|].
  rewrite <- Rmult_assoc. apply Rmult_le_compat_r; [unfold q38; lra|exact Lj].
Qed.

(* bin ratio of two consecutive in-range indices *)
Lemma hi_bin_ratio (i : Z) : (Z.abs i < 2 ^ 53)%Z -> in_range m i -> in_range m (i + 1) ->
  BR (gm_lower L m (i + 1)) <= BR (gm_lower L m i) * exp (1 / (c * BR (gm_mult m))) * (1 + q38).
Proof.
  intros Hi Ri Rj.
  destruct (hi_lower_vs_ideal i ltac:(lia) Ri) as (_ & _ & Li & _).
  destruct (hi_lower_vs_ideal (i + 1) ltac:(lia) Rj) as (_ & _ & _ & Uj).
  rewrite plus_IZR in Uj. simpl (IZR 1) in Uj.
  destruct Hm as (_ & _ & _ & BM & _).
  remember (BR (gm_mult m)) as M eqn:EM. remember (BR (gm_off m)) as O eqn:EO.
  assert (Et : (IZR i + 1 - O) / M = (IZR i - O) / M + 1 / M) by (field; lra).
  rewrite Et in Uj. remember ((IZR i - O) / M) as ti.
  assert (Hq : 0 < q45 < / 1000 /\ 0 < q41 /\ 2 * q41 <= q38) by (unfold q45, q41, q38; lra).
  assert (HM : 0 < 1 / M) by (apply Rdiv_lt_0_compat; lra).
  pose proof (Linvr_exp_c Lr Linvr c HLL Hc (ti - q41) (ti + 1 / M + q41) ltac:(lra)) as H2.
  replace ((ti + 1 / M + q41 - (ti - q41)) / c) with (1 / (c * M) + 2 * q41 / c) in H2 by (field; lra).
  rewrite exp_plus in H2.
  assert (HE : exp (2 * q41 / c) <= 1 + 2 * (2 * q41)).
  { apply Rle_trans with (exp (2 * q41)); [|apply exp_small; lra].
    apply exp_le_mono. apply div_le_intro; [lra|]. nra. }
  pose proof (ll_inv_pos _ _ _ HLL (ti - q41)) as Pj. pose proof (exp_pos (1 / (c * M))) as PG.
  set (A := Linvr (ti - q41)) in *. set (G := exp (1 / (c * M))) in *.
  set (lo := BR (gm_lower L m i)) in *.
  apply Rle_trans with (1 := Uj).
  apply Rle_trans with (A * (G * (1 + 4 * q41)) * (1 + q45)).
  - apply Rmult_le_compat_r; [lra|]. apply Rle_trans with (1 := H2).
    apply Rmult_le_compat_l; [lra|]. apply Rmult_le_compat_l; lra.
  - assert (H4 : (1 + 4 * q41) * (1 + q45) <= (1 - q45) * (1 + q38)) by (unfold q45, q41, q38; lra).
    apply Rle_trans with (A * (1 - q45) * G * (1 + q38)).
    + replace (A * (G * (1 + 4 * q41)) * (1 + q45)) with (A * G * ((1 + 4 * q41) * (1 + q45))) by ring.
      replace (A * (1 - q45) * G * (1 + q38)) with (A * G * ((1 - q45) * (1 + q38))) by ring.
      apply Rmult_le_compat_l; [apply Rmult_le_pos; lra|exact H4].
    + apply Rmult_le_compat_r; [unfold q38; lra|]. apply Rmult_le_compat_r; [lra|exact Li].
Qed.

(* |Value (Index v) - v| <= (alpha_of g0 + eF + 2^-36) v, for every g0 > 1 above the ideal bin ratio;
   the bound on g0 of GlueAccuracy (g0 <= 4) is gone: a coarse mapping has g0 up to 199 *)
Theorem hi_value_accuracy (g0 eF : R) (v : f64) :
  exp (1 / (c * BR (gm_mult m))) <= g0 -> 0 <= eF <= / 8388608 -> value_factor_ok L m g0 eF ->
  pos_normal v ->
  let i := gm_index L m v in
  in_range m i -> fin (gm_value L m i) ->
  Rabs (BR (gm_value L m i) - BR v) <= (alpha_of g0 + eF + q36) * BR v.
Proof.
  intros Hg HeF (FF & F1 & EF) Hv i Ri FV.
  destruct (hi_lower_le v Hv Ri) as (Fl & Nl & K1). fold i in Fl, Nl, K1.
  pose proof (hi_v_le_lower v Hv Ri) as K3. fold i in K3.
  destruct (Hfwd v Hv) as (Pv & _).
  destruct Hm as (_ & _ & _ & BM & _).
  assert (HG : 1 < exp (1 / (c * BR (gm_mult m)))).
  { pose proof (exp_ineq1_le (1 / (c * BR (gm_mult m)))) as He.
    assert (0 < 1 / (c * BR (gm_mult m))) by (apply Rdiv_lt_0_compat; nra). lra. }
  pose proof (bpow_gt_0 radix2 (-1022)) as Hp.
  unfold gm_value in *. rewrite (fmul_R _ _ FV).
  set (lo := BR (gm_lower L m i)) in *. set (F := BR (fadd f64_one (gm_accuracy L m))) in *.
  assert (Hq : 0 < q38 < / 1000) by (unfold q38; lra).
  assert (P3 : BR v <= lo * g0 * (1 + q38)).
  { apply Rle_trans with (1 := K3). apply Rmult_le_compat_r; [lra|]. apply Rmult_le_compat_l; lra. }
  assert (P4 : Rabs (rndR (lo * F) - lo * F) <= u53 * (lo * F)).
  { assert (Hx : bpow radix2 (-1022) <= Rabs (lo * F)).
    { rewrite Rabs_pos_eq by (apply Rmult_le_pos; lra).
      apply Rle_trans with (lo * 1); [lra|apply Rmult_le_compat_l; lra]. }
    pose proof (rndR_err_normal (lo * F) Hx) as E.
    rewrite (Rabs_pos_eq (lo * F)) in E by (apply Rmult_le_pos; lra). exact E. }
  pose proof (GlueLog.accuracy_algebra2 (BR v) lo F (rndR (lo * F)) g0 q38 eF u53 Pv ltac:(lra) ltac:(lra)
                ltac:(unfold q38; lra) ltac:(lra) ltac:(unfold u53; lra) K1 P3 F1 EF P4) as H.
  apply Rle_trans with (1 := H). apply Rmult_le_compat_r; [lra|].
  unfold GlueLog.q20, q38, q36, u53 in *. lra.
Qed.

Theorem hi_value_accuracy_Qc (g0 eF : R) (alpha : Qc) (v : f64) :
  exp (1 / (c * BR (gm_mult m))) <= g0 -> 0 <= eF <= / 8388608 -> value_factor_ok L m g0 eF ->
  alpha_of g0 + eF + q36 <= qR alpha ->
  pos_normal v ->
  let i := gm_index L m v in
  in_range m i -> fin (gm_value L m i) ->
  (Qcabs (f2q (gm_value L m i) - f2q v) <= alpha * f2q v)%Qc.
Proof.
  intros Hg HeF HV Ha Hv i Ri FV.
  pose proof (hi_value_accuracy g0 eF v Hg HeF HV Hv Ri FV) as H. fold i in H.
  destruct (Hfwd v Hv) as (Pv & _). destruct Hv as (Fv & _).
  apply Rabs_le_inv in H.
  assert (Hb : (alpha_of g0 + eF + q36) * BR v <= qR alpha * BR v) by (apply Rmult_le_compat_r; lra).
  apply Qcabs_Qcle_condition. split; apply qR_le.
  - rewrite qR_opp, qR_mult, qR_minus, !f2q_B2R by assumption. lra.
  - rewrite qR_mult, qR_minus, !f2q_B2R by assumption. lra.
Qed.
End GenHi.

(* ------------------------------------------------------------------ *)
(* 2. numerics                                                         *)
(* ------------------------------------------------------------------ *)
Lemma exp6_ge : 230 <= exp 6.
Proof.
  assert (H0 : 70 / 64 <= exp (6 / 64)) by (apply exp_first_ge; lra).
  assert (H1 : 119 / 100 <= exp (6 / 32)) by (apply (exp_sq_ge (6 / 64) _ (70 / 64)); [exact H0|lra|lra|lra]).
  assert (H2 : 141 / 100 <= exp (6 / 16)) by (apply (exp_sq_ge (6 / 32) _ (119 / 100)); [exact H1|lra|lra|lra]).
  assert (H3 : 198 / 100 <= exp (6 / 8)) by (apply (exp_sq_ge (6 / 16) _ (141 / 100)); [exact H2|lra|lra|lra]).
  assert (H4 : 392 / 100 <= exp (6 / 4)) by (apply (exp_sq_ge (6 / 8) _ (198 / 100)); [exact H3|lra|lra|lra]).
  assert (H5 : 1536 / 100 <= exp (6 / 2)) by (apply (exp_sq_ge (6 / 4) _ (392 / 100)); [exact H4|lra|lra|lra]).
  assert (H6 : 235 <= exp 6) by (apply (exp_sq_ge (6 / 2) _ (1536 / 100)); [exact H5|lra|lra|lra]).
  lra.
Qed.

Lemma exp_045 : exp (44 / 100) <= 179 / 100.
Proof. apply exp_first_le; lra. Qed.

(* ln (9/5) <= 0.651 and ln (19/10) <= 0.6432 *)
Lemma ln_18 : ln (9 / 5) <= 651 / 1000.
Proof.
  pose proof (ln_cubic (4 / 5) ltac:(lra)) as H. replace (1 + 4 / 5) with (9 / 5) in H by lra. simpl in H. lra.
Qed.
Lemma ln_19 : ln (19 / 10) <= 6432 / 10000.
Proof.
  replace (19 / 10) with (2 * (1 + - (1 / 20))) by lra. rewrite ln_mult by lra.
  pose proof (ln_1p_le (- (1 / 20)) ltac:(lra)) as H. pose proof ln2_enclosure as (_ & H2). unfold ln2_hi in H2. lra.
Qed.

Lemma ln_1m_ge (e : R) : 0 <= e <= / 2 -> - (2 * e) <= ln (1 - e).
Proof.
  intros He. pose proof (ln_1p_ge' (- e) ltac:(lra)) as H. replace (1 + - e) with (1 - e) in H by ring.
  assert (- (2 * e) <= - e / (1 - e)); [|lra]. apply le_div_intro; [lra|]. nra.
Qed.

Lemma exp_ge_1m (x : R) : 1 - x <= exp (- x).
Proof. pose proof (exp_ineq1_le (- x)). lra. Qed.

(* exp (x + d) against exp x for a small d *)
Lemma exp_shift_le (x d e : R) : Rabs d <= e -> 0 <= e <= / 2 -> exp (x + d) <= exp x * (1 + 2 * e).
Proof.
  intros Hd He. apply Rabs_le_inv in Hd. rewrite exp_plus. apply Rmult_le_compat_l; [apply Rlt_le, exp_pos|].
  apply Rle_trans with (exp e); [apply exp_le_mono; lra|apply exp_le_1p2x; lra].
Qed.
Lemma exp_shift_ge (x d e : R) : Rabs d <= e -> exp x * (1 - e) <= exp (x + d).
Proof.
  intros Hd. apply Rabs_le_inv in Hd. rewrite exp_plus. apply Rmult_le_compat_l; [apply Rlt_le, exp_pos|].
  apply Rle_trans with (exp (- e)); [apply exp_ge_1m|apply exp_le_mono; lra].
Qed.

(* the lower margin of the linear mapping: L_lin stays 0.149 above ln from 1.8 on *)
Lemma lin_low_margin (A v : R) : 9 / 5 <= A -> bpow radix2 (-1022) * A <= v ->
  IZR (-1022) + 1 * ln A + 149 / 1000 <= L_lin v.
Proof.
  intros HA Hv. pose proof (bpow_gt_0 radix2 (-1022)) as Hp.
  set (x := bpow radix2 (-1022) * (9 / 5)).
  assert (Px : 0 < x) by (unfold x; nra).
  assert (Hxv : x <= v) by (unfold x; nra).
  pose proof (ll_growth _ _ _ loglike_lin x v Px Hxv) as Hg.
  assert (Ex : L_lin x = IZR (-1022) + 4 / 5).
  { replace x with (bval (-1022) (4 / 5)) by (unfold x, bval; rewrite <- bpow_pow2; lra).
    rewrite L_lin_bval by lra. reflexivity. }
  assert (Lv : ln (bpow radix2 (-1022)) + ln A <= ln v).
  { rewrite <- ln_mult by lra. apply ln_le_mono; [nra|exact Hv]. }
  assert (Lx : ln x = ln (bpow radix2 (-1022)) + ln (9 / 5)) by (unfold x; rewrite ln_mult by lra; reflexivity).
  pose proof ln_18. lra.
Qed.

Lemma lin_up_margin (v : R) : 0 < v -> v <= bpow radix2 1023 * (3 / 2) -> L_lin v <= 1023 + 9 / 10.
Proof.
  intros Pv Hv. apply Rle_trans with (L_lin (bval 1023 (1 / 2))).
  - apply L_lin_le; [exact Pv|]. unfold bval. rewrite <- bpow_pow2. lra.
  - rewrite L_lin_bval by lra. unfold llin. lra.
Qed.

Lemma cub_low_margin (A v : R) : 19 / 10 <= A -> bpow radix2 (-1022) * A <= v ->
  IZR (-1022) + 10 / 7 * ln A + 5 / 1000 <= MapCub.L_cub v.
Proof.
  intros HA Hv. pose proof (bpow_gt_0 radix2 (-1022)) as Hp.
  set (x := bpow radix2 (-1022) * (19 / 10)).
  assert (Px : 0 < x) by (unfold x; nra).
  assert (Hxv : x <= v) by (unfold x; nra).
  pose proof (ll_growth _ _ _ MapCub.loglike_cub x v Px Hxv) as Hg.
  assert (Ex : MapCub.L_cub x = IZR (-1022) + MapCub.Pcub (9 / 10)).
  { replace x with (bval (-1022) (9 / 10)) by (unfold x, bval; rewrite <- bpow_pow2; lra).
    rewrite MapCub.L_cub_bval by lra. reflexivity. }
  assert (EP : MapCub.Pcub (9 / 10) = 32364 / 35000).
  { unfold MapCub.Pcub, MapCub.cA, MapCub.cB, MapCub.cC. field. }
  assert (Lv : ln (bpow radix2 (-1022)) + ln A <= ln v).
  { rewrite <- ln_mult by lra. apply ln_le_mono; [nra|exact Hv]. }
  assert (Lx : ln x = ln (bpow radix2 (-1022)) + ln (19 / 10)) by (unfold x; rewrite ln_mult by lra; reflexivity).
  pose proof ln_19. lra.
Qed.

Lemma cub_up_margin (v : R) : 0 < v -> v <= bpow radix2 1023 * (3 / 2) -> MapCub.L_cub v <= 1023 + 9 / 10.
Proof.
  intros Pv Hv. apply Rle_trans with (MapCub.L_cub (bval 1023 (1 / 2))).
  - apply L_cub_le; [exact Pv|]. unfold bval. rewrite <- bpow_pow2. lra.
  - rewrite MapCub.L_cub_bval by lra. unfold MapCub.lcub, MapCub.Pcub, MapCub.cA, MapCub.cB, MapCub.cC. lra.
Qed.

(* ------------------------------------------------------------------ *)
(* 3. the hypotheses on the oracle for coarse mappings                 *)
(* ------------------------------------------------------------------ *)
(* math.Log2 on [1, 256]: absolute error k units of 2^-50 (the result is below 8);
   math.Pow on [1, 256] x [0, 2]: relative error k units of 2^-53;
   math.Exp, math.Exp2, math.Floor as in [libm_ok] of GlueCtor *)
Definition log2_accurate_hi (L : libm) (k : R) : Prop :=
  forall x : f64, fin x -> 1 <= BR x <= 256 ->
    fin (l_log2 L x) /\ Rabs (BR (l_log2 L x) - ln (BR x) / ln 2) <= k * u53 * 8.
Definition pow_accurate_hi (L : libm) (k : R) : Prop :=
  forall x y : f64, fin x -> fin y -> 1 <= BR x <= 256 -> 0 <= BR y <= 2 ->
    fin (l_pow L x y) /\
    Rabs (BR (l_pow L x y) - Rpower (BR x) (BR y)) <= k * u53 * Rpower (BR x) (BR y).

Record libm_hi_ok (L : libm) (k : R) : Prop := {
  hi_k : 0 <= k <= 64;
  hi_log2 : log2_accurate_hi L k;
  hi_exp : exp_accurate L k;
  hi_pow : pow_accurate_hi L k;
  hi_exp2u : exp2_underflow_ok L;
  hi_exp2s : exp2_sane L;
  hi_floor : floor_exact L
}.

Lemma ku_hi_small (L : libm) (k : R) : libm_hi_ok L k -> 0 <= k * u53 <= / 140737488355328.
Proof. intros HL. destruct (hi_k _ _ HL). unfold u53. split; nra. Qed.

Lemma pow2_1023_ge (z : R) : z <= 256 -> z <= pow2 1023 * (3 / 2).
Proof.
  intros Hz. rewrite <- bpow_pow2. assert (bpow radix2 8 <= bpow radix2 1023) by (apply bpow_le; lia).
  change (bpow radix2 8) with 256 in H. lra.
Qed.

Lemma inv_cM (kap c M : R) : kap * c = 1 -> 0 < M -> 1 / (c * M) = kap * (1 / M).
Proof.
  intros H HM. assert (c <> 0) by (intros ->; lra).
  replace (kap * (1 / M)) with ((kap * c) * (1 / (c * M))) by (field; lra). rewrite H. ring.
Qed.

(* ------------------------------------------------------------------ *)
(* 4. the constructor with gamma, generic in the interpolated kind     *)
(* ------------------------------------------------------------------ *)
(* the pieces of the mapping returned by New*MappingWithGamma for an interpolated kind: adjustedGamma,
   Min/MaxIndexableValue, the record, 1 + RelativeAccuracy(), the ideal bin ratio and the bound on it *)
Definition q42 : R := / 4398046511104.
Definition adjh_of (L : libm) (cadj g : f64) : f64 := l_pow L g cadj.
Definition minh_of (L : libm) (cadj g off : f64) : f64 :=
  fmax (l_exp2 L (fadd (fdiv (fsub c_min_int32 off) (multf L g)) f64_one)) (fmul c_min_normal (adjh_of L cadj g)).
Definition maxh_of (L : libm) (cadj g off : f64) : f64 :=
  fmin (l_exp2 L (fsub (fdiv (fsub c_max_int32 off) (multf L g)) f64_one))
       (fmul (fdiv (l_exp L c_exp_overflow) (fmul c_two (adjh_of L cadj g))) (fadd (adjh_of L cadj g) f64_one)).
Definition mk_hi_of (L : libm) (kd : mkind) (cadj g off : f64) : gmap :=
  {| gm_kind := kd; gm_gamma := g; gm_off := off; gm_mult := multf L g;
     gm_min := minh_of L cadj g off; gm_max := maxh_of L cadj g off |}.
Definition factorh_of (L : libm) (xarg : f64 -> f64) (g : f64) : f64 :=
  fadd f64_one (fsub f64_one (fdiv c_two (fadd f64_one (l_exp L (xarg (l_log2 L g)))))).
Definition Gh_of (L : libm) (kap : R) (g : f64) : R := exp (kap * BR (l_log2 L g)).
Definition g0h_of (L : libm) (kap : R) (g : f64) : R := Gh_of L kap g * (1 + 40 * u53).

(* what distinguishes the interpolated kinds: kap = 1/c (1 or 7/10), the exponent of adjustedGamma, the argument
   of math.Exp in RelativeAccuracy(), the ideal pair (Lr, Linvr) with its margins at both ends of the float range *)
Record kind_hi (L : libm) (kd : mkind) (kap c : R) (cadj : f64) (xarg : f64 -> f64) (Lr Linvr : R -> R)
               (x0 glo mu : R) : Prop := {
  kh_kc : kap * c = 1;
  kh_kap : 7 / 10 <= kap <= 1;
  kh_c : 1 <= c <= 10 / 7;
  kh_c2 : c * ln 2 <= 1;
  kh_cadj : fin cadj /\ 0 <= BR cadj <= 2 /\ kap * (1 - / 4503599627370496) <= BR cadj * ln 2 <= kap + u53;
  kh_xarg : forall l : f64, fin l -> 0 <= BR l <= 10 ->
            fin (xarg l) /\ Rabs (BR (xarg l) - kap * BR l) <= 8 * u53;
  kh_LL : LogLike Lr Linvr c;
  kh_fwd : forward_ok L kd Lr;
  kh_inv : inverse_ok L kd Linvr;
  kh_x0 : 18 / 10 <= x0;
  kh_glo : x0 + / 100 <= glo;
  kh_mu : / 1000 <= mu;
  kh_low : forall A v : R, x0 <= A -> bpow radix2 (-1022) * A <= v -> IZR (-1022) + c * ln A + mu <= Lr v;
  kh_up : forall v : R, 0 < v -> v <= bpow radix2 1023 * (3 / 2) -> Lr v <= 1023 + 9 / 10;
  kh_wg : forall g off : f64, fle g f64_one = false -> with_gamma L kd g off = Some (mk_hi_of L kd cadj g off);
  kh_acc : forall g off : f64, gm_accuracy L (mk_hi_of L kd cadj g off) =
             fsub f64_one (fdiv c_two (fadd f64_one (l_exp L (xarg (l_log2 L g)))))
}.

(* ... and for New*Mapping (relativeAccuracy): the exponent of gamma, the offset, the lower end of the accuracies *)
Record acc_hi (L : libm) (kd : mkind) (c glo : R) (cpow : f64) (offk : f64 -> f64) (alo : R) : Prop := {
  ah_cpow : fin cpow /\ 0 <= BR cpow <= 2 /\ c * ln 2 * (1 - u53) <= BR cpow <= c * ln 2 * (1 + u53);
  ah_offk : forall g : f64, fin (multf L g) -> 0 <= BR (multf L g) ->
            fin (offk g) /\ Rabs (BR (offk g)) <= 2048 * BR (multf L g);
  ah_alo : 3 / 10 <= alo /\ (glo + / 1000) * (1 - alo) <= 1 + alo;
  ah_wa : forall a : f64, fle a f64_zero = false -> fle f64_one a = false ->
          with_accuracy L kd a = with_gamma L kd (l_pow L (g0f a) cpow) (offk (l_pow L (g0f a) cpow))
}.

Section KindHi.
#[local] Set Default Proof Using "All".
Variable L : libm.
Variable k : R.
Hypothesis HL : libm_hi_ok L k.
Variable kd : mkind.
Variables (kap c : R) (cadj : f64) (xarg : f64 -> f64) (Lr Linvr : R -> R) (x0 glo mu : R).
Hypothesis HK : kind_hi L kd kap c cadj xarg Lr Linvr x0 glo mu.
Local Ltac kh :=
  pose proof (kh_kc _ _ _ _ _ _ _ _ _ _ _ HK) as Hkc; pose proof (kh_kap _ _ _ _ _ _ _ _ _ _ _ HK) as Hkap;
  pose proof (kh_c _ _ _ _ _ _ _ _ _ _ _ HK) as Hc; pose proof (kh_c2 _ _ _ _ _ _ _ _ _ _ _ HK) as Hc2;
  pose proof (kh_x0 _ _ _ _ _ _ _ _ _ _ _ HK) as Hx0; pose proof (kh_glo _ _ _ _ _ _ _ _ _ _ _ HK) as Hglo;
  pose proof (kh_mu _ _ _ _ _ _ _ _ _ _ _ HK) as Hmu.
Local Notation Hcadj := (kh_cadj _ _ _ _ _ _ _ _ _ _ _ HK).
Local Notation Hxarg := (kh_xarg _ _ _ _ _ _ _ _ _ _ _ HK).
Local Notation HLL := (kh_LL _ _ _ _ _ _ _ _ _ _ _ HK).
Local Notation Hfwd := (kh_fwd _ _ _ _ _ _ _ _ _ _ _ HK).
Local Notation Hinv := (kh_inv _ _ _ _ _ _ _ _ _ _ _ HK).
Local Notation Hlow := (kh_low _ _ _ _ _ _ _ _ _ _ _ HK).
Local Notation Hup := (kh_up _ _ _ _ _ _ _ _ _ _ _ HK).
Local Notation Hwg := (kh_wg _ _ _ _ _ _ _ _ _ _ _ HK).
Local Notation Hacc := (kh_acc _ _ _ _ _ _ _ _ _ _ _ HK).

Section CtorHi.
Variable g : f64.
Hypothesis Fg : fin g.
Hypothesis Hg1 : 1 <= BR g <= 256.
Hypothesis HG : glo <= exp (kap * (ln (BR g) / ln 2)) <= 200.

Local Notation lam := (ln (BR g) / ln 2).
Local Notation ell := (BR (l_log2 L g)).
Local Notation ku := (k * u53).
Local Notation Gh := (Gh_of L kap g).
Local Notation g0h := (g0h_of L kap g).
Local Notation factorh := (factorh_of L xarg g).
Local Notation adjh := (adjh_of L cadj g).


Lemma h_lam : 44 / 100 <= kap * lam <= 6 /\ 44 / 100 <= lam <= 86 / 10.
Proof.
  kh.
  assert (H1 : 44 / 100 <= kap * lam).
  { destruct (Rle_lt_dec (44 / 100) (kap * lam)) as [H|H]; [exact H|exfalso].
    pose proof (exp_le_mono _ _ (Rlt_le _ _ H)) as E. pose proof exp_045. lra. }
  assert (H2 : kap * lam <= 6).
  { destruct (Rle_lt_dec (kap * lam) 6) as [H|H]; [exact H|exfalso].
    pose proof (exp_le_mono _ _ (Rlt_le _ _ H)) as E. pose proof exp6_ge. lra. }
  split; [lra|].
  assert (E : lam = c * (kap * lam)) by (rewrite <- Rmult_assoc, (Rmult_comm c kap), Hkc; ring).
  rewrite E. split; nra.
Qed.

Lemma h_ell : fin (l_log2 L g) /\ Rabs (ell - lam) <= 8 * ku /\ 43 / 100 <= ell <= 87 / 10.
Proof.
  kh.
  destruct (hi_log2 _ _ HL g Fg Hg1) as (F & E). pose proof (ku_hi_small L k HL) as Hk.
  destruct h_lam as (_ & B).
  split; [exact F|]. split; [lra|]. apply Rabs_le_inv in E. lra.
Qed.


Lemma h_G : exp (kap * lam) * (1 - 8 * ku) <= Gh <= exp (kap * lam) * (1 + 16 * ku) /\
  x0 + 9 / 1000 <= Gh <= 201 /\ 1 + kap * ell <= Gh.
Proof.
  kh.
  destruct h_ell as (_ & E & B). pose proof (ku_hi_small L k HL) as Hk.
  assert (Ed : Rabs (kap * (ell - lam)) <= 8 * ku).
  { rewrite Rabs_mult, (Rabs_pos_eq kap) by lra. pose proof (Rabs_pos (ell - lam)). nra. }
  assert (B1 : exp (kap * lam) * (1 - 8 * ku) <= Gh <= exp (kap * lam) * (1 + 16 * ku)).
  { unfold Gh_of. replace (kap * ell) with (kap * lam + kap * (ell - lam)) by ring. split.
    - apply exp_shift_ge. exact Ed.
    - replace (16 * ku) with (2 * (8 * ku)) by ring. apply exp_shift_le; [exact Ed|lra]. }
  split; [exact B1|]. pose proof (exp_pos (kap * lam)) as Pe. split; [|apply exp_ineq1_le].
  destruct B1 as (B1 & B2). split.
  - apply Rle_trans with (2 := B1). apply Rle_trans with (glo * (1 - 8 * ku)); [nra|].
    apply Rmult_le_compat_r; lra.
  - apply Rle_trans with (1 := B2). apply Rle_trans with (200 * (1 + 16 * ku)); [|lra].
    apply Rmult_le_compat_r; lra.
Qed.


Lemma h_mult :
  fin (multf L g) /\ / 16 <= BR (multf L g) <= 4 /\
  ell * (1 - u53) <= 1 / BR (multf L g) <= ell * (1 + 2 * u53) /\
  exp (1 / (c * BR (multf L g))) <= g0h.
Proof.
  kh.
  destruct h_ell as (Fl & _ & B).
  assert (Hi : / 16 <= 1 / ell <= 4).
  { split.
    - apply le_div_intro; lra.
    - apply div_le_intro; lra. }
  destruct (fdiv_bounded f64_one (l_log2 L g) f64_one_fin) as (Fm & Rm).
  { lra. }
  { rewrite f64_one_BR. apply (small_le_max 4); [lia|].
    rewrite Rabs_pos_eq by lra. simpl. lra. }
  rewrite f64_one_BR in Rm. fold (multf L g) in Fm, Rm.
  assert (M1 : / 16 <= BR (multf L g)).
  { rewrite Rm. apply rndR_ge; [|lra].
    change (/ 16) with (bpow radix2 (-4)). apply generic_format_bpow. unfold FLT_exp. lia. }
  assert (M2 : BR (multf L g) <= 4).
  { rewrite Rm. apply rndR_le'; [apply (fmt_IZR 4); lia|lra]. }
  assert (Er : Rabs (BR (multf L g) - 1 / ell) <= u53 * (1 / ell)).
  { rewrite Rm.
    assert (Hn : bpow radix2 (-1022) <= Rabs (1 / ell)).
    { rewrite Rabs_pos_eq by lra. apply Rle_trans with (bpow radix2 (-4)); [apply bpow_le; lia|].
      change (bpow radix2 (-4)) with (/ 16). lra. }
    pose proof (rndR_err_normal (1 / ell) Hn) as E. rewrite (Rabs_pos_eq (1 / ell)) in E by lra. exact E. }
  apply Rabs_le_inv in Er.
  assert (Hu : 0 < u53 < / 1000) by (unfold u53; lra).
  set (M := BR (multf L g)) in *. set (r := 1 / ell) in *.
  assert (Er' : ell = 1 / r) by (unfold r; field; lra).
  assert (I1 : ell * (1 - u53) <= 1 / M).
  { apply le_div_intro; [lra|]. rewrite Er'. unfold Rdiv. rewrite Rmult_1_l.
    apply Rmult_le_reg_l with r; [lra|]. rewrite <- !Rmult_assoc, Rinv_r, Rmult_1_l by lra. nra. }
  assert (I2 : 1 / M <= ell * (1 + 2 * u53)).
  { apply div_le_intro; [lra|]. rewrite Er'. unfold Rdiv. rewrite Rmult_1_l.
    apply Rmult_le_reg_l with r; [lra|]. rewrite <- !Rmult_assoc, Rinv_r, Rmult_1_l by lra. nra. }
  split; [exact Fm|]. split; [lra|]. split; [lra|].
  rewrite (inv_cM kap c M Hkc ltac:(lra)).
  apply Rle_trans with (exp (kap * ell + kap * (2 * u53 * ell))).
  { apply exp_le_mono. replace (kap * ell + kap * (2 * u53 * ell)) with (kap * (ell * (1 + 2 * u53))) by ring.
    apply Rmult_le_compat_l; lra. }
  unfold g0h_of, Gh_of. replace (40 * u53) with (2 * (20 * u53)) by ring. apply exp_shift_le; [|unfold u53; lra].
  rewrite Rabs_pos_eq by nra. nra.
Qed.



Lemma h_factor :
  fin factorh /\ 1 <= BR factorh /\ Rabs (BR factorh - (1 + alpha_of g0h)) <= (k + 64) * u53.
Proof.
  kh.
  destruct h_ell as (Fl & _ & B). destruct h_G as (_ & (G1 & G2) & G3).
  pose proof (ku_hi_small L k HL) as Hk. destruct (hi_k _ _ HL) as (K0 & K1).
  destruct (Hxarg _ Fl ltac:(lra)) as (FX & EX).
  set (G := Gh) in *. set (X := BR (xarg (l_log2 L g))) in *. set (t := k * u53) in *.
  assert (Hu : u53 = / 9007199254740992) by reflexivity.
  assert (EG : G * (1 - 8 * u53) <= exp X <= G * (1 + 16 * u53)).
  { unfold G, Gh_of. replace X with (kap * ell + (X - kap * ell)) by ring. split.
    - apply exp_shift_ge. exact EX.
    - replace (16 * u53) with (2 * (8 * u53)) by ring. apply exp_shift_le; [exact EX|rewrite Hu; lra]. }
  apply Rabs_le_inv in EX.
  assert (BX : 0 <= X) by (rewrite Hu in *; nra).
  destruct (hi_exp _ _ HL _ FX BX) as (FE & EE).
  { apply pow2_1023_ge. fold X. rewrite Hu in *. nra. }
  fold X in EE. set (E := BR (l_exp L (xarg (l_log2 L g)))) in *.
  fold t in EE.
  (* E against g0 = G (1 + 40 u) *)
  set (tG := t * G). assert (HtG : 0 <= tG <= / 140737488355328 * G) by (unfold tG; split; nra).
  assert (HtE : t * exp X <= tG * (1 + 16 * u53)).
  { unfold tG. rewrite Rmult_assoc. apply Rmult_le_compat_l; lra. }
  pose proof (exp_pos X) as PX. assert (HtE0 : 0 <= t * exp X) by (apply Rmult_le_pos; lra).
  apply Rabs_le_inv in EE.
  set (g0 := g0h) in *. assert (Eg0 : g0 = G + 40 * u53 * G) by (unfold g0, g0h_of; fold G; ring).
  assert (EE0 : Rabs (E - g0) <= 57 * u53 * G + tG).
  { apply Rabs_le. rewrite Eg0. rewrite Hu in *. lra. }
  apply Rabs_le_inv in EE0.
  assert (BE : 18 / 10 <= E <= 202) by (rewrite Hu in *; lra).
  (* s1 = 1 + E *)
  destruct (fadd_bounded f64_one _ f64_one_fin FE) as (F1 & R1).
  { rewrite f64_one_BR. fold E. apply (small_le_max 256); [lia|]. apply Rabs_le. simpl (IZR 256). lra. }
  rewrite f64_one_BR in R1. fold E in R1.
  set (s1f := fadd f64_one (l_exp L (xarg (l_log2 L g)))) in *.
  assert (E1 : Rabs (BR s1f - (1 + E)) <= u53 * (1 + E)).
  { rewrite R1.
    assert (Hn : bpow radix2 (-1022) <= Rabs (1 + E)).
    { rewrite Rabs_pos_eq by lra. apply Rle_trans with (bpow radix2 0); [apply bpow_le; lia|].
      change (bpow radix2 0) with 1. lra. }
    pose proof (rndR_err_normal (1 + E) Hn) as Er. rewrite (Rabs_pos_eq (1 + E)) in Er by lra. exact Er. }
  apply Rabs_le_inv in E1.
  assert (S2 : 2 <= BR s1f).
  { rewrite R1. apply rndR_ge; [apply (fmt_IZR 2); lia|lra]. }
  set (s1 := BR s1f) in *. set (A0 := 1 + g0).
  assert (HA0 : 2 <= A0) by (unfold A0; rewrite Eg0, Hu; lra).
  set (e := 60 * u53 + t).
  assert (He : 0 <= e) by (unfold e; rewrite Hu; lra).
  assert (Bs : Rabs (s1 - A0) <= e * A0).
  { replace (e * A0) with (60 * u53 * (1 + G + 40 * u53 * G) + t + tG + 40 * u53 * tG)
      by (unfold e, A0, tG; rewrite Eg0; ring).
    assert (HuE : u53 * E <= u53 * (G + 40 * u53 * G + 57 * u53 * G + tG)).
    { apply Rmult_le_compat_l; [rewrite Hu; lra|]. rewrite Eg0 in EE0. lra. }
    assert (HuE0 : 0 <= u53 * E) by (apply Rmult_le_pos; [rewrite Hu; lra|lra]).
    apply Rabs_le. unfold A0. rewrite Eg0. rewrite Hu in *. lra. }
  pose proof (GlueLog.inv_diff_rel A0 s1 e HA0 S2 He Bs) as ID. apply Rabs_le_inv in ID.
  (* d = 2 / s1 *)
  assert (S3 : s1 <= 256).
  { rewrite R1. apply rndR_le'; [apply (fmt_IZR 256); lia|lra]. }
  assert (Bd : / 128 <= 2 / s1 <= 1).
  { split; [apply le_div_intro; lra|apply div_le_intro; lra]. }
  destruct (fdiv_bounded c_two s1f c_two_fin) as (F2 & R2).
  { fold s1. lra. }
  { rewrite c_two_BR. fold s1. apply (small_le_max 1); [lia|]. rewrite Rabs_pos_eq by lra. simpl (IZR 1). lra. }
  rewrite c_two_BR in R2. fold s1 in R2. set (df := fdiv c_two s1f) in *.
  assert (E2 : Rabs (BR df - 2 / s1) <= bpow radix2 (1 - 54)).
  { rewrite R2. apply rndR_err_lt; [lia|]. change (bpow radix2 1) with 2. apply Rabs_lt. lra. }
  change (bpow radix2 (1 - 54)) with (/ 9007199254740992) in E2. apply Rabs_le_inv in E2.
  assert (D1 : 0 <= BR df <= 1).
  { rewrite R2. split.
    - apply rndR_ge; [apply (fmt_IZR 0); lia|lra].
    - apply rndR_le'; [apply (fmt_IZR 1); lia|lra]. }
  (* acc = 1 - d *)
  destruct (fsub_bounded f64_one df f64_one_fin F2) as (F3 & R3).
  { rewrite f64_one_BR. apply (small_le_max 1); [lia|]. apply Rabs_le. simpl (IZR 1). lra. }
  rewrite f64_one_BR in R3. set (accf := fsub f64_one df) in *. set (d := BR df) in *.
  assert (E3 : Rabs (BR accf - (1 - d)) <= bpow radix2 (1 - 54)).
  { rewrite R3. apply rndR_err_lt; [lia|]. change (bpow radix2 1) with 2. apply Rabs_lt. lra. }
  change (bpow radix2 (1 - 54)) with (/ 9007199254740992) in E3. apply Rabs_le_inv in E3.
  assert (A1 : 0 <= BR accf <= 1).
  { rewrite R3. split.
    - apply rndR_ge; [apply (fmt_IZR 0); lia|lra].
    - apply rndR_le'; [apply (fmt_IZR 1); lia|lra]. }
  (* F = 1 + acc *)
  destruct (fadd_bounded f64_one accf f64_one_fin F3) as (F4 & R4).
  { rewrite f64_one_BR. apply (small_le_max 2); [lia|]. apply Rabs_le. simpl (IZR 2). lra. }
  rewrite f64_one_BR in R4. set (acc := BR accf) in *.
  assert (E4 : Rabs (BR (fadd f64_one accf) - (1 + acc)) <= bpow radix2 (2 - 54)).
  { rewrite R4. apply rndR_err_lt; [lia|]. change (bpow radix2 2) with 4. apply Rabs_lt. lra. }
  change (bpow radix2 (2 - 54)) with (/ 4503599627370496) in E4. apply Rabs_le_inv in E4.
  assert (FF1 : 1 <= BR (fadd f64_one accf)).
  { rewrite R4. apply rndR_ge; [apply (fmt_IZR 1); lia|lra]. }
  change (fadd f64_one accf) with factorh in *.
  split; [exact F4|]. split; [exact FF1|].
  assert (Ea : 1 + alpha_of g0 = 2 - 2 / A0) by (unfold alpha_of, A0; field; lra).
  rewrite Ea. replace ((k + 64) * u53) with (t + 64 * u53) by (unfold t; ring).
  apply Rabs_le. unfold e in ID. rewrite Hu in *. lra.
Qed.

(* adjustedGamma = math.Pow (gamma, cadj) is the ideal bin ratio up to 2^-42 *)

Lemma h_adj : fin adjh /\ Gh * (1 - q42) <= BR adjh <= Gh * (1 + q42) /\ x0 + 8 / 1000 <= BR adjh <= 202.
Proof.
  kh.
  destruct Hcadj as (Fc & Bc & Cw).
  destruct (hi_pow _ _ HL g cadj Fg Fc Hg1 Bc) as (Fa & Ea). fold (adjh_of L cadj g) in Fa, Ea.
  destruct h_ell as (_ & El & Bl). destruct h_lam as (_ & Blam). destruct h_G as (_ & (G1 & G2) & _).
  pose proof (ku_hi_small L k HL) as Hk. pose proof ln2_pos as H2.
  set (t := k * u53) in *. set (G := Gh) in *.
  assert (Hu : u53 = / 9007199254740992) by reflexivity.
  assert (Ep : Rpower (BR g) (BR cadj) = exp (BR cadj * ln 2 * lam)).
  { unfold Rpower. f_equal. field. lra. }
  rewrite Ep in Ea. set (w := BR cadj * ln 2) in *.
  set (d0 := 18 * u53 + 8 * t).
  assert (Ed : Rabs (w * lam - kap * ell) <= d0).
  { apply Rabs_le_inv in El. unfold d0. apply Rabs_le. rewrite Hu in *.
    replace (w * lam - kap * ell) with ((w - kap) * lam + kap * (lam - ell)) by ring.
    assert (- (2 * / 9007199254740992 * (86 / 10)) <= (w - kap) * lam <= / 9007199254740992 * (86 / 10)) by nra.
    assert (- (8 * t) <= kap * (lam - ell) <= 8 * t) by nra.
    lra. }
  assert (Hd0 : 0 <= d0 <= / 2) by (unfold d0; rewrite Hu; lra).
  set (Rp := exp (w * lam)) in *.
  assert (BR1 : G * (1 - d0) <= Rp <= G * (1 + 2 * d0)).
  { unfold Rp, G, Gh_of. replace (w * lam) with (kap * ell + (w * lam - kap * ell)) by ring. split.
    - apply exp_shift_ge. exact Ed.
    - apply exp_shift_le; [exact Ed|exact Hd0]. }
  assert (PR : 0 < Rp) by apply exp_pos. apply Rabs_le_inv in Ea.
  assert (K1 : (1 + 2 * d0) * (1 + t) <= 1 + q42) by (unfold d0, q42; rewrite Hu; nra).
  assert (K2 : 1 - q42 <= (1 - d0) * (1 - t)) by (unfold d0, q42; rewrite Hu; nra).
  assert (Lo : G * (1 - q42) <= BR adjh).
  { apply Rle_trans with (G * ((1 - d0) * (1 - t))); [apply Rmult_le_compat_l; lra|].
    rewrite <- Rmult_assoc. apply Rle_trans with (Rp * (1 - t)); [apply Rmult_le_compat_r; lra|lra]. }
  assert (Up : BR adjh <= G * (1 + q42)).
  { apply Rle_trans with (G * ((1 + 2 * d0) * (1 + t))); [|apply Rmult_le_compat_l; lra].
    rewrite <- Rmult_assoc. apply Rle_trans with (Rp * (1 + t)); [lra|apply Rmult_le_compat_r; lra]. }
  split; [exact Fa|]. split; [split; assumption|]. unfold q42 in *. split; nra.
Qed.

(* ------------------------------------------------------------------ *)
(* MinIndexableValue, MaxIndexableValue                                *)
(* ------------------------------------------------------------------ *)
Variable off : f64.
Hypothesis Fo : fin off.
Hypothesis Bo : Rabs (BR off) <= 2048 * BR (multf L g).
Local Notation minh := (minh_of L cadj g off).
Local Notation maxh := (maxh_of L cadj g off).
Local Notation mk_hi := (mk_hi_of L kd cadj g off).



Lemma h_min :
  fin minh /\ bpow radix2 (-1022) <= BR minh /\
  bpow radix2 (-1022) * BR adjh * (1 - u53) <= BR minh.
Proof.
  kh.
  destruct h_mult as (Fm & BM & _). destruct h_adj as (Fa & _ & Ba').
  destruct consts_fin as (_ & _ & _ & Fmi & _ & Fmn).
  set (M := BR (multf L g)) in *. set (O := BR off) in *. apply Rabs_le_inv in Bo.
  destruct (fsub_bounded c_min_int32 off Fmi Fo) as (F1 & R1).
  { rewrite c_min_int32_BR. fold O. apply (small_le_max 4294967296); [lia|]. apply Rabs_le. simpl (IZR 4294967296). lra. }
  rewrite c_min_int32_BR in R1. fold O in R1.
  assert (B1 : -4294967296 <= BR (fsub c_min_int32 off) <= -1073741824).
  { rewrite R1. split.
    - apply rndR_ge; [apply (fmt_IZR (-4294967296)); lia|lra].
    - apply rndR_le'; [apply (fmt_IZR (-1073741824)); lia|lra]. }
  set (x1 := BR (fsub c_min_int32 off)) in *.
  assert (Q1 : -68719476736 <= x1 / M <= -2048).
  { split.
    - apply le_div_intro; [lra|]. nra.
    - apply div_le_intro; [lra|]. nra. }
  destruct (fdiv_bounded (fsub c_min_int32 off) (multf L g) F1) as (F2 & R2).
  { fold M. lra. }
  { fold x1 M. apply (small_le_max 68719476736); [lia|]. apply Rabs_le. simpl (IZR 68719476736). lra. }
  fold x1 M in R2.
  assert (B2 : -68719476736 <= BR (fdiv (fsub c_min_int32 off) (multf L g)) <= -2048).
  { rewrite R2. split.
    - apply rndR_ge; [apply (fmt_IZR (-68719476736)); lia|lra].
    - apply rndR_le'; [apply (fmt_IZR (-2048)); lia|lra]. }
  destruct (fadd_bounded _ f64_one F2 f64_one_fin) as (F3 & R3).
  { rewrite f64_one_BR. apply (small_le_max 68719476736); [lia|]. apply Rabs_le. simpl (IZR 68719476736). lra. }
  rewrite f64_one_BR in R3.
  assert (B3 : BR (fadd (fdiv (fsub c_min_int32 off) (multf L g)) f64_one) <= -1100).
  { rewrite R3. apply rndR_le'; [apply (fmt_IZR (-1100)); lia|lra]. }
  destruct (hi_exp2u _ _ HL _ F3 B3) as (Fe & Be).
  pose proof (bpow_gt_0 radix2 (-1022)) as Hp.
  assert (Ba2 : 1 <= BR adjh <= 256) by lra.
  destruct (fmul_bounded c_min_normal adjh Fmn Fa) as (Fy & Ry).
  { rewrite c_min_normal_BR'. apply Rle_trans with (bpow radix2 0); [|apply bpow_le_max; lia].
    rewrite Rabs_pos_eq by nra.
    apply Rle_trans with (bpow radix2 (-1022) * 256); [nra|].
    change 256 with (bpow radix2 8). rewrite <- bpow_plus. apply bpow_le. lia. }
  rewrite c_min_normal_BR' in Ry.
  assert (Y1 : bpow radix2 (-1022) <= BR (fmul c_min_normal adjh)).
  { rewrite Ry. apply rndR_ge; [apply generic_format_bpow; unfold FLT_exp; lia|nra]. }
  assert (Y2 : bpow radix2 (-1022) * BR adjh * (1 - u53) <= BR (fmul c_min_normal adjh)).
  { rewrite Ry. set (x := bpow radix2 (-1022) * BR adjh).
    assert (Hx : bpow radix2 (-1022) <= Rabs x) by (unfold x; rewrite Rabs_pos_eq; nra).
    pose proof (rndR_err_normal x Hx) as E. rewrite (Rabs_pos_eq x) in E by (unfold x; nra).
    apply Rabs_le_inv in E. lra. }
  destruct (fmax_ge_r _ _ Fe Fy) as (Fmin & Bmin). fold (minh_of L cadj g off) in Fmin, Bmin.
  split; [exact Fmin|]. split; lra.
Qed.

Lemma h_max :
  fin maxh /\ BR maxh <= bpow radix2 1023 * (7072 / 10000) * (1 + / BR adjh).
Proof.
  kh.
  destruct h_mult as (Fm & BM & _). destruct h_adj as (Fa & _ & Ba').
  destruct consts_fin as (_ & _ & Fov & _ & Fma & _).
  pose proof (ku_hi_small L k HL) as Hk.
  set (M := BR (multf L g)) in *. set (O := BR off) in *. apply Rabs_le_inv in Bo.
  destruct (fsub_bounded c_max_int32 off Fma Fo) as (F1 & R1).
  { rewrite c_max_int32_BR. fold O. apply (small_le_max 4294967296); [lia|]. apply Rabs_le. simpl (IZR 4294967296). lra. }
  rewrite c_max_int32_BR in R1. fold O in R1.
  assert (B1 : Rabs (BR (fsub c_max_int32 off)) <= 4294967296).
  { rewrite R1. apply (rndR_abs_le _ 4294967296); [lia|]. apply Rabs_le. simpl (IZR 4294967296). lra. }
  set (x1 := BR (fsub c_max_int32 off)) in *. apply Rabs_le_inv in B1.
  assert (Q1 : Rabs (x1 / M) <= 68719476736).
  { apply Rabs_le. split.
    - apply le_div_intro; [lra|]. nra.
    - apply div_le_intro; [lra|]. nra. }
  destruct (fdiv_bounded (fsub c_max_int32 off) (multf L g) F1) as (F2 & R2).
  { fold M. lra. }
  { fold x1 M. apply (small_le_max 68719476736); [lia|exact Q1]. }
  fold x1 M in R2.
  assert (B2 : Rabs (BR (fdiv (fsub c_max_int32 off) (multf L g))) <= 68719476736).
  { rewrite R2. apply (rndR_abs_le _ 68719476736); [lia|exact Q1]. }
  apply Rabs_le_inv in B2.
  destruct (fsub_bounded _ f64_one F2 f64_one_fin) as (F3 & _).
  { rewrite f64_one_BR. apply (small_le_max 68719476737); [lia|]. apply Rabs_le. simpl (IZR 68719476737). lra. }
  pose proof (hi_exp2s _ _ HL _ F3) as S2.
  (* math.Exp (expOverflow) *)
  pose proof exp_c_ov as Eov. rewrite <- bpow_pow2 in Eov.
  set (P := bpow radix2 1023) in *. assert (PP : 0 < P) by apply bpow_gt_0.
  destruct (hi_exp _ _ HL c_exp_overflow Fov) as (FE & EE).
  { rewrite c_exp_overflow_BR. unfold c_ovr. lra. }
  { rewrite c_exp_overflow_BR, <- bpow_pow2. fold P. nra. }
  rewrite c_exp_overflow_BR in EE. set (X := exp c_ovr) in *. assert (PX : 0 < X) by apply exp_pos.
  set (E := BR (l_exp L c_exp_overflow)) in *. apply Rabs_le_inv in EE.
  assert (KX : 0 <= k * u53 * X <= / 140737488355328 * X) by (split; [nra|apply Rmult_le_compat_r; lra]).
  assert (BE : 0 < E <= P * (141431 / 100000)) by nra.
  set (A := BR adjh) in *. assert (BA : 18 / 10 <= A <= 202) by lra.
  assert (Hu : 0 < u53 < / 1000000) by (unfold u53; lra).
  destruct (fmul_bounded c_two adjh c_two_fin Fa) as (Ft & Rt).
  { rewrite c_two_BR. fold A. apply (small_le_max 512); [lia|]. apply Rabs_le. simpl (IZR 512). lra. }
  rewrite c_two_BR in Rt. fold A in Rt.
  assert (Et : Rabs (BR (fmul c_two adjh) - 2 * A) <= u53 * (2 * A)).
  { rewrite Rt.
    assert (Hn : bpow radix2 (-1022) <= Rabs (2 * A)).
    { rewrite Rabs_pos_eq by lra. apply Rle_trans with (bpow radix2 0); [apply bpow_le; lia|].
      change (bpow radix2 0) with 1. lra. }
    pose proof (rndR_err_normal (2 * A) Hn) as Er. rewrite (Rabs_pos_eq (2 * A)) in Er by lra. exact Er. }
  set (TA := BR (fmul c_two adjh)) in *. apply Rabs_le_inv in Et.
  assert (BT : 2 * A * (1 - u53) <= TA <= 405) by nra.
  destruct (fadd_bounded adjh f64_one Fa f64_one_fin) as (F5 & R5).
  { rewrite f64_one_BR. fold A. apply (small_le_max 512); [lia|]. apply Rabs_le. simpl (IZR 512). lra. }
  rewrite f64_one_BR in R5. fold A in R5.
  assert (E5 : Rabs (BR (fadd adjh f64_one) - (A + 1)) <= u53 * (A + 1)).
  { rewrite R5.
    assert (Hn : bpow radix2 (-1022) <= Rabs (A + 1)).
    { rewrite Rabs_pos_eq by lra. apply Rle_trans with (bpow radix2 0); [apply bpow_le; lia|].
      change (bpow radix2 0) with 1. lra. }
    pose proof (rndR_err_normal (A + 1) Hn) as Er. rewrite (Rabs_pos_eq (A + 1)) in Er by lra. exact Er. }
  set (A1 := BR (fadd adjh f64_one)) in *. apply Rabs_le_inv in E5.
  set (W := / A). assert (HW : W * A = 1) by (unfold W; field; lra).
  assert (BW : / 202 <= W <= 10 / 18) by (split; nra).
  set (D := / TA). assert (HD : D * TA = 1) by (unfold D; field; nra).
  assert (PD : 0 < D) by (unfold D; apply Rinv_0_lt_compat; nra).
  assert (BD : D <= W * ((1 + 2 * u53) / 2)).
  { assert (D * (2 * A * (1 - u53)) <= 1).
    { apply Rle_trans with (D * TA); [apply Rmult_le_compat_l; lra|lra]. }
    assert (W * ((1 + 2 * u53) / 2) * (2 * A * (1 - u53)) >= 1).
    { replace (W * ((1 + 2 * u53) / 2) * (2 * A * (1 - u53))) with ((W * A) * ((1 + 2 * u53) * (1 - u53))) by field.
      rewrite HW. nra. }
    assert (0 < 2 * A * (1 - u53)) by nra.
    apply Rmult_le_reg_r with (2 * A * (1 - u53)); lra. }
  assert (Bq : 0 <= E / TA <= P * (70717 / 100000) * W).
  { unfold Rdiv. fold D. split; [apply Rmult_le_pos; lra|].
    apply Rle_trans with (P * (141431 / 100000) * (W * ((1 + 2 * u53) / 2))).
    - apply Rmult_le_compat; lra.
    - rewrite Rmult_assoc. rewrite (Rmult_assoc P). apply Rmult_le_compat_l; [lra|]. nra. }
  destruct (fdiv_bounded (l_exp L c_exp_overflow) (fmul c_two adjh) FE) as (F6 & R6).
  { fold TA. nra. }
  { fold E TA. apply Rle_trans with (2 := max_3_1022). rewrite Rabs_pos_eq by lra.
    apply Rle_trans with (1 := proj2 Bq). unfold P. replace 1023%Z with (1 + 1022)%Z by lia.
    rewrite bpow_plus. change (bpow radix2 1) with 2. pose proof (bpow_gt_0 radix2 1022). nra. }
  fold E TA in R6.
  assert (Hq : Rabs (BR (fdiv (l_exp L c_exp_overflow) (fmul c_two adjh)) - E / TA) <= u53 * (E / TA) + u100).
  { rewrite R6. pose proof (rndR_err_rel (E / TA)) as Er. rewrite (Rabs_pos_eq (E / TA)) in Er by lra. exact Er. }
  set (Q := BR (fdiv (l_exp L c_exp_overflow) (fmul c_two adjh))) in *. apply Rabs_le_inv in Hq.
  assert (Hu100 : 0 < u100 < / 1000000) by (unfold u100; lra).
  assert (P1 : 1024 <= P).
  { unfold P. apply Rle_trans with (bpow radix2 10); [change (bpow radix2 10) with 1024; lra|apply bpow_le; lia]. }
  set (PW := P * W). assert (BPW : 1 <= PW <= P).
  { unfold PW. split.
    - apply Rle_trans with (1024 * / 202); [lra|]. apply Rmult_le_compat; lra.
    - apply Rle_trans with (P * 1); [apply Rmult_le_compat_l; lra|lra]. }
  assert (Bq' : 0 <= E / TA <= 70717 / 100000 * PW).
  { split; [lra|]. apply Rle_trans with (1 := proj2 Bq). unfold PW. right. ring. }
  set (Rq := E / TA) in *.
  assert (BQ : - u100 <= Q <= 70718 / 100000 * PW) by (unfold u53, u100 in *; lra).
  assert (BA1 : 0 <= A1 <= (A + 1) * (1 + u53)).
  { split; [|lra]. assert (0 <= (A + 1) * (1 - u53)) by (apply Rmult_le_pos; lra). lra. }
  set (S := P + PW).
  assert (ES : PW * (A + 1) = S).
  { unfold S, PW. rewrite Rmult_plus_distr_l, Rmult_assoc, HW. ring. }
  assert (BS : 3 <= S <= 2 * P) by (unfold S; lra).
  assert (Up : Q * A1 <= 70718 / 100000 * (1 + u53) * S).
  { rewrite <- ES.
    replace (70718 / 100000 * (1 + u53) * (PW * (A + 1))) with ((70718 / 100000 * PW) * ((A + 1) * (1 + u53))) by ring.
    destruct (Rle_lt_dec 0 Q) as [Q0|Q0].
    - apply Rmult_le_compat; lra.
    - apply Rle_trans with 0.
      + rewrite <- (Rmult_0_l A1). apply Rmult_le_compat_r; lra.
      + apply Rmult_le_pos; [lra|]. apply Rmult_le_pos; lra. }
  assert (Lo : - (512 * u100) <= Q * A1).
  { assert (A1 <= 512) by (apply Rle_trans with (1 := proj2 BA1); unfold u53; nra).
    destruct (Rle_lt_dec 0 Q) as [Q0|Q0].
    - apply Rle_trans with 0; [lra|apply Rmult_le_pos; lra].
    - apply Rle_trans with (- u100 * 512); [lra|].
      apply Rle_trans with (- u100 * A1); [apply Rmult_le_compat_neg_l; lra|apply Rmult_le_compat_r; lra]. }
  assert (BQA : Rabs (Q * A1) <= 70719 / 100000 * S).
  { apply Rabs_le. unfold u53, u100 in *. lra. }
  assert (S3 : 70720 / 100000 * S <= 3 * bpow radix2 1022).
  { assert (P = 2 * bpow radix2 1022).
    { unfold P. replace 1023%Z with (1 + 1022)%Z by lia. rewrite bpow_plus. reflexivity. }
    pose proof (bpow_gt_0 radix2 1022). lra. }
  destruct (fmul_bounded _ _ F6 F5) as (F7 & R7).
  { fold Q A1. apply Rle_trans with (2 := max_3_1022). lra. }
  fold Q A1 in R7.
  assert (B7 : BR (fmul (fdiv (l_exp L c_exp_overflow) (fmul c_two adjh)) (fadd adjh f64_one))
               <= 7072 / 10000 * S).
  { rewrite R7. pose proof (rndR_err_rel (Q * A1)) as Er. apply Rabs_le_inv in Er.
    pose proof (Rle_abs (Q * A1)). unfold u53, u100 in *. lra. }
  destruct (fmin_le_r _ _ S2 F7) as (Fmax & Bmax). fold (maxh_of L cadj g off) in Fmax, Bmax.
  split; [exact Fmax|]. apply Rle_trans with (1 := Bmax). apply Rle_trans with (1 := B7).
  unfold S, PW, W. right. ring.
Qed.
(* ------------------------------------------------------------------ *)
(* the mapping the constructor returns                                 *)
(* ------------------------------------------------------------------ *)

Lemma h_gamma_gt_1 : 1 < BR g.
Proof.
  kh.
  destruct Hg1 as [[H|H] _]; [exact H|exfalso]. destruct h_lam as (_ & B & _).
  rewrite <- H, ln_1 in B. unfold Rdiv in B. rewrite Rmult_0_l in B. lra.
Qed.

Lemma h_with_gamma_eq : with_gamma L kd g off = Some mk_hi.
Proof.
  kh.
  apply Hwg. destruct (fle g f64_one) eqn:E; [|reflexivity].
  apply (fle_spec g f64_one Fg f64_one_fin) in E. rewrite f64_one_BR in E. pose proof h_gamma_gt_1. lra.
Qed.

Lemma h_reasonable : reasonable_hi kd mk_hi.
Proof.
  kh.
  destruct h_mult as (Fm & BM & _).
  unfold reasonable_hi, mk_hi_of. cbn [gm_kind gm_mult gm_off]. repeat split; try assumption; lra.
Qed.

Lemma h_g0 : exp (1 / (c * BR (gm_mult mk_hi))) <= g0h.
Proof. kh. destruct h_mult as (_ & _ & _ & H). exact H. Qed.

Lemma h_factor_ok : value_factor_ok L mk_hi g0h ((k + 64) * u53).
Proof.
  kh.
  destruct h_factor as (F & F1 & E). unfold value_factor_ok. rewrite (Hacc g off). exact (conj F (conj F1 E)).
Qed.

Lemma h_range_fin : fin (gm_min mk_hi) /\ fin (gm_max mk_hi) /\ bpow radix2 (-1022) <= BR (gm_min mk_hi).
Proof.
  kh.
  destruct h_min as (F1 & B1 & _). destruct h_max as (F2 & _).
  cbn [gm_min gm_max mk_hi_of]. split; [exact F1|]. split; [exact F2|exact B1].
Qed.

Lemma h_max_le : BR maxh <= bpow radix2 1023 * (3 / 2).
Proof.
  kh.
  destruct h_max as (_ & B). destruct h_adj as (_ & _ & BA). pose proof (bpow_gt_0 radix2 1023) as PP.
  apply Rle_trans with (1 := B). set (A := BR adjh) in *.
  set (W := / A). assert (HW : W * A = 1) by (unfold W; field; lra).
  assert (BW : 0 <= W <= 10 / 18) by (split; nra).
  rewrite Rmult_assoc. apply Rmult_le_compat_l; lra.
Qed.

(* a finite v with MinIndexableValue < v <= MaxIndexableValue is a normal float whose index is in range *)
Lemma h_in_range (v : f64) :
  fin v -> BR (gm_min mk_hi) < BR v -> BR v <= BR (gm_max mk_hi) ->
  pos_normal v /\ in_range mk_hi (gm_index L mk_hi v).
Proof.
  kh.
  intros Fv Hlo Hhi. cbn [gm_min gm_max mk_hi_of] in Hlo, Hhi.
  destruct h_min as (_ & B1 & B1'). pose proof h_max_le as B2.
  destruct h_adj as (_ & BA & BA'). destruct h_mult as (Fm & BM & (_ & IM) & _).
  destruct h_G as (_ & (G1 & G2) & _). destruct h_ell as (_ & _ & Bl).
  assert (Hv : pos_normal v) by (split; [exact Fv|lra]).
  split; [exact Hv|].
  pose proof h_reasonable as Hm.
  destruct (hi_index_brackets L kd Lr Hfwd mk_hi Hm v Hv) as (I1 & I2 & I3).
  pose proof (hi_index_small L kd Lr Hfwd mk_hi Hm v Hv) as Hi.
  destruct (hi_lower_arg_err kd mk_hi Hm (gm_index L mk_hi v) ltac:(lia)) as (_ & Ei).
  cbn [gm_off gm_mult mk_hi_of] in Ei, I1, I2, I3.
  destruct (Hfwd v Hv) as (Pv & _).
  remember (gm_index L mk_hi v) as i eqn:Eqi.
  remember (BR (lower_arg mk_hi i)) as fti eqn:Efti.
  remember (BR adjh) as A eqn:EA. remember (BR (multf L g)) as M eqn:EM. remember (BR off) as O eqn:EO.
  remember (BR (l_log2 L g)) as el eqn:Eel.
  assert (EG : Gh = exp (kap * el)) by (rewrite Eel; reflexivity).
  remember Gh as G eqn:EGG.
  assert (Hu : u53 = / 9007199254740992) by reflexivity.
  pose proof (bpow_gt_0 radix2 (-1022)) as Hp.
  (* from below *)
  assert (HA' : x0 <= A * (1 - u53)) by (rewrite Hu; nra).
  assert (Hv' : bpow radix2 (-1022) * (A * (1 - u53)) <= BR v) by (rewrite <- Rmult_assoc; lra).
  pose proof (Hlow _ _ HA' Hv') as Llo.
  assert (LA : kap * el - (2 * q42 + 2 * u53) <= ln (A * (1 - u53))).
  { apply Rle_trans with (ln (G * (1 - q42) * (1 - u53))).
    - rewrite !ln_mult by (unfold q42; rewrite ?Hu; lra). rewrite EG, ln_exp.
      pose proof (ln_1m_ge q42 ltac:(unfold q42; lra)). pose proof (ln_1m_ge u53 ltac:(rewrite Hu; lra)). lra.
    - apply ln_le_mono; [unfold q42; rewrite Hu; nra|]. apply Rmult_le_compat_r; [rewrite Hu; lra|lra]. }
  assert (LcA : el - 10 / 7 * (2 * q42 + 2 * u53) <= c * ln (A * (1 - u53))).
  { assert (Ec : el = c * (kap * el)) by (rewrite <- Rmult_assoc, (Rmult_comm c kap), Hkc; ring).
    rewrite Ec at 1. assert (0 <= 2 * q42 + 2 * u53) by (unfold q42; rewrite Hu; lra).
    apply Rle_trans with (c * (kap * el - (2 * q42 + 2 * u53))); [|apply Rmult_le_compat_l; lra].
    rewrite Rmult_minus_distr_l. apply Rplus_le_compat_l. apply Ropp_le_contravar.
    apply Rmult_le_compat_r; lra. }
  (* from above *)
  pose proof (Hup _ Pv (Rle_trans _ _ _ Hhi B2)) as Lhi.
  remember (Lr (BR v)) as Lv eqn:ELv.
  pose proof (div_plus_one (IZR i) O M) as Et. rewrite Et in I2.
  remember ((IZR i - O) / M) as ti eqn:Eti.
  assert (Bti : -1022 + / 2000 <= ti <= 1024 - / 20).
  { unfold q40, q42 in *. rewrite Hu in *. split; [nra|lra]. }
  assert (Ci : Rabs (fti - ti) <= q41).
  { apply Rle_trans with (1 := Ei).
    assert (Rabs ti <= 1026) by (apply Rabs_le; lra). unfold u53, u100, q41 in *. nra. }
  apply Rabs_le_inv in Ci.
  unfold in_range. rewrite <- Efti. unfold q41 in Ci. split.
  - apply Zfloor_lub. simpl (IZR (-1022)). lra.
  - apply Z.lt_succ_r. apply lt_IZR. apply Rle_lt_trans with (1 := Zfloor_lb _). change (IZR (Z.succ 1023)) with 1024. lra.
Qed.

Lemma h_value_fin (v : f64) :
  fin v -> BR (gm_min mk_hi) < BR v -> BR v <= BR (gm_max mk_hi) ->
  fin (gm_value L mk_hi (gm_index L mk_hi v)).
Proof.
  kh.
  intros Fv Hlo Hhi.
  destruct (h_in_range v Fv Hlo Hhi) as (Hv & Ri).
  pose proof h_reasonable as Hm.
  destruct (hi_lower_le L kd Lr Linvr c HLL (proj1 Hc) Hfwd Hinv mk_hi Hm v Hv Ri) as (Fl & Nl & K1).
  destruct h_factor_ok as (FF & F1 & EF).
  destruct h_max as (_ & B2). destruct h_adj as (_ & BA & BA'). destruct h_G as (_ & (G1 & G2) & _).
  destruct (hi_k _ _ HL) as (K0 & K64).
  cbn [gm_max mk_hi_of] in Hhi.
  unfold gm_value. apply fmul_bounded; [exact Fl|exact FF|].
  apply Rle_trans with (2 := max_3_1022).
  remember (BR (gm_lower L mk_hi (gm_index L mk_hi v))) as lo. remember (BR (fadd f64_one (gm_accuracy L mk_hi))) as F.
  remember (BR adjh) as A. remember Gh as G.
  pose proof (bpow_gt_0 radix2 (-1022)) as Hp.
  rewrite Rabs_pos_eq by (apply Rmult_le_pos; lra).
  assert (Hu : u53 = / 9007199254740992) by reflexivity.
  set (g0 := g0h) in *. assert (Eg0 : g0 = G * (1 + 40 * u53)) by (unfold g0, g0h_of; rewrite HeqG; reflexivity).
  assert (Hg0 : 1 <= g0) by (rewrite Eg0, Hu; nra).
  set (Fr := 1 + alpha_of g0) in *.
  assert (EFr : Fr * (1 + g0) = 2 * g0) by (unfold Fr, alpha_of; field; lra).
  set (W := / A) in *. assert (HW : W * A = 1) by (unfold W; field; lra).
  assert (PW : 0 < W <= 10 / 18) by (split; [unfold W; apply Rinv_0_lt_compat; lra|nra]).
  assert (WG : W * G <= 10001 / 10000).
  { assert (W * (G * (1 - q42)) <= 1) by (apply Rle_trans with (W * A); [apply Rmult_le_compat_l; lra|lra]).
    unfold q42 in *. nra. }
  assert (PFr : 0 < Fr <= 2).
  { unfold Fr. destruct (Req_dec g0 1) as [E1|N1].
    - rewrite E1. unfold alpha_of. lra.
    - pose proof (alpha_of_bounds g0 ltac:(lra)). lra. }
  assert (Key : (1 + W) * Fr <= 21 / 10).
  { apply Rmult_le_reg_r with (1 + g0); [lra|]. rewrite Rmult_assoc, EFr.
    assert (W * g0 <= 10002 / 10000) by (rewrite Eg0, <- Rmult_assoc, Hu; nra).
    replace ((1 + W) * (2 * g0)) with (2 * g0 + 2 * (W * g0)) by ring. lra. }
  set (P := bpow radix2 1023) in *. assert (PP : 0 < P) by apply bpow_gt_0.
  assert (EP : P = 2 * bpow radix2 1022).
  { unfold P. replace 1023%Z with (1 + 1022)%Z by lia. rewrite bpow_plus. reflexivity. }
  apply Rabs_le_inv in EF.
  assert (BF : F <= Fr + 128 * u53) by (rewrite Hu in *; nra).
  assert (Blo : lo <= P * (7072 / 10000) * (1 + W) * (1 + q38)).
  { apply Rle_trans with (1 := K1). apply Rmult_le_compat_r; [unfold q38; lra|]. lra. }
  apply Rle_trans with (P * (7072 / 10000) * (1 + W) * (1 + q38) * (Fr + 128 * u53)).
  - apply Rmult_le_compat; lra.
  - replace (P * (7072 / 10000) * (1 + W) * (1 + q38) * (Fr + 128 * u53))
      with (P * (7072 / 10000) * (1 + q38) * ((1 + W) * Fr + 128 * u53 * (1 + W))) by ring.
    unfold q38. rewrite Hu in *. nra.
Qed.

(* accuracy, and the bin of v in terms of its own lower bound, on the whole indexable range of the
   constructed mapping; nothing is asked of index + 1 *)
Theorem h_with_gamma_accuracy (v : f64) :
  fin v -> BR (gm_min mk_hi) < BR v -> BR v <= BR (gm_max mk_hi) ->
  let i := gm_index L mk_hi v in
  pos_normal v /\ in_range mk_hi i /\ fin (gm_value L mk_hi i) /\
  BR (gm_lower L mk_hi i) <= BR v * (1 + q38) /\
  BR v <= BR (gm_lower L mk_hi i) * exp (1 / (c * BR (gm_mult mk_hi))) * (1 + q38) /\
  Rabs (BR (gm_value L mk_hi i) - BR v) <= (alpha_of g0h + (k + 64) * u53 + q36) * BR v.
Proof.
  kh.
  intros Fv Hlo Hhi i.
  destruct (h_in_range v Fv Hlo Hhi) as (Hv & Ri).
  pose proof (h_value_fin v Fv Hlo Hhi) as FV.
  pose proof h_reasonable as Hm. fold i in Ri, FV.
  destruct (hi_lower_le L kd Lr Linvr c HLL (proj1 Hc) Hfwd Hinv mk_hi Hm v Hv Ri) as (_ & _ & K1).
  pose proof (hi_v_le_lower L kd Lr Linvr c HLL (proj1 Hc) Hfwd Hinv mk_hi Hm v Hv Ri) as K3.
  destruct (hi_k _ _ HL) as (K0 & K64).
  split; [exact Hv|]. split; [exact Ri|]. split; [exact FV|]. split; [exact K1|]. split; [exact K3|].
  apply (hi_value_accuracy L kd Lr Linvr c HLL (proj1 Hc) Hfwd Hinv mk_hi Hm g0h ((k + 64) * u53) v); try assumption.
  - exact h_g0.
  - unfold u53. split; nra.
  - exact h_factor_ok.
Qed.

(* containment from above, when the next index is in range too *)
Theorem h_with_gamma_upper (v : f64) :
  fin v -> BR (gm_min mk_hi) < BR v -> BR v <= BR (gm_max mk_hi) ->
  let i := gm_index L mk_hi v in
  in_range mk_hi (i + 1) -> BR v <= BR (gm_lower L mk_hi (i + 1)) * (1 + q38).
Proof.
  kh.
  intros Fv Hlo Hhi i Rj.
  destruct (h_in_range v Fv Hlo Hhi) as (Hv & Ri).
  exact (hi_v_le_next L kd Lr Linvr c HLL (proj1 Hc) Hfwd Hinv mk_hi h_reasonable v Hv Rj).
Qed.
End CtorHi.

(* ------------------------------------------------------------------ *)
(* 5. the constructor with relativeAccuracy, generic in the kind       *)
(* ------------------------------------------------------------------ *)
Section AccHi.
Variable cpow : f64.
Variable offk : f64 -> f64.
Variable alo : R.
Hypothesis HA : acc_hi L kd c glo cpow offk alo.
Local Notation Hcpow := (ah_cpow _ _ _ _ _ _ _ HA).
Local Notation Hoffk := (ah_offk _ _ _ _ _ _ _ HA).
Local Notation Halo := (ah_alo _ _ _ _ _ _ _ HA).
Variable a : f64.
Hypothesis Fa : fin a.
Hypothesis Ba : alo <= BR a <= 99 / 100.
Local Notation Hwa := (ah_wa _ _ _ _ _ _ _ HA a).

Local Notation ar := (BR a).
Local Notation gp := ((1 + BR a) / (1 - BR a)).
Local Notation t := (k * u53).

Definition gammah : f64 := l_pow L (g0f a) cpow.

Lemma gp_bounds : glo + / 1000 <= gp <= 199 /\ gp * (1 - ar) = 1 + ar.
Proof.
  kh.
  destruct Halo as (H1 & H2). split; [|field; lra]. split.
  - apply le_div_intro; [lra|]. nra.
  - apply div_le_intro; lra.
Qed.

Lemma g0f_hi_props : fin (g0f a) /\ gp * (1 - 4 * u53) <= BR (g0f a) <= gp * (1 + 4 * u53) /\ 1 <= BR (g0f a) <= 256.
Proof.
  kh.
  destruct gp_bounds as (Bgp & Hgp). destruct Halo as (H1 & _).
  assert (Hu : u53 = / 9007199254740992) by reflexivity.
  destruct (fadd_bounded f64_one a f64_one_fin Fa) as (F1 & R1).
  { rewrite f64_one_BR. apply (small_le_max 2); [lia|]. apply Rabs_le. simpl (IZR 2). lra. }
  destruct (fsub_bounded f64_one a f64_one_fin Fa) as (F2 & R2).
  { rewrite f64_one_BR. apply (small_le_max 2); [lia|]. apply Rabs_le. simpl (IZR 2). lra. }
  rewrite f64_one_BR in R1, R2.
  assert (Hn0 : forall z, / 100 <= z -> bpow radix2 (-1022) <= Rabs z).
  { intros z Hz. rewrite Rabs_pos_eq by lra. apply Rle_trans with (bpow radix2 (-7)); [apply bpow_le; lia|].
    change (bpow radix2 (-7)) with (/ 128). lra. }
  assert (E1 : Rabs (BR (fadd f64_one a) - (1 + ar)) <= u53 * (1 + ar)).
  { rewrite R1. pose proof (rndR_err_normal (1 + ar) (Hn0 (1 + ar) ltac:(lra))) as E.
    rewrite (Rabs_pos_eq (1 + ar)) in E by lra. exact E. }
  assert (E2 : Rabs (BR (fsub f64_one a) - (1 - ar)) <= u53 * (1 - ar)).
  { rewrite R2. pose proof (rndR_err_normal (1 - ar) (Hn0 (1 - ar) ltac:(lra))) as E.
    rewrite (Rabs_pos_eq (1 - ar)) in E by lra. exact E. }
  apply Rabs_le_inv in E1, E2.
  remember (BR (fadd f64_one a)) as s1. remember (BR (fsub f64_one a)) as s2.
  assert (P2 : 0 < s2) by (rewrite Hu in *; nra).
  assert (Pgp : 0 < gp) by lra.
  assert (Q : gp * (1 - 2 * u53) <= s1 / s2 <= gp * (1 + 5 / 2 * u53)).
  { split.
    - apply le_div_intro; [exact P2|].
      apply Rle_trans with (gp * (1 - 2 * u53) * ((1 - ar) * (1 + u53))).
      + apply Rmult_le_compat_l; [rewrite Hu; nra|lra].
      + replace (gp * (1 - 2 * u53) * ((1 - ar) * (1 + u53))) with (gp * (1 - ar) * ((1 - 2 * u53) * (1 + u53))) by ring.
        rewrite Hgp. apply Rle_trans with ((1 + ar) * (1 - u53)); [|lra].
        apply Rmult_le_compat_l; [lra|rewrite Hu; lra].
    - apply div_le_intro; [exact P2|].
      apply Rle_trans with (gp * (1 + 5 / 2 * u53) * ((1 - ar) * (1 - u53))).
      + replace (gp * (1 + 5 / 2 * u53) * ((1 - ar) * (1 - u53))) with (gp * (1 - ar) * ((1 + 5 / 2 * u53) * (1 - u53))) by ring.
        rewrite Hgp. apply Rle_trans with ((1 + ar) * (1 + u53)); [lra|].
        apply Rmult_le_compat_l; [lra|rewrite Hu; lra].
      + apply Rmult_le_compat_l; [rewrite Hu; nra|lra]. }
  assert (Bq : 18 / 10 <= s1 / s2 <= 200) by (rewrite Hu in *; nra).
  destruct (fdiv_bounded (fadd f64_one a) (fsub f64_one a) F1) as (F3 & R3).
  { rewrite <- Heqs2. lra. }
  { rewrite <- Heqs1, <- Heqs2. apply (small_le_max 200); [lia|]. apply Rabs_le. simpl (IZR 200). lra. }
  rewrite <- Heqs1, <- Heqs2 in R3. fold (g0f a) in F3, R3.
  assert (E3 : Rabs (BR (g0f a) - s1 / s2) <= u53 * (s1 / s2)).
  { rewrite R3. pose proof (rndR_err_normal (s1 / s2) (Hn0 (s1 / s2) ltac:(lra))) as E.
    rewrite (Rabs_pos_eq (s1 / s2)) in E by lra. exact E. }
  apply Rabs_le_inv in E3.
  split; [exact F3|].
  assert (B : gp * (1 - 4 * u53) <= BR (g0f a) <= gp * (1 + 4 * u53)).
  { remember (s1 / s2) as q. split.
    - apply Rle_trans with (gp * (1 - 2 * u53) * (1 - u53)); [|apply Rle_trans with (q * (1 - u53)); [apply Rmult_le_compat_r; [rewrite Hu; lra|lra]|lra]].
      rewrite Rmult_assoc. apply Rmult_le_compat_l; [lra|rewrite Hu; lra].
    - apply Rle_trans with (gp * (1 + 5 / 2 * u53) * (1 + u53)); [apply Rle_trans with (q * (1 + u53)); [lra|apply Rmult_le_compat_r; [rewrite Hu; lra|lra]]|].
      rewrite Rmult_assoc. apply Rmult_le_compat_l; [lra|rewrite Hu; lra]. }
  split; [exact B|]. rewrite Hu in *. nra.
Qed.

Lemma ln_gp_hi : 0 <= ln gp <= 6.
Proof.
  kh.
  destruct gp_bounds as (Bgp & _). split.
  - rewrite <- ln_1. apply ln_le_mono; lra.
  - rewrite <- (ln_exp 6). apply ln_le_mono; [lra|]. pose proof exp6_ge. lra.
Qed.

Definition lamh : R := ln (BR gammah) / ln 2.

Lemma gammah_props :
  fin gammah /\ 1 <= BR gammah <= 256 /\
  Rabs (kap * lamh - ln gp) <= 15 * u53 + 3 * t /\
  glo <= exp (kap * lamh) <= 200.
Proof.
  kh.
  destruct g0f_hi_props as (F0 & B0 & B0'). destruct Hcpow as (Fc & Bc & Cw).
  destruct gp_bounds as (Bgp & _). destruct ln_gp_hi as (L1 & L2).
  pose proof (ku_hi_small L k HL) as Hk. destruct (hi_k _ _ HL) as (K0 & K1).
  destruct (hi_pow _ _ HL (g0f a) cpow F0 Fc B0' Bc) as (Fg & Eg). fold gammah in Fg, Eg.
  remember (BR (g0f a)) as x eqn:Ex. remember (BR gammah) as gr eqn:Egr. remember (BR cpow) as wp eqn:Ewp.
  pose proof ln2_pos as H2. pose proof ln2_ge_two_thirds as H23. pose proof ln2_le_1 as H21.
  assert (Hu : u53 = / 9007199254740992) by reflexivity.
  assert (Pgp : 0 < gp) by lra.
  (* ln x against ln gp *)
  assert (Lx : ln gp - 8 * u53 <= ln x <= ln gp + 4 * u53).
  { split.
    - apply Rle_trans with (ln (gp * (1 - 4 * u53))); [|apply ln_le_mono; [rewrite Hu; nra|lra]].
      rewrite ln_mult by (rewrite ?Hu; lra). pose proof (ln_1m_ge (4 * u53) ltac:(rewrite Hu; lra)). lra.
    - apply Rle_trans with (ln (gp * (1 + 4 * u53))); [apply ln_le_mono; lra|].
      rewrite ln_mult by (rewrite ?Hu; lra). pose proof (ln_1p_le (4 * u53) ltac:(rewrite Hu; lra)). lra. }
  assert (Lx0 : 0 <= ln x <= 7).
  { split; [rewrite <- ln_1; apply ln_le_mono; lra|rewrite Hu in *; lra]. }
  (* the power *)
  set (Rp := Rpower x wp) in *. assert (PR : 0 < Rp) by (unfold Rp, Rpower; apply exp_pos).
  assert (ERp : ln Rp = wp * ln x) by (unfold Rp, Rpower; apply ln_exp).
  apply Rabs_le_inv in Eg.
  assert (KR : 0 <= t * Rp <= / 140737488355328 * Rp) by (split; [nra|apply Rmult_le_compat_r; lra]).
  assert (Pg : 0 < gr) by nra.
  assert (Lg : wp * ln x - 2 * t <= ln gr <= wp * ln x + t).
  { rewrite <- ERp. split.
    - apply Rle_trans with (ln (Rp * (1 - t))); [|apply ln_le_mono; nra].
      rewrite ln_mult by lra. pose proof (ln_1m_ge t ltac:(lra)). lra.
    - apply Rle_trans with (ln (Rp * (1 + t))); [apply ln_le_mono; nra|].
      rewrite ln_mult by lra. pose proof (ln_1p_le t ltac:(lra)). lra. }
  (* kap * lamh *)
  set (z := wp / ln 2). assert (Ez : wp = z * ln 2) by (unfold z; field; lra).
  assert (Bz : c * (1 - u53) <= z <= c * (1 + u53)).
  { unfold z. split; [apply le_div_intro; [lra|]|apply div_le_intro; [lra|]]; lra. }
  assert (Bkz : 1 - u53 <= kap * z <= 1 + u53).
  { assert (E1 : kap * (c * (1 - u53)) = 1 - u53) by (rewrite <- Rmult_assoc, Hkc; ring).
    assert (E2 : kap * (c * (1 + u53)) = 1 + u53) by (rewrite <- Rmult_assoc, Hkc; ring).
    rewrite <- E1, <- E2. split; apply Rmult_le_compat_l; lra. }
  set (r := (ln gr - wp * ln x) / ln 2).
  assert (Br : - (3 * t) <= r <= 3 / 2 * t).
  { unfold r. split; [apply le_div_intro; [lra|]|apply div_le_intro; [lra|]]; nra. }
  assert (El : kap * lamh = kap * z * ln x + kap * r).
  { unfold lamh, r. rewrite <- Egr, Ez. field. lra. }
  assert (Bkr : - (3 * t) <= kap * r <= 3 / 2 * t) by nra.
  assert (Bzx : ln x - 7 * u53 <= kap * z * ln x <= ln x + 7 * u53).
  { assert (T1 : kap * z * ln x <= (1 + u53) * ln x) by (apply Rmult_le_compat_r; lra).
    assert (T2 : (1 - u53) * ln x <= kap * z * ln x) by (apply Rmult_le_compat_r; lra).
    assert (T3 : u53 * ln x <= u53 * 7) by (apply Rmult_le_compat_l; [rewrite Hu; lra|lra]).
    assert (T4 : 0 <= u53 * ln x) by (apply Rmult_le_pos; [rewrite Hu; lra|lra]).
    lra. }
  assert (La : Rabs (kap * lamh - ln gp) <= 15 * u53 + 3 * t).
  { rewrite El. apply Rabs_le. lra. }
  assert (He : glo <= exp (kap * lamh) <= 200).
  { apply Rabs_le_inv in La. set (e := 15 * u53 + 3 * t) in *.
    assert (He : 0 <= e <= / 1099511627776) by (unfold e; rewrite Hu; lra). split.
    - apply Rle_trans with (exp (ln gp - e)); [|apply exp_le_mono; lra].
      replace (ln gp - e) with (ln gp + - e) by ring. rewrite exp_plus, exp_ln by lra.
      assert (Hge : gp * e <= 199 * e) by (apply Rmult_le_compat_r; lra).
      apply Rle_trans with (gp * (1 - e)); [replace (gp * (1 - e)) with (gp - gp * e) by ring; lra|].
      apply Rmult_le_compat_l; [lra|]. apply exp_ge_1m.
    - apply Rle_trans with (exp (ln gp + e)); [apply exp_le_mono; lra|].
      rewrite exp_plus, exp_ln by lra.
      assert (Hge : gp * e <= 199 * e) by (apply Rmult_le_compat_r; lra).
      apply Rle_trans with (gp * (1 + 2 * e)); [|replace (gp * (1 + 2 * e)) with (gp + 2 * (gp * e)) by ring; lra].
      apply Rmult_le_compat_l; [lra|]. apply exp_le_1p2x. lra. }
  split; [exact Fg|]. split; [|split; [exact La|exact He]].
  (* 1 <= gamma <= 256 *)
  assert (Hkl : 0 <= kap * lamh).
  { apply Rabs_le_inv in La. destruct (Rle_lt_dec 0 (kap * lamh)) as [H|H]; [exact H|exfalso].
    pose proof (exp_le_mono _ _ (Rlt_le _ _ H)) as E. rewrite exp_0 in E. lra. }
  assert (Eg' : gr = exp (kap * lamh * (c * ln 2))).
  { replace (kap * lamh * (c * ln 2)) with (kap * c * (lamh * ln 2)) by ring. rewrite Hkc, Rmult_1_l.
    unfold lamh. rewrite <- Egr. replace (ln gr / ln 2 * ln 2) with (ln gr) by (field; lra). symmetry. apply exp_ln. exact Pg. }
  rewrite Eg'. split.
  - rewrite <- exp_0. apply exp_le_mono. apply Rmult_le_pos; [exact Hkl|apply Rmult_le_pos; lra].
  - apply Rle_trans with (exp (kap * lamh)); [apply exp_le_mono|lra].
    rewrite <- (Rmult_1_r (kap * lamh)) at 2. apply Rmult_le_compat_l; lra.
Qed.

Definition acc_map_hi : gmap := mk_hi_of L kd cadj gammah (offk gammah).

Lemma acc_hi_hyps :
  fin gammah /\ 1 <= BR gammah <= 256 /\ glo <= exp (kap * (ln (BR gammah) / ln 2)) <= 200 /\
  fin (offk gammah) /\ Rabs (BR (offk gammah)) <= 2048 * BR (multf L gammah).
Proof.
  kh.
  destruct gammah_props as (Fg & Hg1 & _ & HG). fold lamh.
  destruct (h_mult gammah Fg Hg1 HG) as (Fm & BM & _).
  destruct (Hoffk gammah Fm ltac:(lra)) as (Fo & Bo).
  repeat split; try assumption; lra.
Qed.

Lemma with_accuracy_hi_eq : with_accuracy L kd a = Some acc_map_hi.
Proof.
  kh.
  destruct acc_hi_hyps as (Fg & Hg1 & HG & Fo & Bo). destruct Halo as (H1 & _).
  rewrite Hwa.
  - exact (h_with_gamma_eq gammah Fg Hg1 HG (offk gammah) Fo Bo).
  - destruct (fle a f64_zero) eqn:E; [|reflexivity].
    apply (fle_spec a f64_zero Fa) in E; [|reflexivity]. change (BR f64_zero) with 0 in E. lra.
  - destruct (fle f64_one a) eqn:E; [|reflexivity].
    apply (fle_spec f64_one a f64_one_fin Fa) in E. rewrite f64_one_BR in E. lra.
Qed.

(* the bound g0 of the constructed mapping against the ideal (1+a)/(1-a), and the accuracy *)
Lemma acc_hi_g0 :
  g0h_of L kap gammah <= gp * (1 + 72 * u53 + 23 * t) /\
  alpha_of (g0h_of L kap gammah) <= BR a + (36 * u53 + 12 * t).
Proof.
  kh.
  destruct acc_hi_hyps as (Fg & Hg1 & HG & _).
  destruct gammah_props as (_ & _ & La & _). fold lamh in HG.
  destruct (h_G gammah Fg Hg1 HG) as ((_ & G2) & (G3 & G4) & _). fold lamh in G2.
  destruct gp_bounds as (Bgp & _). destruct Halo as (H1 & _).
  pose proof (ku_hi_small L k HL) as Hk.
  assert (Hu : u53 = / 9007199254740992) by reflexivity.
  assert (Pgp : 0 < gp) by lra. apply Rabs_le_inv in La.
  assert (U : exp (kap * lamh) <= gp * (1 + 2 * (15 * u53 + 3 * t))).
  { apply Rle_trans with (exp (ln gp + (15 * u53 + 3 * t))); [apply exp_le_mono; lra|].
    rewrite exp_plus, exp_ln by lra. apply Rmult_le_compat_l; [lra|]. apply exp_le_1p2x. rewrite Hu in *. lra. }
  assert (B2 : g0h_of L kap gammah <= gp * (1 + 72 * u53 + 23 * t)).
  { unfold g0h_of. remember (Gh_of L kap gammah) as G. remember (exp (kap * lamh)) as X.
    apply Rle_trans with (gp * (1 + 2 * (15 * u53 + 3 * t)) * (1 + 16 * t) * (1 + 40 * u53)).
    - apply Rmult_le_compat_r; [rewrite Hu; lra|]. apply Rle_trans with (1 := G2).
      apply Rmult_le_compat_r; lra.
    - rewrite !Rmult_assoc. apply Rmult_le_compat_l; [lra|]. rewrite Hu in *. nra. }
  split; [exact B2|].
  apply Rle_trans with (alpha_of (gp * (1 + (72 * u53 + 23 * t)))).
  - apply alpha_of_mono; [unfold g0h_of; rewrite Hu; nra|].
    replace (1 + (72 * u53 + 23 * t)) with (1 + 72 * u53 + 23 * t) by ring. exact B2.
  - assert (Ea : alpha_of gp = BR a) by (unfold alpha_of; field; lra).
    assert (He0 : 0 <= 72 * u53 + 23 * t) by (rewrite Hu in *; lra).
    apply Rle_trans with (1 := alpha_of_perturb gp _ ltac:(lra) He0). rewrite Ea. lra.
Qed.

Lemma acc_hi_reasonable : reasonable_hi kd acc_map_hi.
Proof.
  kh.
  destruct acc_hi_hyps as (Fg & Hg1 & HG & Fo & Bo). exact (h_reasonable gammah Fg Hg1 HG (offk gammah) Fo Bo).
Qed.

(* the headline *)
Theorem with_accuracy_hi_accuracy (v : f64) :
  fin v -> BR (gm_min acc_map_hi) < BR v -> BR v <= BR (gm_max acc_map_hi) ->
  let i := gm_index L acc_map_hi v in
  pos_normal v /\ in_range acc_map_hi i /\ fin (gm_value L acc_map_hi i) /\
  BR (gm_lower L acc_map_hi i) <= BR v * (1 + q38) /\
  BR v <= BR (gm_lower L acc_map_hi i) * ((1 + BR a) / (1 - BR a)) * (1 + q35) /\
  Rabs (BR (gm_value L acc_map_hi i) - BR v) <= (BR a + q34) * BR v.
Proof.
  kh.
  intros Fv Hlo Hhi i. destruct acc_hi_hyps as (Fg & Hg1 & HG & Fo & Bo).
  destruct (h_with_gamma_accuracy gammah Fg Hg1 HG (offk gammah) Fo Bo v Fv Hlo Hhi)
    as (Hv & Ri & FV & K1 & K3 & Acc).
  fold acc_map_hi in Ri, FV, K1, K3, Acc. fold i in Ri, FV, K1, K3, Acc.
  split; [exact Hv|]. split; [exact Ri|]. split; [exact FV|]. split; [exact K1|].
  destruct acc_hi_g0 as (Gu & Al). destruct (hi_k _ _ HL) as (K0 & K64).
  destruct (Hfwd v Hv) as (Pv & _).
  destruct (hi_lower_le L kd Lr Linvr c HLL (proj1 Hc) Hfwd Hinv acc_map_hi acc_hi_reasonable v Hv Ri) as (_ & Nl & _).
  fold i in Nl. pose proof (bpow_gt_0 radix2 (-1022)) as Hp.
  pose proof (h_g0 gammah Fg Hg1 HG (offk gammah) Fo Bo) as Gg. fold acc_map_hi in Gg.
  destruct gp_bounds as (Bgp & _).
  split.
  - apply Rle_trans with (1 := K3).
    set (lo := BR (gm_lower L acc_map_hi i)) in *.
    set (E := exp (1 / (c * BR (gm_mult acc_map_hi)))) in *. set (g0 := g0h_of L kap gammah) in *.
    assert (PE : 0 < E) by apply exp_pos.
    apply Rle_trans with (lo * (gp * (1 + 72 * u53 + 23 * t)) * (1 + q38)).
    + apply Rmult_le_compat_r; [unfold q38; lra|]. apply Rmult_le_compat_l; lra.
    + rewrite !Rmult_assoc. apply Rmult_le_compat_l; [lra|]. apply Rmult_le_compat_l; [lra|].
      unfold u53, q38, q35 in *. nra.
  - apply Rle_trans with (1 := Acc). apply Rmult_le_compat_r; [lra|].
    unfold u53, q36, q34 in *. lra.
Qed.

Theorem with_accuracy_hi_upper (v : f64) :
  fin v -> BR (gm_min acc_map_hi) < BR v -> BR v <= BR (gm_max acc_map_hi) ->
  let i := gm_index L acc_map_hi v in
  in_range acc_map_hi (i + 1) -> BR v <= BR (gm_lower L acc_map_hi (i + 1)) * (1 + q38).
Proof.
  kh.
  intros Fv Hlo Hhi i Rj. destruct acc_hi_hyps as (Fg & Hg1 & HG & Fo & Bo).
  exact (h_with_gamma_upper gammah Fg Hg1 HG (offk gammah) Fo Bo v Fv Hlo Hhi Rj).
Qed.

Lemma acc_hi_range_fin :
  fin (gm_min acc_map_hi) /\ fin (gm_max acc_map_hi) /\ bpow radix2 (-1022) <= BR (gm_min acc_map_hi).
Proof.
  kh.
  destruct acc_hi_hyps as (Fg & Hg1 & HG & Fo & Bo). exact (h_range_fin gammah Fg Hg1 HG (offk gammah) Fo Bo).
Qed.

Lemma acc_hi_mult : fin (gm_mult acc_map_hi) /\ fin (gm_off acc_map_hi) /\
  / 16 <= BR (gm_mult acc_map_hi) <= 4 /\ Rabs (BR (gm_off acc_map_hi)) <= 8192.
Proof.
  kh.
  destruct acc_hi_hyps as (Fg & Hg1 & HG & Fo & Bo).
  destruct (h_mult gammah Fg Hg1 HG) as (Fm & BM & _).
  cbn [gm_mult gm_off acc_map_hi mk_hi_of]. split; [exact Fm|]. split; [exact Fo|]. split; [exact BM|]. lra.
Qed.
End AccHi.
End KindHi.

(* ------------------------------------------------------------------ *)
(* 6. the two interpolated kinds                                       *)
(* ------------------------------------------------------------------ *)
Lemma lin_kind_hi (L : libm) (k : R) : libm_hi_ok L k ->
  kind_hi L MLin 1 1 c_inv_ln2 (fun l => l) L_lin Linv_lin (9 / 5) (185 / 100) (149 / 1000).
Proof.
  intros HL. destruct consts_fin as (Fc & _). pose proof c_inv_ln2r_close as Hcl. pose proof ln2_le_1 as Hl2.
  constructor; try lra.
  - split; [exact Fc|]. rewrite c_inv_ln2_BR. split; [unfold c_inv_ln2r; lra|]. unfold u53. lra.
  - intros l Fl _. split; [exact Fl|]. replace (BR l - 1 * BR l) with 0 by ring. rewrite Rabs_R0. unfold u53. lra.
  - exact loglike_lin.
  - exact (lin_forward_ok L).
  - exact (lin_inverse_ok L (hi_floor _ _ HL)).
  - exact lin_low_margin.
  - exact lin_up_margin.
  - intros g off Hfle. unfold with_gamma. rewrite Hfle. reflexivity.
  - intros g off. reflexivity.
Qed.

Lemma c_07_mul (l : f64) : fin l -> 0 <= BR l <= 10 ->
  fin (fmul c_07 l) /\ Rabs (BR (fmul c_07 l) - 7 / 10 * BR l) <= 8 * u53.
Proof.
  intros Fl Bl. destruct cub_consts2_fin as (_ & _ & F07).
  destruct (fmul_bounded c_07 l F07 Fl) as (Fx & Rx).
  { rewrite c_07_BR. unfold c_07r. apply (small_le_max 8); [lia|]. apply Rabs_le. simpl (IZR 8). lra. }
  rewrite c_07_BR in Rx. split; [exact Fx|]. rewrite Rx.
  assert (R0 : Rabs (rndR (c_07r * BR l) - c_07r * BR l) <= bpow radix2 (3 - 54)).
  { apply rndR_err_lt; [lia|]. change (bpow radix2 3) with 8. unfold c_07r. apply Rabs_lt. lra. }
  change (bpow radix2 (3 - 54)) with (/ 2251799813685248) in R0. apply Rabs_le_inv in R0.
  unfold c_07r, u53 in *. apply Rabs_le. lra.
Qed.

Lemma cub_kind_hi (L : libm) (k kc : R) : libm_hi_ok L k ->
  0 <= kc <= 32 -> sqrt_accurate L -> cbrt_accurate L kc ->
  kind_hi L MCub (7 / 10) (10 / 7) c_7_10ln2 (fmul c_07) MapCub.L_cub MapCub.Linv_cub (19 / 10) (191 / 100) (5 / 1000).
Proof.
  intros HL Hkc HS HC. destruct cub_consts2_fin as (Fc & _). pose proof c_7_10ln2r_close as Hcl.
  pose proof MapCub.cub_const_ok as Hcc.
  constructor; try lra.
  - split; [exact Fc|]. rewrite c_7_10ln2_BR. split; [unfold c_7_10ln2r; lra|]. lra.
  - exact c_07_mul.
  - exact MapCub.loglike_cub.
  - exact (cub_forward_ok L).
  - exact (cub_inverse_ok_proved L kc Hkc HS HC (hi_floor _ _ HL)).
  - exact cub_low_margin.
  - exact cub_up_margin.
  - intros g off Hfle. unfold with_gamma. rewrite Hfle. reflexivity.
  - intros g off. reflexivity.
Qed.

Lemma lin_acc_hi (L : libm) : acc_hi L MLin 1 (185 / 100) c_ln2 (multf L) (3 / 10).
Proof.
  destruct consts_fin as (_ & Fc & _). pose proof c_ln2r_close as Hcl. pose proof ln2_pos. pose proof ln2_le_1.
  constructor.
  - split; [exact Fc|]. rewrite c_ln2_BR. split; [unfold c_ln2r; lra|]. unfold u53. split; nra.
  - intros g Fm Pm. split; [exact Fm|]. rewrite Rabs_pos_eq; lra.
  - lra.
  - intros a H1 H2. unfold with_accuracy. rewrite H1, H2. reflexivity.
Qed.

Lemma cub_acc_hi (L : libm) : acc_hi L MCub (10 / 7) (191 / 100) c_10ln2_7 (fun _ => f64_zero) (32 / 100).
Proof.
  destruct cub_consts2_fin as (_ & Fc & _). pose proof c_10ln2_7r_close as Hcl. pose proof ln2_pos. pose proof ln2_le_1.
  constructor.
  - split; [exact Fc|]. rewrite c_10ln2_7_BR. split; [unfold c_10ln2_7r; lra|]. unfold u53 in *. split; nra.
  - intros g Fm Pm. split; [reflexivity|]. change (BR f64_zero) with 0. rewrite Rabs_R0. lra.
  - lra.
  - intros a H1 H2. unfold with_accuracy. rewrite H1, H2. reflexivity.
Qed.

(* the mappings are those of GlueCtor / GlueCub *)
Lemma mk_hi_lin_eq (L : libm) (g off : f64) : mk_hi_of L MLin c_inv_ln2 g off = mk_lin L g off.
Proof. reflexivity. Qed.
Lemma mk_hi_cub_eq (L : libm) (g off : f64) : mk_hi_of L MCub c_7_10ln2 g off = mk_cub L g off.
Proof. reflexivity. Qed.
Lemma acc_hi_lin_eq (L : libm) (a : f64) : acc_map_hi L MLin c_inv_ln2 c_ln2 (multf L) a = acc_map L a.
Proof. reflexivity. Qed.
Lemma acc_hi_cub_eq (L : libm) (a : f64) : acc_map_hi L MCub c_7_10ln2 c_10ln2_7 (fun _ => f64_zero) a = acc_mapc L a.
Proof. reflexivity. Qed.

(* the oracle hypotheses of the cubic mapping: [libm_hi_ok], IEEE sqrt, math.Cbrt *)
Record libm_cub_hi_ok (L : libm) (k kc : R) : Prop := {
  lch_ok : libm_hi_ok L k;
  lch_kc : 0 <= kc <= 32;
  lch_sqrt : sqrt_accurate L;
  lch_cbrt : cbrt_accurate L kc
}.

Lemma cub_kind_hi' (L : libm) (k kc : R) : libm_cub_hi_ok L k kc ->
  kind_hi L MCub (7 / 10) (10 / 7) c_7_10ln2 (fmul c_07) MapCub.L_cub MapCub.Linv_cub (19 / 10) (191 / 100) (5 / 1000).
Proof. intros [H1 H2 H3 H4]. exact (cub_kind_hi L k kc H1 H2 H3 H4). Qed.

(* the bound on the ideal bin ratio *)
Definition g0_lin_hi (L : libm) (g : f64) : R := exp (BR (l_log2 L g)) * (1 + 40 * u53).
Definition g0_cub_hi (L : libm) (g : f64) : R := exp (7 / 10 * BR (l_log2 L g)) * (1 + 40 * u53).
Lemma g0_lin_hi_eq (L : libm) (g : f64) : g0h_of L 1 g = g0_lin_hi L g.
Proof. unfold g0h_of, Gh_of, g0_lin_hi. rewrite Rmult_1_l. reflexivity. Qed.
Lemma g0_cub_hi_eq (L : libm) (g : f64) : g0h_of L (7 / 10) g = g0_cub_hi L g.
Proof. reflexivity. Qed.

(* ------------------------------------------------------------------ *)
(* 7. the linearly interpolated mapping, coarse range                  *)
(* ------------------------------------------------------------------ *)
Section LinHi.
Variable L : libm.
Variable k : R.
Hypothesis HL : libm_hi_ok L k.

Section WithGamma.
Variable g : f64.
Hypothesis Fg : fin g.
Hypothesis Hg1 : 1 <= BR g <= 256.
Hypothesis HG : 185 / 100 <= exp (ln (BR g) / ln 2) <= 200.
Variable off : f64.
Hypothesis Fo : fin off.
Hypothesis Bo : Rabs (BR off) <= 2048 * BR (multf L g).

Local Notation HK := (lin_kind_hi L k HL).
Lemma lin_hi_HG : 185 / 100 <= exp (1 * (ln (BR g) / ln 2)) <= 200.
Proof. rewrite Rmult_1_l. exact HG. Qed.

Theorem with_gamma_lin_hi_summary :
  let m := mk_lin L g off in
  with_gamma L MLin g off = Some m /\ reasonable_hi MLin m /\
  (fin (gm_min m) /\ fin (gm_max m) /\ bpow radix2 (-1022) <= BR (gm_min m)) /\
  / 16 <= BR (gm_mult m) <= 4 /\
  exp (1 / BR (gm_mult m)) <= g0_lin_hi L g /\
  exp (ln (BR g) / ln 2) * (1 - 8 * (k * u53)) <= exp (BR (l_log2 L g)) <= exp (ln (BR g) / ln 2) * (1 + 16 * (k * u53)) /\
  value_factor_ok L m (g0_lin_hi L g) ((k + 64) * u53).
Proof.
  intros m.
  split; [exact (h_with_gamma_eq L k HL _ _ _ _ _ _ _ _ _ _ HK g Fg Hg1 lin_hi_HG off Fo Bo)|].
  split; [exact (h_reasonable L k HL _ _ _ _ _ _ _ _ _ _ HK g Fg Hg1 lin_hi_HG off Fo Bo)|].
  split; [exact (h_range_fin L k HL _ _ _ _ _ _ _ _ _ _ HK g Fg Hg1 lin_hi_HG off Fo Bo)|].
  destruct (h_mult L k HL _ _ _ _ _ _ _ _ _ _ HK g Fg Hg1 lin_hi_HG) as (_ & BM & _ & G0).
  split; [exact BM|]. rewrite g0_lin_hi_eq, Rmult_1_l in G0. split; [exact G0|].
  destruct (h_G L k HL _ _ _ _ _ _ _ _ _ _ HK g Fg Hg1 lin_hi_HG) as (B & _).
  unfold Gh_of in B. rewrite !Rmult_1_l in B. split; [exact B|].
  rewrite <- g0_lin_hi_eq. exact (h_factor_ok L k HL _ _ _ _ _ _ _ _ _ _ HK g Fg Hg1 lin_hi_HG off Fo Bo).
Qed.

Theorem with_gamma_lin_hi_accuracy (v : f64) :
  let m := mk_lin L g off in
  fin v -> BR (gm_min m) < BR v -> BR v <= BR (gm_max m) ->
  let i := gm_index L m v in
  pos_normal v /\ in_range m i /\ fin (gm_value L m i) /\
  BR (gm_lower L m i) <= BR v * (1 + q38) /\
  BR v <= BR (gm_lower L m i) * exp (1 / BR (gm_mult m)) * (1 + q38) /\
  Rabs (BR (gm_value L m i) - BR v) <= (alpha_of (g0_lin_hi L g) + (k + 64) * u53 + q36) * BR v.
Proof.
  intros m Fv Hlo Hhi i.
  pose proof (h_with_gamma_accuracy L k HL _ _ _ _ _ _ _ _ _ _ HK g Fg Hg1 lin_hi_HG off Fo Bo v Fv Hlo Hhi) as H.
  cbv zeta in H. rewrite g0_lin_hi_eq, Rmult_1_l in H. exact H.
Qed.

Theorem with_gamma_lin_hi_upper (v : f64) :
  let m := mk_lin L g off in
  fin v -> BR (gm_min m) < BR v -> BR v <= BR (gm_max m) ->
  let i := gm_index L m v in
  in_range m (i + 1) -> BR v <= BR (gm_lower L m (i + 1)) * (1 + q38).
Proof.
  intros m Fv Hlo Hhi i.
  exact (h_with_gamma_upper L k HL _ _ _ _ _ _ _ _ _ _ HK g Fg Hg1 lin_hi_HG off Fo Bo v Fv Hlo Hhi).
Qed.
End WithGamma.

Section WithAccuracy.
Variable a : f64.
Hypothesis Fa : fin a.
Hypothesis Ba : 3 / 10 <= BR a <= 99 / 100.
Local Notation HK := (lin_kind_hi L k HL).
Local Notation HA := (lin_acc_hi L).

Theorem with_accuracy_lin_hi_eq : with_accuracy L MLin a = Some (acc_map L a).
Proof. exact (with_accuracy_hi_eq L k HL _ _ _ _ _ _ _ _ _ _ HK _ _ _ HA a Fa Ba). Qed.

Theorem with_accuracy_lin_hi_accuracy (v : f64) :
  let m := acc_map L a in
  fin v -> BR (gm_min m) < BR v -> BR v <= BR (gm_max m) ->
  let i := gm_index L m v in
  pos_normal v /\ in_range m i /\ fin (gm_value L m i) /\
  BR (gm_lower L m i) <= BR v * (1 + q38) /\
  BR v <= BR (gm_lower L m i) * ((1 + BR a) / (1 - BR a)) * (1 + q35) /\
  Rabs (BR (gm_value L m i) - BR v) <= (BR a + q34) * BR v.
Proof.
  intros m Fv Hlo Hhi i.
  exact (with_accuracy_hi_accuracy L k HL _ _ _ _ _ _ _ _ _ _ HK _ _ _ HA a Fa Ba v Fv Hlo Hhi).
Qed.

Theorem with_accuracy_lin_hi_upper (v : f64) :
  let m := acc_map L a in
  fin v -> BR (gm_min m) < BR v -> BR v <= BR (gm_max m) ->
  let i := gm_index L m v in
  in_range m (i + 1) -> BR v <= BR (gm_lower L m (i + 1)) * (1 + q38).
Proof.
  intros m Fv Hlo Hhi i.
  exact (with_accuracy_hi_upper L k HL _ _ _ _ _ _ _ _ _ _ HK _ _ _ HA a Fa Ba v Fv Hlo Hhi).
Qed.

Theorem with_accuracy_lin_hi_summary :
  let m := acc_map L a in
  let gp := (1 + BR a) / (1 - BR a) in
  with_accuracy L MLin a = Some m /\ gm_kind m = MLin /\ reasonable_hi MLin m /\
  (fin (gm_min m) /\ fin (gm_max m) /\ bpow radix2 (-1022) <= BR (gm_min m)) /\
  (fin (gm_mult m) /\ fin (gm_off m) /\ / 16 <= BR (gm_mult m) <= 4 /\ Rabs (BR (gm_off m)) <= 8192) /\
  Rabs (ln (BR (gm_gamma m)) / ln 2 - ln gp) <= 15 * u53 + 3 * (k * u53) /\
  g0_lin_hi L (gm_gamma m) <= gp * (1 + 72 * u53 + 23 * (k * u53)) /\
  alpha_of (g0_lin_hi L (gm_gamma m)) <= BR a + (36 * u53 + 12 * (k * u53)).
Proof.
  intros m gp.
  split; [exact with_accuracy_lin_hi_eq|]. split; [reflexivity|].
  split; [exact (acc_hi_reasonable L k HL _ _ _ _ _ _ _ _ _ _ HK _ _ _ HA a Fa Ba)|].
  split; [exact (acc_hi_range_fin L k HL _ _ _ _ _ _ _ _ _ _ HK _ _ _ HA a Fa Ba)|].
  split; [exact (acc_hi_mult L k HL _ _ _ _ _ _ _ _ _ _ HK _ _ _ HA a Fa Ba)|].
  destruct (gammah_props L k HL _ _ _ _ _ _ _ _ _ _ HK _ _ _ HA a Fa Ba) as (_ & _ & La & _).
  unfold lamh in La. rewrite Rmult_1_l in La. split; [exact La|].
  pose proof (acc_hi_g0 L k HL _ _ _ _ _ _ _ _ _ _ HK _ _ _ HA a Fa Ba) as H.
  rewrite g0_lin_hi_eq in H. exact H.
Qed.
End WithAccuracy.
End LinHi.

(* ------------------------------------------------------------------ *)
(* 8. the cubically interpolated mapping, coarse range                 *)
(* ------------------------------------------------------------------ *)
Section CubHi.
Variable L : libm.
Variables k kc : R.
Hypothesis HLc : libm_cub_hi_ok L k kc.
Local Notation HL := (lch_ok _ _ _ HLc).
Local Notation HK := (cub_kind_hi' L k kc HLc).

Section WithGamma.
Variable g : f64.
Hypothesis Fg : fin g.
Hypothesis Hg1 : 1 <= BR g <= 256.
Hypothesis HG : 191 / 100 <= exp (7 / 10 * (ln (BR g) / ln 2)) <= 200.
Variable off : f64.
Hypothesis Fo : fin off.
Hypothesis Bo : Rabs (BR off) <= 2048 * BR (multf L g).

Theorem with_gamma_cub_hi_summary :
  let m := mk_cub L g off in
  with_gamma L MCub g off = Some m /\ reasonable_hi MCub m /\
  (fin (gm_min m) /\ fin (gm_max m) /\ bpow radix2 (-1022) <= BR (gm_min m)) /\
  / 16 <= BR (gm_mult m) <= 4 /\
  exp (1 / (10 / 7 * BR (gm_mult m))) <= g0_cub_hi L g /\
  exp (7 / 10 * (ln (BR g) / ln 2)) * (1 - 8 * (k * u53)) <= exp (7 / 10 * BR (l_log2 L g))
    <= exp (7 / 10 * (ln (BR g) / ln 2)) * (1 + 16 * (k * u53)) /\
  value_factor_ok L m (g0_cub_hi L g) ((k + 64) * u53).
Proof.
  intros m.
  split; [exact (h_with_gamma_eq L k HL _ _ _ _ _ _ _ _ _ _ HK g Fg Hg1 HG off Fo Bo)|].
  split; [exact (h_reasonable L k HL _ _ _ _ _ _ _ _ _ _ HK g Fg Hg1 HG off Fo Bo)|].
  split; [exact (h_range_fin L k HL _ _ _ _ _ _ _ _ _ _ HK g Fg Hg1 HG off Fo Bo)|].
  destruct (h_mult L k HL _ _ _ _ _ _ _ _ _ _ HK g Fg Hg1 HG) as (_ & BM & _ & G0).
  split; [exact BM|]. split; [exact G0|].
  destruct (h_G L k HL _ _ _ _ _ _ _ _ _ _ HK g Fg Hg1 HG) as (B & _).
  split; [exact B|].
  exact (h_factor_ok L k HL _ _ _ _ _ _ _ _ _ _ HK g Fg Hg1 HG off Fo Bo).
Qed.

Theorem with_gamma_cub_hi_accuracy (v : f64) :
  let m := mk_cub L g off in
  fin v -> BR (gm_min m) < BR v -> BR v <= BR (gm_max m) ->
  let i := gm_index L m v in
  pos_normal v /\ in_range m i /\ fin (gm_value L m i) /\
  BR (gm_lower L m i) <= BR v * (1 + q38) /\
  BR v <= BR (gm_lower L m i) * exp (1 / (10 / 7 * BR (gm_mult m))) * (1 + q38) /\
  Rabs (BR (gm_value L m i) - BR v) <= (alpha_of (g0_cub_hi L g) + (k + 64) * u53 + q36) * BR v.
Proof.
  intros m Fv Hlo Hhi i.
  exact (h_with_gamma_accuracy L k HL _ _ _ _ _ _ _ _ _ _ HK g Fg Hg1 HG off Fo Bo v Fv Hlo Hhi).
Qed.

Theorem with_gamma_cub_hi_upper (v : f64) :
  let m := mk_cub L g off in
  fin v -> BR (gm_min m) < BR v -> BR v <= BR (gm_max m) ->
  let i := gm_index L m v in
  in_range m (i + 1) -> BR v <= BR (gm_lower L m (i + 1)) * (1 + q38).
Proof.
  intros m Fv Hlo Hhi i.
  exact (h_with_gamma_upper L k HL _ _ _ _ _ _ _ _ _ _ HK g Fg Hg1 HG off Fo Bo v Fv Hlo Hhi).
Qed.
End WithGamma.

Section WithAccuracy.
Variable a : f64.
Hypothesis Fa : fin a.
Hypothesis Ba : 32 / 100 <= BR a <= 99 / 100.
Local Notation HA := (cub_acc_hi L).

Theorem with_accuracy_cub_hi_eq : with_accuracy L MCub a = Some (acc_mapc L a).
Proof. exact (with_accuracy_hi_eq L k HL _ _ _ _ _ _ _ _ _ _ HK _ _ _ HA a Fa Ba). Qed.

Theorem with_accuracy_cub_hi_accuracy (v : f64) :
  let m := acc_mapc L a in
  fin v -> BR (gm_min m) < BR v -> BR v <= BR (gm_max m) ->
  let i := gm_index L m v in
  pos_normal v /\ in_range m i /\ fin (gm_value L m i) /\
  BR (gm_lower L m i) <= BR v * (1 + q38) /\
  BR v <= BR (gm_lower L m i) * ((1 + BR a) / (1 - BR a)) * (1 + q35) /\
  Rabs (BR (gm_value L m i) - BR v) <= (BR a + q34) * BR v.
Proof.
  intros m Fv Hlo Hhi i.
  exact (with_accuracy_hi_accuracy L k HL _ _ _ _ _ _ _ _ _ _ HK _ _ _ HA a Fa Ba v Fv Hlo Hhi).
Qed.

Theorem with_accuracy_cub_hi_upper (v : f64) :
  let m := acc_mapc L a in
  fin v -> BR (gm_min m) < BR v -> BR v <= BR (gm_max m) ->
  let i := gm_index L m v in
  in_range m (i + 1) -> BR v <= BR (gm_lower L m (i + 1)) * (1 + q38).
Proof.
  intros m Fv Hlo Hhi i.
  exact (with_accuracy_hi_upper L k HL _ _ _ _ _ _ _ _ _ _ HK _ _ _ HA a Fa Ba v Fv Hlo Hhi).
Qed.

Theorem with_accuracy_cub_hi_summary :
  let m := acc_mapc L a in
  let gp := (1 + BR a) / (1 - BR a) in
  with_accuracy L MCub a = Some m /\ gm_kind m = MCub /\ reasonable_hi MCub m /\
  (fin (gm_min m) /\ fin (gm_max m) /\ bpow radix2 (-1022) <= BR (gm_min m)) /\
  (fin (gm_mult m) /\ fin (gm_off m) /\ / 16 <= BR (gm_mult m) <= 4 /\ Rabs (BR (gm_off m)) <= 8192) /\
  Rabs (7 / 10 * (ln (BR (gm_gamma m)) / ln 2) - ln gp) <= 15 * u53 + 3 * (k * u53) /\
  g0_cub_hi L (gm_gamma m) <= gp * (1 + 72 * u53 + 23 * (k * u53)) /\
  alpha_of (g0_cub_hi L (gm_gamma m)) <= BR a + (36 * u53 + 12 * (k * u53)).
Proof.
  intros m gp.
  split; [exact with_accuracy_cub_hi_eq|]. split; [reflexivity|].
  split; [exact (acc_hi_reasonable L k HL _ _ _ _ _ _ _ _ _ _ HK _ _ _ HA a Fa Ba)|].
  split; [exact (acc_hi_range_fin L k HL _ _ _ _ _ _ _ _ _ _ HK _ _ _ HA a Fa Ba)|].
  split; [exact (acc_hi_mult L k HL _ _ _ _ _ _ _ _ _ _ HK _ _ _ HA a Fa Ba)|].
  destruct (gammah_props L k HL _ _ _ _ _ _ _ _ _ _ HK _ _ _ HA a Fa Ba) as (_ & _ & La & _).
  split; [exact La|].
  exact (acc_hi_g0 L k HL _ _ _ _ _ _ _ _ _ _ HK _ _ _ HA a Fa Ba).
Qed.
End WithAccuracy.
End CubHi.

From Coq Require Import List Permutation Sorted.
From SK Require Import Spec.Bins Spec.BinsProofs Spec.ASketch Store.Any Store.AnyProofs Stat.Summary
                       Sketch.Sketch Sketch.SketchProofs Sketch.RankProofs Sketch.RefineProofs
                       Sketch.RoundingInstance Sketch.BridgeProofs.
Import ListNotations.
Local Open Scope R_scope.

(* ------------------------------------------------------------------ *)
(* 9. the whole range of relative accuracies                           *)
(* ------------------------------------------------------------------ *)
(* with k <= 8 the hypotheses of GlueCtor (fine mappings) follow, with 8 k in place of k *)
Lemma libm_hi_lo (L : libm) (k : R) : libm_hi_ok L k -> k <= 8 -> libm_ok L (8 * k).
Proof.
  intros HL K8. destruct (hi_k _ _ HL) as (K0 & _).
  assert (Hu : 0 < u53) by (unfold u53; lra).
  constructor.
  - lra.
  - intros x Fx Bx. destruct (hi_log2 _ _ HL x Fx ltac:(lra)) as (F & E). split; [exact F|]. lra.
  - intros x Fx B0 Bx. destruct (hi_exp _ _ HL x Fx B0 Bx) as (F & E). split; [exact F|].
    apply Rle_trans with (1 := E). pose proof (exp_pos (BR x)). apply Rmult_le_compat_r; [lra|]. nra.
  - intros x y Fx Fy Bx By. destruct (hi_pow _ _ HL x y Fx Fy ltac:(lra) By) as (F & E). split; [exact F|].
    apply Rle_trans with (1 := E).
    assert (0 < Rpower (BR x) (BR y)) by (unfold Rpower; apply exp_pos).
    apply Rmult_le_compat_r; [lra|]. nra.
  - exact (hi_exp2u _ _ HL).
  - exact (hi_exp2s _ _ HL).
  - exact (hi_floor _ _ HL).
Qed.

Lemma libm_cub_hi_lo (L : libm) (k kc : R) : libm_cub_hi_ok L k kc -> k <= 8 -> libm_cub_ok L (8 * k) kc.
Proof.
  intros [H1 H2 H3 H4] K8. constructor; [exact (libm_hi_lo L k H1 K8)|exact H2|exact H3|exact H4].
Qed.

Section LinFull.
Variable L : libm.
Variable k : R.
Hypothesis HL : libm_hi_ok L k.
Hypothesis K8 : k <= 8.
Variable a : f64.
Hypothesis Fa : fin a.
Hypothesis Ba : / 1000000 <= BR a <= 99 / 100.

Let g := acc_map L a.

Theorem with_accuracy_lin_full_eq : with_accuracy L MLin a = Some g.
Proof.
  destruct (Rle_lt_dec (BR a) (3 / 10)) as [H|H].
  - exact (with_accuracy_lin_eq L (8 * k) (libm_hi_lo L k HL K8) a Fa ltac:(lra)).
  - exact (with_accuracy_lin_hi_eq L k HL a Fa ltac:(lra)).
Qed.

Theorem with_accuracy_lin_full_accuracy (v : f64) :
  fin v -> BR (gm_min g) < BR v -> BR v <= BR (gm_max g) ->
  let i := gm_index L g v in
  pos_normal v /\ GlueAccuracy.in_range g i /\ fin (gm_value L g i) /\
  BR (gm_lower L g i) <= BR v * (1 + q38) /\
  Rabs (BR (gm_value L g i) - BR v) <= (BR a + q34) * BR v.
Proof.
  intros Fv Hlo Hhi i.
  destruct (Rle_lt_dec (BR a) (3 / 10)) as [H|H].
  - destruct (with_accuracy_lin_accuracy L (8 * k) (libm_hi_lo L k HL K8) a Fa ltac:(lra) v Fv Hlo Hhi)
      as (H1 & H2 & _ & H4 & H5 & _ & H7).
    exact (conj H1 (conj H2 (conj H4 (conj H5 H7)))).
  - destruct (with_accuracy_lin_hi_accuracy L k HL a Fa ltac:(lra) v Fv Hlo Hhi) as (H1 & H2 & H3 & H4 & _ & H6).
    exact (conj H1 (conj H2 (conj H3 (conj H4 H6)))).
Qed.

Lemma acc_map_full_kind : gm_kind g = MLin.
Proof. reflexivity. Qed.

Lemma acc_map_full_small : gm_small g.
Proof.
  destruct (Rle_lt_dec (BR a) (3 / 10)) as [H|H].
  - exact (acc_map_small L (8 * k) (libm_hi_lo L k HL K8) a Fa ltac:(lra)).
  - destruct (with_accuracy_lin_hi_summary L k HL a Fa ltac:(lra)) as (_ & _ & _ & _ & (Fm & Fo & BM & BO) & _).
    unfold gm_small. fold g in Fm, Fo, BM, BO. change (bpow radix2 20) with 1048576.
    split; [exact Fm|]. split; [exact Fo|]. split; lra.
Qed.

Lemma acc_map_full_range_ok : gm_range_ok g.
Proof.
  destruct (Rle_lt_dec (BR a) (3 / 10)) as [H|H].
  - exact (acc_map_range_ok L (8 * k) (libm_hi_lo L k HL K8) a Fa ltac:(lra)).
  - destruct (with_accuracy_lin_hi_summary L k HL a Fa ltac:(lra)) as (_ & _ & _ & R & _). exact R.
Qed.

(* the accuracy premise of Bridge_C01_lin_accuracy_rnd64, for every finite value in the indexable range *)
Lemma acc_map_full_accuracy_Qc (alpha : Qc) (v : f64) :
  BR a + q34 <= qR alpha ->
  fin v -> (f2q (gm_min g) < f2q v)%Qc -> (f2q v <= f2q (gm_max g))%Qc ->
  (Qcabs (f2q (gm_value L g (gm_index L g v)) - f2q v) <= alpha * f2q v)%Qc.
Proof.
  intros Ha Fv Hlo Hhi. destruct acc_map_full_range_ok as (Fmin & Fmax & _).
  apply (f2q_lt_R _ _ Fmin Fv) in Hlo. apply (f2q_le_R _ _ Fv Fmax) in Hhi.
  destruct (with_accuracy_lin_full_accuracy v Fv Hlo Hhi) as (Hv & _ & FV & _ & Acc).
  destruct (bval_float v Hv) as (_ & _ & Pv).
  apply Rabs_le_inv in Acc.
  assert (Hb : (BR a + q34) * BR v <= qR alpha * BR v) by (apply Rmult_le_compat_r; lra).
  apply Qcabs_Qcle_condition. split; apply qR_le.
  - rewrite qR_opp, qR_mult, qR_minus, !f2q_B2R by assumption. lra.
  - rewrite qR_mult, qR_minus, !f2q_B2R by assumption. lra.
Qed.

(* C01 end to end for NewLinearlyInterpolatedMapping (a), 1e-6 <= a <= 0.99, under the hypotheses on the oracle only *)
Theorem C01_lin_full_end_to_end
  (fx : fixes) (m : mapid) (kp kn : kind) (exact : bool)
  (vs : list f64) (ys : list Qc) (q : f64) (alpha : Qc) :
  BR a + q34 <= qR alpha ->
  kind_limit kp = Exact -> kind_limit kn = Exact ->
  fD4 fx = true -> fD5 fx = true ->
  Forall (fun v => f_is_finite v = true) vs ->
  (forall v, In v vs -> (Qcabs (f2q v) <= f2q (gm_max g))%Qc) ->
  Permutation (map f2q vs) ys -> Sorted Qcle ys -> vs <> [] -> (Z.of_nat (length vs) <= 2 ^ 53)%Z ->
  fle f64_zero q = true -> fle q f64_one = true ->
  let mt := mt_of_gmap L g in
  exists s, plain_add_units mt (sk_new m kp kn exact) vs = ROk s /\ SkInv s /\
  exists (kk : nat) (s' : sketch) (y : Qc),
    (cfloor (f2q q * inj (Z.of_nat (length vs) - 1)) <= Z.of_nat kk <= cceil (f2q q * inj (Z.of_nat (length vs) - 1)))%Z /\
    (kk < length vs)%nat /\
    plain_quantile rnd64 fx mt s q = (s', ROk y) /\ SkInv s' /\ sk_abs s' = sk_abs s /\
    y = repr (am_of mt) (nth kk ys w0) /\
    (((Qcabs (nth kk ys w0) <= f2q (gm_min g))%Qc /\ y = w0) \/
     (Qcabs (y - nth kk ys w0) <= alpha * Qcabs (nth kk ys w0))%Qc).
Proof.
  intros Ha Hkp Hkn H4 H5 Hfin Hmax Hperm Hsort Hne Hlen Hq0 Hq1.
  apply (gmap_lin_quantile_accuracy_rnd64 L g fx m kp kn exact vs ys q alpha acc_map_full_kind
           acc_map_full_small acc_map_full_range_ok Hkp Hkn H4 H5 Hfin Hmax Hperm Hsort Hne Hlen Hq0 Hq1).
  intros v Hin Hlo.
  assert (Fv : fin v) by (rewrite Forall_forall in Hfin; exact (Hfin v Hin)).
  apply acc_map_full_accuracy_Qc; [exact Ha|apply fabs_fin; exact Fv|exact Hlo|].
  rewrite (f2q_fabs v Fv). exact (Hmax v Hin).
Qed.
End LinFull.

Section CubFull.
Variable L : libm.
Variables k kc : R.
Hypothesis HLc : libm_cub_hi_ok L k kc.
Hypothesis K8 : k <= 8.
Variable a : f64.
Hypothesis Fa : fin a.
Hypothesis Ba : / 400000 <= BR a <= 99 / 100.

Let g := acc_mapc L a.
Local Notation HLo := (libm_cub_hi_lo L k kc HLc K8).

Theorem with_accuracy_cub_full_eq : with_accuracy L MCub a = Some g.
Proof.
  destruct (Rle_lt_dec (BR a) (32 / 100)) as [H|H].
  - exact (with_accuracy_cub_eq L (8 * k) (lc_ok _ _ _ HLo) a Fa ltac:(lra)).
  - exact (with_accuracy_cub_hi_eq L k kc HLc a Fa ltac:(lra)).
Qed.

Theorem with_accuracy_cub_full_accuracy (v : f64) :
  fin v -> BR (gm_min g) < BR v -> BR v <= BR (gm_max g) ->
  let i := gm_index L g v in
  pos_normal v /\ GlueAccuracy.in_range g i /\ fin (gm_value L g i) /\
  BR (gm_lower L g i) <= BR v * (1 + q38) /\
  BR v <= BR (gm_lower L g i) * ((1 + BR a) / (1 - BR a)) * (1 + q35) /\
  Rabs (BR (gm_value L g i) - BR v) <= (BR a + q34) * BR v.
Proof.
  intros Fv Hlo Hhi i.
  destruct (Rle_lt_dec (BR a) (32 / 100)) as [H|H].
  - exact (with_accuracy_cub_accuracy L (8 * k) kc HLo a Fa ltac:(lra) v Fv Hlo Hhi).
  - exact (with_accuracy_cub_hi_accuracy L k kc HLc a Fa ltac:(lra) v Fv Hlo Hhi).
Qed.

Lemma acc_mapc_full_kind : gm_kind g = MCub.
Proof. reflexivity. Qed.

Lemma acc_mapc_full_small : gm_small g.
Proof.
  destruct (Rle_lt_dec (BR a) (32 / 100)) as [H|H].
  - exact (acc_mapc_small L (8 * k) kc HLo a Fa ltac:(lra)).
  - destruct (with_accuracy_cub_hi_summary L k kc HLc a Fa ltac:(lra)) as (_ & _ & _ & _ & (Fm & Fo & BM & BO) & _).
    unfold gm_small. fold g in Fm, Fo, BM, BO. change (bpow radix2 20) with 1048576.
    split; [exact Fm|]. split; [exact Fo|]. split; lra.
Qed.

Lemma acc_mapc_full_range_ok : gm_range_ok g.
Proof.
  destruct (Rle_lt_dec (BR a) (32 / 100)) as [H|H].
  - exact (acc_mapc_range_ok L (8 * k) kc HLo a Fa ltac:(lra)).
  - destruct (with_accuracy_cub_hi_summary L k kc HLc a Fa ltac:(lra)) as (_ & _ & _ & R & _). exact R.
Qed.

Lemma acc_mapc_full_accuracy_Qc (alpha : Qc) (v : f64) :
  BR a + q34 <= qR alpha ->
  fin v -> (f2q (gm_min g) < f2q v)%Qc -> (f2q v <= f2q (gm_max g))%Qc ->
  (Qcabs (f2q (gm_value L g (gm_index L g v)) - f2q v) <= alpha * f2q v)%Qc.
Proof.
  intros Ha Fv Hlo Hhi. destruct acc_mapc_full_range_ok as (Fmin & Fmax & _).
  apply (f2q_lt_R _ _ Fmin Fv) in Hlo. apply (f2q_le_R _ _ Fv Fmax) in Hhi.
  destruct (with_accuracy_cub_full_accuracy v Fv Hlo Hhi) as (Hv & _ & FV & _ & _ & Acc).
  destruct (bval_float v Hv) as (_ & _ & Pv).
  apply Rabs_le_inv in Acc.
  assert (Hb : (BR a + q34) * BR v <= qR alpha * BR v) by (apply Rmult_le_compat_r; lra).
  apply Qcabs_Qcle_condition. split; apply qR_le.
  - rewrite qR_opp, qR_mult, qR_minus, !f2q_B2R by assumption. lra.
  - rewrite qR_mult, qR_minus, !f2q_B2R by assumption. lra.
Qed.

Theorem C01_cub_full_end_to_end
  (fx : fixes) (m : mapid) (kp kn : kind) (exact : bool)
  (vs : list f64) (ys : list Qc) (q : f64) (alpha : Qc) :
  BR a + q34 <= qR alpha ->
  kind_limit kp = Exact -> kind_limit kn = Exact ->
  fD4 fx = true -> fD5 fx = true ->
  Forall (fun v => f_is_finite v = true) vs ->
  (forall v, In v vs -> (Qcabs (f2q v) <= f2q (gm_max g))%Qc) ->
  Permutation (map f2q vs) ys -> Sorted Qcle ys -> vs <> [] -> (Z.of_nat (length vs) <= 2 ^ 53)%Z ->
  fle f64_zero q = true -> fle q f64_one = true ->
  let mt := mt_of_gmap L g in
  exists s, plain_add_units mt (sk_new m kp kn exact) vs = ROk s /\ SkInv s /\
  exists (kk : nat) (s' : sketch) (y : Qc),
    (cfloor (f2q q * inj (Z.of_nat (length vs) - 1)) <= Z.of_nat kk <= cceil (f2q q * inj (Z.of_nat (length vs) - 1)))%Z /\
    (kk < length vs)%nat /\
    plain_quantile rnd64 fx mt s q = (s', ROk y) /\ SkInv s' /\ sk_abs s' = sk_abs s /\
    y = repr (am_of mt) (nth kk ys w0) /\
    (((Qcabs (nth kk ys w0) <= f2q (gm_min g))%Qc /\ y = w0) \/
     (Qcabs (y - nth kk ys w0) <= alpha * Qcabs (nth kk ys w0))%Qc).
Proof.
  intros Ha Hkp Hkn H4 H5 Hfin Hmax Hperm Hsort Hne Hlen Hq0 Hq1.
  apply (gmap_cub_quantile_accuracy_rnd64 L g fx m kp kn exact vs ys q alpha acc_mapc_full_kind
           acc_mapc_full_small acc_mapc_full_range_ok Hkp Hkn H4 H5 Hfin Hmax Hperm Hsort Hne Hlen Hq0 Hq1).
  intros v Hin Hlo.
  assert (Fv : fin v) by (rewrite Forall_forall in Hfin; exact (Hfin v Hin)).
  apply acc_mapc_full_accuracy_Qc; [exact Ha|apply fabs_fin; exact Fv|exact Hlo|].
  rewrite (f2q_fabs v Fv). exact (Hmax v Hin).
Qed.
End CubFull.

(* ------------------------------------------------------------------ *)
(* 10. the hypotheses are satisfiable: the correctly rounded oracle    *)
(* ------------------------------------------------------------------ *)
Theorem L_ideal_hi_ok : libm_hi_ok L_ideal 1.
Proof.
  assert (Hu : u53 = / 9007199254740992) by reflexivity.
  destruct L_ideal_ok as [K1 K2 K3 K4 K5 K6 K7].
  constructor; try assumption.
  - (* log2 on [1, 256] *)
    intros x Fx Bx. cbn [l_log2 L_ideal]. pose proof ln2_pos as H2.
    assert (Br : 0 <= ln (BR x) / ln 2 <= 8).
    { split.
      - apply le_div_intro; [lra|]. rewrite Rmult_0_l, <- ln_1. apply ln_le_mono; lra.
      - apply div_le_intro; [lra|]. apply Rle_trans with (ln 256); [apply ln_le_mono; lra|].
        change 256 with (bpow radix2 8). rewrite GlueLog.ln_bpow. simpl (IZR 8). lra. }
    destruct (R2F_correct (ln (BR x) / ln 2)) as (F & E).
    { apply (small_le_max 8); [lia|]. apply Rabs_le. simpl (IZR 8). lra. }
    split; [exact F|]. rewrite E, Rmult_1_l.
    replace (u53 * 8) with (bpow radix2 (4 - 54)) by (change (bpow radix2 (4 - 54)) with (/ 1125899906842624); rewrite Hu; lra).
    apply rndR_err_lt; [lia|]. change (bpow radix2 4) with 16. apply Rabs_lt. lra.
  - (* pow on [1, 256] x [0, 2] *)
    intros x y Fx Fy Bx By. cbn [l_pow L_ideal].
    set (r := Rpower (BR x) (BR y)).
    assert (Br : 1 <= r <= 65536).
    { unfold r, Rpower. assert (0 <= ln (BR x)) by (rewrite <- ln_1; apply ln_le_mono; lra).
      assert (ln (BR x) <= ln 256) by (apply ln_le_mono; lra).
      split.
      - rewrite <- exp_0. apply exp_le_mono. apply Rmult_le_pos; lra.
      - apply Rle_trans with (exp (2 * ln 256)); [apply exp_le_mono; nra|].
        replace (2 * ln 256) with (ln 256 + ln 256) by ring. rewrite exp_plus, exp_ln by lra. lra. }
    destruct (R2F_correct r) as (F & E).
    { apply (small_le_max 65536); [lia|]. apply Rabs_le. simpl (IZR 65536). lra. }
    split; [exact F|]. rewrite E, Rmult_1_l.
    assert (Hn : bpow radix2 (-1022) <= Rabs r).
    { rewrite Rabs_pos_eq by lra. apply Rle_trans with (bpow radix2 0); [apply bpow_le; lia|].
      change (bpow radix2 0) with 1. lra. }
    pose proof (rndR_err_normal _ Hn) as Er. rewrite (Rabs_pos_eq r) in Er by lra. exact Er.
Qed.

Theorem L_ideal_c_hi_ok : libm_cub_hi_ok L_ideal_c 1 1.
Proof.
  destruct L_ideal_c_ok as [_ C2 C3 C4]. constructor; [|exact C2|exact C3|exact C4].
  destruct L_ideal_hi_ok as [K1 K2 K3 K4 K5 K6 K7]. constructor; assumption.
Qed.

(* the correctly rounded oracle builds, for every a in [1e-6, 0.99] (cubic: [2.5e-6, 0.99]), a mapping to which
   all of the above applies *)
Theorem ideal_instance_lin_full (a v : f64) :
  fin a -> / 1000000 <= BR a <= 99 / 100 ->
  let m := acc_map L_ideal a in
  with_accuracy L_ideal MLin a = Some m /\
  (fin v -> BR (gm_min m) < BR v -> BR v <= BR (gm_max m) ->
   Rabs (BR (gm_value L_ideal m (gm_index L_ideal m v)) - BR v) <= (BR a + q34) * BR v).
Proof.
  intros Fa Ba m. split; [exact (with_accuracy_lin_full_eq L_ideal 1 L_ideal_hi_ok ltac:(lra) a Fa Ba)|].
  intros Fv Hlo Hhi.
  destruct (with_accuracy_lin_full_accuracy L_ideal 1 L_ideal_hi_ok ltac:(lra) a Fa Ba v Fv Hlo Hhi) as (_ & _ & _ & _ & H).
  exact H.
Qed.

Theorem ideal_instance_cub_full (a v : f64) :
  fin a -> / 400000 <= BR a <= 99 / 100 ->
  let m := acc_mapc L_ideal_c a in
  with_accuracy L_ideal_c MCub a = Some m /\
  (fin v -> BR (gm_min m) < BR v -> BR v <= BR (gm_max m) ->
   Rabs (BR (gm_value L_ideal_c m (gm_index L_ideal_c m v)) - BR v) <= (BR a + q34) * BR v).
Proof.
  intros Fa Ba m. split; [exact (with_accuracy_cub_full_eq L_ideal_c 1 1 L_ideal_c_hi_ok ltac:(lra) a Fa Ba)|].
  intros Fv Hlo Hhi.
  destruct (with_accuracy_cub_full_accuracy L_ideal_c 1 1 L_ideal_c_hi_ok ltac:(lra) a Fa Ba v Fv Hlo Hhi)
    as (_ & _ & _ & _ & _ & H).
  exact H.
Qed.

(* relativeAccuracy 0.5 is inside the coarse range *)
Theorem ex_half_lin (v : f64) :
  let a := fb 4602678819172646912 in
  let m := acc_map L_ideal a in
  with_accuracy L_ideal MLin a = Some m /\
  (fin v -> BR (gm_min m) < BR v -> BR v <= BR (gm_max m) ->
   Rabs (BR (gm_value L_ideal m (gm_index L_ideal m v)) - BR v) <= (/ 2 + q34) * BR v).
Proof.
  intros a m. assert (Fa : fin a) by reflexivity. assert (Ea : BR a = / 2) by exact half_BR.
  destruct (ideal_instance_lin_full a v Fa ltac:(rewrite Ea; lra)) as (H1 & H2).
  split; [exact H1|]. rewrite <- Ea. exact H2.
Qed.

Theorem ex_half_cub (v : f64) :
  let a := fb 4602678819172646912 in
  let m := acc_mapc L_ideal_c a in
  with_accuracy L_ideal_c MCub a = Some m /\
  (fin v -> BR (gm_min m) < BR v -> BR v <= BR (gm_max m) ->
   Rabs (BR (gm_value L_ideal_c m (gm_index L_ideal_c m v)) - BR v) <= (/ 2 + q34) * BR v).
Proof.
  intros a m. assert (Fa : fin a) by reflexivity. assert (Ea : BR a = / 2) by exact half_BR.
  destruct (ideal_instance_cub_full a v Fa ltac:(rewrite Ea; lra)) as (H1 & H2).
  split; [exact H1|]. rewrite <- Ea. exact H2.
Qed.
