(* The logarithmic mapping (the library's default: NewDefaultMapping = NewLogarithmicMapping) of the bit-exact
   model (Mapping/Glue.v, kind MLog) under explicit accuracy hypotheses on math.Log and math.Exp.
     0. helpers                      1. the hypotheses [logm_ok L k]
     2. the kind-specific argument: Index / LowerBound / Value against ln / exp, with an error budget that
        scales with |ln v| (the generic 2^-42 / 2^-45 slots of GlueAccuracy do not fit: |ln v| goes up to 709.8)
     3. multiplier, bin ratio and RelativeAccuracy() factor from gamma
     4. Min/MaxIndexableValue        5. NewLogarithmicMappingWithGamma
     6. NewLogarithmicMapping (a)    7. premises of Sketch/BridgeProofs, C01 end to end
     8. satisfiability: a correctly rounded oracle        9. summaries        10. bin ratio *)
From Coq Require Import Bool NArith ZArith QArith Qcanon Qcabs Qreals Reals Lra Lia Psatz.
From Flocq Require Import Core.Core Relative IEEE754.BinarySingleNaN IEEE754.Binary IEEE754.Bits.
From SK Require Import Base.Prelude Base.F64 Base.F64Proofs Mapping.Glue Mapping.GlueProofs Mapping.GlueAccuracy
                       Mapping.GlueCtor.
From SK.Real Require Import RBasics MapGeneric MapLog.
#[local] Existing Instance prec53_gt_0.
#[local] Existing Instance fexp64_valid.
Local Open Scope R_scope.

(* ------------------------------------------------------------------ *)
(* 0. helpers                                                          *)
(* ------------------------------------------------------------------ *)
Definition u1075 : R := bpow radix2 (-1075).
Definition q36 : R := / 68719476736.       (* 2^-36 *)
Definition q20 : R := / 1048576.           (* 2^-20 *)

Lemma u1075_pos : 0 < u1075.
Proof. apply bpow_gt_0. Qed.

Lemma u1075_le_u100 : u1075 <= u100 * / 1125899906842624.
Proof.
  unfold u1075. rewrite <- u100_bpow.
  change (/ 1125899906842624) with (bpow radix2 (-50)). rewrite <- bpow_plus. apply bpow_le. lia.
Qed.

Lemma u1075_1023 : u1075 = 2 * u53 * bpow radix2 (-1023).
Proof.
  unfold u1075. rewrite <- u53_bpow. change 2 with (bpow radix2 1). rewrite <- !bpow_plus. f_equal.
Qed.

(* |rnd x - x| <= 2^-53 |x| + 2^-1075, for every real x *)
Lemma rndR_err_sub (x : R) : Rabs (rndR x - x) <= u53 * Rabs x + u1075.
Proof.
  destruct (error_N_FLT radix2 (-1074) 53 ltac:(lia) (fun z => negb (Z.even z)) x)
    as (eps & eta & He & Ht & _ & E).
  change (round radix2 (FLT_exp (-1074) 53) (Znearest (fun z => negb (Z.even z))) x) with (rndR x) in E.
  rewrite E. replace (x * (1 + eps) + eta - x) with (x * eps + eta) by ring.
  apply Rle_trans with (1 := Rabs_triang _ _). rewrite Rabs_mult.
  change (- (53) + 1)%Z with (-52)%Z in He.
  assert (H1 : / 2 * bpow radix2 (-52) = u53) by (unfold u53; change (bpow radix2 (-52)) with (/ 4503599627370496); lra).
  rewrite H1 in He.
  assert (H2 : / 2 * bpow radix2 (-1074) = u1075).
  { unfold u1075. change (/ 2) with (bpow radix2 (-1)). rewrite <- bpow_plus. f_equal. }
  rewrite H2 in Ht.
  pose proof (Rabs_pos x). apply Rplus_le_compat; [|exact Ht].
  rewrite Rmult_comm. apply Rmult_le_compat_r; assumption.
Qed.

(* exp x <= 1 + x + 2 x^2 on [0, 1/2] *)
Lemma exp_le_quad (x : R) : 0 <= x <= / 2 -> exp x <= 1 + x + 2 * (x * x).
Proof.
  intros Hx. apply exp_first_le; [lra|].
  apply Rmult_le_reg_r with (1 - x); [lra|]. rewrite Rinv_l by lra. nra.
Qed.

(* exp x <= 1 + x (1 + 2^-20) for 0 <= x <= 2^-22 *)
Lemma exp_le_lin (x : R) : 0 <= x <= / 4194304 -> exp x <= 1 + x * (1 + q20).
Proof.
  intros Hx. apply Rle_trans with (1 := exp_le_quad x ltac:(lra)). unfold q20. nra.
Qed.

Lemma exp_ge_lin (x : R) : 1 - x <= exp (- x).
Proof. pose proof (exp_ineq1_le (- x)). lra. Qed.

(* the range of the finite positive floats and of their logarithms *)
Lemma pos_fin_bounds (x : f64) : fin x -> 0 < BR x -> bpow radix2 (-1074) <= BR x < bpow radix2 1024.
Proof.
  intros Fx Px. split.
  - apply (generic_format_ge_bpow radix2 (FLT_exp (-1074) 53) (-1074)); [|exact Px|apply BR_format].
    intros e. unfold FLT_exp. lia.
  - pose proof (abs_B2R_lt_emax 53 1024 x) as H. rewrite Rabs_pos_eq in H by lra. exact H.
Qed.

Lemma ln_bpow (e : Z) : ln (bpow radix2 e) = IZR e * ln 2.
Proof. rewrite bpow_pow2. apply ln_pow2. Qed.

Lemma ln_float_bound (x : f64) : fin x -> 0 < BR x -> -745 <= ln (BR x) <= 7098 / 10.
Proof.
  intros Fx Px. destruct (pos_fin_bounds x Fx Px) as (B1 & B2).
  pose proof ln2_enclosure as (H1 & H2). unfold ln2_lo, ln2_hi in *.
  split.
  - apply Rle_trans with (ln (bpow radix2 (-1074))); [|apply ln_le_mono; [apply bpow_gt_0|exact B1]].
    rewrite ln_bpow. replace (IZR (-1074)) with (-1074) by reflexivity. lra.
  - apply Rle_trans with (ln (bpow radix2 1024)); [apply ln_le_mono; lra|].
    rewrite ln_bpow. replace (IZR 1024) with 1024 by reflexivity. lra.
Qed.

Lemma ln_normal_bound (x : f64) : pos_normal x -> -7084 / 10 <= ln (BR x) <= 7098 / 10.
Proof.
  intros (Fx & Nx). pose proof (bpow_gt_0 radix2 (-1022)) as Hp.
  destruct (ln_float_bound x Fx ltac:(lra)) as (_ & B2). split; [|exact B2].
  pose proof ln2_enclosure as (H1 & H2). unfold ln2_lo, ln2_hi in *.
  apply Rle_trans with (ln (bpow radix2 (-1022))); [|apply ln_le_mono; [apply bpow_gt_0|exact Nx]].
  rewrite ln_bpow. replace (IZR (-1022)) with (-1022) by reflexivity. lra.
Qed.

Lemma exp_m709 : bpow radix2 (-1023) <= exp (-709).
Proof.
  rewrite bpow_pow2, pow2_exp. apply exp_le_mono.
  pose proof ln2_enclosure as (H1 & H2). unfold ln2_lo, ln2_hi in *.
  replace (IZR (-1023)) with (-1023) by reflexivity. lra.
Qed.

Lemma f64_zero_fin : fin f64_zero.
Proof. reflexivity. Qed.
Lemma f64_zero_BR : BR f64_zero = 0.
Proof. reflexivity. Qed.

(* ------------------------------------------------------------------ *)
(* 1. accuracy hypotheses on the oracle                                *)
(* ------------------------------------------------------------------ *)
(* k units of 2^-53, relative.  math.Log IS relatively accurate near 1 (it is math.Log2 that cancels); the
   2^-1075 terms only make the statements true of a correctly rounded function without any side argument
   (the result of math.Exp may be a subnormal number just below 2^-1022). *)
Definition log_accurate (L : libm) (k : R) : Prop :=
  forall x : f64, fin x -> 0 < BR x ->
    fin (l_log L x) /\ Rabs (BR (l_log L x) - ln (BR x)) <= k * u53 * Rabs (ln (BR x)) + k * u1075.
Definition exp_accurate_full (L : libm) (k : R) : Prop :=
  forall x : f64, fin x -> -709 <= BR x -> exp (BR x) <= pow2 1023 * (3 / 2) ->
    fin (l_exp L x) /\ Rabs (BR (l_exp L x) - exp (BR x)) <= k * u53 * exp (BR x) + k * u1075.
(* far in the underflow region (the constructor calls math.Exp at (MinInt32 - off)/mult + 1 <= -2047) *)
Definition exp_underflow_ok (L : libm) : Prop :=
  forall x : f64, fin x -> BR x <= -1000 ->
    fin (l_exp L x) /\ Rabs (BR (l_exp L x)) <= bpow radix2 (-1022).
Definition exp_sane (L : libm) : Prop :=
  forall x : f64, fin x -> fin (l_exp L x) \/ l_exp L x = f64_pinf.

Record logm_ok (L : libm) (k : R) : Prop := {
  lg_k : 0 <= k <= 64;
  lg_log : log_accurate L k;
  lg_exp : exp_accurate_full L k;
  lg_expu : exp_underflow_ok L;
  lg_exps : exp_sane L
}.

Lemma kappa_small (L : libm) (k : R) : logm_ok L k -> 0 <= k * u53 <= / 140737488355328.      (* 2^-47 *)
Proof. intros HL. destruct (lg_k _ _ HL). unfold u53. split; nra. Qed.

(* math.Log is bounded on the finite positive floats: the premise [log_bounded] of Sketch/BridgeProofs *)
Lemma log_value_bound (L : libm) (k : R) (x : f64) : logm_ok L k -> fin x -> 0 < BR x ->
  fin (l_log L x) /\ Rabs (BR (l_log L x)) <= 746.
Proof.
  intros HL Fx Px. destruct (lg_log _ _ HL x Fx Px) as (F & E). split; [exact F|].
  pose proof (ln_float_bound x Fx Px) as B. pose proof (kappa_small L k HL) as Hk.
  destruct (lg_k _ _ HL) as (K0 & K1).
  assert (BL : Rabs (ln (BR x)) <= 745) by (apply Rabs_le; lra).
  pose proof u1075_le_u100 as H1. pose proof u1075_pos as H0.
  assert (H2 : k * u1075 <= / 1000) by (unfold u100 in H1; nra).
  assert (H3 : k * u53 * Rabs (ln (BR x)) <= / 1000).
  { apply Rle_trans with (/ 140737488355328 * 745); [|lra].
    apply Rmult_le_compat; try lra. apply Rabs_pos. }
  replace (BR (l_log L x)) with (ln (BR x) + (BR (l_log L x) - ln (BR x))) by ring.
  apply Rle_trans with (1 := Rabs_triang _ _). lra.
Qed.
(* ------------------------------------------------------------------ *)
(* 2. Index / LowerBound / Value of a logarithmic mapping              *)
(* ------------------------------------------------------------------ *)
(* multiplier in [1/8, 2^20] (gamma between exp (2^-20) and exp 8), |indexOffset| <= 2^11 * multiplier *)
Definition log_reasonable (m : gmap) : Prop :=
  gm_kind m = MLog /\ fin (gm_mult m) /\ fin (gm_off m) /\
  / 8 <= BR (gm_mult m) <= 1048576 /\ Rabs (BR (gm_off m)) <= 2048 * BR (gm_mult m).

(* |indexOffset| / multiplier: the offset in units of ln *)
Definition omega (m : gmap) : R := Rabs (BR (gm_off m)) / BR (gm_mult m).
(* error of (index float) / multiplier against ln v + offset / multiplier, lam = |ln v| *)
Definition Dfw (k : R) (m : gmap) (lam : R) : R := u53 * ((k + 3) * lam + omega m) + 25 * u100.
(* the argument handed to math.Exp by LowerBound(j) is in the range where math.Exp is accurate *)
Definition exp_range (m : gmap) (j : Z) : Prop :=
  -709 <= BR (lower_arg m j) /\ exp (BR (lower_arg m j)) <= pow2 1023 * (3 / 2).

Section LogGen.
Variable L : libm.
Variable k : R.
Hypothesis HL : logm_ok L k.
Variable m : gmap.
Hypothesis Hm : log_reasonable m.

Lemma lg_index_float_err (v : f64) : fin v -> 0 < BR v ->
  fin (index_float L m v) /\
  Rabs (BR (index_float L m v) - (ln (BR v) * BR (gm_mult m) + BR (gm_off m)))
    <= BR (gm_mult m) * Dfw k m (Rabs (ln (BR v))).
Proof.
  intros Fv Pv. destruct Hm as (K & Fm & Fo & BM & BO). unfold index_float. rewrite K.
  change (approx_log L MLog v) with (l_log L v).
  destruct (lg_log _ _ HL v Fv Pv) as (Fa & Ea).
  destruct (log_value_bound L k v HL Fv Pv) as (_ & Ba).
  pose proof (ln_float_bound v Fv Pv) as BL.
  pose proof (kappa_small L k HL) as Hk. destruct (lg_k _ _ HL) as (K0 & K1).
  assert (FT : fin (fadd (fmul (l_log L v) (gm_mult m)) (gm_off m))).
  { apply index_arg_fin; try assumption.
    - apply Rle_trans with (1 := Ba). lra.
    - change (bpow radix2 40) with 1099511627776. apply Rabs_le. lra.
    - change (bpow radix2 40) with 1099511627776. apply Rle_trans with (1 := BO). lra. }
  split; [exact FT|].
  unfold Dfw, omega.
  remember (BR (gm_mult m)) as M eqn:EM. remember (BR (gm_off m)) as O eqn:EO.
  remember (BR (l_log L v)) as al eqn:Eal. remember (ln (BR v)) as Lv eqn:ELv.
  destruct (fadd_fin_inv _ _ FT) as (Fp & _).
  pose proof (fadd_R _ _ Fp Fo FT) as RT. pose proof (fmul_R _ _ Fp) as Rp.
  rewrite <- Eal, <- EM in Rp. rewrite <- EO, Rp in RT. rewrite RT.
  set (lam := Rabs Lv) in *.
  assert (L0 : 0 <= lam <= 745) by (unfold lam; split; [apply Rabs_pos|apply Rabs_le; lra]).
  set (P := lam * M). set (Q := k * u53 * lam * M). set (T := k * u1075 * M).
  assert (HP : 0 <= P) by (unfold P; apply Rmult_le_pos; lra).
  assert (HQ : 0 <= Q <= / 140737488355328 * P).
  { replace Q with (k * u53 * P) by (unfold Q, P; ring). split.
    - apply Rmult_le_pos; lra.
    - apply Rmult_le_compat_r; lra. }
  pose proof u1075_le_u100 as H1. pose proof u1075_pos as H0.
  assert (HT : 0 <= T <= u100 * / 16777216).
  { unfold T. split; [apply Rmult_le_pos; [apply Rmult_le_pos; lra|lra]|].
    apply Rle_trans with (64 * u1075 * 1048576).
    - apply Rmult_le_compat; try lra. apply Rmult_le_pos; lra. apply Rmult_le_compat_r; lra.
    - unfold u100 in *. lra. }
  assert (EaM : Rabs (al * M - Lv * M) <= Q + T).
  { replace (al * M - Lv * M) with ((al - Lv) * M) by ring. rewrite Rabs_mult, (Rabs_pos_eq M) by lra.
    replace (Q + T) with ((k * u53 * lam + k * u1075) * M) by (unfold Q, T; ring).
    apply Rmult_le_compat_r; [lra|exact Ea]. }
  assert (ELM : Rabs (Lv * M) = P) by (rewrite Rabs_mult, (Rabs_pos_eq M) by lra; reflexivity).
  assert (BaM : Rabs (al * M) <= P + Q + T).
  { replace (al * M) with (Lv * M + (al * M - Lv * M)) by ring.
    apply Rle_trans with (1 := Rabs_triang _ _). lra. }
  pose proof (rndR_err_rel (al * M)) as E1. remember (rndR (al * M)) as p eqn:Ep.
  assert (E1' : Rabs (p - al * M) <= u53 * (P + Q + T) + u100).
  { apply Rle_trans with (1 := E1). apply Rplus_le_compat_r. apply Rmult_le_compat_l; [unfold u53; lra|exact BaM]. }
  set (aO := Rabs O) in *. assert (HO : 0 <= aO) by apply Rabs_pos.
  assert (Bp : Rabs (p + O) <= (P + Q + T) * (1 + u53) + u100 + aO).
  { replace (p + O) with (al * M + (p - al * M) + O) by ring.
    apply Rle_trans with (1 := Rabs_triang _ _). apply Rplus_le_compat_r.
    apply Rle_trans with (1 := Rabs_triang _ _). lra. }
  pose proof (rndR_err_rel (p + O)) as E2.
  assert (E2' : Rabs (rndR (p + O) - (p + O)) <= u53 * ((P + Q + T) * (1 + u53) + u100 + aO) + u100).
  { apply Rle_trans with (1 := E2). apply Rplus_le_compat_r. apply Rmult_le_compat_l; [unfold u53; lra|exact Bp]. }
  assert (ER : M * (u53 * ((k + 3) * lam + aO / M) + 25 * u100) = Q + 3 * u53 * P + u53 * aO + 25 * u100 * M).
  { unfold Q, P. field. lra. }
  rewrite ER.
  replace (rndR (p + O) - (Lv * M + O)) with ((rndR (p + O) - (p + O)) + (p - al * M) + (al * M - Lv * M)) by ring.
  apply Rle_trans with (1 := Rabs_triang _ _). apply Rle_trans with (Rabs (rndR (p + O) - (p + O) + (p - al * M)) + (Q + T)); [lra|].
  pose proof (Rabs_triang (rndR (p + O) - (p + O)) (p - al * M)) as TR.
  unfold u53, u100 in *. lra.
Qed.

(* tau_j = (j - indexOffset) / multiplier: the ideal argument of math.Exp in LowerBound(j) *)
Definition tau (m : gmap) (j : Z) : R := (IZR j - BR (gm_off m)) / BR (gm_mult m).

Lemma omega_bound : 0 <= omega m <= 2048.
Proof.
  destruct Hm as (_ & _ & _ & BM & BO). unfold omega. split.
  - apply Rmult_le_pos; [apply Rabs_pos|apply Rlt_le, Rinv_0_lt_compat; lra].
  - apply div_le_intro; lra.
Qed.

Lemma Dfw_small (lam : R) : 0 <= lam <= 745 -> 0 <= Dfw k m lam <= / 137438953472.     (* 2^-37 *)
Proof.
  intros Hl. pose proof omega_bound as Ho. destruct (lg_k _ _ HL) as (K0 & K1). unfold Dfw.
  assert (H1 : 0 <= (k + 3) * lam <= 67 * 745).
  { split; [apply Rmult_le_pos; lra|apply Rmult_le_compat; lra]. }
  unfold u53, u100. lra.
Qed.

Lemma lg_index_brackets (v : f64) : fin v -> 0 < BR v ->
  let i := gm_index L m v in
  let D := Dfw k m (Rabs (ln (BR v))) in
  tau m i <= ln (BR v) + D /\ ln (BR v) - D <= tau m i + 1 / BR (gm_mult m) /\
  Rabs (IZR i) <= 2794 * BR (gm_mult m) + 1.
Proof.
  intros Fv Pv i D. destruct (lg_index_float_err v Fv Pv) as (FT & ET). fold D in ET.
  pose proof (ln_float_bound v Fv Pv) as BL.
  assert (L0 : 0 <= Rabs (ln (BR v)) <= 745) by (split; [apply Rabs_pos|apply Rabs_le; lra]).
  pose proof (Dfw_small _ L0) as HD. fold D in HD.
  destruct Hm as (K & Fm & Fo & BM & BO).
  pose proof (go_floor_bounds _ FT) as HB.
  assert (Ei : go_floor (index_float L m v) = i) by reflexivity. rewrite Ei in HB.
  unfold tau.
  remember (BR (gm_mult m)) as M eqn:EM. remember (BR (gm_off m)) as O eqn:EO.
  remember (ln (BR v)) as Lv eqn:ELv.
  apply Rabs_le_inv in ET. apply Rabs_le_inv in BO.
  assert (MD : 0 <= M * D <= M * / 137438953472) by (split; [apply Rmult_le_pos; lra|apply Rmult_le_compat_l; lra]).
  assert (LM : -745 * M <= Lv * M <= 745 * M) by (split; nra).
  repeat split.
  - apply div_le_intro; [lra|]. lra.
  - replace ((IZR i - O) / M + 1 / M) with ((IZR i + 1 - O) / M) by (field; lra).
    apply le_div_intro; [lra|]. lra.
  - apply Rabs_le. lra.
Qed.

Lemma lg_index_small (v : f64) : fin v -> 0 < BR v -> (Z.abs (gm_index L m v) <= 2 ^ 52)%Z.
Proof.
  intros Fv Pv. destruct (lg_index_brackets v Fv Pv) as (_ & _ & B).
  destruct Hm as (_ & _ & _ & BM & _).
  apply le_IZR. rewrite abs_IZR. change (IZR (2 ^ 52)) with 4503599627370496.
  apply Rle_trans with (1 := B). lra.
Qed.

Lemma lg_lower_arg_err (j : Z) : (Z.abs j <= 2 ^ 53)%Z ->
  fin (lower_arg m j) /\
  Rabs (BR (lower_arg m j) - tau m j) <= (2 * u53 + u53 * u53) * Rabs (tau m j) + 10 * u100.
Proof.
  intros Hk. destruct Hm as (_ & Fm & Fo & BM & BO). unfold lower_arg, tau.
  destruct (f_of_int_correct j Hk) as (Fk & Rk).
  assert (Bk : Rabs (IZR j) <= 9007199254740992).
  { rewrite <- abs_IZR. change 9007199254740992 with (IZR (2 ^ 53)). apply IZR_le. exact Hk. }
  remember (BR (gm_mult m)) as M eqn:EM. remember (BR (gm_off m)) as O eqn:EO.
  apply Rabs_le_inv in BO. apply Rabs_le_inv in Bk.
  assert (Bx : Rabs (IZR j - O) <= bpow radix2 54).
  { change (bpow radix2 54) with 18014398509481984. apply Rabs_le. lra. }
  destruct (fsub_bounded (f_of_int j) (gm_off m) Fk Fo) as (Fd & Rd).
  { rewrite Rk, <- EO. apply Rle_trans with (1 := Bx). apply bpow_le_max. lia. }
  rewrite Rk, <- EO in Rd.
  remember (IZR j - O) as x eqn:Ex. remember (rndR x) as d eqn:Ed.
  pose proof (rndR_err_rel x) as E1. rewrite <- Ed in E1.
  assert (HM : 0 < M) by lra. assert (HiM : 0 < / M <= 8).
  { split; [apply Rinv_0_lt_compat; exact HM|]. replace 8 with (/ / 8) by field. apply Rinv_le_contravar; lra. }
  assert (Ex' : Rabs (x / M) = Rabs x * / M).
  { unfold Rdiv. rewrite Rabs_mult, (Rabs_pos_eq (/ M)) by lra. reflexivity. }
  assert (E1' : Rabs (d / M - x / M) <= u53 * Rabs (x / M) + 8 * u100).
  { replace (d / M - x / M) with ((d - x) * / M) by (unfold Rdiv; ring).
    rewrite Rabs_mult, (Rabs_pos_eq (/ M)) by lra. rewrite Ex'.
    apply Rle_trans with ((u53 * Rabs x + u100) * / M).
    - apply Rmult_le_compat_r; lra.
    - assert (u100 * / M <= u100 * 8) by (apply Rmult_le_compat_l; [unfold u100; lra|lra]). lra. }
  remember (x / M) as ta eqn:Etau.
  assert (Hu : 0 < u53 < / 1000 /\ 0 < u100 < / 1000) by (unfold u53, u100; lra).
  assert (Bd : Rabs (d / M) <= Rabs ta * (1 + u53) + 8 * u100).
  { replace (d / M) with (ta + (d / M - ta)) by ring.
    apply Rle_trans with (1 := Rabs_triang _ _). lra. }
  assert (Btau : Rabs ta <= bpow radix2 57).
  { rewrite Ex'. change (bpow radix2 57) with 144115188075855872.
    change (bpow radix2 54) with 18014398509481984 in Bx.
    apply Rle_trans with (18014398509481984 * 8); [|lra].
    apply Rmult_le_compat; try lra. apply Rabs_pos. }
  destruct (fdiv_bounded (fsub (f_of_int j) (gm_off m)) (gm_mult m) Fd) as (Ft & Rt).
  { rewrite <- EM. lra. }
  { rewrite Rd, <- EM. apply Rle_trans with (bpow radix2 59); [|apply bpow_le_max; lia].
    change (bpow radix2 57) with 144115188075855872 in Btau.
    change (bpow radix2 59) with 576460752303423488.
    pose proof (Rabs_pos ta). nra. }
  rewrite Rd, <- EM in Rt. split; [exact Ft|]. rewrite Rt.
  pose proof (rndR_err_rel (d / M)) as E2.
  replace (rndR (d / M) - ta) with ((rndR (d / M) - d / M) + (d / M - ta)) by ring.
  apply Rle_trans with (1 := Rabs_triang _ _).
  pose proof (Rabs_pos ta). nra.
Qed.

Lemma lg_lower_eq (j : Z) : gm_lower L m j = l_exp L (lower_arg m j).
Proof. destruct Hm as (K & _). unfold gm_lower, lower_arg. rewrite K. reflexivity. Qed.

(* LowerBound(j) against exp of its float argument *)
Lemma lg_lower_val (j : Z) : (Z.abs j <= 2 ^ 53)%Z -> exp_range m j ->
  fin (gm_lower L m j) /\
  exp (BR (lower_arg m j)) * (1 - 3 * (k * u53)) <= BR (gm_lower L m j)
    <= exp (BR (lower_arg m j)) * (1 + 3 * (k * u53)).
Proof.
  intros Hj (R1 & R2). destruct (lg_lower_arg_err j Hj) as (Ft & _).
  rewrite lg_lower_eq. destruct (lg_exp _ _ HL _ Ft R1 R2) as (Fl & El).
  split; [exact Fl|].
  remember (BR (lower_arg m j)) as t. pose proof (exp_pos t) as Pe.
  assert (He : bpow radix2 (-1023) <= exp t).
  { apply Rle_trans with (1 := exp_m709). apply exp_le_mono. exact R1. }
  destruct (lg_k _ _ HL) as (K0 & K1). pose proof (kappa_small L k HL) as Hk.
  assert (H2 : k * u1075 <= 2 * (k * u53) * exp t).
  { rewrite u1075_1023. replace (k * (2 * u53 * bpow radix2 (-1023))) with (2 * (k * u53) * bpow radix2 (-1023)) by ring.
    apply Rmult_le_compat_l; [lra|exact He]. }
  apply Rabs_le_inv in El. lra.
Qed.

(* relative excess of LowerBound(Index v) over v, and of v over gamma-ish * LowerBound(Index v); lam = |ln v| *)
Definition eps_lo (k : R) (m : gmap) (lam : R) : R := u53 * ((k + 6) * lam + omega m + 3 * k + 20).

Lemma eps_lo_small (lam : R) : 0 <= lam <= 745 -> 20 * u53 <= eps_lo k m lam <= / 137438953472.     (* 2^-37 *)
Proof.
  intros Hl. pose proof omega_bound as Ho. destruct (lg_k _ _ HL) as (K0 & K1). unfold eps_lo.
  assert (H1 : 0 <= (k + 6) * lam <= 70 * 745).
  { split; [apply Rmult_le_pos; lra|apply Rmult_le_compat; lra]. }
  unfold u53. split; lra.
Qed.

(* the float arguments of math.Exp in LowerBound(Index v) and LowerBound(Index v + 1), against ln v *)
Lemma lg_args (v : f64) : fin v -> 0 < BR v ->
  let i := gm_index L m v in
  let X := u53 * ((k + 6) * Rabs (ln (BR v)) + omega m + 19) in
  BR (lower_arg m i) <= ln (BR v) + X /\
  ln (BR v) <= BR (lower_arg m i) + 1 / BR (gm_mult m) + X /\
  ln (BR v) <= BR (lower_arg m (i + 1)) + X /\
  BR (lower_arg m (i + 1)) <= ln (BR v) + 1 / BR (gm_mult m) + X.
Proof.
  intros Fv Pv i X. destruct (lg_index_brackets v Fv Pv) as (B1 & B2 & _). fold i in B1, B2.
  pose proof (lg_index_small v Fv Pv) as Hi. fold i in Hi.
  destruct (lg_lower_arg_err i ltac:(lia)) as (_ & Ei).
  destruct (lg_lower_arg_err (i + 1) ltac:(lia)) as (_ & Ej).
  pose proof (ln_float_bound v Fv Pv) as BL.
  assert (L0 : 0 <= Rabs (ln (BR v)) <= 745) by (split; [apply Rabs_pos|apply Rabs_le; lra]).
  pose proof (Dfw_small _ L0) as HD. pose proof omega_bound as Ho.
  destruct (lg_k _ _ HL) as (K0 & K1).
  assert (Etj : tau m (i + 1) = tau m i + 1 / BR (gm_mult m)).
  { destruct Hm as (_ & _ & _ & BM & _). unfold tau. rewrite plus_IZR. field. lra. }
  rewrite Etj in Ej.
  assert (HiM : 0 < 1 / BR (gm_mult m) <= 8).
  { destruct Hm as (_ & _ & _ & BM & _). split; [apply Rdiv_lt_0_compat; lra|apply div_le_intro; lra]. }
  unfold X. unfold Dfw in *.
  remember (Rabs (ln (BR v))) as lam. remember (ln (BR v)) as Lv. remember (tau m i) as ti.
  remember (1 / BR (gm_mult m)) as iM. remember (omega m) as om.
  remember (BR (lower_arg m i)) as fi. remember (BR (lower_arg m (i + 1))) as fj.
  remember (k * lam) as KL.
  assert (HKL : 0 <= KL <= 64 * lam) by (rewrite HeqKL; split; [apply Rmult_le_pos; lra|apply Rmult_le_compat_r; lra]).
  replace ((k + 3) * lam) with (KL + 3 * lam) in * by (rewrite HeqKL; ring).
  replace ((k + 6) * lam) with (KL + 6 * lam) by (rewrite HeqKL; ring).
  assert (Hlam : - lam <= Lv <= lam).
  { rewrite Heqlam. split; [pose proof (Rle_abs (- Lv)) as H; rewrite Rabs_Ropp in H; lra|apply Rle_abs]. }
  assert (Bti : Rabs ti <= lam + 9) by (apply Rabs_le; unfold u53, u100 in *; lra).
  assert (Btj : Rabs (ti + iM) <= lam + 9) by (apply Rabs_le; unfold u53, u100 in *; lra).
  assert (Ei' : Rabs (fi - ti) <= (2 * u53 + u53 * u53) * (lam + 9) + 10 * u100).
  { apply Rle_trans with (1 := Ei). apply Rplus_le_compat_r. apply Rmult_le_compat_l; [unfold u53; lra|exact Bti]. }
  assert (Ej' : Rabs (fj - (ti + iM)) <= (2 * u53 + u53 * u53) * (lam + 9) + 10 * u100).
  { apply Rle_trans with (1 := Ej). apply Rplus_le_compat_r. apply Rmult_le_compat_l; [unfold u53; lra|exact Btj]. }
  apply Rabs_le_inv in Ei', Ej'.
  unfold u53, u100 in *. repeat split; lra.
Qed.

Lemma core_up (Lv t X kap lo : R) :
  t <= Lv + X -> 0 <= X <= / 68719476736 -> 0 <= kap <= / 140737488355328 ->
  lo <= exp t * (1 + 3 * kap) -> lo <= exp Lv * (1 + (X + 3 * kap + u53)).
Proof.
  intros Ht HX Hk Hlo. pose proof (exp_pos t) as Pt. pose proof (exp_pos Lv) as PL.
  assert (E1 : exp t <= exp Lv * (1 + X * (1 + q20))).
  { apply Rle_trans with (exp (Lv + X)); [apply exp_le_mono; exact Ht|]. rewrite exp_plus.
    apply Rmult_le_compat_l; [lra|]. apply exp_le_lin. lra. }
  apply Rle_trans with (1 := Hlo).
  apply Rle_trans with (exp Lv * (1 + X * (1 + q20)) * (1 + 3 * kap)).
  - apply Rmult_le_compat_r; lra.
  - rewrite Rmult_assoc. apply Rmult_le_compat_l; [lra|].
    assert (kap * X <= / 140737488355328 * X) by (apply Rmult_le_compat_r; lra).
    unfold q20, u53 in *. nra.
Qed.

Lemma core_dn (Lv t G1 X kap lo : R) :
  Lv <= t + G1 + X -> 0 <= X <= / 68719476736 -> 0 <= kap <= / 140737488355328 ->
  exp t * (1 - 3 * kap) <= lo -> exp Lv <= lo * exp G1 * (1 + (X + 3 * kap + u53)).
Proof.
  intros Ht HX Hk Hlo. pose proof (exp_pos t) as Pt. pose proof (exp_pos G1) as PG.
  assert (E1 : exp Lv <= exp t * exp G1 * (1 + X * (1 + q20))).
  { apply Rle_trans with (exp (t + G1 + X)); [apply exp_le_mono; exact Ht|]. rewrite !exp_plus.
    apply Rmult_le_compat_l; [apply Rmult_le_pos; lra|]. apply exp_le_lin. lra. }
  apply Rle_trans with (1 := E1).
  assert (E2 : exp t * (1 + X * (1 + q20)) <= lo * (1 + (X + 3 * kap + u53))).
  { apply Rle_trans with (exp t * ((1 - 3 * kap) * (1 + (X + 3 * kap + u53)))).
    - apply Rmult_le_compat_l; [lra|].
      assert (kap * X <= / 140737488355328 * X) by (apply Rmult_le_compat_r; lra).
      assert (kap * kap <= / 140737488355328 * kap) by (apply Rmult_le_compat_r; lra).
      unfold q20, u53 in *. nra.
    - rewrite <- Rmult_assoc. apply Rmult_le_compat_r; [unfold u53; lra|exact Hlo]. }
  replace (exp t * exp G1 * (1 + X * (1 + q20))) with (exp t * (1 + X * (1 + q20)) * exp G1) by ring.
  replace (lo * exp G1 * (1 + (X + 3 * kap + u53))) with (lo * (1 + (X + 3 * kap + u53)) * exp G1) by ring.
  apply Rmult_le_compat_r; lra.
Qed.

(* T1. containment; the bin of v has ratio exp (1/multiplier) up to the same eps *)
Theorem lg_containment (v : f64) : fin v -> 0 < BR v ->
  let i := gm_index L m v in
  let e := eps_lo k m (Rabs (ln (BR v))) in
  (exp_range m i ->
     fin (gm_lower L m i) /\ 0 < BR (gm_lower L m i) /\ BR (gm_lower L m i) <= BR v * (1 + e) /\
     BR v <= BR (gm_lower L m i) * exp (1 / BR (gm_mult m)) * (1 + e)) /\
  (exp_range m (i + 1) ->
     fin (gm_lower L m (i + 1)) /\ BR v <= BR (gm_lower L m (i + 1)) * (1 + e)).
Proof.
  intros Fv Pv i e. destruct (lg_args v Fv Pv) as (A1 & A2 & A3 & _). fold i in A1, A2, A3.
  pose proof (lg_index_small v Fv Pv) as Hi. fold i in Hi.
  pose proof (ln_float_bound v Fv Pv) as BL.
  assert (L0 : 0 <= Rabs (ln (BR v)) <= 745) by (split; [apply Rabs_pos|apply Rabs_le; lra]).
  pose proof omega_bound as Ho. destruct (lg_k _ _ HL) as (K0 & K1). pose proof (kappa_small L k HL) as Hk.
  set (X := u53 * ((k + 6) * Rabs (ln (BR v)) + omega m + 19)) in *.
  assert (HX : 0 <= X <= / 68719476736).
  { unfold X. assert (H1 : 0 <= (k + 6) * Rabs (ln (BR v)) <= 70 * 745).
    { split; [apply Rmult_le_pos; lra|apply Rmult_le_compat; lra]. }
    unfold u53. split; [apply Rmult_le_pos; lra|lra]. }
  assert (Ee : e = X + 3 * (k * u53) + u53) by (unfold e, eps_lo, X; ring).
  assert (Ev : exp (ln (BR v)) = BR v) by (apply exp_ln; exact Pv).
  split.
  - intros Ri. destruct (lg_lower_val i ltac:(lia) Ri) as (Fl & Lo & Up).
    pose proof (exp_pos (BR (lower_arg m i))) as Pe.
    split; [exact Fl|]. split; [|split].
    + apply Rlt_le_trans with (2 := Lo). apply Rmult_lt_0_compat; lra.
    + rewrite Ee, <- Ev. exact (core_up _ _ X (k * u53) _ A1 HX Hk Up).
    + rewrite Ee. rewrite <- Ev at 1. exact (core_dn _ _ _ X (k * u53) _ A2 HX Hk Lo).
  - intros Rj. destruct (lg_lower_val (i + 1) ltac:(lia) Rj) as (Fl & Lo & _).
    split; [exact Fl|]. rewrite Ee. rewrite <- Ev at 1.
    assert (A3' : ln (BR v) <= BR (lower_arg m (i + 1)) + 0 + X) by lra.
    pose proof (core_dn (ln (BR v)) _ 0 X (k * u53) _ A3' HX Hk Lo) as H.
    rewrite exp_0, Rmult_1_r in H. exact H.
Qed.

(* the algebra of Value = LowerBound * (1 + alpha) *)
Lemma accuracy_algebra2 (v lo F Val g e eF eR : R) :
  0 < v -> 0 < lo -> 1 < g -> 0 <= e <= / 4194304 -> 0 <= eF <= / 4194304 -> 0 <= eR <= / 4194304 ->
  lo <= v * (1 + e) -> v <= lo * g * (1 + e) ->
  1 <= F -> Rabs (F - (1 + alpha_of g)) <= eF ->
  Rabs (Val - lo * F) <= eR * (lo * F) ->
  Rabs (Val - v) <= (alpha_of g + (2 * e + eF + 2 * eR) * (1 + q20)) * v.
Proof.
  intros Hv Hlo Hg He HeF HeR K1 K2 HF EF EV.
  pose proof (alpha_of_bounds g Hg) as Ha. set (a := alpha_of g) in *.
  assert (Ea : 1 + a = g * (1 - a)) by (unfold a, alpha_of; field; lra).
  apply Rabs_le_inv in EF, EV.
  assert (PF : 0 < lo * F) by (apply Rmult_lt_0_compat; lra).
  apply Rabs_le. split.
  - (* Val >= v (1 - a - E) *)
    set (E' := e + eR + eF).
    assert (HE : v * E' <= v * ((2 * e + eF + 2 * eR) * (1 + q20))).
    { apply Rmult_le_compat_l; [lra|]. unfold E', q20. lra. }
    assert (H0 : lo * ((1 + a - eF) * (1 - eR)) <= Val).
    { apply Rle_trans with (lo * F * (1 - eR)); [|lra].
      rewrite Rmult_assoc. apply Rmult_le_compat_l; [lra|]. apply Rmult_le_compat_r; lra. }
    assert (P1 : 0 <= (1 + a - eF) * (1 - eR)) by (apply Rmult_le_pos; lra).
    destruct (Rle_lt_dec (1 - a - E') 0) as [Hn|Hp].
    + assert (v * (1 - a - E') <= 0) by (rewrite <- (Rmult_0_r v); apply Rmult_le_compat_l; lra).
      assert (0 <= lo * ((1 + a - eF) * (1 - eR))) by (apply Rmult_le_pos; lra).
      lra.
    + assert (H1 : v * (1 - a - E') <= lo * g * (1 + e) * (1 - a - E')) by (apply Rmult_le_compat_r; lra).
      assert (H2 : g * (1 + e) * (1 - a - E') <= (1 + a - eF) * (1 - eR)).
      { rewrite Ea. unfold E'. 
        assert (0 <= g * eF * e) by (apply Rmult_le_pos; [apply Rmult_le_pos|]; lra).
        assert (0 <= g * (1 - (1 - a)) * (e + eR)) by (apply Rmult_le_pos; [apply Rmult_le_pos|]; lra).
        assert (0 <= g * (e + eR) * e) by (apply Rmult_le_pos; [apply Rmult_le_pos|]; lra).
        assert (0 <= (g - 1) * eF) by (apply Rmult_le_pos; lra).
        assert (0 <= eF * eR) by (apply Rmult_le_pos; lra).
        lra. }
      assert (H3 : lo * g * (1 + e) * (1 - a - E') <= lo * ((1 + a - eF) * (1 - eR))).
      { rewrite !Rmult_assoc. apply Rmult_le_compat_l; [lra|]. rewrite <- !Rmult_assoc. exact H2. }
      lra.
  - (* Val <= v (1 + a + E) *)
    assert (H1 : lo * F <= v * (1 + e) * (1 + a + eF)) by (apply Rmult_le_compat; lra).
    assert (H3 : Val <= v * ((1 + e) * (1 + a + eF) * (1 + eR))).
    { apply Rle_trans with (lo * F * (1 + eR)); [lra|].
      replace (v * ((1 + e) * (1 + a + eF) * (1 + eR))) with (v * (1 + e) * (1 + a + eF) * (1 + eR)) by ring.
      apply Rmult_le_compat_r; lra. }
    assert (H2 : (1 + e) * (1 + a + eF) * (1 + eR) <= 1 + a + (2 * e + eF + 2 * eR) * (1 + q20)).
    { assert (0 <= e * eR <= / 4194304 * eR) by (split; [apply Rmult_le_pos; lra|apply Rmult_le_compat_r; lra]).
      assert (0 <= e * eF <= / 4194304 * eF) by (split; [apply Rmult_le_pos; lra|apply Rmult_le_compat_r; lra]).
      assert (0 <= eR * eF <= / 4194304 * eF) by (split; [apply Rmult_le_pos; lra|apply Rmult_le_compat_r; lra]).
      assert (0 <= e * eR * eF <= / 4194304 * eF).
      { split; [apply Rmult_le_pos; lra|]. apply Rmult_le_compat_r; [lra|]. lra. }
      assert (0 <= a * e <= e) by (split; [apply Rmult_le_pos; lra|rewrite <- (Rmult_1_l e) at 2; apply Rmult_le_compat_r; lra]).
      assert (0 <= a * eR <= eR) by (split; [apply Rmult_le_pos; lra|rewrite <- (Rmult_1_l eR) at 2; apply Rmult_le_compat_r; lra]).
      assert (0 <= a * (e * eR) <= e * eR) by (split; [apply Rmult_le_pos; lra|rewrite <- (Rmult_1_l (e * eR)) at 2; apply Rmult_le_compat_r; lra]).
      unfold q20. nra. }
    assert (H4 : v * ((1 + e) * (1 + a + eF) * (1 + eR)) <= v * (1 + a + (2 * e + eF + 2 * eR) * (1 + q20)))
      by (apply Rmult_le_compat_l; lra).
    lra.
Qed.

Lemma rnd_value_err (x : R) : bpow radix2 (-1023) * (1 - / 1024) <= x -> Rabs (rndR x - x) <= 4 * u53 * x.
Proof.
  intros Hx. pose proof (bpow_gt_0 radix2 (-1023)) as Hp.
  assert (Px : 0 < x) by nra.
  pose proof (rndR_err_sub x) as E. rewrite (Rabs_pos_eq x) in E by lra.
  apply Rle_trans with (1 := E). rewrite u1075_1023.
  assert (Hu : 0 < u53) by (unfold u53; lra).
  assert (2 * u53 * bpow radix2 (-1023) <= 3 * u53 * x); [|lra].
  replace (2 * u53 * bpow radix2 (-1023)) with (u53 * (2 * bpow radix2 (-1023))) by ring.
  replace (3 * u53 * x) with (u53 * (3 * x)) by ring.
  apply Rmult_le_compat_l; lra.
Qed.

(* T2. |Value (Index v) - v| <= (alpha_of g0 + ~(2 eps_lo + eF + 8 u)) v *)
Theorem lg_value_accuracy (g0 eF : R) (v : f64) :
  exp (1 / BR (gm_mult m)) <= g0 -> 0 <= eF <= / 4194304 -> value_factor_ok L m g0 eF ->
  fin v -> 0 < BR v ->
  let i := gm_index L m v in
  exp_range m i -> fin (gm_value L m i) ->
  Rabs (BR (gm_value L m i) - BR v)
    <= (alpha_of g0 + (2 * eps_lo k m (Rabs (ln (BR v))) + eF + 8 * u53) * (1 + q20)) * BR v.
Proof.
  intros Hg HeF (FF & F1 & EF) Fv Pv i Ri FV.
  destruct (lg_containment v Fv Pv) as (C & _). destruct (C Ri) as (Fl & Pl & K1 & K2). clear C.
  fold i in Fl, Pl, K1, K2.
  pose proof (ln_float_bound v Fv Pv) as BL.
  assert (L0 : 0 <= Rabs (ln (BR v)) <= 745) by (split; [apply Rabs_pos|apply Rabs_le; lra]).
  pose proof (eps_lo_small _ L0) as He.
  pose proof (lg_index_small v Fv Pv) as Hi. fold i in Hi.
  destruct (lg_lower_val i ltac:(lia) Ri) as (_ & Lo & _).
  pose proof (kappa_small L k HL) as Hk.
  assert (HG : 1 < exp (1 / BR (gm_mult m))).
  { destruct Hm as (_ & _ & _ & BM & _).
    pose proof (exp_ineq1_le (1 / BR (gm_mult m))) as Hx.
    assert (0 < 1 / BR (gm_mult m)) by (apply Rdiv_lt_0_compat; lra). lra. }
  unfold gm_value in *. rewrite (fmul_R _ _ FV).
  set (lo := BR (gm_lower L m i)) in *. set (F := BR (fadd f64_one (gm_accuracy L m))) in *.
  set (e := eps_lo k m (Rabs (ln (BR v)))) in *.
  assert (Hlo : bpow radix2 (-1023) * (1 - / 1024) <= lo * F).
  { pose proof (exp_pos (BR (lower_arg m i))) as Pe. pose proof (bpow_gt_0 radix2 (-1023)) as Hp.
    destruct Ri as (R1 & _).
    assert (He' : bpow radix2 (-1023) <= exp (BR (lower_arg m i))).
    { apply Rle_trans with (1 := exp_m709). apply exp_le_mono. exact R1. }
    apply Rle_trans with (lo * 1); [|apply Rmult_le_compat_l; lra].
    apply Rle_trans with (exp (BR (lower_arg m i)) * (1 - 3 * (k * u53))); [|lra].
    apply Rmult_le_compat; lra. }
  replace ((2 * e + eF + 8 * u53) * (1 + q20)) with ((2 * e + eF + 2 * (4 * u53)) * (1 + q20)) by ring.
  assert (He2 : 0 <= e <= / 4194304) by (unfold u53 in He; lra).
  assert (Hu4 : 0 <= 4 * u53 <= / 4194304) by (unfold u53; lra).
  apply (accuracy_algebra2 (BR v) lo F (rndR (lo * F)) g0 e eF (4 * u53)); try assumption; try lra.
  - apply Rle_trans with (1 := K2). apply Rmult_le_compat_r; [lra|]. apply Rmult_le_compat_l; lra.
  - exact (rnd_value_err _ Hlo).
Qed.

Theorem lg_value_accuracy_Qc (g0 eF : R) (alpha : Qc) (v : f64) :
  exp (1 / BR (gm_mult m)) <= g0 -> 0 <= eF <= / 4194304 -> value_factor_ok L m g0 eF ->
  fin v -> 0 < BR v ->
  alpha_of g0 + (2 * eps_lo k m (Rabs (ln (BR v))) + eF + 8 * u53) * (1 + q20) <= qR alpha ->
  let i := gm_index L m v in
  exp_range m i -> fin (gm_value L m i) ->
  (Qcabs (f2q (gm_value L m i) - f2q v) <= alpha * f2q v)%Qc.
Proof.
  intros Hg HeF HV Fv Pv Ha i Ri FV.
  pose proof (lg_value_accuracy g0 eF v Hg HeF HV Fv Pv Ri FV) as H. fold i in H.
  apply Rabs_le_inv in H.
  set (E := alpha_of g0 + (2 * eps_lo k m (Rabs (ln (BR v))) + eF + 8 * u53) * (1 + q20)) in *.
  assert (Hb : E * BR v <= qR alpha * BR v) by (apply Rmult_le_compat_r; lra).
  apply Qcabs_Qcle_condition. split; apply qR_le.
  - rewrite qR_opp, qR_mult, qR_minus, !f2q_B2R by assumption. lra.
  - rewrite qR_mult, qR_minus, !f2q_B2R by assumption. lra.
Qed.
End LogGen.

(* ------------------------------------------------------------------ *)
(* 3. multiplier, bin ratio and RelativeAccuracy() factor from gamma   *)
(* ------------------------------------------------------------------ *)
Lemma inv_diff_rel (A B e : R) : 2 <= A -> 2 <= B -> 0 <= e -> Rabs (B - A) <= e * A -> Rabs (2 / B - 2 / A) <= e.
Proof.
  intros HA HB He H. replace (2 / B - 2 / A) with ((A - B) * (2 / (A * B))) by (field; lra).
  assert (P : 0 < A * B) by nra.
  rewrite Rabs_mult, (Rabs_minus_sym A B), (Rabs_pos_eq (2 / (A * B))) by (apply Rlt_le, Rdiv_lt_0_compat; lra).
  apply Rle_trans with (e * A * (2 / (A * B))).
  - apply Rmult_le_compat_r; [apply Rlt_le, Rdiv_lt_0_compat; lra|exact H].
  - replace (e * A * (2 / (A * B))) with (e * (2 / B)) by (field; lra).
    rewrite <- (Rmult_1_r e) at 2. apply Rmult_le_compat_l; [exact He|]. apply div_le_intro; lra.
Qed.

Lemma ln_256 : ln 256 <= 556 / 100.
Proof.
  change 256 with (bpow radix2 8). rewrite ln_bpow. pose proof ln2_enclosure as (_ & H). unfold ln2_hi in H.
  replace (IZR 8) with 8 by reflexivity. lra.
Qed.

Section FromGammaLog.
Variable L : libm.
Variable k : R.
Hypothesis HL : logm_ok L k.
Variable g : f64.
Hypothesis Fg : fin g.
(* gamma between exp (1.99e-6) = 1 + 1.99e-6 and 256 *)
Hypothesis Hlg : lmin <= ln (BR g).
Hypothesis Hg1 : 1 <= BR g <= 256.

Let lg := ln (BR g).
Let ell := BR (l_log L g).

Lemma lg_le : lg <= 556 / 100.
Proof. apply Rle_trans with (2 := ln_256). apply ln_le_mono; lra. Qed.

Lemma ell_log_props :
  fin (l_log L g) /\ lg * (1 - (k + / 100) * u53) <= ell <= lg * (1 + (k + / 100) * u53) /\
  198 / 100000000 <= ell <= 557 / 100.
Proof.
  destruct (lg_log _ _ HL g Fg ltac:(lra)) as (F & E). fold lg ell in E.
  pose proof lg_le as Hl. pose proof (kappa_small L k HL) as Hk. destruct (lg_k _ _ HL) as (K0 & K1).
  fold lg in Hlg. unfold lmin in Hlg.
  rewrite (Rabs_pos_eq lg) in E by lra.
  pose proof u1075_le_u100 as H1. pose proof u1075_pos as H0.
  assert (H2 : k * u1075 <= / 100 * u53 * lg).
  { apply Rle_trans with (64 * u1075); [apply Rmult_le_compat_r; lra|].
    apply Rle_trans with (/ 100 * u53 * (199 / 100000000)); [unfold u100, u53 in *; lra|].
    apply Rmult_le_compat_l; [unfold u53; lra|lra]. }
  apply Rabs_le_inv in E.
  assert (KL : 0 <= k * u53 * lg <= / 140737488355328 * lg).
  { split; [apply Rmult_le_pos; lra|apply Rmult_le_compat_r; lra]. }
  split; [exact F|].
  assert (B : lg * (1 - (k + / 100) * u53) <= ell <= lg * (1 + (k + / 100) * u53)).
  { replace (lg * (1 - (k + / 100) * u53)) with (lg - k * u53 * lg - / 100 * u53 * lg) by ring.
    replace (lg * (1 + (k + / 100) * u53)) with (lg + k * u53 * lg + / 100 * u53 * lg) by ring. lra. }
  split; [exact B|].
  replace (lg * (1 - (k + / 100) * u53)) with (lg - k * u53 * lg - / 100 * u53 * lg) in B by ring.
  replace (lg * (1 + (k + / 100) * u53)) with (lg + k * u53 * lg + / 100 * u53 * lg) in B by ring.
  unfold u53 in *. lra.
Qed.

(* the multiplier 1 / math.Log(gamma) *)
Definition multf_log : f64 := fdiv f64_one (l_log L g).

Lemma mult_log_props :
  fin multf_log /\ / 8 <= BR multf_log <= 524288 /\
  lg * (1 - (k + 2) * u53) <= 1 / BR multf_log <= lg * (1 + (k + 3) * u53) /\
  exp (1 / BR multf_log) <= BR g * (1 + 6 * (k + 3) * u53).
Proof.
  destruct ell_log_props as (Fl & Bl & B). pose proof lg_le as Hl.
  pose proof (kappa_small L k HL) as Hk. destruct (lg_k _ _ HL) as (K0 & K1).
  fold lg in Hlg. unfold lmin in Hlg.
  assert (Hi : / 8 <= 1 / ell <= 524288).
  { split.
    - apply le_div_intro; lra.
    - apply div_le_intro; lra. }
  destruct (fdiv_bounded f64_one (l_log L g) f64_one_fin) as (Fm & Rm).
  { fold ell. lra. }
  { rewrite f64_one_BR. fold ell. apply (small_le_max 524288); [lia|].
    rewrite Rabs_pos_eq by lra. simpl. lra. }
  rewrite f64_one_BR in Rm. fold ell in Rm. fold multf_log in Fm, Rm.
  assert (M1 : / 8 <= BR multf_log).
  { rewrite Rm. apply rndR_ge; [|lra]. change (/ 8) with (bpow radix2 (-3)).
    apply generic_format_bpow. unfold FLT_exp. lia. }
  assert (M2 : BR multf_log <= 524288).
  { rewrite Rm. apply rndR_le'; [apply (fmt_IZR 524288); lia|lra]. }
  assert (Er : Rabs (BR multf_log - 1 / ell) <= u53 * (1 / ell)).
  { rewrite Rm.
    assert (Hn : bpow radix2 (-1022) <= Rabs (1 / ell)).
    { rewrite Rabs_pos_eq by lra. apply Rle_trans with (bpow radix2 (-3)); [apply bpow_le; lia|].
      change (bpow radix2 (-3)) with (/ 8). lra. }
    pose proof (rndR_err_normal (1 / ell) Hn) as E. rewrite (Rabs_pos_eq (1 / ell)) in E by lra. exact E. }
  apply Rabs_le_inv in Er.
  assert (Hu : 0 < u53 < / 1000) by (unfold u53; lra).
  set (M := BR multf_log) in *. set (r := 1 / ell) in *.
  assert (Er' : ell = 1 / r) by (unfold r; field; lra).
  assert (I1 : ell * (1 - u53) <= 1 / M).
  { apply le_div_intro; [lra|]. rewrite Er'. unfold Rdiv. rewrite Rmult_1_l.
    apply Rmult_le_reg_l with r; [lra|]. rewrite <- !Rmult_assoc, Rinv_r, Rmult_1_l by lra. nra. }
  assert (I2 : 1 / M <= ell * (1 + 2 * u53)).
  { apply div_le_intro; [lra|]. rewrite Er'. unfold Rdiv. rewrite Rmult_1_l.
    apply Rmult_le_reg_l with r; [lra|]. rewrite <- !Rmult_assoc, Rinv_r, Rmult_1_l by lra. nra. }
  split; [exact Fm|]. split; [lra|].
  set (c := (k + / 100) * u53) in *.
  assert (Hc : 0 <= c <= 65 * u53) by (unfold c; split; [apply Rmult_le_pos; lra|apply Rmult_le_compat_r; lra]).
  assert (J1 : lg * (1 - (k + 2) * u53) <= 1 / M).
  { apply Rle_trans with (2 := I1). apply Rle_trans with (lg * (1 - c) * (1 - u53)).
    - rewrite Rmult_assoc. apply Rmult_le_compat_l; [lra|].
      replace ((k + 2) * u53) with (c + (2 - / 100) * u53) by (unfold c; ring).
      assert (0 <= c * u53 <= 65 * u53 * u53) by (split; [apply Rmult_le_pos; lra|apply Rmult_le_compat_r; lra]).
      unfold u53 in *. lra.
    - apply Rmult_le_compat_r; lra. }
  assert (J2 : 1 / M <= lg * (1 + (k + 3) * u53)).
  { apply Rle_trans with (1 := I2). apply Rle_trans with (lg * (1 + c) * (1 + 2 * u53)).
    - apply Rmult_le_compat_r; lra.
    - rewrite Rmult_assoc. apply Rmult_le_compat_l; [lra|].
      replace ((k + 3) * u53) with (c + (3 - / 100) * u53) by (unfold c; ring).
      assert (0 <= c * u53 <= 65 * u53 * u53) by (split; [apply Rmult_le_pos; lra|apply Rmult_le_compat_r; lra]).
      unfold u53 in *. lra. }
  split; [split; assumption|].
  apply Rle_trans with (exp (lg * (1 + (k + 3) * u53))); [apply exp_le_mono; exact J2|].
  replace (lg * (1 + (k + 3) * u53)) with (lg + lg * ((k + 3) * u53)) by ring. rewrite exp_plus.
  unfold lg at 1. rewrite exp_ln by lra. apply Rmult_le_compat_l; [lra|].
  set (y := (k + 3) * u53). assert (Hy : 0 <= y <= 67 * u53) by (unfold y; split; [apply Rmult_le_pos; lra|apply Rmult_le_compat_r; lra]).
  assert (Hly : 0 <= lg * y <= 556 / 100 * y) by (split; [apply Rmult_le_pos; lra|apply Rmult_le_compat_r; lra]).
  apply Rle_trans with (1 + lg * y * (1 + q20)); [apply exp_le_lin; unfold u53 in *; lra|].
  replace (6 * (k + 3) * u53) with (6 * y) by (unfold y; ring). unfold q20. lra.
Qed.

(* 1 + RelativeAccuracy() = 1 + (1 - 2 / (1 + gamma)): no call to the oracle *)
Definition factor_log : f64 := fadd f64_one (fsub f64_one (fdiv c_two (fadd f64_one g))).

Lemma factor_log_props :
  fin factor_log /\ 1 <= BR factor_log /\ Rabs (BR factor_log - (1 + alpha_of (BR g))) <= 4 * u53.
Proof.
  set (G := BR g) in *.
  destruct (fadd_bounded f64_one g f64_one_fin Fg) as (F1 & R1).
  { rewrite f64_one_BR. fold G. apply (small_le_max 257); [lia|]. apply Rabs_le. simpl. lra. }
  rewrite f64_one_BR in R1. fold G in R1.
  set (s1f := fadd f64_one g) in *.
  assert (E1 : Rabs (BR s1f - (1 + G)) <= u53 * (1 + G)).
  { rewrite R1.
    assert (Hn : bpow radix2 (-1022) <= Rabs (1 + G)).
    { rewrite Rabs_pos_eq by lra. apply Rle_trans with (bpow radix2 0); [apply bpow_le; lia|].
      change (bpow radix2 0) with 1. lra. }
    pose proof (rndR_err_normal (1 + G) Hn) as E. rewrite (Rabs_pos_eq (1 + G)) in E by lra. exact E. }
  assert (S2 : 2 <= BR s1f).
  { rewrite R1. apply rndR_ge; [apply (fmt_IZR 2); lia|lra]. }
  destruct (fdiv_bounded c_two s1f c_two_fin) as (F2 & R2).
  { lra. }
  { rewrite c_two_BR. apply (small_le_max 1); [lia|]. rewrite Rabs_pos_eq by (apply Rlt_le, Rdiv_lt_0_compat; lra).
    apply div_le_intro; lra. }
  rewrite c_two_BR in R2. set (df := fdiv c_two s1f) in *. set (s1 := BR s1f) in *.
  assert (S3 : s1 <= 258).
  { apply Rabs_le_inv in E1. assert (u53 * (1 + G) <= 1) by (unfold u53; lra). lra. }
  assert (Bd : / 129 <= 2 / s1 <= 1).
  { split; [apply le_div_intro; lra|apply div_le_intro; lra]. }
  assert (E2 : Rabs (BR df - 2 / s1) <= bpow radix2 (1 - 54)).
  { rewrite R2. apply rndR_err_lt; [lia|]. change (bpow radix2 1) with 2. apply Rabs_lt. lra. }
  change (bpow radix2 (1 - 54)) with (/ 9007199254740992) in E2. apply Rabs_le_inv in E2.
  assert (D1 : 0 <= BR df <= 1).
  { rewrite R2. split.
    - apply rndR_ge; [apply (fmt_IZR 0); lia|lra].
    - apply rndR_le'; [apply (fmt_IZR 1); lia|lra]. }
  destruct (fsub_bounded f64_one df f64_one_fin F2) as (F3 & R3).
  { rewrite f64_one_BR. apply (small_le_max 1); [lia|]. apply Rabs_le. lra. }
  rewrite f64_one_BR in R3. set (accf := fsub f64_one df) in *. set (d := BR df) in *.
  assert (D2 : / 256 <= d) by lra.
  assert (E3 : Rabs (BR accf - (1 - d)) <= bpow radix2 (0 - 54)).
  { rewrite R3. apply rndR_err_lt; [lia|]. change (bpow radix2 0) with 1. apply Rabs_lt. lra. }
  change (bpow radix2 (0 - 54)) with (/ 18014398509481984) in E3. apply Rabs_le_inv in E3.
  assert (A1 : 0 <= BR accf <= 1).
  { rewrite R3. split.
    - apply rndR_ge; [apply (fmt_IZR 0); lia|lra].
    - apply rndR_le'; [apply (fmt_IZR 1); lia|lra]. }
  destruct (fadd_bounded f64_one accf f64_one_fin F3) as (F4 & R4).
  { rewrite f64_one_BR. apply (small_le_max 2); [lia|]. apply Rabs_le. lra. }
  rewrite f64_one_BR in R4. set (acc := BR accf) in *.
  assert (E4 : Rabs (BR (fadd f64_one accf) - (1 + acc)) <= bpow radix2 (1 - 54)).
  { rewrite R4. apply rndR_err_lt; [lia|]. change (bpow radix2 1) with 2. apply Rabs_lt. lra. }
  change (bpow radix2 (1 - 54)) with (/ 9007199254740992) in E4. apply Rabs_le_inv in E4.
  assert (FF1 : 1 <= BR (fadd f64_one accf)).
  { rewrite R4. apply rndR_ge; [apply (fmt_IZR 1); lia|lra]. }
  change (fadd f64_one accf) with factor_log in *.
  split; [exact F4|]. split; [exact FF1|].
  assert (Ea : 1 + alpha_of G = 2 - 2 / (1 + G)) by (unfold alpha_of; field; lra).
  rewrite Ea.
  pose proof (inv_diff_rel (1 + G) s1 u53 ltac:(lra) S2 ltac:(unfold u53; lra) E1) as ID.
  apply Rabs_le_inv in ID. apply Rabs_le. unfold u53 in *. lra.
Qed.

(* the bound of the bin ratio handed to the accuracy statement *)
Definition G0_log : R := BR g * (1 + 6 * (k + 3) * u53).

Lemma G0_log_props : 1 <= BR g <= G0_log /\ G0_log <= 257 /\ alpha_of G0_log <= alpha_of (BR g) + 3 * (k + 3) * u53.
Proof.
  destruct (lg_k _ _ HL) as (K0 & K1). unfold G0_log.
  set (y := 6 * (k + 3) * u53). assert (Hy : 0 <= y <= 402 * u53).
  { unfold y. replace (6 * (k + 3) * u53) with ((6 * (k + 3)) * u53) by ring. split; [apply Rmult_le_pos; unfold u53; lra|apply Rmult_le_compat_r; unfold u53; lra]. }
  assert (Hgy : 0 <= BR g * y <= 256 * y) by (split; [apply Rmult_le_pos; lra|apply Rmult_le_compat_r; lra]).
  split; [|split].
  - split; [lra|]. replace (BR g * (1 + y)) with (BR g + BR g * y) by ring. lra.
  - replace (BR g * (1 + y)) with (BR g + BR g * y) by ring. unfold u53 in *. lra.
  - apply Rle_trans with (1 := alpha_of_perturb (BR g) y (proj1 Hg1) (proj1 Hy)).
    unfold y. lra.
Qed.
End FromGammaLog.

(* ------------------------------------------------------------------ *)
(* 4. MinIndexableValue, MaxIndexableValue                             *)
(* ------------------------------------------------------------------ *)
Section RangeLog.
Variable L : libm.
Variable k : R.
Hypothesis HL : logm_ok L k.
Variable g : f64.
Hypothesis Fg : fin g.
Hypothesis Hlg : lmin <= ln (BR g).
Hypothesis Hg1 : 1 <= BR g <= 256.
Variable off : f64.
Hypothesis Fo : fin off.
Hypothesis Bo : Rabs (BR off) <= 2048 * BR (multf_log L g).

Definition min_f_log : f64 :=
  fmax (l_exp L (fadd (fdiv (fsub c_min_int32 off) (multf_log L g)) f64_one)) (fmul c_min_normal g).
Definition max_f_log : f64 :=
  fmin (l_exp L (fsub (fdiv (fsub c_max_int32 off) (multf_log L g)) f64_one))
       (fmul (fdiv (l_exp L c_exp_overflow) (fmul c_two g)) (fadd g f64_one)).

(* MinIndexableValue: finite, at least 2^-1022 * gamma (1 - 2^-53) *)
Lemma min_log_props :
  fin min_f_log /\ bpow radix2 (-1022) <= BR min_f_log /\
  bpow radix2 (-1022) * BR g * (1 - u53) <= BR min_f_log.
Proof.
  destruct (mult_log_props L k HL g Fg Hlg Hg1) as (Fm & BM & _).
  destruct consts_fin as (_ & _ & _ & Fmi & _ & Fmn).
  set (M := BR (multf_log L g)) in *. set (O := BR off) in *. apply Rabs_le_inv in Bo.
  (* the argument of math.Exp is below -1000 *)
  destruct (fsub_bounded c_min_int32 off Fmi Fo) as (F1 & R1).
  { rewrite c_min_int32_BR. fold O. apply (small_le_max 4294967296); [lia|]. apply Rabs_le. lra. }
  rewrite c_min_int32_BR in R1. fold O in R1.
  assert (B1 : -4294967296 <= BR (fsub c_min_int32 off) <= -1073741824).
  { rewrite R1. split.
    - apply rndR_ge; [apply (fmt_IZR (-4294967296)); lia|lra].
    - apply rndR_le'; [apply (fmt_IZR (-1073741824)); lia|lra]. }
  set (x1 := BR (fsub c_min_int32 off)) in *.
  assert (Q1 : -34359738368 <= x1 / M <= -2048).
  { split.
    - apply le_div_intro; [lra|]. nra.
    - apply div_le_intro; [lra|]. nra. }
  destruct (fdiv_bounded (fsub c_min_int32 off) (multf_log L g) F1) as (F2 & R2).
  { fold M. lra. }
  { fold x1 M. apply (small_le_max 34359738368); [lia|]. apply Rabs_le. lra. }
  fold x1 M in R2.
  assert (B2 : -34359738368 <= BR (fdiv (fsub c_min_int32 off) (multf_log L g)) <= -2048).
  { rewrite R2. split.
    - apply rndR_ge; [apply (fmt_IZR (-34359738368)); lia|lra].
    - apply rndR_le'; [apply (fmt_IZR (-2048)); lia|lra]. }
  destruct (fadd_bounded _ f64_one F2 f64_one_fin) as (F3 & R3).
  { rewrite f64_one_BR. apply (small_le_max 34359738368); [lia|]. apply Rabs_le. lra. }
  rewrite f64_one_BR in R3.
  assert (B3 : BR (fadd (fdiv (fsub c_min_int32 off) (multf_log L g)) f64_one) <= -1000).
  { rewrite R3. apply rndR_le'; [apply (fmt_IZR (-1000)); lia|lra]. }
  destruct (lg_expu _ _ HL _ F3 B3) as (Fe & Be).
  (* 2^-1022 * gamma *)
  pose proof (bpow_gt_0 radix2 (-1022)) as Hp.
  set (A := BR g) in *.
  destruct (fmul_bounded c_min_normal g Fmn Fg) as (Fy & Ry).
  { rewrite c_min_normal_BR'. fold A. apply Rle_trans with (bpow radix2 0); [|apply bpow_le_max; lia].
    rewrite Rabs_pos_eq by (apply Rmult_le_pos; lra).
    apply Rle_trans with (bpow radix2 (-1022) * 256); [apply Rmult_le_compat_l; lra|].
    change 256 with (bpow radix2 8). rewrite <- bpow_plus. apply bpow_le. lia. }
  rewrite c_min_normal_BR' in Ry. fold A in Ry.
  assert (PA : bpow radix2 (-1022) <= bpow radix2 (-1022) * A).
  { rewrite <- (Rmult_1_r (bpow radix2 (-1022))) at 1. apply Rmult_le_compat_l; lra. }
  assert (Y1 : bpow radix2 (-1022) <= BR (fmul c_min_normal g)).
  { rewrite Ry. apply rndR_ge; [apply generic_format_bpow; unfold FLT_exp; lia|exact PA]. }
  assert (Y2 : bpow radix2 (-1022) * A * (1 - u53) <= BR (fmul c_min_normal g)).
  { rewrite Ry. set (x := bpow radix2 (-1022) * A) in *.
    assert (Hx : bpow radix2 (-1022) <= Rabs x) by (rewrite Rabs_pos_eq; lra).
    pose proof (rndR_err_normal x Hx) as E. rewrite (Rabs_pos_eq x) in E by lra.
    apply Rabs_le_inv in E. lra. }
  destruct (fmax_ge_r _ _ Fe Fy) as (Fmin & Bmin). fold min_f_log in Fmin, Bmin.
  split; [exact Fmin|]. split; lra.
Qed.

(* MaxIndexableValue: finite, at most 2^1023 * 0.7072 * (1 + 1/gamma)  (0.7072 > sqrt 2 / 2) *)
Lemma max_log_props :
  fin max_f_log /\ BR max_f_log <= bpow radix2 1023 * (7072 / 10000) * (1 + / BR g).
Proof.
  destruct (mult_log_props L k HL g Fg Hlg Hg1) as (Fm & BM & _).
  destruct consts_fin as (_ & _ & Fov & _ & Fma & _).
  pose proof (kappa_small L k HL) as Hk. destruct (lg_k _ _ HL) as (K0 & K1).
  set (M := BR (multf_log L g)) in *. set (O := BR off) in *. apply Rabs_le_inv in Bo.
  (* the argument of the first math.Exp is finite *)
  destruct (fsub_bounded c_max_int32 off Fma Fo) as (F1 & R1).
  { rewrite c_max_int32_BR. fold O. apply (small_le_max 4294967296); [lia|]. apply Rabs_le. lra. }
  rewrite c_max_int32_BR in R1. fold O in R1.
  assert (B1 : Rabs (BR (fsub c_max_int32 off)) <= 4294967296).
  { rewrite R1. apply (rndR_abs_le _ 4294967296); [lia|]. apply Rabs_le. lra. }
  set (x1 := BR (fsub c_max_int32 off)) in *. apply Rabs_le_inv in B1.
  assert (Q1 : Rabs (x1 / M) <= 34359738368).
  { apply Rabs_le. split.
    - apply le_div_intro; [lra|]. nra.
    - apply div_le_intro; [lra|]. nra. }
  destruct (fdiv_bounded (fsub c_max_int32 off) (multf_log L g) F1) as (F2 & R2).
  { fold M. lra. }
  { fold x1 M. apply (small_le_max 34359738368); [lia|exact Q1]. }
  fold x1 M in R2.
  assert (B2 : Rabs (BR (fdiv (fsub c_max_int32 off) (multf_log L g))) <= 34359738368).
  { rewrite R2. apply (rndR_abs_le _ 34359738368); [lia|exact Q1]. }
  apply Rabs_le_inv in B2.
  destruct (fsub_bounded _ f64_one F2 f64_one_fin) as (F3 & _).
  { rewrite f64_one_BR. apply (small_le_max 34359738369); [lia|]. apply Rabs_le. lra. }
  pose proof (lg_exps _ _ HL _ F3) as S2.
  (* math.Exp (expOverflow) *)
  pose proof exp_c_ov as Eov.
  destruct (lg_exp _ _ HL c_exp_overflow Fov) as (FE & EE).
  { rewrite c_exp_overflow_BR. unfold c_ovr. lra. }
  { rewrite c_exp_overflow_BR. pose proof (pow2_pos 1023). lra. }
  rewrite <- bpow_pow2 in Eov.
  set (P := bpow radix2 1023) in *. assert (PP : 0 < P) by apply bpow_gt_0.
  rewrite c_exp_overflow_BR in EE. set (X := exp c_ovr) in *.
  assert (PX : 1 <= X) by (unfold X; pose proof (exp_ineq1_le c_ovr); unfold c_ovr in *; lra).
  set (E := BR (l_exp L c_exp_overflow)) in *. apply Rabs_le_inv in EE.
  assert (KX : 0 <= k * u53 * X <= / 140737488355328 * X) by (split; [apply Rmult_le_pos; lra|apply Rmult_le_compat_r; lra]).
  pose proof u1075_le_u100 as H1. pose proof u1075_pos as H0.
  assert (KU : 0 <= k * u1075 <= u100).
  { split; [apply Rmult_le_pos; lra|]. apply Rle_trans with (64 * u1075); [apply Rmult_le_compat_r; lra|unfold u100 in *; lra]. }
  assert (Hu100 : 0 < u100 < / 1000000) by (unfold u100; lra).
  assert (P1 : 256 <= P).
  { unfold P. change 256 with (bpow radix2 8). apply bpow_le. lia. }
  assert (BE : 0 < E <= P * (141431 / 100000)) by lra.
  (* 2 * gamma, gamma + 1 *)
  set (A := BR g) in *. assert (BA : 1 <= A <= 256) by exact Hg1.
  assert (Hu : 0 < u53 < / 1000000) by (unfold u53; lra).
  destruct (fmul_bounded c_two g c_two_fin Fg) as (Ft & Rt).
  { rewrite c_two_BR. fold A. apply (small_le_max 512); [lia|]. apply Rabs_le. simpl. lra. }
  rewrite c_two_BR in Rt. fold A in Rt.
  assert (Et : Rabs (BR (fmul c_two g) - 2 * A) <= u53 * (2 * A)).
  { rewrite Rt.
    assert (Hn : bpow radix2 (-1022) <= Rabs (2 * A)).
    { rewrite Rabs_pos_eq by lra. apply Rle_trans with (bpow radix2 0); [apply bpow_le; lia|].
      change (bpow radix2 0) with 1. lra. }
    pose proof (rndR_err_normal (2 * A) Hn) as Er. rewrite (Rabs_pos_eq (2 * A)) in Er by lra. exact Er. }
  set (TA := BR (fmul c_two g)) in *. apply Rabs_le_inv in Et.
  assert (UA : 0 <= u53 * (2 * A) <= 512 * u53).
  { split; [apply Rmult_le_pos; lra|]. rewrite (Rmult_comm 512). apply Rmult_le_compat_l; lra. }
  assert (BT : 2 * A * (1 - u53) <= TA <= 513) by lra.
  destruct (fadd_bounded g f64_one Fg f64_one_fin) as (F5 & R5).
  { rewrite f64_one_BR. fold A. apply (small_le_max 257); [lia|]. apply Rabs_le. simpl. lra. }
  rewrite f64_one_BR in R5. fold A in R5.
  assert (E5 : Rabs (BR (fadd g f64_one) - (A + 1)) <= u53 * (A + 1)).
  { rewrite R5.
    assert (Hn : bpow radix2 (-1022) <= Rabs (A + 1)).
    { rewrite Rabs_pos_eq by lra. apply Rle_trans with (bpow radix2 0); [apply bpow_le; lia|].
      change (bpow radix2 0) with 1. lra. }
    pose proof (rndR_err_normal (A + 1) Hn) as Er. rewrite (Rabs_pos_eq (A + 1)) in Er by lra. exact Er. }
  set (A1 := BR (fadd g f64_one)) in *. apply Rabs_le_inv in E5.
  (* E / (2 gamma) *)
  set (W := / A). assert (HW : W * A = 1) by (unfold W; field; lra).
  assert (BW : / 256 <= W <= 1).
  { unfold W. split; [apply Rinv_le_contravar; lra|]. rewrite <- Rinv_1. apply Rinv_le_contravar; lra. }
  assert (TA0 : 0 < 2 * A * (1 - u53)) by (apply Rmult_lt_0_compat; lra).
  set (D := / TA). assert (HD : D * TA = 1) by (unfold D; field; lra).
  assert (PD : 0 < D) by (unfold D; apply Rinv_0_lt_compat; lra).
  assert (BD : D <= W * ((1 + 2 * u53) / 2)).
  { assert (D * (2 * A * (1 - u53)) <= 1).
    { apply Rle_trans with (D * TA); [apply Rmult_le_compat_l; lra|lra]. }
    assert (W * ((1 + 2 * u53) / 2) * (2 * A * (1 - u53)) >= 1).
    { replace (W * ((1 + 2 * u53) / 2) * (2 * A * (1 - u53))) with ((W * A) * ((1 + 2 * u53) * (1 - u53))) by field.
      rewrite HW. unfold u53. lra. }
    apply Rmult_le_reg_r with (2 * A * (1 - u53)); lra. }
  assert (Bq : 0 <= E / TA <= P * (70717 / 100000) * W).
  { unfold Rdiv. fold D. split; [apply Rmult_le_pos; lra|].
    apply Rle_trans with (P * (141431 / 100000) * (W * ((1 + 2 * u53) / 2))).
    - apply Rmult_le_compat; lra.
    - rewrite Rmult_assoc. rewrite (Rmult_assoc P). apply Rmult_le_compat_l; [lra|].
      replace (141431 / 100000 * (W * ((1 + 2 * u53) / 2))) with (W * (141431 / 100000 * ((1 + 2 * u53) / 2))) by ring.
      rewrite (Rmult_comm (70717 / 100000)). apply Rmult_le_compat_l; [lra|]. unfold u53. lra. }
  assert (EP : P = 2 * bpow radix2 1022).
  { unfold P. replace 1023%Z with (1 + 1022)%Z by lia. rewrite bpow_plus. reflexivity. }
  pose proof (bpow_gt_0 radix2 1022) as Hp22.
  set (PW := P * W). assert (BPW : 1 <= PW <= P).
  { unfold PW. split.
    - apply Rle_trans with (256 * / 256); [lra|]. apply Rmult_le_compat; lra.
    - apply Rle_trans with (P * 1); [apply Rmult_le_compat_l; lra|lra]. }
  assert (Bq' : 0 <= E / TA <= 70717 / 100000 * PW).
  { split; [lra|]. apply Rle_trans with (1 := proj2 Bq). unfold PW. right. ring. }
  destruct (fdiv_bounded (l_exp L c_exp_overflow) (fmul c_two g) FE) as (F6 & R6).
  { fold TA. lra. }
  { fold E TA. apply Rle_trans with (2 := max_3_1022). rewrite Rabs_pos_eq by lra. lra. }
  fold E TA in R6.
  assert (Hq : Rabs (BR (fdiv (l_exp L c_exp_overflow) (fmul c_two g)) - E / TA) <= u53 * (E / TA) + u100).
  { rewrite R6. pose proof (rndR_err_rel (E / TA)) as Er. rewrite (Rabs_pos_eq (E / TA)) in Er by lra. exact Er. }
  set (Q := BR (fdiv (l_exp L c_exp_overflow) (fmul c_two g))) in *. apply Rabs_le_inv in Hq.
  set (Rq := E / TA) in *.
  assert (BQ : - u100 <= Q <= 70718 / 100000 * PW) by (unfold u53, u100 in *; lra).
  (* the product *)
  assert (UA1 : 0 <= u53 * (A + 1) <= 257 * u53).
  { split; [apply Rmult_le_pos; lra|]. rewrite (Rmult_comm 257). apply Rmult_le_compat_l; lra. }
  assert (BA1 : 0 <= A1 <= (A + 1) * (1 + u53)) by lra.
  set (S := P + PW).
  assert (ES : PW * (A + 1) = S).
  { unfold S, PW. rewrite Rmult_plus_distr_l, Rmult_assoc, HW. ring. }
  assert (BS : 3 <= S <= 2 * P) by (unfold S; lra).
  assert (Up : Q * A1 <= 70718 / 100000 * (1 + u53) * S).
  { rewrite <- ES.
    replace (70718 / 100000 * (1 + u53) * (PW * (A + 1))) with ((70718 / 100000 * PW) * ((A + 1) * (1 + u53))) by ring.
    destruct (Rle_lt_dec 0 Q) as [Q0|Q0].
    - apply Rmult_le_compat; lra.
    - apply Rle_trans with 0.
      + rewrite <- (Rmult_0_l A1). apply Rmult_le_compat_r; lra.
      + apply Rmult_le_pos; [lra|]. apply Rmult_le_pos; lra. }
  assert (Lo : - (258 * u100) <= Q * A1).
  { assert (A1 <= 258) by lra.
    destruct (Rle_lt_dec 0 Q) as [Q0|Q0].
    - apply Rle_trans with 0; [lra|apply Rmult_le_pos; lra].
    - apply Rle_trans with (- u100 * 258); [lra|].
      apply Rle_trans with (- u100 * A1); [apply Rmult_le_compat_neg_l; lra|apply Rmult_le_compat_r; lra]. }
  assert (BQA : Rabs (Q * A1) <= 70719 / 100000 * S).
  { apply Rabs_le. unfold u53, u100 in *. lra. }
  assert (S3 : 70720 / 100000 * S <= 3 * bpow radix2 1022) by lra.
  destruct (fmul_bounded _ _ F6 F5) as (F7 & R7).
  { fold Q A1. apply Rle_trans with (2 := max_3_1022). lra. }
  fold Q A1 in R7.
  assert (B7 : BR (fmul (fdiv (l_exp L c_exp_overflow) (fmul c_two g)) (fadd g f64_one))
               <= 7072 / 10000 * S).
  { rewrite R7. pose proof (rndR_err_rel (Q * A1)) as Er. apply Rabs_le_inv in Er.
    pose proof (Rle_abs (Q * A1)). unfold u53, u100 in *. lra. }
  destruct (fmin_le_r _ _ S2 F7) as (Fmax & Bmax). fold max_f_log in Fmax, Bmax.
  split; [exact Fmax|]. apply Rle_trans with (1 := Bmax). apply Rle_trans with (1 := B7).
  unfold S, PW, W. right. ring.
Qed.
End RangeLog.

(* ------------------------------------------------------------------ *)
(* 5. NewLogarithmicMappingWithGamma                                   *)
(* ------------------------------------------------------------------ *)
(* pointwise accuracy excess of Value (Index v) over alpha_of gamma; lam = |ln v| *)
Definition eps_acc (k : R) (m : gmap) (lam : R) : R := u53 * (2 * (k + 6) * lam + 2 * omega m + 12 * k + 71).

Lemma one_plus_inv_alpha (x : R) : 1 <= x -> (1 + / x) * (1 + alpha_of x) = 2.
Proof. intros Hx. unfold alpha_of. field. lra. Qed.

Section WithGammaLog.
Variable L : libm.
Variable k : R.
Hypothesis HL : logm_ok L k.
Variable g : f64.
Hypothesis Fg : fin g.
Hypothesis Hlg : lmin <= ln (BR g).
Hypothesis Hg1 : 1 <= BR g <= 256.
Variable off : f64.
Hypothesis Fo : fin off.
Hypothesis Bo : Rabs (BR off) <= 2048 * BR (multf_log L g).

(* the mapping the constructor returns *)
Definition mk_log : gmap :=
  {| gm_kind := MLog; gm_gamma := g; gm_off := off; gm_mult := multf_log L g;
     gm_min := min_f_log L g off; gm_max := max_f_log L g off |}.

Lemma gamma_log_gt_1 : 1 < BR g.
Proof.
  destruct Hg1 as [[H|H] _]; [exact H|exfalso].
  rewrite <- H, ln_1 in Hlg. unfold lmin in Hlg. lra.
Qed.

Lemma with_gamma_log_eq : with_gamma L MLog g off = Some mk_log.
Proof.
  unfold with_gamma.
  destruct (fle g f64_one) eqn:E.
  - apply (fle_spec g f64_one Fg f64_one_fin) in E. rewrite f64_one_BR in E. pose proof gamma_log_gt_1. lra.
  - reflexivity.
Qed.

Lemma mk_log_reasonable : log_reasonable mk_log.
Proof.
  destruct (mult_log_props L k HL g Fg Hlg Hg1) as (Fm & BM & _).
  unfold log_reasonable, mk_log. cbn [gm_kind gm_mult gm_off]. repeat split; try assumption; lra.
Qed.

Lemma mk_log_g0 : exp (1 / BR (gm_mult mk_log)) <= G0_log k g.
Proof. destruct (mult_log_props L k HL g Fg Hlg Hg1) as (_ & _ & _ & H). exact H. Qed.

Lemma mk_log_factor : value_factor_ok L mk_log (G0_log k g) ((3 * k + 13) * u53).
Proof.
  destruct (factor_log_props g Fg Hg1) as (F & F1 & E).
  destruct (G0_log_props L k HL g Hg1) as ((G1 & G2) & _ & G3).
  unfold value_factor_ok.
  assert (Ef : fadd f64_one (gm_accuracy L mk_log) = factor_log g) by reflexivity.
  rewrite Ef. split; [exact F|]. split; [exact F1|].
  pose proof (alpha_of_mono (BR g) (G0_log k g) ltac:(lra) G2) as Hm.
  apply Rabs_le_inv in E. apply Rabs_le. lra.
Qed.

Lemma mk_log_range_fin :
  fin (gm_min mk_log) /\ fin (gm_max mk_log) /\ bpow radix2 (-1022) <= BR (gm_min mk_log).
Proof.
  destruct (min_log_props L k HL g Fg Hlg Hg1 off Fo Bo) as (F1 & B1 & _).
  destruct (max_log_props L k HL g Fg Hlg Hg1 off Fo Bo) as (F2 & _).
  cbn [gm_min gm_max mk_log]. split; [exact F1|]. split; [exact F2|exact B1].
Qed.

(* a finite v with MinIndexableValue < v <= MaxIndexableValue is a normal float, its index is an int32, and
   LowerBound(Index v) calls math.Exp where it is accurate *)
Lemma mk_log_in_range (v : f64) :
  fin v -> BR (gm_min mk_log) < BR v -> BR v <= BR (gm_max mk_log) ->
  pos_normal v /\ exp_range mk_log (gm_index L mk_log v) /\
  (-2147483648 <= gm_index L mk_log v <= 2147483647)%Z.
Proof.
  intros Fv Hlo Hhi. cbn [gm_min gm_max mk_log] in Hlo, Hhi.
  destruct (min_log_props L k HL g Fg Hlg Hg1 off Fo Bo) as (_ & B1 & B1').
  destruct (max_log_props L k HL g Fg Hlg Hg1 off Fo Bo) as (_ & B2).
  destruct (mult_log_props L k HL g Fg Hlg Hg1) as (Fm & BM & (_ & IM) & _).
  pose proof (lg_le g Hg1) as Hl. pose proof gamma_log_gt_1 as G1.
  pose proof (bpow_gt_0 radix2 (-1022)) as Hp.
  assert (Pv : 0 < BR v) by lra.
  assert (Hv : pos_normal v) by (split; [exact Fv|lra]).
  split; [exact Hv|]. unfold exp_range.
  pose proof mk_log_reasonable as Hm.
  destruct (lg_args L k HL mk_log Hm v Fv Pv) as (A1 & A2 & _).
  destruct (lg_index_brackets L k HL mk_log Hm v Fv Pv) as (_ & _ & I3).
  cbn [gm_mult mk_log] in A1, A2, I3.
  pose proof (ln_float_bound v Fv Pv) as BL.
  assert (L0 : 0 <= Rabs (ln (BR v)) <= 745) by (split; [apply Rabs_pos|apply Rabs_le; lra]).
  pose proof (omega_bound mk_log Hm) as Ho. destruct (lg_k _ _ HL) as (K0 & K1).
  set (X := u53 * ((k + 6) * Rabs (ln (BR v)) + omega mk_log + 19)) in *.
  assert (HX : 0 <= X <= / 68719476736).
  { unfold X. assert (H1 : 0 <= (k + 6) * Rabs (ln (BR v)) <= 70 * 745).
    { split; [apply Rmult_le_pos; lra|apply Rmult_le_compat; lra]. }
    unfold u53. split; [apply Rmult_le_pos; lra|lra]. }
  remember (gm_index L mk_log v) as i eqn:Eqi.
  remember (BR (lower_arg mk_log i)) as t eqn:Et.
  remember (BR (multf_log L g)) as M eqn:EM. remember (BR g) as A eqn:EA.
  pose proof ln2_enclosure as (H2lo & H2hi). unfold ln2_lo, ln2_hi in *.
  split; [split|].
  - (* -709 <= t *)
    assert (Lv : IZR (-1022) * ln 2 + ln A - 2 * u53 <= ln (BR v)).
    { apply Rle_trans with (ln (bpow radix2 (-1022) * A * (1 - u53))).
      - rewrite !ln_mult; try lra; [|apply Rmult_lt_0_compat; lra|unfold u53; lra].
        rewrite ln_bpow.
        pose proof (ln_1p_ge' (- u53) ltac:(unfold u53; lra)) as H.
        replace (1 + - u53) with (1 - u53) in H by ring.
        assert (- (2 * u53) <= - u53 / (1 - u53)).
        { apply le_div_intro; unfold u53; lra. }
        lra.
      - apply ln_le_mono; [|lra]. apply Rmult_lt_0_compat; [apply Rmult_lt_0_compat; lra|unfold u53; lra]. }
    assert (Hy : 0 <= ln A * ((k + 3) * u53) <= 556 / 100 * (67 * u53)).
    { unfold lmin in Hlg. split; [apply Rmult_le_pos; [lra|apply Rmult_le_pos; unfold u53; lra]|].
      apply Rmult_le_compat; try lra. apply Rmult_le_pos; unfold u53; lra. apply Rmult_le_compat_r; unfold u53; lra. }
    replace (ln A * (1 + (k + 3) * u53)) with (ln A + ln A * ((k + 3) * u53)) in IM by ring.
    replace (IZR (-1022)) with (-1022) in Lv by reflexivity.
    unfold u53 in *. lra.
  - (* exp t <= 2^1023 * 3/2 *)
    rewrite <- bpow_pow2.
    set (P := bpow radix2 1023) in *. assert (PP : 0 < P) by apply bpow_gt_0.
    apply Rle_trans with (exp (ln (BR v) + X)); [apply exp_le_mono; exact A1|].
    rewrite exp_plus, exp_ln by exact Pv.
    assert (EX : exp X <= 1 + X * (1 + q20)) by (apply exp_le_lin; lra).
    assert (W1 : / A <= 1) by (rewrite <- Rinv_1; apply Rinv_le_contravar; lra).
    assert (W0 : 0 < / A) by (apply Rinv_0_lt_compat; lra).
    apply Rle_trans with (P * (7072 / 10000) * (1 + / A) * (1 + X * (1 + q20))).
    + apply Rmult_le_compat; try lra. apply Rlt_le, exp_pos.
    + rewrite !Rmult_assoc. apply Rmult_le_compat_l; [lra|].
      apply Rle_trans with (7072 / 10000 * (2 * (1 + / 1000))); [|lra].
      apply Rmult_le_compat_l; [lra|]. unfold q20. apply Rmult_le_compat; lra.
  - (* int32 *)
    assert (B : Rabs (IZR i) <= 2147483647) by (apply Rle_trans with (1 := I3); lra).
    apply Rabs_le_inv in B. split; apply le_IZR; lra.
Qed.

Lemma mk_log_value_fin (v : f64) :
  fin v -> BR (gm_min mk_log) < BR v -> BR v <= BR (gm_max mk_log) ->
  fin (gm_value L mk_log (gm_index L mk_log v)).
Proof.
  intros Fv Hlo Hhi.
  destruct (mk_log_in_range v Fv Hlo Hhi) as (Hv & Ri & _).
  pose proof (bpow_gt_0 radix2 (-1022)) as Hp.
  assert (Pv : 0 < BR v) by (destruct Hv; lra).
  pose proof mk_log_reasonable as Hm.
  destruct (lg_containment L k HL mk_log Hm v Fv Pv) as (C & _). destruct (C Ri) as (Fl & Pl & K1 & _). clear C.
  destruct mk_log_factor as (FF & F1 & _).
  destruct (factor_log_props g Fg Hg1) as (_ & _ & EF).
  assert (Ef : fadd f64_one (gm_accuracy L mk_log) = factor_log g) by reflexivity.
  destruct (max_log_props L k HL g Fg Hlg Hg1 off Fo Bo) as (_ & B2).
  pose proof (ln_float_bound v Fv Pv) as BL.
  assert (L0 : 0 <= Rabs (ln (BR v)) <= 745) by (split; [apply Rabs_pos|apply Rabs_le; lra]).
  pose proof (eps_lo_small L k HL mk_log Hm _ L0) as He.
  cbn [gm_max mk_log] in Hhi. pose proof gamma_log_gt_1 as G1.
  unfold gm_value. apply fmul_bounded; [exact Fl|exact FF|].
  apply Rle_trans with (2 := max_3_1022). rewrite Ef in *.
  remember (BR (gm_lower L mk_log (gm_index L mk_log v))) as lo. remember (BR (factor_log g)) as F.
  remember (eps_lo k mk_log (Rabs (ln (BR v)))) as e. remember (BR g) as A.
  rewrite Rabs_pos_eq by (apply Rmult_le_pos; lra).
  set (Fr := 1 + alpha_of A) in *.
  pose proof (one_plus_inv_alpha A (proj1 Hg1)) as EFr. fold Fr in EFr.
  assert (W1 : 0 < / A <= 1) by (split; [apply Rinv_0_lt_compat; lra|rewrite <- Rinv_1; apply Rinv_le_contravar; lra]).
  set (P := bpow radix2 1023) in *. assert (PP : 0 < P) by apply bpow_gt_0.
  assert (EP : P = 2 * bpow radix2 1022).
  { unfold P. replace 1023%Z with (1 + 1022)%Z by lia. rewrite bpow_plus. reflexivity. }
  apply Rabs_le_inv in EF.
  assert (Blo : lo <= P * (7072 / 10000) * (1 + / A) * (1 + e)).
  { apply Rle_trans with (1 := K1). apply Rmult_le_compat_r; lra. }
  assert (PF : 0 < Fr <= 2) by (unfold Fr; pose proof (alpha_of_bounds A G1); lra).
  apply Rle_trans with (P * (7072 / 10000) * (1 + / A) * (1 + e) * (Fr + 4 * u53)).
  - apply Rmult_le_compat; lra.
  - replace (P * (7072 / 10000) * (1 + / A) * (1 + e) * (Fr + 4 * u53))
      with (P * (7072 / 10000) * (1 + e) * ((1 + / A) * Fr + 4 * u53 * (1 + / A))) by ring.
    rewrite EFr.
    assert (H4 : 0 <= 4 * u53 * (1 + / A) <= 8 * u53).
    { split; [apply Rmult_le_pos; unfold u53; lra|]. replace (8 * u53) with (4 * u53 * 2) by ring.
      apply Rmult_le_compat_l; unfold u53; lra. }
    apply Rle_trans with (P * (7072 / 10000) * (1 + / 1000) * (2 + / 1000)).
    + unfold u53 in *. apply Rmult_le_compat.
      * apply Rmult_le_pos; lra.
      * lra.
      * apply Rmult_le_compat_l; lra.
      * lra.
    + lra.
Qed.

(* containment and accuracy on the whole indexable range of NewLogarithmicMappingWithGamma *)
Theorem with_gamma_log_accuracy (v : f64) :
  fin v -> BR (gm_min mk_log) < BR v -> BR v <= BR (gm_max mk_log) ->
  let i := gm_index L mk_log v in
  let lam := Rabs (ln (BR v)) in
  pos_normal v /\ exp_range mk_log i /\ (-2147483648 <= i <= 2147483647)%Z /\ fin (gm_value L mk_log i) /\
  fin (gm_lower L mk_log i) /\
  BR (gm_lower L mk_log i) <= BR v * (1 + eps_lo k mk_log lam) /\
  BR v <= BR (gm_lower L mk_log i) * exp (1 / BR (gm_mult mk_log)) * (1 + eps_lo k mk_log lam) /\
  (exp_range mk_log (i + 1) ->
     fin (gm_lower L mk_log (i + 1)) /\ BR v <= BR (gm_lower L mk_log (i + 1)) * (1 + eps_lo k mk_log lam)) /\
  Rabs (BR (gm_value L mk_log i) - BR v) <= (alpha_of (BR g) + eps_acc k mk_log lam) * BR v.
Proof.
  intros Fv Hlo Hhi i lam.
  destruct (mk_log_in_range v Fv Hlo Hhi) as (Hv & Ri & I32).
  pose proof (mk_log_value_fin v Fv Hlo Hhi) as FV.
  pose proof mk_log_reasonable as Hm.
  pose proof (bpow_gt_0 radix2 (-1022)) as Hp.
  assert (Pv : 0 < BR v) by (destruct Hv; lra).
  fold i in Ri, I32, FV.
  destruct (lg_containment L k HL mk_log Hm v Fv Pv) as (C1 & C2). fold i lam in C1, C2.
  destruct (C1 Ri) as (Fl & _ & K1 & K2).
  destruct (lg_k _ _ HL) as (K0 & K64).
  repeat (split; [assumption|]).
  assert (HeF : 0 <= (3 * k + 13) * u53 <= / 4194304) by (unfold u53; split; nra).
  pose proof (lg_value_accuracy L k HL mk_log Hm (G0_log k g) ((3 * k + 13) * u53) v mk_log_g0 HeF mk_log_factor
                Fv Pv Ri FV) as Acc.
  fold i lam in Acc.
  destruct (G0_log_props L k HL g Hg1) as (_ & _ & G3).
  apply Rle_trans with (1 := Acc). apply Rmult_le_compat_r; [lra|].
  pose proof (ln_float_bound v Fv Pv) as BL.
  assert (L0 : 0 <= lam <= 745) by (unfold lam; split; [apply Rabs_pos|apply Rabs_le; lra]).
  pose proof (omega_bound mk_log Hm) as Ho.
  unfold eps_acc, eps_lo.
  remember (k * lam) as KL.
  assert (HKL : 0 <= KL <= 64 * lam) by (rewrite HeqKL; split; [apply Rmult_le_pos; lra|apply Rmult_le_compat_r; lra]).
  replace ((k + 6) * lam) with (KL + 6 * lam) by (rewrite HeqKL; ring).
  replace (2 * (k + 6) * lam) with (2 * KL + 12 * lam) by (rewrite HeqKL; ring).
  unfold q20, u53 in *. lra.
Qed.
End WithGammaLog.

(* ------------------------------------------------------------------ *)
(* 6. NewLogarithmicMapping (relativeAccuracy) = NewDefaultMapping      *)
(* ------------------------------------------------------------------ *)
(* pointwise accuracy excess of Value (Index v) over the requested accuracy a; lam = |ln v| *)
Definition eps_a (k lam : R) : R := u53 * (2 * (k + 6) * lam + 12 * k + 73).

Section FromAccuracyLog.
Variable L : libm.
Variable k : R.
Hypothesis HL : logm_ok L k.
Variable a : f64.
Hypothesis Fa : fin a.
Hypothesis Ba : / 1000000 <= BR a <= 99 / 100.

Let ar := BR a.
Let gp := (1 + ar) / (1 - ar).           (* the ideal gamma (1+a)/(1-a) *)

Lemma g0f_log_props :
  fin (g0f a) /\ gp * (1 - 4 * u53) <= BR (g0f a) <= gp * (1 + 4 * u53) /\ 1 <= BR (g0f a) <= 256 /\
  lmin <= ln (BR (g0f a)) /\ alpha_of (BR (g0f a)) <= ar + 2 * u53.
Proof.
  fold ar in Ba.
  assert (Hu : 0 < u53 < / 1000000) by (unfold u53; lra).
  destruct (fadd_bounded f64_one a f64_one_fin Fa) as (F1 & R1).
  { rewrite f64_one_BR. fold ar. apply (small_le_max 2); [lia|]. apply Rabs_le. lra. }
  destruct (fsub_bounded f64_one a f64_one_fin Fa) as (F2 & R2).
  { rewrite f64_one_BR. fold ar. apply (small_le_max 2); [lia|]. apply Rabs_le. lra. }
  rewrite f64_one_BR in R1, R2. fold ar in R1, R2.
  assert (N0 : forall x, / 100 <= x -> bpow radix2 (-1022) <= Rabs x).
  { intros x Hx. rewrite Rabs_pos_eq by lra. apply Rle_trans with (bpow radix2 (-7)); [apply bpow_le; lia|].
    change (bpow radix2 (-7)) with (/ 128). lra. }
  assert (E1 : Rabs (BR (fadd f64_one a) - (1 + ar)) <= u53 * (1 + ar)).
  { rewrite R1. pose proof (rndR_err_normal (1 + ar) (N0 (1 + ar) ltac:(lra))) as E.
    rewrite (Rabs_pos_eq (1 + ar)) in E by lra. exact E. }
  assert (E2 : Rabs (BR (fsub f64_one a) - (1 - ar)) <= u53 * (1 - ar)).
  { rewrite R2. pose proof (rndR_err_normal (1 - ar) (N0 (1 - ar) ltac:(lra))) as E.
    rewrite (Rabs_pos_eq (1 - ar)) in E by lra. exact E. }
  assert (S1 : 1 <= BR (fadd f64_one a)).
  { rewrite R1. apply rndR_ge; [apply (fmt_IZR 1); lia|lra]. }
  assert (S2 : BR (fsub f64_one a) <= 1).
  { rewrite R2. apply rndR_le'; [apply (fmt_IZR 1); lia|lra]. }
  apply Rabs_le_inv in E1, E2.
  remember (BR (fadd f64_one a)) as s1. remember (BR (fsub f64_one a)) as s2.
  assert (Hgp : gp * (1 - ar) = 1 + ar) by (unfold gp; field; lra).
  assert (Bgp : 1 <= gp <= 199).
  { unfold gp. split; [apply le_div_intro; lra|apply div_le_intro; lra]. }
  assert (P2 : / 200 <= s2) by (assert (0 <= u53 * (1 - ar) <= u53) by (split; [apply Rmult_le_pos; lra|rewrite <- (Rmult_1_r u53) at 2; apply Rmult_le_compat_l; lra]); lra).
  assert (Q : gp * (1 - 2 * u53) <= s1 / s2 <= gp * (1 + 5 / 2 * u53)).
  { split.
    - apply le_div_intro; [lra|].
      apply Rle_trans with (gp * (1 - 2 * u53) * ((1 - ar) * (1 + u53))).
      + apply Rmult_le_compat_l; [apply Rmult_le_pos; lra|lra].
      + replace (gp * (1 - 2 * u53) * ((1 - ar) * (1 + u53))) with (gp * (1 - ar) * ((1 - 2 * u53) * (1 + u53))) by ring.
        rewrite Hgp. apply Rle_trans with ((1 + ar) * (1 - u53)); [|lra].
        apply Rmult_le_compat_l; [lra|]. unfold u53. lra.
    - apply div_le_intro; [lra|].
      apply Rle_trans with (gp * (1 + 5 / 2 * u53) * ((1 - ar) * (1 - u53))).
      + replace (gp * (1 + 5 / 2 * u53) * ((1 - ar) * (1 - u53))) with (gp * (1 - ar) * ((1 + 5 / 2 * u53) * (1 - u53))) by ring.
        rewrite Hgp. apply Rle_trans with ((1 + ar) * (1 + u53)); [lra|].
        apply Rmult_le_compat_l; [lra|]. unfold u53. lra.
      + apply Rmult_le_compat_l; [apply Rmult_le_pos; lra|lra]. }
  assert (Q1 : 1 <= s1 / s2) by (apply le_div_intro; lra).
  assert (Q2 : s1 / s2 <= 200).
  { apply Rle_trans with (1 := proj2 Q). apply Rle_trans with (199 * (1 + 5 / 2 * u53)); [apply Rmult_le_compat_r; lra|lra]. }
  destruct (fdiv_bounded (fadd f64_one a) (fsub f64_one a) F1) as (F3 & R3).
  { rewrite <- Heqs2. lra. }
  { rewrite <- Heqs1, <- Heqs2. apply (small_le_max 200); [lia|]. apply Rabs_le. simpl (IZR 200). lra. }
  rewrite <- Heqs1, <- Heqs2 in R3. fold (g0f a) in F3, R3.
  assert (E3 : Rabs (BR (g0f a) - s1 / s2) <= u53 * (s1 / s2)).
  { rewrite R3. pose proof (rndR_err_normal (s1 / s2) (N0 (s1 / s2) ltac:(lra))) as E.
    rewrite (Rabs_pos_eq (s1 / s2)) in E by lra. exact E. }
  apply Rabs_le_inv in E3.
  assert (G1 : 1 <= BR (g0f a)).
  { rewrite R3. apply rndR_ge; [apply (fmt_IZR 1); lia|lra]. }
  assert (G2 : BR (g0f a) <= 256).
  { rewrite R3. apply rndR_le'; [apply (fmt_IZR 256); lia|lra]. }
  remember (s1 / s2) as q. remember (BR (g0f a)) as x.
  assert (B : gp * (1 - 4 * u53) <= x <= gp * (1 + 4 * u53)).
  { split.
    - apply Rle_trans with (gp * (1 - 2 * u53) * (1 - u53)).
      + rewrite Rmult_assoc. apply Rmult_le_compat_l; [lra|]. unfold u53. lra.
      + apply Rle_trans with (q * (1 - u53)); [apply Rmult_le_compat_r; lra|lra].
    - apply Rle_trans with (gp * (1 + 5 / 2 * u53) * (1 + u53)).
      + apply Rle_trans with (q * (1 + u53)); [lra|apply Rmult_le_compat_r; lra].
      + rewrite Rmult_assoc. apply Rmult_le_compat_l; [lra|]. unfold u53. lra. }
  split; [exact F3|]. split; [exact B|]. split; [lra|]. split.
  - (* ln x >= 1.99e-6 *)
    assert (Lgp : ar + ar / (1 + ar) <= ln gp).
    { unfold gp. rewrite ln_div by lra.
      pose proof (ln_1p_ge' ar ltac:(lra)) as H1. pose proof (ln_1p_le (- ar) ltac:(lra)) as H2.
      replace (1 + - ar) with (1 - ar) in H2 by ring. lra. }
    assert (Lx : ln gp - 8 * u53 <= ln x).
    { apply Rle_trans with (ln (gp * (1 - 4 * u53))); [|apply ln_le_mono; [apply Rmult_lt_0_compat; lra|lra]].
      rewrite ln_mult by lra.
      pose proof (ln_1p_ge' (- (4 * u53)) ltac:(lra)) as H.
      replace (1 + - (4 * u53)) with (1 - 4 * u53) in H by ring.
      assert (- (8 * u53) <= - (4 * u53) / (1 - 4 * u53)).
      { apply le_div_intro; unfold u53; lra. }
      lra. }
    unfold lmin.
    assert (/ 1000000 / (1 + / 1000000) <= ar / (1 + ar)).
    { set (w := / 1000000 / (1 + / 1000000)).
      assert (Hw : w * (1 + / 1000000) = / 1000000) by (unfold w; field; lra).
      assert (Bw : 0 <= w <= 1) by (unfold w; lra).
      apply le_div_intro; [lra|].
      assert (/ 1000000 * (1 - w) <= ar * (1 - w)) by (apply Rmult_le_compat_r; lra). lra. }
    assert (199 / 100000000 + / 100000000000 <= / 1000000 + / 1000000 / (1 + / 1000000)) by lra.
    unfold u53 in *. lra.
  - (* alpha_of x <= a + 2 u *)
    apply Rle_trans with (alpha_of (gp * (1 + 4 * u53))).
    + apply alpha_of_mono; lra.
    + assert (Ea : alpha_of gp = ar) by (unfold alpha_of, gp; field; lra).
      rewrite <- Ea. pose proof (alpha_of_perturb gp (4 * u53) (proj1 Bgp) ltac:(lra)). lra.
Qed.

(* the mapping NewLogarithmicMapping (a) returns: gamma = (1+a)/(1-a) as computed, indexOffset = 0 *)
Definition acc_map_log : gmap := mk_log L (g0f a) f64_zero.

Lemma acc_log_hyps :
  fin (g0f a) /\ lmin <= ln (BR (g0f a)) /\ 1 <= BR (g0f a) <= 256 /\
  fin f64_zero /\ Rabs (BR f64_zero) <= 2048 * BR (multf_log L (g0f a)).
Proof.
  destruct g0f_log_props as (Fg & _ & Hg1 & Hl & _).
  destruct (mult_log_props L k HL (g0f a) Fg Hl Hg1) as (Fm & BM & _).
  repeat split; try assumption; try lra. rewrite f64_zero_BR, Rabs_R0. lra.
Qed.

Lemma with_accuracy_log_eq : with_accuracy L MLog a = Some acc_map_log.
Proof.
  destruct acc_log_hyps as (Fg & Hl & Hg1 & _).
  unfold with_accuracy.
  assert (E1 : fle a f64_zero = false).
  { destruct (fle a f64_zero) eqn:E; [|reflexivity].
    apply (fle_spec a f64_zero Fa) in E; [|reflexivity]. change (BR f64_zero) with 0 in E. lra. }
  assert (E2 : fle f64_one a = false).
  { destruct (fle f64_one a) eqn:E; [|reflexivity].
    apply (fle_spec f64_one a f64_one_fin Fa) in E. rewrite f64_one_BR in E. lra. }
  rewrite E1, E2. cbn [orb]. cbv zeta. fold (g0f a).
  apply (with_gamma_log_eq L (g0f a) Fg Hl Hg1).
Qed.

Lemma acc_map_log_omega : omega acc_map_log = 0.
Proof. unfold omega, acc_map_log, mk_log. cbn [gm_off]. rewrite f64_zero_BR, Rabs_R0. unfold Rdiv. ring. Qed.

(* the headline: containment and accuracy on the whole indexable range, pointwise in |ln v| *)
Theorem with_accuracy_log_accuracy (v : f64) :
  fin v -> BR (gm_min acc_map_log) < BR v -> BR v <= BR (gm_max acc_map_log) ->
  let i := gm_index L acc_map_log v in
  let lam := Rabs (ln (BR v)) in
  let e := u53 * ((k + 6) * lam + 3 * k + 20) in
  pos_normal v /\ exp_range acc_map_log i /\ (-2147483648 <= i <= 2147483647)%Z /\
  fin (gm_value L acc_map_log i) /\ fin (gm_lower L acc_map_log i) /\
  BR (gm_lower L acc_map_log i) <= BR v * (1 + e) /\
  BR v <= BR (gm_lower L acc_map_log i) * exp (1 / BR (gm_mult acc_map_log)) * (1 + e) /\
  (exp_range acc_map_log (i + 1) ->
     fin (gm_lower L acc_map_log (i + 1)) /\ BR v <= BR (gm_lower L acc_map_log (i + 1)) * (1 + e)) /\
  Rabs (BR (gm_value L acc_map_log i) - BR v) <= (BR a + eps_a k lam) * BR v /\
  Rabs (BR (gm_value L acc_map_log i) - BR v) <= (BR a + q36) * BR v.
Proof.
  intros Fv Hlo Hhi i lam e. destruct acc_log_hyps as (Fg & Hl & Hg1 & Fo & Bo).
  destruct (with_gamma_log_accuracy L k HL (g0f a) Fg Hl Hg1 _ Fo Bo v Fv Hlo Hhi)
    as (Hv & Ri & I32 & FV & Fl & K1 & K2 & K3 & Acc).
  fold acc_map_log in Ri, I32, FV, Fl, K1, K2, K3, Acc. fold i lam in Ri, I32, FV, Fl, K1, K2, K3, Acc.
  assert (Ee : eps_lo k acc_map_log lam = e).
  { unfold eps_lo, e. rewrite acc_map_log_omega. ring. }
  rewrite Ee in K1, K2, K3.
  repeat (split; [assumption|]).
  destruct g0f_log_props as (_ & _ & _ & _ & Al). fold ar in Al.
  pose proof (bpow_gt_0 radix2 (-1022)) as Hp.
  assert (Pv : 0 < BR v) by (destruct Hv; lra).
  assert (A1 : Rabs (BR (gm_value L acc_map_log i) - BR v) <= (BR a + eps_a k lam) * BR v).
  { apply Rle_trans with (1 := Acc). apply Rmult_le_compat_r; [lra|].
    unfold eps_acc, eps_a. rewrite acc_map_log_omega. fold ar. unfold u53 in *. lra. }
  split; [exact A1|].
  apply Rle_trans with (1 := A1). apply Rmult_le_compat_r; [lra|].
  pose proof (ln_normal_bound v Hv) as BL. destruct (lg_k _ _ HL) as (K0 & K64).
  assert (L0 : 0 <= lam <= 7098 / 10) by (unfold lam; split; [apply Rabs_pos|apply Rabs_le; lra]).
  unfold eps_a.
  assert (H1 : 0 <= (k + 6) * lam <= 70 * (7098 / 10)).
  { split; [apply Rmult_le_pos; lra|apply Rmult_le_compat; lra]. }
  replace (2 * (k + 6) * lam) with (2 * ((k + 6) * lam)) by ring.
  unfold u53, q36. lra.
Qed.
End FromAccuracyLog.

From Coq Require Import List Permutation Sorted.
From SK Require Import Spec.Bins Spec.BinsProofs Spec.ASketch Store.Any Store.AnyProofs Stat.Summary
                       Sketch.Sketch Sketch.SketchProofs Sketch.RankProofs Sketch.RefineProofs
                       Sketch.RoundingInstance Sketch.BridgeProofs.
Import ListNotations.
Local Open Scope R_scope.
(* ------------------------------------------------------------------ *)
(* 7. the premises of Sketch/BridgeProofs and C01 end to end           *)
(* ------------------------------------------------------------------ *)
(* [log_bounded] is a consequence of the accuracy hypothesis; [log_monotone] is not (two close arguments may be
   rounded in opposite directions by an accurate but non-monotone function): it stays a premise of the end-to-end
   statement, where the sketch needs Index to be monotone *)
Lemma log_bounded_of_accurate (L : libm) (k : R) : logm_ok L k -> log_bounded L.
Proof.
  intros HL x Fx Px. destruct (log_value_bound L k x HL Fx Px) as (F & B). split; [exact F|lra].
Qed.

Section BridgeLog.
Variable L : libm.
Variable k : R.
Hypothesis HL : logm_ok L k.
Variable a : f64.
Hypothesis Fa : fin a.
Hypothesis Ba : / 1000000 <= BR a <= 99 / 100.

Let g := acc_map_log L a.

Lemma acc_map_log_kind : gm_kind g = MLog.
Proof. reflexivity. Qed.

Lemma acc_map_log_reasonable : log_reasonable g.
Proof.
  destruct (acc_log_hyps L k HL a Fa Ba) as (Fg & Hl & Hg1 & Fo & Bo).
  exact (mk_log_reasonable L k HL _ Fg Hl Hg1 _ Fo Bo).
Qed.

Lemma acc_map_log_small : gm_small g.
Proof.
  destruct (acc_log_hyps L k HL a Fa Ba) as (Fg & Hl & Hg1 & Fo & Bo).
  destruct (mult_log_props L k HL _ Fg Hl Hg1) as (Fm & BM & _).
  unfold gm_small, g, acc_map_log, mk_log. cbn [gm_mult gm_off].
  change (bpow radix2 20) with 1048576.
  split; [exact Fm|]. split; [exact Fo|]. split; [lra|]. rewrite f64_zero_BR, Rabs_R0. lra.
Qed.

Lemma acc_map_log_range_ok : gm_range_ok g.
Proof.
  destruct (acc_log_hyps L k HL a Fa Ba) as (Fg & Hl & Hg1 & Fo & Bo).
  exact (mk_log_range_fin L k HL _ Fg Hl Hg1 _ Fo Bo).
Qed.

(* the accuracy premise of gmap_log_quantile_accuracy_rnd64, for every finite value in the indexable range *)
Lemma acc_map_log_accuracy_Qc (alpha : Qc) (v : f64) :
  BR a + q36 <= qR alpha ->
  fin v -> (f2q (gm_min g) < f2q v)%Qc -> (f2q v <= f2q (gm_max g))%Qc ->
  (Qcabs (f2q (gm_value L g (gm_index L g v)) - f2q v) <= alpha * f2q v)%Qc.
Proof.
  intros Ha Fv Hlo Hhi. destruct acc_map_log_range_ok as (Fmin & Fmax & _).
  apply (f2q_lt_R _ _ Fmin Fv) in Hlo. apply (f2q_le_R _ _ Fv Fmax) in Hhi.
  destruct (with_accuracy_log_accuracy L k HL a Fa Ba v Fv Hlo Hhi) as (Hv & _ & _ & FV & _ & _ & _ & _ & _ & Acc).
  fold g in FV, Acc. pose proof (bpow_gt_0 radix2 (-1022)) as Hp.
  assert (Pv : 0 < BR v) by (destruct Hv; lra).
  apply Rabs_le_inv in Acc.
  assert (Hb : (BR a + q36) * BR v <= qR alpha * BR v) by (apply Rmult_le_compat_r; lra).
  apply Qcabs_Qcle_condition. split; apply qR_le.
  - rewrite qR_opp, qR_mult, qR_minus, !f2q_B2R by assumption. lra.
  - rewrite qR_mult, qR_minus, !f2q_B2R by assumption. lra.
Qed.

(* C01 end to end for the mapping built by NewLogarithmicMapping (a) (the default mapping): plain_add of the
   values then plain_quantile (binary64 rank arithmetic) answers within alpha of an order statistic, for every
   rational alpha >= a + 2^-36, under the hypotheses on the oracle only (accuracy, and monotonicity of math.Log) *)
Theorem C01_log_end_to_end
  (fx : fixes) (m : mapid) (kp kn : kind) (exact : bool)
  (vs : list f64) (ys : list Qc) (q : f64) (alpha : Qc) :
  log_monotone L ->
  BR a + q36 <= qR alpha ->
  kind_limit kp = Exact -> kind_limit kn = Exact ->
  fD4 fx = true -> fD5 fx = true ->
  Forall (fun v => f_is_finite v = true) vs ->
  (forall v, In v vs -> (Qcabs (f2q v) <= f2q (gm_max g))%Qc) ->
  Permutation (map f2q vs) ys -> Sorted Qcle ys -> vs <> [] -> (Z.of_nat (length vs) <= 2 ^ 53)%Z ->
  fle f64_zero q = true -> fle q f64_one = true ->
  let mt := mt_of_gmap L g in
  exists s, plain_add_units mt (sk_new m kp kn exact) vs = ROk s /\ SkInv s /\
  exists (kk : nat) (s' : sketch) (y : Qc),
    (cfloor (f2q q * inj (Z.of_nat (length vs) - 1)) <= Z.of_nat kk <= cceil (f2q q * inj (Z.of_nat (length vs) - 1)))%Z /\
    (kk < length vs)%nat /\
    plain_quantile rnd64 fx mt s q = (s', ROk y) /\ SkInv s' /\ sk_abs s' = sk_abs s /\
    y = repr (am_of mt) (nth kk ys w0) /\
    (((Qcabs (nth kk ys w0) <= f2q (gm_min g))%Qc /\ y = w0) \/
     (Qcabs (y - nth kk ys w0) <= alpha * Qcabs (nth kk ys w0))%Qc).
Proof.
  intros Hmono Ha Hkp Hkn H4 H5 Hfin Hmax Hperm Hsort Hne Hlen Hq0 Hq1.
  apply (gmap_log_quantile_accuracy_rnd64 L g fx m kp kn exact vs ys q alpha acc_map_log_kind Hmono
           (log_bounded_of_accurate L k HL)
           acc_map_log_small acc_map_log_range_ok Hkp Hkn H4 H5 Hfin Hmax Hperm Hsort Hne Hlen Hq0 Hq1).
  intros v Hin Hlo.
  assert (Fv : fin v) by (rewrite Forall_forall in Hfin; exact (Hfin v Hin)).
  apply acc_map_log_accuracy_Qc; [exact Ha|apply fabs_fin; exact Fv|exact Hlo|].
  rewrite (f2q_fabs v Fv). exact (Hmax v Hin).
Qed.
End BridgeLog.

(* ------------------------------------------------------------------ *)
(* 8. the hypotheses are satisfiable: a correctly rounded oracle       *)
(* ------------------------------------------------------------------ *)
Definition L_ideal_log : libm :=
  {| l_log := fun x => R2F (ln (BR x));
     l_exp := fun x => if Rle_dec (exp (BR x)) (pow2 1023 * (3 / 2)) then R2F (exp (BR x)) else f64_pinf;
     l_exp2 := l_exp2 L_ideal; l_log2 := l_log2 L_ideal; l_pow := l_pow L_ideal;
     l_cbrt := fun x => x; l_sqrt := fun x => x; l_floor := fl_floor |}.

Theorem L_ideal_log_ok : logm_ok L_ideal_log 1.
Proof.
  constructor.
  - lra.
  - (* log *)
    intros x Fx Px. cbn [l_log L_ideal_log]. pose proof (ln_float_bound x Fx Px) as B.
    destruct (R2F_correct (ln (BR x))) as (F & E).
    { apply (small_le_max 745); [lia|]. apply Rabs_le. simpl. lra. }
    split; [exact F|]. rewrite E, !Rmult_1_l. apply rndR_err_sub.
  - (* exp *)
    intros x Fx B0 Bx. cbn [l_exp L_ideal_log]. pose proof (exp_pos (BR x)) as Pe.
    destruct (Rle_dec (exp (BR x)) (pow2 1023 * (3 / 2))) as [_|N]; [|lra].
    destruct (R2F_correct (exp (BR x))) as (F & E).
    { rewrite Rabs_pos_eq by lra. apply Rle_trans with (1 := Bx). exact pow2_1023_max. }
    split; [exact F|]. rewrite E, !Rmult_1_l.
    pose proof (rndR_err_sub (exp (BR x))) as H. rewrite (Rabs_pos_eq (exp (BR x))) in H by lra. exact H.
  - (* exp, underflow *)
    intros x Fx Bx. cbn [l_exp L_ideal_log].
    set (r := exp (BR x)). assert (Pr : 0 < r) by apply exp_pos.
    assert (Br : r <= bpow radix2 (-1100)).
    { unfold r. rewrite bpow_pow2, pow2_exp. apply exp_le_mono.
      pose proof ln2_enclosure as (_ & H). unfold ln2_hi in H.
      replace (IZR (-1100)) with (-1100) by reflexivity. lra. }
    assert (B1 : bpow radix2 (-1100) <= 1).
    { change 1 with (bpow radix2 0). apply bpow_le. lia. }
    pose proof (pow2_le 0 1023 ltac:(lia)) as P0. rewrite pow2_0 in P0.
    destruct (Rle_dec r (pow2 1023 * (3 / 2))) as [_|N]; [|lra].
    destruct (R2F_correct r) as (F & E).
    { apply Rle_trans with (bpow radix2 0); [|apply bpow_le_max; lia].
      rewrite Rabs_pos_eq by lra. change (bpow radix2 0) with 1. lra. }
    split; [exact F|]. rewrite E.
    apply Rle_trans with (bpow radix2 (-1074)); [|apply bpow_le; lia].
    unfold rndR. apply abs_round_le_generic.
    + exact fexp64_valid.
    + apply valid_rnd_N.
    + apply generic_format_bpow. unfold FLT_exp. lia.
    + rewrite Rabs_pos_eq by lra. apply Rle_trans with (1 := Br). apply bpow_le. lia.
  - (* exp is +Inf or finite *)
    intros x Fx. cbn [l_exp L_ideal_log].
    destruct (Rle_dec (exp (BR x)) (pow2 1023 * (3 / 2))) as [B|N]; [left|right; reflexivity].
    pose proof (exp_pos (BR x)) as Pe.
    destruct (R2F_correct (exp (BR x))) as (F & _); [|exact F].
    rewrite Rabs_pos_eq by lra. apply Rle_trans with (1 := B). exact pow2_1023_max.
Qed.

Theorem L_ideal_log_monotone : log_monotone L_ideal_log.
Proof.
  intros x y Fx Fy Px Hxy. cbn [l_log L_ideal_log].
  pose proof (ln_float_bound x Fx Px) as Bx. pose proof (ln_float_bound y Fy ltac:(lra)) as By.
  destruct (R2F_correct (ln (BR x))) as (_ & Ex).
  { apply (small_le_max 745); [lia|]. apply Rabs_le. simpl. lra. }
  destruct (R2F_correct (ln (BR y))) as (_ & Ey).
  { apply (small_le_max 745); [lia|]. apply Rabs_le. simpl. lra. }
  rewrite Ex, Ey. apply rndR_le. apply ln_le_mono; assumption.
Qed.

(* ------------------------------------------------------------------ *)
(* 9. summaries (what Props/GlueLog.v restates)                        *)
(* ------------------------------------------------------------------ *)
Theorem with_gamma_log_summary (L : libm) (k : R) (g off : f64) :
  logm_ok L k -> fin g -> lmin <= ln (BR g) -> 1 <= BR g <= 256 ->
  fin off -> Rabs (BR off) <= 2048 * BR (multf_log L g) ->
  let m := mk_log L g off in
  with_gamma L MLog g off = Some m /\ log_reasonable m /\
  (fin (gm_min m) /\ fin (gm_max m) /\ bpow radix2 (-1022) <= BR (gm_min m)) /\
  bpow radix2 (-1022) * BR g * (1 - u53) <= BR (gm_min m) /\
  BR (gm_max m) <= bpow radix2 1023 * (7072 / 10000) * (1 + / BR g) /\
  / 8 <= BR (gm_mult m) <= 524288 /\
  ln (BR g) * (1 - (k + 2) * u53) <= 1 / BR (gm_mult m) <= ln (BR g) * (1 + (k + 3) * u53) /\
  exp (1 / BR (gm_mult m)) <= BR g * (1 + 6 * (k + 3) * u53) /\
  value_factor_ok L m (BR g) (4 * u53).
Proof.
  intros HL Fg Hl Hg1 Fo Bo m.
  split; [exact (with_gamma_log_eq L g Fg Hl Hg1 off)|].
  split; [exact (mk_log_reasonable L k HL g Fg Hl Hg1 off Fo Bo)|].
  split; [exact (mk_log_range_fin L k HL g Fg Hl Hg1 off Fo Bo)|].
  destruct (min_log_props L k HL g Fg Hl Hg1 off Fo Bo) as (_ & _ & B1).
  destruct (max_log_props L k HL g Fg Hl Hg1 off Fo Bo) as (_ & B2).
  destruct (mult_log_props L k HL g Fg Hl Hg1) as (_ & BM & IM & EM).
  split; [exact B1|]. split; [exact B2|]. split; [exact BM|]. split; [exact IM|]. split; [exact EM|].
  exact (factor_log_props g Fg Hg1).
Qed.

Theorem with_accuracy_log_summary (L : libm) (k : R) (a : f64) :
  logm_ok L k -> fin a -> / 1000000 <= BR a <= 99 / 100 ->
  let m := acc_map_log L a in
  let gp := (1 + BR a) / (1 - BR a) in
  with_accuracy L MLog a = Some m /\ gm_kind m = MLog /\ gm_off m = f64_zero /\
  log_reasonable m /\ gm_small m /\ gm_range_ok m /\
  gp * (1 - 4 * u53) <= BR (gm_gamma m) <= gp * (1 + 4 * u53) /\
  alpha_of (BR (gm_gamma m)) <= BR a + 2 * u53 /\
  exp (1 / BR (gm_mult m)) <= BR (gm_gamma m) * (1 + 6 * (k + 3) * u53) /\
  value_factor_ok L m (BR (gm_gamma m)) (4 * u53).
Proof.
  intros HL Fa Ba m gp.
  destruct (acc_log_hyps L k HL a Fa Ba) as (Fg & Hl & Hg1 & Fo & Bo).
  destruct (g0f_log_props a Fa Ba) as (_ & B & _ & _ & Al).
  split; [exact (with_accuracy_log_eq L k HL a Fa Ba)|].
  split; [reflexivity|]. split; [reflexivity|].
  split; [exact (acc_map_log_reasonable L k HL a Fa Ba)|].
  split; [exact (acc_map_log_small L k HL a Fa Ba)|].
  split; [exact (acc_map_log_range_ok L k HL a Fa Ba)|].
  split; [exact B|]. split; [exact Al|].
  destruct (mult_log_props L k HL _ Fg Hl Hg1) as (_ & _ & _ & EM).
  split; [exact EM|]. exact (factor_log_props _ Fg Hg1).
Qed.

(* the correctly rounded oracle builds, for every a in range, a mapping to which all of the above applies *)
Theorem ideal_log_instance (a v : f64) :
  fin a -> / 1000000 <= BR a <= 99 / 100 ->
  let m := acc_map_log L_ideal_log a in
  with_accuracy L_ideal_log MLog a = Some m /\
  (fin v -> BR (gm_min m) < BR v -> BR v <= BR (gm_max m) ->
   Rabs (BR (gm_value L_ideal_log m (gm_index L_ideal_log m v)) - BR v)
     <= (BR a + u53 * (14 * Rabs (ln (BR v)) + 85)) * BR v).
Proof.
  intros Fa Ba m. split; [exact (with_accuracy_log_eq L_ideal_log 1 L_ideal_log_ok a Fa Ba)|].
  intros Fv Hlo Hhi.
  destruct (with_accuracy_log_accuracy L_ideal_log 1 L_ideal_log_ok a Fa Ba v Fv Hlo Hhi)
    as (_ & _ & _ & _ & _ & _ & _ & _ & H & _).
  unfold eps_a in H. replace (2 * (1 + 6) * Rabs (ln (BR v)) + 12 * 1 + 73) with (14 * Rabs (ln (BR v)) + 85) in H by ring.
  exact H.
Qed.

(* ------------------------------------------------------------------ *)
(* 10. bin ratio of a logarithmic mapping (any index whose bounds are in the range of math.Exp) *)
(* ------------------------------------------------------------------ *)
Section BinRatioLog.
Variable L : libm.
Variable k : R.
Hypothesis HL : logm_ok L k.
Variable m : gmap.
Hypothesis Hm : log_reasonable m.

Lemma exp_range_abs (j : Z) : exp_range m j -> Rabs (BR (lower_arg m j)) <= 710.
Proof.
  intros (R1 & R2). apply Rabs_le. split; [lra|].
  remember (BR (lower_arg m j)) as t.
  pose proof (pow2_pos 1023) as Pp.
  assert (H : t <= ln (pow2 1023 * (3 / 2))).
  { rewrite <- (ln_exp t). apply ln_le_mono; [apply exp_pos|exact R2]. }
  rewrite ln_mult, ln_pow2 in H by lra.
  pose proof (ln_1p_le (/ 2) ltac:(lra)) as H1. replace (1 + / 2) with (3 / 2) in H1 by lra.
  pose proof ln2_enclosure as (_ & H2). unfold ln2_hi in H2.
  replace (IZR 1023) with 1023 in H by reflexivity. lra.
Qed.

Theorem lg_bin_ratio (j : Z) : (Z.abs j < 2 ^ 53)%Z -> exp_range m j -> exp_range m (j + 1) ->
  BR (gm_lower L m (j + 1))
    <= BR (gm_lower L m j) * exp (1 / BR (gm_mult m)) * (1 + (6 * k + 2860) * u53).
Proof.
  intros Hj Rj Rj1.
  destruct (lg_lower_arg_err m Hm j ltac:(lia)) as (_ & Ej).
  destruct (lg_lower_arg_err m Hm (j + 1) ltac:(lia)) as (_ & Ej1).
  destruct (lg_lower_val L k HL m Hm j ltac:(lia) Rj) as (_ & Lo & _).
  destruct (lg_lower_val L k HL m Hm (j + 1) ltac:(lia) Rj1) as (_ & _ & Up).
  pose proof (exp_range_abs j Rj) as Bt. pose proof (exp_range_abs (j + 1) Rj1) as Bt1.
  pose proof (kappa_small L k HL) as Hk.
  assert (Etj : tau m (j + 1) = tau m j + 1 / BR (gm_mult m)).
  { destruct Hm as (_ & _ & _ & BM & _). unfold tau. rewrite plus_IZR. field. lra. }
  rewrite Etj in Ej1.
  remember (BR (lower_arg m j)) as t. remember (BR (lower_arg m (j + 1))) as t1.
  remember (tau m j) as ta. remember (1 / BR (gm_mult m)) as iM.
  set (lo := BR (gm_lower L m j)) in *. set (lo1 := BR (gm_lower L m (j + 1))) in *.
  assert (Ba : Rabs ta <= 711).
  { assert (Rabs ta <= Rabs t + Rabs (t - ta)).
    { replace ta with (t - (t - ta)) at 1 by ring. apply Rle_trans with (1 := Rabs_triang _ _).
      rewrite Rabs_Ropp. lra. }
    pose proof (Rabs_pos ta). unfold u53, u100 in *. lra. }
  assert (Ba1 : Rabs (ta + iM) <= 711).
  { assert (Rabs (ta + iM) <= Rabs t1 + Rabs (t1 - (ta + iM))).
    { replace (ta + iM) with (t1 - (t1 - (ta + iM))) at 1 by ring. apply Rle_trans with (1 := Rabs_triang _ _).
      rewrite Rabs_Ropp. lra. }
    pose proof (Rabs_pos (ta + iM)). unfold u53, u100 in *. lra. }
  set (X := 2845 * u53).
  assert (HX : 0 <= X <= / 68719476736) by (unfold X, u53; lra).
  assert (A : t1 <= t + iM + X).
  { apply Rabs_le_inv in Ej, Ej1. unfold X, u53, u100 in *. lra. }
  pose proof (core_dn t1 t iM X (k * u53) lo A HX Hk Lo) as H.
  pose proof (exp_pos t1) as P1. pose proof (exp_pos iM) as PM.
  assert (Plo : 0 < lo).
  { apply Rlt_le_trans with (2 := Lo). apply Rmult_lt_0_compat; [apply exp_pos|lra]. }
  apply Rle_trans with (1 := Up).
  apply Rle_trans with (lo * exp iM * (1 + (X + 3 * (k * u53) + u53)) * (1 + 3 * (k * u53))).
  - apply Rmult_le_compat_r; lra.
  - rewrite Rmult_assoc. apply Rmult_le_compat_l; [apply Rmult_le_pos; lra|].
    replace ((6 * k + 2860) * u53) with (6 * (k * u53) + 2860 * u53) by ring.
    assert (k * u53 * (k * u53) <= / 140737488355328 * (k * u53)) by (apply Rmult_le_compat_r; lra).
    unfold X, u53 in *. nra.
Qed.
End BinRatioLog.
